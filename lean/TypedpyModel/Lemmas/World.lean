/-
  Lemmas/World.lean — invariants of the `World` model and the simulation between a history and the
  sub-history a set of classes depends on (C15).

  `Good`     : every cache entry equals the function it memoises for the class that reads it, every
               implicit-wrapper registry entry was put there for the class it checks, every installed
               serializer is the one a fresh `create_serializer` would build  ("CacheCoherent").
  `Sim`      : the full run and the sliced run agree on the stable part (what `StructMeta.__new__`
               fixed, and `_required`) of every class in `T`, on the flags, and are both `Good`.
-/
import TypedpyModel.Sem.World
set_option linter.unusedSimpArgs false
namespace Typedpy.World

/-! ### association lists -/

theorem alookup_cons_eq {κ ν : Type} [DecidableEq κ] (k : κ) (v : ν) (m : List (κ × ν)) :
    alookup k ((k, v) :: m) = some v := by simp [alookup]

theorem alookup_cons_ne {κ ν : Type} [DecidableEq κ] {k k' : κ} (v : ν) (m : List (κ × ν)) (h : k' ≠ k) :
    alookup k ((k', v) :: m) = alookup k m := by simp [alookup, h]

theorem alookup_mem {κ ν : Type} [DecidableEq κ] {k : κ} {v : ν} :
    ∀ {m : List (κ × ν)}, alookup k m = some v → (k, v) ∈ m
  | [], h => by simp [alookup] at h
  | (k', v') :: m, h => by
    by_cases hk : k' = k
    · subst hk
      simp [alookup] at h
      subst h
      simp
    · rw [alookup_cons_ne _ _ hk] at h
      exact List.mem_cons_of_mem _ (alookup_mem h)

/-! ### the stable part of a class entry -/

def Entry.stable (e : Entry) : Core × List String := (e.core, e.required)

/-- stable part of class `d` in world `w` -/
def lookS (w : World) (d : ClassId) : Option (Core × List String) := (alookup d w.classes).map Entry.stable

/-- keys the serializer of a class emits when built from the class's own mapper -/
def canonKeys (e : Entry) : List String := (fnames e.core.fields).map (mappedKey (mapperOf e false))

structure Good (cfg : Config) (W : List (String × TypeId)) (w : World) : Prop where
  reg : ∀ p ∈ w.wrappers, ∃ n, p.1 = wkey cfg n p.2 ∧ (n, p.2) ∈ W
  mapper : ∀ p ∈ w.mapperCache, ∃ c e b, alookup c w.classes = some e ∧ p.1 = CKey.id c b ∧ p.2 = mapperOf e b
  simpl : ∀ p ∈ w.simplicityCache, ∃ c e, alookup c w.classes = some e ∧ p.1 = CKey.id c false ∧ p.2 = e.core.simple
  ser : ∀ c e, alookup c w.classes = some e → ∀ s, e.serializer = some s → s = canonKeys e

theorem good_initial (cfg : Config) (W : List (String × TypeId)) : Good cfg W World.initial :=
  ⟨by simp [World.initial], by simp [World.initial], by simp [World.initial],
   by intro c e h; simp [World.initial, alookup] at h⟩

theorem cachesById_iff (cfg : Config) :
    cfg.cachesById = true ↔ cfg.mapperByName = false ∧ cfg.simplicityByName = false ∧ cfg.serializerOnBase = false
      ∧ cfg.mapperDropsCamel = false := by
  cases cfg with
  | mk a b b2 c d e => cases b <;> cases b2 <;> cases c <;> cases e <;> simp [Config.cachesById]

/-! ### a coherent cache is invisible -/

theorem mkey_id {cfg : Config} (hc : cfg.cachesById = true) (c : ClassId) (e : Entry) (b : Bool) :
    mkey cfg c e b = CKey.id c b := by
  simp [mkey, ((cachesById_iff cfg).1 hc).1, ((cachesById_iff cfg).1 hc).2.2.2]

theorem skey_id {cfg : Config} (hc : cfg.cachesById = true) (c : ClassId) (e : Entry) :
    skey cfg c e = CKey.id c false := by
  simp [skey, ((cachesById_iff cfg).1 hc).2.1]

theorem installTarget_self {cfg : Config} (hc : cfg.cachesById = true) (c : ClassId) (e : Entry) :
    installTarget cfg c e = c := by
  simp [installTarget, ((cachesById_iff cfg).1 hc).2.2.1]

/-- class `c` is defined in `w` with the same definition-time core as `e` -/
def Has (w : World) (c : ClassId) (e : Entry) : Prop := ∃ e0, alookup c w.classes = some e0 ∧ e0.core = e.core

theorem has_self {w : World} {c : ClassId} {e : Entry} (hl : alookup c w.classes = some e) : Has w c e :=
  ⟨e, hl, rfl⟩

theorem mapperOf_core {e e' : Entry} (h : e'.core = e.core) (b : Bool) : mapperOf e' b = mapperOf e b := by
  unfold mapperOf; rw [h]

theorem serMapper_eq' {cfg : Config} {W} {w : World} (hc : cfg.cachesById = true) (g : Good cfg W w)
    {c : ClassId} {e : Entry} (hh : Has w c e) (b : Bool) : serMapper cfg w c e b = mapperOf e b := by
  obtain ⟨e0, hl, hcore⟩ := hh
  unfold serMapper
  rw [mkey_id hc]
  cases hk : alookup (CKey.id c b) w.mapperCache with
  | none => rfl
  | some m =>
    obtain ⟨c', e', b', hl', hkey, hval⟩ := g.mapper _ (alookup_mem hk)
    simp only at hkey hval
    cases hkey
    rw [hl] at hl'
    cases hl'
    simp [hval, mapperOf_core hcore]

theorem serMapper_eq {cfg : Config} {W} {w : World} (hc : cfg.cachesById = true) (g : Good cfg W w)
    {c : ClassId} {e : Entry} (hl : alookup c w.classes = some e) (b : Bool) :
    serMapper cfg w c e b = mapperOf e b :=
  serMapper_eq' hc g (has_self hl) b

theorem trustedOf_eq {cfg : Config} {W} {w : World} (hc : cfg.cachesById = true) (g : Good cfg W w)
    {c : ClassId} {e : Entry} (hl : alookup c w.classes = some e) : trustedOf cfg w c e = e.core.simple := by
  unfold trustedOf
  rw [skey_id hc]
  cases hk : alookup (CKey.id c false) w.simplicityCache with
  | none => rfl
  | some m =>
    obtain ⟨c', e', hl', hkey, hval⟩ := g.simpl _ (alookup_mem hk)
    simp only at hkey hval
    cases hkey
    rw [hl] at hl'
    cases hl'
    simp [hval]

/-- what a class does, as a function of its stable part and the current flags alone -/
def idealBehaviour (flags : Flags) (core : Core) (required : List String) : Behaviour where
  fields := core.fields
  sigRequired := core.sigRequired
  required := required
  kwargs := core.kwargs
  extras := core.addPropsAttr.getD flags.addProps
  compact := flags.compact
  failFast := flags.failFast
  serMapper := core.fields.map fun f => (f.name, f.serKey)
  serMapperCamel := core.fields.map fun f => (f.name, f.camelKey)
  fastKeys := if core.src.fast then
      some ((fnames core.fields).map (mappedKey (core.fields.map fun f => (f.name, f.serKey)))) else none
  trusted := core.simple
  schemaRequired := schemaRequiredOf (core.fields.map fun f => (f.name, f.serKey))
    (core.addPropsAttr.getD flags.addProps) core.fields required

theorem behaviourOf_eq_ideal {cfg : Config} {W} {w : World} (hc : cfg.cachesById = true) (g : Good cfg W w)
    {c : ClassId} {e : Entry} (hl : alookup c w.classes = some e) :
    behaviourOf cfg w c e = idealBehaviour w.flags e.core e.required := by
  have h1 := serMapper_eq hc g hl false
  have h1c := serMapper_eq hc g hl true
  have h2 := trustedOf_eq hc g hl
  unfold behaviourOf idealBehaviour
  simp only [h1, h1c, h2, extrasOf, fastKeysNow, mapperOf, Bool.false_eq_true, if_false, if_true]
  congr 1
  cases hs : e.serializer with
  | none => simp
  | some s =>
    have := g.ser c e hl s hs
    simp [this, canonKeys, mapperOf]

theorem view_eq_of_lookS {cfg : Config} {W} {w w' : World} (hc : cfg.cachesById = true)
    (g : Good cfg W w) (g' : Good cfg W w') (hf : w.flags = w'.flags) {c : ClassId}
    (hs : lookS w c = lookS w' c) : view cfg w c = view cfg w' c := by
  unfold view
  unfold lookS at hs
  cases hl : alookup c w.classes with
  | none =>
    rw [hl] at hs
    cases hl' : alookup c w'.classes with
    | none => rfl
    | some e' => rw [hl'] at hs; simp at hs
  | some e =>
    rw [hl] at hs
    cases hl' : alookup c w'.classes with
    | none => rw [hl'] at hs; simp at hs
    | some e' =>
      rw [hl'] at hs
      simp only [Option.map_some, Option.some.injEq, Entry.stable, Prod.mk.injEq] at hs
      simp only [Option.map_some, behaviourOf_eq_ideal hc g hl, behaviourOf_eq_ideal hc g' hl', hf, hs.1, hs.2]

/-! ### operations other than `define` preserve `Good`, every stable part and the flags -/

/-- `w2` is a coherent world with the same stable parts and flags as `w` -/
def Pres (cfg : Config) (W : List (String × TypeId)) (w w2 : World) : Prop :=
  Good cfg W w2 ∧ (∀ d, lookS w2 d = lookS w d) ∧ w2.flags = w.flags

theorem pres_refl {cfg W} {w : World} (g : Good cfg W w) : Pres cfg W w w := ⟨g, fun _ => rfl, rfl⟩

theorem pres_trans {cfg W} {w w2 w3 : World} (h1 : Pres cfg W w w2) (h2 : Pres cfg W w2 w3) : Pres cfg W w w3 :=
  ⟨h2.1, fun d => (h2.2.1 d).trans (h1.2.1 d), h2.2.2.trans h1.2.2⟩

theorem has_of_pres {cfg W} {w w2 : World} {c : ClassId} {e : Entry} (h : Pres cfg W w w2) (hh : Has w c e) :
    Has w2 c e := by
  obtain ⟨e0, hl, hcore⟩ := hh
  have := h.2.1 c
  unfold lookS at this
  rw [hl] at this
  cases hl2 : alookup c w2.classes with
  | none => rw [hl2] at this; simp at this
  | some e2 =>
    rw [hl2] at this
    simp only [Option.map_some, Option.some.injEq, Entry.stable, Prod.mk.injEq] at this
    exact ⟨e2, hl2, this.1.trans hcore⟩

theorem pres_fillMapper {cfg W} {w : World} (hc : cfg.cachesById = true) (g : Good cfg W w)
    {c : ClassId} {e : Entry} (hh : Has w c e) (b : Bool := false) : Pres cfg W w (fillMapper cfg w c e b) := by
  unfold fillMapper
  cases hk : alookup (mkey cfg c e b) w.mapperCache with
  | some _ => exact pres_refl g
  | none =>
    refine ⟨⟨g.reg, ?_, g.simpl, g.ser⟩, fun _ => rfl, rfl⟩
    intro p hp
    simp only [List.mem_cons] at hp
    rcases hp with rfl | hp
    · obtain ⟨e0, hl, hcore⟩ := hh
      exact ⟨c, e0, b, hl, mkey_id hc c e b, (mapperOf_core hcore b).symm⟩
    · exact g.mapper p hp

theorem pres_fillSimplicity {cfg W} {w : World} (hc : cfg.cachesById = true) (g : Good cfg W w)
    {c : ClassId} {e : Entry} (hh : Has w c e) : Pres cfg W w (fillSimplicity cfg w c e) := by
  unfold fillSimplicity
  cases hk : alookup (skey cfg c e) w.simplicityCache with
  | some _ => exact pres_refl g
  | none =>
    refine ⟨⟨g.reg, g.mapper, ?_, g.ser⟩, fun _ => rfl, rfl⟩
    intro p hp
    simp only [List.mem_cons] at hp
    rcases hp with rfl | hp
    · obtain ⟨e0, hl, hcore⟩ := hh
      exact ⟨c, e0, hl, skey_id hc c e, by rw [hcore]⟩
    · exact g.simpl p hp

theorem canonKeys_core {e e' : Entry} (h : e'.core = e.core) : canonKeys e' = canonKeys e := by
  unfold canonKeys mapperOf; rw [h]

/-- overwriting the entry of `c` by one with the same stable part and a coherent serializer -/
theorem pres_setEntry {cfg W} {w : World} (g : Good cfg W w) {c : ClassId} {e e' : Entry}
    (hl : alookup c w.classes = some e) (hst : e'.stable = e.stable)
    (hser : ∀ s, e'.serializer = some s → s = canonKeys e') : Pres cfg W w (setEntry w c e') := by
  have hcore : e'.core = e.core := by
    have := congrArg Prod.fst hst
    simpa [Entry.stable] using this
  refine ⟨⟨g.reg, ?_, ?_, ?_⟩, ?_, rfl⟩
  · intro p hp
    obtain ⟨c0, e0, b0, hl0, hk, hv⟩ := g.mapper p hp
    by_cases h : c = c0
    · subst h
      rw [hl] at hl0; cases hl0
      exact ⟨c, e', b0, alookup_cons_eq _ _ _, hk, hv.trans (mapperOf_core hcore b0).symm⟩
    · exact ⟨c0, e0, b0, (alookup_cons_ne _ _ h).trans hl0, hk, hv⟩
  · intro p hp
    obtain ⟨c0, e0, hl0, hk, hv⟩ := g.simpl p hp
    by_cases h : c = c0
    · subst h
      rw [hl] at hl0; cases hl0
      exact ⟨c, e', alookup_cons_eq _ _ _, hk, by rw [hv, hcore]⟩
    · exact ⟨c0, e0, (alookup_cons_ne _ _ h).trans hl0, hk, hv⟩
  · intro c0 e0 hl0 s hs
    by_cases h : c = c0
    · subst h
      have : alookup c (setEntry w c e').classes = some e' := alookup_cons_eq _ _ _
      rw [this] at hl0; cases hl0
      exact hser s hs
    · have : alookup c0 (setEntry w c e').classes = alookup c0 w.classes := alookup_cons_ne _ _ h
      rw [this] at hl0
      exact g.ser c0 e0 hl0 s hs
  · intro d
    unfold lookS
    by_cases h : c = d
    · subst h
      have : alookup c (setEntry w c e').classes = some e' := alookup_cons_eq _ _ _
      rw [this, hl]
      simp [hst]
    · have : alookup d (setEntry w c e').classes = alookup d w.classes := alookup_cons_ne _ _ h
      rw [this]

theorem pres_installW {cfg W} {w : World} (hc : cfg.cachesById = true) (g : Good cfg W w)
    {c : ClassId} {e : Entry} (hh : Has w c e) : Pres cfg W w (installW cfg w c e) := by
  have p1 := pres_fillMapper hc g hh
  unfold installW
  simp only [installTarget_self hc]
  by_cases hf : fastAble e = true
  · simp only [hf, if_true]
    have hh1 := has_of_pres p1 hh
    obtain ⟨e1, hl1, hcore1⟩ := hh1
    simp only [hl1]
    refine pres_trans p1 (pres_setEntry p1.1 hl1 rfl ?_)
    intro s hs
    simp only [Option.some.injEq] at hs
    subst hs
    have hm := serMapper_eq' hc p1.1 (⟨e1, hl1, hcore1⟩ : Has (fillMapper cfg w c e) c e) false
    unfold fastKeysNow canonKeys
    simp only [hm]
    have : mapperOf { e1 with serializer := some ((fnames e.core.fields).map (mappedKey (mapperOf e false))), createdFast := true } false
        = mapperOf e false := mapperOf_core hcore1 false
    rw [this]
    simp [hcore1]
  · simp only [hf]
    exact p1

theorem pres_autoInstallW {cfg W} {w : World} (hc : cfg.cachesById = true) (g : Good cfg W w)
    {c : ClassId} {e : Entry} (hh : Has w c e) : Pres cfg W w (autoInstallW cfg w c e) := by
  unfold autoInstallW
  split
  · exact pres_installW hc g hh
  · exact pres_refl g

theorem pres_constructW {cfg W} {w : World} (hc : cfg.cachesById = true) (g : Good cfg W w)
    {c : ClassId} {e : Entry} (hh : Has w c e) (kw : List (String × Arg)) :
    Pres cfg W w (constructW cfg w c e kw) := by
  unfold constructW
  split
  · exact pres_autoInstallW hc g hh
  · exact pres_refl g

theorem pres_schemaW {cfg W} {w : World} (hc : cfg.cachesById = true) (g : Good cfg W w)
    {c : ClassId} {e : Entry} (hl : alookup c w.classes = some e)
    (hq : cfg.schemaWritesRequired = false ∨
      schemaRequiredOf (serMapper cfg (fillMapper cfg w c e) c e false) (extrasOf w e) e.core.fields e.required = e.required) :
    Pres cfg W w (schemaW cfg w c e).1 := by
  have p1 := pres_fillMapper hc g (has_self hl)
  unfold schemaW
  rcases hq with hq | hq
  · simp only [hq, Bool.false_and, Bool.false_eq_true, if_false]
    exact p1
  · simp only [hq, bne_self_eq_false, Bool.and_false, Bool.false_eq_true, if_false]
    exact p1

theorem quiet_toSchema {cfg : Config} {w : World} {c : ClassId} {e : Entry}
    (hl : alookup c w.classes = some e) (hq : quietStep cfg w (.toSchema c) = true) :
    cfg.schemaWritesRequired = false ∨
      schemaRequiredOf (serMapper cfg (fillMapper cfg w c e) c e false) (extrasOf w e) e.core.fields e.required = e.required := by
  unfold quietStep at hq
  simp only [hl, Bool.or_eq_true, Bool.not_eq_true', Bool.and_eq_true, beq_iff_eq] at hq
  rcases hq with hq | hq
  · exact Or.inl hq
  · exact Or.inr hq.1

theorem withClass_fst {P : World → Prop} {w : World} {c : ClassId} {k : Entry → World × Obs}
    (h0 : P w) (h1 : ∀ e, alookup c w.classes = some e → P (k e).1) : P (withClass w c k).1 := by
  unfold withClass
  cases hl : alookup c w.classes with
  | none => exact h0
  | some e => exact h1 e hl

/-- every operation other than a definition or a toggle of a global default, when quiet, leaves every
    class's stable part, the flags and coherence as they were -/
theorem pres_step_use {cfg W} {w : World} (hc : cfg.cachesById = true) (g : Good cfg W w) (op : WorldOp)
    (hk : keepOp (fun _ => true) op = false) (hq : quietStep cfg w op = true) :
    Pres cfg W w (stepW cfg w op).1 := by
  cases op with
  | define c src => simp [keepOp] at hk
  | setDefault f b => simp [keepOp] at hk
  | construct c kw =>
    simp only [stepW]
    exact withClass_fst (pres_refl g) fun e hl => pres_constructW hc g (has_self hl) kw
  | deserialize c kw =>
    simp only [stepW]
    exact withClass_fst (pres_refl g) fun e hl => pres_constructW hc g (has_self hl) kw
  | trustedDeserialize c kw =>
    simp only [stepW]
    refine withClass_fst (pres_refl g) fun e hl => ?_
    have p1 := pres_fillSimplicity hc g (has_self hl)
    exact pres_trans p1 (pres_constructW hc p1.1 (has_of_pres p1 (has_self hl)) kw)
  | serialize c kw camel =>
    simp only [stepW]
    refine withClass_fst (pres_refl g) fun e hl => ?_
    have p1 := pres_constructW hc g (has_self hl) kw
    simp only
    split
    · exact pres_trans p1 (pres_fillMapper hc p1.1 (has_of_pres p1 (has_self hl)) camel)
    · exact p1
  | createSerializer c =>
    simp only [stepW]
    exact withClass_fst (pres_refl g) fun e hl => pres_installW hc g (has_self hl)
  | toSchema c =>
    simp only [stepW]
    exact withClass_fst (pres_refl g) fun e hl => pres_schemaW hc g hl (quiet_toSchema hl hq)

/-! ### implicit wrappers resolve to the declared class (identity keys, or no name clash) -/

def RegInv (cfg : Config) (W : List (String × TypeId)) (reg : List (WKey × TypeId)) : Prop :=
  ∀ p ∈ reg, ∃ n, p.1 = wkey cfg n p.2 ∧ (n, p.2) ∈ W

theorem wkey_inj {cfg : Config} {W} (hW : cfg.wrapperByName = true → NoClashW W) {n n' : String} {t t' : TypeId}
    (hk : wkey cfg n t = wkey cfg n' t') (h1 : (n, t) ∈ W) (h2 : (n', t') ∈ W) : t' = t := by
  unfold wkey at hk
  cases hb : cfg.wrapperByName with
  | true =>
    simp only [hb, if_true, WKey.name.injEq] at hk
    subst hk
    exact (hW hb (n, t) h1 (n, t') h2 rfl).symm
  | false =>
    simp only [hb, Bool.false_eq_true, if_false, WKey.ty.injEq] at hk
    exact hk.2.symm

theorem resolveField_own {cfg : Config} {W} (hW : cfg.wrapperByName = true → NoClashW W)
    {reg : List (WKey × TypeId)} (hr : RegInv cfg W reg) (f : FieldSpec)
    (hf : ∀ n t, f.kind = .wrap n t → (n, t) ∈ W) :
    (resolveField cfg reg f).2 = f ∧ RegInv cfg W (resolveField cfg reg f).1 := by
  unfold resolveField
  cases hk : f.kind with
  | prim tag => exact ⟨rfl, hr⟩
  | ref c => exact ⟨rfl, hr⟩
  | refs cs => exact ⟨rfl, hr⟩
  | wrap n t =>
    have hin := hf n t hk
    cases hl : alookup (wkey cfg n t) reg with
    | none =>
      simp only [hl]
      refine ⟨trivial, ?_⟩
      intro p hp
      simp only [List.mem_cons] at hp
      rcases hp with rfl | hp
      · exact ⟨n, rfl, hin⟩
      · exact hr p hp
    | some t' =>
      obtain ⟨n', hkey, hin'⟩ := hr _ (alookup_mem hl)
      have ht : t' = t := wkey_inj hW hkey hin hin'
      subst ht
      simp only [hl]
      refine ⟨?_, hr⟩
      cases f
      simp only at hk
      subst hk
      rfl

theorem wrapsOfFields_cons_mem {f : FieldSpec} {fs : List FieldSpec} {n : String} {t : TypeId}
    (h : f.kind = .wrap n t) : (n, t) ∈ wrapsOfFields (f :: fs) := by
  simp [wrapsOfFields, h]

theorem wrapsOfFields_cons_sub {f : FieldSpec} {fs : List FieldSpec} {q : String × TypeId}
    (h : q ∈ wrapsOfFields fs) : q ∈ wrapsOfFields (f :: fs) := by
  unfold wrapsOfFields at *
  rw [List.filterMap_cons]
  split
  · exact h
  · exact List.mem_cons_of_mem _ h

theorem resolveFields_own {cfg : Config} {W} (hW : cfg.wrapperByName = true → NoClashW W) :
    ∀ (fs : List FieldSpec) (reg : List (WKey × TypeId)), RegInv cfg W reg →
      (∀ q ∈ wrapsOfFields fs, q ∈ W) →
      (resolveFields cfg reg fs).2 = fs ∧ RegInv cfg W (resolveFields cfg reg fs).1
  | [], reg, hr, _ => ⟨rfl, hr⟩
  | f :: fs, reg, hr, hsub => by
    have h1 := resolveField_own hW hr f (fun n t hk => hsub _ (wrapsOfFields_cons_mem hk))
    have h2 := resolveFields_own hW fs (resolveField cfg reg f).1 h1.2
      (fun q hq => hsub q (wrapsOfFields_cons_sub hq))
    simp only [resolveFields]
    exact ⟨by rw [h1.1, h2.1], h2.2⟩

/-! ### the definition step -/

/-- the entry a class statement creates, if it creates one -/
def defEntry (cfg : Config) (w : World) (c : ClassId) (src : ClassSrc) : Option Entry :=
  match alookup c w.classes with
  | some _ => none
  | none =>
    if !refsDefined w.classes src.fields then none else
    match lookupParent w.classes src.parent with
    | none => none
    | some pe => if baseSigClash w.flags src pe then none else some (elabClass cfg w src pe)

/-- the world a class statement leaves when it does not create a class -/
def failWorld (cfg : Config) (w : World) (c : ClassId) (src : ClassSrc) : World :=
  match alookup c w.classes with
  | some _ => w
  | none =>
    if !refsDefined w.classes src.fields then w else
    match lookupParent w.classes src.parent with
    | none => w
    | some _ => bodyW cfg w src

def defWorld (cfg : Config) (w : World) (c : ClassId) (src : ClassSrc) (e : Entry) : World :=
  { bodyW cfg w src with classes := (c, e) :: w.classes }

theorem defineW_eq (cfg : Config) (w : World) (c : ClassId) (src : ClassSrc) :
    (defineW cfg w c src).1 = match defEntry cfg w c src with
      | none => failWorld cfg w c src
      | some e => defWorld cfg w c src e := by
  unfold defineW defEntry failWorld
  cases alookup c w.classes with
  | some _ => rfl
  | none =>
    simp only
    by_cases hr : refsDefined w.classes src.fields = true
    · simp only [hr, Bool.not_true, Bool.false_eq_true, if_false]
      cases lookupParent w.classes src.parent with
      | none => rfl
      | some pe =>
        simp only
        by_cases hb : baseSigClash w.flags src pe = true
        · simp [hb]
        · simp [hb, defWorld]
    · simp [hr]

theorem failWorld_classes (cfg : Config) (w : World) (c : ClassId) (src : ClassSrc) :
    (failWorld cfg w c src).classes = w.classes := by
  unfold failWorld
  cases alookup c w.classes with
  | some _ => rfl
  | none =>
    simp only
    split
    · rfl
    · cases lookupParent w.classes src.parent <;> rfl

theorem failWorld_flags (cfg : Config) (w : World) (c : ClassId) (src : ClassSrc) :
    (failWorld cfg w c src).flags = w.flags := by
  unfold failWorld
  cases alookup c w.classes with
  | some _ => rfl
  | none =>
    simp only
    split
    · rfl
    · cases lookupParent w.classes src.parent <;> rfl

theorem good_bodyW {cfg : Config} {W} (hW : cfg.wrapperByName = true → NoClashW W) {w : World}
    (g : Good cfg W w) (src : ClassSrc) (hsub : ∀ q ∈ wrapsOfFields src.fields, q ∈ W) :
    Good cfg W (bodyW cfg w src) :=
  ⟨(resolveFields_own hW src.fields w.wrappers g.reg hsub).2, g.mapper, g.simpl, g.ser⟩

theorem good_failWorld {cfg : Config} {W} (hW : cfg.wrapperByName = true → NoClashW W) {w : World}
    (g : Good cfg W w) (c : ClassId) (src : ClassSrc) (hsub : ∀ q ∈ wrapsOfFields src.fields, q ∈ W) :
    Good cfg W (failWorld cfg w c src) := by
  unfold failWorld
  cases alookup c w.classes with
  | some _ => exact g
  | none =>
    simp only
    split
    · exact g
    · cases lookupParent w.classes src.parent with
      | none => exact g
      | some _ => exact good_bodyW hW g src hsub

theorem defEntry_fresh {cfg : Config} {w : World} {c : ClassId} {src : ClassSrc} {e : Entry}
    (h : defEntry cfg w c src = some e) : alookup c w.classes = none ∧ e.serializer = none := by
  unfold defEntry at h
  cases hl : alookup c w.classes with
  | some _ => simp [hl] at h
  | none =>
    simp only [hl] at h
    by_cases hr : refsDefined w.classes src.fields = true
    · simp only [hr, Bool.not_true, Bool.false_eq_true, if_false] at h
      cases hp : lookupParent w.classes src.parent with
      | none => simp [hp] at h
      | some pe =>
        simp only [hp] at h
        by_cases hb : baseSigClash w.flags src pe = true
        · simp [hb] at h
        · simp only [hb, Bool.false_eq_true, if_false, Option.some.injEq] at h
          subst h
          exact ⟨rfl, rfl⟩
    · simp [hr] at h

theorem defineW_flags (cfg : Config) (w : World) (c : ClassId) (src : ClassSrc) :
    (defineW cfg w c src).1.flags = w.flags := by
  rw [defineW_eq]
  cases defEntry cfg w c src with
  | none => exact failWorld_flags cfg w c src
  | some e => rfl

theorem lookS_define_other (cfg : Config) (w : World) (c : ClassId) (src : ClassSrc) {d : ClassId}
    (h : c ≠ d) : lookS (defineW cfg w c src).1 d = lookS w d := by
  rw [defineW_eq]
  cases defEntry cfg w c src with
  | none => simp only [lookS, failWorld_classes]
  | some e =>
    unfold lookS defWorld bodyW
    simp only
    rw [alookup_cons_ne _ _ h]

theorem lookS_define_self (cfg : Config) (w : World) (c : ClassId) (src : ClassSrc) :
    lookS (defineW cfg w c src).1 c = match defEntry cfg w c src with
      | none => lookS w c
      | some e => some e.stable := by
  rw [defineW_eq]
  cases defEntry cfg w c src with
  | none => simp only [lookS, failWorld_classes]
  | some e =>
    unfold lookS defWorld bodyW
    simp only
    rw [alookup_cons_eq]
    rfl

theorem good_define {cfg : Config} {W} (hW : cfg.wrapperByName = true → NoClashW W) {w : World}
    (g : Good cfg W w) (c : ClassId) (src : ClassSrc) (hsub : ∀ q ∈ wrapsOfFields src.fields, q ∈ W) :
    Good cfg W (defineW cfg w c src).1 := by
  rw [defineW_eq]
  cases hd : defEntry cfg w c src with
  | none => exact good_failWorld hW g c src hsub
  | some e =>
    obtain ⟨hfresh, hser⟩ := defEntry_fresh hd
    have hne : ∀ c0 e0, alookup c0 w.classes = some e0 → c ≠ c0 := by
      intro c0 e0 h0 hc0
      subst hc0
      rw [hfresh] at h0
      cases h0
    refine ⟨?_, ?_, ?_, ?_⟩
    · exact (resolveFields_own hW src.fields w.wrappers g.reg hsub).2
    · intro p hp
      obtain ⟨c0, e0, b0, hl0, hk, hv⟩ := g.mapper p hp
      exact ⟨c0, e0, b0, (alookup_cons_ne _ _ (hne c0 e0 hl0)).trans hl0, hk, hv⟩
    · intro p hp
      obtain ⟨c0, e0, hl0, hk, hv⟩ := g.simpl p hp
      exact ⟨c0, e0, (alookup_cons_ne _ _ (hne c0 e0 hl0)).trans hl0, hk, hv⟩
    · intro c0 e0 hl0 s hs
      by_cases h : c = c0
      · subst h
        have : alookup c (defWorld cfg w c src e).classes = some e := alookup_cons_eq _ _ _
        rw [this] at hl0
        cases hl0
        rw [hser] at hs
        cases hs
      · have : alookup c0 (defWorld cfg w c src e).classes = alookup c0 w.classes := alookup_cons_ne _ _ h
        rw [this] at hl0
        exact g.ser c0 e0 hl0 s hs

/-! ### two coherent worlds that agree on the classes a definition reads elaborate it identically -/

theorem stable_eq {e e' : Entry} (h : e.stable = e'.stable) : e.core = e'.core ∧ e.required = e'.required := by
  unfold Entry.stable at h
  exact ⟨congrArg Prod.fst h, congrArg Prod.snd h⟩

theorem elab_stable_congr {cfg : Config} {w w' : World} {src : ClassSrc} {pe : Option PInfo}
    (hown : ((resolveFields cfg w.wrappers src.fields).2).map (resolveSimple w.classes)
          = ((resolveFields cfg w'.wrappers src.fields).2).map (resolveSimple w'.classes))
    (hf : w.flags = w'.flags) :
    (elabClass cfg w src pe).stable = (elabClass cfg w' src pe).stable := by
  simp only [elabClass, Entry.stable, hown, hf]

theorem lookS_cases {w w' : World} {d : ClassId} (h : lookS w d = lookS w' d) :
    (alookup d w.classes = none ∧ alookup d w'.classes = none) ∨
    (∃ e e', alookup d w.classes = some e ∧ alookup d w'.classes = some e' ∧ e.stable = e'.stable) := by
  unfold lookS at h
  cases hl : alookup d w.classes with
  | none =>
    cases hl' : alookup d w'.classes with
    | none => exact Or.inl ⟨rfl, rfl⟩
    | some e' => rw [hl, hl'] at h; simp at h
  | some e =>
    cases hl' : alookup d w'.classes with
    | none => rw [hl, hl'] at h; simp at h
    | some e' =>
      rw [hl, hl'] at h
      simp only [Option.map_some, Option.some.injEq] at h
      exact Or.inr ⟨e, e', rfl, rfl, h⟩

theorem fieldSimple_congr {w w' : World} {T : ClassId → Bool} (hst : ∀ d, T d = true → lookS w d = lookS w' d)
    (f : FieldSpec) (hf : ∀ r ∈ kindRefs f.kind, T r = true) :
    fieldSimple w.classes f = fieldSimple w'.classes f := by
  unfold fieldSimple
  cases hk : f.kind with
  | prim _ => rfl
  | wrap _ _ => rfl
  | refs _ => rfl
  | ref r =>
    simp only
    rcases lookS_cases (hst r (hf r (by simp [hk, kindRefs]))) with ⟨h1, h2⟩ | ⟨e, e', h1, h2, h3⟩
    · rw [h1, h2]
    · rw [h1, h2]
      simp only [(stable_eq h3).1]

theorem all_congr_mem {α : Type} (p q : α → Bool) : ∀ (l : List α), (∀ x ∈ l, p x = q x) → l.all p = l.all q
  | [], _ => rfl
  | x :: l, h => by
    simp only [List.all_cons]
    rw [h x (by simp), all_congr_mem p q l (fun y hy => h y (by simp [hy]))]

theorem refsDefined_congr {w w' : World} {T : ClassId → Bool}
    (hst : ∀ d, T d = true → lookS w d = lookS w' d) (fs : List FieldSpec)
    (hrefs : ∀ f ∈ fs, ∀ r ∈ kindRefs f.kind, T r = true) :
    refsDefined w.classes fs = refsDefined w'.classes fs := by
  unfold refsDefined
  apply all_congr_mem
  intro f hf
  apply all_congr_mem
  intro r hr
  rcases lookS_cases (hst r (hrefs f hf r hr)) with ⟨h1, h2⟩ | ⟨e, e', h1, h2, _⟩
  · rw [h1, h2]
  · rw [h1, h2]; rfl

theorem lookupParent_congr {w w' : World} {T : ClassId → Bool}
    (hst : ∀ d, T d = true → lookS w d = lookS w' d) (parent : Option Parent)
    (hp : ∀ p, parent = some p → T p.cid = true) :
    lookupParent w.classes parent = lookupParent w'.classes parent := by
  cases parent with
  | none => rfl
  | some p =>
    rcases lookS_cases (hst p.cid (hp p rfl)) with ⟨h1, h2⟩ | ⟨e, e', h1, h2, h3⟩
    · simp only [lookupParent, h1, h2]
    · simp only [lookupParent, h1, h2, (stable_eq h3).1, (stable_eq h3).2]

theorem deps_parent {src : ClassSrc} {T : ClassId → Bool} (h : src.deps.all T = true) :
    ∀ p, src.parent = some p → T p.cid = true := by
  intro p hp
  apply List.all_eq_true.mp h
  simp [ClassSrc.deps, hp]

theorem deps_refs {src : ClassSrc} {T : ClassId → Bool} (h : src.deps.all T = true) :
    ∀ f ∈ src.fields, ∀ r ∈ kindRefs f.kind, T r = true := by
  intro f hf r hr
  apply List.all_eq_true.mp h
  unfold ClassSrc.deps
  apply List.mem_append_right
  exact List.mem_flatMap.mpr ⟨f, hf, hr⟩

theorem own_congr {cfg : Config} {W} (hW : cfg.wrapperByName = true → NoClashW W) {w w' : World}
    (g : Good cfg W w) (g' : Good cfg W w') {T : ClassId → Bool}
    (hst : ∀ d, T d = true → lookS w d = lookS w' d) (src : ClassSrc)
    (hsub : ∀ q ∈ wrapsOfFields src.fields, q ∈ W)
    (hrefs : ∀ f ∈ src.fields, ∀ r ∈ kindRefs f.kind, T r = true) :
    ((resolveFields cfg w.wrappers src.fields).2).map (resolveSimple w.classes)
      = ((resolveFields cfg w'.wrappers src.fields).2).map (resolveSimple w'.classes) := by
  rw [(resolveFields_own hW src.fields w.wrappers g.reg hsub).1,
      (resolveFields_own hW src.fields w'.wrappers g'.reg hsub).1]
  apply List.map_congr_left
  intro f hf
  unfold resolveSimple
  rw [fieldSimple_congr hst f (hrefs f hf)]

/-! ### the simulation -/

structure Sim (cfg : Config) (T : ClassId → Bool) (W : List (String × TypeId)) (w w' : World) : Prop where
  flags : w.flags = w'.flags
  stab : ∀ d, T d = true → lookS w d = lookS w' d
  good : Good cfg W w
  good' : Good cfg W w'

theorem sim_initial (cfg : Config) (T : ClassId → Bool) (W : List (String × TypeId)) :
    Sim cfg T W World.initial World.initial :=
  ⟨rfl, fun _ _ => rfl, good_initial cfg W, good_initial cfg W⟩

theorem defEntry_congr {cfg : Config} {W} (hW : cfg.wrapperByName = true → NoClashW W) {T : ClassId → Bool}
    {w w' : World} (s : Sim cfg T W w w') (c : ClassId) (src : ClassSrc) (hT : T c = true)
    (hd : src.deps.all T = true) (hsub : ∀ q ∈ wrapsOfFields src.fields, q ∈ W) :
    (defEntry cfg w c src).map Entry.stable = (defEntry cfg w' c src).map Entry.stable := by
  unfold defEntry
  rcases lookS_cases (s.stab c hT) with ⟨h1, h2⟩ | ⟨e, e', h1, h2, _⟩
  · simp only [h1, h2]
    rw [lookupParent_congr s.stab src.parent (deps_parent hd), s.flags,
        refsDefined_congr s.stab src.fields (deps_refs hd)]
    by_cases hr : refsDefined w'.classes src.fields = true
    · simp only [hr, Bool.not_true, Bool.false_eq_true, if_false]
      cases lookupParent w'.classes src.parent with
      | none => rfl
      | some pe =>
        simp only
        by_cases hb : baseSigClash w'.flags src pe = true
        · simp [hb]
        · simp only [hb, Bool.false_eq_true, if_false, Option.map_some]
          exact congrArg some (elab_stable_congr (own_congr hW s.good s.good' s.stab src hsub (deps_refs hd)) s.flags)
    · simp [hr]
  · simp only [h1, h2, Option.map_none]

theorem sim_define_both {cfg : Config} {W} (hW : cfg.wrapperByName = true → NoClashW W) {T : ClassId → Bool}
    {w w' : World} (s : Sim cfg T W w w') (c : ClassId) (src : ClassSrc) (hT : T c = true)
    (hd : src.deps.all T = true) (hsub : ∀ q ∈ wrapsOfFields src.fields, q ∈ W) :
    Sim cfg T W (defineW cfg w c src).1 (defineW cfg w' c src).1 := by
  refine ⟨?_, ?_, good_define hW s.good c src hsub, good_define hW s.good' c src hsub⟩
  · rw [defineW_flags, defineW_flags]; exact s.flags
  · intro d hTd
    by_cases h : c = d
    · subst h
      rw [lookS_define_self, lookS_define_self]
      have := defEntry_congr hW s c src hT hd hsub
      cases h1 : defEntry cfg w c src with
      | none =>
        cases h2 : defEntry cfg w' c src with
        | none => exact s.stab c hT
        | some e' => rw [h1, h2] at this; simp at this
      | some e =>
        cases h2 : defEntry cfg w' c src with
        | none => rw [h1, h2] at this; simp at this
        | some e' =>
          rw [h1, h2] at this
          simpa using this
    · rw [lookS_define_other _ _ _ _ h, lookS_define_other _ _ _ _ h]
      exact s.stab d hTd

theorem sim_define_left {cfg : Config} {W} (hW : cfg.wrapperByName = true → NoClashW W) {T : ClassId → Bool}
    {w w' : World} (s : Sim cfg T W w w') (c : ClassId) (src : ClassSrc) (hT : T c = false)
    (hsub : ∀ q ∈ wrapsOfFields src.fields, q ∈ W) :
    Sim cfg T W (defineW cfg w c src).1 w' := by
  refine ⟨?_, ?_, good_define hW s.good c src hsub, s.good'⟩
  · rw [defineW_flags]; exact s.flags
  · intro d hTd
    have h : c ≠ d := by
      intro hcd; subst hcd; rw [hT] at hTd; cases hTd
    rw [lookS_define_other _ _ _ _ h]
    exact s.stab d hTd

theorem sim_pres_left {cfg : Config} {W} {T : ClassId → Bool} {w w2 w' : World} (s : Sim cfg T W w w')
    (p : Pres cfg W w w2) : Sim cfg T W w2 w' :=
  ⟨p.2.2.trans s.flags, fun d hd => (p.2.1 d).trans (s.stab d hd), p.1, s.good'⟩

theorem good_setFlags {cfg : Config} {W} {w : World} (g : Good cfg W w) (fl : Flags) :
    Good cfg W { w with flags := fl } := ⟨g.reg, g.mapper, g.simpl, g.ser⟩

theorem wrapsOf_define_sub {c : ClassId} {src : ClassSrc} {h : List WorldOp} {W : List (String × TypeId)}
    (hs : ∀ q ∈ wrapsOf (.define c src :: h), q ∈ W) :
    (∀ q ∈ wrapsOfFields src.fields, q ∈ W) ∧ (∀ q ∈ wrapsOf h, q ∈ W) := by
  simp only [wrapsOf, List.mem_append] at hs
  exact ⟨fun q hq => hs q (Or.inl hq), fun q hq => hs q (Or.inr hq)⟩

/-- main simulation: running a quiet history and running the definitions of a dependency-closed set of
    classes (plus the toggles of global defaults) agree on every class of the set -/
theorem sim_run {cfg : Config} (hc : cfg.cachesById = true) {W : List (String × TypeId)}
    (hW : cfg.wrapperByName = true → NoClashW W) (T : ClassId → Bool) :
    ∀ (h : List WorldOp) (w w' : World), (∀ q ∈ wrapsOf h, q ∈ W) → closed T h = true →
      quietRun cfg w h = true → Sim cfg T W w w' →
      Sim cfg T W (runW cfg w h) (runW cfg w' (slice T h))
  | [], _, _, _, _, _, s => s
  | op :: h, w, w', hsub, hcl, hq, s => by
    simp only [closed, List.all_cons, Bool.and_eq_true] at hcl
    simp only [quietRun, Bool.and_eq_true] at hq
    have hcl' : closed T h = true := hcl.2
    cases op with
    | define c src =>
      obtain ⟨hs1, hs2⟩ := wrapsOf_define_sub hsub
      cases hT : T c with
      | true =>
        have hd : src.deps.all T = true := by
          have := hcl.1
          simp only [closedOp, hT, Bool.not_true, Bool.false_or] at this
          exact this
        have hsl : slice T (.define c src :: h) = .define c src :: slice T h := by
          simp [slice, List.filter_cons, keepOp, hT]
        rw [hsl]
        simp only [runW, stepW]
        exact sim_run hc hW T h _ _ hs2 hcl' hq.2 (sim_define_both hW s c src hT hd hs1)
      | false =>
        have hsl : slice T (.define c src :: h) = slice T h := by
          simp [slice, List.filter_cons, keepOp, hT]
        rw [hsl]
        simp only [runW, stepW]
        exact sim_run hc hW T h _ _ hs2 hcl' hq.2 (sim_define_left hW s c src hT hs1)
    | setDefault f b =>
      have hsl : slice T (.setDefault f b :: h) = .setDefault f b :: slice T h := by
        simp [slice, List.filter_cons, keepOp]
      rw [hsl]
      simp only [runW, stepW]
      refine sim_run hc hW T h _ _ (by simpa [wrapsOf] using hsub) hcl' hq.2 ?_
      exact ⟨by simp [s.flags], s.stab, good_setFlags s.good _, good_setFlags s.good' _⟩
    | construct c kw =>
      have hsl : slice T (.construct c kw :: h) = slice T h := by simp [slice, List.filter_cons, keepOp]
      rw [hsl]
      simp only [runW]
      exact sim_run hc hW T h _ _ (by simpa [wrapsOf] using hsub) hcl' hq.2
        (sim_pres_left s (pres_step_use hc s.good _ rfl hq.1))
    | deserialize c kw =>
      have hsl : slice T (.deserialize c kw :: h) = slice T h := by simp [slice, List.filter_cons, keepOp]
      rw [hsl]
      simp only [runW]
      exact sim_run hc hW T h _ _ (by simpa [wrapsOf] using hsub) hcl' hq.2
        (sim_pres_left s (pres_step_use hc s.good _ rfl hq.1))
    | trustedDeserialize c kw =>
      have hsl : slice T (.trustedDeserialize c kw :: h) = slice T h := by simp [slice, List.filter_cons, keepOp]
      rw [hsl]
      simp only [runW]
      exact sim_run hc hW T h _ _ (by simpa [wrapsOf] using hsub) hcl' hq.2
        (sim_pres_left s (pres_step_use hc s.good _ rfl hq.1))
    | serialize c kw camel =>
      have hsl : slice T (.serialize c kw camel :: h) = slice T h := by simp [slice, List.filter_cons, keepOp]
      rw [hsl]
      simp only [runW]
      exact sim_run hc hW T h _ _ (by simpa [wrapsOf] using hsub) hcl' hq.2
        (sim_pres_left s (pres_step_use hc s.good _ rfl hq.1))
    | createSerializer c =>
      have hsl : slice T (.createSerializer c :: h) = slice T h := by simp [slice, List.filter_cons, keepOp]
      rw [hsl]
      simp only [runW]
      exact sim_run hc hW T h _ _ (by simpa [wrapsOf] using hsub) hcl' hq.2
        (sim_pres_left s (pres_step_use hc s.good _ rfl hq.1))
    | toSchema c =>
      have hsl : slice T (.toSchema c :: h) = slice T h := by simp [slice, List.filter_cons, keepOp]
      rw [hsl]
      simp only [runW]
      exact sim_run hc hW T h _ _ (by simpa [wrapsOf] using hsub) hcl' hq.2
        (sim_pres_left s (pres_step_use hc s.good _ rfl hq.1))

end Typedpy.World
