/-
  Lemmas/FastMap.lean — C10, fast serialization with key-renaming mappers: a class's mapper only
  renames that class's own keys (`c10_fFields_relabel`), an injective mapper loses no getter
  (`c10_keyDedupe_id`), classes without mappers below make the mapper environment irrelevant
  (`c10_fser_free`), and the installed serializer of a class with a mapper returns the regular
  document with the class's keys renamed (`c10_fast_outer_mapper`).
-/
import TypedpyModel.Lemmas.Fast
namespace Typedpy
open PyVal (pyEq)

/-! ### a class's mapper only renames that class's own keys -/

theorem c10_mapKey_none (n : String) : mapKey .none n = n := rfl

theorem c10_fFields_relabel (Mp : MapEnv) (NF JK : List String) (sn : Bool) (m : TMapper)
    (ds attrs : List (String × PyVal)) : ∀ fields : List (String × FieldDecl),
    fFields Mp NF JK sn m ds attrs fields
      = bindE (fFields Mp NF JK sn .none ds attrs fields) fun r => .ok (relabelPairs m r)
  | [] => by simp [fFields, relabelPairs]
  | (n, f) :: rest => by
    simp only [fFields]
    rw [c10_fFields_relabel Mp NF JK sn m ds attrs rest]
    cases (if isNSB f = true then (Except.ok (getAttr ds attrs n) : R PyVal)
           else if (getAttr ds attrs n).isNone = true then .ok .none
           else fser Mp NF JK f (getAttr ds attrs n)) with
    | error e => rfl
    | ok j =>
      simp only [bindE_ok]
      cases fFields Mp NF JK sn .none ds attrs rest with
      | error e => rfl
      | ok r =>
        simp only [bindE_ok, c10_mapKey_none]
        split <;> simp [relabelPairs, relabelKey]

/-- the keys the installed serializer writes are pairwise different when the mapper is injective
    on the class's fields: `processed_mapper` loses no getter -/
theorem c10_fFields_keys (Mp : MapEnv) (NF JK : List String) (sn : Bool) (m : TMapper)
    (ds attrs : List (String × PyVal)) : ∀ (fields : List (String × FieldDecl)) (r : List (PyVal × PyVal)),
    strNodup (fields.map fun p => mapKey m p.1) = true →
    fFields Mp NF JK sn m ds attrs fields = .ok r →
    strKeysDistinct r = true ∧ ∀ kv ∈ r, ∃ p ∈ fields, kv.1 = .str (mapKey m p.1)
  | [], r, _, h => by
    simp only [fFields] at h
    cases h
    exact ⟨rfl, fun kv hkv => by simp at hkv⟩
  | (n, f) :: rest, r, hn, h => by
    simp only [List.map_cons, strNodup, and_true_iff, Bool.not_eq_true'] at hn
    simp only [fFields] at h
    rcases bindE_eq_ok h with ⟨j, _, h2⟩
    rcases bindE_eq_ok h2 with ⟨r', h3, h4⟩
    have ih := c10_fFields_keys Mp NF JK sn m ds attrs rest r' hn.2 h3
    simp only [Except.ok.injEq] at h4
    by_cases hj : (j.isNone && !sn) = true
    · simp only [hj, if_true] at h4
      subst h4
      exact ⟨ih.1, fun kv hkv => by
        rcases ih.2 kv hkv with ⟨p, hp, e⟩
        exact ⟨p, by simp [hp], e⟩⟩
    · simp only [hj, Bool.false_eq_true, if_false] at h4
      subst h4
      refine ⟨?_, fun kv hkv => ?_⟩
      · simp only [strKeysDistinct, ih.1, Bool.and_true, Bool.not_eq_true']
        cases hany : (r'.any fun kv => match kv.1 with | .str k' => mapKey m n == k' | _ => false) with
        | false => rfl
        | true =>
          simp only [List.any_eq_true] at hany
          rcases hany with ⟨kv, hkv, hk⟩
          rcases ih.2 kv hkv with ⟨p, hp, e⟩
          rw [e] at hk
          have hk' : mapKey m n = mapKey m p.1 := by simpa using hk
          have : (rest.map fun p => mapKey m p.1).contains (mapKey m n) = true := by
            simp only [List.contains_eq_mem, List.mem_map, decide_eq_true_eq]
            exact ⟨p, hp, hk'.symm⟩
          rw [hn.1] at this; cases this
      · simp only [List.mem_cons] at hkv
        rcases hkv with hkv | hkv
        · exact ⟨(n, f), by simp, by rw [hkv]⟩
        · rcases ih.2 kv hkv with ⟨p, hp, e⟩
          exact ⟨p, by simp [hp], e⟩

theorem c10_keyDedupe_id (Mp : MapEnv) (NF JK : List String) (sn : Bool) (m : TMapper)
    (ds attrs : List (String × PyVal)) (fields : List (String × FieldDecl)) (r : List (PyVal × PyVal))
    (hn : strNodup (fields.map fun p => mapKey m p.1) = true)
    (h : fFields Mp NF JK sn m ds attrs fields = .ok r) : keyDedupe m r = r := by
  unfold keyDedupe
  split
  · rfl
  · exact dictOfPairs_distinct r (c10_fFields_keys Mp NF JK sn m ds attrs fields r hn h).1

/-! ### classes without a mapper below: the mapper environment is irrelevant -/

theorem c10_isNone_eq (m : TMapper) (h : m.isNone = true) : m = .none := by
  cases m <;> simp [TMapper.isNone] at h <;> rfl

mutual
theorem c10_fser_free (Mp : MapEnv) (NF JK : List String) : ∀ (f : FieldDecl) (v : PyVal),
    mfreeD Mp f = true → fser Mp NF JK f v = fser noMappers NF JK f v
  | .number _, _, _ => rfl
  | .integer _, _, _ => rfl
  | .float _, _, _ => rfl
  | .string _ _ _, _, _ => rfl
  | .boolean, _, _ => rfl
  | .noneF, _, _ => rfl
  | .enumLit _, _, _ => rfl
  | .enumCls _ _, _, _ => rfl
  | .seqAny _ _, _, _ => rfl
  | .setAny _ _, _, _ => rfl
  | .mapAny _, _, _ => rfl
  | .anything, _, _ => rfl
  | .oneOf _, _, _ => rfl
  | .seqOf .list item _, v, h => by
    simp only [mfreeD] at h
    have : fser Mp NF JK item = fser noMappers NF JK item := funext fun x => c10_fser_free Mp NF JK item x h
    simp only [fser, this]
  | .seqOf .deque item _, v, h => by
    simp only [mfreeD] at h
    have : fser Mp NF JK item = fser noMappers NF JK item := funext fun x => c10_fser_free Mp NF JK item x h
    simp only [fser, this]
  | .setOf _ item _, v, h => by
    simp only [mfreeD] at h
    have : fser Mp NF JK item = fser noMappers NF JK item := funext fun x => c10_fser_free Mp NF JK item x h
    simp only [fser, this]
  | .tupleOf item _, v, h => by
    simp only [mfreeD] at h
    have : fser Mp NF JK item = fser noMappers NF JK item := funext fun x => c10_fser_free Mp NF JK item x h
    simp only [fser, this]
  | .seqPos .list items _ _, v, h => by
    simp only [mfreeD] at h
    have : fserZipRaw Mp NF JK items = fserZipRaw noMappers NF JK items :=
      funext fun xs => c10_fserZipRaw_free Mp NF JK items xs h
    simp only [fser, this]
  | .seqPos .deque items _ _, v, h => by
    simp only [mfreeD] at h
    have : fserZip Mp NF JK items = fserZip noMappers NF JK items :=
      funext fun xs => c10_fserZip_free Mp NF JK items xs h
    simp only [fser, this]
  | .tuplePos items _, v, h => by
    simp only [mfreeD] at h
    have : fserZip Mp NF JK items = fserZip noMappers NF JK items :=
      funext fun xs => c10_fserZip_free Mp NF JK items xs h
    simp only [fser, this]
  | .mapOf kf vf _, v, h => by
    simp only [mfreeD, and_true_iff] at h
    have h1 : fser Mp NF JK kf = fser noMappers NF JK kf := funext fun x => c10_fser_free Mp NF JK kf x h.1
    have h2 : fser Mp NF JK vf = fser noMappers NF JK vf := funext fun x => c10_fser_free Mp NF JK vf x h.2
    simp only [fser, h1, h2]
  | .struct c fields ds, v, h => by
    simp only [mfreeD, and_true_iff, Bool.or_eq_true] at h
    have hf : ∀ m a, fFields Mp NF JK false m ds a fields = fFields noMappers NF JK false m ds a fields :=
      fun m a => c10_fFields_free Mp NF JK false m ds a fields h.2
    have hi : ∀ d a, fInline Mp NF JK d a fields = fInline noMappers NF JK d a fields :=
      fun d a => c10_fInline_free Mp NF JK d a fields h.2
    simp only [fser, hi]
    split
    · rfl
    · rename_i hinl
      have hm : Mp c.name = .none := by
        rcases h.1 with h1 | h1
        · exact absurd h1 hinl
        · exact c10_isNone_eq _ h1
      have h0 : noMappers c.name = .none := rfl
      simp only [hm, h0, hf]
  | .anyOf fs, v, h => by
    simp only [mfreeD] at h
    simp only [fser, c10_fserLast_free Mp NF JK fs v h]
  | .allOf fs, v, h => by
    simp only [mfreeD] at h
    simp only [fser, c10_fserHead_free Mp NF JK fs v h]
  | .notF fs, v, h => by
    simp only [mfreeD] at h
    simp only [fser, c10_fserHead_free Mp NF JK fs v h]

theorem c10_fserZip_free (Mp : MapEnv) (NF JK : List String) : ∀ (fs : List FieldDecl) (xs : List PyVal),
    mfreeL Mp fs = true → fserZip Mp NF JK fs xs = fserZip noMappers NF JK fs xs
  | [], [], _ => rfl
  | [], _ :: _, _ => rfl
  | _ :: _, [], _ => rfl
  | f :: fs, x :: xs, h => by
    simp only [mfreeL, and_true_iff] at h
    simp only [fserZip, c10_fser_free Mp NF JK f x h.1, c10_fserZip_free Mp NF JK fs xs h.2]

theorem c10_fserZipRaw_free (Mp : MapEnv) (NF JK : List String) : ∀ (fs : List FieldDecl) (xs : List PyVal),
    mfreeL Mp fs = true → fserZipRaw Mp NF JK fs xs = fserZipRaw noMappers NF JK fs xs
  | [], [], _ => rfl
  | [], _ :: _, _ => rfl
  | _ :: _, [], _ => rfl
  | f :: fs, x :: xs, h => by
    simp only [mfreeL, and_true_iff] at h
    simp only [fserZipRaw, c10_fser_free Mp NF JK f x h.1, c10_fserZipRaw_free Mp NF JK fs xs h.2]

theorem c10_fserLast_free (Mp : MapEnv) (NF JK : List String) : ∀ (fs : List FieldDecl) (v : PyVal),
    mfreeL Mp fs = true → fserLast Mp NF JK fs v = fserLast noMappers NF JK fs v
  | [], _, _ => rfl
  | f :: rest, v, h => by
    simp only [mfreeL, and_true_iff] at h
    simp only [fserLast, c10_fser_free Mp NF JK f v h.1, c10_fserLast_free Mp NF JK rest v h.2]

theorem c10_fserHead_free (Mp : MapEnv) (NF JK : List String) : ∀ (fs : List FieldDecl) (v : PyVal),
    mfreeL Mp fs = true → fserHead Mp NF JK fs v = fserHead noMappers NF JK fs v
  | [], _, _ => rfl
  | f :: _, v, h => by
    simp only [mfreeL, and_true_iff] at h
    simp only [fserHead, c10_fser_free Mp NF JK f v h.1]

theorem c10_fInline_free (Mp : MapEnv) (NF JK : List String) (ds attrs : List (String × PyVal)) :
    ∀ fields : List (String × FieldDecl), mfreeFields Mp fields = true →
      fInline Mp NF JK ds attrs fields = fInline noMappers NF JK ds attrs fields
  | [], _ => rfl
  | (n, f) :: rest, h => by
    simp only [mfreeFields, and_true_iff] at h
    simp only [fInline, c10_fser_free Mp NF JK f _ h.1, c10_fInline_free Mp NF JK ds attrs rest h.2]

theorem c10_fFields_free (Mp : MapEnv) (NF JK : List String) (sn : Bool) (m : TMapper)
    (ds attrs : List (String × PyVal)) :
    ∀ fields : List (String × FieldDecl), mfreeFields Mp fields = true →
      fFields Mp NF JK sn m ds attrs fields = fFields noMappers NF JK sn m ds attrs fields
  | [], _ => rfl
  | (n, f) :: rest, h => by
    simp only [mfreeFields, and_true_iff] at h
    simp only [fFields, c10_fser_free Mp NF JK f _ h.1, c10_fFields_free Mp NF JK sn m ds attrs rest h.2]
end

/-! ### fast ≡ regular with a mapper on the class -/

/-- for a class of the region `fsafeCls` with a simple mapper that is injective on its fields and
    whose nested classes have no mapper, the installed serializer returns the regular document
    with the class's keys renamed by the mapper -/
theorem c10_fast_outer_mapper (O : Oracles) (JK : List String) (Mp : MapEnv) (c : ClassOpts)
    (fields : List (String × FieldDecl)) (ds : List (String × PyVal)) (x : PyVal)
    (hs : fsafeCls [] (.struct c fields ds) = true) (hw : fwf O (.struct c fields ds) x = true)
    (hfree : mfreeFields Mp fields = true)
    (hinj : strNodup (fields.map fun p => mapKey (Mp c.name) p.1) = true) :
    fastSerialize Mp [] JK false false (.struct c fields ds) x
      = bindE (serialize O (.struct c fields ds) (canonV (.struct c fields ds) x)) (relabelDoc (Mp c.name)) := by
  rw [← fast_equiv_core O JK (.struct c fields ds) x hs hw]
  have h0 : noMappers c.name = .none := rfl
  simp only [fastSerialize, Bool.false_and, Bool.false_eq_true, if_false, h0]
  rw [c10_fFields_free Mp [] JK false (Mp c.name) ds (attrsOf x) fields hfree]
  have hrel := c10_fFields_relabel noMappers [] JK false (Mp c.name) ds (attrsOf x) fields
  cases hr0 : fFields noMappers [] JK false .none ds (attrsOf x) fields with
  | error e =>
    rw [hr0] at hrel
    simp only [bindE_error] at hrel
    simp only [hrel, bindE_error]
  | ok r0 =>
    rw [hr0] at hrel
    simp only [bindE_ok] at hrel
    have hk := c10_keyDedupe_id noMappers [] JK false (Mp c.name) ds (attrsOf x) fields _ hinj hrel
    have hk0 : keyDedupe .none r0 = r0 := by simp [keyDedupe, TMapper.isNone]
    simp only [hrel, bindE_ok, hk, hk0, relabelDoc]

end Typedpy
