/-
  Lemmas/FastMap.lean — C10, fast serialization with key-renaming mappers: a class's mapper only
  renames that class's own keys (`c10_fFields_relabel`), an injective mapper loses no getter
  (`c10_keyDedupe_id`), classes without mappers below make the mapper environment irrelevant
  (`c10_fser_free`), and the installed serializer of a class with a mapper returns the regular
  document with the class's keys renamed (`c10_fast_outer_mapper`).
-/
import TypedpyModel.Lemmas.Fast
import TypedpyModel.Lemmas.TrustedMap
namespace Typedpy
open PyVal (pyEq)

/-! ### a class's mapper only renames that class's own keys -/

theorem c10_mapKey_none (n : String) : mapKey .none n = n := rfl

theorem c10_fFields_relabel (Mp : MapEnv) (NF JK : List String) (sn : Bool) (m : TMapper)
    (ds attrs : List (String × PyVal)) : ∀ fields : List (String × FieldDecl),
    fFields Mp NF JK sn m ds attrs fields
      = bindE (fFields Mp NF JK sn .none ds attrs fields) fun r => .ok (relabelPairs m r)
  | [] => by simp [fFields, relabelPairs]
  | (n, f) :: rest => by
    simp only [fFields]
    rw [c10_fFields_relabel Mp NF JK sn m ds attrs rest]
    cases (if isNSB f = true then (Except.ok (getAttr ds attrs n) : R PyVal)
           else if (getAttr ds attrs n).isNone = true then .ok .none
           else fser Mp NF JK f (getAttr ds attrs n)) with
    | error e => rfl
    | ok j =>
      simp only [bindE_ok]
      cases fFields Mp NF JK sn .none ds attrs rest with
      | error e => rfl
      | ok r =>
        simp only [bindE_ok, c10_mapKey_none]
        split <;> simp [relabelPairs, relabelKey]

/-- the keys the installed serializer writes are pairwise different when the mapper is injective
    on the class's fields: `processed_mapper` loses no getter -/
theorem c10_fFields_keys (Mp : MapEnv) (NF JK : List String) (sn : Bool) (m : TMapper)
    (ds attrs : List (String × PyVal)) : ∀ (fields : List (String × FieldDecl)) (r : List (PyVal × PyVal)),
    strNodup (fields.map fun p => mapKey m p.1) = true →
    fFields Mp NF JK sn m ds attrs fields = .ok r →
    strKeysDistinct r = true ∧ ∀ kv ∈ r, ∃ p ∈ fields, kv.1 = .str (mapKey m p.1)
  | [], r, _, h => by
    simp only [fFields] at h
    cases h
    exact ⟨rfl, fun kv hkv => by simp at hkv⟩
  | (n, f) :: rest, r, hn, h => by
    simp only [List.map_cons, strNodup, and_true_iff, Bool.not_eq_true'] at hn
    simp only [fFields] at h
    rcases bindE_eq_ok h with ⟨j, _, h2⟩
    rcases bindE_eq_ok h2 with ⟨r', h3, h4⟩
    have ih := c10_fFields_keys Mp NF JK sn m ds attrs rest r' hn.2 h3
    simp only [Except.ok.injEq] at h4
    by_cases hj : (j.isNone && !sn) = true
    · simp only [hj, if_true] at h4
      subst h4
      exact ⟨ih.1, fun kv hkv => by
        rcases ih.2 kv hkv with ⟨p, hp, e⟩
        exact ⟨p, by simp [hp], e⟩⟩
    · simp only [hj, Bool.false_eq_true, if_false] at h4
      subst h4
      refine ⟨?_, fun kv hkv => ?_⟩
      · simp only [strKeysDistinct, ih.1, Bool.and_true, Bool.not_eq_true']
        cases hany : (r'.any fun kv => match kv.1 with | .str k' => mapKey m n == k' | _ => false) with
        | false => rfl
        | true =>
          simp only [List.any_eq_true] at hany
          rcases hany with ⟨kv, hkv, hk⟩
          rcases ih.2 kv hkv with ⟨p, hp, e⟩
          rw [e] at hk
          have hk' : mapKey m n = mapKey m p.1 := by simpa using hk
          have : (rest.map fun p => mapKey m p.1).contains (mapKey m n) = true := by
            simp only [List.contains_eq_mem, List.mem_map, decide_eq_true_eq]
            exact ⟨p, hp, hk'.symm⟩
          rw [hn.1] at this; cases this
      · simp only [List.mem_cons] at hkv
        rcases hkv with hkv | hkv
        · exact ⟨(n, f), by simp, by rw [hkv]⟩
        · rcases ih.2 kv hkv with ⟨p, hp, e⟩
          exact ⟨p, by simp [hp], e⟩

theorem c10_keyDedupe_id (Mp : MapEnv) (NF JK : List String) (sn : Bool) (m : TMapper)
    (ds attrs : List (String × PyVal)) (fields : List (String × FieldDecl)) (r : List (PyVal × PyVal))
    (hn : strNodup (fields.map fun p => mapKey m p.1) = true)
    (h : fFields Mp NF JK sn m ds attrs fields = .ok r) : keyDedupe m r = r := by
  unfold keyDedupe
  split
  · rfl
  · exact dictOfPairs_distinct r (c10_fFields_keys Mp NF JK sn m ds attrs fields r hn h).1

/-! ### classes without a mapper below: the mapper environment is irrelevant -/

theorem c10_isNone_eq (m : TMapper) (h : m.isNone = true) : m = .none := by
  cases m <;> simp [TMapper.isNone] at h <;> rfl

mutual
theorem c10_fser_free (Mp : MapEnv) (NF JK : List String) : ∀ (f : FieldDecl) (v : PyVal),
    mfreeD Mp f = true → fser Mp NF JK f v = fser noMappers NF JK f v
  | .number _, _, _ => rfl
  | .integer _, _, _ => rfl
  | .float _, _, _ => rfl
  | .string _ _ _, _, _ => rfl
  | .boolean, _, _ => rfl
  | .noneF, _, _ => rfl
  | .enumLit _, _, _ => rfl
  | .enumCls _ _, _, _ => rfl
  | .seqAny _ _, _, _ => rfl
  | .setAny _ _, _, _ => rfl
  | .mapAny _, _, _ => rfl
  | .anything, _, _ => rfl
  | .oneOf _, _, _ => rfl
  | .seqOf .list item _, v, h => by
    simp only [mfreeD] at h
    have : fser Mp NF JK item = fser noMappers NF JK item := funext fun x => c10_fser_free Mp NF JK item x h
    simp only [fser, this]
  | .seqOf .deque item _, v, h => by
    simp only [mfreeD] at h
    have : fser Mp NF JK item = fser noMappers NF JK item := funext fun x => c10_fser_free Mp NF JK item x h
    simp only [fser, this]
  | .setOf _ item _, v, h => by
    simp only [mfreeD] at h
    have : fser Mp NF JK item = fser noMappers NF JK item := funext fun x => c10_fser_free Mp NF JK item x h
    simp only [fser, this]
  | .tupleOf item _, v, h => by
    simp only [mfreeD] at h
    have : fser Mp NF JK item = fser noMappers NF JK item := funext fun x => c10_fser_free Mp NF JK item x h
    simp only [fser, this]
  | .seqPos .list items _ _, v, h => by
    simp only [mfreeD] at h
    have : fserZipRaw Mp NF JK items = fserZipRaw noMappers NF JK items :=
      funext fun xs => c10_fserZipRaw_free Mp NF JK items xs h
    simp only [fser, this]
  | .seqPos .deque items _ _, v, h => by
    simp only [mfreeD] at h
    have : fserZipRaw Mp NF JK items = fserZipRaw noMappers NF JK items :=
      funext fun xs => c10_fserZipRaw_free Mp NF JK items xs h
    simp only [fser, this]
  | .tuplePos items _, v, h => by
    simp only [mfreeD] at h
    have : fserZip Mp NF JK items = fserZip noMappers NF JK items :=
      funext fun xs => c10_fserZip_free Mp NF JK items xs h
    simp only [fser, this]
  | .mapOf kf vf _, v, h => by
    simp only [mfreeD, and_true_iff] at h
    have h1 : fser Mp NF JK kf = fser noMappers NF JK kf := funext fun x => c10_fser_free Mp NF JK kf x h.1
    have h2 : fser Mp NF JK vf = fser noMappers NF JK vf := funext fun x => c10_fser_free Mp NF JK vf x h.2
    simp only [fser, h1, h2]
  | .struct c fields ds, v, h => by
    simp only [mfreeD, and_true_iff, Bool.or_eq_true] at h
    have hf : ∀ m a, fFields Mp NF JK false m ds a fields = fFields noMappers NF JK false m ds a fields :=
      fun m a => c10_fFields_free Mp NF JK false m ds a fields h.2
    have hi : ∀ d a, fInline Mp NF JK d a fields = fInline noMappers NF JK d a fields :=
      fun d a => c10_fInline_free Mp NF JK d a fields h.2
    simp only [fser, hi]
    split
    · rfl
    · rename_i hinl
      have hm : Mp c.name = .none := by
        rcases h.1 with h1 | h1
        · exact absurd h1 hinl
        · exact c10_isNone_eq _ h1
      have h0 : noMappers c.name = .none := rfl
      simp only [hm, h0, hf]
  | .anyOf fs, v, h => by
    simp only [mfreeD] at h
    simp only [fser, c10_fserLast_free Mp NF JK fs v h]
  | .allOf fs, v, h => by
    simp only [mfreeD] at h
    simp only [fser, c10_fserHead_free Mp NF JK fs v h]
  | .notF fs, v, h => by
    simp only [mfreeD] at h
    simp only [fser, c10_fserHead_free Mp NF JK fs v h]

theorem c10_fserZip_free (Mp : MapEnv) (NF JK : List String) : ∀ (fs : List FieldDecl) (xs : List PyVal),
    mfreeL Mp fs = true → fserZip Mp NF JK fs xs = fserZip noMappers NF JK fs xs
  | [], [], _ => rfl
  | [], _ :: _, _ => rfl
  | _ :: _, [], _ => rfl
  | f :: fs, x :: xs, h => by
    simp only [mfreeL, and_true_iff] at h
    simp only [fserZip, c10_fser_free Mp NF JK f x h.1, c10_fserZip_free Mp NF JK fs xs h.2]

theorem c10_fserZipRaw_free (Mp : MapEnv) (NF JK : List String) : ∀ (fs : List FieldDecl) (xs : List PyVal),
    mfreeL Mp fs = true → fserZipRaw Mp NF JK fs xs = fserZipRaw noMappers NF JK fs xs
  | [], [], _ => rfl
  | [], _ :: _, _ => rfl
  | _ :: _, [], _ => rfl
  | f :: fs, x :: xs, h => by
    simp only [mfreeL, and_true_iff] at h
    simp only [fserZipRaw, c10_fser_free Mp NF JK f x h.1, c10_fserZipRaw_free Mp NF JK fs xs h.2]

theorem c10_fserLast_free (Mp : MapEnv) (NF JK : List String) : ∀ (fs : List FieldDecl) (v : PyVal),
    mfreeL Mp fs = true → fserLast Mp NF JK fs v = fserLast noMappers NF JK fs v
  | [], _, _ => rfl
  | f :: rest, v, h => by
    simp only [mfreeL, and_true_iff] at h
    simp only [fserLast, c10_fser_free Mp NF JK f v h.1, c10_fserLast_free Mp NF JK rest v h.2]

theorem c10_fserHead_free (Mp : MapEnv) (NF JK : List String) : ∀ (fs : List FieldDecl) (v : PyVal),
    mfreeL Mp fs = true → fserHead Mp NF JK fs v = fserHead noMappers NF JK fs v
  | [], _, _ => rfl
  | f :: _, v, h => by
    simp only [mfreeL, and_true_iff] at h
    simp only [fserHead, c10_fser_free Mp NF JK f v h.1]

theorem c10_fInline_free (Mp : MapEnv) (NF JK : List String) (ds attrs : List (String × PyVal)) :
    ∀ fields : List (String × FieldDecl), mfreeFields Mp fields = true →
      fInline Mp NF JK ds attrs fields = fInline noMappers NF JK ds attrs fields
  | [], _ => rfl
  | (n, f) :: rest, h => by
    simp only [mfreeFields, and_true_iff] at h
    simp only [fInline, c10_fser_free Mp NF JK f _ h.1, c10_fInline_free Mp NF JK ds attrs rest h.2]

theorem c10_fFields_free (Mp : MapEnv) (NF JK : List String) (sn : Bool) (m : TMapper)
    (ds attrs : List (String × PyVal)) :
    ∀ fields : List (String × FieldDecl), mfreeFields Mp fields = true →
      fFields Mp NF JK sn m ds attrs fields = fFields noMappers NF JK sn m ds attrs fields
  | [], _ => rfl
  | (n, f) :: rest, h => by
    simp only [mfreeFields, and_true_iff] at h
    simp only [fFields, c10_fser_free Mp NF JK f _ h.1, c10_fFields_free Mp NF JK sn m ds attrs rest h.2]
end

/-! ### fast ≡ regular with a mapper on the class -/

/-- for a class of the region `fsafeCls` with a simple mapper that is injective on its fields and
    whose nested classes have no mapper, the installed serializer returns the regular document
    with the class's keys renamed by the mapper -/
theorem c10_fast_outer_mapper (O : Oracles) (JK : List String) (Mp : MapEnv) (c : ClassOpts)
    (fields : List (String × FieldDecl)) (ds : List (String × PyVal)) (x : PyVal)
    (hs : fsafeCls [] (.struct c fields ds) = true) (hw : fwf O (.struct c fields ds) x = true)
    (hfree : mfreeFields Mp fields = true)
    (hinj : strNodup (fields.map fun p => mapKey (Mp c.name) p.1) = true) :
    fastSerialize Mp [] JK false false (.struct c fields ds) x
      = bindE (serialize O (.struct c fields ds) (canonV (.struct c fields ds) x)) (relabelDoc (Mp c.name)) := by
  rw [← fast_equiv_core O JK (.struct c fields ds) x hs hw]
  have h0 : noMappers c.name = .none := rfl
  simp only [fastSerialize, Bool.false_and, Bool.false_eq_true, if_false, h0]
  rw [c10_fFields_free Mp [] JK false (Mp c.name) ds (attrsOf x) fields hfree]
  have hrel := c10_fFields_relabel noMappers [] JK false (Mp c.name) ds (attrsOf x) fields
  cases hr0 : fFields noMappers [] JK false .none ds (attrsOf x) fields with
  | error e =>
    rw [hr0] at hrel
    simp only [bindE_error] at hrel
    simp only [hrel, bindE_error]
  | ok r0 =>
    rw [hr0] at hrel
    simp only [bindE_ok] at hrel
    have hk := c10_keyDedupe_id noMappers [] JK false (Mp c.name) ds (attrsOf x) fields _ hinj hrel
    have hk0 : keyDedupe .none r0 = r0 := by simp [keyDedupe, TMapper.isNone]
    simp only [hrel, bindE_ok, hk, hk0, relabelDoc]

/-! ### helpers -/

theorem c10_bindE_ok_id {α} (r : R α) : bindE r (fun j => .ok j) = r := by
  cases r <;> rfl

theorem c10_mapE_bind {α β γ} (g : α → R β) (h : β → γ) : ∀ xs : List α,
    mapE (fun x => bindE (g x) fun j => .ok (h j)) xs = bindE (mapE g xs) fun ys => .ok (ys.map h)
  | [] => rfl
  | x :: xs => by
    simp only [mapE, c10_mapE_bind g h xs]
    cases g x with
    | error e => rfl
    | ok y =>
      simp only [bindE_ok]
      cases mapE g xs with
      | error e => rfl
      | ok ys => rfl

theorem c10_fList_rel (g : PyVal → R PyVal) (h : PyVal → PyVal) (v : PyVal) :
    fList (mapE (fun x => bindE (g x) fun j => .ok (h j))) v
      = bindE (fList (mapE g) v) fun j => .ok (match j with | .list js => .list (js.map h) | other => other) := by
  simp only [fList]
  cases iterElems v with
  | none => rfl
  | some xs =>
    simp only [c10_mapE_bind]
    cases mapE g xs with
    | error e => rfl
    | ok ys => rfl

theorem c10_nodup_of_map (g : String → String) : ∀ l : List String,
    strNodup (l.map g) = true → strNodup l = true
  | [], _ => rfl
  | x :: xs, h => by
    simp only [List.map_cons, strNodup, and_true_iff, Bool.not_eq_true'] at h
    simp only [strNodup, and_true_iff, Bool.not_eq_true']
    refine ⟨?_, c10_nodup_of_map g xs h.2⟩
    cases hc : xs.contains x with
    | false => rfl
    | true =>
      have : (xs.map g).contains (g x) = true := by
        simp only [List.contains_eq_mem, List.mem_map, decide_eq_true_eq] at hc ⊢
        exact ⟨x, hc, rfl⟩
      rw [h.1] at this; cases this

theorem c10_rel_nsb (Mp : MapEnv) (f : FieldDecl) (h : isNSB f = true) (j : PyVal) : relV Mp f j = j := by
  cases f <;> simp [isNSB] at h <;> simp [relV]

theorem c10_rel_numOrStr (Mp : MapEnv) (f : FieldDecl) (h : isNumOrStr f = true) (j : PyVal) : relV Mp f j = j := by
  cases f <;> simp [isNumOrStr] at h <;> simp [relV]

mutual
theorem c10_relV_isNone (Mp : MapEnv) : ∀ (f : FieldDecl) (j : PyVal), (relV Mp f j).isNone = j.isNone
  | .struct c fields _, j => by
    cases j <;> simp only [relV]
    split <;> rfl
  | .seqOf _ item _, j => by cases j <;> simp [relV, PyVal.isNone]
  | .setOf _ item _, j => by cases j <;> simp [relV, PyVal.isNone]
  | .tupleOf item _, j => by cases j <;> simp [relV, PyVal.isNone]
  | .anyOf fs, j => by simp only [relV]; exact c10_relLast_isNone Mp fs j
  | .number _, _ => by simp [relV]
  | .integer _, _ => by simp [relV]
  | .float _, _ => by simp [relV]
  | .string _ _ _, _ => by simp [relV]
  | .boolean, _ => by simp [relV]
  | .noneF, _ => by simp [relV]
  | .enumLit _, _ => by simp [relV]
  | .enumCls _ _, _ => by simp [relV]
  | .seqAny _ _, _ => by simp [relV]
  | .seqPos _ _ _ _, _ => by simp [relV]
  | .setAny _ _, _ => by simp [relV]
  | .tuplePos _ _, _ => by simp [relV]
  | .mapAny _, _ => by simp [relV]
  | .mapOf _ _ _, _ => by simp [relV]
  | .oneOf _, _ => by simp [relV]
  | .allOf _, _ => by simp [relV]
  | .notF _, _ => by simp [relV]
  | .anything, _ => by simp [relV]
theorem c10_relLast_isNone (Mp : MapEnv) : ∀ (fs : List FieldDecl) (j : PyVal), (relLast Mp fs j).isNone = j.isNone
  | [], _ => rfl
  | f :: rest, j => by
    simp only [relLast]
    split
    · exact c10_relV_isNone Mp f j
    · exact c10_relLast_isNone Mp rest j
end

/-! ### the installed serializers of a class tree with mappers -/

theorem c10_relFields_skip (Mp : MapEnv) (m : TMapper) (n : String) (f : FieldDecl)
    (rest : List (String × FieldDecl)) (r : List (PyVal × PyVal))
    (h : ∀ kv ∈ r, ∃ p ∈ rest, kv.1 = .str p.1) (hn : (rest.map (·.1)).contains n = false) :
    relFields Mp m ((n, f) :: rest) r = relFields Mp m rest r := by
  cases r with
  | nil => cases rest <;> simp [relFields]
  | cons kv r' =>
    rcases h kv (by simp) with ⟨p, hp, e⟩
    obtain ⟨k, j⟩ := kv
    simp only at e
    subst e
    have hne : (p.1 == n) = false := by
      cases hk : (p.1 == n) with
      | false => rfl
      | true =>
        have : p.1 = n := by simpa using hk
        have hm : (rest.map (·.1)).contains n = true := by
          simp only [List.contains_eq_mem, List.mem_map, decide_eq_true_eq]
          exact ⟨p, hp, this⟩
        rw [hn] at hm; cases hm
    simp only [relFields, hne, Bool.false_eq_true, if_false]

mutual
theorem c10_fser_rel (Mp : MapEnv) (JK : List String) : ∀ (f : FieldDecl) (v : PyVal),
    fmsafeD Mp f = true →
    fser Mp [] JK f v = bindE (fser noMappers [] JK f v) fun j => .ok (relV Mp f j)
  | .number _, v, _ => by simp only [relV, c10_bindE_ok_id]; rfl
  | .integer _, v, _ => by simp only [relV, c10_bindE_ok_id]; rfl
  | .float _, v, _ => by simp only [relV, c10_bindE_ok_id]; rfl
  | .string _ _ _, v, _ => by simp only [relV, c10_bindE_ok_id]; rfl
  | .boolean, v, _ => by simp only [relV, c10_bindE_ok_id]; rfl
  | .noneF, v, _ => by simp only [relV, c10_bindE_ok_id]; rfl
  | .enumLit _, v, _ => by simp only [relV, c10_bindE_ok_id]; rfl
  | .enumCls _ _, v, _ => by simp only [relV, c10_bindE_ok_id]; rfl
  | .seqAny _ _, v, _ => by simp only [relV, c10_bindE_ok_id]; rfl
  | .setAny _ _, v, _ => by simp only [relV, c10_bindE_ok_id]; rfl
  | .mapAny _, v, _ => by simp only [relV, c10_bindE_ok_id]; rfl
  | .anything, v, _ => by simp only [relV, c10_bindE_ok_id]; rfl
  | .oneOf _, _, h => by simp [fmsafeD] at h
  | .allOf _, _, h => by simp [fmsafeD] at h
  | .notF _, _, h => by simp [fmsafeD] at h
  | .tuplePos items u, v, h => by
    simp only [fmsafeD] at h
    have := c10_fser_free Mp [] JK (.tuplePos items u) v (by simp only [mfreeD]; exact h)
    simp only [this, relV, c10_bindE_ok_id]
  | .seqPos k items a sz, v, h => by
    simp only [fmsafeD] at h
    have := c10_fser_free Mp [] JK (.seqPos k items a sz) v (by simp only [mfreeD]; exact h)
    simp only [this, relV, c10_bindE_ok_id]
  | .mapOf kf vf sz, v, h => by
    simp only [fmsafeD] at h
    have := c10_fser_free Mp [] JK (.mapOf kf vf sz) v (by simp only [mfreeD]; exact h)
    simp only [this, relV, c10_bindE_ok_id]
  | .seqOf .list item sz, v, h => by
    simp only [fmsafeD] at h
    have ih : fser Mp [] JK item = fun x => bindE (fser noMappers [] JK item x) fun j => .ok (relV Mp item j) :=
      funext fun x => c10_fser_rel Mp JK item x h
    have hr : (fun j => (Except.ok (relV Mp (.seqOf .list item sz) j) : R PyVal))
        = fun j => .ok (match j with | .list js => .list (js.map (relV Mp item)) | other => other) := by
      funext j; cases j <;> simp [relV]
    simp only [fser, nonFastRef_nil, Bool.false_eq_true, if_false, hr]
    by_cases hn : isNumOrStr item = true
    · simp only [hn, if_true, fList]
      cases iterElems v with
      | none => rfl
      | some xs =>
        simp only [bindE_ok]
        rw [c10_map_id_of _ _ (c10_rel_numOrStr Mp item hn)]
    · simp only [hn, Bool.false_eq_true, if_false, ih]
      exact c10_fList_rel _ _ v
  | .seqOf .deque item sz, v, h => by
    simp only [fmsafeD] at h
    have ih : fser Mp [] JK item = fun x => bindE (fser noMappers [] JK item x) fun j => .ok (relV Mp item j) :=
      funext fun x => c10_fser_rel Mp JK item x h
    have hr : (fun j => (Except.ok (relV Mp (.seqOf .deque item sz) j) : R PyVal))
        = fun j => .ok (match j with | .list js => .list (js.map (relV Mp item)) | other => other) := by
      funext j; cases j <;> simp [relV]
    simp only [fser, hr, ih]
    exact c10_fList_rel _ _ v
  | .setOf imm item sz, v, h => by
    simp only [fmsafeD] at h
    have ih : fser Mp [] JK item = fun x => bindE (fser noMappers [] JK item x) fun j => .ok (relV Mp item j) :=
      funext fun x => c10_fser_rel Mp JK item x h
    have hr : (fun j => (Except.ok (relV Mp (.setOf imm item sz) j) : R PyVal))
        = fun j => .ok (match j with | .list js => .list (js.map (relV Mp item)) | other => other) := by
      funext j; cases j <;> simp [relV]
    simp only [fser, nonFastRef_nil, Bool.false_eq_true, if_false, hr, ih]
    exact c10_fList_rel _ _ v
  | .tupleOf item u, v, h => by
    simp only [fmsafeD] at h
    have ih : fser Mp [] JK item = fun x => bindE (fser noMappers [] JK item x) fun j => .ok (relV Mp item j) :=
      funext fun x => c10_fser_rel Mp JK item x h
    have hr : (fun j => (Except.ok (relV Mp (.tupleOf item u) j) : R PyVal))
        = fun j => .ok (match j with | .list js => .list (js.map (relV Mp item)) | other => other) := by
      funext j; cases j <;> simp [relV]
    simp only [fser, hr, ih]
    exact c10_fList_rel _ _ v
  | .anyOf fs, v, h => by
    simp only [fmsafeD] at h
    simp only [fser, relV]
    by_cases hv : v.isNone = true
    · simp only [hv, if_true, bindE_ok]
      have := c10_relLast_isNone Mp fs .none
      cases hx : relLast Mp fs .none <;> simp [hx, PyVal.isNone] at this
      rfl
    · simp only [hv, Bool.false_eq_true, if_false]
      by_cases hm : anyOfMulti fs = true
      · simp only [hm, if_true]; rfl
      · simp only [hm, Bool.false_eq_true, if_false]
        exact c10_fserLast_rel Mp JK fs v h
  | .struct c fields ds, v, h => by
    simp only [fmsafeD, and_true_iff, Bool.not_eq_true'] at h
    have hinl := h.1.1.1
    have hnd : strNodup (fields.map (·.1)) = true := by
      have := h.1.2
      rw [show (fields.map fun p => mapKey (Mp c.name) p.1) = (fields.map (·.1)).map (mapKey (Mp c.name)) by
        simp [List.map_map]] at this
      exact c10_nodup_of_map _ _ this
    have h0 : noMappers c.name = .none := rfl
    simp only [fser, hinl, Bool.false_eq_true, if_false, List.contains_nil, h0]
    cases v <;> try rfl
    rename_i cn attrs
    simp only
    have hrel := c10_ffields_rel Mp JK (Mp c.name) ds attrs fields h.2 hnd
    cases hr0 : fFields noMappers [] JK false .none ds attrs fields with
    | error e =>
      rw [hr0] at hrel
      simp only [bindE_error] at hrel
      simp only [hrel, bindE_error]
    | ok r0 =>
      rw [hr0] at hrel
      simp only [bindE_ok] at hrel
      have hk := c10_keyDedupe_id Mp [] JK false (Mp c.name) ds attrs fields _ h.1.2 hrel
      have hk0 : keyDedupe .none r0 = r0 := by simp [keyDedupe, TMapper.isNone]
      simp only [hrel, bindE_ok, hk, hk0, relV, hinl, Bool.false_eq_true, if_false]

theorem c10_fserLast_rel (Mp : MapEnv) (JK : List String) : ∀ (fs : List FieldDecl) (v : PyVal),
    fmsafeL Mp fs = true →
    fserLast Mp [] JK fs v = bindE (fserLast noMappers [] JK fs v) fun j => .ok (relLast Mp fs j)
  | [], _, _ => rfl
  | f :: rest, v, h => by
    simp only [fmsafeL, and_true_iff] at h
    simp only [fserLast, relLast]
    split
    · exact c10_fser_rel Mp JK f v h.1
    · exact c10_fserLast_rel Mp JK rest v h.2

theorem c10_ffields_rel (Mp : MapEnv) (JK : List String) (m : TMapper) (ds attrs : List (String × PyVal)) :
    ∀ fields : List (String × FieldDecl), fmsafeFields Mp fields = true →
      strNodup (fields.map (·.1)) = true →
      fFields Mp [] JK false m ds attrs fields
        = bindE (fFields noMappers [] JK false .none ds attrs fields) fun r0 => .ok (relFields Mp m fields r0)
  | [], _, _ => by simp [fFields, relFields]
  | (n, f) :: rest, h, hnd => by
    simp only [fmsafeFields, and_true_iff] at h
    simp only [List.map_cons, strNodup, and_true_iff, Bool.not_eq_true'] at hnd
    have ih := c10_ffields_rel Mp JK m ds attrs rest h.2 hnd.2
    have hg : (if isNSB f = true then (Except.ok (getAttr ds attrs n) : R PyVal)
           else if (getAttr ds attrs n).isNone = true then .ok .none
           else fser Mp [] JK f (getAttr ds attrs n))
        = bindE (if isNSB f = true then (Except.ok (getAttr ds attrs n) : R PyVal)
           else if (getAttr ds attrs n).isNone = true then .ok .none
           else fser noMappers [] JK f (getAttr ds attrs n)) fun j => .ok (relV Mp f j) := by
      by_cases hnsb : isNSB f = true
      · simp only [hnsb, if_true, bindE_ok, c10_rel_nsb Mp f hnsb]
      · simp only [hnsb, Bool.false_eq_true, if_false]
        by_cases hnone : (getAttr ds attrs n).isNone = true
        · simp only [hnone, if_true, bindE_ok]
          have := c10_relV_isNone Mp f .none
          cases hx : relV Mp f .none <;> simp [hx, PyVal.isNone] at this
          rfl
        · simp only [hnone, Bool.false_eq_true, if_false]
          exact c10_fser_rel Mp JK f _ h.1
    simp only [fFields, hg, ih]
    cases (if isNSB f = true then (Except.ok (getAttr ds attrs n) : R PyVal)
           else if (getAttr ds attrs n).isNone = true then .ok .none
           else fser noMappers [] JK f (getAttr ds attrs n)) with
    | error e => rfl
    | ok j0 =>
      simp only [bindE_ok]
      cases hr : fFields noMappers [] JK false .none ds attrs rest with
      | error e => rfl
      | ok r0 =>
        simp only [bindE_ok, c10_relV_isNone, Bool.not_false, Bool.and_true, c10_mapKey_none]
        have hkeys := (c10_fFields_keys noMappers [] JK false .none ds attrs rest r0
          (by simpa [c10_mapKey_none] using hnd.2) hr).2
        have hkeys' : ∀ kv ∈ r0, ∃ p ∈ rest, kv.1 = .str p.1 := fun kv hkv => by
          rcases hkeys kv hkv with ⟨p, hp, e⟩
          exact ⟨p, hp, by simpa [c10_mapKey_none] using e⟩
        by_cases hj : j0.isNone = true
        · simp only [hj, if_true]
          rw [c10_relFields_skip Mp m n f rest r0 hkeys' hnd.1]
        · simp only [hj, Bool.false_eq_true, if_false]
          simp [relFields]
end

theorem c10_fastSerialize_eq_fser (Mp : MapEnv) (JK : List String) (c : ClassOpts)
    (fields : List (String × FieldDecl)) (ds : List (String × PyVal)) (cn : String) (attrs : List (String × PyVal))
    (hinl : c.inline = false) :
    fastSerialize Mp [] JK false false (.struct c fields ds) (.inst cn attrs)
      = fser Mp [] JK (.struct c fields ds) (.inst cn attrs) := by
  simp only [fastSerialize, attrsOf, fser, hinl, Bool.false_eq_true, if_false, List.contains_nil, Bool.false_and]
  cases fFields Mp [] JK false (Mp c.name) ds attrs fields <;> rfl

/-- **fast ≡ regular with one simple mapper per class, at any depth** -/
theorem c10_fast_full_mapper (O : Oracles) (JK : List String) (Mp : MapEnv) (cls : FieldDecl) (x : PyVal)
    (hs : fsafeCls [] cls = true) (hw : fwf O cls x = true) (hm : fmsafeD Mp cls = true) :
    fastSerialize Mp [] JK false false cls x
      = bindE (serialize O cls (canonV cls x)) fun j => .ok (relV Mp cls j) := by
  cases cls with
  | struct c fields ds =>
    have hinl : c.inline = false := by
      simp only [fmsafeD, and_true_iff, Bool.not_eq_true'] at hm
      exact hm.1.1.1
    have hx : ∃ cn attrs, x = .inst cn attrs := by
      simp only [fwf] at hw
      cases x <;> simp at hw
      exact ⟨_, _, rfl⟩
    rcases hx with ⟨cn, attrs, rfl⟩
    rw [← fast_equiv_core O JK (.struct c fields ds) (.inst cn attrs) hs hw,
      c10_fastSerialize_eq_fser Mp JK c fields ds cn attrs hinl,
      c10_fastSerialize_eq_fser noMappers JK c fields ds cn attrs hinl]
    exact c10_fser_rel Mp JK (.struct c fields ds) (.inst cn attrs) hm
  | _ => simp [fsafeCls] at hs


end Typedpy
