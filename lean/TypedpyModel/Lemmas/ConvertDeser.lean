/-
  Lemmas/ConvertDeser.lean — on a document that already carries the latest version, forcing the constructor's
  `version` keyword (`Versioned.__init__`) changes nothing: the remainder of the `Versioned` deserialization is the
  plain deserialization (Sem/Deser.lean `deserialize`) of the class.
-/
import TypedpyModel.Sem.ConvertDeser
namespace Typedpy.ConvertDeser
open Typedpy

/-- the keyword view of a JSON object -/
def kwOf (kvs : Convert.Obj) : List (String × PyVal) := kvs.map fun p => (p.1, toPy p.2)

theorem c17_kwOfDict_toPyObj : ∀ kvs : Convert.Obj, kwOfDict (toPyObj kvs) = some (kwOf kvs)
  | [] => by simp [toPyObj, kwOfDict, kwOf]
  | (k, v) :: r => by
    simp only [toPyObj, kwOfDict, c17_kwOfDict_toPyObj r, Option.map_some, kwOf, List.map_cons]

theorem c17_lookup_kwOf {k : String} {j : Convert.Json} : ∀ kvs : Convert.Obj,
    Convert.get k kvs = some j → lookup k (kwOf kvs) = some (toPy j)
  | [], h => by simp [Convert.get] at h
  | (k', v) :: r, h => by
    simp only [Convert.get] at h
    simp only [kwOf, List.map_cons, lookup]
    by_cases hk : k' = k
    · subst hk
      simp only [if_true] at h
      cases h
      simp
    · simp only [hk, if_false] at h
      have hk' : (k == k') = false := by simpa using (Ne.symm hk)
      simp only [hk', Bool.false_eq_true, if_false]
      exact c17_lookup_kwOf r h

theorem c17_setKw_of_lookup {k : String} {v : PyVal} : ∀ l : List (String × PyVal),
    lookup k l = some v → setKw k v l = l
  | [], h => by simp [lookup] at h
  | (k', v') :: r, h => by
    simp only [lookup] at h
    simp only [setKw]
    by_cases hk : k' = k
    · subst hk
      simp only [beq_self_eq_true, if_true, Option.some.injEq] at h
      subst h
      simp
    · have hk' : (k == k') = false := by simpa using (Ne.symm hk)
      simp only [hk', Bool.false_eq_true, if_false] at h
      simp only [hk, if_false, c17_setKw_of_lookup r h]

theorem c17_setKw_append {k : String} {v : PyVal} : ∀ (a b : List (String × PyVal)),
    (∀ p, p ∈ a → p.1 ≠ k) → setKw k v (a ++ b) = a ++ setKw k v b
  | [], b, _ => by simp
  | (k', v') :: r, b, h => by
    have hk : k' ≠ k := h (k', v') List.mem_cons_self
    simp only [List.cons_append, setKw, hk, if_false,
      c17_setKw_append r b (fun p hp => h p (List.mem_cons_of_mem _ hp))]

/-- the per-field pass hands the document's integer `version` on unchanged -/
theorem c17_deserFields_version (O : Oracles) (opts : DeserOpts) (c : ClassOpts) (doc : List (String × PyVal))
    (o : NumOpts) (L : Int) (hl : lookup "version" doc = some (.int L)) :
    ∀ (fields : List (String × FieldDecl)) (errs : Bool) (ys : List (String × PyVal)),
      (∀ f, ("version", f) ∈ fields → f = .integer o) → "version" ∈ fields.map (·.1) →
      deserFields O opts c doc fields errs = .ok ys → lookup "version" ys = some (.int L)
  | [], _, _, _, hin, _ => by simp at hin
  | (name, f) :: rest, errs, ys, hf, hin, h => by
    have hfr : ∀ f, ("version", f) ∈ rest → f = .integer o := fun f hm => hf f (List.mem_cons_of_mem _ hm)
    by_cases hn : name = "version"
    · subst hn
      have hfi := hf f List.mem_cons_self
      subst hfi
      simp only [deserFields, hl, PyVal.isNone] at h
      simp only [deser, PyVal.isNone, Bool.false_and, Bool.false_eq_true, if_false] at h
      cases hv : vInteger (noSign o) (.int L) with
      | error e => simp [hv, dValidated] at h
      | ok w =>
        simp only [hv, dValidated] at h
        cases hr : deserFields O opts c doc rest errs with
        | error e => simp [hr, bindE] at h
        | ok zs =>
          simp only [hr, bindE] at h
          cases h
          simp [lookup]
    · have hin' : "version" ∈ rest.map (·.1) := by
        simp only [List.map_cons, List.mem_cons] at hin
        rcases hin with h' | h'
        · exact absurd h'.symm hn
        · exact h'
      simp only [deserFields] at h
      cases hlk : lookup name doc with
      | none =>
        simp only [hlk] at h
        exact c17_deserFields_version O opts c doc o L hl rest errs ys hfr hin' h
      | some v =>
        simp only [hlk] at h
        cases hnone : v.isNone with
        | true =>
          simp only [hnone, if_true] at h
          exact c17_deserFields_version O opts c doc o L hl rest errs ys hfr hin' h
        | false =>
          simp only [hnone, Bool.false_eq_true, if_false] at h
          cases hd : deser O opts c.ignoreNone f v with
          | error e => simp [hd] at h
          | ok y =>
            simp only [hd] at h
            cases hr : deserFields O opts c doc rest errs with
            | error e => simp [hr, bindE] at h
            | ok zs =>
              simp only [hr, bindE] at h
              cases h
              have hne : ("version" == name) = false := by simpa using (Ne.symm hn)
              simp only [lookup, hne, Bool.false_eq_true, if_false]
              exact c17_deserFields_version O opts c doc o L hl rest errs zs hfr hin' hr

/-- **forcing the version is a no-op on a document at the latest version** -/
theorem c17_forced_version_noop (O : Oracles) (opts : DeserOpts) (c : ClassOpts)
    (fields : List (String × FieldDecl)) (defaults : List (String × PyVal)) (latest : Int) (kvs : Convert.Obj)
    (o : NumOpts) (hf : ∀ f, ("version", f) ∈ fields → f = .integer o) (hin : "version" ∈ fields.map (·.1))
    (hg : Convert.get "version" kvs = some (.int latest)) :
    versionedRest O opts (.struct c fields defaults) latest (.obj kvs)
      = deserializePlain O opts (.struct c fields defaults) (.obj kvs) := by
  have hl : lookup "version" (kwOf kvs) = some (.int latest) := by
    have := c17_lookup_kwOf kvs hg
    simpa [toPy] using this
  simp only [versionedRest, deserializePlain, deserialize, toPy, dClassRef, c17_kwOfDict_toPyObj]
  cases hd : deserFields O opts c (kwOf kvs) fields false with
  | error e => simp [bindE]
  | ok ys =>
    have hv := c17_deserFields_version O opts c (kwOf kvs) o latest hl fields false ys hf hin hd
    have hex : ∀ p, p ∈ deserExtras opts c (fields.map (·.1)) (kwOf kvs) → p.1 ≠ "version" := by
      intro p hp hpe
      simp only [deserExtras, List.mem_filter, Bool.and_eq_true, Bool.not_eq_true'] at hp
      have := hp.2.1.1
      rw [hpe] at this
      have h2 : (fields.map (·.1)).contains "version" = true := List.contains_iff_mem.mpr hin
      rw [h2] at this
      cases this
    simp only [bindE, c17_setKw_append _ _ hex, c17_setKw_of_lookup ys hv]

/-! ### the instance carries the forced version -/

theorem c17_lookup_setKw (k : String) (v : PyVal) : ∀ l : List (String × PyVal), lookup k (setKw k v l) = some v
  | [] => by simp [setKw, lookup]
  | (k', v') :: r => by
    by_cases hk : k' = k
    · subst hk; simp [setKw, lookup]
    · have hk' : (k == k') = false := by simpa using (Ne.symm hk)
      simp only [setKw, hk, if_false, lookup, hk', Bool.false_eq_true, c17_lookup_setKw k v r]

theorem c17_lookup_append_skip {k : String} : ∀ (a b : List (String × PyVal)),
    (∀ p, p ∈ a → p.1 ≠ k) → lookup k (a ++ b) = lookup k b
  | [], _, _ => by simp
  | (k', v') :: r, b, h => by
    have hk : k' ≠ k := h (k', v') List.mem_cons_self
    have hk' : (k == k') = false := by simpa using (Ne.symm hk)
    simp only [List.cons_append, lookup, hk', Bool.false_eq_true, if_false]
    exact c17_lookup_append_skip r b (fun p hp => h p (List.mem_cons_of_mem _ hp))

/-- the constructor's per-field pass stores the integer `version` keyword as it is -/
theorem c17_validateFields_version (O : Oracles) (c : ClassOpts) (defaults kw : List (String × PyVal))
    (o : NumOpts) (L : Int) (hl : lookup "version" kw = some (.int L)) :
    ∀ (fields : List (String × FieldDecl)) (ys : List (String × PyVal)),
      (∀ f, ("version", f) ∈ fields → f = .integer o) → "version" ∈ fields.map (·.1) →
      validateFields O c defaults kw fields = .ok ys → lookup "version" ys = some (.int L)
  | [], _, _, hin, _ => by simp at hin
  | (name, f) :: rest, ys, hf, hin, h => by
    have hfr : ∀ f, ("version", f) ∈ rest → f = .integer o := fun f hm => hf f (List.mem_cons_of_mem _ hm)
    by_cases hn : name = "version"
    · subst hn
      have hfi := hf f List.mem_cons_self
      subst hfi
      simp only [validateFields, argFor, hl, PyVal.isNone, Bool.false_and, Bool.false_eq_true, if_false] at h
      simp only [validate] at h
      cases hv : vInteger o (.int L) with
      | error e => simp [hv, bindE] at h
      | ok w =>
        have hw : w = .int L := by
          simp only [vInteger] at hv
          split at hv
          · cases hv; rfl
          · cases hv
        subst hw
        simp only [hv, bindE] at h
        cases hr : validateFields O c defaults kw rest with
        | error e => simp [hr] at h
        | ok zs =>
          simp only [hr] at h
          cases h
          simp [lookup]
    · have hin' : "version" ∈ rest.map (·.1) := by
        simp only [List.map_cons, List.mem_cons] at hin
        rcases hin with h' | h'
        · exact absurd h'.symm hn
        · exact h'
      simp only [validateFields] at h
      cases ha : argFor c defaults kw name with
      | none =>
        simp only [ha] at h
        exact c17_validateFields_version O c defaults kw o L hl rest ys hfr hin' h
      | some v =>
        simp only [ha] at h
        cases hd : validate O f v with
        | error e => simp [hd, bindE] at h
        | ok y =>
          simp only [hd, bindE] at h
          cases hr : validateFields O c defaults kw rest with
          | error e => simp [hr] at h
          | ok zs =>
            simp only [hr] at h
            cases h
            have hne : ("version" == name) = false := by simpa using (Ne.symm hn)
            simp only [lookup, hne, Bool.false_eq_true, if_false]
            exact c17_validateFields_version O c defaults kw o L hl rest zs hfr hin' hr

/-- **every instance the `Versioned` remainder returns carries the forced version** — whatever version the
    (converted) document claims -/
theorem c17_versionedRest_version (O : Oracles) (opts : DeserOpts) (c : ClassOpts)
    (fields : List (String × FieldDecl)) (defaults : List (String × PyVal)) (latest : Int) (d : Convert.Json)
    (o : NumOpts) (hf : ∀ f, ("version", f) ∈ fields → f = .integer o) (hin : "version" ∈ fields.map (·.1))
    (x : PyVal) (h : versionedRest O opts (.struct c fields defaults) latest d = .ok x) :
    ∃ attrs, x = .inst c.name attrs ∧ lookup "version" attrs = some (.int latest) := by
  -- the continuation handed to `dClassRef`
  have key : ∀ kw : List (String × PyVal),
      bindE (bindE (deserFields O opts c kw fields false)
          (fun args => .ok (deserExtras opts c (fields.map (·.1)) kw ++ args))) (fun args =>
        vConstruct c (fields.map (·.1)) (setKw "version" (.int latest) args)
          (validateFields O c defaults (setKw "version" (.int latest) args) fields)) = .ok x →
      ∃ attrs, x = .inst c.name attrs ∧ lookup "version" attrs = some (.int latest) := by
    intro kw hk
    cases hd : deserFields O opts c kw fields false with
    | error e => simp [hd, bindE] at hk
    | ok ys =>
      simp only [hd, bindE, vConstruct] at hk
      split at hk
      · cases hk
      · cases hv : validateFields O c defaults
            (setKw "version" (.int latest) (deserExtras opts c (fields.map (·.1)) kw ++ ys)) fields with
        | error e => simp [hv] at hk
        | ok attrs =>
          simp only [hv] at hk
          cases hk
          refine ⟨_, rfl, ?_⟩
          have hva := c17_validateFields_version O c defaults _ o latest (c17_lookup_setKw "version" (.int latest) _)
            fields attrs hf hin hv
          rw [c17_lookup_append_skip _ _ (by
            intro p hp hpe
            simp only [extrasOf, List.mem_filter, Bool.and_eq_true, Bool.not_eq_true'] at hp
            have := hp.2.1
            rw [hpe] at this
            have h2 : (fields.map (·.1)).contains "version" = true := List.contains_iff_mem.mpr hin
            rw [h2] at this
            cases this)]
          exact hva
  simp only [versionedRest] at h
  cases hp : toPy d with
  | dict kvs =>
    simp only [hp, dClassRef] at h
    cases hk : kwOfDict kvs with
    | none =>
      simp only [hk] at h
      split at h
      · exact key _ h
      · cases hdf : deserFields O opts c (strKw kvs) fields false <;> simp [hdf, bindE] at h
    | some kw =>
      simp only [hk] at h
      exact key _ h
  | _ => simp [hp] at h

end Typedpy.ConvertDeser
