/-
  Lemmas/MappersCache.lean — C07: the process-wide cache `aggregated_mapper_by_class`, with the entries the
  real code files for nested classes while it builds a base mapper: every mapper handed out, at any
  depth, is the freshly computed aggregate, and the cache stays coherent.
-/
import TypedpyModel.Lemmas.Mappers
namespace Typedpy.Mappers

mutual
/-- the class tree below is filed consistently in `env`: the id of every nested class names that class -/
def envFs (env : String → Cls) : List Fld → Prop
  | [] => True
  | f :: fs => envF env f ∧ envFs env fs
termination_by structural fs => fs
def envF (env : String → Cls) : Fld → Prop
  | .scalar _ _ => True
  | .mapped _ _ _ _ => True
  | .nested _ _ _ ci fs => (env ci.cid).own = ci.ser ∧ (env ci.cid).fields = fs ∧ envFs env fs
termination_by structural f => f
end

def CacheOKn (S : StrFns) (env : String → Cls) (dec : String → Option MDict) (cache : Cache) : Prop :=
  ∀ e ∈ cache, e.2 = aggregate S true (env e.1.1).own (env e.1.1).fields (dec e.1.2.1) e.1.2.2

theorem c07_cacheOK_snoc (S : StrFns) (env : String → Cls) (dec : String → Option MDict) (cache : Cache)
    (k : CacheKey) (m : MDict) (h : CacheOKn S env dec cache)
    (hm : m = aggregate S true (env k.1).own (env k.1).fields (dec k.2.1) k.2.2) :
    CacheOKn S env dec (cache ++ [(k, m)]) := by
  intro e he
  rcases List.mem_append.mp he with he | he
  · exact h e he
  · simp only [List.mem_singleton] at he
    subst he
    exact hm

mutual
theorem c07_cBaseFields_ok (S : StrFns) (env : String → Cls) (dec : String → Option MDict)
    (hdec : dec "" = none) :
    ∀ (fs : List Fld) (cache : Cache), CacheOKn S env dec cache → envFs env fs →
      (cBaseFields S cache fs).1 = baseFields S true fs ∧ CacheOKn S env dec (cBaseFields S cache fs).2
  | [], cache, h, _ => by simp [cBaseFields, baseFields, h]
  | f :: rest, cache, h, he => by
    simp only [envFs] at he
    have h1 := c07_cBaseFld_ok S env dec hdec f cache h he.1
    have h2 := c07_cBaseFields_ok S env dec hdec rest _ h1.2 he.2
    simp only [cBaseFields, baseFields, h1.1, h2.1]
    exact ⟨trivial, h2.2⟩
theorem c07_cBaseFld_ok (S : StrFns) (env : String → Cls) (dec : String → Option MDict)
    (hdec : dec "" = none) :
    ∀ (f : Fld) (cache : Cache), CacheOKn S env dec cache → envF env f →
      (cBaseFld S cache f).1 = baseFld S true f ∧ CacheOKn S env dec (cBaseFld S cache f).2
  | .scalar n o, cache, h, _ => by simp [cBaseFld, baseFld, h]
  | .mapped n o ci fs, cache, h, _ => by simp [cBaseFld, baseFld, h]
  | .nested n o sh ci fs, cache, h, he => by
    simp only [envF] at he
    obtain ⟨he1, he2, he3⟩ := he
    have hagg : aggregate S true (env ci.cid).own (env ci.cid).fields (dec "") false
        = foldAdd S true ci.ser (baseFields S true fs) := by
      rw [he1, he2, hdec]; simp [aggregate, effList]
    simp only [cBaseFld]
    cases hl : lookupR (ci.cid, "", false) cache with
    | some m =>
      have hm := h _ (mem_of_lookupR _ _ cache hl)
      simp only at hm
      rw [hagg] at hm
      simp [baseFld, CInfo.lst, hm, h]
    | none =>
      have ih := c07_cBaseFields_ok S env dec hdec fs cache h he3
      simp only [baseFld, CInfo.lst, if_true, ih.1, true_and]
      exact c07_cacheOK_snoc S env dec _ (ci.cid, "", false) _ ih.2 (by rw [hagg])
end


/-- one call of `aggregate_serialization_mappers`: the mapper handed out is the freshly computed
    aggregate of this call's class / override / flag, and the cache — now also holding the entries of
    every nested class met on the way — stays coherent -/
theorem c07_cAggregate_ok (S : StrFns) (env : String → Cls) (dec : String → Option MDict)
    (hdec : dec "" = none) (cache : Cache) (h : CacheOKn S env dec cache) (me ovKey : String) (camel : Bool)
    (he : envFs env (env me).fields) :
    (cAggregate S cache me ovKey (env me).own (env me).fields (dec ovKey) camel).1
        = aggregate S true (env me).own (env me).fields (dec ovKey) camel
    ∧ CacheOKn S env dec
        (cAggregate S cache me ovKey (env me).own (env me).fields (dec ovKey) camel).2 := by
  unfold cAggregate
  cases hl : lookupR (me, ovKey, camel) cache with
  | some m => exact ⟨h _ (mem_of_lookupR _ _ cache hl), h⟩
  | none =>
    have ih := c07_cBaseFields_ok S env dec hdec (env me).fields cache h he
    simp only [ih.1]
    exact ⟨rfl, c07_cacheOK_snoc S env dec _ (me, ovKey, camel) _ ih.2 rfl⟩

end Typedpy.Mappers
