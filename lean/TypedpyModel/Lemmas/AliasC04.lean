/-
  Lemmas/AliasC04.lean — the invariant behind C04's accessor theorems:
  protected cells never change and the caller can get at a protected cell only if it is sealed.
-/
import TypedpyModel.Sem.AliasC04
import TypedpyModel.Lemmas.Alias
namespace Typedpy.AliasC04
open Typedpy.Alias

structure Inv (P : Nat → Prop) (S : Nat → Bool) (h0 h : Heap) (K : List Nat) : Prop where
  keep : ∀ a, P a → h.cells a = h0.cells a
  old : ∀ a, P a → a < h0.next
  le : h0.next ≤ h.next
  closed : ClosedBelow h.next h
  rootsLt : ∀ a, a ∈ K → a < h.next
  can : ∀ a, Can S h K a → ¬ P a ∨ S a = true

theorem c04_can_lt {S : Nat → Bool} {h : Heap} {K : List Nat} (cb : ClosedBelow h.next h)
    (rl : ∀ a, a ∈ K → a < h.next) {a : Nat} (c : Can S h K a) : a < h.next := by
  induction c with
  | root hm => exact rl _ hm
  | step _ _ hk ih => exact cb _ ih _ hk

theorem c04_can_mono {S : Nat → Bool} {h : Heap} {K K' : List Nat} (sub : ∀ a, a ∈ K' → a ∈ K)
    {a : Nat} (c : Can S h K' a) : Can S h K a := by
  induction c with
  | root hm => exact Can.root (sub _ hm)
  | step _ hs hk ih => exact Can.step ih hs hk

theorem c04_inv_subset {P : Nat → Prop} {S : Nat → Bool} {h0 h : Heap} {K K' : List Nat}
    (sub : ∀ a, a ∈ K' → a ∈ K) (i : Inv P S h0 h K) : Inv P S h0 h K' where
  keep := i.keep
  old := i.old
  le := i.le
  closed := i.closed
  rootsLt := fun a ha => i.rootsLt a (sub a ha)
  can := fun a c => i.can a (c04_can_mono sub c)

/-- a sealed object handed to the caller adds nothing else to what it can get at -/
theorem c04_inv_add_sealed {P : Nat → Prop} {S : Nat → Bool} {h0 h : Heap} {K : List Nat} {c : Nat}
    (i : Inv P S h0 h K) (hs : S c = true) (hc : c < h.next) : Inv P S h0 h (c :: K) where
  keep := i.keep
  old := i.old
  le := i.le
  closed := i.closed
  rootsLt := fun a ha => by
    cases ha with
    | head => exact hc
    | tail _ h' => exact i.rootsLt a h'
  can := fun a cn => by
    have : a = c ∨ Can S h K a := by
      induction cn with
      | root hm =>
        cases hm with
        | head => exact Or.inl rfl
        | tail _ h' => exact Or.inr (Can.root h')
      | step _ hsb hk ih =>
        cases ih with
        | inl e => subst e; rw [hs] at hsb; cases hsb
        | inr cb => exact Or.inr (Can.step cb hsb hk)
    cases this with
    | inl e => subst e; exact Or.inr hs
    | inr cb => exact i.can a cb

/-- the heap grew by a closed fresh region, some of whose cells are handed to the caller -/
theorem c04_inv_grow {P : Nat → Prop} {S : Nat → Bool} {h0 h h1 : Heap} {K R : List Nat}
    (i : Inv P S h0 h K) (fr : Frame h h1) (nc : NewClosed h.next h1)
    (hr : ∀ a, a ∈ R → h.next ≤ a ∧ a < h1.next) : Inv P S h0 h1 (R ++ K) where
  keep := fun a pa => by
    rw [fr.2 a (Nat.lt_of_lt_of_le (i.old a pa) i.le)]; exact i.keep a pa
  old := i.old
  le := Nat.le_trans i.le fr.1
  closed := fun a ha k hk => by
    by_cases hlt : a < h.next
    · rw [fr.2 a hlt] at hk
      exact Nat.lt_of_lt_of_le (i.closed a hlt k hk) fr.1
    · exact (nc a (Nat.le_of_not_lt hlt) ha k hk).2
  rootsLt := fun a ha => by
    rcases List.mem_append.mp ha with h' | h'
    · exact (hr a h').2
    · exact Nat.lt_of_lt_of_le (i.rootsLt a h') fr.1
  can := fun a cn => by
    have : (h.next ≤ a ∧ a < h1.next) ∨ Can S h K a := by
      induction cn with
      | root hm =>
        rcases List.mem_append.mp hm with h' | h'
        · exact Or.inl (hr _ h')
        · exact Or.inr (Can.root h')
      | @step a' b' _ hsb hk ih =>
        cases ih with
        | inl reg => exact Or.inl (nc b' reg.1 reg.2 a' hk)
        | inr cb =>
          have hlt := c04_can_lt i.closed i.rootsLt cb
          rw [fr.2 b' hlt] at hk
          exact Or.inr (Can.step cb hsb hk)
    cases this with
    | inl reg =>
      refine Or.inl (fun pa => ?_)
      exact Nat.lt_irrefl _ (Nat.lt_of_lt_of_le (Nat.lt_of_lt_of_le (i.old a pa) i.le) reg.1)
    | inr cb => exact i.can a cb

theorem c04_newClosed_self (h : Heap) : NewClosed h.next h :=
  fun a ha hlt => absurd hlt (Nat.not_lt.mpr ha)

def optAddrs : Option Item → List Nat
  | some i => addrs [i]
  | none => []

/-- a deep copy handed to the caller -/
theorem c04_inv_copy {P : Nat → Prop} {S : Nat → Bool} {h0 h : Heap} {K : List Nat}
    (i : Inv P S h0 h K) (fuel : Nat) (it : Item) :
    Inv P S h0 (copyOrRaise fuel h it).1 (optAddrs (copyOrRaise fuel h it).2 ++ K) := by
  unfold copyOrRaise
  cases e : deepCopy fuel h it with
  | mk h1 o =>
    cases o with
    | none => exact i
    | some i' =>
      have fr := deepCopy_frame fuel _ _ _ _ e
      have fs := deepCopy_fresh h.next fuel _ _ _ _ (Nat.le_refl _) (c04_newClosed_self h) e
      refine c04_inv_grow i fr fs.1 (fun a ha => ?_)
      cases i' with
      | atom v => simp [optAddrs, addrs, Item.addr?] at ha
      | ref b =>
        simp only [optAddrs, addrs, List.filterMap_cons, Item.addr?, List.filterMap_nil,
          List.mem_singleton] at ha
        subst ha
        exact fs.2 a rfl

theorem c04_copy_le (fuel : Nat) (h : Heap) (it : Item) : h.next ≤ (copyOrRaise fuel h it).1.next := by
  unfold copyOrRaise
  cases e : deepCopy fuel h it with
  | mk h1 o =>
    cases o with
    | none => exact Nat.le_refl _
    | some i' => exact (deepCopy_frame fuel _ _ _ _ e).1

theorem c04_addrs_atom (v : Int) (r : List Item) : addrs (.atom v :: r) = addrs r := rfl
theorem c04_addrs_ref (c : Nat) (r : List Item) : addrs (.ref c :: r) = c :: addrs r := rfl

/-- `_get_defensive_copy_if_needed` over the elements of an object -/
theorem c04_inv_handItems {P : Nat → Prop} {S : Nat → Bool} {h0 : Heap} (fuel : Nat) :
    ∀ (items : List (String × Item)) (h : Heap) (K : List Nat), Inv P S h0 h K →
      (∀ p, p ∈ items → ∀ c, p.2 = .ref c → c < h.next) →
      Inv P S h0 (handItems S fuel h items).1 (addrs (handItems S fuel h items).2 ++ K)
  | [], h, K, i, _ => by simpa [handItems, addrs] using i
  | (k, it) :: rest, h, K, i, hlt => by
    have hrest : ∀ h' : Heap, h.next ≤ h'.next → ∀ p, p ∈ rest → ∀ c, p.2 = .ref c → c < h'.next :=
      fun h' le p hp c e => Nat.lt_of_lt_of_le (hlt p (List.mem_cons_of_mem _ hp) c e) le
    cases it with
    | atom v =>
      have := c04_inv_handItems fuel rest h K i (hrest h (Nat.le_refl _))
      simp only [handItems, guardItem, c04_addrs_atom]
      exact this
    | ref c =>
      by_cases hs : S c = true
      · have i' := c04_inv_add_sealed i hs (hlt (k, .ref c) (by simp) c rfl)
        have := c04_inv_handItems fuel rest h (c :: K) i' (hrest h (Nat.le_refl _))
        simp only [handItems, guardItem, hs, if_true, c04_addrs_ref]
        refine c04_inv_subset (fun a ha => ?_) this
        simp only [List.cons_append, List.mem_cons, List.mem_append] at ha ⊢
        rcases ha with ha | ha | ha
        · exact Or.inr (Or.inl ha)
        · exact Or.inl ha
        · exact Or.inr (Or.inr ha)
      · have hs' : S c = false := by cases h' : S c <;> simp_all
        simp only [handItems, guardItem, hs', Bool.false_eq_true, if_false]
        have i1 := c04_inv_copy i fuel (.ref c)
        have le1 := c04_copy_le fuel h (.ref c)
        cases e : copyOrRaise fuel h (.ref c) with
        | mk h1 o =>
          rw [e] at i1 le1
          cases o with
          | none =>
            simp only [optAddrs, List.nil_append] at i1
            exact c04_inv_handItems fuel rest h1 K i1 (hrest h1 le1)
          | some i' =>
            have := c04_inv_handItems fuel rest h1 (optAddrs (some i') ++ K) i1 (hrest h1 le1)
            cases i' with
            | atom v =>
              simp only [c04_addrs_atom]
              have hb : optAddrs (some (Item.atom v)) = [] := rfl
              rw [hb, List.nil_append] at this
              exact this
            | ref b =>
              simp only [c04_addrs_ref]
              refine c04_inv_subset (fun a ha => ?_) this
              have hb : optAddrs (some (Item.ref b)) = [b] := rfl
              rw [hb]
              simp only [List.cons_append, List.mem_cons, List.mem_append, List.nil_append] at ha ⊢
              rcases ha with ha | ha | ha
              · exact Or.inr (Or.inl ha)
              · exact Or.inl ha
              · exact Or.inr (Or.inr ha)

/-- native write -/
theorem c04_inv_write {P : Nat → Prop} {S : Nat → Bool} {h0 h : Heap} {K : List Nat} {a : Nat} {c : Cell}
    (i : Inv P S h0 h K) (ha : Can S h K a) (hs : S a = false) (hc : ∀ k, k ∈ c.kids → Can S h K k) :
    Inv P S h0 (h.write a c) K where
  keep := fun x px => by
    have : x ≠ a := by
      intro e; subst e
      rcases i.can x ha with h' | h'
      · exact h' px
      · rw [hs] at h'; cases h'
    simp only [Heap.write, if_neg this]; exact i.keep x px
  old := i.old
  le := i.le
  closed := fun x hx k hk => by
    simp only [Heap.write] at hk hx ⊢
    by_cases e : x = a
    · rw [if_pos e] at hk; exact c04_can_lt i.closed i.rootsLt (hc k hk)
    · rw [if_neg e] at hk; exact i.closed x hx k hk
  rootsLt := i.rootsLt
  can := fun x cn => by
    have : Can S h K x := by
      induction cn with
      | root hm => exact Can.root hm
      | @step a' b' _ hsb hk ih =>
        simp only [Heap.write] at hk
        by_cases e : b' = a
        · rw [if_pos e] at hk; exact hc _ hk
        · rw [if_neg e] at hk; exact Can.step ih hsb hk
    exact i.can x this

/-- native allocation -/
theorem c04_inv_alloc {P : Nat → Prop} {S : Nat → Bool} {h0 h : Heap} {K : List Nat} {c : Cell}
    (i : Inv P S h0 h K) (hc : ∀ k, k ∈ c.kids → Can S h K k) :
    Inv P S h0 (h.alloc c).1 (h.next :: K) where
  keep := fun x px => by
    have : x ≠ h.next := Nat.ne_of_lt (Nat.lt_of_lt_of_le (i.old x px) i.le)
    simp only [Heap.alloc, if_neg this]; exact i.keep x px
  old := i.old
  le := Nat.le_trans i.le (Nat.le_succ _)
  closed := fun x hx k hk => by
    simp only [Heap.alloc] at hk hx ⊢
    by_cases e : x = h.next
    · rw [if_pos e] at hk; exact Nat.lt_succ_of_lt (c04_can_lt i.closed i.rootsLt (hc k hk))
    · rw [if_neg e] at hk
      exact Nat.lt_succ_of_lt (i.closed x (Nat.lt_of_le_of_ne (Nat.le_of_lt_succ hx) e) k hk)
  rootsLt := fun x hx => by
    simp only [Heap.alloc]
    cases hx with
    | head => exact Nat.lt_succ_self _
    | tail _ h' => exact Nat.lt_succ_of_lt (i.rootsLt x h')
  can := fun x cn => by
    have : x = h.next ∨ Can S h K x := by
      induction cn with
      | root hm =>
        cases hm with
        | head => exact Or.inl rfl
        | tail _ h' => exact Or.inr (Can.root h')
      | @step a' b' _ hsb hk ih =>
        simp only [Heap.alloc] at hk
        by_cases e : b' = h.next
        · rw [if_pos e] at hk; exact Or.inr (hc _ hk)
        · rw [if_neg e] at hk
          cases ih with
          | inl e' => exact absurd e' e
          | inr cb => exact Or.inr (Can.step cb hsb hk)
    cases this with
    | inl e =>
      refine Or.inl (fun px => ?_)
      have := Nat.lt_of_lt_of_le (i.old x px) i.le
      rw [e] at this; exact Nat.lt_irrefl _ this
    | inr cb => exact i.can x cb

/-- one admissible event with a safe accessor mode keeps the invariant -/
theorem c04_inv_step {P : Nat → Prop} {S : Nat → Bool} {h0 h : Heap} {K : List Nat} (fuel : Nat)
    (i : Inv P S h0 h K) (e : Ev) (adm : AdmEv S h K e)
    (safe : (match e with | .read _ m => m.safe | .act _ => true) = true) :
    Inv P S h0 (stepEv S fuel h K e).1 (stepEv S fuel h K e).2 := by
  cases e with
  | act x =>
    cases x with
    | write a c =>
      simp only [AdmEv] at adm
      exact c04_inv_write i adm.1 adm.2.1 adm.2.2
    | alloc c =>
      simp only [AdmEv] at adm
      exact c04_inv_alloc i adm
  | read a m =>
    simp only [AdmEv] at adm
    cases m with
    | raw => simp [AMode.safe] at safe
    | noRef => simpa [stepEv, handOut, addrs] using i
    | raises => simpa [stepEv, handOut, addrs] using i
    | deepAll =>
      have i1 := c04_inv_copy i fuel (.ref a)
      simp only [stepEv, handOut]
      cases e : copyOrRaise fuel h (.ref a) with
      | mk h1 o =>
        rw [e] at i1
        cases o with
        | none => simpa [optAddrs, addrs] using i1
        | some i' => simpa [optAddrs] using i1
    | guardedCopy =>
      simp only [stepEv, handOut]
      refine c04_inv_handItems fuel _ h K i (fun p hp c e => ?_)
      have hlt := c04_can_lt i.closed i.rootsLt adm
      apply i.closed a hlt
      simp only [Cell.kids, List.mem_filterMap]
      exact ⟨p, hp, by rw [e]; rfl⟩

theorem c04_inv_run {P : Nat → Prop} {S : Nat → Bool} {h0 : Heap} (fuel : Nat) :
    ∀ (evs : List Ev) (h : Heap) (K : List Nat), Inv P S h0 h K → AdmEvs S fuel h K evs →
      readsSafe evs = true →
      Inv P S h0 (runEvs S fuel h K evs).1 (runEvs S fuel h K evs).2
  | [], h, K, i, _, _ => i
  | e :: rest, h, K, i, adm, safe => by
    simp only [AdmEvs] at adm
    simp only [runEvs]
    cases e with
    | read a m =>
      have hs : m.safe = true ∧ readsSafe rest = true := by simpa [readsSafe] using safe
      exact c04_inv_run fuel rest _ _ (c04_inv_step fuel i (.read a m) adm.1 hs.1) adm.2 hs.2
    | act x =>
      have hs : readsSafe rest = true := by simpa [readsSafe] using safe
      exact c04_inv_run fuel rest _ _ (c04_inv_step fuel i (.act x) adm.1 rfl) adm.2 hs

end Typedpy.AliasC04
