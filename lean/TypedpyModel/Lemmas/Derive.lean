/-
  Lemmas/Derive.lean — helper lemmas about the derivation operators (Sem/Derive.lean): keys of
  association lists, `pickFields`, and the class that `type(name, (Structure,), dict)` yields for
  the dict an operator assembles.
-/
import TypedpyModel.Lemmas.DefineWorld
import TypedpyModel.Spec.FieldSet
namespace Typedpy

/-! ### keys of association lists -/

def KeysNodup {α} (l : List (String × α)) : Prop := (l.map (·.1)).Nodup

theorem assocSet_not_mem {α} {k : String} {v : α} : ∀ {l : List (String × α)},
    k ∉ l.map (·.1) → assocSet k v l = l ++ [(k, v)]
  | [], _ => rfl
  | (a, b) :: rest, h => by
    simp only [List.map_cons, List.mem_cons, not_or] at h
    have : (k == a) = false := by simpa using h.1
    simp [assocSet, this, assocSet_not_mem h.2]

theorem updateAll_nodup_eq {α} : ∀ (l acc : List (String × α)), KeysNodup (acc ++ l) →
    updateAll acc l = acc ++ l
  | [], acc, _ => by simp [updateAll]
  | p :: ps, acc, h => by
    have hp : p.1 ∉ acc.map (·.1) := by
      simp only [KeysNodup, List.map_append, List.map_cons] at h
      have := (List.nodup_append.mp h).2.2
      intro hm
      exact this _ hm _ List.mem_cons_self rfl
    simp only [updateAll]
    rw [assocSet_not_mem hp, updateAll_nodup_eq ps (acc ++ [p]) (by simpa using h)]
    simp

theorem keys_assocSet {α} (k : String) (v : α) : ∀ (l : List (String × α)),
    (assocSet k v l).map (·.1) = if k ∈ l.map (·.1) then l.map (·.1) else l.map (·.1) ++ [k]
  | [] => by simp [assocSet]
  | (a, b) :: rest => by
    simp only [assocSet]
    by_cases hk : k = a
    · subst hk; simp
    · have : (k == a) = false := by simpa using hk
      simp only [this, Bool.false_eq_true, if_false, List.map_cons, keys_assocSet k v rest,
        List.mem_cons, hk, false_or]
      split <;> simp

theorem updateAll_keysNodup {α} : ∀ (l acc : List (String × α)), KeysNodup acc →
    KeysNodup (updateAll acc l)
  | [], _, h => h
  | p :: ps, acc, h => by
    simp only [updateAll]
    apply updateAll_keysNodup ps
    simp only [KeysNodup, keys_assocSet]
    split
    · exact h
    · rename_i hk
      exact List.nodup_append.mpr ⟨h, by simp, by
        intro a ha b hb hab
        have : b = p.1 := by simpa using hb
        subst this; subst hab; exact hk ha⟩

theorem classOk_keysNodup {w : World} {c : ClassDef} (h : ClassOk w c) : KeysNodup c.allFields := by
  rw [h.fields]; exact updateAll_keysNodup _ [] (by simp [KeysNodup])

theorem lookup_filter_key {α} (f : String → Bool) (n : String) : ∀ l : List (String × α),
    lookup n (l.filter fun p => f p.1) = if f n then lookup n l else none
  | [] => by simp [lookup]
  | (a, v) :: rest => by
    have ih := lookup_filter_key f n rest
    by_cases hfa : f a = true
    · rw [List.filter_cons_of_pos (by simpa using hfa)]
      simp only [lookup]
      by_cases hna : n = a
      · subst hna; simp [hfa]
      · have hb : (n == a) = false := by simpa using hna
        simp only [hb, Bool.false_eq_true, if_false]; exact ih
    · rw [List.filter_cons_of_neg (by simpa using hfa), ih]
      simp only [lookup]
      by_cases hna : n = a
      · subst hna; simp [hfa]
      · have hb : (n == a) = false := by simpa using hna
        simp [hb]

theorem lookup_none_of_not_mem {α : Type} {n : String} {l : List (String × α)} (h : n ∉ l.map (·.1)) :
    lookup n l = none := by
  cases hl : lookup n l with
  | none => rfl
  | some v =>
    have hs : (lookup n l).isSome = true := by rw [hl]; rfl
    exact absurd ((lookup_isSome_iff n l).mp hs) h

theorem any_hasDefault_eq {n : String} : ∀ {l : List (String × Member)}, KeysNodup l →
    l.any (fun p => p.1 == n && p.2.hasDefault) = memberHasDefault l n
  | [], _ => by simp [memberHasDefault, lookup]
  | (k, m) :: rest, h => by
    have hnd : k ∉ rest.map (·.1) ∧ (rest.map (·.1)).Nodup := List.nodup_cons.mp h
    simp only [List.any_cons, memberHasDefault, lookup]
    by_cases hk : n = k
    · subst hk
      have hrest : rest.any (fun p => p.1 == n && p.2.hasDefault) = false := by
        apply List.any_eq_false.mpr
        intro p hp
        have : p.1 ≠ n := fun he => hnd.1 (he ▸ List.mem_map_of_mem hp)
        simp [this]
      simp [hrest]
    · have hb : (n == k) = false := by simpa using hk
      have hb' : (k == n) = false := by simpa using fun h => hk h.symm
      have ih := any_hasDefault_eq (n := n) (l := rest) hnd.2
      simp only [hb, hb', Bool.false_and, Bool.false_or, ih, memberHasDefault]
      rfl

/-! ### pickFields -/

theorem lookup_pickFields (all : List (String × Member)) (n : String) : ∀ names : List String,
    lookup n (pickFields all names) = if names.contains n then lookup n all else none
  | [] => by simp [pickFields, lookup]
  | k :: ks => by
    simp only [pickFields]
    cases hk : lookup k all with
    | none =>
      simp only [lookup_pickFields all n ks, List.contains_cons]
      by_cases hnk : n = k
      · subst hnk; simp [hk]
      · have : (n == k) = false := by simpa using hnk
        simp [this]
    | some m =>
      simp only [lookup, List.contains_cons]
      by_cases hnk : n = k
      · subst hnk; simp [hk]
      · have hb : (n == k) = false := by simpa using hnk
        simp only [hb, Bool.false_or, Bool.false_eq_true, if_false]
        rw [lookup_filter_ne hnk, lookup_pickFields all n ks]

theorem pickFields_keysNodup (all : List (String × Member)) : ∀ names : List String,
    KeysNodup (pickFields all names)
  | [] => by simp [pickFields, KeysNodup]
  | k :: ks => by
    simp only [pickFields]
    cases lookup k all with
    | none => exact pickFields_keysNodup all ks
    | some m =>
      have ih := pickFields_keysNodup all ks
      simp only [KeysNodup, List.map_cons] at ih ⊢
      refine List.nodup_cons.mpr ⟨?_, ?_⟩
      · intro hm
        rcases List.mem_map.mp hm with ⟨p, hp, hpk⟩
        have := (List.mem_filter.mp hp).2
        simp [hpk] at this
      · exact (List.Sublist.map _ List.filter_sublist).nodup ih

/-! ### what a derivation operator assembles -/

/-- the fields an operator retains -/
def derivedFields (c : ClassDef) : DeriveOp → List (String × Member)
  | .partialOf => c.allFields
  | .allRequired => c.allFields
  | .extend => c.allFields
  | .omit names => c.allFields.filter fun p => !names.contains p.1
  | .pick names => pickFields c.allFields names

/-- the `_required` list an operator writes into the new class dict -/
def derivedRequired (c : ClassDef) : DeriveOp → List String
  | .partialOf => []
  | .allRequired => (c.allFields.filter fun p => p.2.needsValue).map (·.1)
  | .extend => c.required
  | .omit names => c.required.filter fun x => !names.contains x
  | .pick names => c.required.filter fun x => names.contains x

/-- the operator keeps name `n` -/
def keeps : DeriveOp → String → Bool
  | .omit names, n => !names.contains n
  | .pick names, n => names.contains n
  | _, _ => true

theorem deriveSrc_ok {c : ClassDef} {nm : String} {op : DeriveOp} {src : ClassSrc}
    (h : deriveSrc c nm op = .ok src) :
    src = derivedSrc c nm (derivedFields c op) (derivedRequired c op) := by
  cases op <;> simp only [deriveSrc] at h
  · cases h; rfl
  · cases h; rfl
  · cases h; rfl
  · split at h
    · cases h; rfl
    · cases h
  · split at h
    · cases h; rfl
    · cases h

theorem lookup_derivedFields (c : ClassDef) (op : DeriveOp) (n : String) :
    lookup n (derivedFields c op) = if keeps op n then lookup n c.allFields else none := by
  cases op with
  | «omit» names => exact lookup_filter_key (fun k => !names.contains k) n c.allFields
  | pick names => exact lookup_pickFields c.allFields n names
  | _ => simp [derivedFields, keeps]

theorem derivedFields_keysNodup {c : ClassDef} (h : KeysNodup c.allFields) (op : DeriveOp) :
    KeysNodup (derivedFields c op) := by
  cases op with
  | «omit» names => exact (List.Sublist.map _ List.filter_sublist).nodup h
  | pick names => exact pickFields_keysNodup _ _
  | _ => exact h

/-- `Structure` itself is in the world -/
def HasStructure (w : World) : Prop := w.find "Structure" = some (World.builtin "Structure" [] false)

theorem ownMembers_derived (c : ClassDef) (fields : List (String × Member)) :
    ownMembers (initEntries c ++ objEntries fields) = fields := by
  simp only [initEntries, List.cons_append, List.nil_append, ownMembers, entryMember]
  induction fields with
  | nil => rfl
  | cons p ps ih => simp [objEntries, ownMembers, entryMember] at ih ⊢; exact ih

theorem c3_structure : c3 [["Structure"], ["Structure"]] = some ["Structure"] := by decide

theorem c12_mem_assocSet {α} {k : String} {v : α} {q : String × α} :
    ∀ {l : List (String × α)}, q ∈ assocSet k v l → q = (k, v) ∨ q ∈ l
  | [], h => by simp [assocSet] at h; exact Or.inl h
  | (a, b) :: rest, h => by
    simp only [assocSet] at h
    split at h
    · rename_i hk
      have hka : k = a := by simpa using hk
      rcases List.mem_cons.mp h with h1 | h1
      · left; rw [h1, hka]
      · right; exact List.mem_cons_of_mem _ h1
    · rcases List.mem_cons.mp h with h1 | h1
      · right; rw [h1]; exact List.mem_cons_self
      · rcases c12_mem_assocSet h1 with h2 | h2
        · exact Or.inl h2
        · exact Or.inr (List.mem_cons_of_mem _ h2)

theorem c12_mem_updateAll {α} {q : String × α} : ∀ {l acc : List (String × α)},
    q ∈ updateAll acc l → q ∈ acc ∨ q ∈ l
  | [], acc, h => Or.inl h
  | p :: ps, acc, h => by
    simp only [updateAll] at h
    rcases c12_mem_updateAll h with h1 | h1
    · rcases c12_mem_assocSet h1 with h2 | h2
      · right; rw [h2]; exact List.mem_cons_self
      · exact Or.inl h2
    · exact Or.inr (List.mem_cons_of_mem _ h1)

/-- the class `type(name, (Structure,), dict)` yields for an operator's dict -/
theorem build_derived {w : World} (hS : HasStructure w) (c : ClassDef) (nm : String)
    (fields : List (String × Member)) (req : List String) :
    let d := build w (derivedSrc c nm fields req)
    d.allFields = updateAll [] fields ∧ d.mro = [nm, "Structure"] ∧ d.name = nm
    ∧ d.required = dedupStr (req.filter fun n => !(fields.any fun p => p.1 == n && p.2.hasDefault))
    ∧ d.ignoreNone = c.ignoreNone ∧ d.bases = ["Structure"] := by
  have hS' : w.find "Structure" = some (World.builtin "Structure" [] false) := hS
  have hbd : baseDefs w (derivedSrc c nm fields req) = [World.builtin "Structure" [] false] := by
    simp [baseDefs, derivedSrc, hS']
  have hseq : mroSeqs w (derivedSrc c nm fields req) = [["Structure"], ["Structure"]] := by
    rw [mroSeqs, hbd]; rfl
  have htail : mroTail w (derivedSrc c nm fields req) = ["Structure"] := by
    simp [mroTail, hseq, c3_structure]
  have hown : ownOf w "Structure" = [] := by simp [ownOf, hS', World.builtin]
  have hsb : structBases w (derivedSrc c nm fields req) = [] := by
    simp [structBases, hbd, World.builtin]
  have hbr : basesRequired w (derivedSrc c nm fields req) = [] := by
    simp [basesRequired, basesParams, hsb, allSigParams, dedupKeys]
  refine ⟨?_, ?_, rfl, ?_, ?_, rfl⟩
  · show allFieldsOf w _ = _
    simp only [allFieldsOf, htail, List.reverse_cons, List.reverse_nil, List.nil_append,
      List.map_cons, List.map_nil, hown, List.cons_append, mergeAll, updateAll]
    rw [show (derivedSrc c nm fields req).entries = initEntries c ++ objEntries fields from rfl,
      ownMembers_derived]
  · show _ :: mroTail w _ = _
    rw [htail]; rfl
  · show requiredOf w _ = _
    have hall : allFieldsOf w (derivedSrc c nm fields req) = updateAll [] fields := by
      simp only [allFieldsOf, htail, List.reverse_cons, List.reverse_nil, List.nil_append,
        List.map_cons, List.map_nil, hown, List.cons_append, mergeAll, updateAll]
      rw [show (derivedSrc c nm fields req).entries = initEntries c ++ objEntries fields from rfl,
        ownMembers_derived]
    have hirc : inheritedRequiredConsts w (derivedSrc c nm fields req) = [] := by
      simp only [inheritedRequiredConsts, hbd]
      simp [World.builtin]
    simp only [requiredOf, hbr, List.nil_append, hirc, List.append_nil, requiredEff, requiredOwn, hall]
    rw [show (derivedSrc c nm fields req).entries = initEntries c ++ objEntries fields from rfl,
      ownMembers_derived]
    have hreq : (derivedSrc c nm fields req).required = some req := rfl
    simp only [hreq, Option.getD_some, Option.isNone_some, Bool.false_eq_true, if_false, List.append_nil,
      List.filter_filter]
    congr 1
    apply List.filter_congr
    intro n _
    cases hA : (fields.any fun p => p.1 == n && p.2.hasDefault) with
    | true => simp
    | false =>
      simp only [Bool.not_false, Bool.and_true]
      cases hl : lookup n (updateAll [] fields) with
      | none => rfl
      | some m =>
        have hm : (n, m) ∈ fields := by
          rcases c12_mem_updateAll (lookup_mem hl) with h | h
          · cases h
          · exact h
        have := (List.any_eq_false.mp hA) (n, m) hm
        simpa using this
  · show ((derivedSrc c nm fields req).ignoreNone.orElse fun _ =>
        inheritedOpt w (·.ownIgnoreNone) (mroTail w _)).getD false = _
    rw [htail]
    simp only [inheritedOpt, hS', World.builtin, Option.bind, ClassDef.ignoreNone]
    cases hi : c.ignoreNoneAttr <;> simp [derivedSrc, hi]

end Typedpy
