/-
  Lemmas/TextStable.lean — a JSON document in the strict sense (`docStable`, Spec/SerFrag.lean: object keys are
  strings) survives `json.loads(json.dumps(·))` (`jsonRound`, Sem/Serde.lean) unchanged.
-/
import TypedpyModel.Spec.SerFrag
namespace Typedpy

mutual
/-- such a document survives `json.loads(json.dumps(·))` unchanged -/
theorem c05_jsonRound_stable : ∀ (j : PyVal), docStable j = true → jsonRound j = some j
  | .none, _ => rfl
  | .bool _, _ => rfl
  | .int _, _ => rfl
  | .float _, _ => rfl
  | .str _, _ => rfl
  | .list xs, h => by
    simp only [docStable] at h
    simp [jsonRound, c05_jsonRoundList_stable xs h]
  | .dict kvs, h => by
    simp only [docStable] at h
    simp [jsonRound, c05_jsonRoundPairs_stable kvs h]
  | .dec _, h => by simp [docStable] at h
  | .tuple _, h => by simp [docStable] at h
  | .set _ _, h => by simp [docStable] at h
  | .deque _, h => by simp [docStable] at h
  | .enumv _ _, h => by simp [docStable] at h
  | .inst _ _, h => by simp [docStable] at h
  | .opaque _, h => by simp [docStable] at h
theorem c05_jsonRoundList_stable : ∀ (xs : List PyVal), docStableList xs = true → jsonRoundList xs = some xs
  | [], _ => rfl
  | x :: xs, h => by
    simp only [docStableList, Bool.and_eq_true] at h
    simp [jsonRoundList, c05_jsonRound_stable x h.1, c05_jsonRoundList_stable xs h.2]
theorem c05_jsonRoundPairs_stable : ∀ (kvs : List (PyVal × PyVal)), docStablePairs kvs = true →
    jsonRoundPairs kvs = some kvs
  | [], _ => rfl
  | (k, v) :: rest, h => by
    simp only [docStablePairs, Bool.and_eq_true] at h
    cases k <;> simp at h
    simp [jsonRoundPairs, jsonKeyStr, c05_jsonRound_stable v h.1, c05_jsonRoundPairs_stable rest h.2]
end

end Typedpy
