/-
  Lemmas/Fast.lean — the induction behind C10's `fast_equiv_partial`: on the proved region
  (`fsafeCls`, `fwf`) every per-field `serialize` method returns what `serialize_val` returns, and
  the installed serializer builds the document `serialize_internal` builds.
-/
import TypedpyModel.Spec.FastSafe
import TypedpyModel.Lemmas.Trusted
import TypedpyModel.Lemmas.RoundTrip
namespace Typedpy
open PyVal (pyEq pyMem pyNodup)

theorem mapE_map {α β γ} (g : β → R γ) (h : α → β) : ∀ xs : List α,
    mapE g (xs.map h) = mapE (fun x => g (h x)) xs
  | [] => rfl
  | x :: xs => by simp only [List.map_cons, mapE, mapE_map g h xs]

theorem mapE_ok_id {g : PyVal → R PyVal} : ∀ xs : List PyVal, (∀ x ∈ xs, g x = .ok x) → mapE g xs = .ok xs
  | [], _ => rfl
  | x :: xs, h => by
    simp only [mapE, h x (by simp), mapE_ok_id xs (fun y hy => h y (by simp [hy])), bindE_ok]

theorem nonFastRef_nil (f : FieldDecl) : nonFastRef [] f = false := by
  cases f <;> simp [nonFastRef]

theorem isNoneF_noneF : isNoneF .noneF = true := rfl
theorem isNone_none : PyVal.none.isNone = true := rfl
theorem noMappers_apply (n : String) : noMappers n = .none := rfl

mutual
theorem canonV_isNone : ∀ (f : FieldDecl) (v : PyVal), (canonV f v).isNone = v.isNone
  | .anyOf fs, v => by simp only [canonV]; exact canonAny_isNone fs v
  | .seqOf _ _ _, v => by cases v <;> simp [canonV, PyVal.isNone]
  | .setOf _ _ _, v => by cases v <;> simp [canonV, PyVal.isNone]
  | .tuplePos _ _, v => by cases v <;> simp [canonV, PyVal.isNone]
  | .tupleOf _ _, v => by cases v <;> simp [canonV, PyVal.isNone]
  | .seqPos .list _ _ _, v => by cases v <;> simp [canonV, PyVal.isNone]
  | .seqPos .deque _ _ _, _ => by simp [canonV]
  | .mapOf _ _ _, v => by cases v <;> simp [canonV, PyVal.isNone]
  | .struct _ _ _, v => by cases v <;> simp [canonV, PyVal.isNone]
  | .number _, _ => by simp [canonV]
  | .integer _, _ => by simp [canonV]
  | .float _, _ => by simp [canonV]
  | .string _ _ _, _ => by simp [canonV]
  | .boolean, _ => by simp [canonV]
  | .noneF, _ => by simp [canonV]
  | .enumLit _, _ => by simp [canonV]
  | .enumCls _ _, _ => by simp [canonV]
  | .seqAny _ _, _ => by simp [canonV]
  | .setAny _ _, _ => by simp [canonV]
  | .mapAny _, _ => by simp [canonV]
  | .oneOf _, _ => by simp [canonV]
  | .allOf _, _ => by simp [canonV]
  | .notF _, _ => by simp [canonV]
  | .anything, _ => by simp [canonV]
theorem canonAny_isNone : ∀ (fs : List FieldDecl) (v : PyVal), (canonAny fs v).isNone = v.isNone
  | [], _ => by simp [canonAny]
  | f :: fs, v => by
    simp only [canonAny]
    split
    · exact canonAny_isNone fs v
    · exact canonV_isNone f v
end

theorem anyOfMulti_A (x : FieldDecl) : anyOfMulti [x, .noneF] = false := by
  cases h : isNoneF x <;> simp [anyOfMulti, nonNoneCount, List.filter, h, isNoneF_noneF]

theorem anyOfMulti_B (y : FieldDecl) : anyOfMulti [.noneF, y] = false := by
  cases h : isNoneF y <;> simp [anyOfMulti, nonNoneCount, List.filter, h, isNoneF_noneF]

theorem fserLast_A {JK : List String} (x : FieldDecl) (v : PyVal) (hx : isNoneF x = false) :
    fserLast noMappers [] JK [x, .noneF] v = fser noMappers [] JK x v := by
  simp only [fserLast, List.all_cons, List.all_nil, isNoneF_noneF, hx, Bool.and_self, Bool.not_false, if_true]

theorem fserLast_B {JK : List String} (y : FieldDecl) (v : PyVal) (hy : isNoneF y = false) :
    fserLast noMappers [] JK [.noneF, y] v = fser noMappers [] JK y v := by
  simp only [fserLast, List.all_cons, List.all_nil, isNoneF_noneF, hy, Bool.and_true, Bool.false_and,
    Bool.false_eq_true, if_false, Bool.not_false, Bool.and_self, if_true]

theorem canonAny_A (x : FieldDecl) (v : PyVal) (hx : isNoneF x = false) :
    canonAny [x, .noneF] v = canonV x v := by
  simp only [canonAny, hx, Bool.false_eq_true, if_false]

theorem canonAny_B (y : FieldDecl) (v : PyVal) (hy : isNoneF y = false) :
    canonAny [.noneF, y] v = canonV y v := by
  simp only [canonAny, isNoneF_noneF, if_true, hy, Bool.false_eq_true, if_false]

section
variable (O : Oracles) (JK : List String)

/-- `field.serialize(v)` agrees with `serialize_val(field, v)` on the canonical form of `v`, and a
    non-None value never serializes to None -/
def FsEq (f : FieldDecl) (v : PyVal) : Prop :=
  fser noMappers [] JK f v = ser O f (canonV f v)
    ∧ (v.isNone = false → ∀ j, ser O f (canonV f v) = .ok j → j.isNone = false)

theorem fsEq_numlike (f : FieldDecl) (v : PyVal)
    (hf : fser noMappers [] JK f v = fDefault JK v) (hs : ser O f v = sScalar v) (hc : canonV f v = v)
    (hj : (match v with | .bool _ => true | .int _ => true | .float _ => true | .str _ => true | _ => false) = true) :
    FsEq O JK f v := by
  unfold FsEq
  rw [hc, hf, hs]
  cases v <;> simp at hj <;> simp [fDefault, sScalar, PyVal.isNone]

/-- the getter of a Number / String / Boolean field returns the attribute itself, which is what
    its `serialize` would return -/
theorem nsb_fser (f : FieldDecl) (v : PyVal) (h : isNSB f = true) (hw : fwf O f v = true) :
    fser noMappers [] JK f v = .ok v := by
  cases f <;> simp [isNSB] at h <;> simp only [fwf] at hw <;> cases v <;> simp [numJson] at hw <;> simp [fser, fDefault]

theorem isNumOrStr_props (item : FieldDecl) (x : PyVal) (h : isNumOrStr item = true)
    (hw : fwf O item x = true) : canonV item x = x ∧ ser O item x = .ok x := by
  cases item <;> simp [isNumOrStr] at h <;> simp only [fwf] at hw <;> cases x <;> simp [numJson] at hw <;>
    simp [canonV, ser, sScalar]

theorem fList_list (g : List PyVal → R (List PyVal)) (k : SeqKind) (xs : List PyVal) :
    fList g (mkSeq k xs) = bindE (g xs) fun ys => .ok (.list ys) := by
  cases k <;> rfl

theorem sSeq_list (g : List PyVal → R (List PyVal)) (k : SeqKind) (xs : List PyVal) :
    sSeq g (mkSeq k xs) = bindE (g xs) fun ys => .ok (.list ys) := by
  cases k <;> rfl

theorem canonV_seq (k k' : SeqKind) (item : FieldDecl) (sz : SizeOpts) (xs : List PyVal) :
    canonV (.seqOf k' item sz) (mkSeq k xs) = mkSeq k (xs.map (canonV item)) := by
  cases k <;> simp [canonV, mkSeq]

theorem bindE_list_nonNone {r : R (List PyVal)} {j : PyVal}
    (h : (bindE r fun ys => .ok (.list ys)) = .ok j) : j.isNone = false := by
  rcases bindE_eq_ok h with ⟨ys, _, h2⟩
  cases h2; rfl


theorem serFirst_A (x : FieldDecl) (w j : PyVal) (hsh : shallowOk O x w = true) (hser : ser O x w = .ok j) :
    serFirst O [x, .noneF] w = .ok j := by
  simp only [serFirst, hsh, if_true, hser]

theorem serFirst_B (y : FieldDecl) (w j : PyVal) (hcn : w.isNone = false) (hsh : shallowOk O y w = true)
    (hser : ser O y w = .ok j) : serFirst O [.noneF, y] w = .ok j := by
  have : shallowOk O .noneF w = false := by simp [shallowOk, hcn]
  simp only [serFirst, this, Bool.false_eq_true, if_false, hsh, if_true, hser]

/-- what `fwfAny` says about a two-option `AnyOf` -/
theorem fwfAny_pair (x y : FieldDecl) (v : PyVal) (h : fwfAny O [x, y] v = true) :
    (isNoneF x = false ∧ fwf O x v = true ∧ shallowOk O x (canonV x v) = true
        ∧ ∃ j, ser O x (canonV x v) = .ok j)
    ∨ (isNoneF y = false ∧ fwf O y v = true ∧ shallowOk O y (canonV y v) = true
        ∧ ∃ j, ser O y (canonV y v) = .ok j) := by
  simp only [fwfAny, Bool.or_eq_true, and_true_iff, Bool.not_eq_true', Bool.or_false] at h
  rcases h with h | h
  · left
    refine ⟨h.1.1.1.1, h.1.1.1.2, h.1.1.2, ?_⟩
    cases hs : ser O x (canonV x v) with
    | ok j => exact ⟨j, rfl⟩
    | error e => have := h.2; rw [hs] at this; cases this
  · right
    refine ⟨h.1.1.1.1, h.1.1.1.2, h.1.1.2, ?_⟩
    cases hs : ser O y (canonV y v) with
    | ok j => exact ⟨j, rfl⟩
    | error e => have := h.2; rw [hs] at this; cases this

mutual
theorem fser_equiv : ∀ (f : FieldDecl) (v : PyVal),
    fsafeD [] f = true → fwf O f v = true → FsEq O JK f v
  | .number _, v, _, hw => by
    simp only [fwf] at hw
    exact fsEq_numlike O JK _ v (by simp [fser]) (by simp [ser]) (by simp [canonV])
      (by cases v <;> simp [numJson] at hw <;> rfl)
  | .integer _, v, _, hw => by
    simp only [fwf] at hw
    exact fsEq_numlike O JK _ v (by simp [fser]) (by simp [ser]) (by simp [canonV])
      (by cases v <;> simp at hw <;> rfl)
  | .float _, v, _, hw => by
    simp only [fwf] at hw
    exact fsEq_numlike O JK _ v (by simp [fser]) (by simp [ser]) (by simp [canonV])
      (by cases v <;> simp at hw <;> rfl)
  | .string _ _ _, v, _, hw => by
    simp only [fwf] at hw
    exact fsEq_numlike O JK _ v (by simp [fser]) (by simp [ser]) (by simp [canonV])
      (by cases v <;> simp at hw <;> rfl)
  | .boolean, v, _, hw => by
    simp only [fwf] at hw
    cases v <;> simp at hw
    simp [FsEq, fser, ser, sScalar, canonV, PyVal.isNone]
  | .noneF, v, _, hw => by
    simp only [fwf] at hw
    simp [FsEq, fser, ser, canonV, hw]
  | .enumLit _, v, _, _ => by
    refine ⟨by simp [fser, ser, canonV], fun hn j hj => ?_⟩
    simp only [ser, canonV] at hj
    cases hj; exact hn
  | .enumCls _ _, v, _, hw => by
    simp only [fwf] at hw
    cases v <;> simp at hw
    simp [FsEq, fser, ser, canonV, fEnumName, sEnumCls, PyVal.isNone]
  | .seqOf k item sz, v, hs, hw => by
    simp only [fsafeD] at hs
    simp only [fwf] at hw
    cases hse : seqElems k v with
    | none => simp [hse] at hw
    | some xs =>
      obtain ⟨rfl, _⟩ := seqLike_of_seqElems k v xs hse
      simp only [hse] at hw
      have hall : ∀ x ∈ xs, fwf O item x = true := List.all_eq_true.mp hw
      have hcongr : mapE (fser noMappers [] JK item) xs = mapE (ser O item) (xs.map (canonV item)) := by
        rw [mapE_map]
        exact mapE_congr xs (fun x hx => (fser_equiv item x hs (hall x hx)).1)
      refine ⟨?_, fun _ j hj => ?_⟩
      · rw [canonV_seq]
        simp only [ser, sSeq_list]
        cases k
        · by_cases hn : isNumOrStr item = true
          · have hid : xs.map (canonV item) = xs := by
              rw [List.map_congr_left (g := id) (fun x hx => (isNumOrStr_props O item x hn (hall x hx)).1)]
              simp
            rw [hid, mapE_ok_id xs (fun x hx => (isNumOrStr_props O item x hn (hall x hx)).2)]
            simp [fser, hn, mkSeq, fList, iterElems]
          · simp only [fser, hn, Bool.false_eq_true, if_false, nonFastRef_nil, fList_list, hcongr]
        · simp only [fser, fList_list, hcongr]
      · rw [canonV_seq] at hj
        simp only [ser, sSeq_list] at hj
        exact bindE_list_nonNone hj
  | .setOf imm item sz, v, hs, hw => by
    simp only [fsafeD] at hs
    simp only [fwf] at hw
    cases v <;> simp at hw
    rename_i fr xs
    have hall : ∀ x ∈ xs, fwf O item x = true := hw
    have hcongr : mapE (fser noMappers [] JK item) xs = mapE (ser O item) (xs.map (canonV item)) := by
      rw [mapE_map]
      exact mapE_congr xs (fun x hx => (fser_equiv item x hs (hall x hx)).1)
    refine ⟨?_, fun _ j hj => ?_⟩
    · simp only [fser, nonFastRef_nil, Bool.false_eq_true, if_false, fList, iterElems, canonV, ser, sSeq, seqLike, hcongr]
    · simp only [canonV, ser, sSeq, seqLike] at hj
      exact bindE_list_nonNone hj
  | .tuplePos items uniq, v, hs, hw => by
    simp only [fsafeD] at hs
    simp only [fwf] at hw
    cases v <;> simp at hw
    rename_i xs
    have hz := fserZip_equiv items xs hs hw.1 hw.2
    refine ⟨?_, fun _ j hj => ?_⟩
    · simp only [fser, fList, iterElems, canonV, ser, sSeq, seqLike, hz]
    · simp only [canonV, ser, sSeq, seqLike] at hj
      exact bindE_list_nonNone hj
  | .tupleOf item uniq, v, hs, hw => by
    simp only [fsafeD] at hs
    simp only [fwf] at hw
    cases v <;> simp at hw
    rename_i xs
    have hall : ∀ x ∈ xs, fwf O item x = true := hw
    have hcongr : mapE (fser noMappers [] JK item) xs = mapE (ser O item) (xs.map (canonV item)) := by
      rw [mapE_map]
      exact mapE_congr xs (fun x hx => (fser_equiv item x hs (hall x hx)).1)
    refine ⟨?_, fun _ j hj => ?_⟩
    · simp only [fser, fList, iterElems, canonV, ser, sSeq, seqLike, hcongr]
    · simp only [canonV, ser, sSeq, seqLike] at hj
      exact bindE_list_nonNone hj
  | .seqPos .list items addl sz, v, hs, hw => by
    simp only [fsafeD] at hs
    simp only [fwf] at hw
    cases v <;> simp at hw
    rename_i xs
    have hz := fserZipRaw_equiv items xs hs hw.1 hw.2
    refine ⟨?_, fun _ j hj => ?_⟩
    · simp only [fser, fList, iterElems, canonV, ser, sSeq, seqLike, hz]
    · simp only [canonV, ser, sSeq, seqLike] at hj
      exact bindE_list_nonNone hj
  | .seqPos .deque _ _ _, _, hs, _ => by simp [fsafeD] at hs
  | .mapOf kf vf sz, v, hs, hw => by
    simp only [fsafeD, and_true_iff] at hs
    simp only [fwf] at hw
    cases v <;> simp at hw
    rename_i kvs
    have hcongr : mapE (fun (kv : PyVal × PyVal) =>
          bindE (fser noMappers [] JK kf kv.1) fun k' => bindE (fser noMappers [] JK vf kv.2) fun v' => .ok (k', v')) kvs
        = mapE (fun (kv : PyVal × PyVal) =>
          bindE (ser O kf kv.1) fun k' => bindE (ser O vf kv.2) fun v' => .ok (k', v'))
            (kvs.map fun kv => (canonV kf kv.1, canonV vf kv.2)) := by
      rw [mapE_map]
      refine mapE_congr kvs (fun kv hkv => ?_)
      have h1 := (fser_equiv kf kv.1 hs.1 (hw kv.1 kv.2 hkv).1).1
      have h2 := (fser_equiv vf kv.2 hs.2 (hw kv.1 kv.2 hkv).2).1
      simp only [h1, h2]
    refine ⟨?_, fun _ j hj => ?_⟩
    · simp only [fser, fMap, canonV, ser, sMap, hcongr]
    · simp only [canonV, ser, sMap] at hj
      rcases bindE_eq_ok hj with ⟨r, _, h2⟩
      split at h2
      · cases h2
      · cases h2; rfl
  | .struct c fields defaults, v, hs, hw => by
    simp only [fsafeD, and_true_iff, Bool.not_eq_true'] at hs
    simp only [fwf] at hw
    cases v <;> simp at hw
    rename_i cn attrs
    have hcn : cn = c.name := hw.1.1
    subst hcn
    have hfw : fwfFields O defaults attrs fields = true := hw.2
    have hf := ffields_equiv fields fields defaults attrs hs.2 hfw (lookup_of_mem_nodup fields hs.1.2)
    refine ⟨?_, fun _ j hj => ?_⟩
    · simp only [fser, hs.1.1.1, Bool.false_eq_true, if_false, List.contains_nil, noMappers_apply, keyDedupe,
        TMapper.isNone, if_true, canonV, ser, sInst, beq_self_eq_true, Bool.true_or, Bool.not_true]
      rw [hf]
    · simp only [canonV, ser, sInst, beq_self_eq_true, Bool.true_or, Bool.not_true, Bool.false_eq_true, if_false] at hj
      rcases bindE_eq_ok hj with ⟨r, _, h2⟩
      cases h2; rfl
  | .anyOf fs, v, hs, hw => by
    simp only [fsafeD] at hs
    simp only [fwf, and_true_iff, Bool.not_eq_true'] at hw
    exact fopt_equiv fs v hs hw.1 hw.2
  | .seqAny _ _, _, hs, _ => by simp [fsafeD] at hs
  | .setAny _ _, _, hs, _ => by simp [fsafeD] at hs
  | .mapAny _, _, hs, _ => by simp [fsafeD] at hs
  | .oneOf _, _, hs, _ => by simp [fsafeD] at hs
  | .allOf _, _, hs, _ => by simp [fsafeD] at hs
  | .notF _, _, hs, _ => by simp [fsafeD] at hs
  | .anything, _, hs, _ => by simp [fsafeD] at hs

theorem fserZip_equiv : ∀ (items : List FieldDecl) (xs : List PyVal),
    fsafeL [] items = true → xs.length = items.length → fwfZip O items xs = true →
    fserZip noMappers [] JK items xs = serZip O items (canonZip items xs)
  | [], [], _, _, _ => by simp [fserZip, serZip, canonZip, serAnyList]
  | [], _ :: _, _, hl, _ => by simp at hl
  | _ :: _, [], _, hl, _ => by simp at hl
  | f :: fs, x :: xs, hs, hl, hw => by
    simp only [fsafeL, and_true_iff] at hs
    simp only [fwfZip, and_true_iff] at hw
    simp only [fserZip, canonZip, serZip, (fser_equiv f x hs.1 hw.1).1,
      fserZip_equiv fs xs hs.2 (by simpa using hl) hw.2]

theorem fserZipRaw_equiv : ∀ (items : List FieldDecl) (xs : List PyVal),
    fsafeL [] items = true → xs.length = items.length → fwfZip O items xs = true →
    fserZipRaw noMappers [] JK items xs = serZip O items (canonZip items xs)
  | [], [], _, _, _ => by simp [fserZipRaw, serZip, canonZip, serAnyList]
  | [], _ :: _, _, hl, _ => by simp at hl
  | _ :: _, [], _, hl, _ => by simp at hl
  | f :: fs, x :: xs, hs, hl, hw => by
    simp only [fsafeL, and_true_iff] at hs
    simp only [fwfZip, and_true_iff] at hw
    simp only [fserZipRaw, canonZip, serZip, (fser_equiv f x hs.1 hw.1).1,
      fserZipRaw_equiv fs xs hs.2 (by simpa using hl) hw.2]

theorem fopt_equiv : ∀ (fs : List FieldDecl) (v : PyVal),
    fsafeOpt [] fs = true → v.isNone = false → fwfAny O fs v = true → FsEq O JK (.anyOf fs) v
  | [], _, hs, _, _ => by simp [fsafeOpt] at hs
  | [_], _, hs, _, _ => by simp [fsafeOpt] at hs
  | _ :: _ :: _ :: _, _, hs, _, _ => by simp [fsafeOpt] at hs
  | [x, y], v, hs, hn, hw => by
    simp only [fsafeOpt, fsafeOptTail, Bool.or_eq_true, and_true_iff, Bool.not_eq_true'] at hs
    have hcanN : ∀ g : FieldDecl, (canonV g v).isNone = false := fun g => by rw [canonV_isNone]; exact hn
    rcases hs with ⟨⟨⟨hy, hx⟩, hsx⟩, _⟩ | ⟨⟨hx, hy⟩, hsy, _⟩
    · -- [X, NoneField]
      have hyN := isNoneF_eq y hy
      subst hyN
      rcases fwfAny_pair O x .noneF v hw with ⟨_, hwx, hsh, j, hser⟩ | ⟨h, _⟩
      · have ih := fser_equiv x v hsx hwx
        refine ⟨?_, fun _ j' hj => ?_⟩
        · simp only [fser, hn, Bool.false_eq_true, if_false, anyOfMulti_A, fserLast_A x v hx, canonV, canonAny_A x v hx, ser,
            serFirst_A O x _ j hsh hser, ih.1, hser]
        · simp only [canonV, canonAny_A x v hx, ser, serFirst_A O x _ j hsh hser] at hj
          cases hj
          exact ih.2 hn j hser
      · rw [isNoneF_noneF] at h; cases h
    · -- [NoneField, X]
      have hxN := isNoneF_eq x hx
      subst hxN
      rcases fwfAny_pair O .noneF y v hw with ⟨h, _⟩ | ⟨_, hwy, hsh, j, hser⟩
      · rw [isNoneF_noneF] at h; cases h
      · have ih := fser_equiv y v hsy hwy
        refine ⟨?_, fun _ j' hj => ?_⟩
        · simp only [fser, hn, Bool.false_eq_true, if_false, anyOfMulti_B, fserLast_B y v hy, canonV, canonAny_B y v hy, ser,
            serFirst_B O y _ j (hcanN y) hsh hser, ih.1, hser]
        · simp only [canonV, canonAny_B y v hy, ser, serFirst_B O y _ j (hcanN y) hsh hser] at hj
          cases hj
          exact ih.2 hn j hser

/-- the serializer `create_serializer` installs vs `serialize_internal`'s loop over the (canonical)
    attributes -/
theorem ffields_equiv : ∀ (rest fieldsAll : List (String × FieldDecl)) (defaults attrs : List (String × PyVal)),
    fsafeFields [] rest = true → fwfFields O defaults attrs rest = true →
    (∀ p ∈ rest, lookup p.1 fieldsAll = some p.2) →
    fFields noMappers [] JK false .none defaults attrs rest
      = mapE (serAttr O fieldsAll) ((canonFields attrs rest).filter fun a => !a.2.isNone)
  | [], _, _, _, _, _, _ => by simp [fFields, canonFields, mapE]
  | (n, f) :: rest, fieldsAll, defaults, attrs, hs, hw, hl => by
    simp only [fsafeFields, and_true_iff] at hs
    simp only [fwfFields, and_true_iff] at hw
    have ih := ffields_equiv rest fieldsAll defaults attrs hs.2 hw.2 (fun p hp => hl p (by simp [hp]))
    have hlk := hl (n, f) (by simp)
    cases hla : lookup n attrs with
    | none =>
      simp only [fFields, canonFields, getAttr, hla]
      simp only [hla] at hw
      have hd : ((lookup n defaults).getD PyVal.none).isNone = true := by
        cases hdd : lookup n defaults with
        | none => rfl
        | some d => simp [hdd] at hw; simpa using hw.1
      simp only [List.nil_append, ih]
      by_cases hnsb : isNSB f = true
      · simp only [hnsb, if_true, bindE_ok, hd, Bool.not_false, Bool.and_self]
        cases mapE (serAttr O fieldsAll) (List.filter (fun a => !a.2.isNone) (canonFields attrs rest)) <;> rfl
      · simp only [hnsb, Bool.false_eq_true, if_false, hd, if_true, bindE_ok, isNone_none, Bool.not_false, Bool.and_self]
        cases mapE (serAttr O fieldsAll) (List.filter (fun a => !a.2.isNone) (canonFields attrs rest)) <;> rfl
    | some v =>
      simp only [fFields, canonFields, getAttr, hla]
      simp only [hla, Bool.or_eq_true] at hw
      by_cases hvn : v.isNone = true
      · have hcn : (canonV f v).isNone = true := by rw [canonV_isNone]; exact hvn
        simp only [List.singleton_append, List.filter, hcn, Bool.not_true, ih]
        by_cases hnsb : isNSB f = true
        · simp only [hnsb, if_true, bindE_ok, hvn, Bool.not_false, Bool.and_self]
          cases mapE (serAttr O fieldsAll) (List.filter (fun a => !a.2.isNone) (canonFields attrs rest)) <;> rfl
        · simp only [hnsb, Bool.false_eq_true, if_false, hvn, if_true, bindE_ok, isNone_none, Bool.not_false, Bool.and_self]
          cases mapE (serAttr O fieldsAll) (List.filter (fun a => !a.2.isNone) (canonFields attrs rest)) <;> rfl
      · have hvn' : v.isNone = false := by simpa using hvn
        have hwf : fwf O f v = true := by
          rcases hw.1 with h | h
          · rw [hvn'] at h; cases h
          · exact h
        have ihf := fser_equiv f v hs.1 hwf
        have hget : (if isNSB f = true then (Except.ok v : R PyVal)
            else if v.isNone = true then .ok .none else fser noMappers [] JK f v) = ser O f (canonV f v) := by
          rw [← ihf.1]
          by_cases hnsb : isNSB f = true
          · simp only [hnsb, if_true]; exact (nsb_fser O JK f v hnsb hwf).symm
          · simp only [hnsb, Bool.false_eq_true, if_false, hvn']
        have hcn : (canonV f v).isNone = false := by rw [canonV_isNone]; exact hvn'
        simp only [hget, List.singleton_append, List.filter, hcn, Bool.not_false, mapE, serAttr,
          serField_lookup' O n (canonV f v) f fieldsAll hlk, ih]
        cases hser : ser O f (canonV f v) with
        | error e => rfl
        | ok j =>
          have hjn := ihf.2 hvn' j hser
          simp only [bindE_ok, hjn, Bool.false_and, Bool.false_eq_true, if_false, mapKey]
end

/-- **C10, fast serialization** on the proved region (no mapper, `serialize_none=False`,
    `compact=False`) -/
theorem fast_equiv_core (cls : FieldDecl) (x : PyVal) (hs : fsafeCls [] cls = true)
    (hw : fwf O cls x = true) :
    fastSerialize noMappers [] JK false false cls x = serialize O cls (canonV cls x) := by
  cases cls with
  | struct c fields defaults =>
    have h := (fser_equiv O JK (.struct c fields defaults) x hs hw).1
    unfold serialize
    rw [← h]
    simp only [fsafeCls, fsafeD, and_true_iff, Bool.not_eq_true'] at hs
    simp only [fwf] at hw
    cases x <;> simp at hw
    rename_i cn attrs
    simp only [fastSerialize, attrsOf, fser, hs.1.1.1, Bool.false_eq_true, if_false, List.contains_nil,
      Bool.false_and]
    cases fFields noMappers [] JK false (noMappers c.name) defaults attrs fields <;> rfl
  | _ => simp [fsafeCls] at hs

/-- the same class with exactly one, required, field and no additional properties, compact on both
    sides: both return the serialized field value alone -/
theorem fast_compact_core (c : ClassOpts) (n : String) (f : FieldDecl) (defaults : List (String × PyVal))
    (cn : String) (attrs : List (String × PyVal)) (v : PyVal)
    (hs : fsafeCls [] (.struct c [(n, f)] defaults) = true)
    (hw : fwf O (.struct c [(n, f)] defaults) (.inst cn attrs) = true)
    (hreq : c.required = [n]) (haddl : c.addl = false)
    (hv : lookup n attrs = some v) (hvn : v.isNone = false) :
    fastSerialize noMappers [] JK false true (.struct c [(n, f)] defaults) (.inst cn attrs)
      = serializeCompact O true (.struct c [(n, f)] defaults)
          (canonV (.struct c [(n, f)] defaults) (.inst cn attrs)) := by
  simp only [fsafeCls, fsafeD, fsafeFields, and_true_iff, Bool.not_eq_true'] at hs
  simp only [fwf, fwfFields, hv, and_true_iff, Bool.or_eq_true] at hw
  have hwf : fwf O f v = true := by
    rcases hw.2.1 with h | h
    · rw [hvn] at h; cases h
    · exact h
  have ihf := fser_equiv O JK f v hs.2.1 hwf
  have hget : (if isNSB f = true then (Except.ok v : R PyVal)
      else if v.isNone = true then .ok .none else fser noMappers [] JK f v) = ser O f (canonV f v) := by
    rw [← ihf.1]
    by_cases hnsb : isNSB f = true
    · simp only [hnsb, if_true]; exact (nsb_fser O JK f v hnsb hwf).symm
    · simp only [hnsb, Bool.false_eq_true, if_false, hvn]
  simp only [fastSerialize, attrsOf, fFields, getAttr, hv, hget, serializeCompact, haddl, Bool.not_false,
    Bool.and_self, if_true, hreq, beq_self_eq_true, canonV, canonFields, List.append_nil, lookup,
    noMappers_apply, keyDedupe, TMapper.isNone]
  cases hser : ser O f (canonV f v) with
  | error e => rfl
  | ok j =>
    have hjn := ihf.2 hvn j hser
    simp [bindE_ok, hjn]

end

/-- `serialize_none=False` is `serialize_none=True` with the None entries removed -/
theorem fFields_serialize_none (Mp : MapEnv) (NF JK : List String) (m : TMapper)
    (defaults attrs : List (String × PyVal)) : ∀ fields : List (String × FieldDecl),
    fFields Mp NF JK false m defaults attrs fields
      = bindE (fFields Mp NF JK true m defaults attrs fields) fun r => .ok (r.filter fun kv => !kv.2.isNone)
  | [] => by simp [fFields]
  | (n, f) :: rest => by
    simp only [fFields, fFields_serialize_none Mp NF JK m defaults attrs rest]
    cases (if isNSB f = true then Except.ok (getAttr defaults attrs n)
           else if (getAttr defaults attrs n).isNone = true then Except.ok PyVal.none
           else fser Mp NF JK f (getAttr defaults attrs n)) with
    | error e => rfl
    | ok j =>
      simp only [bindE_ok]
      cases fFields Mp NF JK true m defaults attrs rest with
      | error e => rfl
      | ok r =>
        simp only [bindE_ok, Bool.not_true, Bool.and_false, Bool.false_eq_true, if_false, Bool.not_false,
          Bool.and_true, List.filter]
        cases hj : j.isNone <;> simp

/-- **C10, `serialize_none`**: the document with `serialize_none=True` is the one with
    `serialize_none=False` plus an explicit null for every unset field -/
theorem fast_serialize_none_core (NF JK : List String) (cls : FieldDecl) (x : PyVal) :
    fastSerialize noMappers NF JK false false cls x
      = bindE (fastSerialize noMappers NF JK true false cls x) fun d =>
          match d with
          | .dict r => .ok (.dict (r.filter fun kv => !kv.2.isNone))
          | w => .ok w := by
  cases cls with
  | struct c fields defaults =>
    simp only [fastSerialize, Bool.false_and, Bool.false_eq_true, if_false, noMappers_apply, keyDedupe,
      TMapper.isNone, if_true, fFields_serialize_none noMappers NF JK .none defaults (attrsOf x) fields]
    cases fFields noMappers NF JK true .none defaults (attrsOf x) fields <;> rfl
  | _ => rfl

end Typedpy
