import TypedpyModel.Spec.FastSafe
import TypedpyModel.Lemmas.Trusted
namespace Typedpy
end Typedpy
