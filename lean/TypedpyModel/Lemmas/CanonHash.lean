/-
  Lemmas/CanonHash.lean — the repaired hash (Sem/CanonHash.lean) respects `==`:
  `pyEq v w → cHash H v = cHash H w` on values that satisfy the representation invariants
  `okValS` (= `okVal` plus: the members of a set are pairwise `!=`), by structural induction;
  order-independence of sets / dicts / attribute lists is a permutation argument
  (`c11_perm_of_matching`: two lists related by a total, onto, one-to-one matching have
  permutation-equal images).
-/
import TypedpyModel.Sem.CanonHash
import TypedpyModel.Lemmas.EqLemmas
set_option linter.unusedSectionVars false
set_option linter.unusedVariables false
set_option linter.unusedSimpArgs false
namespace Typedpy
open PyVal (pyEq pyEqList subsetBy anyEqL dictSub asNum pyNodup pyMem)

/-! ### a matching between two lists makes their images permutations of one another -/

theorem c11_perm_of_matching {α β : Type} (R : α → β → Prop) (f : α → Nat) (g : β → Nat) :
    ∀ (a : List α) (b : List β),
      (∀ x ∈ a, ∀ y ∈ b, R x y → f x = g y) →
      (∀ x ∈ a, ∃ y ∈ b, R x y) → (∀ y ∈ b, ∃ x ∈ a, R x y) →
      a.Pairwise (fun x x' => ∀ y, R x y → R x' y → False) →
      b.Pairwise (fun y y' => ∀ x, R x y → R x y' → False) →
      (a.map f).Perm (b.map g)
  | [], b, _, _, h2, _, _ => by
    cases b with
    | nil => exact List.Perm.nil
    | cons y _ => obtain ⟨x, hx, _⟩ := h2 y (by simp); cases hx
  | x :: a, b, hfg, h1, h2, pa, pb => by
    obtain ⟨y, hy, hxy⟩ := h1 x (by simp)
    obtain ⟨s, t, rfl⟩ := List.append_of_mem hy
    have hpa := List.pairwise_cons.1 pa
    have hpb := List.pairwise_append.1 pb
    have hpt := List.pairwise_cons.1 hpb.2.1
    have h1' : ∀ x' ∈ a, ∃ y' ∈ s ++ t, R x' y' := by
      intro x' hx'
      obtain ⟨y', hy', hr⟩ := h1 x' (by simp [hx'])
      simp only [List.mem_append, List.mem_cons] at hy'
      rcases hy' with h | h | h
      · exact ⟨y', by simp [h], hr⟩
      · subst h; exact absurd hr (fun hr => hpa.1 x' hx' y' hxy hr)
      · exact ⟨y', by simp [h], hr⟩
    have h2' : ∀ y' ∈ s ++ t, ∃ x' ∈ a, R x' y' := by
      intro y' hy'
      have hy'' : y' ∈ s ++ y :: t := by
        simp only [List.mem_append, List.mem_cons] at hy' ⊢
        rcases hy' with h | h
        · exact Or.inl h
        · exact Or.inr (Or.inr h)
      obtain ⟨x', hx', hr⟩ := h2 y' hy''
      simp only [List.mem_cons] at hx'
      rcases hx' with h | h
      · subst h
        simp only [List.mem_append] at hy'
        rcases hy' with h | h
        · exact absurd hxy (fun hxy => hpb.2.2 y' h y (by simp) x' hr hxy)
        · exact absurd hr (fun hr => hpt.1 y' h x' hxy hr)
      · exact ⟨x', h, hr⟩
    have pb' : (s ++ t).Pairwise (fun y y' => ∀ x, R x y → R x y' → False) :=
      List.Pairwise.sublist (List.Sublist.append_left (List.sublist_cons_self y t) s) pb
    have hfg' : ∀ x' ∈ a, ∀ y' ∈ s ++ t, R x' y' → f x' = g y' := by
      intro x' hx' y' hy' hr
      refine hfg x' (by simp [hx']) y' ?_ hr
      simp only [List.mem_append, List.mem_cons] at hy' ⊢
      rcases hy' with h | h
      · exact Or.inl h
      · exact Or.inr (Or.inr h)
    have ih := c11_perm_of_matching R f g a (s ++ t) hfg' h1' h2' hpa.2 pb'
    have e : f x = g y := hfg x (by simp) y (by simp) hxy
    simp only [List.map_cons, List.map_append] at ih ⊢
    rw [e]
    exact (List.Perm.cons (g y) ih).trans List.perm_middle.symm

/-! ### the invariant: `okVal`, and the members of every set are pairwise `!=` -/

mutual
def okValS : PyVal → Bool
  | .float q => q.den != 0
  | .dec q => q.den != 0
  | .list xs => okValsS xs
  | .tuple xs => okValsS xs
  | .deque xs => okValsS xs
  | .set _ xs => okValsS xs && pyNodup xs
  | .dict kvs => okKvsS kvs && pyNodup (kvs.map (·.1))
  | .inst _ attrs => okAttrsS attrs && keysDistinct (attrs.map (·.1))
  | .none => true
  | .bool _ => true
  | .int _ => true
  | .str _ => true
  | .enumv _ _ => true
  | .opaque _ => true
termination_by structural v => v
def okValsS : List PyVal → Bool
  | [] => true
  | x :: xs => okValS x && okValsS xs
termination_by structural xs => xs
def okKvsS : List (PyVal × PyVal) → Bool
  | [] => true
  | (k, v) :: rest => okValS k && okValS v && okKvsS rest
termination_by structural kvs => kvs
def okAttrsS : List (String × PyVal) → Bool
  | [] => true
  | (_, v) :: rest => okValS v && okAttrsS rest
termination_by structural kvs => kvs
end

theorem okValsS_iff (xs : List PyVal) : okValsS xs = true ↔ ∀ x ∈ xs, okValS x = true := by
  induction xs with
  | nil => simp [okValsS]
  | cons h t ih => simp [okValsS, ih]

theorem okKvsS_iff (kvs : List (PyVal × PyVal)) :
    okKvsS kvs = true ↔ ∀ p ∈ kvs, okValS p.1 = true ∧ okValS p.2 = true := by
  induction kvs with
  | nil => simp [okKvsS]
  | cons h t ih => obtain ⟨k, v⟩ := h; simp [okKvsS, ih, and_assoc]

theorem okAttrsS_iff (kvs : List (String × PyVal)) :
    okAttrsS kvs = true ↔ ∀ p ∈ kvs, okValS p.2 = true := by
  induction kvs with
  | nil => simp [okAttrsS]
  | cons h t ih => obtain ⟨k, v⟩ := h; simp [okAttrsS, ih]

theorem okVal_of_okValS : ∀ v : PyVal, okValS v = true → okVal v = true := by
  apply PyVal.induct
  · intro v ha h
    cases v <;> simp [PyVal.isAtom] at ha <;> simp_all [okValS, okVal]
  · intro xs ih h
    simp only [okValS, okValsS_iff] at h
    simp only [okVal, okVals_iff]
    exact fun x hx => ih x hx (h x hx)
  · intro xs ih h
    simp only [okValS, okValsS_iff] at h
    simp only [okVal, okVals_iff]
    exact fun x hx => ih x hx (h x hx)
  · intro xs ih h
    simp only [okValS, okValsS_iff] at h
    simp only [okVal, okVals_iff]
    exact fun x hx => ih x hx (h x hx)
  · intro f xs ih h
    simp only [okValS, Bool.and_eq_true, okValsS_iff] at h
    simp only [okVal, okVals_iff]
    exact fun x hx => ih x hx (h.1 x hx)
  · intro kvs ih h
    simp only [okValS, Bool.and_eq_true, okKvsS_iff] at h
    simp only [okVal, Bool.and_eq_true, okKvs_iff]
    exact ⟨fun p hp => ⟨(ih p hp).1 (h.1 p hp).1, (ih p hp).2 (h.1 p hp).2⟩, h.2⟩
  · intro c attrs ih h
    simp only [okValS, Bool.and_eq_true, okAttrsS_iff] at h
    simp only [okVal, Bool.and_eq_true, okAttrs_iff]
    exact ⟨fun p hp => ih p hp (h.1 p hp), h.2⟩

/-! ### the canonical hash as maps over the lists -/

theorem cHashs_eq_map (H : HashO) : ∀ xs : List PyVal, cHashs H xs = xs.map (cHash H)
  | [] => by simp [cHashs]
  | x :: xs => by simp [cHashs, cHashs_eq_map H xs]

theorem cHashKvs_eq_map (H : HashO) : ∀ kvs : List (PyVal × PyVal),
    cHashKvs H kvs = kvs.map (fun p => H.pair (cHash H p.1) (cHash H p.2))
  | [] => by simp [cHashKvs]
  | (k, v) :: rest => by simp [cHashKvs, cHashKvs_eq_map H rest]

theorem cHashAttrs_eq_map (H : HashO) : ∀ kvs : List (String × PyVal),
    cHashAttrs H kvs = (kvs.filter (fun p => !p.2.isNone)).map (fun p => H.pair (H.str p.1) (cHash H p.2))
  | [] => by simp [cHashAttrs]
  | (k, v) :: rest => by
    cases hv : v.isNone <;> simp [cHashAttrs, hv, cHashAttrs_eq_map H rest]

theorem c11_pyEqList_map_eq (f : PyVal → Nat) : ∀ (a b : List PyVal),
    (∀ x ∈ a, ∀ y ∈ b, pyEq x y = true → f x = f y) → pyEqList a b = true → a.map f = b.map f
  | [], b, _, h => by
    cases b with
    | nil => rfl
    | cons _ _ => simp [pyEqList] at h
  | x :: a, b, hf, h => by
    cases b with
    | nil => simp [pyEqList] at h
    | cons y b =>
      simp only [pyEqList, Bool.and_eq_true] at h
      simp only [List.map_cons]
      rw [hf x (by simp) y (by simp) h.1,
        c11_pyEqList_map_eq f a b (fun x' hx' y' hy' => hf x' (by simp [hx']) y' (by simp [hy'])) h.2]

/-! ### `==` values hash alike -/

theorem cHash_of_pyEq (H : HashO) (hH : H.Respects) :
    ∀ v : PyVal, okValS v = true → ∀ w, okValS w = true → pyEq v w = true → cHash H v = cHash H w := by
  intro v
  refine PyVal.induct (fun v => okValS v = true → ∀ w, okValS w = true → pyEq v w = true →
    cHash H v = cHash H w) ?_ ?_ ?_ ?_ ?_ ?_ ?_ v
  · -- atoms
    intro v ha okv w okw h
    cases hv : v.asNum with
    | none => rw [pyEq_atom ha hv h]
    | some p =>
      rw [pyEq_num hv] at h
      cases hw : w.asNum with
      | none => simp [hw] at h
      | some q =>
        simp only [hw] at h
        have hp := okVal_num hv (okVal_of_okValS v okv)
        have hq := okVal_num hw (okVal_of_okValS w okw)
        have e := hH.num_eq p q hp hq h
        have cv : cHash H v = H.num p := by
          cases v <;> simp [asNum] at hv <;> subst hv <;> rfl
        have cw : cHash H w = H.num q := by
          cases w <;> simp [asNum] at hw <;> subst hw <;> rfl
        rw [cv, cw, e]
  · intro a ih okv w okw h
    cases w with
    | list b =>
      simp only [pyEq, okValS, okValsS_iff] at h okv okw
      simp only [cHash, cHashs_eq_map]
      rw [c11_pyEqList_map_eq (cHash H) a b (fun x hx y hy => ih x hx (okv x hx) y (okw y hy)) h]
    | _ => simp [pyEq] at h
  · intro a ih okv w okw h
    cases w with
    | tuple b =>
      simp only [pyEq, okValS, okValsS_iff] at h okv okw
      simp only [cHash, cHashs_eq_map]
      rw [c11_pyEqList_map_eq (cHash H) a b (fun x hx y hy => ih x hx (okv x hx) y (okw y hy)) h]
    | _ => simp [pyEq] at h
  · intro a ih okv w okw h
    cases w with
    | deque b =>
      simp only [pyEq, okValS, okValsS_iff] at h okv okw
      simp only [cHash, cHashs_eq_map]
      rw [c11_pyEqList_map_eq (cHash H) a b (fun x hx y hy => ih x hx (okv x hx) y (okw y hy)) h]
    | _ => simp [pyEq] at h
  · -- sets: a matching by `==`
    intro f a ih okv w okw h
    cases w with
    | set f' b =>
      simp only [okValS, Bool.and_eq_true, okValsS_iff] at okv okw
      simp only [pyEq, Bool.and_eq_true, List.all_eq_true, subsetBy_iff, anyEqL_iff] at h
      simp only [cHash, cHashs_eq_map]
      apply hH.frozen_perm
      have oa : ∀ x ∈ a, okVal x = true := fun x hx => okVal_of_okValS x (okv.1 x hx)
      have ob : ∀ y ∈ b, okVal y = true := fun y hy => okVal_of_okValS y (okw.1 y hy)
      refine c11_perm_of_matching (fun x y => y ∈ b ∧ x ∈ a ∧ pyEq x y = true) (cHash H) (cHash H) a b
        (fun x hx y hy hr => ih x hx (okv.1 x hx) y (okw.1 y hy) hr.2.2)
        (fun x hx => by obtain ⟨y, hy, e⟩ := h.1 x hx; exact ⟨y, hy, hy, hx, e⟩)
        (fun y hy => by obtain ⟨x, hx, e⟩ := h.2 y hy; exact ⟨x, hx, hy, hx, e⟩) ?_ ?_
      · refine (pyNodup_pairwise a okv.2).imp_of_mem ?_
        intro x x' hx hx' hne y hR hR'
        have h1 : pyEq y x' = true := pyEq_symm x' (oa x' hx') y (ob y hR.1) hR'.2.2
        have h2 := pyEq_trans x y x' (ob y hR.1) hR.2.2 h1
        rw [hne] at h2; cases h2
      · refine (pyNodup_pairwise b okw.2).imp_of_mem ?_
        intro y y' hy hy' hne x hR hR'
        have h1 : pyEq y x = true := pyEq_symm x (oa x hR.2.1) y (ob y hy) hR.2.2
        have h2 := pyEq_trans y x y' (oa x hR.2.1) h1 hR'.2.2
        rw [hne] at h2; cases h2
    | _ => simp [pyEq] at h
  · -- dicts: a matching by `==` keys and values
    intro a ih okv w okw h
    cases w with
    | dict b =>
      have hsym := pyEq_symm (.dict a) (okVal_of_okValS _ okv) (.dict b) (okVal_of_okValS _ okw) h
      simp only [okValS, Bool.and_eq_true, okKvsS_iff] at okv okw
      simp only [pyEq, Bool.and_eq_true, beq_iff_eq, dictSub_iff] at h hsym
      simp only [cHash, cHashKvs_eq_map]
      apply hH.frozen_perm
      have oa : ∀ p ∈ a, okVal p.1 = true ∧ okVal p.2 = true :=
        fun p hp => ⟨okVal_of_okValS _ (okv.1 p hp).1, okVal_of_okValS _ (okv.1 p hp).2⟩
      have ob : ∀ q ∈ b, okVal q.1 = true ∧ okVal q.2 = true :=
        fun q hq => ⟨okVal_of_okValS _ (okw.1 q hq).1, okVal_of_okValS _ (okw.1 q hq).2⟩
      refine c11_perm_of_matching
        (fun (p q : PyVal × PyVal) => q ∈ b ∧ p ∈ a ∧ pyEq p.1 q.1 = true ∧ pyEq p.2 q.2 = true)
        (fun p => H.pair (cHash H p.1) (cHash H p.2)) (fun p => H.pair (cHash H p.1) (cHash H p.2)) a b
        (fun p hp q hq hr => by
          rw [(ih p hp).1 (okv.1 p hp).1 q.1 (okw.1 q hq).1 hr.2.2.1,
              (ih p hp).2 (okv.1 p hp).2 q.2 (okw.1 q hq).2 hr.2.2.2])
        (fun p hp => by obtain ⟨q, hq, e1, e2⟩ := h.2 p hp; exact ⟨q, hq, hq, hp, e1, e2⟩)
        (fun q hq => by
          obtain ⟨p, hp, e1, e2⟩ := hsym.2 q hq
          exact ⟨p, hp, hq, hp, pyEq_symm q.1 (ob q hq).1 p.1 (oa p hp).1 e1,
            pyEq_symm q.2 (ob q hq).2 p.2 (oa p hp).2 e2⟩) ?_ ?_
      · have hpw := pyNodup_pairwise _ okv.2
        rw [List.pairwise_map] at hpw
        refine hpw.imp_of_mem ?_
        intro p p' hp hp' hne q hR hR'
        have h1 : pyEq q.1 p'.1 = true := pyEq_symm p'.1 (oa p' hp').1 q.1 (ob q hR.1).1 hR'.2.2.1
        have h2 := pyEq_trans p.1 q.1 p'.1 (ob q hR.1).1 hR.2.2.1 h1
        rw [hne] at h2; cases h2
      · have hpw := pyNodup_pairwise _ okw.2
        rw [List.pairwise_map] at hpw
        refine hpw.imp_of_mem ?_
        intro q q' hq hq' hne p hR hR'
        have h1 : pyEq q.1 p.1 = true := pyEq_symm p.1 (oa p hR.2.1).1 q.1 (ob q hq).1 hR.2.2.1
        have h2 := pyEq_trans q.1 p.1 q'.1 (oa p hR.2.1).1 h1 hR'.2.2.1
        rw [hne] at h2; cases h2
    | _ => simp [pyEq] at h
  · -- nested instances: a matching by name over the attributes that do not hold `None`
    intro cn a ih okv w okw h
    cases w with
    | inst cn' b =>
      simp only [okValS, Bool.and_eq_true, okAttrsS_iff] at okv okw
      rw [pyEq_inst_iff] at h
      simp only [cHash, cHashAttrs_eq_map]
      rw [h.1]
      congr 1
      apply hH.frozen_perm
      have fa : ∀ p, p ∈ a.filter (fun p => !p.2.isNone) ↔ p ∈ a ∧ p.2.isNone = false := by
        intro p; simp [List.mem_filter]
      have fb : ∀ q, q ∈ b.filter (fun p => !p.2.isNone) ↔ q ∈ b ∧ q.2.isNone = false := by
        intro q; simp [List.mem_filter]
      refine c11_perm_of_matching
        (fun (p q : String × PyVal) => p ∈ a ∧ q ∈ b ∧ p.1 = q.1 ∧ pyEq p.2 q.2 = true)
        (fun p => H.pair (H.str p.1) (cHash H p.2)) (fun p => H.pair (H.str p.1) (cHash H p.2)) _ _
        (fun p hp q hq hr => by
          rw [hr.2.2.1, ih p hr.1 (okv.1 p hr.1) q.2 (okw.1 q hr.2.1) hr.2.2.2])
        (fun p hp => by
          have hp' := (fa p).1 hp
          rcases h.2.1 p hp'.1 with hn | ⟨q, hq, hk, hv⟩
          · rw [hn] at hp'; cases hp'.2
          · refine ⟨q, (fb q).2 ⟨hq, ?_⟩, hp'.1, hq, hk, hv⟩
            cases hqn : q.2.isNone with
            | false => rfl
            | true =>
              rw [isNone_iff.1 hqn] at hv
              rw [pyEq_none_right hv] at hp'; cases hp'.2)
        (fun q hq => by
          have hq' := (fb q).1 hq
          rcases h.2.2 q hq'.1 with hn | ⟨p, hp, hk, hv⟩
          · rw [hn] at hq'; cases hq'.2
          · refine ⟨p, (fa p).2 ⟨hp, ?_⟩, hp, hq'.1, hk, hv⟩
            cases hpn : p.2.isNone with
            | false => rfl
            | true =>
              rw [isNone_iff.1 hpn] at hv
              rw [pyEq_none_left hv] at hq'; cases hq'.2) ?_ ?_
      · have hpw := keysDistinct_pairwise _ okv.2
        rw [List.pairwise_map] at hpw
        refine (List.Pairwise.sublist List.filter_sublist hpw).imp ?_
        intro p p' hne q hR hR'
        exact hne (hR.2.2.1.trans hR'.2.2.1.symm)
      · have hpw := keysDistinct_pairwise _ okw.2
        rw [List.pairwise_map] at hpw
        refine (List.Pairwise.sublist List.filter_sublist hpw).imp ?_
        intro q q' hne p hR hR'
        exact hne (hR.2.2.1.symm.trans hR'.2.2.1)
    | _ => simp [pyEq] at h

/-! ### the names an instance is hashed over -/

theorem mem_dedupS (l : List String) (k : String) : k ∈ dedupS l ↔ k ∈ l := by
  induction l with
  | nil => simp [dedupS]
  | cons h t ih =>
    simp only [dedupS]
    by_cases hc : t.contains h = true
    · simp only [hc, if_true, ih, List.mem_cons]
      constructor
      · exact Or.inr
      · rintro (e | e)
        · subst e; simpa using hc
        · exact e
    · simp only [hc, Bool.false_eq_true, if_false, List.mem_cons, ih]

theorem nodup_dedupS (l : List String) : (dedupS l).Nodup := by
  induction l with
  | nil => simp [dedupS]
  | cons h t ih =>
    simp only [dedupS]
    by_cases hc : t.contains h = true
    · simp only [hc, if_true]; exact ih
    · simp only [hc, Bool.false_eq_true, if_false]
      refine List.nodup_cons.2 ⟨?_, ih⟩
      rw [mem_dedupS]
      simpa using hc

theorem c11_filterMap_perm {g : String → Option Nat} {l1 l2 : List String} (n1 : l1.Nodup) (n2 : l2.Nodup)
    (h : ∀ k, (g k).isSome = true → (k ∈ l1 ↔ k ∈ l2)) : (l1.filterMap g).Perm (l2.filterMap g) := by
  have e : ∀ l : List String, l.filterMap g = (l.filter (fun k => (g k).isSome)).filterMap g := by
    intro l
    rw [List.filterMap_filter]
    congr 1
    funext k
    cases hg : g k <;> simp
  rw [e l1, e l2]
  apply List.Perm.filterMap
  apply (List.perm_ext_iff_of_nodup (List.Pairwise.sublist List.filter_sublist n1)
    (List.Pairwise.sublist List.filter_sublist n2)).2
  intro k
  simp only [List.mem_filter]
  constructor
  · rintro ⟨h1, h2⟩; exact ⟨(h k h2).1 h1, h2⟩
  · rintro ⟨h1, h2⟩; exact ⟨(h k h2).2 h1, h2⟩

theorem c11_lookup_none_of_not_mem {α} (k : String) : ∀ l : List (String × α), k ∉ l.map (·.1) → lookup k l = none
  | [], _ => rfl
  | (k', v) :: rest, h => by
    simp only [List.map_cons, List.mem_cons, not_or] at h
    simp only [lookup]
    have : (k == k') = false := by simpa using h.1
    simp only [this, Bool.false_eq_true, if_false]
    exact c11_lookup_none_of_not_mem k rest h.2

/-- a name outside `set(__dict__) | set(fields)` reads back `None` -/
theorem getA_none_of_not_name (d : EqCtx) (x : Inst) (k : String) (h : k ∉ instNames d x) :
    getA d x k = .none := by
  simp only [instNames, mem_dedupS, List.mem_append, not_or] at h
  have h1 := c11_lookup_none_of_not_mem k x.attrs h.1.1
  have h2 := c11_lookup_none_of_not_mem k d.defaults h.2
  have h3 : d.fields.contains k = false := by simpa using h.1.2
  simp only [getA, h1, h2, h3, Bool.and_false, Bool.false_eq_true, if_false]
/-- representation invariants of an instance for the canonical hash: the values (and the field
    defaults) satisfy `okValS`, `_none_fields` is a set (no name twice) -/
def okInstS (d : EqCtx) (a : Inst) : Bool :=
  okAttrsS a.attrs && okAttrsS d.defaults && keysDistinct a.nones

end Typedpy
