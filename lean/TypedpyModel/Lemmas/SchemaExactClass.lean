/-
  Lemmas/SchemaExactClass.lean — the class level of exactness on `inExactFragment` (flat classes over
  the exact scalar fragment): a JSON object that the class's schema admits is accepted by the model of
  `Deserializer(cls).deserialize` (Sem/Deser.deserialize = per-field pass + constructor), for every
  flag setting.  Built on `exact_scalar` (Lemmas/SchemaExact.lean) per member.
-/
import TypedpyModel.Lemmas.SchemaExact
namespace Typedpy.Sch
open Typedpy

/-! ### class level of exactness: flat classes over the exact scalar fragment -/

/-- no exact scalar schema admits `null` -/
theorem c08_exact_not_null (R S) (f : FieldDecl) (hf : exactScalar f = true) :
    jsV R S (emit true f) .none = false := by
  cases hv : jsV R S (emit true f) .none with
  | false => rfl
  | true =>
    exfalso
    cases f with
    | integer o =>
      simp only [emit] at hv
      have := (jsV_numKws_inv R S "integer" true o .none hv).1
      simp [typeIs] at this
    | number o =>
      simp only [emit] at hv
      have := (jsV_numKws_inv R S "number" false o .none hv).1
      simp [typeIs] at this
    | float o =>
      simp only [emit] at hv
      have := (jsV_numKws_inv R S "number" false o .none hv).1
      simp [typeIs] at this
    | string lo hi pat =>
      simp only [emit] at hv
      obtain ⟨s, hs, _⟩ := jsV_strKws_inv R S lo hi pat .none hv
      cases hs
    | boolean =>
      simp only [emit] at hv
      have hty : typeIs "boolean" .none = true := by
        simpa [jsV, getKw, kw, keyIs, jsKws, kwOf, kwOfStr, kwNode, kwLeaf, typeOk] using hv
      simp [typeIs] at hty
    | enumLit vs =>
      simp only [exactScalar, and_true_iff'] at hf
      simp only [emit] at hv
      rw [jsV_enum] at hv
      have hm := jsonMem_pyMem .none vs hf.2 hv
      rw [pyMem_none_false vs hf.2] at hm
      simp at hm
    | enumCls cls names =>
      simp only [emit] at hv
      rw [jsV_enum] at hv
      obtain ⟨n, hn, _⟩ := jsonMem_str_inv .none names hv
      cases hn
    | _ => simp [exactScalar] at hf

/-- the keyword arguments read off a JSON object are the object's members -/
theorem c08_lookup_kwOfDict (n : String) : ∀ (kvs : List (PyVal × PyVal)) (kw : List (String × PyVal)),
    kwOfDict kvs = some kw → lookup n kw = getKw n kvs
  | [], kw, h => by simp [kwOfDict] at h; subst h; rfl
  | (k, v) :: rest, kw, h => by
    cases k <;> simp [kwOfDict] at h
    rename_i s
    obtain ⟨r, hr, rfl⟩ := h
    have ih := c08_lookup_kwOfDict n rest r hr
    simp only [lookup, getKw, keyIs]
    by_cases hns : n = s
    · subst hns; simp
    · have h1 : (n == s) = false := by simpa using hns
      have h2 : (s == n) = false := by simpa using (fun h : s = n => hns h.symm)
      simp [h1, h2, ih]

theorem c08_kwOfDict_mem (kvs : List (PyVal × PyVal)) (kw : List (String × PyVal)) (h : kwOfDict kvs = some kw) :
    ∀ a ∈ kw, (PyVal.str a.1, a.2) ∈ kvs := by
  induction kvs generalizing kw with
  | nil => simp [kwOfDict] at h; subst h; simp
  | cons x rest ih =>
    obtain ⟨k, v⟩ := x
    cases k <;> simp [kwOfDict] at h
    rename_i s
    obtain ⟨r, hr, rfl⟩ := h
    intro a ha
    rcases List.mem_cons.mp ha with rfl | ha'
    · simp
    · simp [ih r hr a ha']

/-! inverting the class object -/

theorem c08_jsProps_inv (R S) (r : List (PyVal × PyVal)) : ∀ fields : List (String × PyVal),
    jsProps R S (propsOf [] fields) r = true →
    ∀ n s, (n, s) ∈ fields → ∀ x, getKw n r = some x → jsV R S s x = true
  | [], _, _, _, hm, _, _ => by simp at hm
  | (k, t) :: rest, h, n, s, hm, x, hx => by
    simp only [propsOf, lookup, addDefault, jsProps, kw, docKey, and_true_iff'] at h
    rcases List.mem_cons.mp hm with heq | hm'
    · cases heq
      have := h.1
      simpa [hx] using this
    · exact c08_jsProps_inv R S r rest h.2 n s hm' x hx

theorem c08_jsV_classObj_inv (R S) (c : ClassOpts) (fields : List (String × PyVal)) (r : List (PyVal × PyVal))
    (h : jsV R S (classObj c [] fields) (.dict r) = true) :
    (∀ n s, (n, s) ∈ fields → ∀ x, getKw n r = some x → jsV R S s x = true)
    ∧ (∀ n ∈ c.required, (getKw n r).isSome = true)
    ∧ (c.addl = true ∨ ∀ kv ∈ r, ∀ name, docKey kv.1 = some name → (fields.map (·.1)).contains name = true) := by
  have hsr : schemaRequired c [] = c.required := by simp [schemaRequired]
  unfold classObj at h
  rw [hsr] at h
  rw [jsV_dict _ _ _ _ (by simp [getKw, kw, keyIs])] at h
  simp only [jsKws, and_true_iff', Bool.and_true] at h
  obtain ⟨_, h2, h3, h4⟩ := h
  refine ⟨?_, ?_, ?_⟩
  · apply c08_jsProps_inv R S r fields
    simpa [kw, kwOf, kwOfStr, kwNode, jsPropsV] using h2
  · have h3' : ∀ n ∈ c.required, (getKw n r).isSome = true := by
      simpa [kw, kwOf, kwOfStr, kwNode, kwLeaf, List.all_map] using h3
    exact h3'
  · simp only [kw, kwOf, kwOfStr, kwNode] at h4
    cases ha : c.addl with
    | true => left; rfl
    | false =>
      right
      simp [ha] at h4
      intro kv hkv name hname
      unfold extraMembers at h4
      rw [List.filter_eq_nil_iff] at h4
      have := h4 kv hkv
      have hmn : memberNames "properties"
          [(PyVal.str "type", PyVal.str "object"), (PyVal.str "properties", PyVal.dict (propsOf [] fields)),
           (PyVal.str "required", PyVal.list (List.map PyVal.str c.required)),
           (PyVal.str "additionalProperties", PyVal.bool false)] = fields.map (·.1) := by
        simp [memberNames, getKw, keyIs, propsOf_names]
      simp only [hname] at this
      rw [hmn] at this
      have hpp : memberNames "patternProperties"
          [(PyVal.str "type", PyVal.str "object"), (PyVal.str "properties", PyVal.dict (propsOf [] fields)),
           (PyVal.str "required", PyVal.list (List.map PyVal.str c.required)),
           (PyVal.str "additionalProperties", PyVal.bool false)] = [] := by
        simp [memberNames, getKw, keyIs]
      rw [hpp] at this
      simpa using this


/-! the per-field pass and the constructor -/

theorem c08_mem_unique (n : String) (f g : FieldDecl) : ∀ fields : List (String × FieldDecl),
    nodupS (fields.map (·.1)) = true → (n, f) ∈ fields → (n, g) ∈ fields → f = g
  | [], _, h, _ => by simp at h
  | (k, e) :: rest, hnd, hf, hg => by
    simp only [List.map_cons, nodupS, and_true_iff'] at hnd
    have hno : ∀ e', (k, e') ∈ rest → False := by
      intro e' he'
      have : (rest.map (·.1)).contains k = true := mem_names_of_mem k e' rest he'
      rw [this] at hnd
      simp at hnd
    rcases List.mem_cons.mp hf with h1 | h1 <;> rcases List.mem_cons.mp hg with h2 | h2
    · cases h1; cases h2; rfl
    · cases h1; exact absurd h2 (fun h => hno g h)
    · cases h2; exact absurd h1 (fun h => hno f h)
    · exact c08_mem_unique n f g rest hnd.2 h1 h2

/-- `construct_fields_map` over exact scalar fields succeeds when every present non-null member is
    admitted by its field's schema; every argument it produces validates -/
theorem c08_deserFields_ok (O : Oracles) (R S)
    (hS : ∀ p s, startAnchored p = true → S p s = true → O.reMatch p s = true)
    (opts : DeserOpts) (c : ClassOpts) (kw : List (String × PyVal)) :
    ∀ fs : List (String × FieldDecl), exactFields fs = true →
      (∀ n f, (n, f) ∈ fs → ∀ v, lookup n kw = some v → jsV R S (emit true f) v = true) →
      ∃ args, deserFields O opts c kw fs false = .ok args
        ∧ (∀ n y, lookup n args = some y → ∃ f y', (n, f) ∈ fs ∧ validate O f y = .ok y')
        ∧ (∀ n f, (n, f) ∈ fs → (lookup n kw).isSome = true → (lookup n args).isSome = true)
        ∧ (∀ a ∈ args, (fs.map (·.1)).contains a.1 = true)
  | [], _, _ => ⟨[], by simp [deserFields], by simp [lookup], by simp, by simp⟩
  | (name, f) :: rest, hex, hadm => by
    simp only [exactFields, and_true_iff'] at hex
    obtain ⟨args, h1, h2, h3, h4⟩ := c08_deserFields_ok O R S hS opts c kw rest hex.2
      (fun n g hm v hv => hadm n g (by simp [hm]) v hv)
    cases hl : lookup name kw with
    | none =>
      refine ⟨args, by simp [deserFields, hl, h1], ?_, ?_, ?_⟩
      · intro n y hy
        obtain ⟨g, y', hm, hv⟩ := h2 n y hy
        exact ⟨g, y', by simp [hm], hv⟩
      · intro n g hm hs
        rcases List.mem_cons.mp hm with heq | hm'
        · cases heq; simp [hl] at hs
        · exact h3 n g hm' hs
      · intro a ha
        have := h4 a ha
        simp only [List.map_cons, List.contains_cons, Bool.or_eq_true]
        right; exact this
    | some v =>
      have hjs := hadm name f (by simp) v hl
      have hnn : v.isNone = false := by
        cases v <;> simp [PyVal.isNone]
        rw [c08_exact_not_null R S f hex.1] at hjs
        simp at hjs
      obtain ⟨y, y', hd, hv⟩ := exact_scalar O R S hS opts c.ignoreNone f v hex.1 hjs
      refine ⟨(name, y) :: args, by simp [deserFields, hl, hnn, hd, h1], ?_, ?_, ?_⟩
      · intro n z hz
        by_cases hn : n = name
        · subst hn
          simp [lookup] at hz
          subst hz
          exact ⟨f, y', by simp, hv⟩
        · have hne : (n == name) = false := by simpa using hn
          simp only [lookup, hne, Bool.false_eq_true, if_false] at hz
          obtain ⟨g, z', hm, hvz⟩ := h2 n z hz
          exact ⟨g, z', by simp [hm], hvz⟩
      · intro n g hm hs
        by_cases hn : n = name
        · subst hn; simp [lookup]
        · have hne : (n == name) = false := by simpa using hn
          simp only [lookup, hne, Bool.false_eq_true, if_false]
          rcases List.mem_cons.mp hm with heq | hm'
          · cases heq; exact absurd rfl hn
          · exact h3 n g hm' hs
      · intro a ha
        simp only [List.map_cons, List.contains_cons, Bool.or_eq_true]
        rcases List.mem_cons.mp ha with rfl | ha'
        · left; simp
        · right; exact h4 a ha'

theorem c08_lookup_append_skip {α} (n : String) (xs ys : List (String × α))
    (h : ∀ a ∈ xs, (a.1 == n) = false) : lookup n (xs ++ ys) = lookup n ys := by
  induction xs with
  | nil => rfl
  | cons x rest ih =>
    obtain ⟨k, v⟩ := x
    have hk : (n == k) = false := by
      have := h (k, v) (by simp)
      cases hnk : (n == k) with
      | false => rfl
      | true =>
        have e : n = k := by simpa using hnk
        subst e
        simp at this
    simp only [List.cons_append, lookup, hk, Bool.false_eq_true, if_false]
    exact ih (fun a ha => h a (by simp [ha]))

/-- the constructor's per-field validation succeeds when every argument that reaches a declared field
    validates (no defaults) -/
theorem c08_validateFields_ok (O : Oracles) (c : ClassOpts) (kw : List (String × PyVal)) :
    ∀ fs : List (String × FieldDecl),
      (∀ n f, (n, f) ∈ fs → ∀ y, lookup n kw = some y → ∃ y', validate O f y = .ok y') →
      ∃ attrs, validateFields O c [] kw fs = .ok attrs
  | [], _ => ⟨[], by simp [validateFields]⟩
  | (name, f) :: rest, h => by
    obtain ⟨attrs, ha⟩ := c08_validateFields_ok O c kw rest (fun n g hm y hy => h n g (by simp [hm]) y hy)
    simp only [validateFields, argFor, lookup]
    cases hl : lookup name kw with
    | none => exact ⟨attrs, by simp [ha]⟩
    | some v =>
      simp only []
      cases hc : (v.isNone && c.ignoreNone && !c.required.contains name) with
      | true => exact ⟨attrs, by simp [ha]⟩
      | false =>
        obtain ⟨y', hv⟩ := h name f (by simp) v hl
        exact ⟨(name, y') :: attrs, by simp [hv, ha]⟩


theorem c08_emitP_mem_of (fx : Bool) (n : String) (f : FieldDecl) : ∀ fields : List (String × FieldDecl),
    (n, f) ∈ fields → (n, emit fx f) ∈ emitP fx fields
  | [], h => by simp at h
  | (k, g) :: rest, h => by
    simp only [emitP]
    rcases List.mem_cons.mp h with heq | h'
    · cases heq; simp
    · simp [c08_emitP_mem_of fx n f rest h']

/-- **class level of exactness** (flat classes over the exact scalar fragment, no defaults, not a field
    wrapper): every JSON object the class's schema admits is accepted by the Deserializer — the
    per-field pass succeeds on every member and the constructor accepts the resulting arguments
    (required present, no undeclared key unless allowed, every field validates) -/
theorem c08_exact_class (O : Oracles) (R : String → PyVal → Bool) (S : String → String → Bool)
    (hS : ∀ p s, startAnchored p = true → S p s = true → O.reMatch p s = true)
    (opts : DeserOpts) (cls : FieldDecl) (kvs : List (PyVal × PyVal)) (kw : List (String × PyVal))
    (hfrag : inExactFragment cls = true) (hkw : kwOfDict kvs = some kw)
    (h : jsV R S (classSchema true cls) (.dict kvs) = true) :
    ∃ x, deserialize O opts cls (.dict kvs) = .ok x := by
  cases cls with
  | struct c fields defaults =>
    simp only [inExactFragment, and_true_iff'] at hfrag
    obtain ⟨⟨⟨⟨⟨hni, hdef⟩, hncol⟩, hnd⟩, hreqn⟩, hex⟩ := hfrag
    have hdef' : defaults = [] := by simpa using hdef
    subst hdef'
    have hncol' : collapses c (fields.map (·.1)) = false := by simpa using hncol
    have hshape : structShape c [] (emitP true fields) = classObj c [] (emitP true fields) := by
      unfold structShape; rw [emitP_names]; simp [hncol']
    simp only [classSchema, hshape] at h
    obtain ⟨hprops, hreq, haddl⟩ := c08_jsV_classObj_inv R S c (emitP true fields) kvs h
    rw [emitP_names] at haddl
    have hadm : ∀ n f, (n, f) ∈ fields → ∀ v, lookup n kw = some v → jsV R S (emit true f) v = true := by
      intro n f hm v hv
      rw [c08_lookup_kwOfDict n kvs kw hkw] at hv
      exact hprops n (emit true f) (c08_emitP_mem_of true n f fields hm) v hv
    obtain ⟨args, h1, h2, h3, h4⟩ := c08_deserFields_ok O R S hS opts c kw fields hex hadm
    -- undeclared keys that are passed on are not field names
    have hskip : ∀ n, (fields.map (·.1)).contains n = true →
        lookup n (deserExtras opts c (fields.map (·.1)) kw ++ args) = lookup n args := by
      intro n hn
      apply c08_lookup_append_skip
      intro a ha
      have hf := (List.mem_filter.mp ha).2
      simp only [and_true_iff', Bool.not_eq_true'] at hf
      cases hk : (a.1 == n) with
      | false => rfl
      | true =>
        have e : a.1 = n := by simpa using hk
        rw [e, hn] at hf
        simp at hf
    have hbind : bindOk c (fields.map (·.1)) (deserExtras opts c (fields.map (·.1)) kw ++ args) = true := by
      simp only [bindOk, and_true_iff', Bool.not_eq_true']
      constructor
      · rw [List.any_eq_false]
        intro r hr
        have hrn : (fields.map (·.1)).contains r = true := (List.all_eq_true.mp hreqn) r hr
        rw [hskip r hrn]
        have hk : (lookup r kw).isSome = true := by
          rw [c08_lookup_kwOfDict r kvs kw hkw]; exact hreq r hr
        have hrm : r ∈ fields.map (·.1) := by simpa using hrn
        obtain ⟨p, hp, hp1⟩ := List.mem_map.mp hrm
        have := h3 r p.2 (by rw [← hp1]; exact hp) hk
        cases hl : lookup r args with
        | none => simp [hl] at this
        | some _ => simp
      · cases ha : c.addl with
        | true => simp
        | false =>
          simp only [Bool.not_false, Bool.true_and]
          rw [List.any_eq_false]
          intro a ha'
          rcases List.mem_append.mp ha' with hx | hx
          · -- no undeclared key at all: `additionalProperties: false`
            have hmem := (List.mem_filter.mp hx).1
            have hnc := (List.mem_filter.mp hx).2
            rcases haddl with h' | h'
            · rw [ha] at h'; cases h'
            · have := h' _ (c08_kwOfDict_mem kvs kw hkw a hmem) a.1 rfl
              rw [this]; decide
          · rw [h4 a hx]; decide
    obtain ⟨attrs, hattrs⟩ := c08_validateFields_ok O c
      (deserExtras opts c (fields.map (·.1)) kw ++ args) fields (by
        intro n f hm y hy
        have hn : (fields.map (·.1)).contains n = true := mem_names_of_mem n f fields hm
        rw [hskip n hn] at hy
        obtain ⟨g, y', hg, hv⟩ := h2 n y hy
        have : g = f := c08_mem_unique n g f fields hnd hg hm
        subst this
        exact ⟨y', hv⟩)
    refine ⟨.inst c.name (extrasOf c (fields.map (·.1)) (deserExtras opts c (fields.map (·.1)) kw ++ args) ++ attrs), ?_⟩
    simp [deserialize, dClassRef, hkw, h1, vConstruct, hbind, hattrs]
  | _ => simp [inExactFragment] at hfrag

end Typedpy.Sch
