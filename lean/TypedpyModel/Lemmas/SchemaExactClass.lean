/-
  Lemmas/SchemaExactClass.lean — the class level of exactness on `inExactFragment` (flat classes over
  the exact scalar fragment): a JSON object that the class's schema admits is accepted by the model of
  `Deserializer(cls).deserialize` (Sem/Deser.deserialize = per-field pass + constructor), for every
  flag setting.  Built on `exact_scalar` (Lemmas/SchemaExact.lean) per member.
-/
import TypedpyModel.Lemmas.SchemaExactField
namespace Typedpy.Sch
open Typedpy

/-! ### class level of exactness: flat classes over the exact field fragment (scalars, Array[X], Tuple[X] at any depth) -/

/-- the keyword arguments read off a JSON object are the object's members -/
theorem c08_lookup_kwOfDict (n : String) : ∀ (kvs : List (PyVal × PyVal)) (kw : List (String × PyVal)),
    kwOfDict kvs = some kw → lookup n kw = getKw n kvs
  | [], kw, h => by simp [kwOfDict] at h; subst h; rfl
  | (k, v) :: rest, kw, h => by
    cases k <;> simp [kwOfDict] at h
    rename_i s
    obtain ⟨r, hr, rfl⟩ := h
    have ih := c08_lookup_kwOfDict n rest r hr
    simp only [lookup, getKw, keyIs]
    by_cases hns : n = s
    · subst hns; simp
    · have h1 : (n == s) = false := by simpa using hns
      have h2 : (s == n) = false := by simpa using (fun h : s = n => hns h.symm)
      simp [h1, h2, ih]

theorem c08_kwOfDict_mem (kvs : List (PyVal × PyVal)) (kw : List (String × PyVal)) (h : kwOfDict kvs = some kw) :
    ∀ a ∈ kw, (PyVal.str a.1, a.2) ∈ kvs := by
  induction kvs generalizing kw with
  | nil => simp [kwOfDict] at h; subst h; simp
  | cons x rest ih =>
    obtain ⟨k, v⟩ := x
    cases k <;> simp [kwOfDict] at h
    rename_i s
    obtain ⟨r, hr, rfl⟩ := h
    intro a ha
    rcases List.mem_cons.mp ha with rfl | ha'
    · simp
    · simp [ih r hr a ha']

/-! inverting the class object -/

theorem c08_jsProps_inv (R S) (r : List (PyVal × PyVal)) : ∀ fields : List (String × PyVal),
    jsProps R S (propsOf [] fields) r = true →
    ∀ n s, (n, s) ∈ fields → ∀ x, getKw n r = some x → jsV R S s x = true
  | [], _, _, _, hm, _, _ => by simp at hm
  | (k, t) :: rest, h, n, s, hm, x, hx => by
    simp only [propsOf, lookup, addDefault, jsProps, kw, docKey, and_true_iff'] at h
    rcases List.mem_cons.mp hm with heq | hm'
    · cases heq
      have := h.1
      simpa [hx] using this
    · exact c08_jsProps_inv R S r rest h.2 n s hm' x hx

theorem c08_jsV_classObj_inv (R S) (c : ClassOpts) (fields : List (String × PyVal)) (r : List (PyVal × PyVal))
    (h : jsV R S (classObj c [] fields) (.dict r) = true) :
    (∀ n s, (n, s) ∈ fields → ∀ x, getKw n r = some x → jsV R S s x = true)
    ∧ (∀ n ∈ c.required, (getKw n r).isSome = true)
    ∧ (c.addl = true ∨ ∀ kv ∈ r, ∀ name, docKey kv.1 = some name → (fields.map (·.1)).contains name = true) := by
  have hsr : schemaRequired c [] = c.required := by simp [schemaRequired]
  unfold classObj at h
  rw [hsr] at h
  rw [jsV_dict _ _ _ _ (by simp [getKw, kw, keyIs])] at h
  simp only [jsKws, and_true_iff', Bool.and_true] at h
  obtain ⟨_, h2, h3, h4⟩ := h
  refine ⟨?_, ?_, ?_⟩
  · apply c08_jsProps_inv R S r fields
    simpa [kw, kwOf, kwOfStr, kwNode, jsPropsV] using h2
  · have h3' : ∀ n ∈ c.required, (getKw n r).isSome = true := by
      simpa [kw, kwOf, kwOfStr, kwNode, kwLeaf, List.all_map] using h3
    exact h3'
  · simp only [kw, kwOf, kwOfStr, kwNode] at h4
    cases ha : c.addl with
    | true => left; rfl
    | false =>
      right
      simp [ha] at h4
      intro kv hkv name hname
      unfold extraMembers at h4
      rw [List.filter_eq_nil_iff] at h4
      have := h4 kv hkv
      have hmn : memberNames "properties"
          [(PyVal.str "type", PyVal.str "object"), (PyVal.str "properties", PyVal.dict (propsOf [] fields)),
           (PyVal.str "required", PyVal.list (List.map PyVal.str c.required)),
           (PyVal.str "additionalProperties", PyVal.bool false)] = fields.map (·.1) := by
        simp [memberNames, getKw, keyIs, propsOf_names]
      simp only [hname] at this
      rw [hmn] at this
      have hpp : memberNames "patternProperties"
          [(PyVal.str "type", PyVal.str "object"), (PyVal.str "properties", PyVal.dict (propsOf [] fields)),
           (PyVal.str "required", PyVal.list (List.map PyVal.str c.required)),
           (PyVal.str "additionalProperties", PyVal.bool false)] = [] := by
        simp [memberNames, getKw, keyIs]
      rw [hpp] at this
      simpa using this


/-! the per-field pass and the constructor -/

theorem c08_mem_unique (n : String) (f g : FieldDecl) : ∀ fields : List (String × FieldDecl),
    nodupS (fields.map (·.1)) = true → (n, f) ∈ fields → (n, g) ∈ fields → f = g
  | [], _, h, _ => by simp at h
  | (k, e) :: rest, hnd, hf, hg => by
    simp only [List.map_cons, nodupS, and_true_iff'] at hnd
    have hno : ∀ e', (k, e') ∈ rest → False := by
      intro e' he'
      have : (rest.map (·.1)).contains k = true := mem_names_of_mem k e' rest he'
      rw [this] at hnd
      simp at hnd
    rcases List.mem_cons.mp hf with h1 | h1 <;> rcases List.mem_cons.mp hg with h2 | h2
    · cases h1; cases h2; rfl
    · cases h1; exact absurd h2 (fun h => hno g h)
    · cases h2; exact absurd h1 (fun h => hno f h)
    · exact c08_mem_unique n f g rest hnd.2 h1 h2

theorem c08_lookup_append_skip {α} (n : String) (xs ys : List (String × α))
    (h : ∀ a ∈ xs, (a.1 == n) = false) : lookup n (xs ++ ys) = lookup n ys := by
  induction xs with
  | nil => rfl
  | cons x rest ih =>
    obtain ⟨k, v⟩ := x
    have hk : (n == k) = false := by
      have := h (k, v) (by simp)
      cases hnk : (n == k) with
      | false => rfl
      | true =>
        have e : n = k := by simpa using hnk
        subst e
        simp at this
    simp only [List.cons_append, lookup, hk, Bool.false_eq_true, if_false]
    exact ih (fun a ha => h a (by simp [ha]))

/-- the constructor's per-field validation succeeds when every argument that reaches a declared field
    validates (no defaults) -/
theorem c08_validateFields_ok (O : Oracles) (c : ClassOpts) (kw : List (String × PyVal)) :
    ∀ fs : List (String × FieldDecl),
      (∀ n f, (n, f) ∈ fs → ∀ y, lookup n kw = some y → ∃ y', validate O f y = .ok y') →
      ∃ attrs, validateFields O c [] kw fs = .ok attrs
  | [], _ => ⟨[], by simp [validateFields]⟩
  | (name, f) :: rest, h => by
    obtain ⟨attrs, ha⟩ := c08_validateFields_ok O c kw rest (fun n g hm y hy => h n g (by simp [hm]) y hy)
    simp only [validateFields, argFor, lookup]
    cases hl : lookup name kw with
    | none => exact ⟨attrs, by simp [ha]⟩
    | some v =>
      simp only []
      cases hc : (v.isNone && c.ignoreNone && !c.required.contains name) with
      | true => exact ⟨attrs, by simp [ha]⟩
      | false =>
        obtain ⟨y', hv⟩ := h name f (by simp) v hl
        exact ⟨(name, y') :: attrs, by simp [hv, ha]⟩


theorem c08_emitP_mem_of (fx : Bool) (n : String) (f : FieldDecl) : ∀ fields : List (String × FieldDecl),
    (n, f) ∈ fields → (n, emit fx f) ∈ emitP fx fields
  | [], h => by simp at h
  | (k, g) :: rest, h => by
    simp only [emitP]
    rcases List.mem_cons.mp h with heq | h'
    · cases heq; simp
    · simp [c08_emitP_mem_of fx n f rest h']

theorem c08_jsonDoc_kw : ∀ (kvs : List (PyVal × PyVal)), jsonDocP kvs = true →
    ∃ kw, kwOfDict kvs = some kw ∧ ∀ a ∈ kw, jsonDoc a.2 = true
  | [], _ => ⟨[], rfl, by simp⟩
  | (k, v) :: rest, h => by
    simp only [jsonDocP, and_true_iff'] at h
    obtain ⟨kw, hkw, hall⟩ := c08_jsonDoc_kw rest h.2
    cases k <;> simp [isStrJ] at h
    rename_i s
    refine ⟨(s, v) :: kw, by simp [kwOfDict, hkw], ?_⟩
    intro a ha
    rcases List.mem_cons.mp ha with rfl | ha'
    · exact h.1
    · exact hall a ha'

theorem c08_lookup_mem_kw (n : String) (v : PyVal) : ∀ kw : List (String × PyVal), lookup n kw = some v →
    (n, v) ∈ kw
  | [], h => by simp [lookup] at h
  | (k, w) :: rest, h => by
    simp only [lookup] at h
    split at h
    · rename_i hk
      have : n = k := by simpa using hk
      cases h; subst this; simp
    · simp [c08_lookup_mem_kw n v rest h]

theorem c08_jsonDocP_mem : ∀ (kvs : List (PyVal × PyVal)), jsonDocP kvs = true → ∀ kv ∈ kvs, jsonDoc kv.2 = true
  | [], _, _, h => by simp at h
  | (k, w) :: rest, hd, kv, h => by
    simp only [jsonDocP, and_true_iff'] at hd
    rcases List.mem_cons.mp h with rfl | h'
    · exact hd.1.2
    · exact c08_jsonDocP_mem rest hd.2 kv h'

theorem c08_jsonDocL_mem : ∀ (xs : List PyVal), jsonDocL xs = true → ∀ x ∈ xs, jsonDoc x = true
  | [], _, _, h => by simp at h
  | y :: ys, hd, x, h => by
    simp only [jsonDocL, and_true_iff'] at hd
    rcases List.mem_cons.mp h with rfl | h'
    · exact hd.1
    · exact c08_jsonDocL_mem ys hd.2 x h'

/-- the class object admits objects only -/
theorem c08_classObj_dict (R S) (c : ClassOpts) (fields : List (String × PyVal)) (v : PyVal)
    (h : jsV R S (classObj c [] fields) v = true) : ∃ kvs, v = .dict kvs := by
  unfold classObj at h
  rw [jsV_dict _ _ _ _ (by simp [getKw, kw, keyIs])] at h
  simp only [jsKws, and_true_iff'] at h
  have hty : typeIs "object" v = true := by
    simpa [kw, kwOf, kwOfStr, kwNode, kwLeaf, typeOk] using h.1
  cases v <;> simp [typeIs] at hty
  exact ⟨_, rfl⟩

/-- `construct_fields_map` succeeds when every present non-null member is accepted by its field -/
theorem c08_deserFields_acc (O : Oracles) (opts : DeserOpts) (c : ClassOpts) (kw : List (String × PyVal)) :
    ∀ fs : List (String × FieldDecl),
      (∀ n f, (n, f) ∈ fs → ∀ v, lookup n kw = some v →
        v.isNone = false ∧ Accepted O opts c.ignoreNone f v) →
      ∃ args, deserFields O opts c kw fs false = .ok args
        ∧ (∀ n y, lookup n args = some y → ∃ f y', (n, f) ∈ fs ∧ validate O f y = .ok y')
        ∧ (∀ n f, (n, f) ∈ fs → (lookup n kw).isSome = true → (lookup n args).isSome = true)
        ∧ (∀ a ∈ args, (fs.map (·.1)).contains a.1 = true)
  | [], _ => ⟨[], by simp [deserFields], by simp [lookup], by simp, by simp⟩
  | (name, f) :: rest, hacc => by
    obtain ⟨args, h1, h2, h3, h4⟩ := c08_deserFields_acc O opts c kw rest
      (fun n g hm v hv => hacc n g (by simp [hm]) v hv)
    cases hl : lookup name kw with
    | none =>
      refine ⟨args, by simp [deserFields, hl, h1], ?_, ?_, ?_⟩
      · intro n y hy
        obtain ⟨g, y', hm, hv⟩ := h2 n y hy
        exact ⟨g, y', by simp [hm], hv⟩
      · intro n g hm hs
        rcases List.mem_cons.mp hm with heq | hm'
        · cases heq; simp [hl] at hs
        · exact h3 n g hm' hs
      · intro a ha
        have := h4 a ha
        simp only [List.map_cons, List.contains_cons, Bool.or_eq_true]
        right; exact this
    | some v =>
      obtain ⟨hnn, y, y', hd, hv⟩ := hacc name f (by simp) v hl
      refine ⟨(name, y) :: args, by simp [deserFields, hl, hnn, hd, h1], ?_, ?_, ?_⟩
      · intro n z hz
        by_cases hn : n = name
        · subst hn
          simp [lookup] at hz
          subst hz
          exact ⟨f, y', by simp, hv⟩
        · have hne : (n == name) = false := by simpa using hn
          simp only [lookup, hne, Bool.false_eq_true, if_false] at hz
          obtain ⟨g, z', hm, hvz⟩ := h2 n z hz
          exact ⟨g, z', by simp [hm], hvz⟩
      · intro n g hm hs
        by_cases hn : n = name
        · subst hn; simp [lookup]
        · have hne : (n == name) = false := by simpa using hn
          simp only [lookup, hne, Bool.false_eq_true, if_false]
          rcases List.mem_cons.mp hm with heq | hm'
          · cases heq; exact absurd rfl hn
          · exact h3 n g hm' hs
      · intro a ha
        simp only [List.map_cons, List.contains_cons, Bool.or_eq_true]
        rcases List.mem_cons.mp ha with rfl | ha'
        · left; simp
        · right; exact h4 a ha'

/-- the whole `deserialize_structure_internal` of a class without defaults: per-field pass, then the
    constructor — given that every present non-null member is accepted by its field, the required
    members are present, and undeclared members are allowed or absent -/
theorem c08_class_core (O : Oracles) (opts : DeserOpts) (c : ClassOpts) (fields : List (String × FieldDecl))
    (kvs : List (PyVal × PyVal)) (kw : List (String × PyVal)) (hkw : kwOfDict kvs = some kw)
    (hnd : nodupS (fields.map (·.1)) = true)
    (hreqn : c.required.all (fields.map (·.1)).contains = true)
    (hacc : ∀ n f, (n, f) ∈ fields → ∀ v, lookup n kw = some v →
      v.isNone = false ∧ Accepted O opts c.ignoreNone f v)
    (hreq : ∀ n ∈ c.required, (getKw n kvs).isSome = true)
    (haddl : c.addl = true ∨ ∀ kv ∈ kvs, ∀ name, docKey kv.1 = some name → (fields.map (·.1)).contains name = true) :
    ∃ attrs, (bindE (bindE (deserFields O opts c kw fields false)
        (fun args => .ok (deserExtras opts c (fields.map (·.1)) kw ++ args))) fun args =>
          vConstruct c (fields.map (·.1)) args (validateFields O c [] args fields)) = .ok (.inst c.name attrs) := by
  obtain ⟨args, h1, h2, h3, h4⟩ := c08_deserFields_acc O opts c kw fields hacc
  have hskip : ∀ n, (fields.map (·.1)).contains n = true →
      lookup n (deserExtras opts c (fields.map (·.1)) kw ++ args) = lookup n args := by
    intro n hn
    apply c08_lookup_append_skip
    intro a ha
    have hf := (List.mem_filter.mp ha).2
    simp only [and_true_iff', Bool.not_eq_true'] at hf
    cases hk : (a.1 == n) with
    | false => rfl
    | true =>
      have e : a.1 = n := by simpa using hk
      rw [e, hn] at hf
      simp at hf
  have hbind : bindOk c (fields.map (·.1)) (deserExtras opts c (fields.map (·.1)) kw ++ args) = true := by
    simp only [bindOk, and_true_iff', Bool.not_eq_true']
    constructor
    · rw [List.any_eq_false]
      intro r hr
      have hrn : (fields.map (·.1)).contains r = true := (List.all_eq_true.mp hreqn) r hr
      rw [hskip r hrn]
      have hk : (lookup r kw).isSome = true := by
        rw [c08_lookup_kwOfDict r kvs kw hkw]; exact hreq r hr
      have hrm : r ∈ fields.map (·.1) := by simpa using hrn
      obtain ⟨p, hp, hp1⟩ := List.mem_map.mp hrm
      have := h3 r p.2 (by rw [← hp1]; exact hp) hk
      cases hl : lookup r args with
      | none => simp [hl] at this
      | some _ => simp
    · cases ha : c.addl with
      | true => simp
      | false =>
        simp only [Bool.not_false, Bool.true_and]
        rw [List.any_eq_false]
        intro a ha'
        rcases List.mem_append.mp ha' with hx | hx
        · have hmem := (List.mem_filter.mp hx).1
          rcases haddl with h' | h'
          · rw [ha] at h'; cases h'
          · have := h' _ (c08_kwOfDict_mem kvs kw hkw a hmem) a.1 rfl
            rw [this]; decide
        · rw [h4 a hx]; decide
  obtain ⟨attrs, hattrs⟩ := c08_validateFields_ok O c
    (deserExtras opts c (fields.map (·.1)) kw ++ args) fields (by
      intro n f hm y hy
      have hn : (fields.map (·.1)).contains n = true := mem_names_of_mem n f fields hm
      rw [hskip n hn] at hy
      obtain ⟨g, y', hg, hv⟩ := h2 n y hy
      have : g = f := c08_mem_unique n g f fields hnd hg hm
      subst this
      exact ⟨y', hv⟩)
  exact ⟨extrasOf c (fields.map (·.1)) (deserExtras opts c (fields.map (·.1)) kw ++ args) ++ attrs,
    by simp [h1, vConstruct, hbind, hattrs]⟩


/-- in the exact fragment no direct element is an `Optional[X]`: the element-position wrapper is the identity -/
theorem c08_elemWrap_exact (f : FieldDecl) (s : PyVal) (h : isOptionalF f = false) : elemWrap f s = s := by
  cases f <;> simp [isOptionalF] at h <;> simp [elemWrap, isOptional]

/-! ### maps -/

theorem c08_deser_strkey (O : Oracles) (opts : DeserOpts) (ks : String) :
    deser O opts false (.string none none none) (.str ks) = .ok (.str ks) := by
  simp [deser, PyVal.isNone, dValidated, vString, vPattern, geLen, leLen]

theorem c08_validate_strkey (O : Oracles) (ks : String) :
    validate O (.string none none none) (.str ks) = .ok (.str ks) := by
  simp [validate, vString, vPattern, geLen, leLen]

/-- the per-entry pass of `deserialize_map` over a JSON object: every value accepted, every key a string -/
theorem c08_map_entries (O : Oracles) (opts : DeserOpts) (vf : FieldDecl) (P : PyVal → Prop)
    (hacc : ∀ w, P w → Accepted O opts false vf w) :
    ∀ kvs : List (PyVal × PyVal), jsonDocP kvs = true →
      (∀ kv ∈ kvs, P kv.2) →
      ∃ r, mapE (fun (kv : PyVal × PyVal) =>
          bindE (deser O opts false vf kv.2) fun v' =>
          bindE (deser O opts false (.string none none none) kv.1) fun k' =>
            .ok (k', v')) kvs = .ok r
        ∧ r.all (fun kv => (match kv.1 with | .str _ => true | _ => false) && (validate O vf kv.2).toBool) = true
  | [], _, _ => ⟨[], rfl, rfl⟩
  | (k, w) :: rest, hj, hp => by
    simp only [jsonDocP, and_true_iff'] at hj
    obtain ⟨y, y', hd, hv⟩ := hacc w (hp (k, w) (by simp))
    obtain ⟨r, hr, hall⟩ := c08_map_entries O opts vf P hacc rest hj.2 (fun kv hkv => hp kv (by simp [hkv]))
    cases k <;> simp [isStrJ] at hj
    rename_i ks
    refine ⟨(.str ks, y) :: r, ?_, ?_⟩
    · simp only [mapE, hd, hr, c08_deser_strkey, bindE_ok]
    · simp only [List.all_cons, and_true_iff']
      exact ⟨by simp [hv, Except.toBool], hall⟩

/-- the per-entry validation of a Map whose keys are strings and whose values validate -/
theorem c08_map_validate (O : Oracles) (vf : FieldDecl) : ∀ es : List (PyVal × PyVal),
    es.all (fun kv => (match kv.1 with | .str _ => true | _ => false) && (validate O vf kv.2).toBool) = true →
    ∃ r', mapE (fun (kv : PyVal × PyVal) =>
        bindE (validate O (.string none none none) kv.1) fun k' =>
        bindE (validate O vf kv.2) fun v' => .ok (k', v')) es = .ok r'
  | [], _ => ⟨[], rfl⟩
  | (k, w) :: rest, h => by
    simp only [List.all_cons, and_true_iff'] at h
    obtain ⟨r', hr'⟩ := c08_map_validate O vf rest h.2
    cases k <;> simp at h
    rename_i ks
    cases hv : validate O vf w with
    | error e => simp [hv, Except.toBool] at h
    | ok w' =>
      exact ⟨(.str ks, w') :: r', by simp only [mapE, hv, hr', c08_validate_strkey, bindE_ok]⟩

/-! ### the main induction: fields, elements and nested classes -/

mutual
/-- **exactness at field level** (exact scalars, `Array[X]`, `Tuple[X]`, nested classes by `$ref`, any
    depth): a JSON document value that the field's schema admits is not null and is accepted by
    `deserialize_single_field` and then by the field's validation -/
theorem c08_exactN (O : Oracles) (S : String → String → Bool)
    (hS : ∀ p s, startAnchored p = true → S p s = true → O.reMatch p s = true) (D : Defs) :
    ∀ (f : FieldDecl) (n : Nat) (opts : DeserOpts) (ign : Bool) (v : PyVal), exactF f = true → RefsFaithful D f →
      refDepth f ≤ n → jsonDoc v = true → jsV (resolver D S n) S (emit true f) v = true →
      v.isNone = false ∧ Accepted O opts ign f v
  | .seqOf k f sz, n, opts, ign, v, hf, hrf, hd, hj, h => by
    simp only [exactF, and_true_iff'] at hf
    have hk : k = .list := by simpa using hf.1.1.1
    subst hk
    have hu : sz.uniq = false := by simpa using hf.1.1.2
    simp only [RefsFaithful] at hrf
    simp only [refDepth] at hd
    simp only [emit, c08_elemWrap_exact f _ (by simpa using hf.1.2)] at h
    obtain ⟨xs, rfl, hsz, hall⟩ := c08_jsV_arrOf_inv _ S sz (emit true f) (emit_shape true f) v h
    simp only [jsonDoc] at hj
    obtain ⟨ys, ys', hdd, hv, hl⟩ := c08_exact_items O opts f
      (fun x => jsonDoc x = true ∧ jsV (resolver D S n) S (emit true f) x = true)
      (fun x hx => (c08_exactN O S hS D f n opts false x hf.2 hrf hd hx.1 hx.2).2) xs
      (fun x hx => ⟨c08_jsonDocL_mem xs hj x hx, List.all_eq_true.mp hall x hx⟩)
    refine ⟨rfl, .list ys, .list ys', ?_, ?_⟩
    · simp [deser, PyVal.isNone, dSeq, docSeq, hdd, toValueErr, mkSeq]
    · have hl' : ys.length = xs.length := hl
      simp [validate, vSeq, seqElems, uniqOk, hu, hl', hsz, hv, mkSeq]
  | .tupleOf f u, n, opts, ign, v, hf, hrf, hd, hj, h => by
    simp only [exactF, and_true_iff'] at hf
    have hu : u = false := by simpa using hf.1.1
    subst hu
    simp only [RefsFaithful] at hrf
    simp only [refDepth] at hd
    simp only [emit, c08_elemWrap_exact f _ (by simpa using hf.1.2)] at h
    obtain ⟨xs, rfl, _, hall⟩ := c08_jsV_arrOf_inv _ S { uniq := false } (emit true f) (emit_shape true f) v h
    simp only [jsonDoc] at hj
    obtain ⟨ys, ys', hdd, hv, _⟩ := c08_exact_items O opts f
      (fun x => jsonDoc x = true ∧ jsV (resolver D S n) S (emit true f) x = true)
      (fun x hx => (c08_exactN O S hS D f n opts false x hf.2 hrf hd hx.1 hx.2).2) xs
      (fun x hx => ⟨c08_jsonDocL_mem xs hj x hx, List.all_eq_true.mp hall x hx⟩)
    refine ⟨rfl, .tuple ys, .tuple ys', ?_, ?_⟩
    · simp [deser, PyVal.isNone, dSeq, docSeq, hdd, toValueErr]
    · simp [validate, vTuple, uniqOk, hv]
  | .struct c fields defaults, n, opts, ign, v, hf, hrf, hd, hj, h => by
    simp only [exactF, and_true_iff'] at hf
    obtain ⟨⟨⟨⟨⟨hni, hdef⟩, hacc0⟩, hnd⟩, hreqn⟩, hex⟩ := hf
    have hin : c.inline = false := by simpa using hni
    have hdef' : defaults = [] := by simpa using hdef
    subst hdef'
    simp only [RefsFaithful] at hrf
    simp only [refDepth, hin, Bool.false_eq_true, if_false] at hd
    simp only [emit, hin, Bool.false_eq_true, if_false] at h
    rw [jsV_refTo] at h
    cases n with
    | zero => omega
    | succ m =>
      have hlk : lookup ("#/definitions/" ++ c.name) D = some (classObj c [] (emitP true fields)) := by
        rcases hrf.1 with h' | h'
        · simp [hin] at h'
        · exact h'
      simp only [resolver, hlk] at h
      obtain ⟨kvs, rfl⟩ := c08_classObj_dict _ S c _ v h
      simp only [jsonDoc] at hj
      obtain ⟨kw, hkw, hkwdoc⟩ := c08_jsonDoc_kw kvs hj
      obtain ⟨hprops, hreq, haddl⟩ := c08_jsV_classObj_inv _ S c (emitP true fields) kvs h
      rw [emitP_names] at haddl
      obtain ⟨attrs, hcore⟩ := c08_class_core O opts c fields kvs kw hkw hnd hreqn
        (fun nm f hm w hw =>
          c08_exactN_fields O S hS D fields m hex hrf.2 (by omega) nm f hm opts c.ignoreNone w
            (hkwdoc (nm, w) (c08_lookup_mem_kw nm w kw hw))
            (hprops nm (emit true f) (c08_emitP_mem_of true nm f fields hm) w
              (by rw [← c08_lookup_kwOfDict nm kvs kw hkw]; exact hw)))
        hreq haddl
      refine ⟨rfl, .inst c.name attrs, .inst c.name attrs, ?_, ?_⟩
      · simp only [deser, PyVal.isNone, Bool.false_and, Bool.false_eq_true, if_false, hin, dClassRef, hkw]
        exact hcore
      · have hmem : c.name ∈ c.accepts := by simpa using hacc0
        simp [validate, hin, vClassRef, hmem]
  | .anyOf [g, .noneF], n, opts, ign, v, hf, hrf, hd, hj, h => by
    have hg : exactF g = true := by simpa [exactF, exactOpt] using hf
    simp only [RefsFaithful, RefsFaithfulL] at hrf
    simp only [refDepth, refDepthL] at hd
    have hemit : emit true (.anyOf [g, .noneF]) = emit true g := by simp [emit, anyOfShape, emitL]
    rw [hemit] at h
    obtain ⟨hnn, y, y', hdd, hv⟩ := c08_exactN O S hS D g n opts false v hg hrf.1 (by omega) hj h
    refine ⟨hnn, y, y', ?_, ?_⟩
    · simp [deser, hnn, deserAny, hdd]
    · simp [validate, validateAny, hv]
  | .number o, n, opts, ign, v, hf, _, _, _, h => by
    have hf' : exactScalar (.number o) = true := by simpa [exactF] using hf
    refine ⟨?_, exact_scalar O _ S hS opts ign _ v hf' h⟩
    cases v <;> simp [PyVal.isNone]
    rw [c08_exact_not_null _ S _ hf'] at h; cases h
  | .integer o, n, opts, ign, v, hf, _, _, _, h => by
    have hf' : exactScalar (.integer o) = true := by simpa [exactF] using hf
    refine ⟨?_, exact_scalar O _ S hS opts ign _ v hf' h⟩
    cases v <;> simp [PyVal.isNone]
    rw [c08_exact_not_null _ S _ hf'] at h; cases h
  | .float o, n, opts, ign, v, hf, _, _, _, h => by
    have hf' : exactScalar (.float o) = true := by simpa [exactF] using hf
    refine ⟨?_, exact_scalar O _ S hS opts ign _ v hf' h⟩
    cases v <;> simp [PyVal.isNone]
    rw [c08_exact_not_null _ S _ hf'] at h; cases h
  | .string lo hi pat, n, opts, ign, v, hf, _, _, _, h => by
    have hf' : exactScalar (.string lo hi pat) = true := by simpa [exactF] using hf
    refine ⟨?_, exact_scalar O _ S hS opts ign _ v hf' h⟩
    cases v <;> simp [PyVal.isNone]
    rw [c08_exact_not_null _ S _ hf'] at h; cases h
  | .boolean, n, opts, ign, v, _, _, _, _, h => by
    refine ⟨?_, exact_scalar O _ S hS opts ign _ v rfl h⟩
    cases v <;> simp [PyVal.isNone]
    rw [c08_exact_not_null _ S _ rfl] at h; cases h
  | .enumLit vs, n, opts, ign, v, hf, _, _, _, h => by
    have hf' : exactScalar (.enumLit vs) = true := by simpa [exactF] using hf
    refine ⟨?_, exact_scalar O _ S hS opts ign _ v hf' h⟩
    cases v <;> simp [PyVal.isNone]
    rw [c08_exact_not_null _ S _ hf'] at h; cases h
  | .enumCls cn names, n, opts, ign, v, hf, _, _, _, h => by
    have hf' : exactScalar (.enumCls cn names) = true := by simpa [exactF] using hf
    refine ⟨?_, exact_scalar O _ S hS opts ign _ v hf' h⟩
    cases v <;> simp [PyVal.isNone]
    rw [c08_exact_not_null _ S _ hf'] at h; cases h
  | .seqAny _ _, _, _, _, _, hf, _, _, _, _ => by simp [exactF] at hf
  | .seqPos _ _ _ _, _, _, _, _, hf, _, _, _, _ => by simp [exactF] at hf
  | .setAny _ _, _, _, _, _, hf, _, _, _, _ => by simp [exactF] at hf
  | .setOf _ _ _, _, _, _, _, hf, _, _, _, _ => by simp [exactF] at hf
  | .tuplePos _ _, _, _, _, _, hf, _, _, _, _ => by simp [exactF] at hf
  | .mapAny _, _, _, _, _, hf, _, _, _, _ => by simp [exactF] at hf
  | .mapOf k vf sz, n, opts, ign, v, hf, hrf, hd, hj, h => by
    simp only [exactF, and_true_iff'] at hf
    obtain ⟨⟨⟨⟨hkey, hmin⟩, hmax⟩, hnopt⟩, hvf⟩ := hf
    have hk : k = .string none none none := by
      cases k <;> simp [exactKey] at hkey
      rename_i lo hi pat
      cases lo <;> cases hi <;> cases pat <;> simp [exactKey] at hkey
      rfl
    subst hk
    have hmin' : sz.min = none := by simpa using hmin
    have hmax' : sz.max = none := by simpa using hmax
    simp only [RefsFaithful] at hrf
    simp only [refDepth] at hd
    have hszeq : mapKws (some (FieldDecl.string none none none)) (some (emit true vf)) sz
        = mapKws (some (FieldDecl.string none none none)) (some (emit true vf)) {} := by
      simp [mapKws, hmin', hmax']
    simp only [emit, c08_elemWrap_exact vf _ (by simpa using hnopt), hszeq] at h
    obtain ⟨kvs, rfl, hall⟩ := c08_jsV_mapOf_inv _ S _ (emit true vf) (emit_shape true vf) (by decide) v h
    simp only [jsonDoc] at hj
    obtain ⟨r, hr, hrall⟩ := c08_map_entries O opts vf
      (fun w => jsonDoc w = true ∧ jsV (resolver D S n) S (emit true vf) w = true)
      (fun w hw => (c08_exactN O S hS D vf n opts false w hvf hrf hd hw.1 hw.2).2)
      kvs hj (fun kv hkv => ⟨c08_jsonDocP_mem kvs hj kv hkv, List.all_eq_true.mp hall kv hkv⟩)
    refine ⟨rfl, .dict (dictOfPairs r), ?_⟩
    have hsz : ∀ m, sizeOk sz m = true := by intro m; simp [sizeOk, hmin', hmax', geLen, leLen]
    obtain ⟨r', hr'⟩ := c08_map_validate O vf (dictOfPairs r)
      (dictOfPairs_all _ (fun kk => match kk with | .str _ => true | _ => false)
        (fun w => (validate O vf w).toBool) (fun kv => rfl) r hrall)
    refine ⟨.dict (dictOfPairs r'), ?_, ?_⟩
    · have hnu : r.any (fun kv => unhashable kv.1) = false := by
        rw [List.any_eq_false]
        intro kv hkv
        have := List.all_eq_true.mp hrall kv hkv
        simp only [and_true_iff'] at this
        cases hk1 : kv.1 <;> simp [hk1] at this <;> simp [unhashable]
      rw [deser]
      simp only [PyVal.isNone, Bool.false_and, Bool.false_eq_true, if_false, dMap, hr, bindE_ok, hnu]
    · rw [validate]
      simp only [vMap, hsz, Bool.not_true, Bool.false_eq_true, if_false, hr', bindE_ok]
  | .anyOf [], _, _, _, _, hf, _, _, _, _ => by simp [exactF, exactOpt] at hf
  | .anyOf [_], _, _, _, _, hf, _, _, _, _ => by simp [exactF, exactOpt] at hf
  | .anyOf (_ :: _ :: _ :: _), _, _, _, _, hf, _, _, _, _ => by simp [exactF, exactOpt] at hf
  | .anyOf [_, .number _], _, _, _, _, hf, _, _, _, _ => by simp [exactF, exactOpt] at hf
  | .anyOf [_, .integer _], _, _, _, _, hf, _, _, _, _ => by simp [exactF, exactOpt] at hf
  | .anyOf [_, .float _], _, _, _, _, hf, _, _, _, _ => by simp [exactF, exactOpt] at hf
  | .anyOf [_, .string _ _ _], _, _, _, _, hf, _, _, _, _ => by simp [exactF, exactOpt] at hf
  | .anyOf [_, .boolean], _, _, _, _, hf, _, _, _, _ => by simp [exactF, exactOpt] at hf
  | .anyOf [_, .enumLit _], _, _, _, _, hf, _, _, _, _ => by simp [exactF, exactOpt] at hf
  | .anyOf [_, .enumCls _ _], _, _, _, _, hf, _, _, _, _ => by simp [exactF, exactOpt] at hf
  | .anyOf [_, .seqAny _ _], _, _, _, _, hf, _, _, _, _ => by simp [exactF, exactOpt] at hf
  | .anyOf [_, .seqOf _ _ _], _, _, _, _, hf, _, _, _, _ => by simp [exactF, exactOpt] at hf
  | .anyOf [_, .seqPos _ _ _ _], _, _, _, _, hf, _, _, _, _ => by simp [exactF, exactOpt] at hf
  | .anyOf [_, .setAny _ _], _, _, _, _, hf, _, _, _, _ => by simp [exactF, exactOpt] at hf
  | .anyOf [_, .setOf _ _ _], _, _, _, _, hf, _, _, _, _ => by simp [exactF, exactOpt] at hf
  | .anyOf [_, .tupleOf _ _], _, _, _, _, hf, _, _, _, _ => by simp [exactF, exactOpt] at hf
  | .anyOf [_, .tuplePos _ _], _, _, _, _, hf, _, _, _, _ => by simp [exactF, exactOpt] at hf
  | .anyOf [_, .mapAny _], _, _, _, _, hf, _, _, _, _ => by simp [exactF, exactOpt] at hf
  | .anyOf [_, .mapOf _ _ _], _, _, _, _, hf, _, _, _, _ => by simp [exactF, exactOpt] at hf
  | .anyOf [_, .struct _ _ _], _, _, _, _, hf, _, _, _, _ => by simp [exactF, exactOpt] at hf
  | .anyOf [_, .anyOf _], _, _, _, _, hf, _, _, _, _ => by simp [exactF, exactOpt] at hf
  | .anyOf [_, .oneOf _], _, _, _, _, hf, _, _, _, _ => by simp [exactF, exactOpt] at hf
  | .anyOf [_, .allOf _], _, _, _, _, hf, _, _, _, _ => by simp [exactF, exactOpt] at hf
  | .anyOf [_, .notF _], _, _, _, _, hf, _, _, _, _ => by simp [exactF, exactOpt] at hf
  | .anyOf [_, .anything], _, _, _, _, hf, _, _, _, _ => by simp [exactF, exactOpt] at hf
  | .oneOf _, _, _, _, _, hf, _, _, _, _ => by simp [exactF] at hf
  | .allOf _, _, _, _, _, hf, _, _, _, _ => by simp [exactF] at hf
  | .notF _, _, _, _, _, hf, _, _, _, _ => by simp [exactF] at hf
  | .noneF, _, _, _, _, hf, _, _, _, _ => by simp [exactF] at hf
  | .anything, _, _, _, _, hf, _, _, _, _ => by simp [exactF] at hf

theorem c08_exactN_fields (O : Oracles) (S : String → String → Bool)
    (hS : ∀ p s, startAnchored p = true → S p s = true → O.reMatch p s = true) (D : Defs) :
    ∀ (fields : List (String × FieldDecl)) (n : Nat), exactFields fields = true → RefsFaithfulP D fields →
      refDepthP fields ≤ n → ∀ name f, (name, f) ∈ fields → ∀ (opts : DeserOpts) (ign : Bool) (v : PyVal), jsonDoc v = true →
      jsV (resolver D S n) S (emit true f) v = true → v.isNone = false ∧ Accepted O opts ign f v
  | [], _, _, _, _, _, _, hm, _, _, _, _, _ => by simp at hm
  | (k, g) :: fields, n, hf, hrf, hd, name, f, hm, opts, ign, v, hj, h => by
    simp only [exactFields, and_true_iff'] at hf
    simp only [RefsFaithfulP] at hrf
    simp only [refDepthP] at hd
    rcases List.mem_cons.mp hm with heq | hm'
    · have heq' : g = f := (Prod.mk.inj heq).2.symm
      subst heq'
      exact c08_exactN O S hS D g n opts ign v hf.1 hrf.1 (by omega) hj h
    · exact c08_exactN_fields O S hS D fields n hf.2 hrf.2 (by omega) name f hm' opts ign v hj h
end

/-- **class level of exactness**: for a class of `inExactFragment` every JSON object that the class's
    schema admits (class references resolved through the definitions, fuel covering their nesting) is
    accepted by `Deserializer(cls).deserialize`, for every flag setting -/
theorem c08_exact_class (O : Oracles) (S : String → String → Bool)
    (hS : ∀ p s, startAnchored p = true → S p s = true → O.reMatch p s = true)
    (opts : DeserOpts) (D : Defs) (cls : FieldDecl) (n : Nat) (kvs : List (PyVal × PyVal))
    (hfrag : inExactFragment cls = true) (hrefs : ClassRefsFaithful D cls) (hd : refDepth cls ≤ n)
    (hdoc : jsonDoc (.dict kvs) = true)
    (h : jsV (resolver D S n) S (classSchema true cls) (.dict kvs) = true) :
    ∃ x, deserialize O opts cls (.dict kvs) = .ok x := by
  cases cls with
  | struct c fields defaults =>
    simp only [inExactFragment, and_true_iff'] at hfrag
    obtain ⟨⟨⟨⟨⟨hni, hdef⟩, hncol⟩, hnd⟩, hreqn⟩, hex⟩ := hfrag
    have hin : c.inline = false := by simpa using hni
    have hdef' : defaults = [] := by simpa using hdef
    subst hdef'
    simp only [ClassRefsFaithful] at hrefs
    simp only [refDepth, hin, Bool.false_eq_true, if_false] at hd
    have hncol' : collapses c (fields.map (·.1)) = false := by simpa using hncol
    have hshape : structShape c [] (emitP true fields) = classObj c [] (emitP true fields) := by
      unfold structShape; rw [emitP_names]; simp [hncol']
    simp only [classSchema, hshape] at h
    simp only [jsonDoc] at hdoc
    obtain ⟨kw, hkw, hkwdoc⟩ := c08_jsonDoc_kw kvs hdoc
    obtain ⟨hprops, hreq, haddl⟩ := c08_jsV_classObj_inv _ S c (emitP true fields) kvs h
    rw [emitP_names] at haddl
    obtain ⟨attrs, hcore⟩ := c08_class_core O opts c fields kvs kw hkw hnd hreqn
      (fun nm f hm w hw =>
        c08_exactN_fields O S hS D fields n hex hrefs (by omega) nm f hm opts c.ignoreNone w
          (hkwdoc (nm, w) (c08_lookup_mem_kw nm w kw hw))
          (hprops nm (emit true f) (c08_emitP_mem_of true nm f fields hm) w
            (by rw [← c08_lookup_kwOfDict nm kvs kw hkw]; exact hw)))
      hreq haddl
    exact ⟨.inst c.name attrs, by simp only [deserialize, dClassRef, hkw]; exact hcore⟩
  | _ => simp [inExactFragment] at hfrag

end Typedpy.Sch
