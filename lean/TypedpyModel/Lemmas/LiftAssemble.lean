import TypedpyModel.Lemmas.LiftLists
namespace Typedpy
open PyVal (pyEq pyMem pyNodup)

theorem lf_toValueErr_eq_ok {α} (r : R α) (y : α) : toValueErr r = .ok y ↔ r = .ok y := by
  unfold toValueErr
  cases r with
  | ok z => simp
  | error e => cases e <;> simp

theorem vTuple_ok (uniq : Bool) (p : Nat → Bool) (g : List PyVal → R (List PyVal))
    (ys : List PyVal) (hu : uniq = false) (r : PyVal) :
    vTuple uniq (fun xs => p xs.length) g (.tuple ys) = .ok r
      ↔ p ys.length = true ∧ ∃ zs, g ys = .ok zs ∧ r = .tuple zs := by
  unfold vTuple
  simp only [hu, uniqOk]
  constructor
  · intro h
    by_cases h2 : p ys.length = true
    · simp [h2] at h
      rcases bindE_eq_ok h with ⟨zs, hz, h3⟩
      cases h3
      exact ⟨h2, zs, hz, rfl⟩
    · simp [h2] at h
  · rintro ⟨h2, zs, hz, rfl⟩
    simp [h2, hz]

/-- assembling a sequence field from its element-level equivalence -/
theorem seq_assemble (k : SeqKind) (sz : SizeOpts) (p : Nat → Bool)
    (dg vg : List PyVal → R (List PyVal)) (lg : List PyVal → Option (List PyVal))
    (hu : sz.uniq = false)
    (hlenD : ∀ xs ys, dg xs = .ok ys → ys.length = xs.length)
    (hlenL : ∀ xs ws, lg xs = some ws → ws.length = xs.length)
    (xs : List PyVal)
    (hequiv : ∀ zs, (∃ ys, dg xs = .ok ys ∧ vg ys = .ok zs) ↔ (∃ ws, lg xs = some ws ∧ vg ws = .ok zs)) :
    OkEq (bindE (dSeq (fun ys => .ok (mkSeq k ys)) (fun xs => toValueErr (dg xs)) (.list xs))
            (vSeq k sz (fun xs => p xs.length) vg))
         (match (lg xs).map (mkSeq k) with
          | some w => vSeq k sz (fun xs => p xs.length) vg w
          | none => .error .valueErr) := by
  intro r
  constructor
  · intro h
    rcases bindE_eq_ok h with ⟨w0, h1, h2⟩
    simp only [dSeq, docSeq] at h1
    rcases bindE_eq_ok h1 with ⟨ys, hys, h3⟩
    cases h3
    have hys' := (lf_toValueErr_eq_ok _ _).mp hys
    rcases (vSeq_mkSeq_ok k sz p vg ys hu r).mp h2 with ⟨s1, s2, zs, hz, rfl⟩
    rcases (hequiv zs).mp ⟨ys, hys', hz⟩ with ⟨ws, g1, g2⟩
    have hl : ws.length = ys.length := by rw [hlenL xs ws g1, hlenD xs ys hys']
    simp only [g1, Option.map_some]
    exact (vSeq_mkSeq_ok k sz p vg ws hu _).mpr ⟨by rw [hl]; exact s1, by rw [hl]; exact s2, zs, g2, rfl⟩
  · intro h
    cases hw : lg xs with
    | none => simp [hw] at h
    | some ws =>
      simp only [hw, Option.map_some] at h
      rcases (vSeq_mkSeq_ok k sz p vg ws hu r).mp h with ⟨s1, s2, zs, hz, rfl⟩
      rcases (hequiv zs).mpr ⟨ws, hw, hz⟩ with ⟨ys, g1, g2⟩
      have hl : ys.length = ws.length := by rw [hlenL xs ws hw, hlenD xs ys g1]
      have hd : dSeq (fun ys => .ok (mkSeq k ys)) (fun xs => toValueErr (dg xs)) (.list xs) = .ok (mkSeq k ys) := by
        simp [dSeq, docSeq, g1, toValueErr]
      simp only [hd, bindE]
      exact (vSeq_mkSeq_ok k sz p vg ys hu _).mpr ⟨by rw [hl]; exact s1, by rw [hl]; exact s2, zs, g2, rfl⟩

theorem tuple_assemble (uniq : Bool) (p : Nat → Bool)
    (dg vg : List PyVal → R (List PyVal)) (lg : List PyVal → Option (List PyVal))
    (hu : uniq = false)
    (hlenD : ∀ xs ys, dg xs = .ok ys → ys.length = xs.length)
    (hlenL : ∀ xs ws, lg xs = some ws → ws.length = xs.length)
    (xs : List PyVal)
    (hequiv : ∀ zs, (∃ ys, dg xs = .ok ys ∧ vg ys = .ok zs) ↔ (∃ ws, lg xs = some ws ∧ vg ws = .ok zs)) :
    OkEq (bindE (dSeq (fun ys => .ok (.tuple ys)) (fun xs => toValueErr (dg xs)) (.list xs))
            (vTuple uniq (fun xs => p xs.length) vg))
         (match (lg xs).map PyVal.tuple with
          | some w => vTuple uniq (fun xs => p xs.length) vg w
          | none => .error .valueErr) := by
  intro r
  constructor
  · intro h
    rcases bindE_eq_ok h with ⟨w0, h1, h2⟩
    simp only [dSeq, docSeq] at h1
    rcases bindE_eq_ok h1 with ⟨ys, hys, h3⟩
    cases h3
    have hys' := (lf_toValueErr_eq_ok _ _).mp hys
    rcases (vTuple_ok uniq p vg ys hu r).mp h2 with ⟨s2, zs, hz, rfl⟩
    rcases (hequiv zs).mp ⟨ys, hys', hz⟩ with ⟨ws, g1, g2⟩
    have hl : ws.length = ys.length := by rw [hlenL xs ws g1, hlenD xs ys hys']
    simp only [g1, Option.map_some]
    exact (vTuple_ok uniq p vg ws hu _).mpr ⟨by rw [hl]; exact s2, zs, g2, rfl⟩
  · intro h
    cases hw : lg xs with
    | none => simp [hw] at h
    | some ws =>
      simp only [hw, Option.map_some] at h
      rcases (vTuple_ok uniq p vg ws hu r).mp h with ⟨s2, zs, hz, rfl⟩
      rcases (hequiv zs).mpr ⟨ws, hw, hz⟩ with ⟨ys, g1, g2⟩
      have hl : ys.length = ws.length := by rw [hlenL xs ws hw, hlenD xs ys g1]
      have hd : dSeq (fun ys => .ok (.tuple ys)) (fun xs => toValueErr (dg xs)) (.list xs) = .ok (.tuple ys) := by
        simp [dSeq, docSeq, g1, toValueErr]
      simp only [hd, bindE]
      exact (vTuple_ok uniq p vg ys hu _).mpr ⟨by rw [hl]; exact s2, zs, g2, rfl⟩

end Typedpy
