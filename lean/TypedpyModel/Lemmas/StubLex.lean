/-
  Lemmas/StubLex.lean — the character level: printing a token sequence (one blank after every token) and lexing the
  characters with `lexPy` gives the tokens back, for every sequence whose names are identifier-shaped.  Together with
  Lemmas/StubText.lean this turns the token-level acceptance theorems into statements about TEXT.
  Lemma names carry the prefix `c16_`.
-/
import TypedpyModel.Lemmas.StubText
namespace Typedpy.StubText
open Typedpy.Stub

/-- the characters of one token -/
def tokCs : Tok → List Char
  | .name s => s.toList
  | .lit => ['0']
  | .lpar => ['('] | .rpar => [')'] | .lsq => ['['] | .rsq => [']'] | .comma => [','] | .colon => [':']
  | .eq => ['='] | .star => ['*'] | .dstar => ['*', '*'] | .slash => ['/'] | .dot => ['.']
  | .arrow => ['-', '>'] | .ellipsis => ['.', '.', '.']

/-- every token followed by one blank -/
def toksCs : List Tok → List Char
  | [] => []
  | t :: rest => tokCs t ++ ' ' :: toksCs rest

/-- the text of a token sequence -/
def renderText (ts : List Tok) : String := String.ofList (toksCs ts)

/-- a token the lexer reads back: names are identifier-shaped -/
def tokLexOk : Tok → Bool
  | .name s => identChars s.toList
  | _ => true

theorem c16_space_not_idStart {c : Char} (h : isIdStart c = true) : isSpace c = false := by
  cases hs : isSpace c with
  | false => rfl
  | true =>
    simp only [isSpace, Bool.or_eq_true, beq_iff_eq] at hs
    rcases hs with ((rfl | rfl) | rfl) | rfl <;> simp [isIdStart] at h <;> revert h <;> decide

theorem c16_lex_ident (cs rest : List Char) (rev : List Char) (acc : List Tok) (h : cs.all isIdChar = true) :
    lexGo (cs ++ ' ' :: rest) (.ident rev) acc =
      lexGo rest .idle (.name (String.ofList (cs.reverse ++ rev).reverse) :: acc) := by
  induction cs generalizing rev with
  | nil =>
    have h1 : isIdChar ' ' = false := by decide
    have h2 : startTok ' ' (Tok.name (String.ofList rev.reverse) :: acc) =
        some (.idle, Tok.name (String.ofList rev.reverse) :: acc) := by
      simp [startTok, isSpace]
    simp [lexGo, h1, h2]
  | cons c cs ih =>
    simp only [List.all_cons, Bool.and_eq_true] at h
    simp only [List.cons_append, lexGo, h.1, if_true]
    rw [ih _ h.2]
    simp

theorem c16_startTok_space (acc : List Tok) : startTok ' ' acc = some (.idle, acc) := by
  simp [startTok, isSpace]

/-- one token and its blank -/
theorem c16_lex_tok (t : Tok) (rest : List Char) (acc : List Tok) (h : tokLexOk t = true) :
    lexGo (tokCs t ++ ' ' :: rest) .idle acc = lexGo rest .idle (t :: acc) := by
  cases t with
  | name s =>
    simp only [tokLexOk] at h
    cases hs : s.toList with
    | nil => simp [hs, identChars] at h
    | cons c cs =>
      simp only [hs, identChars, Bool.and_eq_true] at h
      have hsp := c16_space_not_idStart h.1
      have hst : startTok c acc = some (.ident [c], acc) := by simp [startTok, hsp, h.1]
      simp only [tokCs, hs, List.cons_append, lexGo, hst]
      rw [c16_lex_ident cs rest [c] acc h.2]
      have : String.ofList (cs.reverse ++ [c]).reverse = s := by
        rw [List.reverse_append, List.reverse_reverse]
        show String.ofList (c :: cs) = s
        rw [← hs, String.ofList_toList]
      rw [this]
  | lit =>
    have h1 : startTok '0' acc = some (.num, acc) := by rfl
    simp [tokCs, lexGo, h1, c16_startTok_space]
  | lpar =>
    have h1 : startTok '(' acc = some (.idle, .lpar :: acc) := by rfl
    simp [tokCs, lexGo, h1, c16_startTok_space]
  | rpar =>
    have h1 : startTok ')' acc = some (.idle, .rpar :: acc) := by rfl
    simp [tokCs, lexGo, h1, c16_startTok_space]
  | lsq =>
    have h1 : startTok '[' acc = some (.idle, .lsq :: acc) := by rfl
    simp [tokCs, lexGo, h1, c16_startTok_space]
  | rsq =>
    have h1 : startTok ']' acc = some (.idle, .rsq :: acc) := by rfl
    simp [tokCs, lexGo, h1, c16_startTok_space]
  | comma =>
    have h1 : startTok ',' acc = some (.idle, .comma :: acc) := by rfl
    simp [tokCs, lexGo, h1, c16_startTok_space]
  | colon =>
    have h1 : startTok ':' acc = some (.idle, .colon :: acc) := by rfl
    simp [tokCs, lexGo, h1, c16_startTok_space]
  | eq =>
    have h1 : startTok '=' acc = some (.idle, .eq :: acc) := by rfl
    simp [tokCs, lexGo, h1, c16_startTok_space]
  | slash =>
    have h1 : startTok '/' acc = some (.idle, .slash :: acc) := by rfl
    simp [tokCs, lexGo, h1, c16_startTok_space]
  | star =>
    have h1 : startTok '*' acc = some (.star, acc) := by rfl
    simp [tokCs, lexGo, h1, c16_startTok_space]
  | dstar =>
    have h1 : startTok '*' acc = some (.star, acc) := by rfl
    simp [tokCs, lexGo, h1, c16_startTok_space]
  | dot =>
    have h1 : startTok '.' acc = some (.dots 1, acc) := by rfl
    simp [tokCs, lexGo, h1, flush, c16_startTok_space]
  | arrow =>
    have h1 : startTok '-' acc = some (.minus, acc) := by rfl
    simp [tokCs, lexGo, h1, c16_startTok_space]
  | ellipsis =>
    have h1 : startTok '.' acc = some (.dots 1, acc) := by rfl
    simp [tokCs, lexGo, h1, flush, c16_startTok_space]

theorem c16_lex_toks (ts : List Tok) (acc : List Tok) (h : ∀ t ∈ ts, tokLexOk t = true) :
    lexGo (toksCs ts) .idle acc = some (acc.reverse ++ ts) := by
  induction ts generalizing acc with
  | nil => simp [toksCs, lexGo, flush]
  | cons t rest ih =>
    simp only [toksCs]
    rw [c16_lex_tok t _ acc (h t List.mem_cons_self), ih _ (fun u hu => h u (List.mem_cons_of_mem _ hu))]
    simp

/-- print, then lex: the same tokens -/
theorem c16_lexPy_render (ts : List Tok) (h : ∀ t ∈ ts, tokLexOk t = true) : lexPy (renderText ts) = some ts := by
  unfold lexPy renderText
  rw [String.toList_ofList, c16_lex_toks ts [] h]
  simp

/-! ### the tokens the generator writes are lexable -/

theorem c16_identChars_of_identOk {s : String} (h : identOk s = true) : identChars s.toList = true := by
  simp only [identOk, Bool.and_eq_true] at h
  exact h.1

theorem c16_identChars_of_atomOk {s : String} (h : atomOk s = true) : identChars s.toList = true := by
  simp only [atomOk, Bool.or_eq_true, beq_iff_eq] at h
  rcases h with ((h | rfl) | rfl) | rfl
  · exact c16_identChars_of_identOk h
  · decide
  · decide
  · decide

theorem c16_lexOk_dottedTail (rest : List String) (h : rest.all identOk = true) :
    ∀ t ∈ dottedTail rest, tokLexOk t = true := by
  induction rest with
  | nil => simp [dottedTail]
  | cons a rest ih =>
    simp only [List.all_cons, Bool.and_eq_true] at h
    intro t ht
    simp only [dottedTail, List.mem_cons] at ht
    rcases ht with rfl | rfl | ht
    · rfl
    · exact c16_identChars_of_identOk h.1
    · exact ih h.2 t ht

theorem c16_lexOk_dotted (ps : List String) (h : dottedOk ps = true) : ∀ t ∈ dottedToks ps, tokLexOk t = true := by
  cases ps with
  | nil => simp [dottedToks]
  | cons a rest =>
    simp only [dottedOk, Bool.and_eq_true] at h
    intro t ht
    simp only [dottedToks, List.mem_cons] at ht
    rcases ht with rfl | ht
    · exact c16_identChars_of_atomOk h.1
    · exact c16_lexOk_dottedTail rest h.2 t ht

mutual
theorem c16_lexOk_ann : (a : Ann) → a.wf = true → ∀ t ∈ annToks a, tokLexOk t = true
  | .name ps, h => by simp only [Ann.wf] at h; simp only [annToks]; exact c16_lexOk_dotted ps h
  | .sub hd args, h => by
    simp only [Ann.wf, Bool.and_eq_true] at h
    intro t ht
    simp only [annToks, List.mem_append, List.mem_cons, List.not_mem_nil, or_false] at ht
    rcases ht with ht | rfl | ht | rfl
    · exact c16_lexOk_dotted hd h.1.1 t ht
    · rfl
    · exact c16_lexOk_anns args h.2 t ht
    · rfl
  | .lst items, h => by
    simp only [Ann.wf] at h
    intro t ht
    simp only [annToks, List.mem_append, List.mem_cons, List.not_mem_nil, or_false] at ht
    rcases ht with rfl | ht | rfl
    · rfl
    · exact c16_lexOk_anns items h t ht
    · rfl
  | .ellipsis, _ => by simp [annToks, tokLexOk]
  | .lit, _ => by simp [annToks, tokLexOk]
theorem c16_lexOk_anns : (as : List Ann) → Ann.wfL as = true → ∀ t ∈ annsToks as, tokLexOk t = true
  | [], _ => by simp [annsToks]
  | a :: rest, h => by
    simp only [Ann.wfL, Bool.and_eq_true] at h
    intro t ht
    simp only [annsToks, List.mem_append] at ht
    rcases ht with ht | ht
    · exact c16_lexOk_ann a h.1 t ht
    · exact c16_lexOk_tail rest h.2 t ht
theorem c16_lexOk_tail : (as : List Ann) → Ann.wfL as = true → ∀ t ∈ annsTail as, tokLexOk t = true
  | [], _ => by simp [annsTail]
  | a :: rest, h => by
    simp only [Ann.wfL, Bool.and_eq_true] at h
    intro t ht
    simp only [annsTail, List.mem_cons, List.mem_append] at ht
    rcases ht with rfl | ht | ht
    · rfl
    · exact c16_lexOk_ann a h.1 t ht
    · exact c16_lexOk_tail rest h.2 t ht
end

theorem c16_lexOk_fieldItem (a : Ann) (p : Param) (hn : identOk p.name = true) (h : a.wf = true) :
    ∀ t ∈ fieldItem a p, tokLexOk t = true := by
  intro t ht
  rw [c16_fieldItem_eq] at ht
  simp only [List.mem_cons, List.mem_append, annPart, dfltPart] at ht
  rcases ht with rfl | (rfl | ht) | ht
  · exact c16_identChars_of_identOk hn
  · rfl
  · exact c16_lexOk_ann _ (c16_fieldAnn_wf a p h) t ht
  · cases hd : p.hasDefault
    · simp [hd] at ht
    · simp only [hd, if_true, List.mem_cons] at ht
      rcases ht with rfl | ht
      · rfl
      · exact c16_lexOk_ann noneAnn c16_noneAnn_wf t ht

theorem c16_lexOk_joinTail (items : List (List Tok)) (h : ∀ x ∈ items, ∀ t ∈ x, tokLexOk t = true) :
    ∀ t ∈ joinTail items, tokLexOk t = true := by
  induction items with
  | nil => simp [joinTail]
  | cons x rest ih =>
    intro t ht
    simp only [joinTail, List.mem_cons, List.mem_append] at ht
    rcases ht with rfl | ht | ht
    · rfl
    · exact h x List.mem_cons_self t ht
    · exact ih (fun y hy => h y (List.mem_cons_of_mem _ hy)) t ht

theorem c16_lexOk_joinComma (items : List (List Tok)) (h : ∀ x ∈ items, ∀ t ∈ x, tokLexOk t = true) :
    ∀ t ∈ joinComma items, tokLexOk t = true := by
  cases items with
  | nil => simp [joinComma]
  | cons x rest =>
    intro t ht
    simp only [joinComma, List.mem_append] at ht
    rcases ht with ht | ht
    · exact h x List.mem_cons_self t ht
    · exact c16_lexOk_joinTail rest (fun y hy => h y (List.mem_cons_of_mem _ hy)) t ht

/-- every token of the generated `__init__` is lexable -/
theorem c16_lexOk_initToks (anns : String → Ann) (s : Sig) (h : textDomain anns s.params = true) :
    ∀ t ∈ initToks anns s, tokLexOk t = true := by
  have hdom : ∀ p ∈ s.params, identOk p.name = true ∧ (anns p.name).wf = true := by
    intro p hp
    have := List.all_eq_true.mp h p hp
    simpa using this
  intro t ht
  simp only [initToks, defToks, List.mem_cons, List.mem_append, List.not_mem_nil, or_false] at ht
  rcases ht with rfl | rfl | rfl | ht | rfl | rfl | rfl
  · decide
  · decide
  · rfl
  · refine c16_lexOk_joinComma _ ?_ t ht
    intro x hx u hu
    simp only [List.mem_append, List.mem_cons, List.not_mem_nil, or_false, List.mem_map] at hx
    rcases hx with (rfl | ⟨p, hp, rfl⟩) | hx
    · simp only [List.mem_singleton] at hu; subst hu; decide
    · exact c16_lexOk_fieldItem _ p (hdom p hp).1 (hdom p hp).2 u hu
    · cases hk : s.kw
      · simp [hk] at hx
      · simp only [hk, if_true, List.mem_singleton] at hx
        subst hx
        simp only [kwItem, List.mem_cons, List.not_mem_nil, or_false] at hu
        rcases hu with rfl | rfl
        · rfl
        · exact c16_identChars_of_identOk (c16_kwName_ok _)
  · rfl
  · rfl
  · rfl

theorem c16_lexOk_helperItem (a : Ann) (p : Param) (hn : identOk p.name = true) (h : a.wf = true) :
    ∀ t ∈ helperItem a p, tokLexOk t = true := by
  intro t ht
  rw [c16_helperItem_eq] at ht
  simp only [List.mem_cons, List.mem_append, annPart, dfltPart] at ht
  rcases ht with rfl | (rfl | ht) | rfl | ht
  · exact c16_identChars_of_identOk hn
  · rfl
  · exact c16_lexOk_ann _ (c16_fieldAnn_wf a p h) t ht
  · rfl
  · exact c16_lexOk_ann noneAnn c16_noneAnn_wf t ht

theorem c16_lexOk_helperLead (hk : Helper) : ∀ x ∈ helperLead hk, ∀ t ∈ x, tokLexOk t = true := by
  cases hk <;> decide

/-- every token of the three generated helper methods is lexable -/
theorem c16_lexOk_helperToks (anns : String → Ann) (hk : Helper) (s : Sig) (h : textDomain anns s.params = true) :
    ∀ t ∈ helperToks anns hk s, tokLexOk t = true := by
  have hdom : ∀ p ∈ s.params, identOk p.name = true ∧ (anns p.name).wf = true := by
    intro p hp
    have := List.all_eq_true.mp h p hp
    simpa using this
  have hname : tokLexOk (.name (helperName hk)) = true := by cases hk <;> decide
  intro t ht
  simp only [helperToks, defToks, List.mem_cons, List.mem_append, List.not_mem_nil, or_false] at ht
  rcases ht with rfl | rfl | rfl | ht | rfl | rfl | rfl
  · decide
  · exact hname
  · rfl
  · refine c16_lexOk_joinComma _ ?_ t ht
    intro x hx u hu
    simp only [List.mem_append, List.mem_map] at hx
    rcases hx with (hx | ⟨p, hp, rfl⟩) | hx
    · exact c16_lexOk_helperLead hk x hx u hu
    · exact c16_lexOk_helperItem _ p (hdom p (c16_helperFields_sub hp)).1 (hdom p (c16_helperFields_sub hp)).2 u hu
    · cases hkw : s.kw
      · simp [hkw] at hx
      · simp only [hkw, if_true, List.mem_singleton] at hx
        subst hx
        simp only [kwItem, List.mem_cons, List.not_mem_nil, or_false] at hu
        rcases hu with rfl | rfl
        · rfl
        · exact c16_identChars_of_identOk (c16_kwName_ok _)
  · rfl
  · rfl
  · rfl

theorem c16_lexOk_optPart (a : Option Ann) (h : optWf a = true) :
    (∀ t ∈ annPart a, tokLexOk t = true) ∧ (∀ t ∈ dfltPart a, tokLexOk t = true) ∧
    (∀ t ∈ retPart a, tokLexOk t = true) := by
  cases a with
  | none => simp [annPart, dfltPart, retPart]
  | some x =>
    have := c16_lexOk_ann x h
    refine ⟨?_, ?_, ?_⟩ <;> intro t ht <;>
      simp only [annPart, dfltPart, retPart, List.mem_cons] at ht <;> rcases ht with rfl | ht
    · rfl
    · exact this t ht
    · rfl
    · exact this t ht
    · rfl
    · exact this t ht

theorem c16_lexOk_rparamToks (p : RParam) (h : rparamOk p = true) : ∀ t ∈ rparamToks p, tokLexOk t = true := by
  simp only [rparamOk, Bool.and_eq_true] at h
  intro t ht
  simp only [rparamToks, List.mem_append, List.mem_cons] at ht
  rcases ht with ht | rfl | ht | ht
  · cases hk : p.kind <;> simp [kindPrefix, hk] at ht <;> subst ht <;> rfl
  · exact c16_identChars_of_identOk h.1.1
  · exact (c16_lexOk_optPart p.ann h.1.2).1 t ht
  · exact (c16_lexOk_optPart p.dflt h.2).2.1 t ht

theorem c16_lexOk_sigItems (ps : List RParam) (pending found : Bool) (h : ∀ p ∈ ps, rparamOk p = true) :
    ∀ x ∈ sigItemsGo pending found ps, ∀ t ∈ x, tokLexOk t = true := by
  induction ps generalizing pending found with
  | nil =>
    cases pending
    · simp [sigItemsGo]
    · intro x hx t ht
      simp only [sigItemsGo, if_true, List.mem_singleton] at hx
      subst hx
      simp only [List.mem_singleton] at ht
      subst ht
      rfl
  | cons p ps ih =>
    intro x hx t ht
    simp only [sigItemsGo, List.mem_append, List.mem_cons] at hx
    rcases hx with (hx | hx) | rfl | hx
    · split at hx
      · simp only [List.mem_singleton] at hx; subst hx; simp only [List.mem_singleton] at ht; subst ht; rfl
      · cases hx
    · split at hx
      · simp only [List.mem_singleton] at hx; subst hx; simp only [List.mem_singleton] at ht; subst ht; rfl
      · cases hx
    · exact c16_lexOk_rparamToks p (h p List.mem_cons_self) t ht
    · exact ih _ _ (fun q hq => h q (List.mem_cons_of_mem _ hq)) x hx t ht

/-- every token of a re-rendered method / function header is lexable -/
theorem c16_lexOk_methodToks (f : String) (ps : List RParam) (ret : Option Ann) (hf : identOk f = true)
    (hok : ∀ p ∈ ps, rparamOk p = true) (hret : optWf ret = true) :
    ∀ t ∈ methodToks f ps ret, tokLexOk t = true := by
  intro t ht
  simp only [methodToks, List.mem_cons, List.mem_append, List.not_mem_nil, or_false] at ht
  rcases ht with rfl | rfl | rfl | ht | rfl | ht | rfl | rfl
  · decide
  · exact c16_identChars_of_identOk hf
  · rfl
  · exact c16_lexOk_joinComma _ (c16_lexOk_sigItems ps false false hok) t ht
  · rfl
  · exact (c16_lexOk_optPart ret hret).2.2 t ht
  · rfl
  · rfl

end Typedpy.StubText
