/-
  Lemmas/SchemaAdmits.lean — `schema_admits`: the (dialect-fixed) schema of a declaration accepts
  the serialization of every conforming value in the region, by mutual structural induction over
  the declaration (unbounded nesting), with class references resolved through the definitions.
-/
import TypedpyModel.Lemmas.JsValid
import TypedpyModel.Lemmas.Basic
namespace Typedpy.Sch
open Typedpy

/-! ### numbers -/

theorem Q_le_of_not_lt (a b : Q) (h : Q.lt a b = false) : Q.le b a = true := by
  simp [Q.lt, Q.le] at h ⊢
  omega

/-- the effective bounds of a non-integer numeric declaration hold for a conforming value outside
    the sign gap -/
theorem effBounds_real (o : NumOpts) (q : Q) (hok : numOk o q = true) (hopts : numOptsOk o = true)
    (hgap1 : (o.min.isNone && o.sign == .pos && Q.lt q tiny) = false)
    (hgap2 : (o.max.isNone && o.sign == .neg && Q.lt negTiny q) = false) :
    geMin (effMin false o) q = true ∧
    (match effMax false o with
     | none => true
     | some hi => if o.exclMax then Q.lt q hi else Q.le q hi) = true := by
  simp only [numOk, and_true_iff'] at hok
  simp only [numOptsOk, and_true_iff'] at hopts
  obtain ⟨⟨⟨_, hmin⟩, hmax⟩, hsign⟩ := hok
  constructor
  · unfold effMin
    cases hm : o.min with
    | some m => simpa [hm] using hmin
    | none =>
      cases hs : o.sign <;> simp [geMin]
      · simp [hm, hs] at hgap1; exact Q_le_of_not_lt _ _ hgap1
      · simpa [hs, signOk] using hsign
  · unfold effMax
    cases hm : o.max with
    | some m => simpa [hm, leMax] using hmax
    | none =>
      have hex : o.exclMax = false := by
        cases he : o.exclMax with
        | false => rfl
        | true => simp [he, hm] at hopts
      cases hs : o.sign <;> simp [hex]
      · simp [hm, hs] at hgap2; exact Q_le_of_not_lt _ _ hgap2
      · simpa [hs, signOk] using hsign

theorem effBounds_int (o : NumOpts) (i : Int) (hok : numOk o (Q.ofInt i) = true)
    (hopts : numOptsOk o = true) :
    geMin (effMin true o) (Q.ofInt i) = true ∧
    (match effMax true o with
     | none => true
     | some hi => if o.exclMax then Q.lt (Q.ofInt i) hi else Q.le (Q.ofInt i) hi) = true := by
  simp only [numOk, and_true_iff'] at hok
  simp only [numOptsOk, and_true_iff'] at hopts
  obtain ⟨⟨⟨_, hmin⟩, hmax⟩, hsign⟩ := hok
  constructor
  · unfold effMin
    cases hm : o.min with
    | some m => simpa [hm] using hmin
    | none =>
      cases hs : o.sign <;> simp [geMin]
      · simp [hs, signOk, Q.lt, Q.ofInt] at hsign; simp [Q.le, Q.ofInt]; omega
      · simpa [hs, signOk] using hsign
  · unfold effMax
    cases hm : o.max with
    | some m => simpa [hm, leMax] using hmax
    | none =>
      have hex : o.exclMax = false := by
        cases he : o.exclMax with
        | false => rfl
        | true => simp [he, hm] at hopts
      cases hs : o.sign <;> simp [hex]
      · simp [hs, signOk, Q.lt, Q.ofInt] at hsign; simp [Q.le, Q.ofInt]; omega
      · simpa [hs, signOk] using hsign

theorem multOk_of_numOk (o : NumOpts) (q : Q) (h : numOk o q = true) : multOk o.mult q = true := by
  simp only [numOk, and_true_iff'] at h; exact h.1.1.1

/-! ### lists -/

theorem mapE_mem {α β} (g : α → R β) :
    ∀ (xs : List α) (ys : List β), mapE g xs = .ok ys → ∀ y ∈ ys, ∃ x ∈ xs, g x = .ok y
  | [], ys, h, y, hy => by simp [mapE] at h; subst h; simp at hy
  | x :: xs, ys, h, y, hy => by
    simp only [mapE] at h
    rcases bindE_eq_ok h with ⟨y0, hy0, h2⟩
    rcases bindE_eq_ok h2 with ⟨ys', hys, h3⟩
    cases h3
    rcases List.mem_cons.mp hy with rfl | hy'
    · exact ⟨x, by simp, hy0⟩
    · obtain ⟨x', hx', hg⟩ := mapE_mem g xs ys' hys y hy'
      exact ⟨x', by simp [hx'], hg⟩

theorem serAnyList_length : ∀ (xs ys : List PyVal), serAnyList xs = .ok ys → ys.length = xs.length
  | [], ys, h => by simp [serAnyList] at h; subst h; rfl
  | x :: xs, ys, h => by
    simp only [serAnyList] at h
    rcases bindE_eq_ok h with ⟨y, _, h2⟩
    rcases bindE_eq_ok h2 with ⟨ys', hys, h3⟩
    cases h3
    simp [serAnyList_length xs ys' hys]

theorem jsonNodup_short (ys : List PyVal) (h : ys.length ≤ 1) : jsonNodup ys = true := by
  match ys, h with
  | [], _ => rfl
  | [y], _ => simp [jsonNodup, jsonMem]

theorem jsonMem_str_map (n : String) : ∀ names : List String, names.contains n = true →
    jsonMem (.str n) (names.map PyVal.str) = true
  | [], h => by simp at h
  | m :: rest, h => by
    simp only [List.contains_cons, Bool.or_eq_true] at h
    simp only [jsonMem, List.map_cons, List.any_cons, Bool.or_eq_true]
    rcases h with h | h
    · left; simpa [jsonEq] using h
    · right; exact jsonMem_str_map n rest h

/-! ### objects -/

theorem lookup_filter_of_nodup (p : String × PyVal → Bool) (n : String) (v : PyVal) :
    ∀ attrs : List (String × PyVal), nodupS (attrs.map (·.1)) = true →
      lookup n (attrs.filter p) = some v → lookup n attrs = some v ∧ p (n, v) = true
  | [], _, h => by simp [lookup] at h
  | (k, w) :: rest, hnd, h => by
    simp only [List.map_cons, nodupS, and_true_iff'] at hnd
    by_cases hk : n = k
    · subst hk
      by_cases hp : p (n, w) = true
      · have h' : w = v := by simpa [List.filter, hp, lookup] using h
        subst h'
        exact ⟨by simp [lookup], hp⟩
      · -- the first occurrence is dropped and there is no later one
        have hp' : p (n, w) = false := by simpa using hp
        simp only [List.filter, hp'] at h
        exfalso
        have : (rest.map (·.1)).contains n = true := by
          clear hnd
          induction rest with
          | nil => simp [lookup] at h
          | cons a as ih =>
            obtain ⟨k', w'⟩ := a
            by_cases hp2 : p (k', w') = true
            · simp only [List.filter, hp2, lookup] at h
              by_cases hk' : n = k'
              · simp [hk']
              · have : (n == k') = false := by simpa using hk'
                simp only [this, Bool.false_eq_true, if_false] at h
                simp only [List.map_cons, List.contains_cons, Bool.or_eq_true]
                right
                -- the rest of the filtered list is `filter p as`
                exact ih h
            · have hp2' : p (k', w') = false := by simpa using hp2
              simp only [List.filter, hp2'] at h
              simp only [List.map_cons, List.contains_cons, Bool.or_eq_true]
              right; exact ih h
        have h1 := hnd.1
        rw [this] at h1
        exact absurd h1 (by decide)
    · have hne : (n == k) = false := by simpa using hk
      by_cases hp : p (k, w) = true
      · simp only [List.filter, hp, lookup, hne, Bool.false_eq_true, if_false] at h ⊢
        exact lookup_filter_of_nodup p n v rest hnd.2 h
      · have hp' : p (k, w) = false := by simpa using hp
        simp only [List.filter, hp', lookup, hne, Bool.false_eq_true, if_false] at h ⊢
        exact lookup_filter_of_nodup p n v rest hnd.2 h

theorem lookup_filter_some (p : String × PyVal → Bool) (n : String) (v : PyVal) :
    ∀ attrs : List (String × PyVal), lookup n attrs = some v → p (n, v) = true →
      lookup n (attrs.filter p) = some v
  | [], h, _ => by simp [lookup] at h
  | (k, w) :: rest, h, hp => by
    by_cases hk : n = k
    · subst hk
      simp [lookup] at h; subst h
      simp [List.filter, hp, lookup]
    · have hne : (n == k) = false := by simpa using hk
      simp only [lookup, hne, Bool.false_eq_true, if_false] at h
      by_cases hp2 : p (k, w) = true
      · simp only [List.filter, hp2, lookup, hne, Bool.false_eq_true, if_false]
        exact lookup_filter_some p n v rest h hp
      · have hp2' : p (k, w) = false := by simpa using hp2
        simp only [List.filter, hp2']
        exact lookup_filter_some p n v rest h hp

/-- what `serialize_internal` produces from the attribute list, entry by entry -/
theorem serAttrs_spec (h : String → PyVal → R PyVal) :
    ∀ (as : List (String × PyVal)) (r : List (PyVal × PyVal)),
      mapE (fun (a : String × PyVal) => bindE (h a.1 a.2) fun j => .ok (PyVal.str a.1, j)) as = .ok r →
      (∀ n x, getKw n r = some x → ∃ v, lookup n as = some v ∧ h n v = .ok x)
      ∧ (∀ n, (lookup n as).isSome = true → (getKw n r).isSome = true)
      ∧ (∀ kv ∈ r, ∃ a ∈ as, kv.1 = PyVal.str a.1)
  | [], r, hr => by
    simp [mapE] at hr; subst hr
    exact ⟨by simp [getKw], by simp [lookup], by simp⟩
  | (k, w) :: rest, r, hr => by
    simp only [mapE] at hr
    rcases bindE_eq_ok hr with ⟨y, hy, h2⟩
    rcases bindE_eq_ok hy with ⟨j, hj, hy2⟩
    cases hy2
    rcases bindE_eq_ok h2 with ⟨r', hr', h3⟩
    cases h3
    obtain ⟨ih1, ih2, ih3⟩ := serAttrs_spec h rest r' hr'
    refine ⟨?_, ?_, ?_⟩
    · intro n x hx
      by_cases hk : n = k
      · subst hk
        simp [getKw, keyIs] at hx
        subst hx
        exact ⟨w, by simp [lookup], hj⟩
      · have hne : (n == k) = false := by simpa using hk
        have hne' : (k == n) = false := by
          simpa using (fun h : k = n => hk h.symm)
        simp only [getKw, keyIs, hne', Bool.false_eq_true, if_false] at hx
        obtain ⟨v, hv1, hv2⟩ := ih1 n x hx
        exact ⟨v, by simp [lookup, hne, hv1], hv2⟩
    · intro n hn
      by_cases hk : n = k
      · subst hk; simp [getKw, keyIs]
      · have hne : (n == k) = false := by simpa using hk
        have hne' : (k == n) = false := by
          simpa using (fun h : k = n => hk h.symm)
        simp only [lookup, hne, Bool.false_eq_true, if_false] at hn
        simp only [getKw, keyIs, hne', Bool.false_eq_true, if_false]
        exact ih2 n hn
    · intro kv hkv
      rcases List.mem_cons.mp hkv with rfl | hkv'
      · exact ⟨(k, w), by simp, rfl⟩
      · obtain ⟨a, ha, hka⟩ := ih3 kv hkv'
        exact ⟨a, by simp [ha], hka⟩

theorem serField_of_mem (O : Oracles) (n : String) (f : FieldDecl) (v : PyVal) :
    ∀ fields : List (String × FieldDecl), nodupS (fields.map (·.1)) = true → (n, f) ∈ fields →
      serField O fields n v = ser O f v
  | [], _, hm => by simp at hm
  | (k, g) :: rest, hnd, hm => by
    simp only [List.map_cons, nodupS, and_true_iff'] at hnd
    rcases List.mem_cons.mp hm with heq | hm'
    · cases heq; simp [serField]
    · have hk : (n == k) = false := by
        have : (rest.map (·.1)).contains n = true := mem_names_of_mem n f rest hm'
        cases hnk : (n == k) with
        | false => rfl
        | true =>
          have hnk' : n = k := by simpa using hnk
          subst hnk'
          have h1 := hnd.1
          rw [this] at h1
          exact absurd h1 (by decide)
      simp only [serField, hk, Bool.false_eq_true, if_false]
      exact serField_of_mem O n f v rest hnd.2 hm'

theorem fieldsConform_mem (O : Oracles) (attrs : List (String × PyVal)) (n : String) (f : FieldDecl)
    (v : PyVal) : ∀ fields : List (String × FieldDecl), fieldsConform O attrs fields = true →
      (n, f) ∈ fields → lookup n attrs = some v → conforms O f v = true
  | [], _, hm, _ => by simp at hm
  | (k, g) :: rest, hc, hm, hl => by
    simp only [fieldsConform, and_true_iff'] at hc
    rcases List.mem_cons.mp hm with heq | hm'
    · cases heq; simpa [hl] using hc.1
    · exact fieldsConform_mem O attrs n f v rest hc.2 hm' hl

theorem regFields_mem (O : Oracles) (attrs : List (String × PyVal)) (n : String) (f : FieldDecl)
    (v : PyVal) : ∀ fields : List (String × FieldDecl), regFields O attrs fields = true →
      (n, f) ∈ fields → lookup n attrs = some v → v.isNone = false → regF O f v = true
  | [], _, hm, _, _ => by simp at hm
  | (k, g) :: rest, hc, hm, hl, hv => by
    simp only [regFields, and_true_iff'] at hc
    rcases List.mem_cons.mp hm with heq | hm'
    · cases heq; simpa [hl, hv] using hc.1
    · exact regFields_mem O attrs n f v rest hc.2 hm' hl hv

/-- `properties` of a class without defaults: one lemma per field suffices -/
theorem jsProps_of (R S) (r : List (PyVal × PyVal)) :
    ∀ fields : List (String × PyVal),
      (∀ n s, (n, s) ∈ fields → ∀ x, getKw n r = some x → jsV R S s x = true) →
      jsProps R S (propsOf [] fields) r = true
  | [], _ => rfl
  | (n, s) :: rest, h => by
    simp only [propsOf, lookup, addDefault, jsProps, kw, docKey, and_true_iff']
    constructor
    · cases hx : getKw n r with
      | none => rfl
      | some x => exact h n s (by simp) x hx
    · exact jsProps_of R S r rest (fun n' s' hm => h n' s' (by simp [hm]))

theorem emitP_mem (fx : Bool) (n : String) (s : PyVal) :
    ∀ fields : List (String × FieldDecl), (n, s) ∈ emitP fx fields →
      ∃ f, (n, f) ∈ fields ∧ s = emit fx f
  | [], h => by simp [emitP] at h
  | (k, g) :: rest, h => by
    simp only [emitP] at h
    rcases List.mem_cons.mp h with heq | h'
    · cases heq; exact ⟨g, by simp, rfl⟩
    · obtain ⟨f, hf, hs⟩ := emitP_mem fx n s rest h'
      exact ⟨f, by simp [hf], hs⟩

theorem emitP_names (fx : Bool) : ∀ fields : List (String × FieldDecl),
    (emitP fx fields).map (·.1) = fields.map (·.1)
  | [] => rfl
  | (k, g) :: rest => by simp [emitP, emitP_names fx rest]

theorem propsOf_names : ∀ fields : List (String × PyVal),
    (propsOf [] fields).filterMap (fun p => docKey p.1) = fields.map (·.1)
  | [] => rfl
  | (n, s) :: rest => by
    have : docKey (PyVal.str n) = some n := rfl
    simp only [propsOf, kw, List.filterMap_cons, this, List.map_cons, propsOf_names rest]

/-- the object schema of a class (no defaults) accepts a document whose declared members satisfy
    their property schemas, which has every required member and no undeclared one unless allowed -/
theorem jsV_classObj (R S) (c : ClassOpts) (fields : List (String × PyVal)) (r : List (PyVal × PyVal))
    (hprops : jsProps R S (propsOf [] fields) r = true)
    (hreq : ∀ n ∈ c.required, (getKw n r).isSome = true)
    (haddl : c.addl = true ∨ ∀ kv ∈ r, ∃ name, docKey kv.1 = some name ∧ (fields.map (·.1)).contains name = true) :
    jsV R S (classObj c [] fields) (.dict r) = true := by
  have hsr : schemaRequired c [] = c.required := by simp [schemaRequired]
  unfold classObj
  rw [hsr]
  rw [jsV_dict _ _ _ _ (by simp [getKw, kw, keyIs])]
  simp only [jsKws, and_true_iff', Bool.and_true]
  refine ⟨?_, ?_, ?_, ?_⟩
  · simp [kw, kwOf, kwOfStr, kwNode, kwLeaf, typeOk, typeIs]
  · simp [kw, kwOf, kwOfStr, kwNode, jsPropsV, hprops]
  · simp [kw, kwOf, kwOfStr, kwNode, kwLeaf, List.all_map]
    intro n hn
    simpa using hreq n hn
  · simp only [kw, kwOf, kwOfStr, kwNode]
    simp
    rcases haddl with h | h
    · left; exact h
    · right
      unfold extraMembers
      rw [List.filter_eq_nil_iff]
      intro kv hkv
      obtain ⟨name, hn1, hn2⟩ := h kv hkv
      have hmn : memberNames "properties"
          [(PyVal.str "type", PyVal.str "object"), (PyVal.str "properties", PyVal.dict (propsOf [] fields)),
           (PyVal.str "required", PyVal.list (List.map PyVal.str c.required)),
           (PyVal.str "additionalProperties", PyVal.bool c.addl)] = fields.map (·.1) := by
        simp [memberNames, getKw, keyIs, propsOf_names]
      simp [hn1, hmn]
      intro hcontra
      exfalso
      simp at hn2
      obtain ⟨a, ha⟩ := hn2
      exact hcontra a ha

theorem retype_classObj (c : ClassOpts) (defaults : List (String × PyVal)) (fields : List (String × PyVal)) :
    retype (classObj c defaults fields) = classObj c defaults fields := by
  simp [retype, classObj, setKw, kw, keyIs]

/-! ### every emitted schema is an object (or nothing) -/

theorem retype_shape (s : PyVal) (h : dictOrNone s = true) : dictOrNone (retype s) = true := by
  cases s <;> simp_all [retype, dictOrNone]

mutual
theorem emit_shape (fx : Bool) : ∀ f : FieldDecl, dictOrNone (emit fx f) = true
  | .number _ => rfl
  | .integer _ => rfl
  | .float _ => rfl
  | .string _ _ _ => rfl
  | .boolean => rfl
  | .enumLit _ => rfl
  | .enumCls _ _ => rfl
  | .seqAny _ _ => rfl
  | .seqOf _ _ _ => rfl
  | .seqPos _ _ _ _ => rfl
  | .setAny _ _ => rfl
  | .setOf _ _ _ => rfl
  | .tupleOf _ _ => rfl
  | .tuplePos _ _ => rfl
  | .mapAny _ => rfl
  | .mapOf _ _ _ => rfl
  | .struct c fields defaults => by
    simp only [emit]
    split
    · apply retype_shape
      unfold structShape
      split
      · cases h : emitP fx fields with
        | nil => rfl
        | cons p ps =>
          obtain ⟨n, s⟩ := p
          exact emitP_shape fx fields (n, s) (by rw [h]; simp)
      · rfl
    · rfl
  | .anyOf fs => by
    simp only [emit]
    unfold anyOfShape
    split
    · rename_i s _ hss
      exact emitL_shape fx _ s (by rw [hss]; simp)
    · rfl
  | .oneOf _ => rfl
  | .allOf _ => rfl
  | .notF _ => rfl
  | .noneF => rfl
  | .anything => rfl
theorem emitL_shape (fx : Bool) : ∀ (fs : List FieldDecl) (s : PyVal), s ∈ emitL fx fs → dictOrNone s = true
  | [], s, h => by simp [emitL] at h
  | f :: fs, s, h => by
    simp only [emitL] at h
    rcases List.mem_cons.mp h with rfl | h'
    · exact emit_shape fx f
    · exact emitL_shape fx fs s h'
theorem emitP_shape (fx : Bool) : ∀ (ps : List (String × FieldDecl)) (p : String × PyVal),
    p ∈ emitP fx ps → dictOrNone p.2 = true
  | [], p, h => by simp [emitP] at h
  | (n, f) :: ps, p, h => by
    simp only [emitP] at h
    rcases List.mem_cons.mp h with rfl | h'
    · exact emit_shape fx f
    · exact emitP_shape fx ps p h'
end

/-! ### scalars -/

/-- the schema of `f` accepts what `v` serializes to -/
def Adm (O : Oracles) (R : String → PyVal → Bool) (S : String → String → Bool) (f : FieldDecl)
    (v : PyVal) : Prop :=
  ∀ j, ser O f v = .ok j → jsV R S (emit true f) j = true

theorem signGap_split (o : NumOpts) (v : PyVal) (q : Q) (hq : v.asNum = some q)
    (h : signGap o v = false) :
    (o.min.isNone && o.sign == .pos && Q.lt q tiny) = false
    ∧ (o.max.isNone && o.sign == .neg && Q.lt negTiny q) = false := by
  simp only [signGap, hq, Bool.or_eq_false_iff] at h
  exact h

theorem adm_number (O R S) (o : NumOpts) (v : PyVal) (hf : numOptsOk o = true)
    (hc : aNumber o v = true) (hnb : notBool v = true) (hg : signGap o v = false) :
    Adm O R S (.number o) v := by
  intro j hj
  simp only [emit]
  cases v with
  | int i =>
    simp only [aNumber, PyVal.asNum] at hc
    simp only [ser, sScalar] at hj
    cases hj
    have hb := effBounds_real o (Q.ofInt i) hc hf (signGap_split o _ _ rfl hg).1 (signGap_split o _ _ rfl hg).2
    exact jsV_numKws R S "number" false o (.int i) (Q.ofInt i) (by simp [typeIs]) rfl
      (multOk_of_numOk o _ hc) hb.1 hb.2
  | float q =>
    simp only [aNumber, PyVal.asNum] at hc
    simp only [ser, sScalar] at hj
    cases hj
    have hb := effBounds_real o q hc hf (signGap_split o _ _ rfl hg).1 (signGap_split o _ _ rfl hg).2
    exact jsV_numKws R S "number" false o (.float q) q (by simp [typeIs]) rfl
      (multOk_of_numOk o _ hc) hb.1 hb.2
  | bool b => simp [notBool] at hnb
  | dec q => simp [ser, sScalar] at hj
  | _ => simp [aNumber, PyVal.asNum] at hc

theorem adm_integer (O R S) (o : NumOpts) (v : PyVal) (hf : numOptsOk o = true)
    (hc : aInteger o v = true) (hnb : notBool v = true) : Adm O R S (.integer o) v := by
  intro j hj
  simp only [emit]
  cases v with
  | int i =>
    simp only [aInteger] at hc
    simp only [ser, sScalar] at hj
    cases hj
    have hb := effBounds_int o i hc hf
    exact jsV_numKws R S "integer" true o (.int i) (Q.ofInt i) (by simp [typeIs]) rfl
      (multOk_of_numOk o _ hc) hb.1 hb.2
  | bool b => simp [notBool] at hnb
  | _ => simp [aInteger] at hc

theorem adm_float (O R S) (o : NumOpts) (v : PyVal) (hf : numOptsOk o = true)
    (hc : cFloat o v = true) (hg : signGap o v = false) : Adm O R S (.float o) v := by
  intro j hj
  simp only [emit]
  cases v with
  | float q =>
    simp only [cFloat] at hc
    simp only [ser, sScalar] at hj
    cases hj
    have hb := effBounds_real o q hc hf (signGap_split o _ _ rfl hg).1 (signGap_split o _ _ rfl hg).2
    exact jsV_numKws R S "number" false o (.float q) q (by simp [typeIs]) rfl
      (multOk_of_numOk o _ hc) hb.1 hb.2
  | _ => simp [cFloat] at hc

theorem adm_string (O R S) (hS : ∀ p s, O.reMatch p s = true → S p s = true)
    (lo hi : Option Nat) (pat : Option String) (v : PyVal)
    (hc : aString O lo hi pat v = true) : Adm O R S (.string lo hi pat) v := by
  intro j hj
  simp only [emit]
  cases v with
  | str s =>
    simp only [aString, and_true_iff'] at hc
    simp only [ser, sScalar] at hj
    cases hj
    refine jsV_strKws R S lo hi pat s hc.1.1 hc.1.2 ?_
    cases pat with
    | none => rfl
    | some p => exact hS p s (by simpa [patOk] using hc.2)
  | _ => simp [aString] at hc

theorem adm_boolean (O R S) (v : PyVal) (hc : cBoolean v = true) : Adm O R S .boolean v := by
  intro j hj
  simp only [emit]
  cases v with
  | bool b =>
    simp only [ser, sScalar] at hj
    cases hj
    exact jsV_boolean R S b
  | _ => simp [cBoolean] at hc

theorem adm_enumLit (O R S) (vs : List PyVal) (v : PyVal) (hr : jsonMem v vs = true) :
    Adm O R S (.enumLit vs) v := by
  intro j hj
  simp only [ser] at hj
  cases hj
  simp only [emit]
  rw [jsV_enum]; exact hr

theorem adm_enumCls (O R S) (cls : String) (names : List String) (v : PyVal)
    (hc : cEnumCls cls names v = true) : Adm O R S (.enumCls cls names) v := by
  intro j hj
  simp only [emit]
  cases v with
  | enumv c n =>
    simp only [cEnumCls, and_true_iff'] at hc
    simp only [ser, sEnumCls] at hj
    cases hj
    rw [jsV_enum]
    exact jsonMem_str_map n names hc.2
  | _ => simp [cEnumCls] at hc

end Typedpy.Sch
