/-
  Lemmas/SchemaAdmits.lean — `schema_admits`: the (dialect-fixed) schema of a declaration accepts
  the serialization of every conforming value in the region, by mutual structural induction over
  the declaration (unbounded nesting), with class references resolved through the definitions.
-/
import TypedpyModel.Lemmas.JsValid
import TypedpyModel.Lemmas.Basic
namespace Typedpy.Sch
open Typedpy

/-! ### numbers -/

theorem Q_le_of_not_lt (a b : Q) (h : Q.lt a b = false) : Q.le b a = true := by
  simp [Q.lt, Q.le] at h ⊢
  omega

/-- the effective bounds of a non-integer numeric declaration hold for a conforming value outside
    the sign gap -/
theorem effBounds_real (o : NumOpts) (q : Q) (hok : numOk o q = true)
    (hgap1 : (o.min.isNone && o.sign == .pos && Q.lt q tiny) = false)
    (hgap2 : (o.max.isNone && o.sign == .neg && Q.lt negTiny q) = false) :
    geMin (effMin false o) q = true ∧
    (match effMax false o with
     | none => true
     | some hi => if exclEff o then Q.lt q hi else Q.le q hi) = true := by
  simp only [numOk, and_true_iff'] at hok
  obtain ⟨⟨⟨_, hmin⟩, hmax⟩, hsign⟩ := hok
  constructor
  · unfold effMin
    cases hm : o.min with
    | some m => simpa [hm] using hmin
    | none =>
      cases hs : o.sign <;> simp [geMin]
      · simp [hm, hs] at hgap1; exact Q_le_of_not_lt _ _ hgap1
      · simpa [hs, signOk] using hsign
  · unfold effMax
    cases hm : o.max with
    | some m => simpa [hm, leMax, exclEff] using hmax
    | none =>
      cases hs : o.sign <;> simp [exclEff, hm]
      · simp [hm, hs] at hgap2; exact Q_le_of_not_lt _ _ hgap2
      · simpa [hs, signOk] using hsign

theorem effBounds_int (o : NumOpts) (i : Int) (hok : numOk o (Q.ofInt i) = true) :
    geMin (effMin true o) (Q.ofInt i) = true ∧
    (match effMax true o with
     | none => true
     | some hi => if exclEff o then Q.lt (Q.ofInt i) hi else Q.le (Q.ofInt i) hi) = true := by
  simp only [numOk, and_true_iff'] at hok
  obtain ⟨⟨⟨_, hmin⟩, hmax⟩, hsign⟩ := hok
  constructor
  · unfold effMin
    cases hm : o.min with
    | some m => simpa [hm] using hmin
    | none =>
      cases hs : o.sign <;> simp [geMin]
      · simp [hs, signOk, Q.lt, Q.ofInt] at hsign; simp [Q.le, Q.ofInt]; omega
      · simpa [hs, signOk] using hsign
  · unfold effMax
    cases hm : o.max with
    | some m => simpa [hm, leMax, exclEff] using hmax
    | none =>
      cases hs : o.sign <;> simp [exclEff, hm]
      · simp [hs, signOk, Q.lt, Q.ofInt] at hsign; simp [Q.le, Q.ofInt]; omega
      · simpa [hs, signOk] using hsign

theorem multOk_of_numOk (o : NumOpts) (q : Q) (h : numOk o q = true) : multOk o.mult q = true := by
  simp only [numOk, and_true_iff'] at h; exact h.1.1.1

/-! ### lists -/

theorem mapE_mem {α β} (g : α → R β) :
    ∀ (xs : List α) (ys : List β), mapE g xs = .ok ys → ∀ y ∈ ys, ∃ x ∈ xs, g x = .ok y
  | [], ys, h, y, hy => by simp [mapE] at h; subst h; simp at hy
  | x :: xs, ys, h, y, hy => by
    simp only [mapE] at h
    rcases bindE_eq_ok h with ⟨y0, hy0, h2⟩
    rcases bindE_eq_ok h2 with ⟨ys', hys, h3⟩
    cases h3
    rcases List.mem_cons.mp hy with rfl | hy'
    · exact ⟨x, by simp, hy0⟩
    · obtain ⟨x', hx', hg⟩ := mapE_mem g xs ys' hys y hy'
      exact ⟨x', by simp [hx'], hg⟩

theorem serAnyList_length : ∀ (xs ys : List PyVal), serAnyList xs = .ok ys → ys.length = xs.length
  | [], ys, h => by simp [serAnyList] at h; subst h; rfl
  | x :: xs, ys, h => by
    simp only [serAnyList] at h
    rcases bindE_eq_ok h with ⟨y, _, h2⟩
    rcases bindE_eq_ok h2 with ⟨ys', hys, h3⟩
    cases h3
    simp [serAnyList_length xs ys' hys]

theorem jsonNodup_short (ys : List PyVal) (h : ys.length ≤ 1) : jsonNodup ys = true := by
  match ys, h with
  | [], _ => rfl
  | [y], _ => simp [jsonNodup, jsonMem]

theorem jsonMem_str_map (n : String) : ∀ names : List String, names.contains n = true →
    jsonMem (.str n) (names.map PyVal.str) = true
  | [], h => by simp at h
  | m :: rest, h => by
    simp only [List.contains_cons, Bool.or_eq_true] at h
    simp only [jsonMem, List.map_cons, List.any_cons, Bool.or_eq_true]
    rcases h with h | h
    · left; simpa [jsonEq] using h
    · right; exact jsonMem_str_map n rest h

/-! ### objects -/

theorem lookup_filter_of_nodup (p : String × PyVal → Bool) (n : String) (v : PyVal) :
    ∀ attrs : List (String × PyVal), nodupS (attrs.map (·.1)) = true →
      lookup n (attrs.filter p) = some v → lookup n attrs = some v ∧ p (n, v) = true
  | [], _, h => by simp [lookup] at h
  | (k, w) :: rest, hnd, h => by
    simp only [List.map_cons, nodupS, and_true_iff'] at hnd
    by_cases hk : n = k
    · subst hk
      by_cases hp : p (n, w) = true
      · have h' : w = v := by simpa [List.filter, hp, lookup] using h
        subst h'
        exact ⟨by simp [lookup], hp⟩
      · -- the first occurrence is dropped and there is no later one
        have hp' : p (n, w) = false := by simpa using hp
        simp only [List.filter, hp'] at h
        exfalso
        have : (rest.map (·.1)).contains n = true := by
          clear hnd
          induction rest with
          | nil => simp [lookup] at h
          | cons a as ih =>
            obtain ⟨k', w'⟩ := a
            by_cases hp2 : p (k', w') = true
            · simp only [List.filter, hp2, lookup] at h
              by_cases hk' : n = k'
              · simp [hk']
              · have : (n == k') = false := by simpa using hk'
                simp only [this, Bool.false_eq_true, if_false] at h
                simp only [List.map_cons, List.contains_cons, Bool.or_eq_true]
                right
                -- the rest of the filtered list is `filter p as`
                exact ih h
            · have hp2' : p (k', w') = false := by simpa using hp2
              simp only [List.filter, hp2'] at h
              simp only [List.map_cons, List.contains_cons, Bool.or_eq_true]
              right; exact ih h
        have h1 := hnd.1
        rw [this] at h1
        exact absurd h1 (by decide)
    · have hne : (n == k) = false := by simpa using hk
      by_cases hp : p (k, w) = true
      · simp only [List.filter, hp, lookup, hne, Bool.false_eq_true, if_false] at h ⊢
        exact lookup_filter_of_nodup p n v rest hnd.2 h
      · have hp' : p (k, w) = false := by simpa using hp
        simp only [List.filter, hp', lookup, hne, Bool.false_eq_true, if_false] at h ⊢
        exact lookup_filter_of_nodup p n v rest hnd.2 h

theorem lookup_filter_some (p : String × PyVal → Bool) (n : String) (v : PyVal) :
    ∀ attrs : List (String × PyVal), lookup n attrs = some v → p (n, v) = true →
      lookup n (attrs.filter p) = some v
  | [], h, _ => by simp [lookup] at h
  | (k, w) :: rest, h, hp => by
    by_cases hk : n = k
    · subst hk
      simp [lookup] at h; subst h
      simp [List.filter, hp, lookup]
    · have hne : (n == k) = false := by simpa using hk
      simp only [lookup, hne, Bool.false_eq_true, if_false] at h
      by_cases hp2 : p (k, w) = true
      · simp only [List.filter, hp2, lookup, hne, Bool.false_eq_true, if_false]
        exact lookup_filter_some p n v rest h hp
      · have hp2' : p (k, w) = false := by simpa using hp2
        simp only [List.filter, hp2']
        exact lookup_filter_some p n v rest h hp

/-- what `serialize_internal` produces from the attribute list, entry by entry -/
theorem serAttrs_spec (h : String → PyVal → R PyVal) :
    ∀ (as : List (String × PyVal)) (r : List (PyVal × PyVal)),
      mapE (fun (a : String × PyVal) => bindE (h a.1 a.2) fun j => .ok (PyVal.str a.1, j)) as = .ok r →
      (∀ n x, getKw n r = some x → ∃ v, lookup n as = some v ∧ h n v = .ok x)
      ∧ (∀ n, (lookup n as).isSome = true → (getKw n r).isSome = true)
      ∧ (∀ kv ∈ r, ∃ a ∈ as, kv.1 = PyVal.str a.1)
  | [], r, hr => by
    simp [mapE] at hr; subst hr
    exact ⟨by simp [getKw], by simp [lookup], by simp⟩
  | (k, w) :: rest, r, hr => by
    simp only [mapE] at hr
    rcases bindE_eq_ok hr with ⟨y, hy, h2⟩
    rcases bindE_eq_ok hy with ⟨j, hj, hy2⟩
    cases hy2
    rcases bindE_eq_ok h2 with ⟨r', hr', h3⟩
    cases h3
    obtain ⟨ih1, ih2, ih3⟩ := serAttrs_spec h rest r' hr'
    refine ⟨?_, ?_, ?_⟩
    · intro n x hx
      by_cases hk : n = k
      · subst hk
        simp [getKw, keyIs] at hx
        subst hx
        exact ⟨w, by simp [lookup], hj⟩
      · have hne : (n == k) = false := by simpa using hk
        have hne' : (k == n) = false := by
          simpa using (fun h : k = n => hk h.symm)
        simp only [getKw, keyIs, hne', Bool.false_eq_true, if_false] at hx
        obtain ⟨v, hv1, hv2⟩ := ih1 n x hx
        exact ⟨v, by simp [lookup, hne, hv1], hv2⟩
    · intro n hn
      by_cases hk : n = k
      · subst hk; simp [getKw, keyIs]
      · have hne : (n == k) = false := by simpa using hk
        have hne' : (k == n) = false := by
          simpa using (fun h : k = n => hk h.symm)
        simp only [lookup, hne, Bool.false_eq_true, if_false] at hn
        simp only [getKw, keyIs, hne', Bool.false_eq_true, if_false]
        exact ih2 n hn
    · intro kv hkv
      rcases List.mem_cons.mp hkv with rfl | hkv'
      · exact ⟨(k, w), by simp, rfl⟩
      · obtain ⟨a, ha, hka⟩ := ih3 kv hkv'
        exact ⟨a, by simp [ha], hka⟩

theorem serField_of_mem (O : Oracles) (n : String) (f : FieldDecl) (v : PyVal) :
    ∀ fields : List (String × FieldDecl), nodupS (fields.map (·.1)) = true → (n, f) ∈ fields →
      serField O fields n v = ser O f v
  | [], _, hm => by simp at hm
  | (k, g) :: rest, hnd, hm => by
    simp only [List.map_cons, nodupS, and_true_iff'] at hnd
    rcases List.mem_cons.mp hm with heq | hm'
    · cases heq; simp [serField]
    · have hk : (n == k) = false := by
        have : (rest.map (·.1)).contains n = true := mem_names_of_mem n f rest hm'
        cases hnk : (n == k) with
        | false => rfl
        | true =>
          have hnk' : n = k := by simpa using hnk
          subst hnk'
          have h1 := hnd.1
          rw [this] at h1
          exact absurd h1 (by decide)
      simp only [serField, hk, Bool.false_eq_true, if_false]
      exact serField_of_mem O n f v rest hnd.2 hm'

theorem fieldsConform_mem (O : Oracles) (attrs : List (String × PyVal)) (n : String) (f : FieldDecl)
    (v : PyVal) : ∀ fields : List (String × FieldDecl), fieldsConform O attrs fields = true →
      (n, f) ∈ fields → lookup n attrs = some v → conforms O f v = true
  | [], _, hm, _ => by simp at hm
  | (k, g) :: rest, hc, hm, hl => by
    simp only [fieldsConform, and_true_iff'] at hc
    rcases List.mem_cons.mp hm with heq | hm'
    · cases heq; simpa [hl] using hc.1
    · exact fieldsConform_mem O attrs n f v rest hc.2 hm' hl

theorem regFields_mem (O : Oracles) (attrs : List (String × PyVal)) (n : String) (f : FieldDecl)
    (v : PyVal) : ∀ fields : List (String × FieldDecl), regFields O attrs fields = true →
      (n, f) ∈ fields → lookup n attrs = some v → v.isNone = false → regF O f v = true
  | [], _, hm, _, _ => by simp at hm
  | (k, g) :: rest, hc, hm, hl, hv => by
    simp only [regFields, and_true_iff'] at hc
    rcases List.mem_cons.mp hm with heq | hm'
    · cases heq; simpa [hl, hv] using hc.1
    · exact regFields_mem O attrs n f v rest hc.2 hm' hl hv

/-- `properties` of a class (a `default` written into a property schema is ignored by the validator):
    one lemma per field suffices -/
theorem jsProps_of (R S) (defaults : List (String × PyVal)) (r : List (PyVal × PyVal)) :
    ∀ fields : List (String × PyVal),
      (∀ n s, (n, s) ∈ fields → ∀ x, getKw n r = some x → jsV R S s x = true) →
      jsProps R S (propsOf defaults fields) r = true
  | [], _ => rfl
  | (n, s) :: rest, h => by
    simp only [propsOf, jsProps, kw, docKey, and_true_iff']
    constructor
    · cases hx : getKw n r with
      | none => rfl
      | some x => simp only [c08_jsV_addDefault]; exact h n s (by simp) x hx
    · exact jsProps_of R S defaults r rest (fun n' s' hm => h n' s' (by simp [hm]))

theorem emitP_mem (fx : Bool) (n : String) (s : PyVal) :
    ∀ fields : List (String × FieldDecl), (n, s) ∈ emitP fx fields →
      ∃ f, (n, f) ∈ fields ∧ s = emit fx f
  | [], h => by simp [emitP] at h
  | (k, g) :: rest, h => by
    simp only [emitP] at h
    rcases List.mem_cons.mp h with heq | h'
    · cases heq; exact ⟨g, by simp, rfl⟩
    · obtain ⟨f, hf, hs⟩ := emitP_mem fx n s rest h'
      exact ⟨f, by simp [hf], hs⟩

theorem emitP_names (fx : Bool) : ∀ fields : List (String × FieldDecl),
    (emitP fx fields).map (·.1) = fields.map (·.1)
  | [] => rfl
  | (k, g) :: rest => by simp [emitP, emitP_names fx rest]

theorem propsOf_names (defaults : List (String × PyVal)) : ∀ fields : List (String × PyVal),
    (propsOf defaults fields).filterMap (fun p => docKey p.1) = fields.map (·.1)
  | [] => rfl
  | (n, s) :: rest => by
    have : docKey (PyVal.str n) = some n := rfl
    simp only [propsOf, kw, List.filterMap_cons, this, List.map_cons, propsOf_names defaults rest]

/-- the object schema of a class (no defaults) accepts a document whose declared members satisfy
    their property schemas, which has every required member and no undeclared one unless allowed -/
theorem jsV_classObj (R S) (c : ClassOpts) (defaults : List (String × PyVal)) (fields : List (String × PyVal))
    (r : List (PyVal × PyVal))
    (hprops : jsProps R S (propsOf defaults fields) r = true)
    (hreq : ∀ n ∈ schemaRequired c defaults, (getKw n r).isSome = true)
    (haddl : c.addl = true ∨ ∀ kv ∈ r, ∃ name, docKey kv.1 = some name ∧ (fields.map (·.1)).contains name = true) :
    jsV R S (classObj c defaults fields) (.dict r) = true := by
  unfold classObj
  generalize schemaRequired c defaults = req at hreq ⊢
  rw [jsV_dict _ _ _ _ (by simp [getKw, kw, keyIs])]
  simp only [jsKws, and_true_iff', Bool.and_true]
  refine ⟨?_, ?_, ?_, ?_⟩
  · simp [kw, kwOf, kwOfStr, kwNode, kwLeaf, typeOk, typeIs]
  · simp [kw, kwOf, kwOfStr, kwNode, jsPropsV, hprops]
  · simp [kw, kwOf, kwOfStr, kwNode, kwLeaf, List.all_map]
    intro n hn
    simpa using hreq n hn
  · simp only [kw, kwOf, kwOfStr, kwNode]
    simp
    rcases haddl with h | h
    · left; exact h
    · right
      unfold extraMembers
      rw [List.filter_eq_nil_iff]
      intro kv hkv
      obtain ⟨name, hn1, hn2⟩ := h kv hkv
      have hmn : memberNames "properties"
          [(PyVal.str "type", PyVal.str "object"), (PyVal.str "properties", PyVal.dict (propsOf defaults fields)),
           (PyVal.str "required", PyVal.list (List.map PyVal.str req)),
           (PyVal.str "additionalProperties", PyVal.bool c.addl)] = fields.map (·.1) := by
        simp [memberNames, getKw, keyIs, propsOf_names]
      simp [hn1, hmn]
      intro hcontra
      exfalso
      simp at hn2
      obtain ⟨a, ha⟩ := hn2
      exact hcontra a ha

theorem retype_classObj (c : ClassOpts) (defaults : List (String × PyVal)) (fields : List (String × PyVal)) :
    retype (classObj c defaults fields) = classObj c defaults fields := by
  simp [retype, classObj, setKw, kw, keyIs]

/-! ### every emitted schema is an object (or nothing) -/

theorem retype_shape (s : PyVal) (h : dictOrNone s = true) : dictOrNone (retype s) = true := by
  cases s <;> simp_all [retype, dictOrNone]

mutual
theorem emit_shape (fx : Bool) : ∀ f : FieldDecl, dictOrNone (emit fx f) = true
  | .number _ => rfl
  | .integer _ => rfl
  | .float _ => rfl
  | .string _ _ _ => rfl
  | .boolean => rfl
  | .enumLit _ => rfl
  | .enumCls _ _ => rfl
  | .seqAny _ _ => rfl
  | .seqOf _ _ _ => rfl
  | .seqPos _ _ _ _ => rfl
  | .setAny _ _ => rfl
  | .setOf _ _ _ => rfl
  | .tupleOf _ _ => rfl
  | .tuplePos _ _ => rfl
  | .mapAny _ => rfl
  | .mapOf _ _ _ => rfl
  | .struct c fields defaults => by
    simp only [emit]
    split
    · rw [retype_classObj]; rfl
    · rfl
  | .anyOf fs => by
    simp only [emit]
    unfold anyOfShape
    split
    · rename_i s _ hss
      exact emitL_shape fx _ s (by rw [hss]; simp)
    · rfl
  | .oneOf _ => rfl
  | .allOf _ => rfl
  | .notF _ => rfl
  | .noneF => rfl
  | .anything => rfl
theorem emitL_shape (fx : Bool) : ∀ (fs : List FieldDecl) (s : PyVal), s ∈ emitL fx fs → dictOrNone s = true
  | [], s, h => by simp [emitL] at h
  | f :: fs, s, h => by
    simp only [emitL] at h
    rcases List.mem_cons.mp h with rfl | h'
    · exact emit_shape fx f
    · exact emitL_shape fx fs s h'
theorem emitP_shape (fx : Bool) : ∀ (ps : List (String × FieldDecl)) (p : String × PyVal),
    p ∈ emitP fx ps → dictOrNone p.2 = true
  | [], p, h => by simp [emitP] at h
  | (n, f) :: ps, p, h => by
    simp only [emitP] at h
    rcases List.mem_cons.mp h with rfl | h'
    · exact emit_shape fx f
    · exact emitP_shape fx ps p h'
end

/-! ### scalars -/

/-- the schema of `f` accepts what `v` serializes to -/
def Adm (O : Oracles) (R : String → PyVal → Bool) (S : String → String → Bool) (f : FieldDecl)
    (v : PyVal) : Prop :=
  ∀ j, ser O f v = .ok j → jsV R S (emit true f) j = true

theorem signGap_split (o : NumOpts) (v : PyVal) (q : Q) (hq : v.asNum = some q)
    (h : signGap o v = false) :
    (o.min.isNone && o.sign == .pos && Q.lt q tiny) = false
    ∧ (o.max.isNone && o.sign == .neg && Q.lt negTiny q) = false := by
  simp only [signGap, hq, Bool.or_eq_false_iff] at h
  exact h

theorem adm_number (O R S) (o : NumOpts) (v : PyVal)
    (hc : aNumber o v = true) (hnb : jsNumVal v = true) (hg : signGap o v = false) :
    Adm O R S (.number o) v := by
  intro j hj
  simp only [emit]
  cases v with
  | int i =>
    simp only [aNumber, PyVal.asNum] at hc
    simp only [ser, sScalar] at hj
    cases hj
    have hb := effBounds_real o (Q.ofInt i) hc (signGap_split o _ _ rfl hg).1 (signGap_split o _ _ rfl hg).2
    exact jsV_numKws R S "number" false o (.int i) (Q.ofInt i) (by simp [typeIs]) rfl
      (multOk_of_numOk o _ hc) hb.1 hb.2
  | float q =>
    simp only [aNumber, PyVal.asNum] at hc
    simp only [ser, sScalar] at hj
    cases hj
    have hb := effBounds_real o q hc (signGap_split o _ _ rfl hg).1 (signGap_split o _ _ rfl hg).2
    exact jsV_numKws R S "number" false o (.float q) q (by simp [typeIs]) rfl
      (multOk_of_numOk o _ hc) hb.1 hb.2
  | _ => simp [jsNumVal] at hnb

theorem adm_integer (O R S) (o : NumOpts) (v : PyVal)
    (hc : aInteger o v = true) (hnb : notBool v = true) : Adm O R S (.integer o) v := by
  intro j hj
  simp only [emit]
  cases v with
  | int i =>
    simp only [aInteger] at hc
    simp only [ser, sScalar] at hj
    cases hj
    have hb := effBounds_int o i hc
    exact jsV_numKws R S "integer" true o (.int i) (Q.ofInt i) (by simp [typeIs]) rfl
      (multOk_of_numOk o _ hc) hb.1 hb.2
  | bool b => simp [notBool] at hnb
  | _ => simp [aInteger] at hc

theorem adm_float (O R S) (o : NumOpts) (v : PyVal)
    (hc : cFloat o v = true) (hg : signGap o v = false) : Adm O R S (.float o) v := by
  intro j hj
  simp only [emit]
  cases v with
  | float q =>
    simp only [cFloat] at hc
    simp only [ser, sScalar] at hj
    cases hj
    have hb := effBounds_real o q hc (signGap_split o _ _ rfl hg).1 (signGap_split o _ _ rfl hg).2
    exact jsV_numKws R S "number" false o (.float q) q (by simp [typeIs]) rfl
      (multOk_of_numOk o _ hc) hb.1 hb.2
  | _ => simp [cFloat] at hc

theorem adm_string (O R S) (hS : ∀ p s, O.reMatch p s = true → S p s = true)
    (lo hi : Option Nat) (pat : Option String) (v : PyVal)
    (hc : aString O lo hi pat v = true) : Adm O R S (.string lo hi pat) v := by
  intro j hj
  simp only [emit]
  cases v with
  | str s =>
    simp only [aString, and_true_iff'] at hc
    simp only [ser, sScalar] at hj
    cases hj
    refine jsV_strKws R S lo hi pat s hc.1.1 hc.1.2 ?_
    cases pat with
    | none => rfl
    | some p => exact hS p s (by simpa [patOk] using hc.2)
  | _ => simp [aString] at hc

theorem adm_boolean (O R S) (v : PyVal) (hc : cBoolean v = true) : Adm O R S .boolean v := by
  intro j hj
  simp only [emit]
  cases v with
  | bool b =>
    simp only [ser, sScalar] at hj
    cases hj
    exact jsV_boolean R S b
  | _ => simp [cBoolean] at hc

theorem adm_enumLit (O R S) (vs : List PyVal) (v : PyVal) (hr : jsonMem v vs = true) :
    Adm O R S (.enumLit vs) v := by
  intro j hj
  simp only [ser] at hj
  cases hj
  simp only [emit]
  rw [jsV_enum]; exact hr

theorem adm_enumCls (O R S) (cls : String) (names : List String) (v : PyVal)
    (hc : cEnumCls cls names v = true) : Adm O R S (.enumCls cls names) v := by
  intro j hj
  simp only [emit]
  cases v with
  | enumv c n =>
    simp only [cEnumCls, and_true_iff'] at hc
    simp only [ser, sEnumCls] at hj
    cases hj
    rw [jsV_enum]
    exact jsonMem_str_map n names hc.2
  | _ => simp [cEnumCls] at hc

/-! ### containers -/

theorem sSeq_list (g : List PyVal → R (List PyVal)) (xs : List PyVal) (j : PyVal)
    (h : sSeq g (.list xs) = .ok j) : ∃ ys, g xs = .ok ys ∧ j = .list ys := by
  simp only [sSeq, seqLike] at h
  rcases bindE_eq_ok h with ⟨ys, hys, h2⟩
  cases h2
  exact ⟨ys, hys, rfl⟩

theorem sSeq_tuple (g : List PyVal → R (List PyVal)) (xs : List PyVal) (j : PyVal)
    (h : sSeq g (.tuple xs) = .ok j) : ∃ ys, g xs = .ok ys ∧ j = .list ys := by
  simp only [sSeq, seqLike] at h
  rcases bindE_eq_ok h with ⟨ys, hys, h2⟩
  cases h2
  exact ⟨ys, hys, rfl⟩

theorem sSeq_set (g : List PyVal → R (List PyVal)) (fr : Bool) (xs : List PyVal) (j : PyVal)
    (h : sSeq g (.set fr xs) = .ok j) : ∃ ys, g xs = .ok ys ∧ j = .list ys := by
  simp only [sSeq, seqLike] at h
  rcases bindE_eq_ok h with ⟨ys, hys, h2⟩
  cases h2
  exact ⟨ys, hys, rfl⟩

theorem serZip_length (O : Oracles) : ∀ (fs : List FieldDecl) (xs ys : List PyVal),
    fs.length ≤ xs.length → serZip O fs xs = .ok ys → ys.length = xs.length
  | [], xs, ys, _, h => by simp only [serZip] at h; exact serAnyList_length xs ys h
  | _ :: _, [], _, hl, _ => by simp at hl
  | f :: fs, x :: xs, ys, hl, h => by
    simp only [serZip] at h
    rcases bindE_eq_ok h with ⟨y, _, h2⟩
    rcases bindE_eq_ok h2 with ⟨ys', hys, h3⟩
    cases h3
    simp [serZip_length O fs xs ys' (by simpa using hl) hys]

theorem emitL_length (fx : Bool) : ∀ fs : List FieldDecl, (emitL fx fs).length = fs.length
  | [] => rfl
  | f :: fs => by simp [emitL, emitL_length fx fs]

theorem sMap_dict (g : List (PyVal × PyVal) → R (List (PyVal × PyVal))) (kvs : List (PyVal × PyVal))
    (j : PyVal) (h : sMap g (.dict kvs) = .ok j) : ∃ r, g kvs = .ok r ∧ j = .dict (dictOfPairs r) := by
  simp only [sMap] at h
  rcases bindE_eq_ok h with ⟨r, hr, h2⟩
  split at h2
  · simp at h2
  · cases h2; exact ⟨r, hr, rfl⟩

/-- the class object accepts the serialization of a deeply well-formed instance, given that every
    field's schema accepts that field's serialized value -/
theorem adm_struct_core (O : Oracles) (R S) (c : ClassOpts) (fields : List (String × FieldDecl))
    (defaults : List (String × PyVal)) (v j : PyVal)
    (hnd : nodupS (fields.map (·.1)) = true)
    (hfields : ∀ name f, (name, f) ∈ fields → ∀ x, conforms O f x = true → regF O f x = true →
      Adm O R S f x)
    (hr : regF O (.struct c fields defaults) v = true)
    (hj : ser O (.struct c fields defaults) v = .ok j) :
    jsV R S (classObj c defaults (emitP true fields)) j = true := by
  cases v with
  | inst cn attrs =>
    simp only [regF, and_true_iff'] at hr
    obtain ⟨⟨⟨⟨hcn, hand⟩, hwf⟩, hreq⟩, hrf⟩ := hr
    simp only [wfAttrs, and_true_iff'] at hwf
    obtain ⟨⟨_, hfc⟩, haddl⟩ := hwf
    simp only [ser, sInst] at hj
    have hcn' : (cn == c.name || c.accepts.contains cn) = true := by simp [hcn]
    simp only [hcn', Bool.not_true, Bool.false_eq_true, if_false] at hj
    rcases bindE_eq_ok hj with ⟨r, hrr, h2⟩
    cases h2
    obtain ⟨s1, s2, s3⟩ := serAttrs_spec (serField O fields) _ r hrr
    apply jsV_classObj
    · -- properties
      apply jsProps_of
      intro n s hm x hx
      obtain ⟨f, hmf, rfl⟩ := emitP_mem true n s fields hm
      obtain ⟨w, hw1, hw2⟩ := s1 n x hx
      obtain ⟨hw3, hw4⟩ := lookup_filter_of_nodup _ n w attrs hand hw1
      have hnn : w.isNone = false := by simpa using hw4
      rw [serField_of_mem O n f w fields hnd hmf] at hw2
      exact hfields n f hmf w (fieldsConform_mem O attrs n f w fields hfc hmf hw3)
        (regFields_mem O attrs n f w fields hrf hmf hw3 hnn) x hw2
    · -- required
      intro n hn
      apply s2
      have hp : attrPresent attrs n = true := by
        rw [List.all_eq_true] at hreq
        exact hreq n hn
      unfold attrPresent at hp
      cases hl : lookup n attrs with
      | none => simp [hl] at hp
      | some w =>
        simp only [hl] at hp
        rw [lookup_filter_some _ n w attrs hl (by simpa using hp)]
        rfl
    · -- additional properties
      cases ha : c.addl with
      | true => left; rfl
      | false =>
        right
        intro kv hkv
        obtain ⟨a, ha1, ha2⟩ := s3 kv hkv
        refine ⟨a.1, by rw [ha2]; rfl, ?_⟩
        rw [emitP_names]
        simp only [ha, Bool.false_or] at haddl
        rw [List.all_eq_true] at haddl
        exact haddl a (List.mem_filter.mp ha1).1
  | _ => simp [regF] at hr

/-! ### multi-field wrappers over plain scalars -/

theorem ser_plain (O : Oracles) (f : FieldDecl) (v j : PyVal) (hp : plainScalar f = true)
    (h : ser O f v = .ok j) : j = v := by
  cases f <;> simp [plainScalar] at hp <;> simp only [ser, sScalar] at h
  all_goals first
    | (cases v <;> simp at h <;> exact h.symm)
    | (cases h; rfl)

theorem serFirst_plain (O : Oracles) : ∀ (fs : List FieldDecl) (v j : PyVal),
    fs.all plainScalar = true → serFirst O fs v = .ok j → j = v
  | [], v, j, _, h => by simp [serFirst] at h
  | f :: fs, v, j, hp, h => by
    simp only [List.all_cons, and_true_iff'] at hp
    simp only [serFirst] at h
    split at h
    · split at h
      · rename_i j' hj'
        cases h
        exact ser_plain O f v _ hp.1 hj'
      · split at h
        · simp at h
        · exact serFirst_plain O fs v j hp.2 h
      · exact serFirst_plain O fs v j hp.2 h
    · exact serFirst_plain O fs v j hp.2 h

theorem ser_plain_ok (O : Oracles) (f : FieldDecl) (v : PyVal) (hp : plainScalar f = true)
    (hnd : ∀ q, v ≠ .dec q) : ser O f v = .ok v := by
  cases f <;> simp [plainScalar] at hp <;> simp only [ser, sScalar]
  all_goals (cases v <;> first | rfl | (exfalso; exact hnd _ rfl))

theorem ser_plain_conf (O : Oracles) (f : FieldDecl) (v : PyVal) (hp : plainScalar f = true)
    (hc : conforms O f v = true) (hr : regF O f v = true) : ser O f v = .ok v := by
  cases f <;> simp [plainScalar] at hp
  · simp only [regF, and_true_iff'] at hr
    cases v <;> simp [jsNumVal] at hr <;> rfl
  · simp only [conforms, aInteger] at hc
    simp only [regF] at hr
    cases v <;> simp [notBool] at hc hr <;> rfl
  · simp only [conforms, cFloat] at hc
    cases v <;> simp at hc <;> rfl
  · simp only [conforms, aString] at hc
    cases v <;> simp at hc <;> rfl
  · simp only [conforms, cBoolean] at hc
    cases v <;> simp at hc <;> rfl
  · rfl

theorem jsAnyL_of_mem (R S) (d : PyVal) : ∀ (ss : List PyVal) (s : PyVal), s ∈ ss →
    jsV R S s d = true → jsAnyL R S ss d = true
  | [], _, h, _ => by simp at h
  | t :: ss, s, h, hv => by
    simp only [jsAnyL, Bool.or_eq_true]
    rcases List.mem_cons.mp h with rfl | h'
    · left; exact hv
    · right; exact jsAnyL_of_mem R S d ss s h' hv

theorem emitL_mem (fx : Bool) : ∀ (fs : List FieldDecl) (f : FieldDecl), f ∈ fs → emit fx f ∈ emitL fx fs
  | [], _, h => by simp at h
  | g :: fs, f, h => by
    simp only [emitL]
    rcases List.mem_cons.mp h with rfl | h'
    · simp
    · simp [emitL_mem fx fs f h']

theorem anyOfShape_plain (fs : List FieldDecl) (ss : List PyVal) (hp : fs.all plainScalar = true) :
    anyOfShape fs ss = .dict [kw "anyOf" (.list ss)] := by
  unfold anyOfShape
  split
  · simp [plainScalar] at hp
  · rfl

theorem optShape_inv (fs : List FieldDecl) (h : optShape fs = true) :
    ∃ f, fs = [f, .noneF] ∧ isNoneF f = false := by
  unfold optShape at h
  split at h
  · rename_i f
    exact ⟨f, rfl, by simpa using h⟩
  · simp at h

theorem conformsAny_mem (O : Oracles) (v : PyVal) : ∀ fs : List FieldDecl, conformsAny O fs v = true →
    ∃ f ∈ fs, conforms O f v = true
  | [], h => by simp [conformsAny] at h
  | f :: fs, h => by
    simp only [conformsAny, Bool.or_eq_true] at h
    rcases h with h | h
    · exact ⟨f, by simp, h⟩
    · obtain ⟨g, hg, hc⟩ := conformsAny_mem O v fs h
      exact ⟨g, by simp [hg], hc⟩

theorem regAll_mem (O : Oracles) (v : PyVal) : ∀ (fs : List FieldDecl) (f : FieldDecl), regAll O fs v = true →
    f ∈ fs → conforms O f v = true → regF O f v = true
  | [], _, _, h, _ => by simp at h
  | g :: fs, f, hr, h, hc => by
    simp only [regAll, and_true_iff'] at hr
    rcases List.mem_cons.mp h with rfl | h'
    · simpa [hc] using hr.1
    · exact regAll_mem O v fs f hr.2 h' hc

/-! ### positional items in element position -/

theorem emitLW_length (fx : Bool) : ∀ fs : List FieldDecl, (emitLW fx fs).length = fs.length
  | [] => rfl
  | f :: fs => by simp [emitLW, emitLW_length fx fs]

theorem jsZip_wrap (R S) : ∀ (fs : List FieldDecl) (ys : List PyVal),
    jsZip R S (emitL true fs) ys = true → jsZip R S (emitLW true fs) ys = true
  | [], _, _ => by simp [emitLW, jsZip]
  | f :: fs, [], _ => by simp [emitLW, jsZip]
  | f :: fs, y :: ys, h => by
    simp only [emitL, jsZip, and_true_iff'] at h
    simp only [emitLW, jsZip, and_true_iff']
    exact ⟨jsV_elemWrap R S f _ y h.1, jsZip_wrap R S fs ys h.2⟩

/-! ### `AllOf` over raw scalars -/

theorem rawScalar_plain (f : FieldDecl) (h : rawScalar f = true) : plainScalar f = true := by
  cases f <;> simp [rawScalar] at h <;> rfl

/-- for Number / Integer / String / Enum of literals the accept test and the conformance test coincide -/
theorem admits_eq_conforms_raw (O : Oracles) (f : FieldDecl) (v : PyVal) (h : rawScalar f = true) :
    admits O f v = conforms O f v := by
  cases f <;> simp [rawScalar] at h <;> simp [admits, conforms]

theorem admitsAll_mem (O : Oracles) (v : PyVal) : ∀ fs : List FieldDecl, admitsAll O fs v = true →
    ∀ f ∈ fs, admits O f v = true
  | [], _, _, h => by simp at h
  | g :: fs, ha, f, h => by
    simp only [admitsAll, and_true_iff'] at ha
    rcases List.mem_cons.mp h with rfl | h'
    · exact ha.1
    · exact admitsAll_mem O v fs ha.2 f h'

theorem jsAllL_of_all (R S) (d : PyVal) : ∀ ss : List PyVal, (∀ s ∈ ss, jsV R S s d = true) →
    jsAllL R S ss d = true
  | [], _ => rfl
  | s :: ss, h => by
    simp only [jsAllL, and_true_iff']
    exact ⟨h s (by simp), jsAllL_of_all R S d ss (fun t ht => h t (by simp [ht]))⟩

theorem emitL_mem_inv (fx : Bool) : ∀ (fs : List FieldDecl) (s : PyVal), s ∈ emitL fx fs →
    ∃ f ∈ fs, s = emit fx f
  | [], _, h => by simp [emitL] at h
  | g :: fs, s, h => by
    simp only [emitL] at h
    rcases List.mem_cons.mp h with rfl | h'
    · exact ⟨g, by simp, rfl⟩
    · obtain ⟨f, hf, hs⟩ := emitL_mem_inv fx fs s h'
      exact ⟨f, by simp [hf], hs⟩

/-- the size bound of a Map holds of the serialized object when it has as many members as the map
    has entries (or there is no bound) -/
theorem c08_sizeOk_of_sameCount (sz : SizeOpts) (n : Nat) (res : R PyVal) (j : PyVal) (hj : res = .ok j)
    (hsz : sizeOk sz n = true) (hs : sameCount sz n res = true) :
    ∀ r, j = .dict r → sizeOk sz r.length = true := by
  intro r hr
  subst hr
  subst hj
  simp only [sameCount, Bool.or_eq_true] at hs
  rcases hs with h | h
  · simp only [and_true_iff'] at h
    have h1 : sz.min = none := by simpa using h.1
    have h2 : sz.max = none := by simpa using h.2
    simp [sizeOk, h1, h2, geLen, leLen]
  · have : r.length = n := by simpa using h
    rw [this]; exact hsz

/-! ### `OneOf` over options of pairwise different JSON types -/

theorem c08_jkind_raw (f : FieldDecl) (h : (jkind f).isSome = true) : rawScalar f = true := by
  cases f <;> simp [jkind] at h <;> rfl

/-- an admitted value of the region has the JSON type of the option -/
theorem c08_vkind_of_admits (O : Oracles) (f : FieldDecl) (v : PyVal) (k : JK) (hk : jkind f = some k)
    (ha : conforms O f v = true) (hr : regF O f v = true) : vkind v = some k := by
  cases f <;> simp [jkind] at hk
  · -- number
    subst hk
    simp only [regF, and_true_iff'] at hr
    cases v <;> simp [jsNumVal] at hr <;> rfl
  · -- integer
    subst hk
    simp only [conforms, aInteger] at ha
    simp only [regF] at hr
    cases v <;> simp [notBool] at ha hr <;> rfl
  · -- string
    subst hk
    simp only [conforms, aString] at ha
    cases v <;> simp at ha <;> rfl

theorem c08_typeIs_mismatch_num (ty : String) (hty : ty = "number" ∨ ty = "integer") (v : PyVal)
    (hv : vkind v = some .str) : typeIs ty v = false := by
  cases v <;> simp [vkind] at hv
  rcases hty with rfl | rfl <;> simp [typeIs]

theorem c08_jsKws_type_false (R S) (ctx rest : List (PyVal × PyVal)) (ty : String) (v : PyVal)
    (h : typeIs ty v = false) : jsKws R S ctx (kw "type" (.str ty) :: rest) v = false := by
  simp [jsKws, kw, kwOf, kwOfStr, kwNode, kwLeaf, typeOk, h]

/-- a scalar schema rejects a value of the other JSON type -/
theorem c08_jsV_mismatch (R S) (f : FieldDecl) (v : PyVal) (k k' : JK) (hk : jkind f = some k)
    (hv : vkind v = some k') (hne : k ≠ k') : jsV R S (emit true f) v = false := by
  cases f <;> simp [jkind] at hk
  · subst hk
    have hv' : vkind v = some .str := by cases k' <;> simp_all
    simp only [emit]
    rw [jsV_dict _ _ _ _ (getKw_ref_numKws _ _ _)]
    simp only [numKws, List.append_assoc, List.cons_append, List.nil_append]
    exact c08_jsKws_type_false R S _ _ "number" v (c08_typeIs_mismatch_num "number" (Or.inl rfl) v hv')
  · subst hk
    have hv' : vkind v = some .str := by cases k' <;> simp_all
    simp only [emit]
    rw [jsV_dict _ _ _ _ (getKw_ref_numKws _ _ _)]
    simp only [numKws, List.append_assoc, List.cons_append, List.nil_append]
    exact c08_jsKws_type_false R S _ _ "integer" v (c08_typeIs_mismatch_num "integer" (Or.inr rfl) v hv')
  · subst hk
    have hv' : vkind v = some .num := by cases k' <;> simp_all
    simp only [emit]
    have hty : typeIs "string" v = false := by cases v <;> simp [vkind] at hv' <;> simp [typeIs]
    rename_i lo hi pat
    have href : getKw "$ref" (strKws lo hi pat) = none := by
      simp [strKws, getKw_append, getKw_optKw, getKw, kw, keyIs]
    rw [jsV_dict _ _ _ _ href]
    simp only [strKws, List.append_assoc, List.cons_append, List.nil_append]
    exact c08_jsKws_type_false R S _ _ "string" v hty


theorem c08_contains_map_jkind (f : FieldDecl) : ∀ fs : List FieldDecl, f ∈ fs →
    (fs.map jkind).contains (jkind f) = true
  | [], h => by simp at h
  | g :: fs, h => by
    rcases List.mem_cons.mp h with rfl | h'
    · simp
    · simp only [List.map_cons, List.contains_cons, Bool.or_eq_true]
      right; exact c08_contains_map_jkind f fs h'

theorem c08_nodupK_inj : ∀ (fs : List FieldDecl), nodupK (fs.map jkind) = true →
    ∀ f g, f ∈ fs → g ∈ fs → jkind f = jkind g → f = g
  | [], _, _, _, h, _, _ => by simp at h
  | h :: t, hnd, f, g, hf, hg, hk => by
    simp only [List.map_cons, nodupK, and_true_iff'] at hnd
    rcases List.mem_cons.mp hf with rfl | hf' <;> rcases List.mem_cons.mp hg with rfl | hg'
    · rfl
    · have := c08_contains_map_jkind g t hg'
      rw [← hk] at this
      rw [this] at hnd
      simp at hnd
    · have := c08_contains_map_jkind f t hf'
      rw [hk] at this
      rw [this] at hnd
      simp at hnd
    · exact c08_nodupK_inj t hnd.2 f g hf' hg' hk

/-- with pairwise different JSON types, the schema of every option judges a value that one option `g`
    admits exactly as the option itself does: `g` accepts, every other option fails on `type` -/
theorem c08_oneOf_pointwise (O : Oracles) (R S) (v : PyVal) (k : JK) (fs : List FieldDecl)
    (hk : fs.all (fun f => (jkind f).isSome) = true) (hnd : nodupK (fs.map jkind) = true)
    (g : FieldDecl) (hg : g ∈ fs) (hgc : conforms O g v = true) (hgk : jkind g = some k)
    (hvk : vkind v = some k)
    (hadm : ∀ f ∈ fs, conforms O f v = true → regF O f v = true ∧ jsV R S (emit true f) v = true) :
    ∀ f ∈ fs, jsV R S (emit true f) v = conforms O f v := by
  intro f hf
  have hsome := List.all_eq_true.mp hk f hf
  cases hk0 : jkind f with
  | none => simp [hk0] at hsome
  | some k0 =>
    by_cases hkk : k0 = k
    · subst hkk
      have : f = g := c08_nodupK_inj fs hnd f g hf hg (by rw [hk0, hgk])
      subst this
      rw [hgc]; exact (hadm f hf hgc).2
    · rw [c08_jsV_mismatch R S f v k0 k hk0 hvk hkk]
      cases hc : conforms O f v with
      | false => rfl
      | true =>
        exfalso
        have := c08_vkind_of_admits O f v k0 hk0 hc (hadm f hf hc).1
        rw [hvk] at this
        exact hkk (Option.some.inj this).symm

theorem c08_jsCount_eq (O : Oracles) (R S) (v : PyVal) : ∀ fs : List FieldDecl,
    fs.all (fun f => (jkind f).isSome) = true →
    (∀ f ∈ fs, jsV R S (emit true f) v = conforms O f v) →
    jsCount R S (emitL true fs) v = countAdmits O fs v
  | [], _, _ => rfl
  | f :: fs, hk, h => by
    simp only [List.all_cons, and_true_iff'] at hk
    simp only [emitL, jsCount, countAdmits, h f (by simp),
      admits_eq_conforms_raw O f v (c08_jkind_raw f hk.1),
      c08_jsCount_eq O R S v fs hk.2 (fun g hg => h g (by simp [hg]))]

theorem c08_countAdmits_pos (O : Oracles) (v : PyVal) : ∀ fs : List FieldDecl, 0 < countAdmits O fs v →
    ∃ g ∈ fs, admits O g v = true
  | [], h => by simp [countAdmits] at h
  | f :: fs, h => by
    simp only [countAdmits] at h
    cases ha : admits O f v with
    | true => exact ⟨f, by simp, ha⟩
    | false =>
      simp only [ha, Bool.false_eq_true, if_false, Nat.zero_add] at h
      obtain ⟨g, hg, hga⟩ := c08_countAdmits_pos O v fs h
      exact ⟨g, by simp [hg], hga⟩

theorem jsV_oneOf (R S) (ss : List PyVal) (d : PyVal) :
    jsV R S (.dict [kw "oneOf" (.list ss)]) d = (jsCount R S ss d == 1) := by
  simp [jsV, getKw, kw, keyIs, jsKws, kwOf, kwOfStr, kwNode, jsCountV]


/-! ### the main induction -/

mutual
theorem admits_field (O : Oracles) (S : String → String → Bool)
    (hS : ∀ p s, O.reMatch p s = true → S p s = true) (D : Defs) :
    ∀ (f : FieldDecl) (n : Nat) (v : PyVal), fragF f = true → RefsFaithful D f → refDepth f ≤ n →
      conforms O f v = true → regF O f v = true → Adm O (resolver D S n) S f v
  | .number o, n, v, _, _, _, hc, hr => by
    simp only [conforms] at hc
    simp only [regF, and_true_iff'] at hr
    exact adm_number O _ S o v hc hr.1 (by simpa using hr.2)
  | .integer o, n, v, _, _, _, hc, hr => by
    simp only [conforms] at hc
    simp only [regF] at hr
    exact adm_integer O _ S o v hc hr
  | .float o, n, v, _, _, _, hc, hr => by
    simp only [conforms] at hc
    simp only [regF] at hr
    exact adm_float O _ S o v hc (by simpa using hr)
  | .string lo hi pat, n, v, _, _, _, hc, _ => by
    simp only [conforms] at hc
    exact adm_string O _ S hS lo hi pat v hc
  | .boolean, n, v, _, _, _, hc, _ => by
    simp only [conforms] at hc
    exact adm_boolean O _ S v hc
  | .enumLit vs, n, v, _, _, _, _, hr => by
    simp only [regF] at hr
    exact adm_enumLit O _ S vs v hr
  | .enumCls cls names, n, v, _, _, _, hc, _ => by
    simp only [conforms] at hc
    exact adm_enumCls O _ S cls names v hc
  | .seqAny k sz, n, v, hf, _, _, hc, hr => by
    intro j hj
    simp only [fragF] at hf
    simp only [regF] at hr
    have hk : k = .list := by simpa using hf
    subst hk
    simp only [conforms, cSeq] at hc
    cases v with
    | list xs =>
      simp only [seqElems, and_true_iff'] at hc
      simp only [ser] at hj
      obtain ⟨ys, hys, rfl⟩ := sSeq_list _ xs j hj
      simp only [emit]
      refine jsV_arrAny _ S sz ys (fun h => by simpa [seqLike, h, hys, distinctImages] using hr) ?_
      rw [serAnyList_length xs ys hys]; exact hc.1.1.2
    | _ => simp [seqElems] at hc
  | .seqOf k f sz, n, v, hf, hrf, hd, hc, hr => by
    intro j hj
    simp only [fragF, and_true_iff'] at hf
    have hk : k = .list := by simpa using hf.1
    subst hk
    simp only [conforms, cSeq] at hc
    cases v with
    | list xs =>
      simp only [seqElems, and_true_iff'] at hc
      simp only [regF, seqLike, and_true_iff'] at hr
      simp only [RefsFaithful] at hrf
      simp only [refDepth] at hd
      simp only [ser] at hj
      obtain ⟨ys, hys, rfl⟩ := sSeq_list _ xs j hj
      simp only [emit]
      refine jsV_arrOf _ S sz (elemWrap f (emit true f)) ys (elemWrap_shape f _ (emit_shape true f))
        (fun h => by simpa [h, hys, distinctImages] using hr.2) ?_ ?_
      · rw [mapE_length _ xs ys hys]; exact hc.1.1.2
      · refine mapE_all (ser O f) _ xs ys ?_ hys
        intro x hx y hy
        exact jsV_elemWrap _ S f _ y (admits_field O S hS D f n x hf.2 hrf hd (List.all_eq_true.mp hc.2 x hx)
          (List.all_eq_true.mp hr.1 x hx) y hy)
    | _ => simp [seqElems] at hc
  | .seqPos k fs addl sz, n, v, hf, hrf, hd, hc, hr => by
    intro j hj
    simp only [fragF, and_true_iff'] at hf
    have hk : k = .list := by simpa using hf.1.1
    subst hk
    simp only [conforms, cSeq] at hc
    cases v with
    | list xs =>
      simp only [seqElems, and_true_iff'] at hc
      simp only [regF, seqLike, and_true_iff'] at hr
      simp only [RefsFaithful] at hrf
      simp only [refDepth] at hd
      simp only [ser] at hj
      obtain ⟨ys, hys, rfl⟩ := sSeq_list _ xs j hj
      have hlen1 : fs.length ≤ xs.length := by simpa using hc.1.2.1
      have hlen : ys.length = xs.length := serZip_length O fs xs ys hlen1 hys
      simp only [emit]
      refine jsV_arrPos _ S sz addl (emitLW true fs) ys
        (fun h => by simpa [h, hys, distinctImages] using hr.2) ?_ ?_ ?_
      · rw [hlen]; exact hc.1.1.2
      · exact jsZip_wrap _ S fs ys (admits_zip O S hS D fs n xs hf.2 hrf hd hc.2 hr.1 ys hys)
      · intro ha
        rw [emitLW_length, hlen]
        simpa [ha] using hc.1.2.2
    | _ => simp [seqElems] at hc
  | .tupleOf f u, n, v, hf, hrf, hd, hc, hr => by
    intro j hj
    simp only [fragF] at hf
    simp only [conforms, cTuple] at hc
    cases v with
    | tuple xs =>
      simp only [and_true_iff'] at hc
      simp only [regF, and_true_iff'] at hr
      simp only [RefsFaithful] at hrf
      simp only [refDepth] at hd
      simp only [ser] at hj
      obtain ⟨ys, hys, rfl⟩ := sSeq_tuple _ xs j hj
      simp only [emit]
      refine jsV_arrOf _ S { uniq := u } (elemWrap f (emit true f)) ys (elemWrap_shape f _ (emit_shape true f))
        (fun h => by simp at h; simpa [h, hys, distinctImages] using hr.2) (by simp [sizeOk, geLen, leLen]) ?_
      refine mapE_all (ser O f) _ xs ys ?_ hys
      intro x hx y hy
      exact jsV_elemWrap _ S f _ y (admits_field O S hS D f n x hf hrf hd (List.all_eq_true.mp hc.2 x hx)
        (List.all_eq_true.mp hr.1 x hx) y hy)
    | _ => simp at hc
  | .tuplePos fs u, n, v, hf, hrf, hd, hc, hr => by
    intro j hj
    simp only [fragF, and_true_iff'] at hf
    simp only [conforms, cTuple] at hc
    cases v with
    | tuple xs =>
      simp only [and_true_iff'] at hc
      simp only [regF, and_true_iff'] at hr
      simp only [RefsFaithful] at hrf
      simp only [refDepth] at hd
      simp only [ser] at hj
      obtain ⟨ys, hys, rfl⟩ := sSeq_tuple _ xs j hj
      have hlen0 : fs.length = xs.length := by simpa using hc.1.2
      have hlen : ys.length = xs.length := serZip_length O fs xs ys (by omega) hys
      simp only [emit]
      refine jsV_tupKws _ S u (emitLW true fs) ys (fun h => by simpa [h, hys, distinctImages] using hr.2) ?_ ?_
      · exact jsZip_wrap _ S fs ys (admits_zip O S hS D fs n xs hf.2 hrf hd hc.2 hr.1 ys hys)
      · rw [emitLW_length]; omega
    | _ => simp at hc
  | .mapAny sz, n, v, _, _, _, hc, hr => by
    intro j hj
    simp only [conforms, cMap] at hc
    cases v with
    | dict kvs =>
      simp only [and_true_iff'] at hc
      simp only [regF] at hr
      have hcount := c08_sizeOk_of_sameCount sz kvs.length _ j hj hc.1 hr
      simp only [ser] at hj
      obtain ⟨r, _, rfl⟩ := sMap_dict _ kvs j hj
      simp only [emit]
      exact jsV_mapAny _ S sz _ (hcount _ rfl)
    | _ => simp at hc
  | .mapOf k vf sz, n, v, hf, hrf, hd, hc, hr => by
    intro j hj
    simp only [fragF, and_true_iff'] at hf
    simp only [conforms, cMap] at hc
    cases v with
    | dict kvs =>
      simp only [and_true_iff'] at hc
      simp only [regF, and_true_iff'] at hr
      have hcount := c08_sizeOk_of_sameCount sz kvs.length _ j hj hc.1 hr.2
      have hr := hr.1
      simp only [RefsFaithful] at hrf
      simp only [refDepth] at hd
      simp only [ser] at hj
      obtain ⟨r, hr', rfl⟩ := sMap_dict _ kvs j hj
      have hcount := hcount _ rfl
      simp only [emit]
      have hvals : (dictOfPairs r).all (fun kv => jsV (resolver D S n) S (elemWrap vf (emit true vf)) kv.2) = true := by
        refine dictOfPairs_all (fun kv => jsV (resolver D S n) S (elemWrap vf (emit true vf)) kv.2) (fun _ => true)
          (jsV (resolver D S n) S (elemWrap vf (emit true vf))) (fun kv => by simp) r ?_
        refine mapE_all _ _ kvs r ?_ hr'
        intro kv hkv y hy
        rcases bindE_eq_ok hy with ⟨k', _, h2⟩
        rcases bindE_eq_ok h2 with ⟨v', hv', h3⟩
        cases h3
        have hckv := List.all_eq_true.mp hc.2 kv hkv
        simp only [and_true_iff'] at hckv
        exact jsV_elemWrap _ S vf _ v' (admits_field O S hS D vf n kv.2 hf.2 hrf hd hckv.2 (List.all_eq_true.mp hr kv hkv) v' hv')
      cases hkp : (mapKeyPattern k != "") with
      | true => exact jsV_mapPat _ S k (elemWrap vf (emit true vf)) sz _ hkp hcount hvals
      | false =>
        exact jsV_mapOf _ S k (elemWrap vf (emit true vf)) sz _ (by simpa using hkp)
          (elemWrap_shape vf _ (emit_shape true vf)) hcount hvals
    | _ => simp at hc
  | .struct c fields defaults, n, v, hf, hrf, hd, _, hr => by
    intro j hj
    simp only [fragF, and_true_iff'] at hf
    obtain ⟨hnd, hfp⟩ := hf
    simp only [RefsFaithful] at hrf
    simp only [refDepth] at hd
    simp only [emit]
    cases hin : c.inline with
    | true =>
      simp only [hin, if_true] at hd ⊢
      rw [retype_classObj]
      exact adm_struct_core O _ S c fields defaults v j hnd
        (fun name f hm x hcx hrx => admits_fields O S hS D fields n hfp hrf.2 hd name f hm x hcx hrx) hr hj
    | false =>
      simp only [hin, Bool.false_eq_true, if_false] at hd ⊢
      rw [jsV_refTo]
      cases n with
      | zero => omega
      | succ m =>
        have hlk : lookup ("#/definitions/" ++ c.name) D = some (classObj c defaults (emitP true fields)) := by
          rcases hrf.1 with h | h
          · simp [hin] at h
          · rw [h]
        simp only [resolver, hlk]
        exact adm_struct_core O _ S c fields defaults v j hnd
          (fun name f hm x hcx hrx =>
            admits_fields O S hS D fields m hfp hrf.2 (by omega) name f hm x hcx hrx) hr hj
  | .anyOf fs, n, v, hf, hrf, hd, hc, hr => by
    intro j hj
    simp only [RefsFaithful] at hrf
    simp only [refDepth] at hd
    simp only [conforms] at hc
    simp only [ser] at hj
    simp only [emit]
    cases hos : optShape fs with
    | true =>
      simp only [fragF, hos, if_true] at hf
      simp only [regF, hos, if_true, and_true_iff'] at hr
      obtain ⟨f, rfl, hnf⟩ := optShape_inv fs hos
      have hnn : v.isNone = false := by simpa using hr.1
      have hemit : anyOfShape [f, FieldDecl.noneF] (emitL true [f, FieldDecl.noneF]) = emit true f := by
        simp [anyOfShape, emitL]
      rw [hemit]
      have hadm := admits_opt O S hS D [f, .noneF] n hf hrf hd f (by simp) hnf v
      -- the serializer tried `f` first; the `NoneField` option refuses a value that is not None
      simp only [serFirst] at hj
      have hcf : conforms O f v = true := by
        simp only [conformsAny, conforms, hnn, Bool.or_false, Bool.false_eq_true] at hc
        simpa using hc
      have hrf' : regF O f v = true := by
        simp only [regOpt, hnf, Bool.false_or, and_true_iff'] at hr
        exact hr.2.1
      split at hj
      · split at hj
        · rename_i j' hj'
          cases hj
          exact hadm hcf hrf' _ hj'
        · split at hj
          · simp at hj
          · simp [shallowOk, hnn] at hj
        · simp [shallowOk, hnn] at hj
      · simp [shallowOk, hnn] at hj
    | false =>
      simp only [fragF, hos, Bool.false_eq_true, if_false, and_true_iff'] at hf
      simp only [regF, hos, Bool.false_eq_true, if_false] at hr
      rw [anyOfShape_plain fs _ hf.1.2, jsV_anyOf]
      have hjv : j = v := serFirst_plain O fs v j hf.1.2 hj
      subst hjv
      obtain ⟨f, hfm, hcf⟩ := conformsAny_mem O j fs hc
      have hrf' := regAll_mem O j fs f hr hfm hcf
      have hp : plainScalar f = true := List.all_eq_true.mp hf.1.2 f hfm
      have hadm := admits_mem O S hS D fs n hf.2 hrf hd f hfm j hcf hrf'
      exact jsAnyL_of_mem _ S j _ _ (emitL_mem true fs f hfm) (hadm j (ser_plain_conf O f j hp hcf hrf'))
  | .setAny imm sz, n, v, _, _, _, hc, hr => by
    intro j hj
    simp only [conforms, cSet] at hc
    cases v with
    | set fr xs =>
      simp only [and_true_iff'] at hc
      simp only [regF] at hr
      simp only [ser] at hj
      obtain ⟨ys, hys, rfl⟩ := sSeq_set _ fr xs j hj
      simp only [emit]
      refine jsV_setAny _ S sz ys (by simpa [hys, distinctImages] using hr) ?_
      rw [serAnyList_length xs ys hys]; exact hc.1.2
    | _ => simp at hc
  | .setOf imm f sz, n, v, hf, hrf, hd, hc, hr => by
    intro j hj
    simp only [fragF] at hf
    simp only [conforms, cSet] at hc
    cases v with
    | set fr xs =>
      simp only [and_true_iff'] at hc
      simp only [regF, and_true_iff'] at hr
      simp only [RefsFaithful] at hrf
      simp only [refDepth] at hd
      simp only [ser] at hj
      obtain ⟨ys, hys, rfl⟩ := sSeq_set _ fr xs j hj
      simp only [emit]
      refine jsV_setOf _ S sz (elemWrap f (emit true f)) ys (elemWrap_shape f _ (emit_shape true f))
        (by simpa [hys, distinctImages] using hr.2) ?_ ?_
      · rw [mapE_length _ xs ys hys]; exact hc.1.2
      · refine mapE_all (ser O f) _ xs ys ?_ hys
        intro x hx y hy
        exact jsV_elemWrap _ S f _ y (admits_field O S hS D f n x hf hrf hd (List.all_eq_true.mp hc.2 x hx)
          (List.all_eq_true.mp hr.1 x hx) y hy)
    | _ => simp at hc
  | .oneOf fs, n, v, hf, hrf, hd, hc, hr => by
    intro j hj
    simp only [fragF, typeDisjoint, and_true_iff'] at hf
    obtain ⟨⟨_, hkAll, hnd⟩, hfl⟩ := hf
    simp only [RefsFaithful] at hrf
    simp only [refDepth] at hd
    simp only [conforms] at hc
    simp only [regF] at hr
    simp only [ser] at hj
    simp only [emit]
    rw [jsV_oneOf]
    have hplain : fs.all plainScalar = true := by
      rw [List.all_eq_true] at hkAll ⊢
      intro f hfm
      exact rawScalar_plain f (c08_jkind_raw f (hkAll f hfm))
    have hjv : j = v := serFirst_plain O fs v j hplain hj
    subst hjv
    have hcnt : countAdmits O fs j = 1 := by simpa using hc
    obtain ⟨g, hg, hga⟩ := c08_countAdmits_pos O j fs (by omega)
    have hgsome := List.all_eq_true.mp hkAll g hg
    have hgc : conforms O g j = true := by
      rw [← admits_eq_conforms_raw O g j (c08_jkind_raw g hgsome)]; exact hga
    cases hgk : jkind g with
    | none => simp [hgk] at hgsome
    | some k =>
      have hgr := regAll_mem O j fs g hr hg hgc
      have hvk := c08_vkind_of_admits O g j k hgk hgc hgr
      have hadm : ∀ f ∈ fs, conforms O f j = true →
          regF O f j = true ∧ jsV (resolver D S n) S (emit true f) j = true := by
        intro f hfm hcf
        have hrf' := regAll_mem O j fs f hr hfm hcf
        have hp : plainScalar f = true := List.all_eq_true.mp hplain f hfm
        exact ⟨hrf', (admits_mem O S hS D fs n hfl hrf hd f hfm j hcf hrf') j (ser_plain_conf O f j hp hcf hrf')⟩
      rw [c08_jsCount_eq O _ S j fs hkAll
        (c08_oneOf_pointwise O _ S j k fs hkAll hnd g hg hgc hgk hvk hadm), hcnt]
      rfl
  | .allOf fs, n, v, hf, hrf, hd, hc, hr => by
    intro j hj
    simp only [fragF, and_true_iff'] at hf
    simp only [RefsFaithful] at hrf
    simp only [refDepth] at hd
    simp only [conforms] at hc
    simp only [regF] at hr
    simp only [ser] at hj
    simp only [emit]
    rw [jsV_allOf]
    have hplain : fs.all plainScalar = true := by
      rw [List.all_eq_true] at hf ⊢
      intro f hfm
      exact rawScalar_plain f (hf.1.2 f hfm)
    have hjv : j = v := serFirst_plain O fs v j hplain hj
    subst hjv
    apply jsAllL_of_all
    intro s hs
    obtain ⟨f, hfm, rfl⟩ := emitL_mem_inv true fs s hs
    have hraw : rawScalar f = true := (List.all_eq_true.mp hf.1.2) f hfm
    have hcf : conforms O f j = true := by
      rw [← admits_eq_conforms_raw O f j hraw]
      exact admitsAll_mem O j fs hc f hfm
    have hrf' := regAll_mem O j fs f hr hfm hcf
    have hadm := admits_mem O S hS D fs n hf.2 hrf hd f hfm j hcf hrf'
    exact hadm j (ser_plain_conf O f j (rawScalar_plain f hraw) hcf hrf')
  | .notF _, _, _, hf, _, _, _, _ => by simp [fragF] at hf
  | .noneF, _, _, hf, _, _, _, _ => by simp [fragF] at hf
  | .anything, _, _, hf, _, _, _, _ => by simp [fragF] at hf

theorem admits_zip (O : Oracles) (S : String → String → Bool)
    (hS : ∀ p s, O.reMatch p s = true → S p s = true) (D : Defs) :
    ∀ (fs : List FieldDecl) (n : Nat) (xs : List PyVal), fragL fs = true → RefsFaithfulL D fs →
      refDepthL fs ≤ n → conformsZip O fs xs = true → regZip O fs xs = true →
      ∀ ys, serZip O fs xs = .ok ys → jsZip (resolver D S n) S (emitL true fs) ys = true
  | [], _, _, _, _, _, _, _, _, _ => by simp [emitL, jsZip]
  | f :: fs, n, [], _, _, _, _, _, ys, hys => by
    simp only [serZip] at hys
    cases hys
    simp [emitL, jsZip]
  | f :: fs, n, x :: xs, hf, hrf, hd, hc, hr, ys, hys => by
    simp only [fragL, and_true_iff'] at hf
    simp only [RefsFaithfulL] at hrf
    simp only [refDepthL] at hd
    simp only [conformsZip, and_true_iff'] at hc
    simp only [regZip, and_true_iff'] at hr
    simp only [serZip] at hys
    rcases bindE_eq_ok hys with ⟨y, hy, h2⟩
    rcases bindE_eq_ok h2 with ⟨ys', hys', h3⟩
    cases h3
    simp only [emitL, jsZip, and_true_iff']
    exact ⟨admits_field O S hS D f n x hf.1 hrf.1 (by omega) hc.1 hr.1 y hy,
      admits_zip O S hS D fs n xs hf.2 hrf.2 (by omega) hc.2 hr.2 ys' hys'⟩

theorem admits_mem (O : Oracles) (S : String → String → Bool)
    (hS : ∀ p s, O.reMatch p s = true → S p s = true) (D : Defs) :
    ∀ (fs : List FieldDecl) (n : Nat), fragL fs = true → RefsFaithfulL D fs → refDepthL fs ≤ n →
      ∀ f ∈ fs, ∀ v, conforms O f v = true → regF O f v = true → Adm O (resolver D S n) S f v
  | [], _, _, _, _, _, h, _, _, _ => by simp at h
  | g :: fs, n, hf, hrf, hd, f, hm, v, hc, hr => by
    simp only [fragL, and_true_iff'] at hf
    simp only [RefsFaithfulL] at hrf
    simp only [refDepthL] at hd
    rcases List.mem_cons.mp hm with heq | hm'
    · have heq' := heq.symm
      subst heq'
      exact admits_field O S hS D g n v hf.1 hrf.1 (by omega) hc hr
    · exact admits_mem O S hS D fs n hf.2 hrf.2 (by omega) f hm' v hc hr

theorem admits_opt (O : Oracles) (S : String → String → Bool)
    (hS : ∀ p s, O.reMatch p s = true → S p s = true) (D : Defs) :
    ∀ (fs : List FieldDecl) (n : Nat), fragOpt fs = true → RefsFaithfulL D fs → refDepthL fs ≤ n →
      ∀ f ∈ fs, isNoneF f = false → ∀ v, conforms O f v = true → regF O f v = true →
        Adm O (resolver D S n) S f v
  | [], _, _, _, _, _, h, _, _, _, _ => by simp at h
  | g :: fs, n, hf, hrf, hd, f, hm, hnf, v, hc, hr => by
    simp only [fragOpt, and_true_iff'] at hf
    simp only [RefsFaithfulL] at hrf
    simp only [refDepthL] at hd
    rcases List.mem_cons.mp hm with heq | hm'
    · have heq' := heq.symm
      subst heq'
      exact admits_field O S hS D g n v (by simpa [hnf] using hf.1) hrf.1 (by omega) hc hr
    · exact admits_opt O S hS D fs n hf.2 hrf.2 (by omega) f hm' hnf v hc hr

theorem admits_fields (O : Oracles) (S : String → String → Bool)
    (hS : ∀ p s, O.reMatch p s = true → S p s = true) (D : Defs) :
    ∀ (fields : List (String × FieldDecl)) (n : Nat), fragP fields = true → RefsFaithfulP D fields →
      refDepthP fields ≤ n →
      ∀ name f, (name, f) ∈ fields → ∀ v, conforms O f v = true → regF O f v = true →
        Adm O (resolver D S n) S f v
  | [], _, _, _, _, _, _, h, _, _, _ => by simp at h
  | (k, g) :: fields, n, hf, hrf, hd, name, f, hm, v, hc, hr => by
    simp only [fragP, and_true_iff'] at hf
    simp only [RefsFaithfulP] at hrf
    simp only [refDepthP] at hd
    rcases List.mem_cons.mp hm with heq | hm'
    · have heq' : g = f := (Prod.mk.inj heq).2.symm
      subst heq'
      exact admits_field O S hS D g n v hf.1 hrf.1 (by omega) hc hr
    · exact admits_fields O S hS D fields n hf.2 hrf.2 (by omega) name f hm' v hc hr
end

/-! ### classes -/

/-- `schema_admits` for a top-level class: the dialect-fixed schema accepts the serialization of
    every instance in the region, with any fuel that covers the nesting of class references -/
theorem admits_class (O : Oracles) (S : String → String → Bool)
    (hS : ∀ p s, O.reMatch p s = true → S p s = true) (D : Defs) (cls : FieldDecl) (x j : PyVal) (n : Nat)
    (hfrag : inSchemaFragment cls = true) (hrefs : ClassRefsFaithful D cls) (hd : refDepth cls ≤ n)
    (hreg : inAdmitRegion O cls x = true) (hser : serialize O cls x = .ok j) :
    jsV (resolver D S n) S (classSchema true cls) j = true := by
  cases cls with
  | struct c fields defaults =>
    simp only [inSchemaFragment, fragF, and_true_iff'] at hfrag
    obtain ⟨⟨hni, hncol⟩, ⟨hnd, hfp⟩⟩ := hfrag
    have hin : c.inline = false := by simpa using hni
    simp only [ClassRefsFaithful] at hrefs
    simp only [refDepth, hin, Bool.false_eq_true, if_false] at hd
    have hshape : structShape c defaults (emitP true fields) = classObj c defaults (emitP true fields) := by
      unfold structShape
      rw [emitP_names]
      simp only [Bool.not_eq_true'] at hncol
      simp [hncol]
    simp only [classSchema, hshape]
    exact adm_struct_core O _ S c fields defaults x j hnd
      (fun name f hm y hcy hry =>
        admits_fields O S hS D fields n hfp hrefs (by omega) name f hm y hcy hry) hreg hser
  | _ => simp [inSchemaFragment] at hfrag

/-- the region contains only well-formed instances (`Spec/Conforms.wellFormed`) -/
theorem region_wellFormed (O : Oracles) (cls : FieldDecl) (x : PyVal)
    (hfrag : inSchemaFragment cls = true) (hreg : inAdmitRegion O cls x = true) :
    wellFormed O cls x = true := by
  cases cls with
  | struct c fields defaults =>
    cases x with
    | inst cn attrs =>
      simp only [inAdmitRegion, regF, and_true_iff'] at hreg
      simp only [wellFormed, cInline, and_true_iff']
      exact ⟨hreg.1.1.1.1, hreg.1.1.2⟩
    | _ => simp [inAdmitRegion, regF] at hreg
  | _ => simp [inSchemaFragment] at hfrag

/-- the field-wrapper form: the schema of the class is the schema of its only field, and accepts
    the compact serialization (the serialized field value) -/
theorem admits_wrapper (O : Oracles) (S : String → String → Bool)
    (hS : ∀ p s, O.reMatch p s = true → S p s = true) (D : Defs) (c : ClassOpts) (name : String)
    (f : FieldDecl) (v j : PyVal) (n : Nat)
    (hcol : collapses c [name] = true) (hfrag : fragF f = true) (hrefs : RefsFaithful D f)
    (hd : refDepth f ≤ n) (hc : conforms O f v = true) (hreg : regF O f v = true)
    (hser : ser O f v = .ok j) :
    jsV (resolver D S n) S (classSchema true (.struct c [(name, f)] [])) j = true := by
  have : classSchema true (.struct c [(name, f)] []) = emit true f := by
    simp only [classSchema, structShape, emitP, List.map]
    simp [hcol]
  rw [this]
  exact admits_field O S hS D f n v hfrag hrefs hd hc hreg j hser

end Typedpy.Sch
