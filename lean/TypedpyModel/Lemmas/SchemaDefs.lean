/-
  Lemmas/SchemaDefs.lean — the definitions table as a whole: (1) the names defined only grow while a
  class is converted, hence EVERY class reference of EVERY declaration resolves in the table its
  conversion leaves behind (`c08_resolves_defsAccP`, no fragment and no name hypothesis); (2) on the
  well-formedness fragment every definition written into the table is a well-formed draft-4 schema
  (`c08_wfDefs_defsAccP`); together: `wfDocument` of what `structure_to_schema` returns
  (`c08_wf_document`, `c08_wf_document_fixed`).
-/
import TypedpyModel.Lemmas.SchemaWf
import TypedpyModel.Lemmas.SchemaDialect
namespace Typedpy.Sch
open Typedpy

/-! ### keys of the definitions table only grow -/

/-- every name defined in `D` is defined in `D'` -/
def KeysLe (D D' : Defs) : Prop := ∀ n, (lookup n D).isSome = true → (lookup n D').isSome = true

theorem c08_keysLe_refl (D : Defs) : KeysLe D D := fun _ h => h
theorem c08_keysLe_trans {A B C : Defs} (h1 : KeysLe A B) (h2 : KeysLe B C) : KeysLe A C :=
  fun n h => h2 n (h1 n h)

theorem c08_lookup_assocSet_self (n : String) (s : PyVal) : ∀ D : Defs, (lookup n (assocSet n s D)).isSome = true
  | [] => by simp [assocSet, lookup]
  | (k, w) :: rest => by
    simp only [assocSet]
    split
    · rename_i h; simp [lookup, h]
    · rename_i h; simp [lookup, h, c08_lookup_assocSet_self n s rest]

theorem c08_keysLe_assocSet (n : String) (s : PyVal) : ∀ D : Defs, KeysLe D (assocSet n s D)
  | [], m, h => by simp [lookup] at h
  | (k, w) :: rest, m, h => by
    simp only [assocSet]
    split
    · simp only [lookup] at h ⊢
      split
      · rfl
      · rename_i hmk; simp only [hmk] at h; exact h
    · simp only [lookup] at h ⊢
      split
      · rfl
      · rename_i hmk; simp only [hmk] at h
        exact c08_keysLe_assocSet n s rest m h

mutual
theorem c08_keysLe_defsAcc (fx : Bool) : ∀ (f : FieldDecl) (D : Defs), KeysLe D (defsAcc fx f D)
  | .seqOf _ f _, D => by simp only [defsAcc]; exact c08_keysLe_defsAcc fx f D
  | .seqPos _ fs _ _, D => by simp only [defsAcc]; exact c08_keysLe_defsAccL fx fs D
  | .setOf _ f _, D => by simp only [defsAcc]; exact c08_keysLe_defsAcc fx f D
  | .tupleOf f _, D => by simp only [defsAcc]; exact c08_keysLe_defsAcc fx f D
  | .tuplePos fs _, D => by simp only [defsAcc]; exact c08_keysLe_defsAccL fx fs D
  | .mapOf _ v _, D => by simp only [defsAcc]; exact c08_keysLe_defsAcc fx v D
  | .struct c fields defaults, D => by
    simp only [defsAcc]
    split
    · exact c08_keysLe_defsAccP fx fields D
    · exact c08_keysLe_trans (c08_keysLe_defsAccP fx fields D) (c08_keysLe_assocSet _ _ _)
  | .anyOf fs, D => by simp only [defsAcc]; exact c08_keysLe_defsAccL fx fs D
  | .oneOf fs, D => by simp only [defsAcc]; exact c08_keysLe_defsAccL fx fs D
  | .allOf fs, D => by simp only [defsAcc]; exact c08_keysLe_defsAccL fx fs D
  | .notF fs, D => by simp only [defsAcc]; exact c08_keysLe_defsAccL fx fs D
  | .number _, D => by simp only [defsAcc]; exact c08_keysLe_refl D
  | .integer _, D => by simp only [defsAcc]; exact c08_keysLe_refl D
  | .float _, D => by simp only [defsAcc]; exact c08_keysLe_refl D
  | .string _ _ _, D => by simp only [defsAcc]; exact c08_keysLe_refl D
  | .boolean, D => by simp only [defsAcc]; exact c08_keysLe_refl D
  | .enumLit _, D => by simp only [defsAcc]; exact c08_keysLe_refl D
  | .enumCls _ _, D => by simp only [defsAcc]; exact c08_keysLe_refl D
  | .seqAny _ _, D => by simp only [defsAcc]; exact c08_keysLe_refl D
  | .setAny _ _, D => by simp only [defsAcc]; exact c08_keysLe_refl D
  | .mapAny _, D => by simp only [defsAcc]; exact c08_keysLe_refl D
  | .noneF, D => by simp only [defsAcc]; exact c08_keysLe_refl D
  | .anything, D => by simp only [defsAcc]; exact c08_keysLe_refl D
theorem c08_keysLe_defsAccL (fx : Bool) : ∀ (fs : List FieldDecl) (D : Defs), KeysLe D (defsAccL fx fs D)
  | [], D => by simp only [defsAccL]; exact c08_keysLe_refl D
  | f :: fs, D => by
    simp only [defsAccL]
    exact c08_keysLe_trans (c08_keysLe_defsAcc fx f D) (c08_keysLe_defsAccL fx fs _)
theorem c08_keysLe_defsAccP (fx : Bool) : ∀ (ps : List (String × FieldDecl)) (D : Defs), KeysLe D (defsAccP fx ps D)
  | [], D => by simp only [defsAccP]; exact c08_keysLe_refl D
  | (_, f) :: ps, D => by
    simp only [defsAccP]
    exact c08_keysLe_trans (c08_keysLe_defsAcc fx f D) (c08_keysLe_defsAccP fx ps _)
end

/-! ### every `$ref` of a declaration resolves in the definitions its conversion leaves behind -/

theorem c08_lookup_ptrDefs (n : String) : ∀ D : Defs, (lookup n D).isSome = true →
    (lookup ("#/definitions/" ++ n) (ptrDefs D)).isSome = true
  | [], h => by simp [lookup] at h
  | (k, w) :: rest, h => by
    simp only [ptrDefs, lookup] at h ⊢
    by_cases hk : n = k
    · subst hk; simp
    · have hne : (n == k) = false := by simpa using hk
      simp only [hne, Bool.false_eq_true, if_false] at h
      split
      · rfl
      · exact c08_lookup_ptrDefs n rest h

theorem c08_lookup_ptrDefs_inv (p : String) : ∀ D : Defs, (lookup p (ptrDefs D)).isSome = true →
    ∃ k, p = "#/definitions/" ++ k ∧ (lookup k D).isSome = true
  | [], h => by simp [ptrDefs, lookup] at h
  | (k, w) :: rest, h => by
    simp only [ptrDefs, lookup] at h
    split at h
    · rename_i hp
      exact ⟨k, by simpa using hp, by simp [lookup]⟩
    · obtain ⟨k', hk1, hk2⟩ := c08_lookup_ptrDefs_inv p rest h
      refine ⟨k', hk1, ?_⟩
      simp only [lookup]
      split
      · rfl
      · exact hk2

/-- what resolves in the pointer table `P` resolves in `P'` -/
def PtrLe (P P' : Defs) : Prop := ∀ p, (lookup p P).isSome = true → (lookup p P').isSome = true

theorem c08_ptrLe_of_keysLe {D D' : Defs} (h : KeysLe D D') : PtrLe (ptrDefs D) (ptrDefs D') := by
  intro p hp
  obtain ⟨k, rfl, hk⟩ := c08_lookup_ptrDefs_inv p D hp
  exact c08_lookup_ptrDefs k D' (h k hk)

mutual
theorem c08_resolve_mono {P P' : Defs} (h : PtrLe P P') : ∀ f : FieldDecl, RefsResolve P f → RefsResolve P' f
  | .seqOf _ f _, hr => by simp only [RefsResolve] at hr ⊢; exact c08_resolve_mono h f hr
  | .seqPos _ fs _ _, hr => by simp only [RefsResolve] at hr ⊢; exact c08_resolve_monoL h fs hr
  | .setOf _ f _, hr => by simp only [RefsResolve] at hr ⊢; exact c08_resolve_mono h f hr
  | .tupleOf f _, hr => by simp only [RefsResolve] at hr ⊢; exact c08_resolve_mono h f hr
  | .tuplePos fs _, hr => by simp only [RefsResolve] at hr ⊢; exact c08_resolve_monoL h fs hr
  | .mapOf _ v _, hr => by simp only [RefsResolve] at hr ⊢; exact c08_resolve_mono h v hr
  | .struct c fields _, hr => by
    simp only [RefsResolve] at hr ⊢
    refine ⟨?_, c08_resolve_monoP h fields hr.2⟩
    rcases hr.1 with h1 | h1
    · exact Or.inl h1
    · exact Or.inr (h _ h1)
  | .anyOf fs, hr => by simp only [RefsResolve] at hr ⊢; exact c08_resolve_monoL h fs hr
  | .oneOf fs, hr => by simp only [RefsResolve] at hr ⊢; exact c08_resolve_monoL h fs hr
  | .allOf fs, hr => by simp only [RefsResolve] at hr ⊢; exact c08_resolve_monoL h fs hr
  | .notF fs, hr => by simp only [RefsResolve] at hr ⊢; exact c08_resolve_monoL h fs hr
  | .number _, _ => by simp only [RefsResolve]
  | .integer _, _ => by simp only [RefsResolve]
  | .float _, _ => by simp only [RefsResolve]
  | .string _ _ _, _ => by simp only [RefsResolve]
  | .boolean, _ => by simp only [RefsResolve]
  | .enumLit _, _ => by simp only [RefsResolve]
  | .enumCls _ _, _ => by simp only [RefsResolve]
  | .seqAny _ _, _ => by simp only [RefsResolve]
  | .setAny _ _, _ => by simp only [RefsResolve]
  | .mapAny _, _ => by simp only [RefsResolve]
  | .noneF, _ => by simp only [RefsResolve]
  | .anything, _ => by simp only [RefsResolve]
theorem c08_resolve_monoL {P P' : Defs} (h : PtrLe P P') : ∀ fs : List FieldDecl, RefsResolveL P fs → RefsResolveL P' fs
  | [], _ => by simp only [RefsResolveL]
  | f :: fs, hr => by
    simp only [RefsResolveL] at hr ⊢
    exact ⟨c08_resolve_mono h f hr.1, c08_resolve_monoL h fs hr.2⟩
theorem c08_resolve_monoP {P P' : Defs} (h : PtrLe P P') : ∀ ps : List (String × FieldDecl),
    RefsResolveP P ps → RefsResolveP P' ps
  | [], _ => by simp only [RefsResolveP]
  | (_, f) :: ps, hr => by
    simp only [RefsResolveP] at hr ⊢
    exact ⟨c08_resolve_mono h f hr.1, c08_resolve_monoP h ps hr.2⟩
end

mutual
/-- **every class reference of a declaration resolves in the definitions table its conversion leaves
    behind** — for every declaration, whatever was in the table before -/
theorem c08_resolves_defsAcc (fx : Bool) : ∀ (f : FieldDecl) (D : Defs), RefsResolve (ptrDefs (defsAcc fx f D)) f
  | .seqOf _ f _, D => by simp only [RefsResolve, defsAcc]; exact c08_resolves_defsAcc fx f D
  | .seqPos _ fs _ _, D => by simp only [RefsResolve, defsAcc]; exact c08_resolves_defsAccL fx fs D
  | .setOf _ f _, D => by simp only [RefsResolve, defsAcc]; exact c08_resolves_defsAcc fx f D
  | .tupleOf f _, D => by simp only [RefsResolve, defsAcc]; exact c08_resolves_defsAcc fx f D
  | .tuplePos fs _, D => by simp only [RefsResolve, defsAcc]; exact c08_resolves_defsAccL fx fs D
  | .mapOf _ v _, D => by simp only [RefsResolve, defsAcc]; exact c08_resolves_defsAcc fx v D
  | .struct c fields defaults, D => by
    simp only [RefsResolve, defsAcc]
    split
    · rename_i hin
      exact ⟨Or.inl hin, c08_resolves_defsAccP fx fields D⟩
    · refine ⟨Or.inr (c08_lookup_ptrDefs _ _ (c08_lookup_assocSet_self _ _ _)), ?_⟩
      exact c08_resolve_monoP (c08_ptrLe_of_keysLe (c08_keysLe_assocSet _ _ _)) fields
        (c08_resolves_defsAccP fx fields D)
  | .anyOf fs, D => by simp only [RefsResolve, defsAcc]; exact c08_resolves_defsAccL fx fs D
  | .oneOf fs, D => by simp only [RefsResolve, defsAcc]; exact c08_resolves_defsAccL fx fs D
  | .allOf fs, D => by simp only [RefsResolve, defsAcc]; exact c08_resolves_defsAccL fx fs D
  | .notF fs, D => by simp only [RefsResolve, defsAcc]; exact c08_resolves_defsAccL fx fs D
  | .number _, _ => by simp only [RefsResolve]
  | .integer _, _ => by simp only [RefsResolve]
  | .float _, _ => by simp only [RefsResolve]
  | .string _ _ _, _ => by simp only [RefsResolve]
  | .boolean, _ => by simp only [RefsResolve]
  | .enumLit _, _ => by simp only [RefsResolve]
  | .enumCls _ _, _ => by simp only [RefsResolve]
  | .seqAny _ _, _ => by simp only [RefsResolve]
  | .setAny _ _, _ => by simp only [RefsResolve]
  | .mapAny _, _ => by simp only [RefsResolve]
  | .noneF, _ => by simp only [RefsResolve]
  | .anything, _ => by simp only [RefsResolve]
theorem c08_resolves_defsAccL (fx : Bool) : ∀ (fs : List FieldDecl) (D : Defs),
    RefsResolveL (ptrDefs (defsAccL fx fs D)) fs
  | [], _ => by simp only [RefsResolveL]
  | f :: fs, D => by
    simp only [RefsResolveL, defsAccL]
    exact ⟨c08_resolve_mono (c08_ptrLe_of_keysLe (c08_keysLe_defsAccL fx fs _)) f (c08_resolves_defsAcc fx f D),
      c08_resolves_defsAccL fx fs _⟩
theorem c08_resolves_defsAccP (fx : Bool) : ∀ (ps : List (String × FieldDecl)) (D : Defs),
    RefsResolveP (ptrDefs (defsAccP fx ps D)) ps
  | [], _ => by simp only [RefsResolveP]
  | (_, f) :: ps, D => by
    simp only [RefsResolveP, defsAccP]
    exact ⟨c08_resolve_mono (c08_ptrLe_of_keysLe (c08_keysLe_defsAccP fx ps _)) f (c08_resolves_defsAcc fx f D),
      c08_resolves_defsAccP fx ps _⟩
end

/-! ### every definition is a well-formed draft-4 schema -/

theorem c08_wfDefs_assocSet (Dp : Defs) (n : String) (s : PyVal) (hs : wfDraft4 Dp s = true) :
    ∀ D : Defs, wfDefs Dp D = true → wfDefs Dp (assocSet n s D) = true
  | [], _ => by simp [assocSet, wfDefs, hs]
  | (k, w) :: rest, h => by
    simp only [wfDefs, and_true_iff'] at h
    simp only [assocSet]
    split
    · simp only [wfDefs, and_true_iff']; exact ⟨hs, h.2⟩
    · simp only [wfDefs, and_true_iff']; exact ⟨h.1, c08_wfDefs_assocSet Dp n s hs rest h.2⟩

mutual
theorem c08_wfDefs_defsAcc (Dp : Defs) : ∀ (f : FieldDecl) (D : Defs), wfFragF f = true → RefsResolve Dp f →
    wfDefs Dp D = true → wfDefs Dp (defsAcc true f D) = true
  | .seqOf _ f _, D, hf, hr, hD => by
    simp only [wfFragF, and_true_iff'] at hf; simp only [RefsResolve] at hr; simp only [defsAcc]
    exact c08_wfDefs_defsAcc Dp f D hf.2 hr hD
  | .seqPos _ fs _ _, D, hf, hr, hD => by
    simp only [wfFragF, and_true_iff'] at hf; simp only [RefsResolve] at hr; simp only [defsAcc]
    exact c08_wfDefs_defsAccL Dp fs D hf.2 hr hD
  | .setOf _ f _, D, hf, hr, hD => by
    simp only [wfFragF] at hf; simp only [RefsResolve] at hr; simp only [defsAcc]
    exact c08_wfDefs_defsAcc Dp f D hf hr hD
  | .tupleOf f _, D, hf, hr, hD => by
    simp only [wfFragF] at hf; simp only [RefsResolve] at hr; simp only [defsAcc]
    exact c08_wfDefs_defsAcc Dp f D hf hr hD
  | .tuplePos fs _, D, hf, hr, hD => by
    simp only [wfFragF, and_true_iff'] at hf; simp only [RefsResolve] at hr; simp only [defsAcc]
    exact c08_wfDefs_defsAccL Dp fs D hf.2 hr hD
  | .mapOf _ v _, D, hf, hr, hD => by
    simp only [wfFragF, and_true_iff'] at hf; simp only [RefsResolve] at hr; simp only [defsAcc]
    exact c08_wfDefs_defsAcc Dp v D hf.2 hr hD
  | .struct c fields defaults, D, hf, hr, hD => by
    simp only [wfFragF, and_true_iff'] at hf
    obtain ⟨⟨⟨hreq, hnd⟩, hdef⟩, hfp⟩ := hf
    simp only [RefsResolve] at hr
    simp only [defsAcc]
    have hrest := c08_wfDefs_defsAccP Dp fields D hfp hr.2 hD
    split
    · exact hrest
    · refine c08_wfDefs_assocSet Dp _ _ ?_ _ hrest
      refine c08_wf_classObj Dp c defaults _ (by simpa using hreq) hnd hdef ?_
      intro n s hm
      obtain ⟨f, hmf, rfl⟩ := emitP_mem true n s fields hm
      exact wf_fields Dp fields hfp hr.2 n f hmf
  | .anyOf fs, D, hf, hr, hD => by
    simp only [RefsResolve] at hr; simp only [defsAcc]
    cases hos : optShape fs with
    | true =>
      simp only [wfFragF, hos, if_true] at hf
      exact c08_wfDefs_defsAccOpt Dp fs D hf hr hD
    | false =>
      simp only [wfFragF, hos, Bool.false_eq_true, if_false, and_true_iff'] at hf
      exact c08_wfDefs_defsAccL Dp fs D hf.2 hr hD
  | .oneOf fs, D, hf, hr, hD => by
    simp only [wfFragF, and_true_iff'] at hf; simp only [RefsResolve] at hr; simp only [defsAcc]
    exact c08_wfDefs_defsAccL Dp fs D hf.2 hr hD
  | .allOf fs, D, hf, hr, hD => by
    simp only [wfFragF, and_true_iff'] at hf; simp only [RefsResolve] at hr; simp only [defsAcc]
    exact c08_wfDefs_defsAccL Dp fs D hf.2 hr hD
  | .notF fs, D, hf, hr, hD => by
    simp only [wfFragF, and_true_iff'] at hf; simp only [RefsResolve] at hr; simp only [defsAcc]
    exact c08_wfDefs_defsAccL Dp fs D hf.2 hr hD
  | .number _, _, _, _, hD => by simp only [defsAcc]; exact hD
  | .integer _, _, _, _, hD => by simp only [defsAcc]; exact hD
  | .float _, _, _, _, hD => by simp only [defsAcc]; exact hD
  | .string _ _ _, _, _, _, hD => by simp only [defsAcc]; exact hD
  | .boolean, _, _, _, hD => by simp only [defsAcc]; exact hD
  | .enumLit _, _, _, _, hD => by simp only [defsAcc]; exact hD
  | .enumCls _ _, _, _, _, hD => by simp only [defsAcc]; exact hD
  | .seqAny _ _, _, _, _, hD => by simp only [defsAcc]; exact hD
  | .setAny _ _, _, _, _, hD => by simp only [defsAcc]; exact hD
  | .mapAny _, _, _, _, hD => by simp only [defsAcc]; exact hD
  | .noneF, _, _, _, hD => by simp only [defsAcc]; exact hD
  | .anything, _, _, _, hD => by simp only [defsAcc]; exact hD
theorem c08_wfDefs_defsAccL (Dp : Defs) : ∀ (fs : List FieldDecl) (D : Defs), wfFragL fs = true →
    RefsResolveL Dp fs → wfDefs Dp D = true → wfDefs Dp (defsAccL true fs D) = true
  | [], _, _, _, hD => by simp only [defsAccL]; exact hD
  | f :: fs, D, hf, hr, hD => by
    simp only [wfFragL, and_true_iff'] at hf; simp only [RefsResolveL] at hr; simp only [defsAccL]
    exact c08_wfDefs_defsAccL Dp fs _ hf.2 hr.2 (c08_wfDefs_defsAcc Dp f D hf.1 hr.1 hD)
theorem c08_wfDefs_defsAccOpt (Dp : Defs) : ∀ (fs : List FieldDecl) (D : Defs), wfFragOpt fs = true →
    RefsResolveL Dp fs → wfDefs Dp D = true → wfDefs Dp (defsAccL true fs D) = true
  | [], _, _, _, hD => by simp only [defsAccL]; exact hD
  | f :: fs, D, hf, hr, hD => by
    simp only [wfFragOpt, and_true_iff'] at hf; simp only [RefsResolveL] at hr; simp only [defsAccL]
    refine c08_wfDefs_defsAccOpt Dp fs _ hf.2 hr.2 ?_
    cases hn : isNoneF f with
    | true =>
      cases f <;> simp [isNoneF] at hn
      simp only [defsAcc]; exact hD
    | false => exact c08_wfDefs_defsAcc Dp f D (by simpa [hn] using hf.1) hr.1 hD
theorem c08_wfDefs_defsAccP (Dp : Defs) : ∀ (ps : List (String × FieldDecl)) (D : Defs), wfFragP ps = true →
    RefsResolveP Dp ps → wfDefs Dp D = true → wfDefs Dp (defsAccP true ps D) = true
  | [], _, _, _, hD => by simp only [defsAccP]; exact hD
  | (_, f) :: ps, D, hf, hr, hD => by
    simp only [wfFragP, and_true_iff'] at hf; simp only [RefsResolveP] at hr; simp only [defsAccP]
    exact c08_wfDefs_defsAccP Dp ps _ hf.2 hr.2 (c08_wfDefs_defsAcc Dp f D hf.1 hr.1 hD)
end

/-- the fields of a class in the well-formedness fragment are in it -/
theorem c08_wfFragP_of_class (c : ClassOpts) (fields : List (String × FieldDecl)) (defaults : List (String × PyVal))
    (h : inWfFragment (.struct c fields defaults) = true) : wfFragP fields = true := by
  simp only [inWfFragment, and_true_iff'] at h
  cases hcol : collapses c (fields.map (·.1)) with
  | true => simpa [hcol] using h.2
  | false =>
    have := h.2
    simp only [hcol, Bool.false_eq_true, if_false, wfFragF, and_true_iff'] at this
    exact this.2

/-- **the whole document `structure_to_schema` returns is well-formed**: the schema and EVERY
    definition are draft-4 schemas and every `$ref` anywhere in them resolves inside the returned
    definitions — no hypothesis on class names -/
theorem c08_wf_document (cls : FieldDecl) (hfrag : inWfFragment cls = true) :
    wfDocument (classSchema true cls) (classDefs true cls) = true := by
  cases cls with
  | struct c fields defaults =>
    have hres : RefsResolveP (ptrDefs (classDefs true (.struct c fields defaults))) fields := by
      simp only [classDefs]; exact c08_resolves_defsAccP true fields []
    simp only [wfDocument, and_true_iff']
    refine ⟨wf_class _ _ hfrag hres, ?_⟩
    simp only [classDefs] at hres ⊢
    exact c08_wfDefs_defsAccP _ fields [] (c08_wfFragP_of_class c fields defaults hfrag) hres rfl
  | _ => simp [inWfFragment] at hfrag

theorem c08_wf_document_fixed (cls : FieldDecl) (hfrag : inWfFragment cls = true) :
    wfDocument (dialectFix (toSchema cls).1) (fixDefs (toSchema cls).2) = true := by
  simp only [toSchema, c08_fix_classSchema, c08_fix_classDefs]
  exact c08_wf_document cls hfrag

end Typedpy.Sch
