import TypedpyModel.Lemmas.LiftNames
import TypedpyModel.Lemmas.DeserErr
namespace Typedpy
open PyVal (pyEq pyMem pyNodup)

theorem vConstruct_ok_inst (c : ClassOpts) (names : List String) (kw : List (String × PyVal))
    (g : R (List (String × PyVal))) (y : PyVal) (h : vConstruct c names kw g = .ok y) :
    ∃ attrs, y = .inst c.name attrs := by
  unfold vConstruct at h
  split at h
  · cases h
  · rcases bindE_eq_ok h with ⟨attrs, _, h2⟩
    cases h2
    exact ⟨_, rfl⟩

theorem mkSeq_nonNone (k : SeqKind) (xs : List PyVal) : (mkSeq k xs).isNone = false := by
  cases k <;> rfl

/-- a successfully deserialized non-null document is not None -/
theorem deser_ok_nonNone_plain (O : Oracles) (opts : DeserOpts) (f : FieldDecl) (v y : PyVal)
    (hex : exactDecl f = true) (hp : ∀ fs, f ≠ .anyOf fs) (hn : v.isNone = false)
    (h : deser O opts false f v = .ok y) : y.isNone = false := by
  cases f <;> simp only [exactDecl] at hex <;> try (cases hex)
  case anyOf fs => exact absurd rfl (hp fs)
  all_goals simp only [deser, Bool.and_false, Bool.false_eq_true, if_false] at h
  case noneF => simp [hn] at h
  case number o => unfold dValidated at h; split at h <;> simp at h; subst h; exact hn
  case integer o => unfold dValidated at h; split at h <;> simp at h; subst h; exact hn
  case float o => unfold dValidated at h; split at h <;> simp at h; subst h; exact hn
  case string lo hi pat => unfold dValidated at h; split at h <;> simp at h; subst h; exact hn
  case boolean => unfold dValidated at h; split at h <;> simp at h; subst h; exact hn
  case enumLit vals => unfold dValidated at h; split at h <;> simp at h; subst h; exact hn
  case enumCls cls names =>
    unfold dEnumCls at h
    split at h
    · split at h <;> simp at h; subst h; rfl
    · unfold dValidated at h; split at h <;> simp at h; subst h; exact hn
  case seqOf k g sz =>
    unfold dSeq at h
    split at h
    · cases h
    · rcases bindE_eq_ok h with ⟨ys, _, h2⟩; cases h2; exact mkSeq_nonNone k ys
  case seqPos k gs addl sz =>
    unfold dSeq at h
    split at h
    · cases h
    · rcases bindE_eq_ok h with ⟨ys, _, h2⟩; cases h2; exact mkSeq_nonNone k ys
  case tupleOf g u =>
    unfold dSeq at h
    split at h
    · cases h
    · rcases bindE_eq_ok h with ⟨ys, _, h2⟩; cases h2; rfl
  case tuplePos gs u =>
    unfold dSeq at h
    split at h
    · cases h
    · rcases bindE_eq_ok h with ⟨ys, _, h2⟩; cases h2; rfl
  case setOf imm g sz =>
    unfold dSeq at h
    split at h
    · cases h
    · rcases bindE_eq_ok h with ⟨ys, _, h2⟩
      unfold mkSet at h2
      split at h2
      · cases h2
      · cases h2; rfl
  case mapOf kf vf sz =>
    unfold dMap at h
    split at h
    · rcases bindE_eq_ok h with ⟨r, _, h2⟩
      split at h2
      · cases h2
      · cases h2; rfl
    · cases h
  case struct c fields defaults =>
    simp only [and_true_iff] at hex
    by_cases hinlT : c.inline = true
    · simp only [hinlT, if_true] at h
      cases v with
      | dict kvs =>
        unfold dInline at h
        simp only at h
        split at h
        · split at h
          · split at h
            · rename_i x hx
              cases h
              rcases bindE_eq_ok hx with ⟨args, _, h2⟩
              rcases bindE_eq_ok h2 with ⟨_, _, h3⟩
              cases h3; rfl
            · cases h
          · cases h
        · split at h
          · rename_i x hx
            cases h
            rcases bindE_eq_ok hx with ⟨args, _, h2⟩
            rcases bindE_eq_ok h2 with ⟨_, _, h3⟩
            cases h3; rfl
          · cases h
      | _ => simp [dInline] at h
    have hinl : c.inline = false := by simpa using hinlT
    simp only [hinl, Bool.false_eq_true, if_false] at h
    cases v with
    | inst n a => simp [dClassRef] at h; subst h; rfl
    | dict kvs =>
      rcases dClassRef_dict_ok kvs _ _ _ y h with ⟨kw, hk⟩
      rcases bindE_eq_ok hk with ⟨args, _, h2⟩
      rcases vConstruct_ok_inst _ _ _ _ y h2 with ⟨attrs, rfl⟩
      rfl
    | _ => simp [dClassRef] at h

/-- the lifting of a non-null document is not None -/
theorem lift_some_nonNone_plain (O : Oracles) (opts : DeserOpts) (f : FieldDecl) (v w : PyVal)
    (hex : exactDecl f = true) (hp : ∀ fs, f ≠ .anyOf fs) (hn : v.isNone = false)
    (h : lift O opts f v = some w) : w.isNone = false := by
  cases f <;> simp only [exactDecl] at hex <;> try (cases hex)
  case anyOf fs => exact absurd rfl (hp fs)
  all_goals simp only [lift] at h
  case noneF => cases h; exact hn
  case number o => cases h; exact hn
  case integer o => cases h; exact hn
  case float o => cases h; exact hn
  case string lo hi pat => cases h; exact hn
  case boolean => cases h; exact hn
  case enumLit vals => cases h; exact hn
  case enumCls cls names => cases h; exact hn
  case seqOf k g sz =>
    cases hl : listDoc v with
    | none => simp [hl] at h
    | some js =>
      simp only [hl, Option.bind_some] at h
      cases hm : mapO (lift O opts g) js with
      | none => simp [hm] at h
      | some ws => simp [hm] at h; subst h; exact mkSeq_nonNone k ws
  case seqPos k gs addl sz =>
    cases hl : listDoc v with
    | none => simp [hl] at h
    | some js =>
      simp only [hl, Option.bind_some] at h
      cases hm : liftZip O opts gs js with
      | none => simp [hm] at h
      | some ws => simp [hm] at h; subst h; exact mkSeq_nonNone k ws
  case tupleOf g u =>
    cases hl : listDoc v with
    | none => simp [hl] at h
    | some js =>
      simp only [hl, Option.bind_some] at h
      cases hm : mapO (lift O opts g) js with
      | none => simp [hm] at h
      | some ws => simp [hm] at h; subst h; rfl
  case tuplePos gs u =>
    cases hl : listDoc v with
    | none => simp [hl] at h
    | some js =>
      simp only [hl, Option.bind_some] at h
      cases hm : liftZip O opts gs js with
      | none => simp [hm] at h
      | some ws => simp [hm] at h; subst h; rfl
  case setOf imm g sz =>
    cases hl : listDoc v with
    | none => simp [hl] at h
    | some js =>
      simp only [hl, Option.bind_some] at h
      cases hm : mapO (lift O opts g) js with
      | none => simp [hm] at h
      | some ws =>
        simp only [hm, Option.bind_some] at h
        split at h
        · cases h
        · cases h; rfl
  case mapOf kf vf sz =>
    cases v with
    | dict kvs =>
      simp only at h
      rcases Option.bind_eq_some_iff.mp h with ⟨r, _, h2⟩
      split at h2
      · cases h2
      · cases h2; rfl
    | _ => simp at h
  case struct c fields defaults =>
    simp only [and_true_iff] at hex
    by_cases hinlT : c.inline = true
    · cases v with
      | inst n a => simp at h; subst h; rfl
      | dict kvs =>
        simp only at h
        cases hk : kwOfDict kvs with
        | none => simp [hk] at h
        | some doc =>
          simp only [hk, Option.bind_some] at h
          cases hl : liftFields O opts c doc fields with
          | none => simp [hl] at h
          | some args =>
            simp only [hl, Option.bind_some, hinlT, if_true] at h
            split at h
            · cases h; rfl
            · cases h
      | _ => simp at h
    have hinl : c.inline = false := by simpa using hinlT
    cases v with
    | inst n a => simp at h; subst h; rfl
    | dict kvs =>
      simp only at h
      cases hk : kwOfDict kvs with
      | none => simp [hk] at h
      | some doc =>
        simp only [hk, Option.bind_some] at h
        cases hl : liftFields O opts c doc fields with
        | none => simp [hl] at h
        | some args =>
          simp only [hl, Option.bind_some, hinl] at h
          split at h
          · rename_i x hx
            rcases vConstruct_ok_inst _ _ _ _ x hx with ⟨attrs, rfl⟩
            simp at h; subst h; rfl
          · cases h
    | _ => simp at h

/-- the shape of an `Optional[X]` declaration of the exact fragment -/
theorem exactOpt_cases (fs : List FieldDecl) (h : exactOpt fs = true) :
    ∃ f g, fs = [f, g] ∧ ((isNoneDecl f = true ∧ plainDecl g = true ∧ exactDecl g = true)
                        ∨ (isNoneDecl g = true ∧ plainDecl f = true ∧ exactDecl f = true)) := by
  match fs, h with
  | [f, g], h =>
    simp only [exactOpt, Bool.or_eq_true, Bool.and_eq_true] at h
    refine ⟨f, g, rfl, ?_⟩
    rcases h with h | h
    · exact Or.inl ⟨h.1.1, h.1.2, h.2⟩
    · exact Or.inr ⟨h.1.1, h.1.2, h.2⟩

theorem isNoneDecl_eq (f : FieldDecl) (h : isNoneDecl f = true) : f = .noneF := by
  cases f <;> simp [isNoneDecl] at h <;> rfl

theorem plain_not_anyOf (f : FieldDecl) (h : plainDecl f = true) : ∀ fs, f ≠ .anyOf fs := by
  intro fs hf; subst hf; simp [plainDecl] at h

/-- a declaration that does not accept None: the constructor's validation rejects None -/
theorem plain_validate_none (O : Oracles) (f : FieldDecl) (hex : exactDecl f = true) (hp : plainDecl f = true) :
    ∃ e, validate O f .none = .error e := by
  cases f <;> simp only [exactDecl] at hex <;> try (cases hex)
  all_goals simp only [validate]
  case noneF => simp [plainDecl] at hp
  case number o => exact ⟨_, rfl⟩
  case integer o => exact ⟨_, rfl⟩
  case float o => exact ⟨_, rfl⟩
  case string lo hi pat => exact ⟨_, rfl⟩
  case boolean => exact ⟨_, rfl⟩
  case enumLit vals =>
    have : PyVal.pyMem .none vals = false := by simpa [plainDecl] using hp
    simp [vEnumLit, this]
  case enumCls cls names => exact ⟨_, rfl⟩
  case seqOf k g sz => cases k <;> exact ⟨_, rfl⟩
  case seqPos k gs addl sz => cases k <;> exact ⟨_, rfl⟩
  case setOf imm g sz => exact ⟨_, rfl⟩
  case tupleOf g u => exact ⟨_, rfl⟩
  case tuplePos gs u => exact ⟨_, rfl⟩
  case mapOf kf vf sz => exact ⟨_, rfl⟩
  case struct c fields defaults =>
    by_cases hinlT : c.inline = true
    · simp [hinlT, vInline]
    · have hinl : c.inline = false := by simpa using hinlT
      simp [hinl, vClassRef]
  case anyOf fs => simp [plainDecl] at hp

/-- ... and so does the deserializer -/
theorem plain_deser_none (O : Oracles) (opts : DeserOpts) (f : FieldDecl) (hex : exactDecl f = true)
    (hp : plainDecl f = true) : ∃ e, deser O opts false f .none = .error e := by
  cases f <;> simp only [exactDecl] at hex <;> try (cases hex)
  all_goals simp only [deser, Bool.and_false, Bool.false_eq_true, if_false]
  case noneF => simp [plainDecl] at hp
  case number o => exact ⟨_, rfl⟩
  case integer o => exact ⟨_, rfl⟩
  case float o => exact ⟨_, rfl⟩
  case string lo hi pat => exact ⟨_, rfl⟩
  case boolean => exact ⟨_, rfl⟩
  case enumLit vals =>
    have : PyVal.pyMem .none vals = false := by simpa [plainDecl] using hp
    simp [dValidated, vEnumLit, this]
  case enumCls cls names => exact ⟨_, rfl⟩
  case seqOf k g sz => exact ⟨_, rfl⟩
  case seqPos k gs addl sz => exact ⟨_, rfl⟩
  case setOf imm g sz => exact ⟨_, rfl⟩
  case tupleOf g u => exact ⟨_, rfl⟩
  case tuplePos gs u => exact ⟨_, rfl⟩
  case mapOf kf vf sz => exact ⟨_, rfl⟩
  case struct c fields defaults =>
    by_cases hinlT : c.inline = true
    · simp [hinlT, dInline]
    · have hinl : c.inline = false := by simpa using hinlT
      simp [hinl, dClassRef]
  case anyOf fs => simp [plainDecl] at hp

end Typedpy
