/-
  Lemmas/ElabFlat.lean — C13, second lemma file.
  (1) typing's / Python's flattening of directly nested `Union[…]` / `Optional[…]` / PEP 604 `|` between non-field
      operands: a tree of such unions over supported, pairwise distinct leaves (operand kinds as `Spec/Meaning.pipeKind`
      requires) evaluates - in the model of Python's evaluation, `ev` with `mkUnion` / `mkUType` = flatten + de-duplicate -
      to ONE union object of the leaves' objects (`ev_flatten`), which `get_typing_lib_info` maps to the AnyOf of the
      flattened documented alternatives (`gtli_flatten`, `Spec/Meaning.flatAlts`).  Induction over the tree with an
      operand-kind invariant (`KindOk`); no depth bound.
  (2) `_required` written out (`explicitReq_eq`, `finishClass_explicit`), "a supported declaration never drops its
      field" (`elabFields_allField`), and the field / class level over the union of both proved regions
      (`elabField_flatMeaning`, `elabFieldAt_meaningX`, `elabFields_sameX`).
-/
import TypedpyModel.Lemmas.Elab
namespace Typedpy.Elab
open Typedpy

theorem dedupObj_of_distinct : ∀ l : List Obj, allDistinct l = true → dedupObj l = l
  | [], _ => rfl
  | x :: xs, h => by
    simp only [allDistinct, Bool.and_eq_true] at h
    simp only [dedupObj, dedupObj_of_distinct xs h.2]
    congr 1
    rw [List.filter_eq_self]
    intro y hy
    have := List.all_eq_true.mp h.1 y hy
    simpa using this

theorem allDistinct_append_left : ∀ (a b : List Obj), allDistinct (a ++ b) = true → allDistinct a = true
  | [], _, _ => rfl
  | x :: xs, b, h => by
    simp only [List.cons_append, allDistinct, Bool.and_eq_true, List.all_append] at h
    simp only [allDistinct, Bool.and_eq_true]
    exact ⟨h.1.1, allDistinct_append_left xs b h.2⟩

theorem allDistinct_append_right : ∀ (a b : List Obj), allDistinct (a ++ b) = true → allDistinct b = true
  | [], _, h => h
  | x :: xs, b, h => by
    simp only [List.cons_append, allDistinct, Bool.and_eq_true] at h
    exact allDistinct_append_right xs b h.2

theorem gtliArgs_append (b : Bool) : ∀ (l₁ l₂ : List Obj) (d₁ d₂ : List FieldDecl),
    gtliArgs ptm b l₁ = .ok d₁ → gtliArgs ptm b l₂ = .ok d₂ → gtliArgs ptm b (l₁ ++ l₂) = .ok (d₁ ++ d₂)
  | [], l₂, d₁, d₂, h₁, h₂ => by
    simp [gtliArgs] at h₁; subst h₁; simpa using h₂
  | a :: l₁, l₂, d₁, d₂, h₁, h₂ => by
    simp only [gtliArgs, List.cons_append] at h₁ ⊢
    cases hg : gtli ptm a with
    | error e => simp [hg] at h₁
    | ok r =>
      simp only [hg, bindE_ok] at h₁ ⊢
      cases ha : argOf b (isClassObj ptm a) r with
      | error e => simp [ha] at h₁
      | ok d =>
        simp only [ha, bindE_ok] at h₁ ⊢
        cases hr : gtliArgs ptm b l₁ with
        | error e => simp [hr] at h₁
        | ok ds =>
          simp only [hr, bindE_ok] at h₁
          injection h₁ with h₁
          subst h₁
          simp [gtliArgs_append b l₁ l₂ ds d₂ hr h₂]

theorem mkUnion_of_distinct (l : List Obj) (h : allDistinct l = true) (hl : 2 ≤ l.length) : mkUnion l = .tUnion l := by
  unfold mkUnion
  rw [dedupObj_of_distinct l h]
  match l, hl with
  | _ :: _ :: _, _ => rfl

theorem mkUType_of_distinct (l : List Obj) (h : allDistinct l = true) (hl : 2 ≤ l.length) : mkUType l = .uType l := by
  unfold mkUType
  rw [dedupObj_of_distinct l h]
  match l, hl with
  | _ :: _ :: _, _ => rfl

/-- facts about the object of a subtree that `pipeObj` branches on -/
def KindOk (k : UKind) (o : Obj) : Prop :=
  match k with
  | .typing => isFieldObj o = false ∧ typingObj ptm o = true
  | .plain => isFieldObj o = false ∧ typingObj ptm o = false ∧ plainType ptm o = true
  | .fcls => typingObj ptm o = false ∧ plainType ptm o = false ∧ isFclsObj o = true
  | .none => o = .noneV
  | .bad => True

theorem leafKind_ok (s : Sp) (o : Obj) (hs : supported ptm s = true) (hev : ev ptm s = .ok o) :
    KindOk (leafKind s) o := by
  have hn : isNoneLit s = false := by cases s <;> first | rfl | simp [supported] at hs
  by_cases hp : plainSp s = true
  · have h1 := plainSp_plainType hp hev
    have h2 := plainSp_not_typing hp hev
    have hk : leafKind s = .plain := by simp [leafKind, hn, hp]
    rw [hk]
    refine ⟨?_, h2, h1⟩
    cases o <;> first | rfl | simp [plainType] at h1
  · have hp' : plainSp s = false := by simpa using hp
    cases s <;> simp only [leafKind, hn, hp', isNoneLit, Bool.false_eq_true, if_false, KindOk] <;> try trivial
    case bareTyping c => simp [ev] at hev; subst hev; exact ⟨rfl, by simp [typingObj, generic_tcoll]⟩
    case tDictBare => simp [ev] at hev; subst hev; exact ⟨rfl, rfl⟩
    case typingG c x =>
      simp only [ev] at hev
      cases hx : ev ptm x with
      | error e => simp [hx] at hev
      | ok ox => simp [hx] at hev; subst hev; exact ⟨rfl, rfl⟩
    case dictTyping k v =>
      simp only [ev] at hev
      cases hk : ev ptm k with
      | error e => simp [hk] at hev
      | ok ok' =>
        cases hv : ev ptm v with
        | error e => simp [hk, hv] at hev
        | ok ov => simp [hk, hv] at hev; subst hev; exact ⟨rfl, rfl⟩
    case tupTyping k v =>
      simp only [ev] at hev
      cases hk : ev ptm k with
      | error e => simp [hk] at hev
      | ok ok' =>
        cases hv : ev ptm v with
        | error e => simp [hk, hv] at hev
        | ok ov => simp [hk, hv] at hev; subst hev; exact ⟨rfl, rfl⟩
    case fcls k => simp [ev] at hev; subst hev; exact ⟨rfl, rfl, rfl⟩
    case bareCls c => simp [ev] at hev; subst hev; exact ⟨rfl, rfl, rfl⟩
    case mapBare => simp [ev] at hev; subst hev; exact ⟨rfl, rfl, rfl⟩


theorem pipe_typing_left (l r : Obj) (h1 : isFieldObj l = false) (h2 : typingObj ptm l = true) :
    pipeObj ptm l r = .ok (mkUnion (unionMembers l ++ unionMembers r)) := by simp [pipeObj, h1, h2]

theorem pipe_plain_typing (l r : Obj) (h1 : isFieldObj l = false) (h2 : typingObj ptm l = false)
    (h3 : plainType ptm l = true) (h4 : typingObj ptm r = true) :
    pipeObj ptm l r = .ok (mkUnion (unionMembers l ++ unionMembers r)) := by simp [pipeObj, h1, h2, h3, h4]

theorem pipe_plain_plain (l r : Obj) (h1 : isFieldObj l = false) (h2 : typingObj ptm l = false)
    (h3 : plainType ptm l = true) (h4 : typingObj ptm r = false) (h5 : plainRight ptm r = true) :
    pipeObj ptm l r = .ok (mkUType (unionMembers l ++ unionMembers r)) := by simp [pipeObj, h1, h2, h3, h4, h5]

theorem pipe_none_typing (r : Obj) (h4 : typingObj ptm r = true) :
    pipeObj ptm .noneV r = .ok (mkUnion (unionMembers .noneV ++ unionMembers r)) := by
  simp [pipeObj, isFieldObj_noneV, typingObj_noneV, plainType_noneV, h4]

theorem pipe_none_plain (r : Obj) (h4 : typingObj ptm r = false) (h5 : (plainType ptm r || isFclsObj r) = true) :
    pipeObj ptm .noneV r = .ok (mkUType (unionMembers .noneV ++ unionMembers r)) := by
  have h5' : plainType ptm r = true ∨ isFclsObj r = true := by simpa using h5
  simp [pipeObj, isFieldObj_noneV, typingObj_noneV, plainType_noneV, h4, h5']

theorem plainRight_of_plain {o : Obj} (h : plainType ptm o = true) : plainRight ptm o = true := by
  cases o <;> simp_all [plainRight]

theorem plainRight_of_fcls {o : Obj} (h : isFclsObj o = true) : plainRight ptm o = true := by
  cases o <;> simp_all [plainRight, isFclsObj]

theorem kindOk_tUnion (l : List Obj) : KindOk .typing (.tUnion l) := ⟨rfl, rfl⟩
theorem kindOk_uType (l : List Obj) : KindOk .plain (.uType l) := ⟨rfl, rfl, rfl⟩

/-- the object a union tree evaluates to -/
def treeObj (k : UKind) (l : List Obj) : Obj := if k = .typing then .tUnion l else .uType l

theorem flat_inv : ∀ s : Sp, leavesOk ptm s = true → allDistinct (flatObjs ptm s) = true →
    ∃ o, ev ptm s = .ok o ∧ unionMembers o = flatObjs ptm s
      ∧ gtliArgs ptm true (flatObjs ptm s) = .ok (flatAlts s) ∧ 1 ≤ (flatObjs ptm s).length
      ∧ KindOk (nodeKind s) o
      ∧ (isUnionTree s = true → o = treeObj (nodeKind s) (flatObjs ptm s)) := by
  intro s
  induction s with
  | optional x ih =>
    intro hl hd
    simp only [leavesOk] at hl
    simp only [flatObjs] at hd ⊢
    obtain ⟨ox, hev, hm, hg, hn, _, _⟩ := ih hl (allDistinct_append_left _ _ hd)
    have hlen : 2 ≤ (flatObjs ptm x ++ [Obj.noneTy]).length := by simp; omega
    refine ⟨.tUnion (flatObjs ptm x ++ [.noneTy]), ?_, rfl, ?_, by simp, kindOk_tUnion _, fun _ => rfl⟩
    · simp [ev, hev, hm, mkUnion_of_distinct _ hd hlen]
    · exact gtliArgs_append true _ _ _ _ hg (by simp [gtliArgs, gtli, argOf])
  | union x y ihx ihy =>
    intro hl hd
    simp only [leavesOk, Bool.and_eq_true] at hl
    simp only [flatObjs] at hd ⊢
    obtain ⟨ox, hevx, hmx, hgx, hnx, _, _⟩ := ihx hl.1 (allDistinct_append_left _ _ hd)
    obtain ⟨oy, hevy, hmy, hgy, hny, _, _⟩ := ihy hl.2 (allDistinct_append_right _ _ hd)
    have hlen : 2 ≤ (flatObjs ptm x ++ flatObjs ptm y).length := by simp; omega
    refine ⟨.tUnion (flatObjs ptm x ++ flatObjs ptm y), ?_, rfl, ?_, by simp; omega, kindOk_tUnion _, fun _ => rfl⟩
    · simp [ev, hevx, hevy, hmx, hmy, mkUnion_of_distinct _ hd hlen]
    · exact gtliArgs_append true _ _ _ _ hgx hgy
  | noneLit =>
    intro _ _
    exact ⟨.noneV, rfl, rfl, by simp [flatObjs, flatAlts, gtliArgs, gtli, argOf], by simp [flatObjs],
      by simp [nodeKind, leafKind, isNoneLit, KindOk], fun h => by simp [isUnionTree] at h⟩
  | pipe x y ihx ihy =>
    intro hl hd
    by_cases hfx : isFieldExpr x = true
    · -- `Field | …` is a field: a leaf of the tree
      simp only [leavesOk, hfx, if_true] at hl
      simp only [flatObjs, flatAlts, hfx, if_true]
      obtain ⟨o, hev, g⟩ := ev_good _ hl
      have hu : unionLike (Sp.pipe x y) = false := by simp [unionLike, hfx]
      rw [hev]
      exact ⟨o, rfl, unionMembers_of_gtli g.gt (g.nu hu), gtliArgs_one true g.gt, by simp,
        by simp [nodeKind, hfx, KindOk], fun h => by simp [isUnionTree, hfx] at h⟩
    · have hfx' : isFieldExpr x = false := by simpa using hfx
      simp only [leavesOk, hfx', Bool.false_eq_true, if_false, Bool.and_eq_true] at hl
      simp only [flatObjs, flatAlts, hfx', Bool.false_eq_true, if_false] at hd ⊢
      obtain ⟨⟨hlx, hly⟩, hk⟩ := hl
      obtain ⟨ox, hevx, hmx, hgx, hnx, kx, _⟩ := ihx hlx (allDistinct_append_left _ _ hd)
      obtain ⟨oy, hevy, hmy, hgy, hny, ky, _⟩ := ihy hly (allDistinct_append_right _ _ hd)
      have hlen : 2 ≤ (flatObjs ptm x ++ flatObjs ptm y).length := by simp; omega
      have hga := gtliArgs_append true _ _ _ _ hgx hgy
      have hnk : nodeKind (Sp.pipe x y) = pipeKind (nodeKind x) (nodeKind y) := by simp [nodeKind, hfx']
      have hU := mkUnion_of_distinct _ hd hlen
      have hT := mkUType_of_distinct _ hd hlen
      rw [hnk]
      have fin : ∀ (o : Obj) (k : UKind), (k = .typing ∨ k = .plain) →
          o = treeObj k (flatObjs ptm x ++ flatObjs ptm y) →
          pipeObj ptm ox oy = .ok o →
          ∃ o, ev ptm (Sp.pipe x y) = .ok o ∧ unionMembers o = flatObjs ptm x ++ flatObjs ptm y
            ∧ gtliArgs ptm true (flatObjs ptm x ++ flatObjs ptm y) = .ok (flatAlts x ++ flatAlts y)
            ∧ 1 ≤ (flatObjs ptm x ++ flatObjs ptm y).length ∧ KindOk k o
            ∧ (isUnionTree (Sp.pipe x y) = true → o = treeObj k (flatObjs ptm x ++ flatObjs ptm y)) := by
        intro o k hk' ho hp
        refine ⟨o, by simp [ev, hevx, hevy, hp], ?_, hga, by simp; omega, ?_, fun _ => ho⟩
        · rcases hk' with h | h <;> subst h <;> subst ho <;> simp [treeObj, unionMembers]
        · rcases hk' with h | h <;> subst h <;> subst ho
          · exact kindOk_tUnion _
          · exact kindOk_uType _
      cases hkx : nodeKind x <;> cases hky : nodeKind y <;> simp [hkx, hky, pipeKind] at hk <;>
        simp only [hkx, hky, KindOk] at kx ky <;> simp only [pipeKind]
      case plain.plain =>
        exact fin _ .plain (Or.inr rfl) rfl (by
          rw [pipe_plain_plain ox oy kx.1 kx.2.1 kx.2.2 ky.2.1 (plainRight_of_plain ky.2.2), hmx, hmy, hT]; rfl)
      case plain.typing =>
        exact fin _ .typing (Or.inl rfl) rfl (by
          rw [pipe_plain_typing ox oy kx.1 kx.2.1 kx.2.2 ky.2, hmx, hmy, hU]; rfl)
      case plain.fcls =>
        exact fin _ .plain (Or.inr rfl) rfl (by
          rw [pipe_plain_plain ox oy kx.1 kx.2.1 kx.2.2 ky.1 (plainRight_of_fcls ky.2.2), hmx, hmy, hT]; rfl)
      case plain.none =>
        subst ky
        exact fin _ .plain (Or.inr rfl) rfl (by
          rw [pipe_plain_plain ox .noneV kx.1 kx.2.1 kx.2.2 rfl rfl, hmx, hmy, hT]; rfl)
      case typing.plain =>
        exact fin _ .typing (Or.inl rfl) rfl (by rw [pipe_typing_left ox oy kx.1 kx.2, hmx, hmy, hU]; rfl)
      case typing.typing =>
        exact fin _ .typing (Or.inl rfl) rfl (by rw [pipe_typing_left ox oy kx.1 kx.2, hmx, hmy, hU]; rfl)
      case typing.fcls =>
        exact fin _ .typing (Or.inl rfl) rfl (by rw [pipe_typing_left ox oy kx.1 kx.2, hmx, hmy, hU]; rfl)
      case typing.none =>
        exact fin _ .typing (Or.inl rfl) rfl (by rw [pipe_typing_left ox oy kx.1 kx.2, hmx, hmy, hU]; rfl)
      case none.plain =>
        subst kx
        exact fin _ .plain (Or.inr rfl) rfl (by
          rw [pipe_none_plain oy ky.2.1 (by simp [ky.2.2]), hmx, hmy, hT]; rfl)
      case none.typing =>
        subst kx
        exact fin _ .typing (Or.inl rfl) rfl (by rw [pipe_none_typing oy ky.2, hmx, hmy, hU]; rfl)
      case none.fcls =>
        subst kx
        exact fin _ .plain (Or.inr rfl) rfl (by
          rw [pipe_none_plain oy ky.1 (by simp [ky.2.2]), hmx, hmy, hT]; rfl)
  | _ =>
    intro hl _
    simp only [leavesOk, Bool.and_eq_true, Bool.not_eq_true'] at hl
    obtain ⟨o, hev, g⟩ := ev_good _ hl.1
    simp only [flatObjs, flatAlts, hev]
    exact ⟨o, rfl, unionMembers_of_gtli g.gt (g.nu hl.2), gtliArgs_one true g.gt, by simp,
      by simpa [nodeKind] using leafKind_ok _ o hl.1 hev, fun h => by simp [isUnionTree] at h⟩


theorem isFieldObj_treeObj (k : UKind) (l : List Obj) : isFieldObj (treeObj k l) = false := by
  unfold treeObj; split <;> rfl
theorem isSclsObj_treeObj (k : UKind) (l : List Obj) : isSclsObj (treeObj k l) = false := by
  unfold treeObj; split <;> rfl

/-- Python's evaluation of the tree: ONE union object (a `typing.Union`, or a `types.UnionType` when only plain
    types / `None` / Field classes are joined by `|`) of all leaf objects, in order -/
theorem ev_flatten (s : Sp) (ht : isUnionTree s = true) (hl : leavesOk ptm s = true)
    (hd : allDistinct (flatObjs ptm s) = true) : ev ptm s = .ok (treeObj (nodeKind s) (flatObjs ptm s)) := by
  obtain ⟨o, hev, _, _, _, _, ho⟩ := flat_inv s hl hd
  rw [hev, ho ht]

/-- `get_typing_lib_info` of that union (a PEP 604 union is converted like `typing.Union`): the AnyOf of the
    flattened alternatives -/
theorem gtli_flatten (s : Sp) (hl : leavesOk ptm s = true) (hd : allDistinct (flatObjs ptm s) = true) :
    gtli ptm (treeObj (nodeKind s) (flatObjs ptm s)) = .ok (some (.anyOf (flatAlts s))) := by
  obtain ⟨o, _, _, hg, hn, _, _⟩ := flat_inv s hl hd
  have hb : (Head.anyOf == Head.anyOf) = true := rfl
  have hne : flatAlts s ≠ [] := by
    intro h
    rw [h] at hg
    cases hfo : flatObjs ptm s with
    | nil => simp [hfo] at hn
    | cons a as =>
      rw [hfo] at hg
      simp only [gtliArgs] at hg
      cases h1 : gtli ptm a with
      | error e => simp [h1] at hg
      | ok r =>
        simp only [h1, bindE_ok] at hg
        cases h2 : argOf true (isClassObj ptm a) r with
        | error e => simp [h2] at hg
        | ok d =>
          simp only [h2, bindE_ok] at hg
          cases h3 : gtliArgs ptm true as with
          | error e => simp [h3] at hg
          | ok ds => simp [h3] at hg
  unfold treeObj
  split <;> (simp only [gtli, cbt_tunion]; rw [hb, hg]; cases hfa : flatAlts s with
    | nil => exact absurd hfa hne
    | cons d ds => simp [mkFromArgs, someDecl])

theorem elaborateAnn_flatten (s : Sp) (ht : isUnionTree s = true) (hl : leavesOk ptm s = true)
    (hd : allDistinct (flatObjs ptm s) = true) :
    bindE (ev ptm s) (gtli ptm) = .ok (some (.anyOf (flatAlts s))) := by
  rw [ev_flatten s ht hl hd]
  exact gtli_flatten s hl hd


/-- Two union trees with the same flattened alternatives (e.g. `Union[Union[A, B], C]`, `Union[A, Union[B, C]]`,
    `Optional[Union[A, B]]` vs `Union[A, Union[B, None]]`, `Union[A, Optional[B]]`) elaborate identically. -/
theorem flatten_equiv (s t : Sp) (hs : isUnionTree s = true) (ht : isUnionTree t = true)
    (ls : leavesOk ptm s = true) (lt : leavesOk ptm t = true)
    (ds : allDistinct (flatObjs ptm s) = true) (dt : allDistinct (flatObjs ptm t) = true)
    (h : flatAlts s = flatAlts t) :
    bindE (ev ptm s) (gtli ptm) = bindE (ev ptm t) (gtli ptm) := by
  rw [elaborateAnn_flatten s hs ls ds, elaborateAnn_flatten t ht lt dt, h]

/-! ### `_required` written out -/

theorem explicitReq_eq (R : List String) : ∀ rs : List (String × FieldRes),
    (∀ n, n ∈ requiredOf rs → R.contains n = true) → conflictOpt R rs = false → explicitReq R rs = requiredOf rs
  | [], _, _ => rfl
  | (n, .dropped) :: rest, h, hc => by
    simp only [explicitReq, requiredOf]
    exact explicitReq_eq R rest (by simpa [requiredOf] using h) (by simpa [conflictOpt] using hc)
  | (n, .field d b (some v)) :: rest, h, hc => by
    simp only [explicitReq, requiredOf]
    exact explicitReq_eq R rest (by simpa [requiredOf] using h) (by simpa [conflictOpt] using hc)
  | (n, .field d true none) :: rest, h, hc => by
    simp only [requiredOf] at h ⊢
    have hn : R.contains n = true := h n (by simp)
    simp only [explicitReq, hn, if_true]
    rw [explicitReq_eq R rest (fun m hm => h m (by simp [hm])) (by simpa [conflictOpt] using hc)]
  | (n, .field d false none) :: rest, h, hc => by
    simp only [conflictOpt, Bool.or_eq_false_iff] at hc
    simp only [explicitReq, requiredOf, hc.1]
    exact explicitReq_eq R rest (by simpa [requiredOf] using h) hc.2

theorem isFieldName_cons (p : String × FieldRes) (rest : List (String × FieldRes)) (n : String) :
    isFieldName (p :: rest) n = ((p.1 == n && isField p.2) || isFieldName rest n) := by
  simp [isFieldName, List.any_cons]

theorem requiredOf_names : ∀ (rs : List (String × FieldRes)) (n : String), n ∈ requiredOf rs → isFieldName rs n = true
  | [], n, h => by simp [requiredOf] at h
  | (m, .dropped) :: rest, n, h => by
    simp only [requiredOf] at h
    rw [isFieldName_cons, requiredOf_names rest n h]; simp
  | (m, .field d b (some v)) :: rest, n, h => by
    simp only [requiredOf] at h
    rw [isFieldName_cons, requiredOf_names rest n h]; simp
  | (m, .field d false none) :: rest, n, h => by
    simp only [requiredOf] at h
    rw [isFieldName_cons, requiredOf_names rest n h]; simp
  | (m, .field d true none) :: rest, n, h => by
    simp only [requiredOf, List.mem_cons] at h
    rw [isFieldName_cons]
    rcases h with h | h
    · simp [h, isField]
    · rw [requiredOf_names rest n h]; simp

/-- Writing `_required` out as exactly the names typedpy would compute changes nothing (unless one of them is also
    optional, which typedpy refuses: `conflictOpt`). -/
theorem finishClass_explicit (opt : List String) (rs : List (String × FieldRes))
    (hc : conflictOpt (requiredOf rs) rs = false) (hd : conflictDropped (requiredOf rs) opt rs = false) :
    finishClass (some (requiredOf rs)) opt rs = finishClass none opt rs := by
  have h1 := explicitReq_eq (requiredOf rs) rs (fun n hn => by simpa using hn) hc
  have h2 : (requiredOf rs).filter (fun n => !isFieldName rs n) = [] := by
    rw [List.filter_eq_nil_iff]
    intro n hn
    simp [requiredOf_names rs n hn]
  simp [finishClass, hc, hd, h1, h2, classOfReq, classOf]

theorem fieldMeaning_isField (O : Oracles) (a : FieldSp) {r : FieldRes} (h : fieldMeaning O a = .ok r) : isField r = true := by
  unfold fieldMeaning at h
  cases hv : a.dflt.value with
  | none => simp [hv] at h; subst h; rfl
  | some p =>
    obtain ⟨v, st⟩ := p
    simp only [hv] at h
    cases ht : tryDefault O (denote a.ty) v with
    | error e => simp [ht] at h
    | ok u =>
      simp [ht] at h
      subst h
      unfold eqResult
      split <;> rfl

theorem elabFields_allField (O : Oracles) (sc : Scope) (f : Bool) : ∀ (as : List FieldSp) (rs : List (String × FieldRes)),
    as.all (fieldSupportedAt O ptm sc f) = true → elabFields O ptm sc f as = .ok rs → rs.all (fun p => isField p.2) = true
  | [], rs, _, h => by simp [elabFields] at h; subst h; rfl
  | a :: as, rs, hs, h => by
    simp only [List.all_cons, Bool.and_eq_true, fieldSupportedAt] at hs
    simp only [elabFields, elabFieldAt_eq _ O _ _ hs.1.2, elabField_meaning' O f _ hs.1.1] at h
    cases hm : fieldMeaning O a with
    | error e => simp [hm] at h
    | ok r =>
      simp only [hm, bindE_ok] at h
      cases hr : elabFields O ptm sc f as with
      | error e => simp [hr] at h
      | ok rs' =>
        simp only [hr, bindE_ok] at h
        injection h with h
        subst h
        simp only [List.all_cons, Bool.and_eq_true]
        exact ⟨fieldMeaning_isField O a hm, elabFields_allField O sc f as rs' (by simpa [fieldSupportedAt] using hs.2) hr⟩

theorem conflictDropped_allField (R opt : List String) : ∀ rs : List (String × FieldRes),
    rs.all (fun p => isField p.2) = true → conflictDropped R opt rs = false
  | [], _ => rfl
  | p :: rs, h => by
    simp only [List.all_cons, Bool.and_eq_true] at h
    have ih := conflictDropped_allField R opt rs h.2
    unfold conflictDropped at ih ⊢
    rw [List.any_cons, ih, h.1]
    rfl

/-- with every declaration declaring a field, the `_optional` list only matters through the fields' own results -/
theorem finishClass_opt_irrelevant (req : Option (List String)) (o₁ o₂ : List String) (rs : List (String × FieldRes))
    (h : rs.all (fun p => isField p.2) = true) : finishClass req o₁ rs = finishClass req o₂ rs := by
  cases req with
  | none => rfl
  | some R => simp [finishClass, conflictDropped_allField R _ rs h]


/-! ### field and class level over the union of both regions -/

/-- a field declared by a union-tree annotation (with no default, a `= v` default or a `= factory` default)
    elaborates to the documented flattened meaning -/
theorem elabField_flatMeaning (O : Oracles) (future : Bool) (fs : FieldSp) (h : flatRegion ptm fs = true) :
    elabField O ptm future fs = flatMeaning O fs := by
  obtain ⟨name, mode, ty, dflt, inOpt, quoted, unres⟩ := fs
  simp only [flatRegion, Bool.and_eq_true] at h
  obtain ⟨⟨⟨⟨hm, ht⟩, hl⟩, hd⟩, hdf⟩ := h
  have hmode : mode = .ann := by simpa using hm
  subst hmode
  have hev := ev_flatten ty ht hl hd
  have hg := gtli_flatten ty hl hd
  have htag : ∀ d opt, eqResult d opt factoryTag = .field d false (some factoryTag) := fun _ _ => rfl
  cases dflt with
  | none =>
    simp [elabField, evTop, hev, annField, isFieldObj_treeObj, isSclsObj_treeObj, hg, afterGtli, finishField,
      flatMeaning, DefaultSp.value, flatDecl, flatOptional, hasNoneOpt]
  | eq v n =>
    simp [elabField, evTop, hev, annField, isFieldObj_treeObj, isSclsObj_treeObj, hg, afterGtli, finishField,
      flatMeaning, DefaultSp.value, flatDecl, flatOptional, hasNoneOpt, hdf]
  | eqF p n =>
    simp [elabField, evTop, hev, annField, isFieldObj_treeObj, isSclsObj_treeObj, hg, afterGtli, finishField,
      flatMeaning, DefaultSp.value, flatDecl, flatOptional, hasNoneOpt, htag]
  | kw v n => simp at hdf
  | kwF p n => simp at hdf

/-- on the union of the two proved regions the model of the class-creation code yields the documented meaning -/
theorem elabFieldAt_meaningX (sc : Scope) (O : Oracles) (future : Bool) (fs : FieldSp)
    (h : fieldRegionX O ptm sc future fs = true) : elabFieldAt sc O ptm future fs = fieldMeaningX O ptm fs := by
  unfold fieldMeaningX
  by_cases hf : flatRegion ptm fs = true
  · have hs : stringOk sc future fs = true := by
      simp only [fieldRegionX, Bool.or_eq_true, Bool.and_eq_true, fieldSupportedAt] at h
      rcases h with h | h
      · exact h.2
      · exact h.2
    rw [elabFieldAt_eq sc O future fs hs, elabField_flatMeaning O future fs hf]
    simp [hf]
  · have hf' : flatRegion ptm fs = false := by simpa using hf
    simp only [fieldRegionX, hf', Bool.false_and, Bool.false_or, fieldSupportedAt, Bool.and_eq_true] at h
    rw [elabFieldAt_eq sc O future fs h.2, elabField_meaning' O future fs h.1]
    simp [hf']

theorem flatMeaning_isField (O : Oracles) (a : FieldSp) {r : FieldRes} (h : flatMeaning O a = .ok r) : isField r = true := by
  unfold flatMeaning at h
  cases hv : a.dflt.value with
  | none => simp [hv] at h; subst h; rfl
  | some p =>
    obtain ⟨v, st⟩ := p
    simp only [hv] at h
    cases ht : tryDefault O (flatDecl a) v with
    | error e => simp [ht] at h
    | ok u =>
      simp [ht] at h
      subst h
      unfold eqResult
      split <;> rfl

theorem fieldMeaningX_isField (O : Oracles) (a : FieldSp) {r : FieldRes} (h : fieldMeaningX O ptm a = .ok r) :
    isField r = true := by
  unfold fieldMeaningX at h
  split at h
  · exact flatMeaning_isField O a h
  · exact fieldMeaning_isField O a h

theorem elabFields_sameX (O : Oracles) (s₁ s₂ : Scope) (f₁ f₂ : Bool) {as bs : List FieldSp}
    (h : ClassSameX O ptm as bs)
    (ha : as.all (fieldRegionX O ptm s₁ f₁) = true) (hb : bs.all (fieldRegionX O ptm s₂ f₂) = true) :
    elabFields O ptm s₁ f₁ as = elabFields O ptm s₂ f₂ bs := by
  induction h with
  | nil => rfl
  | cons hab _ ih =>
    simp only [List.all_cons, Bool.and_eq_true] at ha hb
    simp only [elabFields, elabFieldAt_meaningX _ O _ _ ha.1, elabFieldAt_meaningX _ O _ _ hb.1, hab.meaning, hab.name]
    rw [ih ha.2 hb.2]

theorem elabFields_allFieldX (O : Oracles) (sc : Scope) (f : Bool) : ∀ (as : List FieldSp) (rs : List (String × FieldRes)),
    as.all (fieldRegionX O ptm sc f) = true → elabFields O ptm sc f as = .ok rs → rs.all (fun p => isField p.2) = true
  | [], rs, _, h => by simp [elabFields] at h; subst h; rfl
  | a :: as, rs, hs, h => by
    simp only [List.all_cons, Bool.and_eq_true] at hs
    simp only [elabFields, elabFieldAt_meaningX _ O _ _ hs.1] at h
    cases hm : fieldMeaningX O ptm a with
    | error e => simp [hm] at h
    | ok r =>
      simp only [hm, bindE_ok] at h
      cases hr : elabFields O ptm sc f as with
      | error e => simp [hr] at h
      | ok rs' =>
        simp only [hr, bindE_ok] at h
        injection h with h
        subst h
        simp only [List.all_cons, Bool.and_eq_true]
        exact ⟨fieldMeaningX_isField O a hm, elabFields_allFieldX O sc f as rs' hs.2 hr⟩

end Typedpy.Elab
