/-
  Lemmas/ElabFlat.lean — C13: typing's flattening of directly nested `Union[…]` / `Optional[…]`.  A tree of such
  unions over supported, pairwise distinct leaves evaluates (in the model of Python's evaluation, `ev` with `mkUnion`
  = flatten + de-duplicate) to ONE `typing.Union` of the leaves' objects, which `get_typing_lib_info` maps to the AnyOf
  of the flattened documented alternatives (`Spec/Meaning.flatAlts`).  Induction over the tree; no depth bound.
-/
import TypedpyModel.Lemmas.Elab
namespace Typedpy.Elab
open Typedpy

theorem dedupObj_of_distinct : ∀ l : List Obj, allDistinct l = true → dedupObj l = l
  | [], _ => rfl
  | x :: xs, h => by
    simp only [allDistinct, Bool.and_eq_true] at h
    simp only [dedupObj, dedupObj_of_distinct xs h.2]
    congr 1
    rw [List.filter_eq_self]
    intro y hy
    have := List.all_eq_true.mp h.1 y hy
    simpa using this

theorem allDistinct_append_left : ∀ (a b : List Obj), allDistinct (a ++ b) = true → allDistinct a = true
  | [], _, _ => rfl
  | x :: xs, b, h => by
    simp only [List.cons_append, allDistinct, Bool.and_eq_true, List.all_append] at h
    simp only [allDistinct, Bool.and_eq_true]
    exact ⟨h.1.1, allDistinct_append_left xs b h.2⟩

theorem allDistinct_append_right : ∀ (a b : List Obj), allDistinct (a ++ b) = true → allDistinct b = true
  | [], _, h => h
  | x :: xs, b, h => by
    simp only [List.cons_append, allDistinct, Bool.and_eq_true] at h
    exact allDistinct_append_right xs b h.2

theorem gtliArgs_append (b : Bool) : ∀ (l₁ l₂ : List Obj) (d₁ d₂ : List FieldDecl),
    gtliArgs ptm b l₁ = .ok d₁ → gtliArgs ptm b l₂ = .ok d₂ → gtliArgs ptm b (l₁ ++ l₂) = .ok (d₁ ++ d₂)
  | [], l₂, d₁, d₂, h₁, h₂ => by
    simp [gtliArgs] at h₁; subst h₁; simpa using h₂
  | a :: l₁, l₂, d₁, d₂, h₁, h₂ => by
    simp only [gtliArgs, List.cons_append] at h₁ ⊢
    cases hg : gtli ptm a with
    | error e => simp [hg] at h₁
    | ok r =>
      simp only [hg, bindE_ok] at h₁ ⊢
      cases ha : argOf b (isClassObj ptm a) r with
      | error e => simp [ha] at h₁
      | ok d =>
        simp only [ha, bindE_ok] at h₁ ⊢
        cases hr : gtliArgs ptm b l₁ with
        | error e => simp [hr] at h₁
        | ok ds =>
          simp only [hr, bindE_ok] at h₁
          injection h₁ with h₁
          subst h₁
          simp [gtliArgs_append b l₁ l₂ ds d₂ hr h₂]

theorem mkUnion_of_distinct (l : List Obj) (h : allDistinct l = true) (hl : 2 ≤ l.length) : mkUnion l = .tUnion l := by
  unfold mkUnion
  rw [dedupObj_of_distinct l h]
  match l, hl with
  | _ :: _ :: _, _ => rfl

theorem flat_leaf (s : Sp) (hs : supported ptm s = true) (hu : unionLike s = false)
    (hO : flatObjs ptm s = match ev ptm s with | .ok o => [o] | .error _ => [])
    (hA : flatAlts s = [denote s]) :
    ∃ o, ev ptm s = .ok o ∧ unionMembers o = flatObjs ptm s
      ∧ gtliArgs ptm true (flatObjs ptm s) = .ok (flatAlts s) ∧ 1 ≤ (flatObjs ptm s).length := by
  obtain ⟨o, hev, g⟩ := ev_good s hs
  rw [hO, hA, hev]
  exact ⟨o, rfl, unionMembers_of_gtli g.gt (g.nu hu), gtliArgs_one true g.gt, by simp⟩

theorem flatAlts_len : ∀ s : Sp, 1 ≤ (flatAlts s).length := by
  intro s
  induction s with
  | optional x ih => simp [flatAlts]
  | union x y ihx ihy => simp [flatAlts]; omega
  | _ => simp [flatAlts]

/-- what the induction over a union tree carries -/
theorem flat_inv : ∀ s : Sp, leavesOk ptm s = true → allDistinct (flatObjs ptm s) = true →
    ∃ o, ev ptm s = .ok o ∧ unionMembers o = flatObjs ptm s
      ∧ gtliArgs ptm true (flatObjs ptm s) = .ok (flatAlts s) ∧ 1 ≤ (flatObjs ptm s).length := by
  intro s
  induction s with
  | optional x ih =>
    intro hl hd
    simp only [leavesOk] at hl
    simp only [flatObjs] at hd ⊢
    obtain ⟨ox, hev, hm, hg, hn⟩ := ih hl (allDistinct_append_left _ _ hd)
    have hlen : 2 ≤ (flatObjs ptm x ++ [Obj.noneTy]).length := by simp; omega
    refine ⟨.tUnion (flatObjs ptm x ++ [.noneTy]), ?_, rfl, ?_, by simp⟩
    · simp [ev, hev, hm, mkUnion_of_distinct _ hd hlen]
    · exact gtliArgs_append true _ _ _ _ hg (by simp [gtliArgs, gtli, argOf])
  | union x y ihx ihy =>
    intro hl hd
    simp only [leavesOk, Bool.and_eq_true] at hl
    simp only [flatObjs] at hd ⊢
    obtain ⟨ox, hevx, hmx, hgx, hnx⟩ := ihx hl.1 (allDistinct_append_left _ _ hd)
    obtain ⟨oy, hevy, hmy, hgy, hny⟩ := ihy hl.2 (allDistinct_append_right _ _ hd)
    have hlen : 2 ≤ (flatObjs ptm x ++ flatObjs ptm y).length := by simp; omega
    refine ⟨.tUnion (flatObjs ptm x ++ flatObjs ptm y), ?_, rfl, ?_, by simp; omega⟩
    · simp [ev, hevx, hevy, hmx, hmy, mkUnion_of_distinct _ hd hlen]
    · exact gtliArgs_append true _ _ _ _ hgx hgy
  | noneLit =>
    intro _ _
    exact ⟨.noneV, rfl, rfl, by simp [flatObjs, flatAlts, gtliArgs, gtli, argOf], by simp [flatObjs]⟩
  | _ =>
    intro hl _
    simp only [leavesOk, Bool.and_eq_true, Bool.not_eq_true'] at hl
    exact flat_leaf _ hl.1 hl.2 rfl rfl

/-- Python's evaluation of the tree: ONE `typing.Union` of all leaf objects, in order -/
theorem ev_flatten (s : Sp) (ht : isUnionTree s = true) (hl : leavesOk ptm s = true)
    (hd : allDistinct (flatObjs ptm s) = true) : ev ptm s = .ok (.tUnion (flatObjs ptm s)) := by
  cases s <;> simp [isUnionTree] at ht
  case optional x =>
    simp only [leavesOk] at hl
    simp only [flatObjs] at hd
    obtain ⟨ox, hevx, hmx, _, hnx⟩ := flat_inv x hl (allDistinct_append_left _ _ hd)
    have hlen : 2 ≤ (flatObjs ptm x ++ [Obj.noneTy]).length := by simp; omega
    simp [ev, hevx, hmx, mkUnion_of_distinct _ hd hlen, flatObjs]
  case union x y =>
    simp only [leavesOk, Bool.and_eq_true] at hl
    simp only [flatObjs] at hd
    obtain ⟨ox, hevx, hmx, _, hnx⟩ := flat_inv x hl.1 (allDistinct_append_left _ _ hd)
    obtain ⟨oy, hevy, hmy, _, hny⟩ := flat_inv y hl.2 (allDistinct_append_right _ _ hd)
    have hlen : 2 ≤ (flatObjs ptm x ++ flatObjs ptm y).length := by simp; omega
    simp [ev, hevx, hevy, hmx, hmy, mkUnion_of_distinct _ hd hlen, flatObjs]

/-- `get_typing_lib_info` of that union: the AnyOf of the flattened alternatives -/
theorem gtli_flatten (s : Sp) (hl : leavesOk ptm s = true) (hd : allDistinct (flatObjs ptm s) = true) :
    gtli ptm (.tUnion (flatObjs ptm s)) = .ok (some (.anyOf (flatAlts s))) := by
  obtain ⟨o, _, _, hg, _⟩ := flat_inv s hl hd
  have hne := flatAlts_len s
  simp only [gtli, cbt_tunion]
  have hb : (Head.anyOf == Head.anyOf) = true := rfl
  rw [hb, hg]
  cases hfa : flatAlts s with
  | nil => simp [hfa] at hne
  | cons d ds => simp [mkFromArgs, someDecl]

/-- A tree of directly nested `Union[…]` / `Optional[…]` whose leaves are supported spellings (or `None`), all
    distinct as typing objects, elaborates - as an annotation - to the AnyOf of its FLATTENED alternatives. -/
theorem elaborateAnn_flatten (s : Sp) (ht : isUnionTree s = true) (hl : leavesOk ptm s = true)
    (hd : allDistinct (flatObjs ptm s) = true) :
    bindE (ev ptm s) (gtli ptm) = .ok (some (.anyOf (flatAlts s))) := by
  rw [ev_flatten s ht hl hd]
  exact gtli_flatten s hl hd

/-- Two union trees with the same flattened alternatives (e.g. `Union[Union[A, B], C]`, `Union[A, Union[B, C]]`,
    `Optional[Union[A, B]]` vs `Union[A, Union[B, None]]`, `Union[A, Optional[B]]`) elaborate identically. -/
theorem flatten_equiv (s t : Sp) (hs : isUnionTree s = true) (ht : isUnionTree t = true)
    (ls : leavesOk ptm s = true) (lt : leavesOk ptm t = true)
    (ds : allDistinct (flatObjs ptm s) = true) (dt : allDistinct (flatObjs ptm t) = true)
    (h : flatAlts s = flatAlts t) :
    bindE (ev ptm s) (gtli ptm) = bindE (ev ptm t) (gtli ptm) := by
  rw [elaborateAnn_flatten s hs ls ds, elaborateAnn_flatten t ht lt dt, h]

end Typedpy.Elab
