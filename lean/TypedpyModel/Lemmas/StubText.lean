/-
  Lemmas/StubText.lean — helper lemmas for the stub text model (Sem/StubText.lean), used by Props/C16.lean.
  All lemma names carry the prefix `c16_`.
-/
import TypedpyModel.Sem.StubText
import TypedpyModel.Lemmas.Stub
namespace Typedpy.StubText
open Typedpy.Stub

/-! ### the expression machine accepts every well-formed annotation -/

theorem c16_runE_append (st : ESt) (xs ys : List Tok) :
    runE st (xs ++ ys) = (runE st xs).bind (fun s => runE s ys) := by
  induction xs generalizing st with
  | nil => simp [runE]
  | cons x xs ih =>
    simp only [List.cons_append, runE]
    cases h : stepE st x with
    | none => simp
    | some st' => simp [ih]

theorem c16_atomOk_of_identOk {s : String} (h : identOk s = true) : atomOk s = true := by
  simp [atomOk, h]

theorem c16_runE_dottedTail (stk : List Bool) (rest : List String) (ys : List Tok)
    (h : rest.all identOk = true) :
    runE (stk, .afterOp) (dottedTail rest ++ ys) = runE (stk, .afterOp) ys := by
  induction rest with
  | nil => simp [dottedTail]
  | cons a rest ih =>
    simp only [List.all_cons, Bool.and_eq_true] at h
    simp only [dottedTail, List.cons_append, runE, stepE, h.1, if_true]
    exact ih h.2

theorem c16_runE_dotted (stk : List Bool) (c : Bool) (ps : List String) (ys : List Tok)
    (h : dottedOk ps = true) :
    runE (stk, .operand c) (dottedToks ps ++ ys) = runE (stk, .afterOp) ys := by
  cases ps with
  | nil => simp [dottedOk] at h
  | cons a rest =>
    simp only [dottedOk, Bool.and_eq_true] at h
    simp only [dottedToks, List.cons_append, runE, stepE, h.1, if_true]
    exact c16_runE_dottedTail stk rest ys h.2

mutual
theorem c16_runE_ann : (a : Ann) → (stk : List Bool) → (c : Bool) → (ys : List Tok) → a.wf = true →
    runE (stk, .operand c) (annToks a ++ ys) = runE (stk, .afterOp) ys
  | .name ps, stk, c, ys, h => by
    simp only [Ann.wf] at h
    simp only [annToks]
    exact c16_runE_dotted stk c ps ys h
  | .sub hd args, stk, c, ys, h => by
    simp only [Ann.wf, Bool.and_eq_true] at h
    simp only [annToks, List.append_assoc]
    rw [c16_runE_dotted stk c hd _ h.1.1]
    simp only [List.cons_append, runE, stepE]
    cases args with
    | nil => simp at h
    | cons a rest =>
      rw [List.append_assoc, c16_runE_anns (a :: rest) false stk false _ h.2 (by simp)]
      simp [runE, stepE]
  | .lst items, stk, c, ys, h => by
    simp only [Ann.wf] at h
    simp only [annToks, List.cons_append, runE, stepE]
    cases items with
    | nil => simp [annsToks, runE, stepE]
    | cons a rest =>
      rw [List.append_assoc, c16_runE_anns (a :: rest) true stk true _ h (by simp)]
      simp [runE, stepE]
  | .ellipsis, stk, c, ys, _ => by simp [annToks, runE, stepE]
  | .lit, stk, c, ys, _ => by simp [annToks, runE, stepE]
theorem c16_runE_anns : (as : List Ann) → (b : Bool) → (stk : List Bool) → (c : Bool) → (ys : List Tok) →
    Ann.wfL as = true → as ≠ [] →
    runE (b :: stk, .operand c) (annsToks as ++ ys) = runE (b :: stk, .afterOp) ys
  | [], _, _, _, _, _, hne => absurd rfl hne
  | a :: rest, b, stk, c, ys, h, _ => by
    simp only [Ann.wfL, Bool.and_eq_true] at h
    simp only [annsToks, List.append_assoc]
    rw [c16_runE_ann a (b :: stk) c _ h.1]
    exact c16_runE_tail rest b stk ys h.2
theorem c16_runE_tail : (as : List Ann) → (b : Bool) → (stk : List Bool) → (ys : List Tok) →
    Ann.wfL as = true →
    runE (b :: stk, .afterOp) (annsTail as ++ ys) = runE (b :: stk, .afterOp) ys
  | [], _, _, _, _ => by simp [annsTail]
  | a :: rest, b, stk, ys, h => by
    simp only [Ann.wfL, Bool.and_eq_true] at h
    simp only [annsTail, List.cons_append, List.append_assoc, runE, stepE]
    rw [c16_runE_ann a (b :: stk) true _ h.1]
    exact c16_runE_tail rest b stk ys h.2
end

theorem c16_exprOk_ann (a : Ann) (h : a.wf = true) : exprOk (annToks a) = true := by
  have := c16_runE_ann a [] false [] h
  simp only [List.append_nil, runE] at this
  simp [exprOk, this]

/-! ### annotation tokens are bracket-balanced: the splitter passes over them -/

/-- a token sequence the splitter swallows whole, at any depth -/
def Flat (xs : List Tok) : Prop :=
  ∀ (ys : List Tok) (d : Nat) (cur : List Tok) (acc : List (List Tok)),
    splitGo (xs ++ ys) d cur acc = splitGo ys d (cur ++ xs) acc

/-- the same one level down (commas allowed) -/
def FlatIn (xs : List Tok) : Prop :=
  ∀ (ys : List Tok) (d : Nat) (cur : List Tok) (acc : List (List Tok)),
    splitGo (xs ++ ys) (d + 1) cur acc = splitGo ys (d + 1) (cur ++ xs) acc

theorem c16_flat_nil : Flat [] := by intro ys d cur acc; simp

theorem c16_flat_append {xs zs : List Tok} (hx : Flat xs) (hz : Flat zs) : Flat (xs ++ zs) := by
  intro ys d cur acc
  rw [List.append_assoc, hx, hz, List.append_assoc]

theorem c16_flatIn_append {xs zs : List Tok} (hx : FlatIn xs) (hz : FlatIn zs) : FlatIn (xs ++ zs) := by
  intro ys d cur acc
  rw [List.append_assoc, hx, hz, List.append_assoc]

theorem c16_flatIn_of_flat {xs : List Tok} (hx : Flat xs) : FlatIn xs := fun ys d cur acc => hx ys (d + 1) cur acc

/-- tokens that do not change the depth and are not commas -/
def neutral (t : Tok) : Bool :=
  match t with
  | .name _ | .lit | .colon | .eq | .star | .dstar | .slash | .dot | .arrow | .ellipsis => true
  | _ => false

theorem c16_flat_neutral {t : Tok} (h : neutral t = true) : Flat [t] := by
  intro ys d cur acc
  cases t <;> simp [neutral] at h <;> simp [splitGo, isOpenTok]

theorem c16_flat_cons {t : Tok} {xs : List Tok} (h : neutral t = true) (hx : Flat xs) : Flat (t :: xs) :=
  c16_flat_append (c16_flat_neutral h) hx

theorem c16_flatIn_comma : FlatIn [.comma] := by
  intro ys d cur acc
  simp [splitGo]

/-- `[ inner ]` is flat when `inner` is flat one level down -/
theorem c16_flat_brackets {xs : List Tok} (hx : FlatIn xs) : Flat (.lsq :: (xs ++ [.rsq])) := by
  intro ys d cur acc
  simp only [List.cons_append, List.append_assoc, splitGo, isOpenTok]
  simp only [show (Tok.lsq = Tok.comma) = False from by simp, if_false, beq_self_eq_true, Bool.true_or, if_true]
  rw [hx]
  simp [splitGo, isOpenTok]

theorem c16_flat_dottedTail (rest : List String) : Flat (dottedTail rest) := by
  induction rest with
  | nil => exact c16_flat_nil
  | cons a rest ih => exact c16_flat_cons rfl (c16_flat_cons rfl ih)

theorem c16_flat_dotted (ps : List String) : Flat (dottedToks ps) := by
  cases ps with
  | nil => exact c16_flat_nil
  | cons a rest => exact c16_flat_cons rfl (c16_flat_dottedTail rest)

mutual
theorem c16_flat_ann : (a : Ann) → Flat (annToks a)
  | .name ps => by simp only [annToks]; exact c16_flat_dotted ps
  | .sub hd args => by
    simp only [annToks]
    exact c16_flat_append (c16_flat_dotted hd) (c16_flat_brackets (c16_flatIn_anns args))
  | .lst items => by
    simp only [annToks]
    exact c16_flat_brackets (c16_flatIn_anns items)
  | .ellipsis => c16_flat_neutral rfl
  | .lit => c16_flat_neutral rfl
theorem c16_flatIn_anns : (as : List Ann) → FlatIn (annsToks as)
  | [] => fun ys d cur acc => by simp [annsToks]
  | a :: rest => by
    simp only [annsToks]
    exact c16_flatIn_append (c16_flatIn_of_flat (c16_flat_ann a)) (c16_flatIn_tail rest)
theorem c16_flatIn_tail : (as : List Ann) → FlatIn (annsTail as)
  | [] => fun ys d cur acc => by simp [annsTail]
  | a :: rest => by
    simp only [annsTail]
    exact c16_flatIn_append c16_flatIn_comma
      (c16_flatIn_append (c16_flatIn_of_flat (c16_flat_ann a)) (c16_flatIn_tail rest))
end

/-- cutting a comma-joined list of flat items gives the items back -/
theorem c16_splitGo_joinTail (items : List (List Tok)) (h : ∀ x ∈ items, Flat x) (cur : List Tok)
    (acc : List (List Tok)) (tail : List Tok) :
    splitGo (joinTail items ++ .rpar :: tail) 0 cur acc = some (acc ++ [cur] ++ items, tail) := by
  induction items generalizing cur acc with
  | nil => simp [joinTail, splitGo, isOpenTok]
  | cons y rest ih =>
    simp only [joinTail, List.cons_append, List.append_assoc, splitGo, if_true]
    rw [h y List.mem_cons_self]
    rw [ih (fun x hx => h x (List.mem_cons_of_mem _ hx))]
    simp

theorem c16_splitParams_join (x : List Tok) (rest : List (List Tok)) (h : ∀ y ∈ x :: rest, Flat y)
    (tail : List Tok) :
    splitParams (joinComma (x :: rest) ++ .rpar :: tail) = some (x :: rest, tail) := by
  simp only [splitParams, joinComma, List.append_assoc]
  rw [h x List.mem_cons_self]
  rw [c16_splitGo_joinTail rest (fun y hy => h y (List.mem_cons_of_mem _ hy))]
  simp

/-! ### annotation tokens contain no `=` -/

def annTok (t : Tok) : Bool :=
  match t with
  | .name _ | .dot | .lsq | .rsq | .comma | .ellipsis | .lit => true
  | _ => false

theorem c16_annTok_dottedTail (rest : List String) : ∀ t ∈ dottedTail rest, annTok t = true := by
  induction rest with
  | nil => simp [dottedTail]
  | cons a rest ih =>
    intro t ht
    simp only [dottedTail, List.mem_cons] at ht
    rcases ht with rfl | rfl | ht
    · rfl
    · rfl
    · exact ih t ht

theorem c16_annTok_dotted (ps : List String) : ∀ t ∈ dottedToks ps, annTok t = true := by
  cases ps with
  | nil => simp [dottedToks]
  | cons a rest =>
    intro t ht
    simp only [dottedToks, List.mem_cons] at ht
    rcases ht with rfl | ht
    · rfl
    · exact c16_annTok_dottedTail rest t ht

mutual
theorem c16_annTok_ann : (a : Ann) → ∀ t ∈ annToks a, annTok t = true
  | .name ps => by simp only [annToks]; exact c16_annTok_dotted ps
  | .sub hd args => by
    intro t ht
    simp only [annToks, List.mem_append, List.mem_cons, List.not_mem_nil, or_false] at ht
    rcases ht with ht | rfl | ht | rfl
    · exact c16_annTok_dotted hd t ht
    · rfl
    · exact c16_annTok_anns args t ht
    · rfl
  | .lst items => by
    intro t ht
    simp only [annToks, List.mem_append, List.mem_cons, List.not_mem_nil, or_false] at ht
    rcases ht with rfl | ht | rfl
    · rfl
    · exact c16_annTok_anns items t ht
    · rfl
  | .ellipsis => by simp [annToks, annTok]
  | .lit => by simp [annToks, annTok]
theorem c16_annTok_anns : (as : List Ann) → ∀ t ∈ annsToks as, annTok t = true
  | [] => by simp [annsToks]
  | a :: rest => by
    intro t ht
    simp only [annsToks, List.mem_append] at ht
    rcases ht with ht | ht
    · exact c16_annTok_ann a t ht
    · exact c16_annTok_tail rest t ht
theorem c16_annTok_tail : (as : List Ann) → ∀ t ∈ annsTail as, annTok t = true
  | [] => by simp [annsTail]
  | a :: rest => by
    intro t ht
    simp only [annsTail, List.mem_cons, List.mem_append] at ht
    rcases ht with rfl | ht | ht
    · rfl
    · exact c16_annTok_ann a t ht
    · exact c16_annTok_tail rest t ht
end

theorem c16_splitEq_noEq (xs ys : List Tok) (h : ∀ t ∈ xs, annTok t = true) :
    splitEq (xs ++ ys) = (xs ++ (splitEq ys).1, (splitEq ys).2) := by
  induction xs with
  | nil => simp
  | cons x xs ih =>
    have hx : x ≠ .eq := by
      intro e
      have := h x List.mem_cons_self
      rw [e] at this
      simp [annTok] at this
    simp only [List.cons_append, splitEq, hx, if_false]
    rw [ih (fun t ht => h t (List.mem_cons_of_mem _ ht))]

theorem c16_splitEq_ann (a : Ann) (ys : List Tok) :
    splitEq (annToks a ++ ys) = (annToks a ++ (splitEq ys).1, (splitEq ys).2) :=
  c16_splitEq_noEq _ _ (c16_annTok_ann a)

/-! ### single items -/

theorem c16_annPartOk (ann : Option Ann) (h : optWf ann = true) : annPartOk (annPart ann) = true := by
  cases ann with
  | none => rfl
  | some a => simp only [annPart, annPartOk]; exact c16_exprOk_ann a h

theorem c16_splitEq_parts (ann dflt : Option Ann) :
    splitEq (annPart ann ++ dfltPart dflt) = (annPart ann, dflt.map annToks) := by
  have hd : splitEq (dfltPart dflt) = ([], dflt.map annToks) := by
    cases dflt with
    | none => rfl
    | some d => simp [dfltPart, splitEq]
  cases ann with
  | none => simpa [annPart] using hd
  | some a =>
    simp only [annPart, List.cons_append, splitEq]
    rw [if_neg (by simp), c16_splitEq_ann, hd]
    simp

theorem c16_classify_name (n : String) (ann dflt : Option Ann) (hn : identOk n = true)
    (ha : optWf ann = true) (hd : optWf dflt = true) :
    classify (.name n :: (annPart ann ++ dfltPart dflt)) = some (.param n dflt.isSome) := by
  simp only [classify, c16_splitEq_parts, hn, c16_annPartOk ann ha, Bool.and_self, if_true]
  cases dflt with
  | none => rfl
  | some d => simp only [Option.map_some, Option.isSome_some]; rw [c16_exprOk_ann d hd]; rfl

theorem c16_classify_va (n : String) (ann : Option Ann) (hn : identOk n = true) (ha : optWf ann = true) :
    classify (.star :: .name n :: annPart ann) = some (.va n) := by
  simp [classify, hn, c16_annPartOk ann ha]

theorem c16_classify_vk (n : String) (ann : Option Ann) (hn : identOk n = true) (ha : optWf ann = true) :
    classify (.dstar :: .name n :: annPart ann) = some (.vk n) := by
  simp [classify, hn, c16_annPartOk ann ha]

theorem c16_flat_annPart (ann : Option Ann) : Flat (annPart ann) := by
  cases ann with
  | none => exact c16_flat_nil
  | some a => exact c16_flat_cons rfl (c16_flat_ann a)

theorem c16_flat_dfltPart (d : Option Ann) : Flat (dfltPart d) := by
  cases d with
  | none => exact c16_flat_nil
  | some a => exact c16_flat_cons rfl (c16_flat_ann a)

def noneAnn : Ann := .name ["None"]

theorem c16_noneDefault : noneDefault = dfltPart (some noneAnn) := rfl

/-- the annotation `get_all_type_info` stores for a field and whether `= None` follows -/
def fieldAnn (a : Ann) (p : Param) : Ann :=
  if p.hasDefault then (if isOptHead a then a else .sub ["Optional"] [a]) else a

theorem c16_fieldItem_eq (a : Ann) (p : Param) :
    fieldItem a p = .name p.name :: (annPart (some (fieldAnn a p)) ++
      dfltPart (if p.hasDefault then some noneAnn else none)) := by
  unfold fieldItem fieldAnn
  cases p.hasDefault <;> cases isOptHead a <;> simp [annPart, dfltPart, c16_noneDefault]

theorem c16_helperItem_eq (a : Ann) (p : Param) :
    helperItem a p = .name p.name :: (annPart (some (fieldAnn a p)) ++ dfltPart (some noneAnn)) := by
  unfold helperItem
  cases h : p.hasDefault
  · simp [fieldAnn, h, annPart, dfltPart, c16_noneDefault]
  · simp [c16_fieldItem_eq, h]

theorem c16_noneAnn_wf : noneAnn.wf = true := by decide

theorem c16_fieldAnn_wf (a : Ann) (p : Param) (h : a.wf = true) : (fieldAnn a p).wf = true := by
  unfold fieldAnn
  cases p.hasDefault <;> cases isOptHead a <;> simp [h, Ann.wf, Ann.wfL, dottedOk] <;> decide

def toItem (p : Param) : Item := .param p.name p.hasDefault
def toItemD (p : Param) : Item := .param p.name true

theorem c16_classify_fieldItem (a : Ann) (p : Param) (hn : identOk p.name = true) (h : a.wf = true) :
    classify (fieldItem a p) = some (toItem p) := by
  have hw : optWf (some (fieldAnn a p)) = true := c16_fieldAnn_wf a p h
  rw [c16_fieldItem_eq, c16_classify_name _ _ _ hn hw]
  · cases hd : p.hasDefault <;> simp [toItem, hd]
  · cases p.hasDefault <;> simp [optWf, c16_noneAnn_wf]

theorem c16_classify_helperItem (a : Ann) (p : Param) (hn : identOk p.name = true) (h : a.wf = true) :
    classify (helperItem a p) = some (toItemD p) := by
  have hw : optWf (some (fieldAnn a p)) = true := c16_fieldAnn_wf a p h
  have hw2 : optWf (some noneAnn) = true := c16_noneAnn_wf
  rw [c16_helperItem_eq, c16_classify_name _ _ _ hn hw hw2]
  rfl

theorem c16_flat_fieldItem (a : Ann) (p : Param) : Flat (fieldItem a p) := by
  rw [c16_fieldItem_eq]
  exact c16_flat_cons rfl (c16_flat_append (c16_flat_annPart _) (c16_flat_dfltPart _))

theorem c16_flat_helperItem (a : Ann) (p : Param) : Flat (helperItem a p) := by
  rw [c16_helperItem_eq]
  exact c16_flat_cons rfl (c16_flat_append (c16_flat_annPart _) (c16_flat_dfltPart _))

theorem c16_fieldItem_ne_nil (a : Ann) (p : Param) : fieldItem a p ≠ [] := by simp [fieldItem]
theorem c16_helperItem_ne_nil (a : Ann) (p : Param) : helperItem a p ≠ [] := by
  unfold helperItem; split <;> simp [fieldItem]

/-! ### lists of items -/

theorem c16_classifyAll_cons (x : List Tok) (xs : List (List Tok)) (i : Item) (is : List Item)
    (h1 : classify x = some i) (h2 : classifyAll xs = some is) : classifyAll (x :: xs) = some (i :: is) := by
  simp [classifyAll, h1, h2]

theorem c16_classifyAll_append (xs ys : List (List Tok)) (is js : List Item)
    (h1 : classifyAll xs = some is) (h2 : classifyAll ys = some js) :
    classifyAll (xs ++ ys) = some (is ++ js) := by
  induction xs generalizing is with
  | nil => simp [classifyAll] at h1; subst h1; simpa using h2
  | cons x xs ih =>
    simp only [classifyAll] at h1
    cases hx : classify x with
    | none => simp [hx] at h1
    | some i =>
      cases hxs : classifyAll xs with
      | none => simp [hx, hxs] at h1
      | some is' =>
        simp only [hx, hxs, Option.some.injEq] at h1
        subst h1
        simp [classifyAll, hx, ih is' hxs]

theorem c16_classifyAll_map {α} (ps : List α) (f : α → List Tok) (g : α → Item)
    (h : ∀ p ∈ ps, classify (f p) = some (g p)) : classifyAll (ps.map f) = some (ps.map g) := by
  induction ps with
  | nil => rfl
  | cons p ps ih =>
    simp only [List.map_cons]
    exact c16_classifyAll_cons _ _ _ _ (h p List.mem_cons_self) (ih (fun q hq => h q (List.mem_cons_of_mem _ hq)))

theorem c16_dropTrailing_id (xs : List (List Tok)) (h : ∀ x ∈ xs, x ≠ []) : dropTrailing xs = xs := by
  match xs with
  | [] => rfl
  | [x] => rfl
  | x :: y :: rest =>
    simp only [dropTrailing]
    rw [if_neg]
    intro hl
    have hm : ([] : List Tok) ∈ y :: rest := List.mem_of_getLast? hl
    exact h [] (List.mem_cons_of_mem _ hm) rfl

/-! ### ordering -/

def pkInfo (p : Param) : PInfo := ⟨p.name, .pk, p.hasDefault⟩
def koInfo (p : Param) : PInfo := ⟨p.name, .ko, p.hasDefault⟩

theorem c16_mandatoryFirst_of_all (ps : List Param) (h : ∀ p ∈ ps, p.hasDefault = true) :
    mandatoryFirst ps = true := by
  cases ps with
  | nil => rfl
  | cons p ps =>
    simp only [mandatoryFirst, h p List.mem_cons_self, if_true, List.all_eq_true]
    exact fun q hq => h q (List.mem_cons_of_mem _ hq)

/-- positional section: a `mandatoryFirst` list goes through -/
theorem c16_orderGo_pos (ps : List Param) (s : Sect) (hs : s = .p0 ∨ s = .p1) (seenD : Bool) (acc : List PInfo)
    (rest : List Item) (h1 : seenD = true → ∀ p ∈ ps, p.hasDefault = true) (h2 : mandatoryFirst ps = true) :
    orderGo s seenD acc (ps.map toItem ++ rest) =
      orderGo s (seenD || ps.any (·.hasDefault)) ((ps.map pkInfo).reverse ++ acc) rest := by
  induction ps generalizing seenD acc with
  | nil => simp
  | cons p ps ih =>
    simp only [List.map_cons, List.cons_append, toItem, orderGo, hs, if_true]
    cases hd : p.hasDefault
    · have hsd : seenD = false := by
        cases seenD
        · rfl
        · have := h1 rfl p List.mem_cons_self
          rw [hd] at this; cases this
      subst hsd
      simp only [Bool.not_false, Bool.and_false, Bool.false_eq_true, if_false, Bool.or_false]
      have hm : mandatoryFirst ps = true := by simpa [mandatoryFirst, hd] using h2
      rw [ih false _ (fun h => by cases h) hm]
      simp [hd, pkInfo]
    · simp only [Bool.not_true, Bool.false_and, Bool.false_eq_true, if_false, Bool.or_true]
      have hall : ∀ q ∈ ps, q.hasDefault = true := by
        simpa [mandatoryFirst, hd] using h2
      rw [ih true _ (fun _ => hall) (c16_mandatoryFirst_of_all ps hall)]
      simp [hd, pkInfo]

/-- keyword-only section: anything goes -/
theorem c16_orderGo_kw (ps : List Param) (seenD : Bool) (acc : List PInfo) (rest : List Item) :
    orderGo (.kw false) seenD acc (ps.map toItem ++ rest) =
      orderGo (.kw false) seenD ((ps.map koInfo).reverse ++ acc) rest := by
  induction ps generalizing acc with
  | nil => simp
  | cons p ps ih =>
    simp only [List.map_cons, List.cons_append, toItem, orderGo]
    rw [if_neg (by simp), if_neg (by simp)]
    rw [ih (⟨p.name, .ko, p.hasDefault⟩ :: acc)]
    simp [koInfo]

/-! ### the glue: a `def` header made of flat, classifiable items -/

theorem c16_parseDef_defToks (f : String) (x : List Tok) (rest : List (List Tok)) (ps : List PInfo)
    (hf : identOk f = true) (hflat : ∀ y ∈ x :: rest, Flat y) (hp : parseItems (x :: rest) = some ps) :
    parseDef (defToks f (x :: rest)) = some ⟨f, ps⟩ := by
  simp only [defToks, parseDef, hf, if_true]
  rw [c16_splitParams_join x rest hflat]
  simp [tailOk, hp]

theorem c16_parseItems_of (items : List (List Tok)) (is : List Item) (ps : List PInfo)
    (hne : ∀ x ∈ items, x ≠ []) (h0 : items ≠ []) (hc : classifyAll items = some is)
    (ho : orderItems is = some ps) : parseItems items = some ps := by
  unfold parseItems
  rw [if_neg, c16_dropTrailing_id items hne, hc]
  · exact ho
  · intro e
    subst e
    exact hne [] List.mem_cons_self rfl

/-! ### the generated `__init__` and helper methods, for any signature with mandatory parameters first -/

def kwInfos (kw : Bool) (n : String) : List PInfo := if kw then [⟨n, .vk, false⟩] else []
def kwItems (kw : Bool) (n : String) : List Item := if kw then [.vk n] else []
def kwToks (kw : Bool) (n : String) : List (List Tok) := if kw then [kwItem n] else []

theorem c16_kwName_ok (ps : List Param) : identOk (kwName ps) = true := by
  unfold kwName
  split <;> decide

theorem c16_kw_classify (kw : Bool) (n : String) (hn : identOk n = true) :
    classifyAll (kwToks kw n) = some (kwItems kw n) := by
  cases kw
  · rfl
  · simp [kwToks, kwItems, kwItem, classifyAll, classify, hn, annPartOk]

theorem c16_kw_flat (kw : Bool) (n : String) : ∀ y ∈ kwToks kw n, Flat y := by
  cases kw
  · simp [kwToks]
  · intro y hy
    simp only [kwToks, if_true, List.mem_singleton] at hy
    subst hy
    exact c16_flat_cons rfl (c16_flat_neutral rfl)

theorem c16_kw_ne (kw : Bool) (n : String) : ∀ y ∈ kwToks kw n, y ≠ [] := by
  cases kw <;> simp [kwToks, kwItem]

theorem c16_orderGo_kwEnd (s : Sect) (hs : s ≠ .done ∧ s ≠ .kw true) (seenD : Bool) (acc : List PInfo) (kw : Bool)
    (n : String) :
    orderGo s seenD acc (kwItems kw n) = some (acc.reverse ++ kwInfos kw n) := by
  cases kw
  · simp [kwItems, kwInfos, orderGo, hs.2]
  · simp [kwItems, kwInfos, orderGo, hs.1, hs.2]

theorem c16_helperFields_sub {hk : Helper} {ps : List Param} {p : Param} (h : p ∈ helperFields hk ps) : p ∈ ps := by
  unfold helperFields at h
  cases hk
  · exact h
  · exact (List.mem_filter.mp h).1
  · exact (List.mem_filter.mp h).1

theorem c16_init_parses (anns : String → Ann) (s : Sig) (hm : mandatoryFirst s.params = true)
    (h : textDomain anns s.params = true) :
    parseDef (initToks anns s) =
      some ⟨"__init__", ⟨"self", .pk, false⟩ :: (s.params.map pkInfo ++ kwInfos s.kw (kwName s.params))⟩ := by
  have hdom : ∀ p ∈ s.params, identOk p.name = true ∧ (anns p.name).wf = true := by
    intro p hp
    have := List.all_eq_true.mp h p hp
    simpa using this
  have hitems : [[Tok.name "self"]] ++ s.params.map (fun p => fieldItem (anns p.name) p) ++
      (if s.kw then [kwItem (kwName s.params)] else []) =
      [Tok.name "self"] :: (s.params.map (fun p => fieldItem (anns p.name) p) ++ kwToks s.kw (kwName s.params)) := by
    simp [kwToks]
  unfold initToks
  rw [hitems]
  apply c16_parseDef_defToks _ _ _ _ (by decide)
  · intro y hy
    simp only [List.mem_cons, List.mem_append, List.mem_map] at hy
    rcases hy with rfl | ⟨p, _, rfl⟩ | hy
    · exact c16_flat_neutral rfl
    · exact c16_flat_fieldItem _ _
    · exact c16_kw_flat _ _ y hy
  · apply c16_parseItems_of _ (.param "self" false :: (s.params.map toItem ++ kwItems s.kw (kwName s.params)))
    · intro y hy
      simp only [List.mem_cons, List.mem_append, List.mem_map] at hy
      rcases hy with rfl | ⟨p, _, rfl⟩ | hy
      · simp
      · exact c16_fieldItem_ne_nil _ _
      · exact c16_kw_ne _ _ y hy
    · simp
    · apply c16_classifyAll_cons _ _ _ _ (by decide)
      apply c16_classifyAll_append _ _ _ _ _ (c16_kw_classify _ _ (c16_kwName_ok _))
      exact c16_classifyAll_map _ _ _ (fun p hp => c16_classify_fieldItem _ _ (hdom p hp).1 (hdom p hp).2)
    · show orderGo .p0 false [] _ = _
      simp only [orderGo, true_or, if_true, Bool.not_false, Bool.and_false, Bool.false_eq_true, if_false,
        Bool.or_false]
      rw [c16_orderGo_pos _ _ (Or.inl rfl) _ _ _ (fun h => by cases h) hm]
      rw [c16_orderGo_kwEnd _ (by simp)]
      simp

/-- what the parser must find in the three helper methods -/
def helperLeadInfos : Helper → List PInfo
  | .shallowClone => [⟨"self", .pk, false⟩]
  | .fromOtherClass => [⟨"cls", .pk, false⟩, ⟨"source_object", .pk, false⟩, ⟨"ignore_props", .ko, true⟩]
  | .fromTrustedData => [⟨"cls", .pk, false⟩, ⟨"source_object", .pk, true⟩, ⟨"ignore_props", .ko, true⟩]

def helperFieldKind : Helper → PKind
  | .shallowClone => .pk
  | _ => .ko

def helperInfo (h : Helper) (p : Param) : PInfo := ⟨p.name, helperFieldKind h, true⟩

def allDefault (ps : List Param) : List Param := ps.map (fun p => ⟨p.name, true⟩)

theorem c16_toItemD (ps : List Param) : ps.map toItemD = (allDefault ps).map toItem := by
  simp [allDefault, toItemD, toItem, List.map_map, Function.comp_def]

theorem c16_helper_parses (anns : String → Ann) (hk : Helper) (s : Sig)
    (h : textDomain anns s.params = true) :
    parseDef (helperToks anns hk s) =
      some ⟨helperName hk, helperLeadInfos hk ++ ((helperFields hk s.params).map (helperInfo hk) ++ kwInfos s.kw (kwName s.params))⟩ := by
  have hdom : ∀ p ∈ s.params, identOk p.name = true ∧ (anns p.name).wf = true := by
    intro p hp
    have := List.all_eq_true.mp h p hp
    simpa using this
  have hcl : classifyAll ((helperFields hk s.params).map (fun p => helperItem (anns p.name) p) ++ kwToks s.kw (kwName s.params)) =
      some ((allDefault (helperFields hk s.params)).map toItem ++ kwItems s.kw (kwName s.params)) := by
    rw [← c16_toItemD]
    apply c16_classifyAll_append _ _ _ _ _ (c16_kw_classify _ _ (c16_kwName_ok _))
    exact c16_classifyAll_map _ _ _ (fun p hp => c16_classify_helperItem _ _ (hdom p (c16_helperFields_sub hp)).1
      (hdom p (c16_helperFields_sub hp)).2)
  have hfl : ∀ y ∈ (helperFields hk s.params).map (fun p => helperItem (anns p.name) p) ++ kwToks s.kw (kwName s.params), Flat y := by
    intro y hy
    simp only [List.mem_append, List.mem_map] at hy
    rcases hy with ⟨p, _, rfl⟩ | hy
    · exact c16_flat_helperItem _ _
    · exact c16_kw_flat _ _ y hy
  have hne : ∀ y ∈ (helperFields hk s.params).map (fun p => helperItem (anns p.name) p) ++ kwToks s.kw (kwName s.params), y ≠ [] := by
    intro y hy
    simp only [List.mem_append, List.mem_map] at hy
    rcases hy with ⟨p, _, rfl⟩ | hy
    · exact c16_helperItem_ne_nil _ _
    · exact c16_kw_ne _ _ y hy
  have hall : ∀ p ∈ allDefault (helperFields hk s.params), p.hasDefault = true := by
    intro p hp
    simp only [allDefault, List.mem_map] at hp
    obtain ⟨q, _, rfl⟩ := hp
    rfl
  have hkw : (if s.kw then [kwItem (kwName s.params)] else []) = kwToks s.kw (kwName s.params) := rfl
  unfold helperToks
  rw [hkw, List.append_assoc]
  cases hk with
  | shallowClone =>
    simp only [helperLead, List.cons_append, List.nil_append]
    apply c16_parseDef_defToks _ _ _ _ (by decide)
    · intro y hy
      rcases List.mem_cons.mp hy with rfl | hy
      · exact c16_flat_neutral rfl
      · exact hfl y hy
    · apply c16_parseItems_of _ (.param "self" false :: ((allDefault (helperFields .shallowClone s.params)).map toItem ++ kwItems s.kw (kwName s.params)))
      · intro y hy
        rcases List.mem_cons.mp hy with rfl | hy
        · simp
        · exact hne y hy
      · simp
      · exact c16_classifyAll_cons _ _ _ _ (by decide) hcl
      · show orderGo .p0 false [] _ = _
        simp only [orderGo, true_or, if_true, Bool.not_false, Bool.and_false, Bool.false_eq_true, if_false,
          Bool.or_false]
        rw [c16_orderGo_pos _ _ (Or.inl rfl) _ _ _ (fun h => by cases h) (c16_mandatoryFirst_of_all _ hall)]
        rw [c16_orderGo_kwEnd _ (by simp)]
        simp [helperLeadInfos, helperInfo, helperFieldKind, allDefault, pkInfo, List.map_map, Function.comp_def]
  | fromOtherClass =>
    simp only [helperLead, List.cons_append, List.nil_append]
    apply c16_parseDef_defToks _ _ _ _ (by decide)
    · intro y hy
      simp only [List.mem_cons] at hy
      rcases hy with rfl | rfl | rfl | rfl | hy
      · exact c16_flat_neutral rfl
      · exact c16_flat_cons rfl (c16_flat_cons rfl (c16_flat_ann _))
      · exact c16_flat_neutral rfl
      · exact c16_flat_cons rfl (c16_flat_cons rfl (c16_flat_append (c16_flat_ann _) (c16_flat_dfltPart (some noneAnn))))
      · exact hfl y hy
    · apply c16_parseItems_of _ (.param "cls" false :: .param "source_object" false :: .star ::
          .param "ignore_props" true :: ((allDefault (helperFields .fromOtherClass s.params)).map toItem ++ kwItems s.kw (kwName s.params)))
      · intro y hy
        simp only [List.mem_cons] at hy
        rcases hy with rfl | rfl | rfl | rfl | hy
        · simp
        · simp
        · simp
        · simp
        · exact hne y hy
      · simp
      · exact c16_classifyAll_cons _ _ _ _ (by decide) (c16_classifyAll_cons _ _ _ _ (by decide)
          (c16_classifyAll_cons _ _ _ _ (by decide) (c16_classifyAll_cons _ _ _ _ (by decide) hcl)))
      · show orderGo .p0 false [] _ = _
        simp only [orderGo, true_or, if_true, Bool.not_false, Bool.and_false, Bool.false_eq_true, if_false,
          Bool.or_false, Bool.or_true]
        rw [if_neg (by simp), if_neg (by simp)]
        rw [c16_orderGo_kw, c16_orderGo_kwEnd _ (by simp)]
        simp [helperLeadInfos, helperInfo, helperFieldKind, allDefault, koInfo, List.map_map, Function.comp_def]
  | fromTrustedData =>
    simp only [helperLead, List.cons_append, List.nil_append]
    apply c16_parseDef_defToks _ _ _ _ (by decide)
    · intro y hy
      simp only [List.mem_cons] at hy
      rcases hy with rfl | rfl | rfl | rfl | hy
      · exact c16_flat_neutral rfl
      · exact c16_flat_cons rfl (c16_flat_cons rfl (c16_flat_append (c16_flat_ann _) (c16_flat_dfltPart (some noneAnn))))
      · exact c16_flat_neutral rfl
      · exact c16_flat_cons rfl (c16_flat_cons rfl (c16_flat_append (c16_flat_ann _) (c16_flat_dfltPart (some noneAnn))))
      · exact hfl y hy
    · apply c16_parseItems_of _ (.param "cls" false :: .param "source_object" true :: .star ::
          .param "ignore_props" true :: ((allDefault (helperFields .fromTrustedData s.params)).map toItem ++ kwItems s.kw (kwName s.params)))
      · intro y hy
        simp only [List.mem_cons] at hy
        rcases hy with rfl | rfl | rfl | rfl | hy
        · simp
        · simp
        · simp
        · simp
        · exact hne y hy
      · simp
      · exact c16_classifyAll_cons _ _ _ _ (by decide) (c16_classifyAll_cons _ _ _ _ (by decide)
          (c16_classifyAll_cons _ _ _ _ (by decide) (c16_classifyAll_cons _ _ _ _ (by decide) hcl)))
      · show orderGo .p0 false [] _ = _
        simp only [orderGo, true_or, if_true, Bool.not_false, Bool.and_false, Bool.false_eq_true, if_false,
          Bool.or_false, Bool.or_true, Bool.not_true, Bool.false_and]
        rw [if_neg (by simp), if_neg (by simp)]
        rw [c16_orderGo_kw, c16_orderGo_kwEnd _ (by simp)]
        simp [helperLeadInfos, helperInfo, helperFieldKind, allDefault, koInfo, List.map_map, Function.comp_def]

/-! ### methods / functions re-rendered from `inspect.signature`: print, then parse, gives the signature back -/

def rItem (p : RParam) : Item :=
  match p.kind with
  | .va => .va p.name
  | .vk => .vk p.name
  | _ => .param p.name p.dflt.isSome

def slashIf (b : Bool) : List Item := if b then [.slash] else []
def starIf (b : Bool) : List Item := if b then [.star] else []

/-- `sigItemsGo` at the level of classified items -/
def sigItemsI : Bool → Bool → List RParam → List Item
  | pending, _, [] => slashIf pending
  | pending, found, p :: rest =>
    slashIf (pending && p.kind != .po) ++ starIf (p.kind == .ko && !(found || p.kind == .va)) ++
      (rItem p :: sigItemsI (p.kind == .po)
        ((found || p.kind == .va) || (p.kind == .ko && !(found || p.kind == .va))) rest)

theorem c16_sigI_po (pend found : Bool) (p : RParam) (rest : List RParam) (hk : p.kind = .po) :
    sigItemsI pend found (p :: rest) = .param p.name p.dflt.isSome :: sigItemsI true found rest := by
  cases pend <;> cases found <;> simp +decide [sigItemsI, hk, rItem, slashIf, starIf] <;> rfl

theorem c16_sigI_pk (pend found : Bool) (p : RParam) (rest : List RParam) (hk : p.kind = .pk) :
    sigItemsI pend found (p :: rest) = slashIf pend ++ (.param p.name p.dflt.isSome :: sigItemsI false found rest) := by
  cases pend <;> cases found <;> simp +decide [sigItemsI, hk, rItem, slashIf, starIf] <;> rfl

theorem c16_sigI_va (pend found : Bool) (p : RParam) (rest : List RParam) (hk : p.kind = .va) :
    sigItemsI pend found (p :: rest) = slashIf pend ++ (.va p.name :: sigItemsI false true rest) := by
  cases pend <;> cases found <;> simp +decide [sigItemsI, hk, rItem, slashIf, starIf] <;> rfl

theorem c16_sigI_ko (pend found : Bool) (p : RParam) (rest : List RParam) (hk : p.kind = .ko) :
    sigItemsI pend found (p :: rest) =
      slashIf pend ++ starIf (!found) ++ (.param p.name p.dflt.isSome :: sigItemsI false true rest) := by
  cases pend <;> cases found <;> simp +decide [sigItemsI, hk, rItem, slashIf, starIf] <;> rfl

theorem c16_sigI_vk (pend found : Bool) (p : RParam) (rest : List RParam) (hk : p.kind = .vk) :
    sigItemsI pend found (p :: rest) = slashIf pend ++ (.vk p.name :: sigItemsI false found rest) := by
  cases pend <;> cases found <;> simp +decide [sigItemsI, hk, rItem, slashIf, starIf] <;> rfl

theorem c16_rparamToks_classify (p : RParam) (h : rparamOk p = true) (hv : noVarDefault p = true) :
    classify (rparamToks p) = some (rItem p) := by
  simp only [rparamOk, Bool.and_eq_true] at h
  unfold rparamToks rItem
  cases hk : p.kind
  · simpa [kindPrefix] using c16_classify_name p.name p.ann p.dflt h.1.1 h.1.2 h.2
  · simpa [kindPrefix] using c16_classify_name p.name p.ann p.dflt h.1.1 h.1.2 h.2
  · have hd : p.dflt = none := by simpa [noVarDefault, hk] using hv
    simpa [kindPrefix, hd, dfltPart] using c16_classify_va p.name p.ann h.1.1 h.1.2
  · simpa [kindPrefix] using c16_classify_name p.name p.ann p.dflt h.1.1 h.1.2 h.2
  · have hd : p.dflt = none := by simpa [noVarDefault, hk] using hv
    simpa [kindPrefix, hd, dfltPart] using c16_classify_vk p.name p.ann h.1.1 h.1.2

theorem c16_rparamToks_flat (p : RParam) : Flat (rparamToks p) := by
  unfold rparamToks
  apply c16_flat_append ?_ (c16_flat_cons rfl (c16_flat_append (c16_flat_annPart _) (c16_flat_dfltPart _)))
  cases p.kind
  · exact c16_flat_nil
  · exact c16_flat_nil
  · exact c16_flat_neutral rfl
  · exact c16_flat_nil
  · exact c16_flat_neutral rfl

theorem c16_rparamToks_ne (p : RParam) : rparamToks p ≠ [] := by
  unfold rparamToks
  cases p.kind <;> simp [kindPrefix]

theorem c16_slashIf_classify (b : Bool) :
    classifyAll (if b then [[Tok.slash]] else []) = some (slashIf b) := by cases b <;> rfl

theorem c16_starIf_classify (b : Bool) :
    classifyAll (if b then [[Tok.star]] else []) = some (starIf b) := by cases b <;> rfl

theorem c16_sigItems_classify (ps : List RParam) (pending found : Bool)
    (h : ∀ p ∈ ps, rparamOk p = true ∧ noVarDefault p = true) :
    classifyAll (sigItemsGo pending found ps) = some (sigItemsI pending found ps) := by
  induction ps generalizing pending found with
  | nil => cases pending <;> rfl
  | cons p ps ih =>
    have hp := h p List.mem_cons_self
    have hrest := ih (p.kind == .po) ((found || p.kind == .va) || (p.kind == .ko && !(found || p.kind == .va)))
      (fun q hq => h q (List.mem_cons_of_mem _ hq))
    have hcl := c16_rparamToks_classify p hp.1 hp.2
    simp only [sigItemsGo, sigItemsI]
    apply c16_classifyAll_append
    · exact c16_classifyAll_append _ _ _ _ (c16_slashIf_classify _) (c16_starIf_classify _)
    · exact c16_classifyAll_cons _ _ _ _ hcl hrest

theorem c16_sigItems_flat (ps : List RParam) (pending found : Bool) :
    ∀ y ∈ sigItemsGo pending found ps, Flat y ∧ y ≠ [] := by
  induction ps generalizing pending found with
  | nil =>
    cases pending
    · simp [sigItemsGo]
    · intro y hy
      simp only [sigItemsGo, if_true, List.mem_singleton] at hy
      subst hy
      exact ⟨c16_flat_neutral rfl, by simp⟩
  | cons p ps ih =>
    intro y hy
    simp only [sigItemsGo, List.mem_append, List.mem_cons] at hy
    rcases hy with (hy | hy) | rfl | hy
    · split at hy
      · simp only [List.mem_singleton] at hy; subst hy; exact ⟨c16_flat_neutral rfl, by simp⟩
      · cases hy
    · split at hy
      · simp only [List.mem_singleton] at hy; subst hy; exact ⟨c16_flat_neutral rfl, by simp⟩
      · cases hy
    · exact ⟨c16_rparamToks_flat p, c16_rparamToks_ne p⟩
    · exact ih _ _ y hy

theorem c16_valid_done (seenD : Bool) (ps : List RParam) (h : validGo .done seenD ps = true) : ps = [] := by
  cases ps with
  | nil => rfl
  | cons p rest =>
    simp only [validGo] at h
    cases hk : p.kind <;> simp [hk] at h

theorem c16_order_ko (ps : List RParam) (seenD : Bool) (acc : List PInfo)
    (h : validGo .ko seenD ps = true) :
    orderGo (.kw false) seenD acc (sigItemsI false true ps) = some (acc.reverse ++ ps.map RParam.info) := by
  induction ps generalizing acc with
  | nil => simp [sigItemsI, slashIf, orderGo]
  | cons p rest ih =>
    simp only [validGo] at h
    cases hk : p.kind <;> simp [hk] at h
    · rw [c16_sigI_ko _ _ _ _ hk]
      simp only [slashIf, starIf, Bool.not_true, Bool.false_eq_true, if_false, List.nil_append, orderGo]
      rw [if_neg (by simp), if_neg (by simp), ih _ h]
      simp [RParam.info, hk]
    · have hr := c16_valid_done _ _ h.2
      subst hr
      rw [c16_sigI_vk _ _ _ _ hk]
      simp [slashIf, sigItemsI, orderGo, RParam.info, hk, h.1]

theorem c16_noDefault_ok {d seenD : Bool} (h : d = true ∨ seenD = false) : (!d && seenD) = false := by
  cases d <;> cases seenD <;> simp_all

theorem c16_order_pk (ps : List RParam) (s : Sect) (hs : s = .p0 ∨ s = .p1) (seenD : Bool) (acc : List PInfo)
    (h : validGo .pk seenD ps = true) :
    orderGo s seenD acc (sigItemsI false false ps) = some (acc.reverse ++ ps.map RParam.info) := by
  induction ps generalizing seenD acc with
  | nil => rcases hs with rfl | rfl <;> simp [sigItemsI, slashIf, orderGo]
  | cons p rest ih =>
    simp only [validGo] at h
    cases hk : p.kind <;> simp [hk] at h
    · -- pk
      rw [c16_sigI_pk _ _ _ _ hk]
      simp only [slashIf, Bool.false_eq_true, if_false, List.nil_append, orderGo, hs, if_true]
      rw [c16_noDefault_ok h.1]
      simp only [Bool.false_eq_true, if_false]
      rw [ih _ _ h.2]
      simp [RParam.info, hk]
    · -- va
      rw [c16_sigI_va _ _ _ _ hk]
      simp only [slashIf, Bool.false_eq_true, if_false, List.nil_append, orderGo, hs, if_true]
      rw [c16_order_ko _ _ _ h.2]
      simp [RParam.info, hk, h.1]
    · -- ko
      rw [c16_sigI_ko _ _ _ _ hk]
      simp only [slashIf, starIf, Bool.not_false, Bool.false_eq_true, if_false, if_true, List.nil_append,
        List.cons_append, orderGo, hs]
      rw [if_neg (by simp), if_neg (by simp)]
      rw [c16_order_ko _ _ _ h]
      simp [RParam.info, hk]
    · -- vk
      have hr := c16_valid_done _ _ h.2
      subst hr
      rw [c16_sigI_vk _ _ _ _ hk]
      rcases hs with rfl | rfl <;> simp [slashIf, sigItemsI, orderGo, RParam.info, hk, h.1]

theorem c16_setPo_info (p : RParam) (hk : p.kind = .po) :
    setPo ⟨p.name, .pk, p.dflt.isSome⟩ = p.info := by
  simp [setPo, RParam.info, hk]

theorem c16_order_po1 (ps : List RParam) (seenD : Bool) (acc : List PInfo) (hacc : acc ≠ [])
    (h : validGo .po1 seenD ps = true) :
    orderGo .p0 seenD acc (sigItemsI true false ps) = some ((acc.map setPo).reverse ++ ps.map RParam.info) := by
  induction ps generalizing seenD acc with
  | nil =>
    have : acc.isEmpty = false := by cases acc <;> simp_all
    simp [sigItemsI, slashIf, orderGo, this]
  | cons p rest ih =>
    have hne : acc.isEmpty = false := by cases acc <;> simp_all
    simp only [validGo] at h
    cases hk : p.kind <;> simp [hk] at h
    · -- po
      rw [c16_sigI_po _ _ _ _ hk]
      simp only [orderGo, true_or, if_true]
      rw [c16_noDefault_ok h.1]
      simp only [Bool.false_eq_true, if_false]
      rw [ih _ _ (by simp) h.2]
      simp [c16_setPo_info p hk]
    · -- pk
      rw [c16_sigI_pk _ _ _ _ hk]
      simp only [slashIf, if_true, List.cons_append, List.nil_append, orderGo, hne, Bool.not_false, Bool.and_true,
        or_true]
      rw [c16_noDefault_ok h.1]
      simp only [Bool.false_eq_true, if_false]
      rw [c16_order_pk _ _ (Or.inr rfl) _ _ h.2]
      simp [RParam.info, hk]
    · -- va
      rw [c16_sigI_va _ _ _ _ hk]
      simp only [slashIf, if_true, List.cons_append, List.nil_append, orderGo, hne, Bool.not_false, Bool.and_true,
        or_true]
      rw [c16_order_ko _ _ _ h.2]
      simp [RParam.info, hk, h.1]
    · -- ko
      rw [c16_sigI_ko _ _ _ _ hk]
      have step : orderGo .p0 seenD acc (slashIf true ++ starIf (!false) ++
          (Item.param p.name p.dflt.isSome :: sigItemsI false true rest)) =
          orderGo (.kw false) seenD (⟨p.name, .ko, p.dflt.isSome⟩ :: acc.map setPo) (sigItemsI false true rest) := by
        simp [orderGo, hne, slashIf, starIf]
      rw [step, c16_order_ko _ _ _ h]
      simp [RParam.info, hk]
    · -- vk
      have hr := c16_valid_done _ _ h.2
      subst hr
      rw [c16_sigI_vk _ _ _ _ hk]
      simp [slashIf, sigItemsI, orderGo, RParam.info, hk, h.1, hne]

theorem c16_order_sig (ps : List RParam) (h : validSig ps = true) :
    orderItems (sigItemsI false false ps) = some (ps.map RParam.info) := by
  unfold validSig at h
  unfold orderItems
  cases ps with
  | nil => simp [sigItemsI, slashIf, orderGo]
  | cons p rest =>
    cases hk : p.kind
    · -- po: enter phase po1
      simp only [validGo, hk] at h
      simp at h
      rw [c16_sigI_po _ _ _ _ hk]
      simp only [orderGo, true_or, if_true, Bool.and_false, Bool.false_eq_true, if_false, Bool.false_or]
      rw [c16_order_po1 _ _ _ (by simp) h]
      simp [c16_setPo_info p hk]
    all_goals
      have h' : validGo .pk false (p :: rest) = true := by
        simp only [validGo, hk] at h ⊢
        simpa using h
      have := c16_order_pk (p :: rest) .p0 (Or.inl rfl) false [] h'
      simpa using this

theorem c16_tailOk_ret (ret : Option Ann) (hret : optWf ret = true) :
    tailOk (retPart ret ++ [.colon, .ellipsis]) = true := by
  cases ret with
  | none => rfl
  | some r =>
    simp only [retPart, tailOk, List.cons_append, List.reverse_append, List.reverse_cons, List.reverse_nil,
      List.nil_append, List.reverse_reverse]
    exact c16_exprOk_ann r hret

/-- print a legal signature the way `_get_list_of_params_with_type` does, parse it: the same names, kinds and
    default flags come back -/
theorem c16_method_roundtrip (f : String) (ps : List RParam) (ret : Option Ann) (hf : identOk f = true)
    (hne : ps ≠ []) (hv : validSig ps = true) (hok : ∀ p ∈ ps, rparamOk p = true ∧ noVarDefault p = true)
    (hret : optWf ret = true) :
    parseDef (methodToks f ps ret) = some ⟨f, ps.map RParam.info⟩ := by
  have hitems : sigItems ps ≠ [] := by
    cases ps with
    | nil => exact absurd rfl hne
    | cons p rest => simp [sigItems, sigItemsGo]
  cases hsi : sigItems ps with
  | nil => exact absurd hsi hitems
  | cons x rest =>
    have hflat := c16_sigItems_flat ps false false
    have hpi : parseItems (x :: rest) = some (ps.map RParam.info) := by
      rw [← hsi]
      apply c16_parseItems_of _ (sigItemsI false false ps)
      · exact fun y hy => (hflat y hy).2
      · exact hitems
      · exact c16_sigItems_classify ps false false hok
      · exact c16_order_sig ps hv
    simp only [methodToks, hsi, parseDef, hf, if_true]
    rw [c16_splitParams_join x rest (fun y hy => (hflat y (by rw [show sigItemsGo false false ps = x :: rest from hsi]; exact hy)).1)]
    simp [c16_tailOk_ret ret hret, hpi]

/-! ### class headers and attribute lines -/

theorem c16_exprOk_dotted (ps : List String) (h : dottedOk ps = true) : exprOk (dottedToks ps) = true := by
  have := c16_runE_dotted [] false ps [] h
  simp only [List.append_nil, runE] at this
  simp [exprOk, this]

theorem c16_dotted_ne (ps : List String) (h : dottedOk ps = true) : dottedToks ps ≠ [] := by
  cases ps with
  | nil => simp [dottedOk] at h
  | cons a rest => simp [dottedToks]

theorem c16_class_parses (c : String) (bases : List (List String)) (hc : identOk c = true)
    (hb : ∀ b ∈ bases, dottedOk b = true) : parseClass (classToks c bases) = some (c, bases.length) := by
  cases bases with
  | nil => simp [classToks, parseClass, hc]
  | cons b rest =>
    have hflat : ∀ y ∈ dottedToks b :: rest.map dottedToks, Flat y := by
      intro y hy
      rcases List.mem_cons.mp hy with rfl | hy
      · exact c16_flat_dotted b
      · obtain ⟨q, _, rfl⟩ := List.mem_map.mp hy
        exact c16_flat_dotted q
    have hne : ∀ y ∈ dottedToks b :: rest.map dottedToks, y ≠ [] := by
      intro y hy
      rcases List.mem_cons.mp hy with rfl | hy
      · exact c16_dotted_ne b (hb b List.mem_cons_self)
      · obtain ⟨q, hq, rfl⟩ := List.mem_map.mp hy
        exact c16_dotted_ne q (hb q (List.mem_cons_of_mem _ hq))
    have hok : (dottedToks b :: rest.map dottedToks).all exprOk = true := by
      rw [List.all_eq_true]
      intro y hy
      rcases List.mem_cons.mp hy with rfl | hy
      · exact c16_exprOk_dotted b (hb b List.mem_cons_self)
      · obtain ⟨q, hq, rfl⟩ := List.mem_map.mp hy
        exact c16_exprOk_dotted q (hb q (List.mem_cons_of_mem _ hq))
    have hnot : (dottedToks b :: rest.map dottedToks) ≠ [[]] := by
      intro e
      have := hne (dottedToks b) List.mem_cons_self
      simp only [List.cons.injEq] at e
      exact this e.1
    simp only [classToks, List.isEmpty_cons, Bool.false_eq_true, if_false, List.map_cons, parseClass, hc, if_true]
    rw [c16_splitParams_join _ _ hflat]
    simp only [hnot, if_false, c16_dropTrailing_id _ hne, hok, if_true]
    simp

theorem c16_attr_parses (a : Ann) (p : Param) (hn : identOk p.name = true) (h : a.wf = true) :
    parseAttr (attrToks a p) = some (p.name, p.hasDefault) := by
  have hc := c16_classify_fieldItem a p hn h
  unfold attrToks
  unfold parseAttr
  rw [hc]
  simp [fieldItem, toItem]

/-! ### duplicate parameter names (what `compile` rejects although `ast.parse` accepts) -/

theorem c16_dupFree_iff (xs : List String) : dupFree xs = true ↔ xs.Nodup := by
  induction xs with
  | nil => simp [dupFree]
  | cons x xs ih => simp [dupFree, ih]

theorem c16_dupFree_append (xs ys : List String) :
    dupFree (xs ++ ys) = (dupFree xs && dupFree ys && xs.all (fun x => !ys.contains x)) := by
  rw [Bool.eq_iff_iff]
  simp only [Bool.and_eq_true, c16_dupFree_iff, List.nodup_append, List.all_eq_true, Bool.not_eq_true',
    List.contains_eq_mem, decide_eq_false_iff_not]
  constructor
  · rintro ⟨h1, h2, h3⟩
    exact ⟨⟨h1, h2⟩, fun x hx hy => h3 x hx x hy rfl⟩
  · rintro ⟨⟨h1, h2⟩, h3⟩
    exact ⟨h1, h2, fun a ha b hb e => h3 a ha (e ▸ hb)⟩

/-- the fixed parameter names a field keyword can collide with; `k` is the name of the var-keyword -/
def fixedNames (lead : List String) (kw : Bool) (k : String) : List String := lead ++ (if kw then [k] else [])

/-- parameter names of a generated method are pairwise distinct iff no field is named like a fixed parameter -/
theorem c16_dupFree_method (lead : List String) (fs : List String) (kw : Bool) (k : String) (hl : dupFree lead = true)
    (hk : lead.contains k = false) (hf : fs.Nodup) :
    dupFree (lead ++ (fs ++ (if kw then [k] else []))) = fs.all (fun n => !(fixedNames lead kw k).contains n) := by
  rw [Bool.eq_iff_iff, c16_dupFree_iff]
  have hl' := (c16_dupFree_iff lead).mp hl
  have hk' : k ∉ lead := by simpa using hk
  cases kw
  · simp only [fixedNames, Bool.false_eq_true, if_false, List.append_nil, List.nodup_append, hl', hf, true_and,
      List.all_eq_true, Bool.not_eq_true', List.contains_eq_mem, decide_eq_false_iff_not]
    constructor
    · intro h n hn hln; exact h n hln n hn rfl
    · intro h a ha b hb e; exact h b hb (e ▸ ha)
  · simp only [fixedNames, if_true, List.nodup_append, hl', hf, true_and, List.all_eq_true, Bool.not_eq_true',
      List.contains_eq_mem, decide_eq_false_iff_not, List.mem_append, List.mem_singleton, not_or,
      List.nodup_cons, List.not_mem_nil, not_false_eq_true, List.nodup_nil, and_self]
    constructor
    · rintro ⟨h1, h2⟩ n hn
      exact ⟨fun hln => h2 n hln n (Or.inl hn) rfl, fun e => h1 n hn k rfl e⟩
    · intro h
      refine ⟨fun a ha b hb e => (h a ha).2 (e.trans hb), fun a ha b hb e => ?_⟩
      rcases hb with hb | hb
      · exact (h b hb).1 (e ▸ ha)
      · exact hk' (hb ▸ e ▸ ha)

theorem c16_inj_of_nodup {ps : List Param} (h : (ps.map (·.name)).Nodup) {p q : Param} (hp : p ∈ ps) (hq : q ∈ ps)
    (e : p.name = q.name) : p = q := by
  induction ps with
  | nil => cases hp
  | cons x xs ih =>
    simp only [List.map_cons, List.nodup_cons] at h
    rcases List.mem_cons.mp hp with rfl | hp' <;> rcases List.mem_cons.mp hq with rfl | hq'
    · rfl
    · exact absurd (e ▸ List.mem_map_of_mem (f := (·.name)) hq') h.1
    · exact absurd (e ▸ List.mem_map_of_mem (f := (·.name)) hp') h.1
    · exact ih h.2 hp' hq'

theorem c16_nodup_orderedArgs (ps : List Param) (h : (ps.map (·.name)).Nodup) :
    ((orderedArgs ps).map (·.name)).Nodup := by
  unfold orderedArgs
  rw [List.map_append, List.nodup_append]
  refine ⟨(List.Sublist.map _ List.filter_sublist).nodup h, (List.Sublist.map _ List.filter_sublist).nodup h, ?_⟩
  intro a ha b hb e
  subst e
  obtain ⟨p, hp, rfl⟩ := List.mem_map.mp ha
  obtain ⟨q, hq, hqn⟩ := List.mem_map.mp hb
  have hpm := (List.mem_filter.mp hp)
  have hqm := (List.mem_filter.mp hq)
  have : q = p := c16_inj_of_nodup h hqm.1 hpm.1 hqn
  subst this
  simp_all

theorem c16_nodup_stubArgs (dflt : Bool) (c : ClassInfo) : ((stubArgs dflt c).map (·.name)).Nodup := by
  unfold stubArgs
  apply c16_nodup_orderedArgs
  unfold allTypeInfo
  rw [List.map_map]
  have : ((fun f : FieldInfo => (⟨f.name, annEndsNone (clsRequired dflt c) f⟩ : Param).name)) = (·.name) := rfl
  have hsub : ((allFields c).filter (fun f => !f.isConst)).map (·.name) |>.Sublist ((allFields c).map (·.name)) :=
    List.Sublist.map _ List.filter_sublist
  exact hsub.nodup (nodupN_allFields c)

/-! ### `get_type_info` renders well-formed annotations -/

mutual
theorem c16_typeInfo_wf : (t : FTy) → FTy.wf t = true → (typeInfo t).wf = true
  | .leaf a, h => by simpa [FTy.wf, typeInfo] using h
  | .opt x, h => by
    simp only [FTy.wf] at h
    simp only [typeInfo, Ann.wf, Ann.wfL, c16_typeInfo_wf x h, Bool.and_true, List.isEmpty_cons, Bool.not_false]
    decide
  | .union xs, h => by
    simp only [FTy.wf, Bool.and_eq_true] at h
    have hl := c16_typeInfoL_wf xs h.2
    have hne : (typeInfoL xs).isEmpty = false := by
      cases xs with
      | nil => simp at h
      | cons x rest => simp [typeInfoL]
    simp only [typeInfo, Ann.wf, hl, hne, Bool.and_true, Bool.not_false]
    decide
  | .map xs, h => by
    simp only [FTy.wf, Bool.and_eq_true] at h
    have hl := c16_typeInfoL_wf xs h.2
    have hne : (typeInfoL xs).isEmpty = false := by
      cases xs with
      | nil => simp at h
      | cons x rest => simp [typeInfoL]
    simp only [typeInfo, Ann.wf, hl, hne, Bool.and_true, Bool.not_false]
    decide
theorem c16_typeInfoL_wf : (ts : List FTy) → FTy.wfL ts = true → Ann.wfL (typeInfoL ts) = true
  | [], _ => rfl
  | x :: rest, h => by
    simp only [FTy.wfL, Bool.and_eq_true] at h
    simp only [typeInfoL, Ann.wfL, c16_typeInfo_wf x h.1, c16_typeInfoL_wf rest h.2, Bool.and_self]
end

end Typedpy.StubText
