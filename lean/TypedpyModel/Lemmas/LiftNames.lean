import TypedpyModel.Lemmas.LiftAssemble
namespace Typedpy
open PyVal (pyEq pyMem pyNodup)

theorem strictJsonList_mem : ∀ (xs : List PyVal), strictJsonList xs = true → ∀ x ∈ xs, strictJson x = true
  | [], _, x, hx => by simp at hx
  | y :: ys, h, x, hx => by
    simp only [strictJsonList, and_true_iff] at h
    rcases List.mem_cons.mp hx with rfl | hx'
    · exact h.1
    · exact strictJsonList_mem ys h.2 x hx'

/-- an object with string keys is a keyword-argument list, all of whose values are JSON -/
theorem strict_kwOfDict : ∀ (kvs : List (PyVal × PyVal)), strictJsonPairs kvs = true →
    ∃ doc, kwOfDict kvs = some doc ∧ ∀ a ∈ doc, strictJson a.2 = true
  | [], _ => ⟨[], rfl, by simp⟩
  | (k, v) :: rest, h => by
    simp only [strictJsonPairs, and_true_iff] at h
    rcases strict_kwOfDict rest h.2 with ⟨doc, hd, hall⟩
    cases k <;> simp at h
    rename_i s
    refine ⟨(s, v) :: doc, by simp [kwOfDict, hd], ?_⟩
    intro a ha
    rcases List.mem_cons.mp ha with rfl | ha'
    · exact h.1
    · exact hall a ha'

/-- the field names for which the document supplies a (non-null) value, in declaration order -/
def presentNames (doc : List (String × PyVal)) : List (String × FieldDecl) → List String
  | [] => []
  | (n, _) :: rest =>
    match lookup n doc with
    | none => presentNames doc rest
    | some v => if v.isNone then presentNames doc rest else n :: presentNames doc rest

theorem deserFields_names (O : Oracles) (opts : DeserOpts) (c : ClassOpts) (doc : List (String × PyVal)) :
    ∀ (fs : List (String × FieldDecl)) (e : Bool) (args : List (String × PyVal)),
      deserFields O opts c doc fs e = .ok args → args.map (·.1) = presentNames doc fs
  | [], e, args, h => by
    simp only [deserFields] at h
    split at h <;> simp at h
    subst h; rfl
  | (n, f) :: rest, e, args, h => by
    simp only [deserFields] at h
    simp only [presentNames]
    cases hl : lookup n doc with
    | none => simp only [hl] at h; exact deserFields_names O opts c doc rest e args h
    | some v =>
      simp only [hl] at h
      by_cases hn : v.isNone = true
      · simp only [hn, if_true] at h ⊢; exact deserFields_names O opts c doc rest e args h
      · simp only [hn, Bool.false_eq_true, if_false] at h ⊢
        cases hd : deser O opts c.ignoreNone f v with
        | error e' => simp [hd] at h
        | ok y =>
          simp only [hd] at h
          rcases bindE_eq_ok h with ⟨ys, hys, h2⟩
          cases h2
          simp [deserFields_names O opts c doc rest e ys hys]

theorem liftFields_names (O : Oracles) (opts : DeserOpts) (c : ClassOpts) (doc : List (String × PyVal)) :
    ∀ (fs : List (String × FieldDecl)) (args : List (String × PyVal)),
      liftFields O opts c doc fs = some args → args.map (·.1) = presentNames doc fs
  | [], args, h => by simp [liftFields] at h; subst h; rfl
  | (n, f) :: rest, args, h => by
    simp only [liftFields] at h
    simp only [presentNames]
    cases hl : lookup n doc with
    | none => simp only [hl] at h; exact liftFields_names O opts c doc rest args h
    | some v =>
      simp only [hl] at h
      by_cases hn : v.isNone = true
      · simp only [hn, if_true] at h ⊢; exact liftFields_names O opts c doc rest args h
      · simp only [hn, Bool.false_eq_true, if_false] at h ⊢
        cases hw : lift O opts f v with
        | none => simp [hw] at h
        | some w =>
          cases hr : liftFields O opts c doc rest with
          | none => simp [hw, hr] at h
          | some ws =>
            simp [hw, hr] at h; subst h
            simp [liftFields_names O opts c doc rest ws hr]

theorem presentNames_subset (doc : List (String × PyVal)) :
    ∀ (fs : List (String × FieldDecl)) (n : String), n ∈ presentNames doc fs → n ∈ fs.map (·.1)
  | [], n, h => by simp [presentNames] at h
  | (m, f) :: rest, n, h => by
    simp only [presentNames] at h
    have ih := presentNames_subset doc rest n
    cases hl : lookup m doc with
    | none => simp only [hl] at h; simp [ih h]
    | some v =>
      simp only [hl] at h
      by_cases hn : v.isNone = true
      · simp only [hn, if_true] at h; simp [ih h]
      · simp only [hn, Bool.false_eq_true, if_false] at h
        rcases List.mem_cons.mp h with rfl | h'
        · simp
        · simp [ih h']

end Typedpy
