/-
  Lemmas/HashLemmas.lean — `sorted(__dict__.items())` is canonical (`sortKeys_ext`), the
  "spelled alike" relation `sameSpell` and: values / instances spelled alike print alike
  (`sameSpell_toStr`, `hashKey_of_sameSpell`).
-/
import TypedpyModel.Lemmas.EqLemmas
set_option linter.unusedVariables false
set_option linter.unusedSimpArgs false
namespace Typedpy
open PyVal (pyEq)

/-! ### `sorted(__dict__.items())` is canonical -/

theorem mem_insertKey (kv : String × String) : ∀ (l : List (String × String)) (x : String × String),
    x ∈ insertKey kv l ↔ x = kv ∨ x ∈ l
  | [], x => by simp [insertKey]
  | h :: t, x => by
    simp only [insertKey]
    split
    · simp
    · simp only [List.mem_cons, mem_insertKey kv t x]
      constructor
      · rintro (h1 | h1 | h1)
        · exact Or.inr (Or.inl h1)
        · exact Or.inl h1
        · exact Or.inr (Or.inr h1)
      · rintro (h1 | h1 | h1)
        · exact Or.inr (Or.inl h1)
        · exact Or.inl h1
        · exact Or.inr (Or.inr h1)

theorem insertKey_perm (kv : String × String) : ∀ l : List (String × String),
    (insertKey kv l).Perm (kv :: l)
  | [] => by simp [insertKey]
  | h :: t => by
    simp only [insertKey]
    split
    · exact List.Perm.refl _
    · exact ((insertKey_perm kv t).cons h).trans (List.Perm.swap kv h t)

theorem sortKeys_perm : ∀ l : List (String × String), (sortKeys l).Perm l
  | [] => List.Perm.refl _
  | h :: t => by
    simp only [sortKeys]
    exact (insertKey_perm h (sortKeys t)).trans ((sortKeys_perm t).cons h)

def KeySorted (l : List (String × String)) : Prop := l.Pairwise (fun p q => p.1 ≤ q.1)

theorem insertKey_sorted (kv : String × String) : ∀ l : List (String × String),
    KeySorted l → KeySorted (insertKey kv l)
  | [], _ => by simp [insertKey, KeySorted]
  | h :: t, hs => by
    unfold KeySorted at hs ⊢
    have hp := List.pairwise_cons.1 hs
    simp only [insertKey]
    split
    · rename_i hle
      refine List.pairwise_cons.2 ⟨fun x hx => ?_, hs⟩
      rcases List.mem_cons.1 hx with hx | hx
      · rw [hx]; exact hle
      · exact String.le_trans hle (hp.1 x hx)
    · rename_i hnle
      have hle : h.1 ≤ kv.1 := (String.le_total kv.1 h.1).resolve_left hnle
      refine List.pairwise_cons.2 ⟨fun x hx => ?_, insertKey_sorted kv t hp.2⟩
      rcases (mem_insertKey kv t x).1 hx with hx | hx
      · rw [hx]; exact hle
      · exact hp.1 x hx

theorem sortKeys_sorted : ∀ l : List (String × String), KeySorted (sortKeys l)
  | [] => List.Pairwise.nil
  | h :: t => insertKey_sorted h _ (sortKeys_sorted t)

theorem key_unique : ∀ (l : List (String × String)), keysDistinct (l.map (·.1)) = true →
    ∀ p q, p ∈ l → q ∈ l → p.1 = q.1 → p = q := by
  intro l hd p q hp hq hk
  have hpw := keysDistinct_pairwise _ hd
  rw [List.pairwise_map] at hpw
  induction l with
  | nil => cases hp
  | cons h t ih =>
    have hc := List.pairwise_cons.1 hpw
    simp only [List.map, keysDistinct, Bool.and_eq_true] at hd
    rcases List.mem_cons.1 hp with hp' | hp' <;> rcases List.mem_cons.1 hq with hq' | hq'
    · rw [hp', hq']
    · rw [hp'] at hk; exact absurd hk (hc.1 q hq')
    · rw [hq'] at hk; exact absurd hk.symm (hc.1 p hp')
    · exact ih hd.2 hp' hq' hc.2

theorem nodup_of_keysDistinct (l : List (String × String)) (hd : keysDistinct (l.map (·.1)) = true) :
    l.Nodup := by
  have hpw := keysDistinct_pairwise _ hd
  rw [List.pairwise_map] at hpw
  exact hpw.imp (fun h he => h (by rw [he]))

/-- two association lists with distinct keys and the same entries sort to the same list:
    the printed form does not depend on the insertion order of `__dict__` -/
theorem sortKeys_ext (l1 l2 : List (String × String))
    (h1 : keysDistinct (l1.map (·.1)) = true) (h2 : keysDistinct (l2.map (·.1)) = true)
    (hm : ∀ p, p ∈ l1 ↔ p ∈ l2) : sortKeys l1 = sortKeys l2 := by
  have hperm : l1.Perm l2 :=
    (List.perm_ext_iff_of_nodup (nodup_of_keysDistinct l1 h1) (nodup_of_keysDistinct l2 h2)).2 hm
  have hp : (sortKeys l1).Perm (sortKeys l2) :=
    (sortKeys_perm l1).trans (hperm.trans (sortKeys_perm l2).symm)
  refine List.Perm.eq_of_pairwise ?_ (sortKeys_sorted l1) (sortKeys_sorted l2) hp
  intro p q hp' hq' hle hge
  have hp1 : p ∈ l1 := (sortKeys_perm l1).mem_iff.1 hp'
  have hq1 : q ∈ l1 := (hm q).2 ((sortKeys_perm l2).mem_iff.1 hq')
  exact key_unique l1 h1 p q hp1 hq1 (String.le_antisymm hle hge)

/-! ### same spelling: the region where equal values print alike -/

mutual
/-- the two values are spelled alike: same Python types at every position (no int-vs-float,
    bool-vs-int, set-vs-frozenset), sets and dicts in the same iteration order, nested instances
    with the same `__dict__` order; a Decimal is never "spelled alike" (its exponent, which `str`
    shows, is not part of the model) -/
def sameSpell : PyVal → PyVal → Bool
  | .none, w => match w with | .none => true | _ => false
  | .bool a, w => match w with | .bool b => a == b | _ => false
  | .int a, w => match w with | .int b => a == b | _ => false
  | .float a, w => match w with | .float b => Q.eq a b | _ => false
  | .dec _, _ => false
  | .str a, w => match w with | .str b => a == b | _ => false
  | .enumv c n, w => match w with | .enumv c' n' => c == c' && n == n' | _ => false
  | .opaque t, w => match w with | .opaque t' => t == t' | _ => false
  | .list a, w => match w with | .list b => sameSpellL a b | _ => false
  | .tuple a, w => match w with | .tuple b => sameSpellL a b | _ => false
  | .deque a, w => match w with | .deque b => sameSpellL a b | _ => false
  | .set f a, w => match w with | .set f' b => f == f' && sameSpellL a b | _ => false
  | .dict a, w => match w with | .dict b => sameSpellD a b | _ => false
  | .inst c a, w => match w with | .inst c' b => c == c' && sameSpellA a b | _ => false
termination_by structural x _ => x
def sameSpellL : List PyVal → List PyVal → Bool
  | [], w => w.isEmpty
  | x :: xs, w => match w with | y :: ys => sameSpell x y && sameSpellL xs ys | [] => false
termination_by structural x _ => x
def sameSpellD : List (PyVal × PyVal) → List (PyVal × PyVal) → Bool
  | [], w => w.isEmpty
  | (k, v) :: xs, w => match w with
    | kv :: ys => sameSpell k kv.1 && sameSpell v kv.2 && sameSpellD xs ys
    | [] => false
termination_by structural x _ => x
def sameSpellA : List (String × PyVal) → List (String × PyVal) → Bool
  | [], w => w.isEmpty
  | (k, v) :: xs, w => match w with
    | kv :: ys => k == kv.1 && sameSpell v kv.2 && sameSpellA xs ys
    | [] => false
termination_by structural x _ => x
end

/-- what is assumed of Python's `str()`: it is a function of the value — equal floats print alike,
    and objects of the same type with the same content in the same order print alike -/
structure RenderRespects (R : Render) : Prop where
  float : ∀ p q, Q.eq p q = true → R.float p = R.float q
  other : ∀ v w, sameSpell v w = true → R.other v = R.other w

/-- how `__str__` prints an attribute value at the top level of an instance -/
def renderTop (R : Render) (v : PyVal) : String :=
  match v with
  | .str s => "'" ++ s ++ "'"
  | w => toStr R w

theorem toStrAttrs_eq_map (R : Render) : ∀ attrs : List (String × PyVal),
    toStrAttrs R attrs = attrs.map (fun kv => (kv.1, renderTop R kv.2))
  | [] => by simp [toStrAttrs]
  | (k, v) :: rest => by
    have ih := toStrAttrs_eq_map R rest
    cases v <;> simp only [toStrAttrs, List.map, renderTop, ih]

theorem toStrs_congr (R : Render) : ∀ (a b : List PyVal),
    (∀ x ∈ a, ∀ w, sameSpell x w = true → toStr R x = toStr R w) →
    sameSpellL a b = true → toStrs R a = toStrs R b
  | [], b, _, h => by cases b <;> simp_all [sameSpellL, toStrs]
  | x :: a, b, ih, h => by
    cases b with
    | nil => simp [sameSpellL] at h
    | cons y b =>
      simp only [sameSpellL, Bool.and_eq_true] at h
      simp only [toStrs, ih x (by simp) y h.1,
        toStrs_congr R a b (fun x' hx' => ih x' (by simp [hx'])) h.2]

theorem toStrKvs_congr (R : Render) : ∀ (a b : List (PyVal × PyVal)),
    (∀ p ∈ a, (∀ w, sameSpell p.1 w = true → toStr R p.1 = toStr R w)
            ∧ (∀ w, sameSpell p.2 w = true → toStr R p.2 = toStr R w)) →
    sameSpellD a b = true → toStrKvs R a = toStrKvs R b
  | [], b, _, h => by cases b <;> simp_all [sameSpellD, toStrKvs]
  | (k, v) :: a, b, ih, h => by
    cases b with
    | nil => simp [sameSpellD] at h
    | cons kv b =>
      obtain ⟨k', v'⟩ := kv
      simp only [sameSpellD, Bool.and_eq_true] at h
      simp only [toStrKvs, (ih (k, v) (by simp)).1 k' h.1.1, (ih (k, v) (by simp)).2 v' h.1.2,
        toStrKvs_congr R a b (fun p hp => ih p (by simp [hp])) h.2]

theorem renderTop_congr (R : Render) (v w : PyVal) (hs : sameSpell v w = true)
    (ht : toStr R v = toStr R w) : renderTop R v = renderTop R w := by
  cases v <;> cases w <;> simp_all [sameSpell, renderTop]

theorem toStrAttrs_congr (R : Render) : ∀ (a b : List (String × PyVal)),
    (∀ p ∈ a, ∀ w, sameSpell p.2 w = true → toStr R p.2 = toStr R w) →
    sameSpellA a b = true → toStrAttrs R a = toStrAttrs R b
  | [], b, _, h => by cases b <;> simp_all [sameSpellA, toStrAttrs]
  | (k, v) :: a, b, ih, h => by
    cases b with
    | nil => simp [sameSpellA] at h
    | cons kv b =>
      obtain ⟨k', v'⟩ := kv
      simp only [sameSpellA, Bool.and_eq_true, beq_iff_eq] at h
      rw [toStrAttrs_eq_map, toStrAttrs_eq_map]
      simp only [List.map]
      rw [← toStrAttrs_eq_map, ← toStrAttrs_eq_map,
        toStrAttrs_congr R a b (fun p hp => ih p (by simp [hp])) h.2, h.1.1,
        renderTop_congr R v v' h.1.2 (ih (k, v) (by simp) v' h.1.2)]

/-- values spelled alike print alike -/
theorem sameSpell_toStr (R : Render) (hR : RenderRespects R) :
    ∀ v w : PyVal, sameSpell v w = true → toStr R v = toStr R w := by
  intro v
  refine PyVal.induct (fun v => ∀ w, sameSpell v w = true → toStr R v = toStr R w)
    ?_ ?_ ?_ ?_ ?_ ?_ ?_ v
  · intro v ha w h
    cases v <;> simp [PyVal.isAtom] at ha <;> cases w <;> simp [sameSpell] at h
    · rfl
    · subst h; rfl
    · subst h; rfl
    · simp only [toStr]; exact hR.float _ _ h
    · subst h; rfl
    · simp only [toStr]; exact hR.other _ _ (by simp [sameSpell, h])
    · simp only [toStr]; exact hR.other _ _ (by simp [sameSpell, h])
  · intro a ih w h
    cases w with
    | list b => simp only [sameSpell] at h; simp only [toStr, toStrs_congr R a b ih h]
    | _ => simp [sameSpell] at h
  · intro a ih w h
    cases w with
    | tuple b => simp only [sameSpell] at h; simp only [toStr, toStrs_congr R a b ih h]
    | _ => simp [sameSpell] at h
  · intro a ih w h
    cases w with
    | deque b => simp only [toStr]; exact hR.other _ _ h
    | _ => simp [sameSpell] at h
  · intro f a ih w h
    cases w with
    | set f' b =>
      have h' := h
      simp only [sameSpell, Bool.and_eq_true, beq_iff_eq] at h'
      obtain ⟨hf, hl⟩ := h'
      subst hf
      cases f with
      | false => simp only [toStr, toStrs_congr R a b ih hl]
      | true => simp only [toStr]; exact hR.other _ _ h
    | _ => simp [sameSpell] at h
  · intro a ih w h
    cases w with
    | dict b => simp only [sameSpell] at h; simp only [toStr, toStrKvs_congr R a b ih h]
    | _ => simp [sameSpell] at h
  · intro c a ih w h
    cases w with
    | inst c' b =>
      simp only [sameSpell, Bool.and_eq_true, beq_iff_eq] at h
      simp only [toStr, h.1, toStrAttrs_congr R a b ih h.2]
    | _ => simp [sameSpell] at h

/-- the decidable region on which `==` instances print (hence hash) alike: same class and
    `_none_fields`, the same attribute names, and each attribute spelled alike on both sides -/
def sameSpellI (a b : Inst) : Bool :=
  a.cls == b.cls && a.nones == b.nones
  && a.attrs.all (fun kv => b.attrs.any (fun kw => kv.1 == kw.1 && sameSpell kv.2 kw.2))
  && b.attrs.all (fun kw => a.attrs.any (fun kv => kv.1 == kw.1 && sameSpell kv.2 kw.2))

theorem hashKey_of_sameSpell (R : Render) (hR : RenderRespects R) (a b : Inst)
    (ha : keysDistinct (a.attrs.map (·.1)) = true) (hb : keysDistinct (b.attrs.map (·.1)) = true)
    (h : sameSpellI a b = true) : hashKey R a = hashKey R b := by
  simp only [sameSpellI, Bool.and_eq_true, beq_iff_eq, List.all_eq_true, List.any_eq_true] at h
  obtain ⟨⟨⟨hc, hn⟩, hab⟩, hba⟩ := h
  have hrt : ∀ v w, sameSpell v w = true → renderTop R v = renderTop R w :=
    fun v w hs => renderTop_congr R v w hs (sameSpell_toStr R hR v w hs)
  have keys : ∀ attrs : List (String × PyVal),
      (toStrAttrs R attrs).map (·.1) = attrs.map (·.1) := by
    intro attrs; rw [toStrAttrs_eq_map]; simp [List.map_map]
  have hs : sortKeys (toStrAttrs R a.attrs) = sortKeys (toStrAttrs R b.attrs) := by
    apply sortKeys_ext
    · rw [keys]; exact ha
    · rw [keys]; exact hb
    · intro p
      rw [toStrAttrs_eq_map, toStrAttrs_eq_map]
      simp only [List.mem_map]
      constructor
      · rintro ⟨kv, hkv, rfl⟩
        obtain ⟨kw, hkw, hk, hsp⟩ := hab kv hkv
        exact ⟨kw, hkw, by rw [← hk, hrt _ _ hsp]⟩
      · rintro ⟨kw, hkw, rfl⟩
        obtain ⟨kv, hkv, hk, hsp⟩ := hba kw hkw
        exact ⟨kv, hkv, by rw [hk, hrt _ _ hsp]⟩
  unfold hashKey instFrame
  rw [hs, hc, hn]

end Typedpy
