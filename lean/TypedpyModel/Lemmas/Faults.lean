/-
  Lemmas/Faults.lean — every check of `defineClass` as a membership fact, and the core of C14's
  `fault_rejected`: each fault of Spec/Faults.lean (outside the two known holes) trips a check.
-/
import TypedpyModel.Lemmas.Define
namespace Typedpy

theorem isError_iff {α} {r : R α} : isError r = true ↔ ∃ e, r = .error e := by
  cases r with
  | ok x => simp [isError]
  | error e => simp [isError]

theorem asCheck_error {r : R PyVal} (h : isError r = true) : ∃ e, asCheck r = .error e := by
  rcases isError_iff.mp h with ⟨e, he⟩
  exact ⟨e, by simp [he, asCheck]⟩

/-- the checks of a class source, as membership facts -/
theorem mem_checks_kw {O w src} {p : String × SrcEntry} (hp : p ∈ src.entries) :
    kwDefaultCheck O p.2 ∈ checks O w src := by
  simp only [checks, List.mem_append, List.mem_map]
  exact Or.inl (Or.inl (Or.inl (Or.inl (Or.inl (Or.inl (Or.inl (Or.inl (Or.inl ⟨p, hp, rfl⟩))))))))

theorem mem_checks_name {O w src} {p : String × SrcEntry} (hp : p ∈ src.entries) :
    nameCheck p ∈ checks O w src := by
  simp only [checks, List.mem_append, List.mem_map]
  exact Or.inl (Or.inl (Or.inl (Or.inl (Or.inl (Or.inl (Or.inl (Or.inr ⟨p, hp, rfl⟩)))))))

theorem mem_checks_nonTypedpy {O w src} {p : String × SrcEntry} (hp : p ∈ src.entries) :
    nonTypedpyCheck w p ∈ checks O w src := by
  simp only [checks, List.mem_append, List.mem_map]
  exact Or.inl (Or.inl (Or.inl (Or.inl (Or.inl (Or.inl (Or.inr ⟨p, hp, rfl⟩))))))

theorem mem_checks_eq {O w src} {p : String × SrcEntry} (hp : p ∈ src.entries) :
    eqDefaultCheck O p.2 ∈ checks O w src := by
  simp only [checks, List.mem_append, List.mem_map]
  exact Or.inl (Or.inl (Or.inl (Or.inl (Or.inl (Or.inr ⟨p, hp, rfl⟩)))))

theorem mem_checks_mro {O w src} : mroCheck w src ∈ checks O w src := by
  simp [checks]

theorem mem_checks_final {O w src} : finalCheck w src ∈ checks O w src := by
  simp [checks]

theorem mem_checks_const {O w src} {p : String × Member} (hp : p ∈ resolvedFields w src) :
    constCheck p ∈ checks O w src := by
  simp only [checks, List.mem_append, List.mem_map]
  exact Or.inl (Or.inl (Or.inl (Or.inr ⟨p, hp, rfl⟩)))

theorem mem_checks_optional {O w src} : optionalCheck w src ∈ checks O w src := by
  simp [checks]

theorem mem_checks_block {O w src} {p : String × SrcEntry} (hp : p ∈ src.entries) :
    blockConstCheck w p ∈ checks O w src := by
  simp only [checks, List.mem_append, List.mem_map]
  exact Or.inl (Or.inr ⟨p, hp, rfl⟩)

theorem mem_checks_sig {O w src} : sigCheck w src ∈ checks O w src := by
  simp [checks]

theorem mem_checks_keysOf {O w src} : keysOfCheck w src ∈ checks O w src := by
  simp [checks]

theorem mem_checks_base {O w src} : unknownBaseCheck w src ∈ checks O w src := by
  simp [checks]


theorem ownMembers_append_obj (l : List (String × SrcEntry)) (n : String) (m : Member) :
    ownMembers (l ++ [(n, .obj m)]) = ownMembers l ++ [(n, m)] := by
  induction l with
  | nil => simp [ownMembers, entryMember]
  | cons p ps ih =>
    obtain ⟨k, e⟩ := p
    simp only [List.cons_append, ownMembers]
    cases entryMember e <;> simp [ih]

theorem mem_allFieldsOf_last (w : World) (src : ClassSrc) (n : String) (m : Member) :
    (n, m) ∈ allFieldsOf w (addEntry src n (.obj m)) := by
  apply lookup_mem
  simp only [allFieldsOf, addEntry, mergeAll_eq, ownMembers_append_obj, List.flatten_append,
    List.flatten_cons, List.flatten_nil, List.append_nil, lookup_updateAll]
  simp [← List.append_assoc, lookup]

/-- the appended own entry is the member of its name -/
theorem mem_resolvedFields_last (w : World) (src : ClassSrc) (n : String) (m : Member) :
    (n, m) ∈ resolvedFields w (addEntry src n (.obj m)) :=
  mem_allFieldsOf_last w src n m

theorem mem_entries_addEntry (src : ClassSrc) (n : String) (e : SrcEntry) :
    (n, e) ∈ (addEntry src n e).entries := by simp [addEntry]

/-- C14: every single fault outside the two known holes makes the class statement raise -/
theorem fault_rejected_core (O : Oracles) (w : World) (src : ClassSrc) (f : Fault)
    (ha : f.applies O w src = true) (hk : f.knownHole O = false) :
    ∃ e, defineClass O w (inject f src) = .error e := by
  cases f with
  | defaultKw n d v =>
    simp only [Fault.applies] at ha
    simp only [Fault.knownHole, Bool.not_eq_false'] at hk
    rcases asCheck_error ha with ⟨e, he⟩
    exact defineClass_error_of_check (mem_checks_kw (mem_entries_addEntry src n _))
      (e := e) (by simp [kwDefaultCheck, hk, he])
  | defaultEq n d v =>
    simp only [Fault.applies] at ha
    rcases asCheck_error ha with ⟨e, he⟩
    by_cases hm : v.isMutableLit = true
    · exact defineClass_error_of_check (mem_checks_eq (mem_entries_addEntry src n _))
        (e := .valueErr) (by simp [eqDefaultCheck, optTruthy, hm])
    · exact defineClass_error_of_check (mem_checks_eq (mem_entries_addEntry src n _))
        (e := e) (by simp [eqDefaultCheck, optTruthy, hm, he])
  | defaultClassForm n d v =>
    simp only [Fault.applies] at ha
    rcases asCheck_error ha with ⟨e, he⟩
    by_cases ht : pyTruthy v = true
    · exact defineClass_error_of_check (mem_checks_kw (mem_entries_addEntry src n _))
        (e := e) (by simp [kwDefaultCheck, Dflt.truthy, Dflt.value, ht, he])
    · by_cases hm : (Dflt.lit v).isMutableLit = true
      · exact defineClass_error_of_check (mem_checks_eq (mem_entries_addEntry src n _))
          (e := .valueErr) (by simp [eqDefaultCheck, optTruthy, Dflt.truthy, ht, hm])
      · exact defineClass_error_of_check (mem_checks_eq (mem_entries_addEntry src n _))
          (e := e) (by simp [eqDefaultCheck, optTruthy, Dflt.truthy, Dflt.value, ht, hm, he])
  | mutableEq n d v =>
    simp only [Fault.applies] at ha
    exact defineClass_error_of_check (mem_checks_eq (mem_entries_addEntry src n _))
      (e := .valueErr) (by simp [eqDefaultCheck, optTruthy, ha])
  | mutableClassForm n d v =>
    simp only [Fault.applies] at ha
    simp only [Fault.knownHole] at hk
    by_cases ht : pyTruthy v = true
    · have hv : isError (validate O d v) = true := by simpa [ht] using hk
      rcases asCheck_error hv with ⟨e, he⟩
      exact defineClass_error_of_check (mem_checks_kw (mem_entries_addEntry src n _))
        (e := e) (by simp [kwDefaultCheck, Dflt.truthy, Dflt.value, ht, he])
    · exact defineClass_error_of_check (mem_checks_eq (mem_entries_addEntry src n _))
        (e := .valueErr) (by simp [eqDefaultCheck, optTruthy, Dflt.truthy, ht, ha])
  | badName n e =>
    simp only [Fault.applies] at ha
    exact defineClass_error_of_check (mem_checks_name (mem_entries_addEntry src n e))
      (e := .valueErr) (by simp [nameCheck, ha])
  | optionalRequired n =>
    simp only [Fault.applies] at ha
    refine defineClass_error_of_check (mem_checks_optional) (e := .valueErr) ?_
    have hbr : basesRequired w (inject (.optionalRequired n) src) = basesRequired w src := rfl
    simp only [optionalCheck, hbr]
    have : (inject (.optionalRequired n) src).optional.any
        (fun f => (requiredEff w (inject (.optionalRequired n) src)).contains f
                  || (basesRequired w src).contains f) = true := by
      simp only [inject, List.any_cons, Bool.or_eq_true]
      left
      rcases Bool.or_eq_true _ _ |>.mp ha with h1 | h1
      · left
        rcases Bool.and_eq_true _ _ |>.mp h1 with ⟨hs, hc⟩
        cases hr : src.required with
        | none => simp [hr] at hs
        | some r =>
          have hall : ∀ r', allFieldsOf w { src with optional := n :: src.optional, required := r' }
              = allFieldsOf w src := fun _ => rfl
          simp only [requiredEff, requiredOwn, hr] at hc ⊢
          rw [hall]
          simpa using hc
      · right; exact h1
    rw [if_pos this]
  | sealedBase b =>
    simp only [Fault.applies] at ha
    by_cases hm : mroCheck w (inject (.sealedBase b) src) = .ok ()
    · refine defineClass_error_of_check (mem_checks_final) (e := .typeErr) ?_
      simp only [mroCheck] at hm
      split at hm
      · rename_i hc
        have hsome := (Bool.and_eq_true _ _ |>.mp hc).2
        simp only [mroOf, Option.isSome_map] at hsome
        cases hc3 : c3 (mroSeqs w (inject (.sealedBase b) src)) with
        | none => simp [hc3] at hsome
        | some tail =>
          have hsub : (inject (.sealedBase b) src).bases.Sublist tail :=
            c3merge_sublist _ _ _ hc3 _ (by simp [mroSeqs])
          have hb : b ∈ tail := hsub.subset (by simp [inject])
          have : (mroTail w (inject (.sealedBase b) src)).any (sealedCls w) = true := by
            simp only [mroTail, hc3, Option.getD_some]
            exact List.any_eq_true.mpr ⟨b, hb, ha⟩
          simp [finalCheck, this]
      · cases hm
    · cases hc : mroCheck w (inject (.sealedBase b) src) with
      | ok u => exact absurd hc hm
      | error e => exact defineClass_error_of_check (mem_checks_mro) hc
  | badConstant n v =>
    simp only [Fault.applies, Bool.not_eq_true'] at ha
    exact defineClass_error_of_check (mem_checks_const (mem_resolvedFields_last w src n (.const v)))
      (e := .typeErr) (by simp [constCheck, ha])
  | keysOfMissing before m₁ n m₂ after =>
    simp only [Fault.applies, Bool.not_eq_true'] at ha
    refine defineClass_error_of_check (mem_checks_keysOf) (e := .typeErr) ?_
    show (if (before ++ (m₁ ++ n :: m₂) :: (after ++ src.keysOf)).all
            (fun e => e.all fun k => ((allFieldsOf w src).map (·.1)).contains k) then okU
          else .error .typeErr) = _
    have hfalse : (before ++ (m₁ ++ n :: m₂) :: (after ++ src.keysOf)).all
        (fun e => e.all fun k => ((allFieldsOf w src).map (·.1)).contains k) = false := by
      cases hall : (before ++ (m₁ ++ n :: m₂) :: (after ++ src.keysOf)).all
          (fun e => e.all fun k => ((allFieldsOf w src).map (·.1)).contains k) with
      | false => rfl
      | true =>
        have h1 := (List.all_eq_true.mp hall) (m₁ ++ n :: m₂) (by simp)
        have h2 := (List.all_eq_true.mp h1) n (by simp)
        rw [ha] at h2; cases h2
    rw [hfalse]; rfl
  | unknownAttr n a =>
    simp only [Fault.applies, Bool.and_eq_true, Bool.not_eq_true'] at ha
    obtain ⟨⟨⟨⟨h1, h2⟩, h3⟩, h4⟩, h5⟩ := ha
    exact defineClass_error_of_check (mem_checks_block (mem_entries_addEntry src n _))
      (e := .valueErr) (by simp only [blockConstCheck, h1, h2, h3, h4, h5]; rfl)
  | bareType n a =>
    simp only [Fault.applies] at ha
    refine defineClass_error_of_check (mem_checks_nonTypedpy (mem_entries_addEntry src n _))
      (e := .typeErr) ?_
    simp only [Bool.and_eq_true, Bool.not_eq_true'] at ha
    have hb : isBareType a = true := by
      cases a <;> simp_all [nonTypedpyType, isBareType]
    simp [nonTypedpyCheck, ha, hb]

end Typedpy
