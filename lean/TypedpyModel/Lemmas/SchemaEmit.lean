/-
  Lemmas/SchemaEmit.lean — every schema whose names are identifiers and whose values are JSON values
  is printed as a well-formed expression tree / class body (`schemaExpr_wf X`, `classItems_ok X`,
  `classOk_of_src X`): the schema-level side conditions of `recognise_module`.
-/
import TypedpyModel.Lemmas.PyGram
namespace Typedpy.Emit
open Typedpy.PyGram Typedpy.PyLex

/-- the oracle-free version of `targetName` for the generator's own (ASCII) keyword names -/
def targetNameA (n : List Char) : Bool := asciiIdent n && !forbiddenTarget n

theorem identOk_of_ascii (X : Ora) {n : List Char} (h : asciiIdent n = true) : identOk X n = true := by
  match n, h with
  | c :: r, h =>
    simp only [asciiIdent, Bool.and_eq_true, Bool.not_eq_true', List.all_eq_true, decide_eq_true_eq] at h
    obtain ⟨⟨⟨hs, ht⟩, hall⟩, hk⟩ := h
    simp only [identOk, Bool.and_eq_true, Bool.not_eq_true', List.all_eq_true]
    refine ⟨⟨by rw [idStart_ascii X c (hall c (by simp))]; exact hs, fun d hd => ?_⟩, hk⟩
    rw [idCont_ascii X d (hall d (by simp [hd]))]; exact ht d hd

theorem targetName_of_ascii (X : Ora) {n : List Char} (h : targetNameA n = true) : targetName X n = true := by
  simp only [targetNameA, Bool.and_eq_true] at h
  simp [targetName, identOk_of_ascii X h.1, h.2]

theorem wf_const (X : Ora) (w : List Char) (h : (constKw w && keywords.contains w) = true) :
    wf X (.const w) = true := by simpa [wf] using h

/-! ### numbers -/

theorem isDigit_of_core {c : Char} (h : c.isDigit = true) : isDigit c = true := by
  simp only [Char.isDigit, Bool.and_eq_true, decide_eq_true_eq] at h
  simp only [isDigit, Bool.and_eq_true, decide_eq_true_eq]
  have h1 : (48 : Nat) ≤ c.val.toNat := by
    have := h.1; simpa [UInt32.le_iff_toNat_le] using this
  have h2 : c.val.toNat ≤ 57 := by
    have := h.2; simpa [UInt32.le_iff_toNat_le] using this
  exact ⟨h1, h2⟩

theorem numScan_digits : ∀ (t : List Char), (∀ c ∈ t, isDigit c = true) → numScan .int t = true
  | [], _ => rfl
  | c :: t, h => by
    have hc := h c (by simp)
    simp [numScan, numNext, hc, numScan_digits t (fun d hd => h d (by simp [hd]))]

theorem digitChar_ne_zero : ∀ n, n < 10 → 0 < n → Nat.digitChar n ≠ '0' := by decide

theorem toDigits_head : ∀ (n : Nat), 0 < n → ∃ c t, Nat.toDigits 10 n = c :: t ∧ c ≠ '0' := by
  intro n
  induction n using Nat.strongRecOn with
  | _ n ih =>
    intro hn
    by_cases h : n < 10
    · exact ⟨_, [], Nat.toDigits_of_lt_base h, digitChar_ne_zero n h hn⟩
    · have hb : 10 ≤ n := by omega
      obtain ⟨c, t, e, hc⟩ := ih (n / 10) (Nat.div_lt_self hn (by decide)) (Nat.div_pos hb (by decide))
      refine ⟨c, t ++ [Nat.digitChar (n % 10)], ?_, hc⟩
      rw [Nat.toDigits_of_base_le (by decide) hb, e]; rfl

theorem natText_num (n : Nat) : isNumText (natText n) = true := by
  have hd : ∀ c ∈ natText n, isDigit c = true := fun c hc =>
    isDigit_of_core (Nat.isDigit_of_mem_toDigits (by decide) (by decide) hc)
  by_cases hn : n = 0
  · subst hn; decide
  · obtain ⟨c, t, e, hc⟩ := toDigits_head n (by omega)
    simp only [natText] at hd ⊢
    rw [e] at hd ⊢
    have : numStart c = .int := by simp [numStart, hc]
    simp [isNumText, hd c (by simp), this, numScan_digits t (fun d h => hd d (by simp [h]))]

theorem natExpr_wf (X : Ora) (n : Nat) : wf X (natExpr n) = true := by simp [natExpr, wf, natText_num]
theorem intExpr_wf (X : Ora) (i : Int) : wf X (intExpr i) = true := by
  unfold intExpr; split <;> simp [wf, natText_num]

/-- the `repr(float)` oracle answers with decimal literals -/
def OraOk (O : EOra) : Prop := ∀ (X : Ora) q, wf X (floatExpr (O.fl q)) = true

theorem qExpr_wf (X : Ora) (O : EOra) (hO : OraOk O) (q : Q) : wf X (qExpr O q) = true := by
  unfold qExpr; split
  · exact intExpr_wf X _
  · exact hO X q

theorem boolExpr_wf (X : Ora) (b : Bool) : wf X (boolExpr b) = true := by
  cases b <;> exact wf_const X _ (by decide)

/-! ### values -/

mutual
theorem valExpr_wf (X : Ora) (O : EOra) (hO : OraOk O) : ∀ (v : PyVal), jsonVal v = true → wf X (valExpr O v) = true
  | .none, _ => by simp [valExpr, wf, constKw, cNone, keywords]
  | .bool b, _ => boolExpr_wf X b
  | .int i, _ => intExpr_wf X i
  | .float q, _ => hO X q
  | .str s, _ => by simp [valExpr, wf]
  | .list xs, h => by
    simp only [jsonVal] at h
    simp only [valExpr, wf]; exact valExprL_wf X O hO xs h
  | .dict kvs, h => by
    simp only [jsonVal] at h
    simp only [valExpr, wf]; exact valExprKV_wf X O hO kvs h
  | .dec _, h => by simp [jsonVal] at h
  | .tuple _, h => by simp [jsonVal] at h
  | .set _ _, h => by simp [jsonVal] at h
  | .deque _, h => by simp [jsonVal] at h
  | .enumv _ _, h => by simp [jsonVal] at h
  | .inst _ _, h => by simp [jsonVal] at h
  | .opaque _, h => by simp [jsonVal] at h
theorem valExprL_wf (X : Ora) (O : EOra) (hO : OraOk O) : ∀ (xs : List PyVal), jsonValL xs = true → wfL X (valExprL O xs) = true
  | [], _ => rfl
  | x :: xs, h => by
    simp only [jsonValL, Bool.and_eq_true] at h
    simp [valExprL, wfL, valExpr_wf X O hO x h.1, valExprL_wf X O hO xs h.2]
theorem valExprKV_wf (X : Ora) (O : EOra) (hO : OraOk O) : ∀ (kvs : List (PyVal × PyVal)), jsonValKV kvs = true →
    wfKVs X (valExprKV O kvs) = true
  | [], _ => rfl
  | (k, v) :: r, h => by
    simp only [jsonValKV, Bool.and_eq_true] at h
    simp [valExprKV, wfKVs, valExpr_wf X O hO k h.1.1, valExpr_wf X O hO v h.1.2, valExprKV_wf X O hO r h.2]
end

theorem defaultExpr_wf (X : Ora) (O : EOra) (hO : OraOk O) (v : PyVal) (h : jsonVal v = true) :
    wf X (defaultExpr O v) = true := by
  have := valExpr_wf X O hO v h
  cases v <;> simp_all [defaultExpr, wf]


/-! ### schemas -/

theorem wfKws_append (X : Ora) : ∀ (a b : List (List Char × PyExpr)), wfKws X (a ++ b) = (wfKws X a && wfKws X b)
  | [], b => by simp [wfKws]
  | (k, v) :: a, b => by simp [wfKws, wfKws_append X a b, Bool.and_assoc]

theorem wfKws_optKw (X : Ora) {α} (k : List Char) (f : α → PyExpr) (o : Option α) (hk : targetName X k = true)
    (hf : ∀ x, wf X (f x) = true) : wfKws X (optKw k f o) = true := by
  cases o <;> simp [optKw, wfKws, hk, hf]

theorem wfKws_kw (X : Ora) (k : List Char) (e : PyExpr) (hk : targetName X k = true) (he : wf X e = true) :
    wfKws X (kw k e) = true := by simp [kw, wfKws, hk, he]

theorem names_optKw {α} (k : List Char) (f : α → PyExpr) (o : Option α) :
    (optKw k f o).map (·.1) = if o.isSome then [k] else [] := by
  cases o <;> simp [optKw]

theorem wf_call_default (X : Ora) (O : EOra) (hO : OraOk O) (f : List Char) (kws : List (List Char × PyExpr))
    (d : Option PyVal) (hf : identOk X f = true) (hd : dOk d = true)
    (hn : nodupL (kws.map (·.1) ++ dName d) = true) (hk : wfKws X kws = true) :
    wf X (callS f (withDefault O d kws)) = true := by
  have h1 : (withDefault O d kws).map (·.1) = kws.map (·.1) ++ dName d := by
    cases d <;> simp [withDefault, optKw, dName]
  have h2 : wfKws X (withDefault O d kws) = true := by
    rw [withDefault, wfKws_append X, hk]
    cases d with
    | none => simp [optKw, wfKws]
    | some v =>
      have h3 : wfKws X [(chars!"default", defaultExpr O v)] = true := by
        have : targetName X chars!"default" = true := targetName_of_ascii X (by decide)
        simp only [wfKws, this, defaultExpr_wf X O hO v hd, Bool.and_self]
      simpa [optKw] using h3
  simp [callS, wf, hf, h1, hn, h2]

theorem strList_wf (X : Ora) (xs : List String) : wf X (strList xs) = true := by
  simp only [strList, wf]
  induction xs with
  | nil => rfl
  | cons x xs ih => simp [wfL, wf, ih]

theorem arrKws_wf (X : Ora) (sz : SizeOpts) (addl : Bool) : wfKws X (arrKws sz addl) = true := by
  have p1 : wfKws X (if sz.uniq then kw chars!"uniqueItems" (.const cTrue) else []) = true := by
    cases sz.uniq
    · rfl
    · exact wfKws_kw X _ _ (targetName_of_ascii X (by decide)) (wf_const X _ (by decide))
  have p2 : wfKws X (if addl then [] else kw chars!"additionalItems" (.const cFalse)) = true := by
    cases addl
    · exact wfKws_kw X _ _ (targetName_of_ascii X (by decide)) (wf_const X _ (by decide))
    · rfl
  have p3 : wfKws X (optKw chars!"minItems" natExpr sz.min) = true := wfKws_optKw X _ _ _ (targetName_of_ascii X (by decide)) (natExpr_wf X)
  have p4 : wfKws X (optKw chars!"maxItems" natExpr sz.max) = true := wfKws_optKw X _ _ _ (targetName_of_ascii X (by decide)) (natExpr_wf X)
  rw [arrKws, wfKws_append X, wfKws_append X, wfKws_append X, p1, p2, p3, p4]; rfl

theorem arrKws_names (sz : SizeOpts) (addl : Bool) :
    (arrKws sz addl).map (·.1) = (if sz.uniq then [chars!"uniqueItems"] else [])
      ++ ((if addl then [] else [chars!"additionalItems"])
      ++ ((if sz.min.isSome then [chars!"minItems"] else []) ++ (if sz.max.isSome then [chars!"maxItems"] else []))) := by
  simp only [arrKws, List.map_append, names_optKw, List.append_assoc]
  cases sz.uniq <;> cases addl <;> simp [kw]


theorem dName_cases (d : Option PyVal) : dName d = [] ∨ dName d = [chars!"default"] := by
  cases d <;> simp [dName]

theorem schemaKws_names (O : EOra) (defaults : List (String × PyVal)) :
    ∀ ps : List (String × Schema), (schemaKws O defaults ps).map (·.1) = (ps.map (·.1)).map String.toList
  | [] => rfl
  | (n, s) :: ps => by simp [schemaKws, schemaKws_names O defaults ps]

theorem wf_fields (X : Ora) (O : EOra) (hO : OraOk O) (f : List Char) (hf : identOk X f = true) (d : Option PyVal)
    (hd : dOk d = true) (xs : List PyExpr) (hx : wfL X xs = true) :
    wf X (callS f (withDefault O d (kw chars!"fields" (.list xs)))) = true := by
  apply wf_call_default X O hO f _ d hf hd
  · rcases dName_cases d with h | h <;> rw [h] <;> simp [kw, nodupL]
  · exact wfKws_kw X _ _ (targetName_of_ascii X (by decide)) (by simpa [wf] using hx)

mutual
theorem schemaExpr_wf (X : Ora) (O : EOra) (hO : OraOk O) : ∀ (s : Schema) (d : Option PyVal), emitOk X s d = true →
    wf X (schemaExpr O s d) = true
  | .ref n, d, h => by simpa [schemaExpr, wf, emitOk] using h
  | .num i mult mn mx ex, d, h => by
    simp only [emitOk] at h
    simp only [schemaExpr]
    apply wf_call_default X O hO _ _ d (by cases i <;> exact identOk_of_ascii X (by decide)) h
    · simp only [List.map_append, names_optKw]
      rcases dName_cases d with e | e <;> rw [e] <;>
        cases mult <;> cases mn <;> cases mx <;> cases ex <;> simp [kw, nodupL]
    · rw [wfKws_append X, wfKws_append X, wfKws_append X, wfKws_optKw X _ _ _ (targetName_of_ascii X (by decide)) (intExpr_wf X),
        wfKws_optKw X _ _ _ (targetName_of_ascii X (by decide)) (qExpr_wf X O hO), wfKws_optKw X _ _ _ (targetName_of_ascii X (by decide)) (qExpr_wf X O hO)]
      cases ex <;> simp [wfKws, kw, targetName_of_ascii X (show targetNameA chars!"exclusiveMaximum" = true by decide),
        wf_const X cTrue (by decide)]
  | .str lo hi p, d, h => by
    simp only [emitOk] at h
    simp only [schemaExpr]
    apply wf_call_default X O hO _ _ d (identOk_of_ascii X (by decide)) h
    · simp only [List.map_append, names_optKw]
      rcases dName_cases d with e | e <;> rw [e] <;> cases lo <;> cases hi <;> cases p <;> simp [kw, nodupL]
    · rw [wfKws_append X, wfKws_append X, wfKws_optKw X _ _ _ (targetName_of_ascii X (by decide)) (natExpr_wf X),
        wfKws_optKw X _ _ _ (targetName_of_ascii X (by decide)) (natExpr_wf X), wfKws_optKw X _ _ _ (targetName_of_ascii X (by decide)) (fun _ => by simp [wf])]
      rfl
  | .bool, d, h => by
    simp only [emitOk] at h
    simp only [schemaExpr]
    apply wf_call_default X O hO _ _ d (identOk_of_ascii X (by decide)) h
    · rcases dName_cases d with e | e <;> rw [e] <;> simp [kw, nodupL]
    · rfl
  | .enum vs, d, h => by
    simp only [emitOk, Bool.and_eq_true] at h
    simp only [schemaExpr]
    apply wf_call_default X O hO _ _ d (identOk_of_ascii X (by decide)) h.2
    · rcases dName_cases d with e | e <;> rw [e] <;> simp [kw, nodupL]
    · exact wfKws_kw X _ _ (targetName_of_ascii X (by decide)) (by simpa [wf] using valExprL_wf X O hO vs h.1)
  | .arrAny sz, d, h => by
    simp only [emitOk] at h
    simp only [schemaExpr]
    apply wf_call_default X O hO _ _ d (identOk_of_ascii X (by decide)) h
    · rw [arrKws_names]
      rcases dName_cases d with e | e <;> rw [e] <;> cases sz.uniq <;> cases sz.min <;> cases sz.max <;> simp [kw, nodupL]
    · exact arrKws_wf X sz true
  | .arrOf s sz, d, h => by
    simp only [emitOk, Bool.and_eq_true] at h
    simp only [schemaExpr]
    apply wf_call_default X O hO _ _ d (identOk_of_ascii X (by decide)) h.2
    · rw [List.map_append, arrKws_names]
      rcases dName_cases d with e | e <;> rw [e] <;> cases sz.uniq <;> cases sz.min <;> cases sz.max <;> simp [kw, nodupL]
    · rw [wfKws_append X, arrKws_wf X]
      exact wfKws_kw X _ _ (targetName_of_ascii X (by decide)) (schemaExpr_wf X O hO s none h.1)
  | .arrPos ss addl sz, d, h => by
    simp only [emitOk, Bool.and_eq_true] at h
    simp only [schemaExpr]
    apply wf_call_default X O hO _ _ d (identOk_of_ascii X (by decide)) h.2
    · rw [List.map_append, arrKws_names]
      rcases dName_cases d with e | e <;> rw [e] <;> cases sz.uniq <;> cases addl <;> cases sz.min <;> cases sz.max <;> simp [kw, nodupL]
    · rw [wfKws_append X, arrKws_wf X]
      exact wfKws_kw X _ _ (targetName_of_ascii X (by decide)) (by simpa [wf] using schemaExprL_wf X O hO ss h.1)
  | .mapAny a mn mx, d, h => by
    simp only [emitOk] at h
    simp only [schemaExpr]
    apply wf_call_default X O hO _ _ d (identOk_of_ascii X (by decide)) h
    · simp only [List.map_append, names_optKw]
      rcases dName_cases d with e | e <;> rw [e] <;> cases mn <;> cases mx <;> simp [kw, nodupL]
    · rw [wfKws_append X, wfKws_optKw X _ _ _ (targetName_of_ascii X (by decide)) (natExpr_wf X), wfKws_optKw X _ _ _ (targetName_of_ascii X (by decide)) (natExpr_wf X)]
      rfl
  | .mapOf v mn mx, d, h => by
    simp only [emitOk, Bool.and_eq_true] at h
    simp only [schemaExpr]
    apply wf_call_default X O hO _ _ d (identOk_of_ascii X (by decide)) h.2
    · simp only [List.map_append, names_optKw]
      rcases dName_cases d with e | e <;> rw [e] <;> cases mn <;> cases mx <;> simp [kw, nodupL]
    · have hs : wf X (callS chars!"String" []) = true := by
        simp [callS, wf, wfKws, nodupL, identOk_of_ascii X (show asciiIdent chars!"String" = true by decide)]
      rw [wfKws_append X, wfKws_append X, wfKws_optKw X _ _ _ (targetName_of_ascii X (by decide)) (natExpr_wf X),
        wfKws_optKw X _ _ _ (targetName_of_ascii X (by decide)) (natExpr_wf X),
        wfKws_kw X _ _ (targetName_of_ascii X (by decide)) (by simp [wf, wfL, hs, schemaExpr_wf X O hO v none h.1])]
      rfl
  | .obj props defaults req addl, d, h => by
    simp only [emitOk, Bool.and_eq_true] at h
    obtain ⟨⟨⟨hnames, hnd⟩, hp⟩, hd⟩ := h
    simp only [schemaExpr]
    apply wf_call_default X O hO _ _ d (identOk_of_ascii X (by decide)) hd
    · simp only [List.map_append, names_optKw, schemaKws_names]
      simp only [objKwNames] at hnd
      cases addl <;> cases req <;> simpa [kw, List.append_assoc] using hnd
    · rw [wfKws_append X, wfKws_append X, wfKws_optKw X _ _ _ (targetName_of_ascii X (by decide)) (strList_wf X),
        schemaKws_wf X O hO defaults props hnames hp]
      cases addl <;> simp [wfKws, kw, targetName_of_ascii X (show targetNameA chars!"_additional_properties" = true by decide),
        wf_const X cFalse (by decide)]
  | .allOf ss, d, h => by
    simp only [emitOk, Bool.and_eq_true] at h
    exact wf_fields X O hO _ (identOk_of_ascii X (by decide)) d h.2 _ (schemaExprL_wf X O hO ss h.1)
  | .anyOf ss, d, h => by
    simp only [emitOk, Bool.and_eq_true] at h
    exact wf_fields X O hO _ (identOk_of_ascii X (by decide)) d h.2 _ (schemaExprL_wf X O hO ss h.1)
  | .oneOf ss, d, h => by
    simp only [emitOk, Bool.and_eq_true] at h
    exact wf_fields X O hO _ (identOk_of_ascii X (by decide)) d h.2 _ (schemaExprL_wf X O hO ss h.1)
  | .notS ss, d, h => by
    simp only [emitOk, Bool.and_eq_true] at h
    exact wf_fields X O hO _ (identOk_of_ascii X (by decide)) d h.2 _ (schemaExprL_wf X O hO ss h.1)
  | .unsupported _, _, h => by simp [emitOk] at h
theorem schemaExprL_wf (X : Ora) (O : EOra) (hO : OraOk O) : ∀ (ss : List Schema), emitOkL X ss = true →
    wfL X (schemaExprL O ss) = true
  | [], _ => rfl
  | s :: ss, h => by
    simp only [emitOkL, Bool.and_eq_true] at h
    simp [schemaExprL, wfL, schemaExpr_wf X O hO s none h.1, schemaExprL_wf X O hO ss h.2]
theorem schemaKws_wf (X : Ora) (O : EOra) (hO : OraOk O) (defaults : List (String × PyVal)) :
    ∀ (ps : List (String × Schema)), (ps.all fun p => targetName X p.1.toList) = true →
    emitOkP X defaults ps = true → wfKws X (schemaKws O defaults ps) = true
  | [], _, _ => rfl
  | (n, s) :: ps, hn, h => by
    simp only [List.all_cons, Bool.and_eq_true] at hn
    simp only [emitOkP, Bool.and_eq_true] at h
    simp [schemaKws, wfKws, hn.1, schemaExpr_wf X O hO s _ h.1, schemaKws_wf X O hO defaults ps hn.2 h.2]
end


/-! ### classes -/

/-- empty, or with a line that is not blank -/
def bodyLike (l : List Item) : Prop := l = [] ∨ l.any nonBlank = true

theorem bodyLike_append {a b : List Item} (ha : bodyLike a) (hb : bodyLike b) : bodyLike (a ++ b) := by
  rcases ha with rfl | ha
  · simpa using hb
  · exact Or.inr (by simp [List.any_append, ha])

theorem propItems_ok (X : Ora) (O : EOra) (hO : OraOk O) (defaults : List (String × PyVal)) :
    ∀ (ps : List (String × Schema)), (ps.all fun p => targetName X p.1.toList) = true → emitOkP X defaults ps = true →
    (propItems O defaults ps).all (wfItem X) = true ∧ bodyLike (propItems O defaults ps)
  | [], _, _ => ⟨rfl, Or.inl rfl⟩
  | (n, s) :: ps, hn, h => by
    simp only [List.all_cons, Bool.and_eq_true] at hn
    simp only [emitOkP, Bool.and_eq_true] at h
    have ih := propItems_ok X O hO defaults ps hn.2 h.2
    refine ⟨?_, Or.inr (by simp [propItems, nonBlank])⟩
    simp [propItems, wfItem, hn.1, schemaExpr_wf X O hO s _ h.1, ih.1]

theorem reqItems_ok (X : Ora) (r : Option (List String)) : (reqItems r).all (wfItem X) = true ∧ bodyLike (reqItems r) := by
  cases r with
  | none => exact ⟨rfl, Or.inl rfl⟩
  | some r =>
    have t : targetName X nRequired = true := targetName_of_ascii X (by decide)
    exact ⟨by simp [reqItems, wfItem, t, strList_wf X], Or.inr (by simp [reqItems, nonBlank])⟩

theorem docItems_ok (X : Ora) (desc : Option String) (h : descOk desc = true) :
    (docItems desc).all (wfItem X) = true ∧ bodyLike (docItems desc) := by
  cases desc with
  | none => exact ⟨rfl, Or.inl rfl⟩
  | some d => exact ⟨by simp [docItems, wfItem], Or.inr (by simp [docItems, nonBlank])⟩

theorem finish_ok (X : Ora) (all : List Item) (h1 : all.all (wfItem X) = true) (h2 : bodyLike all) :
    (if all.isEmpty then [Item.pass] else all).all (wfItem X) = true
      ∧ (if all.isEmpty then [Item.pass] else all).any nonBlank = true := by
  rcases h2 with rfl | h2
  · simp [wfItem, nonBlank]
  · cases all with
    | nil => simp at h2
    | cons x xs => simp only [List.isEmpty_cons, Bool.false_eq_true, if_false]; exact ⟨h1, h2⟩

theorem classItems_ok (X : Ora) (O : EOra) (hO : OraOk O) (desc : Option String) (s : Schema)
    (hd : descOk desc = true) (hs : classSchemaOk X s = true) :
    (classItems O desc s).all (wfItem X) = true ∧ (classItems O desc s).any nonBlank = true := by
  have tA : targetName X nAddl = true := targetName_of_ascii X (by decide)
  have tW : targetName X nWrapped = true := targetName_of_ascii X (by decide)
  have cF : wf X (.const cFalse) = true := wf_const X _ (by decide)
  have hdoc := docItems_ok X desc hd
  have wrapped : ∀ s : Schema, emitOk X s none = true →
      ((Item.assign nWrapped (schemaExpr O s none)
          :: (if typedWrapped s then reqItems (some ["wrapped"]) else [])).all (wfItem X) = true
        ∧ bodyLike (Item.assign nWrapped (schemaExpr O s none)
          :: (if typedWrapped s then reqItems (some ["wrapped"]) else []))) := by
    intro s hs
    refine ⟨?_, Or.inr (by simp [nonBlank])⟩
    have := (reqItems_ok X (some ["wrapped"])).1
    cases typedWrapped s <;> simp [wfItem, tW, schemaExpr_wf X O hO s none hs, this]
  have core : ∀ body : List Item, body.all (wfItem X) = true → bodyLike body →
      ((if (docItems desc ++ body).isEmpty then [Item.pass] else docItems desc ++ body).all (wfItem X) = true
        ∧ (if (docItems desc ++ body).isEmpty then [Item.pass] else docItems desc ++ body).any nonBlank = true) := by
    intro body hb1 hb2
    exact finish_ok X _ (by simp [List.all_append, hdoc.1, hb1]) (bodyLike_append hdoc.2 hb2)
  cases s with
  | obj props defaults req addl =>
    simp only [classSchemaOk, Bool.and_eq_true] at hs
    have hp := propItems_ok X O hO defaults props hs.1 hs.2
    have hr := reqItems_ok X (emittedRequired (.obj props defaults req addl))
    have ha : ((if addl then [] else [Item.assign nAddl (.const cFalse)]).all (wfItem X) = true
        ∧ bodyLike (if addl then [] else [Item.assign nAddl (.const cFalse)])) := by
      cases addl
      · exact ⟨by simp [wfItem, tA, cF], Or.inr (by simp [nonBlank])⟩
      · exact ⟨rfl, Or.inl rfl⟩
    simp only [classItems]
    exact core _ (by simp [List.all_append, ha.1, hp.1, hr.1]) (bodyLike_append (bodyLike_append ha.2 hp.2) hr.2)
  | mapAny a mn mx =>
    simp only [classItems]
    apply core
    · split <;> simp [wfItem, tA, cF]
    · split
      · exact Or.inr (by simp [nonBlank])
      · exact Or.inl rfl
  | mapOf v mn mx => simp only [classItems]; exact core [] rfl (Or.inl rfl)
  | num i m a b e => simp only [classItems]; exact core _ (wrapped _ hs).1 (wrapped _ hs).2
  | str a b p => simp only [classItems]; exact core _ (wrapped _ hs).1 (wrapped _ hs).2
  | bool => simp only [classItems]; exact core _ (wrapped _ hs).1 (wrapped _ hs).2
  | enum vs => simp only [classItems]; exact core _ (wrapped _ hs).1 (wrapped _ hs).2
  | arrAny sz => simp only [classItems]; exact core _ (wrapped _ hs).1 (wrapped _ hs).2
  | arrOf s sz => simp only [classItems]; exact core _ (wrapped _ hs).1 (wrapped _ hs).2
  | arrPos ss a sz => simp only [classItems]; exact core _ (wrapped _ hs).1 (wrapped _ hs).2
  | ref n => simp only [classItems]; exact core _ (wrapped _ hs).1 (wrapped _ hs).2
  | allOf ss => simp only [classItems]; exact core _ (wrapped _ hs).1 (wrapped _ hs).2
  | anyOf ss => simp only [classItems]; exact core _ (wrapped _ hs).1 (wrapped _ hs).2
  | oneOf ss => simp only [classItems]; exact core _ (wrapped _ hs).1 (wrapped _ hs).2
  | notS ss => simp only [classItems]; exact core _ (wrapped _ hs).1 (wrapped _ hs).2
  | unsupported w => simp [classSchemaOk, emitOk] at hs

theorem classOk_of_src (X : Ora) (O : EOra) (hO : OraOk O) (c : ClassSrc) (h : classSrcOk X c = true) : classOk X O c = true := by
  simp only [classSrcOk, Bool.and_eq_true] at h
  have := classItems_ok X O hO c.desc c.schema h.1.2 h.2
  simp [classOk, h.1.1, this.1, this.2]

end Typedpy.Emit
