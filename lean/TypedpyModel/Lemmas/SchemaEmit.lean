/-
  Lemmas/SchemaEmit.lean — every schema whose names are identifiers and whose values are JSON values
  is printed as a well-formed expression tree / class body (`schemaExpr_wf`, `classItems_ok`,
  `classOk_of_src`): the schema-level side conditions of `recognise_module`.
-/
import TypedpyModel.Lemmas.PyGram
namespace Typedpy.Emit
open Typedpy.PyGram Typedpy.PyLex

/-! ### numbers -/

theorem isDigit_of_core {c : Char} (h : c.isDigit = true) : isDigit c = true := by
  simp only [Char.isDigit, Bool.and_eq_true, decide_eq_true_eq] at h
  simp only [isDigit, Bool.and_eq_true, decide_eq_true_eq]
  have h1 : (48 : Nat) ≤ c.val.toNat := by
    have := h.1; simpa [UInt32.le_iff_toNat_le] using this
  have h2 : c.val.toNat ≤ 57 := by
    have := h.2; simpa [UInt32.le_iff_toNat_le] using this
  exact ⟨h1, h2⟩

theorem numScan_digits : ∀ (t : List Char), (∀ c ∈ t, isDigit c = true) → numScan .int t = true
  | [], _ => rfl
  | c :: t, h => by
    have hc := h c (by simp)
    simp [numScan, numNext, hc, numScan_digits t (fun d hd => h d (by simp [hd]))]

theorem digitChar_ne_zero : ∀ n, n < 10 → 0 < n → Nat.digitChar n ≠ '0' := by decide

theorem toDigits_head : ∀ (n : Nat), 0 < n → ∃ c t, Nat.toDigits 10 n = c :: t ∧ c ≠ '0' := by
  intro n
  induction n using Nat.strongRecOn with
  | _ n ih =>
    intro hn
    by_cases h : n < 10
    · exact ⟨_, [], Nat.toDigits_of_lt_base h, digitChar_ne_zero n h hn⟩
    · have hb : 10 ≤ n := by omega
      obtain ⟨c, t, e, hc⟩ := ih (n / 10) (Nat.div_lt_self hn (by decide)) (Nat.div_pos hb (by decide))
      refine ⟨c, t ++ [Nat.digitChar (n % 10)], ?_, hc⟩
      rw [Nat.toDigits_of_base_le (by decide) hb, e]; rfl

theorem natText_num (n : Nat) : isNumText (natText n) = true := by
  have hd : ∀ c ∈ natText n, isDigit c = true := fun c hc =>
    isDigit_of_core (Nat.isDigit_of_mem_toDigits (by decide) (by decide) hc)
  by_cases hn : n = 0
  · subst hn; decide
  · obtain ⟨c, t, e, hc⟩ := toDigits_head n (by omega)
    simp only [natText] at hd ⊢
    rw [e] at hd ⊢
    have : numStart c = .int := by simp [numStart, hc]
    simp [isNumText, hd c (by simp), this, numScan_digits t (fun d h => hd d (by simp [h]))]

theorem natExpr_wf (n : Nat) : wf (natExpr n) = true := by simp [natExpr, wf, natText_num]
theorem intExpr_wf (i : Int) : wf (intExpr i) = true := by
  unfold intExpr; split <;> simp [wf, natText_num]

/-- the `repr(float)` oracle answers with decimal literals -/
def OraOk (O : EOra) : Prop := ∀ q, wf (floatExpr (O.fl q)) = true

theorem qExpr_wf (O : EOra) (hO : OraOk O) (q : Q) : wf (qExpr O q) = true := by
  unfold qExpr; split
  · exact intExpr_wf _
  · exact hO q

theorem boolExpr_wf (b : Bool) : wf (boolExpr b) = true := by cases b <;> decide

/-! ### values -/

mutual
theorem valExpr_wf (O : EOra) (hO : OraOk O) : ∀ (v : PyVal), jsonVal v = true → wf (valExpr O v) = true
  | .none, _ => by simp [valExpr, wf, constKw, cNone, keywords]
  | .bool b, _ => boolExpr_wf b
  | .int i, _ => intExpr_wf i
  | .float q, _ => hO q
  | .str s, _ => by simp [valExpr, wf]
  | .list xs, h => by
    simp only [jsonVal] at h
    simp only [valExpr, wf]; exact valExprL_wf O hO xs h
  | .dict kvs, h => by
    simp only [jsonVal] at h
    simp only [valExpr, wf]; exact valExprKV_wf O hO kvs h
  | .dec _, h => by simp [jsonVal] at h
  | .tuple _, h => by simp [jsonVal] at h
  | .set _ _, h => by simp [jsonVal] at h
  | .deque _, h => by simp [jsonVal] at h
  | .enumv _ _, h => by simp [jsonVal] at h
  | .inst _ _, h => by simp [jsonVal] at h
  | .opaque _, h => by simp [jsonVal] at h
theorem valExprL_wf (O : EOra) (hO : OraOk O) : ∀ (xs : List PyVal), jsonValL xs = true → wfL (valExprL O xs) = true
  | [], _ => rfl
  | x :: xs, h => by
    simp only [jsonValL, Bool.and_eq_true] at h
    simp [valExprL, wfL, valExpr_wf O hO x h.1, valExprL_wf O hO xs h.2]
theorem valExprKV_wf (O : EOra) (hO : OraOk O) : ∀ (kvs : List (PyVal × PyVal)), jsonValKV kvs = true →
    wfKVs (valExprKV O kvs) = true
  | [], _ => rfl
  | (k, v) :: r, h => by
    simp only [jsonValKV, Bool.and_eq_true] at h
    simp [valExprKV, wfKVs, valExpr_wf O hO k h.1.1, valExpr_wf O hO v h.1.2, valExprKV_wf O hO r h.2]
end

theorem defaultExpr_wf (O : EOra) (hO : OraOk O) (v : PyVal) (h : jsonVal v = true) :
    wf (defaultExpr O v) = true := by
  have := valExpr_wf O hO v h
  cases v <;> simp_all [defaultExpr, wf]


/-! ### schemas -/

theorem wfKws_append : ∀ (a b : List (List Char × PyExpr)), wfKws (a ++ b) = (wfKws a && wfKws b)
  | [], b => by simp [wfKws]
  | (k, v) :: a, b => by simp [wfKws, wfKws_append a b, Bool.and_assoc]

theorem wfKws_optKw {α} (k : List Char) (f : α → PyExpr) (o : Option α) (hk : targetName k = true)
    (hf : ∀ x, wf (f x) = true) : wfKws (optKw k f o) = true := by
  cases o <;> simp [optKw, wfKws, hk, hf]

theorem wfKws_kw (k : List Char) (e : PyExpr) (hk : targetName k = true) (he : wf e = true) :
    wfKws (kw k e) = true := by simp [kw, wfKws, hk, he]

theorem names_optKw {α} (k : List Char) (f : α → PyExpr) (o : Option α) :
    (optKw k f o).map (·.1) = if o.isSome then [k] else [] := by
  cases o <;> simp [optKw]

theorem wf_call_default (O : EOra) (hO : OraOk O) (f : List Char) (kws : List (List Char × PyExpr))
    (d : Option PyVal) (hf : asciiIdent f = true) (hd : dOk d = true)
    (hn : nodupL (kws.map (·.1) ++ dName d) = true) (hk : wfKws kws = true) :
    wf (callS f (withDefault O d kws)) = true := by
  have h1 : (withDefault O d kws).map (·.1) = kws.map (·.1) ++ dName d := by
    cases d <;> simp [withDefault, optKw, dName]
  have h2 : wfKws (withDefault O d kws) = true := by
    rw [withDefault, wfKws_append, hk]
    cases d with
    | none => simp [optKw, wfKws]
    | some v =>
      have h3 : wfKws [(chars!"default", defaultExpr O v)] = true := by
        have : targetName chars!"default" = true := by decide
        simp only [wfKws, this, defaultExpr_wf O hO v hd, Bool.and_self]
      simpa [optKw] using h3
  simp [callS, wf, hf, h1, hn, h2]

theorem strList_wf (xs : List String) : wf (strList xs) = true := by
  simp only [strList, wf]
  induction xs with
  | nil => rfl
  | cons x xs ih => simp [wfL, wf, ih]

theorem arrKws_wf (sz : SizeOpts) (addl : Bool) : wfKws (arrKws sz addl) = true := by
  have p1 : wfKws (if sz.uniq then kw chars!"uniqueItems" (.const cTrue) else []) = true := by
    cases sz.uniq
    · rfl
    · exact wfKws_kw _ _ (by decide) (by decide)
  have p2 : wfKws (if addl then [] else kw chars!"additionalItems" (.const cFalse)) = true := by
    cases addl
    · exact wfKws_kw _ _ (by decide) (by decide)
    · rfl
  have p3 : wfKws (optKw chars!"minItems" natExpr sz.min) = true := wfKws_optKw _ _ _ (by decide) natExpr_wf
  have p4 : wfKws (optKw chars!"maxItems" natExpr sz.max) = true := wfKws_optKw _ _ _ (by decide) natExpr_wf
  rw [arrKws, wfKws_append, wfKws_append, wfKws_append, p1, p2, p3, p4]; rfl

theorem arrKws_names (sz : SizeOpts) (addl : Bool) :
    (arrKws sz addl).map (·.1) = (if sz.uniq then [chars!"uniqueItems"] else [])
      ++ ((if addl then [] else [chars!"additionalItems"])
      ++ ((if sz.min.isSome then [chars!"minItems"] else []) ++ (if sz.max.isSome then [chars!"maxItems"] else []))) := by
  simp only [arrKws, List.map_append, names_optKw, List.append_assoc]
  cases sz.uniq <;> cases addl <;> simp [kw]


theorem dName_cases (d : Option PyVal) : dName d = [] ∨ dName d = [chars!"default"] := by
  cases d <;> simp [dName]

theorem schemaKws_names (O : EOra) (defaults : List (String × PyVal)) :
    ∀ ps : List (String × Schema), (schemaKws O defaults ps).map (·.1) = (ps.map (·.1)).map String.toList
  | [] => rfl
  | (n, s) :: ps => by simp [schemaKws, schemaKws_names O defaults ps]

theorem wf_fields (O : EOra) (hO : OraOk O) (f : List Char) (hf : asciiIdent f = true) (d : Option PyVal)
    (hd : dOk d = true) (xs : List PyExpr) (hx : wfL xs = true) :
    wf (callS f (withDefault O d (kw chars!"fields" (.list xs)))) = true := by
  apply wf_call_default O hO f _ d hf hd
  · rcases dName_cases d with h | h <;> rw [h] <;> simp [kw, nodupL]
  · exact wfKws_kw _ _ (by decide) (by simpa [wf] using hx)

mutual
theorem schemaExpr_wf (O : EOra) (hO : OraOk O) : ∀ (s : Schema) (d : Option PyVal), emitOk s d = true →
    wf (schemaExpr O s d) = true
  | .ref n, d, h => by simpa [schemaExpr, wf, emitOk] using h
  | .num i mult mn mx ex, d, h => by
    simp only [emitOk] at h
    simp only [schemaExpr]
    apply wf_call_default O hO _ _ d (by cases i <;> decide) h
    · simp only [List.map_append, names_optKw]
      rcases dName_cases d with e | e <;> rw [e] <;>
        cases mult <;> cases mn <;> cases mx <;> cases ex <;> simp [kw, nodupL]
    · rw [wfKws_append, wfKws_append, wfKws_append, wfKws_optKw _ _ _ (by decide) intExpr_wf,
        wfKws_optKw _ _ _ (by decide) (qExpr_wf O hO), wfKws_optKw _ _ _ (by decide) (qExpr_wf O hO)]
      cases ex <;> decide
  | .str lo hi p, d, h => by
    simp only [emitOk] at h
    simp only [schemaExpr]
    apply wf_call_default O hO _ _ d (by decide) h
    · simp only [List.map_append, names_optKw]
      rcases dName_cases d with e | e <;> rw [e] <;> cases lo <;> cases hi <;> cases p <;> simp [kw, nodupL]
    · rw [wfKws_append, wfKws_append, wfKws_optKw _ _ _ (by decide) natExpr_wf,
        wfKws_optKw _ _ _ (by decide) natExpr_wf, wfKws_optKw _ _ _ (by decide) (fun _ => by simp [wf])]
      rfl
  | .bool, d, h => by
    simp only [emitOk] at h
    simp only [schemaExpr]
    apply wf_call_default O hO _ _ d (by decide) h
    · rcases dName_cases d with e | e <;> rw [e] <;> simp [kw, nodupL]
    · rfl
  | .enum vs, d, h => by
    simp only [emitOk, Bool.and_eq_true] at h
    simp only [schemaExpr]
    apply wf_call_default O hO _ _ d (by decide) h.2
    · rcases dName_cases d with e | e <;> rw [e] <;> simp [kw, nodupL]
    · exact wfKws_kw _ _ (by decide) (by simpa [wf] using valExprL_wf O hO vs h.1)
  | .arrAny sz, d, h => by
    simp only [emitOk] at h
    simp only [schemaExpr]
    apply wf_call_default O hO _ _ d (by decide) h
    · rw [arrKws_names]
      rcases dName_cases d with e | e <;> rw [e] <;> cases sz.uniq <;> cases sz.min <;> cases sz.max <;> simp [kw, nodupL]
    · exact arrKws_wf sz true
  | .arrOf s sz, d, h => by
    simp only [emitOk, Bool.and_eq_true] at h
    simp only [schemaExpr]
    apply wf_call_default O hO _ _ d (by decide) h.2
    · rw [List.map_append, arrKws_names]
      rcases dName_cases d with e | e <;> rw [e] <;> cases sz.uniq <;> cases sz.min <;> cases sz.max <;> simp [kw, nodupL]
    · rw [wfKws_append, arrKws_wf]
      exact wfKws_kw _ _ (by decide) (schemaExpr_wf O hO s none h.1)
  | .arrPos ss addl sz, d, h => by
    simp only [emitOk, Bool.and_eq_true] at h
    simp only [schemaExpr]
    apply wf_call_default O hO _ _ d (by decide) h.2
    · rw [List.map_append, arrKws_names]
      rcases dName_cases d with e | e <;> rw [e] <;> cases sz.uniq <;> cases addl <;> cases sz.min <;> cases sz.max <;> simp [kw, nodupL]
    · rw [wfKws_append, arrKws_wf]
      exact wfKws_kw _ _ (by decide) (by simpa [wf] using schemaExprL_wf O hO ss h.1)
  | .mapAny a mn mx, d, h => by
    simp only [emitOk] at h
    simp only [schemaExpr]
    apply wf_call_default O hO _ _ d (by decide) h
    · rcases dName_cases d with e | e <;> rw [e] <;> simp [kw, nodupL]
    · rfl
  | .mapOf v mn mx, d, h => by
    simp only [emitOk, Bool.and_eq_true] at h
    simp only [schemaExpr]
    apply wf_call_default O hO _ _ d (by decide) h.2
    · simp only [List.map_append, names_optKw]
      rcases dName_cases d with e | e <;> rw [e] <;> cases mn <;> cases mx <;> simp [kw, nodupL]
    · have hs : wf (callS chars!"String" []) = true := by decide
      rw [wfKws_append, wfKws_append, wfKws_optKw _ _ _ (by decide) natExpr_wf,
        wfKws_optKw _ _ _ (by decide) natExpr_wf,
        wfKws_kw _ _ (by decide) (by simp [wf, wfL, hs, schemaExpr_wf O hO v none h.1])]
      rfl
  | .obj props defaults req addl, d, h => by
    simp only [emitOk, Bool.and_eq_true] at h
    obtain ⟨⟨⟨hnames, hnd⟩, hp⟩, hd⟩ := h
    simp only [schemaExpr]
    apply wf_call_default O hO _ _ d (by decide) hd
    · simp only [List.map_append, names_optKw, schemaKws_names]
      simp only [objKwNames] at hnd
      cases addl <;> cases req <;> simpa [kw, List.append_assoc] using hnd
    · rw [wfKws_append, wfKws_append, wfKws_optKw _ _ _ (by decide) strList_wf,
        schemaKws_wf O hO defaults props hnames hp]
      cases addl <;> decide
  | .allOf ss, d, h => by
    simp only [emitOk, Bool.and_eq_true] at h
    exact wf_fields O hO _ (by decide) d h.2 _ (schemaExprL_wf O hO ss h.1)
  | .anyOf ss, d, h => by
    simp only [emitOk, Bool.and_eq_true] at h
    exact wf_fields O hO _ (by decide) d h.2 _ (schemaExprL_wf O hO ss h.1)
  | .oneOf ss, d, h => by
    simp only [emitOk, Bool.and_eq_true] at h
    exact wf_fields O hO _ (by decide) d h.2 _ (schemaExprL_wf O hO ss h.1)
  | .notS ss, d, h => by
    simp only [emitOk, Bool.and_eq_true] at h
    exact wf_fields O hO _ (by decide) d h.2 _ (schemaExprL_wf O hO ss h.1)
  | .unsupported _, _, h => by simp [emitOk] at h
theorem schemaExprL_wf (O : EOra) (hO : OraOk O) : ∀ (ss : List Schema), emitOkL ss = true →
    wfL (schemaExprL O ss) = true
  | [], _ => rfl
  | s :: ss, h => by
    simp only [emitOkL, Bool.and_eq_true] at h
    simp [schemaExprL, wfL, schemaExpr_wf O hO s none h.1, schemaExprL_wf O hO ss h.2]
theorem schemaKws_wf (O : EOra) (hO : OraOk O) (defaults : List (String × PyVal)) :
    ∀ (ps : List (String × Schema)), (ps.all fun p => targetName p.1.toList) = true →
    emitOkP defaults ps = true → wfKws (schemaKws O defaults ps) = true
  | [], _, _ => rfl
  | (n, s) :: ps, hn, h => by
    simp only [List.all_cons, Bool.and_eq_true] at hn
    simp only [emitOkP, Bool.and_eq_true] at h
    simp [schemaKws, wfKws, hn.1, schemaExpr_wf O hO s _ h.1, schemaKws_wf O hO defaults ps hn.2 h.2]
end


/-! ### classes -/

/-- empty, or with a line that is not blank -/
def bodyLike (l : List Item) : Prop := l = [] ∨ l.any nonBlank = true

theorem bodyLike_append {a b : List Item} (ha : bodyLike a) (hb : bodyLike b) : bodyLike (a ++ b) := by
  rcases ha with rfl | ha
  · simpa using hb
  · exact Or.inr (by simp [List.any_append, ha])

theorem propItems_ok (O : EOra) (hO : OraOk O) (defaults : List (String × PyVal)) :
    ∀ (ps : List (String × Schema)), (ps.all fun p => targetName p.1.toList) = true → emitOkP defaults ps = true →
    (propItems O defaults ps).all wfItem = true ∧ bodyLike (propItems O defaults ps)
  | [], _, _ => ⟨rfl, Or.inl rfl⟩
  | (n, s) :: ps, hn, h => by
    simp only [List.all_cons, Bool.and_eq_true] at hn
    simp only [emitOkP, Bool.and_eq_true] at h
    have ih := propItems_ok O hO defaults ps hn.2 h.2
    refine ⟨?_, Or.inr (by simp [propItems, nonBlank])⟩
    simp [propItems, wfItem, hn.1, schemaExpr_wf O hO s _ h.1, ih.1]

theorem reqItems_ok (r : Option (List String)) : (reqItems r).all wfItem = true ∧ bodyLike (reqItems r) := by
  cases r with
  | none => exact ⟨rfl, Or.inl rfl⟩
  | some r =>
    have t : targetName nRequired = true := by decide
    exact ⟨by simp [reqItems, wfItem, t, strList_wf], Or.inr (by simp [reqItems, nonBlank])⟩

theorem docItems_ok (desc : Option String) (h : descOk desc = true) :
    (docItems desc).all wfItem = true ∧ bodyLike (docItems desc) := by
  cases desc with
  | none => exact ⟨rfl, Or.inl rfl⟩
  | some d => exact ⟨by simpa [docItems, wfItem, descOk] using h, Or.inr (by simp [docItems, nonBlank])⟩

theorem finish_ok (all : List Item) (h1 : all.all wfItem = true) (h2 : bodyLike all) :
    (if all.isEmpty then [Item.pass] else all).all wfItem = true
      ∧ (if all.isEmpty then [Item.pass] else all).any nonBlank = true := by
  rcases h2 with rfl | h2
  · simp [wfItem, nonBlank]
  · cases all with
    | nil => simp at h2
    | cons x xs => simp only [List.isEmpty_cons, Bool.false_eq_true, if_false]; exact ⟨h1, h2⟩

theorem classItems_ok (O : EOra) (hO : OraOk O) (desc : Option String) (s : Schema)
    (hd : descOk desc = true) (hs : classSchemaOk s = true) :
    (classItems O desc s).all wfItem = true ∧ (classItems O desc s).any nonBlank = true := by
  have tA : targetName nAddl = true := by decide
  have tW : targetName nWrapped = true := by decide
  have cF : wf (.const cFalse) = true := by decide
  have hdoc := docItems_ok desc hd
  have wrapped : ∀ s : Schema, emitOk s none = true →
      ((Item.assign nWrapped (schemaExpr O s none)
          :: (if typedWrapped s then reqItems (some ["wrapped"]) else [])).all wfItem = true
        ∧ bodyLike (Item.assign nWrapped (schemaExpr O s none)
          :: (if typedWrapped s then reqItems (some ["wrapped"]) else []))) := by
    intro s hs
    refine ⟨?_, Or.inr (by simp [nonBlank])⟩
    have := (reqItems_ok (some ["wrapped"])).1
    cases typedWrapped s <;> simp [wfItem, tW, schemaExpr_wf O hO s none hs, this]
  have core : ∀ body : List Item, body.all wfItem = true → bodyLike body →
      ((if (docItems desc ++ body).isEmpty then [Item.pass] else docItems desc ++ body).all wfItem = true
        ∧ (if (docItems desc ++ body).isEmpty then [Item.pass] else docItems desc ++ body).any nonBlank = true) := by
    intro body hb1 hb2
    exact finish_ok _ (by simp [List.all_append, hdoc.1, hb1]) (bodyLike_append hdoc.2 hb2)
  cases s with
  | obj props defaults req addl =>
    simp only [classSchemaOk, Bool.and_eq_true] at hs
    have hp := propItems_ok O hO defaults props hs.1 hs.2
    have hr := reqItems_ok (emittedRequired (.obj props defaults req addl))
    have ha : ((if addl then [] else [Item.assign nAddl (.const cFalse)]).all wfItem = true
        ∧ bodyLike (if addl then [] else [Item.assign nAddl (.const cFalse)])) := by
      cases addl
      · exact ⟨by simp [wfItem, tA, cF], Or.inr (by simp [nonBlank])⟩
      · exact ⟨rfl, Or.inl rfl⟩
    simp only [classItems]
    exact core _ (by simp [List.all_append, ha.1, hp.1, hr.1]) (bodyLike_append (bodyLike_append ha.2 hp.2) hr.2)
  | mapAny a mn mx =>
    simp only [classItems]
    apply core
    · split <;> simp [wfItem, tA, cF]
    · split
      · exact Or.inr (by simp [nonBlank])
      · exact Or.inl rfl
  | mapOf v mn mx => simp only [classItems]; exact core [] rfl (Or.inl rfl)
  | num i m a b e => simp only [classItems]; exact core _ (wrapped _ hs).1 (wrapped _ hs).2
  | str a b p => simp only [classItems]; exact core _ (wrapped _ hs).1 (wrapped _ hs).2
  | bool => simp only [classItems]; exact core _ (wrapped _ hs).1 (wrapped _ hs).2
  | enum vs => simp only [classItems]; exact core _ (wrapped _ hs).1 (wrapped _ hs).2
  | arrAny sz => simp only [classItems]; exact core _ (wrapped _ hs).1 (wrapped _ hs).2
  | arrOf s sz => simp only [classItems]; exact core _ (wrapped _ hs).1 (wrapped _ hs).2
  | arrPos ss a sz => simp only [classItems]; exact core _ (wrapped _ hs).1 (wrapped _ hs).2
  | ref n => simp only [classItems]; exact core _ (wrapped _ hs).1 (wrapped _ hs).2
  | allOf ss => simp only [classItems]; exact core _ (wrapped _ hs).1 (wrapped _ hs).2
  | anyOf ss => simp only [classItems]; exact core _ (wrapped _ hs).1 (wrapped _ hs).2
  | oneOf ss => simp only [classItems]; exact core _ (wrapped _ hs).1 (wrapped _ hs).2
  | notS ss => simp only [classItems]; exact core _ (wrapped _ hs).1 (wrapped _ hs).2
  | unsupported w => simp [classSchemaOk, emitOk] at hs

theorem classOk_of_src (O : EOra) (hO : OraOk O) (c : ClassSrc) (h : classSrcOk c = true) : classOk O c = true := by
  simp only [classSrcOk, Bool.and_eq_true] at h
  have := classItems_ok O hO c.desc c.schema h.1.2 h.2
  simp [classOk, h.1.1, this.1, this.2]

end Typedpy.Emit
