/-
  Lemmas/TrustedMap.lean — C10 with key-renaming mappers: the trusted branch with per-class simple
  mappers is the mapper-free trusted branch on the document whose keys are translated back to field
  names (`untrV`); the classifier does not depend on simple mappers.
-/
import TypedpyModel.Lemmas.Trusted
namespace Typedpy
open PyVal (pyEq)

/-- every class's mapper is one `_is_mapper_simple` accepts -/
def simpleEnv (Mp : MapEnv) : Prop := ∀ n, (Mp n).isComplex = false

/-! ### the classifier only asks whether a mapper is simple -/

mutual
theorem c10_effOf_simple (Mp : MapEnv) (h : simpleEnv Mp) : ∀ (f : FieldDecl) (b : Bool),
    effOf Mp b f = effOf noMappers b f
  | .integer _, _ => rfl
  | .string _ _ _, _ => rfl
  | .float _, _ => rfl
  | .boolean, _ => rfl
  | .noneF, _ => rfl
  | .number _, _ => rfl
  | .enumLit _, _ => rfl
  | .enumCls _ _, _ => rfl
  | .anyOf fs, b => by
    simp only [effOf]
    rw [c10_effOpt_simple Mp h fs]
  | .seqOf .list item _, _ => by
    simp only [effOf]
    rw [c10_effOf_simple Mp h item false]
  | .seqOf .deque _ _, _ => rfl
  | .setOf _ item _, _ => by
    simp only [effOf]
    rw [c10_effOf_simple Mp h item false]
  | .struct c fields _, _ => by
    have h0 : (noMappers c.name).isComplex = false := rfl
    simp only [effOf, h c.name, h0, Bool.false_eq_true, if_false]
    rw [c10_fieldsV_simple Mp h fields .flat]
  | .seqAny _ _, _ => rfl
  | .seqPos _ _ _ _, _ => rfl
  | .setAny _ _, _ => rfl
  | .tupleOf _ _, _ => rfl
  | .tuplePos _ _, _ => rfl
  | .mapAny _, _ => rfl
  | .mapOf _ _ _, _ => rfl
  | .oneOf _, _ => rfl
  | .allOf _, _ => rfl
  | .notF _, _ => rfl
  | .anything, _ => rfl

theorem c10_effOpt_simple (Mp : MapEnv) (h : simpleEnv Mp) : ∀ (fs : List FieldDecl),
    effOpt Mp fs = effOpt noMappers fs
  | [] => rfl
  | [_] => rfl
  | [x, y] => by
    simp only [effOpt]
    rw [c10_effOf_simple Mp h x false, c10_effOf_simple Mp h y false]
  | _ :: _ :: _ :: _ => rfl

theorem c10_fieldsV_simple (Mp : MapEnv) (h : simpleEnv Mp) : ∀ (fs : List (String × FieldDecl)) (l : Lvl),
    fieldsV Mp fs l = fieldsV noMappers fs l
  | [], _ => rfl
  | (_, f) :: rest, l => by
    simp only [fieldsV]
    rw [c10_effOf_simple Mp h f true]
    cases effOf noMappers true f <;> simp only
    · exact c10_fieldsV_simple Mp h rest .nested
    · exact c10_fieldsV_simple Mp h rest l
end

theorem c10_verdict_simple (Mp : MapEnv) (h : simpleEnv Mp) (cls : FieldDecl) :
    verdictOf Mp cls = verdictOf noMappers cls := by
  cases cls <;> try rfl
  rename_i c fields defaults
  have h0 : (noMappers c.name).isComplex = false := rfl
  simp only [verdictOf, h c.name, h0, Bool.false_eq_true, if_false]
  exact c10_fieldsV_simple Mp h fields .flat

theorem c10_eligible_simple (Mp : MapEnv) (h : simpleEnv Mp) (cls : FieldDecl) :
    eligible Mp cls = eligible noMappers cls := by
  simp only [eligible, c10_verdict_simple Mp h cls]

/-! ### association-list helpers -/

theorem c10_kwOfDict_map : ∀ l : List (String × PyVal),
    kwOfDict (l.map fun a => (PyVal.str a.1, a.2)) = some l
  | [] => rfl
  | (k, v) :: rest => by
    simp only [List.map_cons, kwOfDict, c10_kwOfDict_map rest, Option.map_some]

theorem c10_lookup_append {α} (n : String) : ∀ (a b : List (String × α)),
    lookup n (a ++ b) = (match lookup n a with | some v => some v | none => lookup n b)
  | [], _ => rfl
  | (k, v) :: rest, b => by
    simp only [List.cons_append, lookup]
    split
    · rfl
    · exact c10_lookup_append n rest b

theorem c10_lookup_filter_names (names : List String) (n : String) (hn : names.contains n = true) :
    ∀ doc : List (String × PyVal), lookup n (doc.filter fun a => !names.contains a.1) = none
  | [] => rfl
  | (k, v) :: rest => by
    simp only [List.filter]
    cases hk : names.contains k with
    | true => simp only [Bool.not_true]; exact c10_lookup_filter_names names n hn rest
    | false =>
      simp only [Bool.not_false, lookup]
      have : (n == k) = false := by
        cases hnk : (n == k) with
        | false => rfl
        | true =>
          have : n = k := by simpa using hnk
          rw [this, hk] at hn; cases hn
      simp only [this, Bool.false_eq_true, if_false]
      exact c10_lookup_filter_names names n hn rest

theorem c10_lookup_untrKw_none (Mp : MapEnv) (doc : List (String × PyVal)) (n : String) :
    ∀ rest : List (String × FieldDecl), (rest.map (·.1)).contains n = false →
      lookup n (untrKw Mp doc rest) = none
  | [], _ => rfl
  | (k, f) :: rest, h => by
    simp only [List.map_cons, List.contains_cons, Bool.or_eq_false_iff] at h
    simp only [untrKw]
    rw [c10_lookup_append]
    have hr := c10_lookup_untrKw_none Mp doc n rest h.2
    cases lookup k doc with
    | none => simp only [lookup]; exact hr
    | some v => simp only [lookup, h.1, Bool.false_eq_true, if_false]; exact hr

theorem c10_lookup_untrKw (Mp : MapEnv) (doc : List (String × PyVal)) :
    ∀ fields : List (String × FieldDecl), strNodup (fields.map (·.1)) = true →
      ∀ p ∈ fields, lookup p.1 (untrKw Mp doc fields) = (lookup p.1 doc).map (untrV Mp p.2)
  | [], _, p, hp => by simp at hp
  | (k, f) :: rest, h, p, hp => by
    simp only [List.map_cons, strNodup, and_true_iff, Bool.not_eq_true'] at h
    simp only [List.mem_cons] at hp
    simp only [untrKw]
    rw [c10_lookup_append]
    rcases hp with hp | hp
    · subst hp
      cases hl : lookup k doc with
      | none => simp only [lookup, Option.map_none]; exact c10_lookup_untrKw_none Mp doc k rest h.1
      | some v => simp [lookup]
    · have hne : (p.1 == k) = false := by
        cases hk : (p.1 == k) with
        | false => rfl
        | true =>
          have : p.1 = k := by simpa using hk
          have hm : (rest.map (·.1)).contains k = true := by
            rw [← this]
            simp only [List.contains_eq_mem, List.mem_map, decide_eq_true_eq]
            exact ⟨p, hp, rfl⟩
          rw [h.1] at hm; cases hm
      have hr := c10_lookup_untrKw Mp doc rest h.2 p hp
      cases lookup k doc with
      | none => simp only [lookup]; exact hr
      | some v => simp only [lookup, hne, Bool.false_eq_true, if_false]; exact hr

/-- the translated document supplies, for every declared field, the translated value -/
theorem c10_lookup_untr_doc (Mp : MapEnv) (doc : List (String × PyVal)) (fields : List (String × FieldDecl))
    (h : strNodup (fields.map (·.1)) = true) (p : String × FieldDecl) (hp : p ∈ fields) :
    lookup p.1 (untrKw Mp doc fields ++ doc.filter fun a => !(fields.map (·.1)).contains a.1)
      = (lookup p.1 doc).map (untrV Mp p.2) := by
  rw [c10_lookup_append, c10_lookup_untrKw Mp doc fields h p hp]
  have hc : (fields.map (·.1)).contains p.1 = true := by
    simp only [List.contains_eq_mem, List.mem_map, decide_eq_true_eq]
    exact ⟨p, hp, rfl⟩
  cases lookup p.1 doc with
  | some v => rfl
  | none => simp only [Option.map_none]; exact c10_lookup_filter_names _ p.1 hc doc

/-! ### where the translation changes nothing -/

theorem c10_untr_arrScalar (Mp : MapEnv) (f : FieldDecl) (h : isArrScalar f = true) (v : PyVal) :
    untrV Mp f v = v := by
  cases f <;> simp [isArrScalar] at h <;> simp [untrV]

theorem c10_untr_enum (Mp : MapEnv) (f : FieldDecl) (h : isEnumDecl f = true) (v : PyVal) :
    untrV Mp f v = v := by
  cases f <;> simp [isEnumDecl] at h <;> simp [untrV]

theorem c10_untr_setScalar (Mp : MapEnv) (f : FieldDecl) (h : isSetScalarOk f = true) (v : PyVal) :
    untrV Mp f v = v := by
  cases f <;> simp [isSetScalarOk] at h <;> simp [untrV]

theorem c10_map_id_of {α} (g : α → α) : ∀ xs : List α, (∀ x, g x = x) → xs.map g = xs
  | [], _ => rfl
  | x :: xs, h => by simp only [List.map_cons, h x, c10_map_id_of g xs h]

theorem c10_untrFirst_raw (Mp : MapEnv) (v : PyVal) : ∀ fs : List FieldDecl,
    fs.all rawOrNone = true → untrFirst Mp fs v = v
  | [], _ => rfl
  | f :: fs, h => by
    simp only [List.all_cons, and_true_iff] at h
    have hc : isContainerD f = false := by
      have := h.1
      cases f <;> simp [rawOrNone, isRawScalar, isNoneF] at this <;> rfl
    simp only [untrFirst, hc, Bool.false_eq_true, if_false]
    exact c10_untrFirst_raw Mp v fs h.2

theorem c10_untr_isNone_container (Mp : MapEnv) (f : FieldDecl) (hc : isContainerD f = true) (v : PyVal) :
    (untrV Mp f v).isNone = v.isNone := by
  cases f <;> simp [isContainerD] at hc
  case seqOf k item sz => cases v <;> simp [untrV, PyVal.isNone]
  case setOf imm item sz => cases v <;> simp [untrV, PyVal.isNone]
  case struct c fields ds =>
    simp only [untrV]
    split
    · rfl
    · cases v <;> try rfl
      rename_i kvs
      simp only
      cases kwOfDict kvs <;> simp [dictOfKw, PyVal.isNone]

theorem c10_untrFirst_isNone (Mp : MapEnv) (v : PyVal) : ∀ fs : List FieldDecl,
    (untrFirst Mp fs v).isNone = v.isNone
  | [] => rfl
  | f :: fs => by
    simp only [untrFirst]
    split
    · rename_i hc; exact c10_untr_isNone_container Mp f hc v
    · exact c10_untrFirst_isNone Mp v fs

theorem c10_untr_isNone (Mp : MapEnv) (f : FieldDecl) (v : PyVal) : (untrV Mp f v).isNone = v.isNone := by
  cases hc : isContainerD f with
  | true => exact c10_untr_isNone_container Mp f hc v
  | false =>
    cases f <;> simp [isContainerD] at hc <;> try (simp [untrV])
    exact c10_untrFirst_isNone Mp v _

def c10_isEnumCls : FieldDecl → Bool
  | .enumCls _ _ => true
  | _ => false

theorem c10_enumPreD_not (x : FieldDecl) (h : c10_isEnumCls x = false) (v : PyVal) : enumPreD x v = .ok v := by
  cases x <;> simp [c10_isEnumCls] at h <;> rfl

theorem c10_enumCls_not_container (x : FieldDecl) (h : c10_isEnumCls x = true) : isContainerD x = false := by
  cases x <;> simp [c10_isEnumCls] at h <;> rfl

theorem c10_enumPre_pair (Mp : MapEnv) (x y : FieldDecl) (hopt : isOptAnyOf [x, y] = true) :
    (∀ v, untrFirst Mp [x, y] v = v) ∨ (∀ v, enumPre (.anyOf [x, y]) v = .ok v) := by
  by_cases hy : isNoneF y = true
  · have := isNoneF_eq y hy
    subst this
    cases hx : c10_isEnumCls x with
    | true =>
      refine Or.inl fun v => ?_
      have hn : isContainerD .noneF = false := rfl
      simp only [untrFirst, c10_enumCls_not_container x hx, hn, Bool.false_eq_true, if_false]
    | false =>
      refine Or.inr fun v => ?_
      simp only [enumPre, hopt, if_true, optPick, isNoneF]
      exact c10_enumPreD_not x hx v
  · have hy' : isNoneF y = false := by simpa using hy
    have hx : isNoneF x = true := by
      simp only [isOptAnyOf, List.any_cons, List.any_nil, hy', Bool.or_false, Bool.and_eq_true] at hopt
      exact hopt.2
    have := isNoneF_eq x hx
    subst this
    cases hyE : c10_isEnumCls y with
    | true =>
      refine Or.inl fun v => ?_
      have hn : isContainerD .noneF = false := rfl
      simp only [untrFirst, c10_enumCls_not_container y hyE, hn, Bool.false_eq_true, if_false]
    | false =>
      refine Or.inr fun v => ?_
      simp only [enumPre, hopt, if_true, optPick, hy', Bool.false_eq_true, if_false]
      exact c10_enumPreD_not y hyE v

/-- the enum-mapping step looks at a value the translation leaves alone, or does nothing -/
theorem c10_enumPre_cases (Mp : MapEnv) (f : FieldDecl) :
    (∀ v, untrV Mp f v = v) ∨ (∀ v, enumPre f v = .ok v) := by
  cases f <;> try (exact Or.inr fun _ => rfl)
  case enumCls => exact Or.inl fun _ => by simp [untrV]
  case anyOf fs =>
    by_cases hopt : isOptAnyOf fs = true
    · match fs, hopt with
      | [x, y], h =>
        rcases c10_enumPre_pair Mp x y h with h1 | h2
        · exact Or.inl fun v => by simp only [untrV]; exact h1 v
        · exact Or.inr h2
      | [], h => simp [isOptAnyOf] at h
      | [_], h => simp [isOptAnyOf] at h
      | _ :: _ :: _ :: _, h => simp [isOptAnyOf] at h
    · have hopt' : isOptAnyOf fs = false := by simpa using hopt
      exact Or.inr fun v => by simp [enumPre, hopt']

theorem c10_isList_of_simple (m : TMapper) (h : m.isComplex = false) : m.isList = false := by
  cases m <;> simp [TMapper.isComplex] at h <;> rfl

theorem c10_mapE_map {α β γ} (g : β → R γ) (h : α → β) : ∀ xs : List α,
    mapE g (xs.map h) = mapE (fun x => g (h x)) xs
  | [] => rfl
  | x :: xs => by simp only [List.map_cons, mapE, c10_mapE_map g h xs]

/-! ### the trusted branch factors through the key translation -/

theorem c10_untr_D_noncontainer (Mp : MapEnv) (x : FieldDecl) (hx : tsafeD x = true)
    (hc : isContainerD x = false) (v : PyVal) : untrV Mp x v = v := by
  cases x <;> simp [isContainerD] at hc <;> first | (simp [untrV]; done) | (simp [tsafeD] at hx)

theorem c10_enum_not_ref (f : FieldDecl) (h : isEnumDecl f = true) : isClassRef f = false := by
  cases f <;> simp [isEnumDecl] at h <;> rfl

theorem c10_setScalar_not_ref (f : FieldDecl) (h : isSetScalarOk f = true) :
    isClassRef f = false ∧ isEnumDecl f = false := by
  cases f <;> simp [isSetScalarOk] at h <;> exact ⟨rfl, rfl⟩

theorem c10_untrFirst_A (Mp : MapEnv) (x : FieldDecl) (hx : tsafeD x = true) (v : PyVal) :
    untrFirst Mp [x, .noneF] v = untrV Mp x v := by
  have hn : isContainerD .noneF = false := rfl
  simp only [untrFirst, hn, Bool.false_eq_true, if_false]
  split
  · rfl
  · rename_i hc
    have hc' : isContainerD x = false := by simpa using hc
    exact (c10_untr_D_noncontainer Mp x hx hc' v).symm

theorem c10_untrFirst_B (Mp : MapEnv) (y : FieldDecl) (hy : tsafeD y = true) (v : PyVal) :
    untrFirst Mp [.noneF, y] v = untrV Mp y v := by
  have hn : isContainerD .noneF = false := rfl
  simp only [untrFirst, hn, Bool.false_eq_true, if_false]
  split
  · rfl
  · rename_i hc
    have hc' : isContainerD y = false := by simpa using hc
    exact (c10_untr_D_noncontainer Mp y hy hc' v).symm

theorem c10_tHead_A' (Mp : MapEnv) (x : FieldDecl) (v : PyVal) : tHead Mp [x, .noneF] v = tVal Mp false x v := by
  simp [tHead, isNoneF]

theorem c10_tHead_B' (Mp : MapEnv) (y : FieldDecl) (v : PyVal) (hy : isNoneF y = false) :
    tHead Mp [.noneF, y] v = tVal Mp false y v := by
  simp only [tHead, hy, Bool.false_eq_true, if_false]

theorem c10_remapDoc_none (names : List String) (doc : List (String × PyVal)) :
    remapDoc .none names doc = doc := by
  simp [remapDoc, TMapper.isNone]

/-- one step of the field loop, given the factorisation of `tVal` for this field -/
theorem c10_step (Mp : MapEnv) (raw : Bool) (f : FieldDecl) (v : PyVal)
    (hraw : raw = true → ∀ v, untrV Mp f v = v)
    (hf : ∀ v, tVal Mp true f v = tVal noMappers true f (untrV Mp f v)) :
    (bindE (enumPre f v) fun v' => if raw then .ok v' else tVal Mp true f v')
      = (bindE (enumPre f (untrV Mp f v)) fun v' => if raw then .ok v' else tVal noMappers true f v') := by
  cases raw with
  | true => rw [hraw rfl v]; rfl
  | false =>
    simp only [Bool.false_eq_true, if_false]
    rcases c10_enumPre_cases Mp f with h1 | h2
    · rw [h1 v]
      congr 1
      funext v'
      rw [hf v', h1 v']
    · rw [h2 v, h2 (untrV Mp f v)]
      simp only [bindE_ok]
      exact hf v

mutual
theorem c10_tval_factor (Mp : MapEnv) (hM : simpleEnv Mp) : ∀ (f : FieldDecl) (b : Bool) (v : PyVal),
    tsafeTop f = true → (∀ fs, f = .anyOf fs → b = true) →
    tVal Mp b f v = tVal noMappers b f (untrV Mp f v)
  | .number _, _, _, _, _ => by simp [tVal, untrV]
  | .integer _, _, _, _, _ => by simp [tVal, untrV]
  | .float _, _, _, _, _ => by simp [tVal, untrV]
  | .string _ _ _, _, _, _, _ => by simp [tVal, untrV]
  | .boolean, _, _, _, _ => by simp [tVal, untrV]
  | .noneF, _, _, _, _ => by simp [tVal, untrV]
  | .enumLit _, _, _, _, _ => by simp [tVal, untrV]
  | .enumCls _ _, _, _, _, _ => by simp [tVal, untrV]
  | .seqOf .list item sz, b, v, hs, _ => by
    simp only [tsafeTop, tsafeD, Bool.or_eq_true, and_true_iff] at hs
    rcases hs with (hi | ⟨hE, _⟩) | ⟨hc, hi⟩
    · have : untrV Mp (.seqOf .list item sz) v = v := by
        cases v <;> simp only [untrV]
        rw [c10_map_id_of _ _ (c10_untr_arrScalar Mp item hi)]
      rw [this]
      simp only [tVal, (isArrScalar_not_ref item hi).1, (isArrScalar_not_ref item hi).2, Bool.false_eq_true, if_false]
    · have : untrV Mp (.seqOf .list item sz) v = v := by
        cases v <;> simp only [untrV]
        rw [c10_map_id_of _ _ (c10_untr_enum Mp item hE)]
      rw [this]
      simp only [tVal, c10_enum_not_ref item hE, hE, Bool.false_eq_true, if_false, if_true]
    · simp only [tVal, hc, if_true]
      cases v <;> simp only [untrV, pyList]
      rename_i xs
      rw [c10_mapE_map]
      rw [mapE_congr xs (fun x _ => c10_tval_factor Mp hM item false x (tsafeTop_of_D item hi)
        (fun fs h => absurd h (tsafeD_not_anyOf item hi fs)))]
  | .setOf imm item sz, b, v, hs, _ => by
    simp only [tsafeTop, tsafeD, Bool.or_eq_true, and_true_iff] at hs
    have : untrV Mp (.setOf imm item sz) v = v := by
      cases v <;> simp only [untrV]
      rcases hs with hs | ⟨hE, _⟩
      · rw [c10_map_id_of _ _ (c10_untr_setScalar Mp item hs)]
      · rw [c10_map_id_of _ _ (c10_untr_enum Mp item hE)]
    rw [this]
    rcases hs with hs | ⟨hE, _⟩
    · simp only [tVal, (c10_setScalar_not_ref item hs).1, (c10_setScalar_not_ref item hs).2, Bool.false_eq_true, if_false]
    · simp only [tVal, hE, if_true]
  | .struct c fields defaults, b, v, hs, _ => by
    simp only [tsafeTop, tsafeD, and_true_iff, Bool.not_eq_true'] at hs
    have hinl := hs.1.1
    have h0 : noMappers c.name = .none := rfl
    simp only [tVal, untrV, hinl, Bool.false_eq_true, if_false, h0]
    cases v <;> try rfl
    rename_i kvs
    simp only [tInst]
    cases hk : kwOfDict kvs with
    | none => simp only [tInst, hk]
    | some doc =>
      have hl0 : TMapper.isList .none = false := rfl
      simp only [dictOfKw, tInst, c10_kwOfDict_map, c10_isList_of_simple (Mp c.name) (hM c.name), hl0,
        Bool.false_eq_true, if_false, c10_remapDoc_none]
      rw [c10_tfields_factor Mp hM fields false c.ignoreNone (remapDoc (Mp c.name) (fields.map (·.1)) doc)
        (untrKw Mp (remapDoc (Mp c.name) (fields.map (·.1)) doc) fields
          ++ (remapDoc (Mp c.name) (fields.map (·.1)) doc).filter fun a => !(fields.map (·.1)).contains a.1)
        hs.2 (fun p hp => c10_lookup_untr_doc Mp _ fields hs.1.2 p hp) (fun h => by cases h)]
  | .anyOf fs, b, v, hs, hb => by
    have hb' := hb fs rfl
    subst hb'
    simp only [tsafeTop] at hs
    by_cases hopt : isOptAnyOf fs = true
    · simp only [hopt, if_true] at hs
      simp only [tVal, hopt, Bool.and_self, if_true, untrV]
      exact c10_thead_factor Mp hM fs v hs
    · have hopt' : isOptAnyOf fs = false := by simpa using hopt
      simp only [hopt', Bool.false_eq_true, if_false] at hs
      simp only [tVal, hopt', Bool.and_false, Bool.false_eq_true, if_false, untrV, c10_untrFirst_raw Mp v fs hs]
  | .seqOf .deque _ _, _, _, hs, _ => by simp [tsafeTop, tsafeD] at hs
  | .seqAny _ _, _, _, hs, _ => by simp [tsafeTop, tsafeD] at hs
  | .seqPos _ _ _ _, _, _, hs, _ => by simp [tsafeTop, tsafeD] at hs
  | .setAny _ _, _, _, hs, _ => by simp [tsafeTop, tsafeD] at hs
  | .tupleOf _ _, _, _, hs, _ => by simp [tsafeTop, tsafeD] at hs
  | .tuplePos _ _, _, _, hs, _ => by simp [tsafeTop, tsafeD] at hs
  | .mapAny _, _, _, hs, _ => by simp [tsafeTop, tsafeD] at hs
  | .mapOf _ _ _, _, _, hs, _ => by simp [tsafeTop, tsafeD] at hs
  | .oneOf _, _, _, hs, _ => by simp [tsafeTop, tsafeD] at hs
  | .allOf _, _, _, hs, _ => by simp [tsafeTop, tsafeD] at hs
  | .notF _, _, _, hs, _ => by simp [tsafeTop, tsafeD] at hs
  | .anything, _, _, hs, _ => by simp [tsafeTop, tsafeD] at hs

theorem c10_thead_factor (Mp : MapEnv) (hM : simpleEnv Mp) : ∀ (fs : List FieldDecl) (v : PyVal),
    tsafeOpt fs = true → tHead Mp fs v = tHead noMappers fs (untrFirst Mp fs v)
  | [], _, hs => by simp [tsafeOpt] at hs
  | [_], _, hs => by simp [tsafeOpt] at hs
  | _ :: _ :: _ :: _, _, hs => by simp [tsafeOpt] at hs
  | [x, y], v, hs => by
    rcases tsafeOpt_cases [x, y] hs with ⟨x', y', hxy, hc⟩
    cases hxy
    rcases hc with ⟨hy, hx, _⟩ | ⟨hx, hyn, hy, _⟩
    · have hyN := isNoneF_eq y hy
      subst hyN
      rw [c10_tHead_A', c10_tHead_A', c10_untrFirst_A Mp x hx v]
      exact c10_tval_factor Mp hM x false v (tsafeTop_of_D x hx) (fun fs h => absurd h (tsafeD_not_anyOf x hx fs))
    · have hxN := isNoneF_eq x hx
      subst hxN
      rw [c10_tHead_B' Mp y v hyn, c10_tHead_B' noMappers y _ hyn, c10_untrFirst_B Mp y hy v]
      exact c10_tval_factor Mp hM y false v (tsafeTop_of_D y hy) (fun fs h => absurd h (tsafeD_not_anyOf y hy fs))

theorem c10_tfields_factor (Mp : MapEnv) (hM : simpleEnv Mp) : ∀ (rest : List (String × FieldDecl))
    (raw ign : Bool) (doc doc2 : List (String × PyVal)),
    tsafeFields rest = true →
    (∀ p ∈ rest, lookup p.1 doc2 = (lookup p.1 doc).map (untrV Mp p.2)) →
    (raw = true → ∀ p ∈ rest, ∀ v, untrV Mp p.2 v = v) →
    tFields Mp raw ign doc rest = tFields noMappers raw ign doc2 rest
  | [], _, _, _, _, _, _, _ => by simp [tFields]
  | (n, f) :: rest, raw, ign, doc, doc2, hs, hl, hraw => by
    rw [tsafeFields_cons] at hs
    simp only [and_true_iff] at hs
    have ih := c10_tfields_factor Mp hM rest raw ign doc doc2 hs.2 (fun p hp => hl p (by simp [hp]))
      (fun hr p hp => hraw hr p (by simp [hp]))
    have hl0 := hl (n, f) (by simp)
    simp only at hl0
    simp only [tFields, hl0]
    cases lookup n doc with
    | none => simp only [Option.map_none]; exact ih
    | some v =>
      simp only [Option.map_some, c10_untr_isNone]
      rw [ih, c10_step Mp raw f v (fun hr => hraw hr (n, f) (by simp))
        (fun v' => c10_tval_factor Mp hM f true v' hs.1 (fun _ _ => rfl))]
end

/-! ### the class at top level -/

/-- a field that leaves the classifier at `not_nested` holds no class-level object -/
theorem c10_keep_untr (Mp : MapEnv) (f : FieldDecl) (v : PyVal) (hs : tsafeTop f = true)
    (hk : effOf noMappers true f = .keep) : untrV Mp f v = v := by
  cases f <;> try (simp [tsafeTop, tsafeD] at hs)
  case number => simp [untrV]
  case integer => simp [untrV]
  case float => simp [untrV]
  case string => simp [untrV]
  case boolean => simp [untrV]
  case noneF => simp [untrV]
  case enumLit => simp [untrV]
  case enumCls => simp [untrV]
  case seqOf k item sz =>
    cases k
    · simp only [tsafeD, Bool.or_eq_true, and_true_iff] at hs
      rcases hs with (hi | ⟨hE, _⟩) | ⟨hc, _⟩
      · cases v <;> simp only [untrV]
        rw [c10_map_id_of _ _ (c10_untr_arrScalar Mp item hi)]
      · cases v <;> simp only [untrV]
        rw [c10_map_id_of _ _ (c10_untr_enum Mp item hE)]
      · simp only [effOf, (classref_not_valid item hc).1, (classref_not_valid item hc).2, hc,
          Bool.false_eq_true, if_false, if_true] at hk
        exact absurd hk (classref_effOf_ne_keep noMappers false item hc)
    · simp [tsafeD] at hs
  case setOf imm item sz =>
    have hval : isValidCls item = true := by
      rcases hs with h | ⟨h, _⟩
      · exact isSetScalarOk_valid item h
      · exact isEnumDecl_valid item h
    simp [effOf, hval] at hk
  case struct c fields defaults =>
    simp only [effOf] at hk
    split at hk
    · cases hk
    · exact absurd hk (refEff_ne_keep _)
  case anyOf fs =>
    by_cases hopt : isOptAnyOf fs = true
    · simp only [effOf, hopt, Bool.and_self, if_true] at hk
      exact absurd hk (optEff_ne_keep _)
    · have hopt' : isOptAnyOf fs = false := by simpa using hopt
      have hs' : fs.all rawOrNone = true := by
        simp only [tsafeTop, hopt', Bool.false_eq_true, if_false] at hs
        exact List.all_eq_true.mpr hs
      simp only [untrV]
      exact c10_untrFirst_raw Mp v fs hs'

theorem c10_flat_fields_untr (Mp : MapEnv) : ∀ fields : List (String × FieldDecl),
    fieldsV noMappers fields .flat = .lvl .flat → tsafeFields fields = true →
    ∀ p ∈ fields, ∀ v, untrV Mp p.2 v = v
  | [], _, _, p, hp, _ => by simp at hp
  | (n, f) :: rest, hv, hs, p, hp, v => by
    rw [tsafeFields_cons] at hs
    simp only [and_true_iff] at hs
    simp only [fieldsV] at hv
    cases he : effOf noMappers true f with
    | raises => simp [he] at hv
    | reject => simp [he] at hv
    | nested => simp only [he] at hv; exact absurd hv (fieldsV_nested_ne_flat noMappers rest)
    | keep =>
      simp only [he] at hv
      simp only [List.mem_cons] at hp
      rcases hp with hp | hp
      · subst hp; exact c10_keep_untr Mp f v hs.1 he
      · exact c10_flat_fields_untr Mp rest hv hs.2 p hp v

/-- **the trusted branch with per-class simple mappers = the mapper-free trusted branch on the
    document translated back to field names**, for every eligible class of the proved region, at
    any nesting depth, every document (valid or not) -/
theorem c10_trusted_factor (Mp : MapEnv) (hM : simpleEnv Mp) (O : Oracles) (opts : DeserOpts)
    (cls : FieldDecl) (d : PyVal) (he : eligible Mp cls = true) (hs : tsafeCls cls = true) :
    deserializeTrusted Mp O opts cls d = deserializeTrusted noMappers O opts cls (untrV Mp cls d) := by
  cases cls <;> try (simp [tsafeCls] at hs)
  rename_i c fields defaults
  simp only [tsafeD, and_true_iff, Bool.not_eq_true'] at hs
  have hinl := hs.1.1
  rw [c10_eligible_simple Mp hM] at he
  unfold eligible at he
  simp only [deserializeTrusted, c10_verdict_simple Mp hM]
  cases hvd : verdictOf noMappers (.struct c fields defaults) with
  | raises => simp [hvd] at he
  | no => simp [hvd] at he
  | lvl l =>
    simp only
    have hraw : (l == Lvl.flat) = true → ∀ p ∈ fields, ∀ v, untrV Mp p.2 v = v := by
      intro hl
      have : l = .flat := by cases l <;> simp at hl ⊢
      subst this
      have h0 : (noMappers c.name).isComplex = false := rfl
      simp only [verdictOf, h0, Bool.false_eq_true, if_false] at hvd
      exact c10_flat_fields_untr Mp fields hvd hs.2
    have h0 : noMappers c.name = .none := rfl
    simp only [untrV, hinl, Bool.false_eq_true, if_false, h0]
    cases d <;> try rfl
    rename_i kvs
    cases hk : kwOfDict kvs with
    | none => simp only [tInst, hk]
    | some doc =>
      have hl0 : TMapper.isList .none = false := rfl
      simp only [dictOfKw, tInst, hk, c10_kwOfDict_map, c10_isList_of_simple (Mp c.name) (hM c.name), hl0,
        Bool.false_eq_true, if_false, c10_remapDoc_none]
      rw [c10_tfields_factor Mp hM fields (l == Lvl.flat) c.ignoreNone
        (remapDoc (Mp c.name) (fields.map (·.1)) doc)
        (untrKw Mp (remapDoc (Mp c.name) (fields.map (·.1)) doc) fields
          ++ (remapDoc (Mp c.name) (fields.map (·.1)) doc).filter fun a => !(fields.map (·.1)).contains a.1)
        hs.2 (fun p hp => c10_lookup_untr_doc Mp _ fields hs.1.2 p hp) hraw]

end Typedpy
