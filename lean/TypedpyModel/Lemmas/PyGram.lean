/-
  Lemmas/PyGram.lean — the recogniser (`Sem/PyGram.lean`) accepts what the printer
  (`Sem/SchemaEmit.lean`) prints: token-level (`parse_*`) and character-level (`lex_*`) lemmas,
  by symbolic execution of the two transition systems and structural induction over `PyExpr`.
-/
import TypedpyModel.Sem.SchemaEmit
import TypedpyModel.Lemmas.PyLex
namespace Typedpy.Emit
open Typedpy.PyGram Typedpy.PyLex

/-! ## parser -/

def endsStr : PyExpr → Bool
  | .strLit _ => true
  | .lam b => endsStr b
  | _ => false

theorem parse_go {s s' : PState} {t : Tok} (ts : List Tok) (h : pstep s t = .go s') :
    parse s (t :: ts) = parse s' ts := by
  simp [parse, h]

theorem nodupL_cons (k : List Char) (ks : List (List Char)) (h : nodupL (k :: ks) = true) :
    ks.contains k = false ∧ nodupL ks = true := by
  simpa [nodupL] using h

mutual
theorem parse_expr (X : Ora) : ∀ (e : PyExpr), wf X e = true → ∀ (σ : List Frame) (c : Bool) (φ : Phase) (rest : List Tok), φ ≠ .expr →
    parse ⟨σ, .operand c false, φ, false⟩ (toks e ++ rest)
      = parse ⟨σ, .afterOp (endsStr e), φ, false⟩ rest
  | .name n, _, σ, c, φ, rest, hφ => by
    simp [toks, parse, pstep, operandStep, startsPositional, endsStr]
  | .const w, h, σ, c, φ, rest, hφ => by
    simp only [wf, Bool.and_eq_true] at h
    simp [toks, parse, pstep, operandStep, startsPositional, endsStr, h.1]
  | .num t, _, σ, c, φ, rest, hφ => by
    simp [toks, parse, pstep, operandStep, startsPositional, endsStr]
  | .negNum t, _, σ, c, φ, rest, hφ => by
    have hm : ∀ st : PState, st.phase = φ → minusPhase st = φ := by
      intro st e
      unfold minusPhase
      cases st.stack <;> cases hp : st.phase <;> simp_all
    simp [toks, parse, pstep, operandStep, startsPositional, endsStr, hm]
  | .strLit cs, _, σ, c, φ, rest, hφ => by
    simp [toks, parse, pstep, operandStep, startsPositional, endsStr]
  | .call f kws, h, σ, c, φ, rest, hφ => by
    simp only [wf, Bool.and_eq_true] at h
    have ih := parse_kws X kws h.2 true σ false [] false φ rest hφ h.1.2 (by simp)
    simp [toks, parse, pstep, operandStep, afterStep, startsPositional, endsStr] at ih ⊢
    exact ih
  | .list xs, h, σ, c, φ, rest, hφ => by
    simp only [wf] at h
    have ih := parse_list X xs h true σ false φ rest hφ
    simp [toks, parse, pstep, operandStep, startsPositional, endsStr] at ih ⊢
    exact ih
  | .dict kvs, h, σ, c, φ, rest, hφ => by
    simp only [wf] at h
    have ih := parse_kvs X kvs h true σ false φ rest hφ
    simp [toks, parse, pstep, operandStep, startsPositional, endsStr] at ih ⊢
    exact ih
  | .lam b, h, σ, c, φ, rest, hφ => by
    simp only [wf] at h
    have ih := parse_expr X b h σ false φ rest hφ
    simp [toks, parse, pstep, operandStep, startsPositional, endsStr, isOp, kwLambda, constKw] at ih ⊢
    exact ih
  | .bad, h, _, _, _, _, _ => by simp [wf] at h
theorem parse_list (X : Ora) : ∀ (xs : List PyExpr), wfL X xs = true → ∀ (first : Bool) (σ : List Frame) (b : Bool)
    (φ : Phase) (rest : List Tok), φ ≠ .expr →
    parse ⟨.lst :: σ, (if first then .operand true false else .afterOp b), φ, false⟩
        (toksL first xs ++ .op ']' :: rest)
      = parse ⟨σ, .afterOp false, φ, false⟩ rest
  | [], _, first, σ, b, φ, rest, hφ => by
    cases first <;> simp [toksL, parse, pstep, operandStep, afterStep, closeStep, closes, startsPositional]
  | x :: xs, h, first, σ, b, φ, rest, hφ => by
    simp only [wfL, Bool.and_eq_true] at h
    have ih1 := parse_expr X x h.1 (.lst :: σ) true φ (toksL false xs ++ .op ']' :: rest) hφ
    have ih2 := parse_list X xs h.2 false σ (endsStr x) φ rest hφ
    cases first
    · simp [toksL, parse, pstep, afterStep] at ih1 ih2 ⊢
      rw [ih1, ih2]
    · simp [toksL] at ih1 ih2 ⊢
      rw [ih1, ih2]
theorem parse_kws (X : Ora) : ∀ (kws : List (List Char × PyExpr)), wfKws X kws = true →
    ∀ (first : Bool) (σ : List Frame) (k0 : Bool) (ns : List (List Char)) (b : Bool) (φ : Phase)
      (rest : List Tok), φ ≠ .expr →
    nodupL (kws.map (·.1)) = true → (∀ k ∈ kws.map (·.1), ns.contains k = false) →
    parse ⟨.call false k0 ns :: σ, (if first then .operand true true else .afterOp b), φ, false⟩
        (toksKws first kws ++ .op ')' :: rest)
      = parse ⟨σ, .afterOp false, φ, false⟩ rest
  | [], _, first, σ, k0, ns, b, φ, rest, hφ, _, _ => by
    cases first <;> simp [toksKws, parse, pstep, operandStep, afterStep, closeStep, closes, startsPositional]
  | (k, v) :: r, h, first, σ, k0, ns, b, φ, rest, hφ, hnd, hns => by
    simp only [wfKws, Bool.and_eq_true] at h
    have hk : targetName X k = true := h.1.1
    simp only [targetName, Bool.and_eq_true, Bool.not_eq_true'] at hk
    have hnd' := nodupL_cons k (r.map (·.1)) (by simpa using hnd)
    have hkns : ns.contains k = false := hns k (by simp)
    have ih1 := parse_expr X v h.1.2 (.call false true (k :: ns) :: σ) false φ (toksKws false r ++ .op ')' :: rest) hφ
    have hkns' : k ∉ ns := by simpa using hkns
    have hkr : k ∉ r.map (·.1) := by simpa using hnd'.1
    have ih2 := parse_kws X r h.2 false σ true (k :: ns) (endsStr v) φ rest hφ hnd'.2 (by
      intro k' hk'
      have h1 : k' ∉ ns := by
        have := hns k' (List.mem_cons_of_mem _ hk')
        simpa using this
      have h2 : k' ≠ k := fun e => hkr (e ▸ hk')
      simp [h1, h2])
    cases first
    · simp [toksKws, parse, pstep, afterStep, operandStep, startsPositional, isOp, hk.2, hkns'] at ih1 ih2 ⊢
      rw [ih1, ih2]
    · simp [toksKws, parse, pstep, operandStep, startsPositional, isOp, hk.2, hkns'] at ih1 ih2 ⊢
      rw [ih1, ih2]
theorem parse_kvs (X : Ora) : ∀ (kvs : List (PyExpr × PyExpr)), wfKVs X kvs = true → ∀ (first : Bool) (σ : List Frame)
    (b : Bool) (φ : Phase) (rest : List Tok), φ ≠ .expr →
    parse ⟨.dict (if first then .start else .colon) :: σ,
          (if first then .operand true false else .afterOp b), φ, false⟩
        (toksKVs first kvs ++ .op '}' :: rest)
      = parse ⟨σ, .afterOp false, φ, false⟩ rest
  | [], _, first, σ, b, φ, rest, hφ => by
    cases first <;> simp [toksKVs, parse, pstep, operandStep, afterStep, closeStep, closes, startsPositional]
  | (k, v) :: r, h, first, σ, b, φ, rest, hφ => by
    simp only [wfKVs, Bool.and_eq_true] at h
    have ih2 := parse_expr X v h.1.2 (.dict .colon :: σ) false φ (toksKVs false r ++ .op '}' :: rest) hφ
    have ih3 := parse_kvs X r h.2 false σ (endsStr v) φ rest hφ
    cases first
    · have ih1 := parse_expr X k h.1.1 (.dict .commaD :: σ) true φ (.op ':' :: (toks v ++ (toksKVs false r ++ .op '}' :: rest))) hφ
      simp [toksKVs, parse, pstep, afterStep] at ih1 ih2 ih3 ⊢
      rw [ih1, ih2, ih3]
    · have ih1 := parse_expr X k h.1.1 (.dict .start :: σ) true φ (.op ':' :: (toks v ++ (toksKVs false r ++ .op '}' :: rest))) hφ
      simp [toksKVs, parse, pstep, afterStep] at ih1 ih2 ih3 ⊢
      rw [ih1, ih2, ih3]
end
/-! ## lexer -/

theorem prepend_nil (x : TokRes) : prepend [] x = x := by cases x <;> rfl
theorem prepend_append (a b : List Tok) (x : TokRes) : prepend (a ++ b) x = prepend a (prepend b x) := by
  cases x <;> simp [prepend]
theorem prepend_cons (a : Tok) (b : List Tok) (x : TokRes) : prepend (a :: b) x = prepend [a] (prepend b x) := by
  cases x <;> simp [prepend]

theorem lex_go {X : Ora} {ctx ctx' : LCtx} {mode mode' : LMode} {c : Char} {r : List Char} {out : List Tok}
    (h : lstep X ctx mode c r = .go ctx' mode' out) :
    lex X ctx mode (c :: r) = prepend out (lex X ctx' mode' r) := by
  simp [lex, h]

/-- after a token that ends at a non-token character: the character is lexed as between tokens -/
theorem lex_cons (X : Ora) (ctx : LCtx) (mode : LMode) (c : Char) (r : List Char) :
    lex X ctx mode (c :: r) = (match lstep X ctx mode c r with
      | .go ctx' mode' out => prepend out (lex X ctx' mode' r)
      | .stop v => .error v) := by
  rw [lex]; cases lstep X ctx mode c r <;> rfl

theorem lstep_mid (X : Ora) (ctx : LCtx) (c : Char) (r : List Char) :
    lstep X ctx .mid c r = midStep X ctx c r := rfl

theorem lex_thenMid (X : Ora) (ctx : LCtx) (mode : LMode) (ts : List Tok) (d : Char) (r : List Char)
    (h : lstep X ctx mode d r = thenMid X ts ctx d r) :
    lex X ctx mode (d :: r) = prepend ts (lex X ctx .mid (d :: r)) := by
  rw [lex_cons, lex_cons, h, lstep_mid, thenMid]
  cases midStep X ctx d r with
  | go ctx' m out => simp [prepend_append]
  | stop v => simp [prepend]

/-! ### identifiers and keywords -/

theorem idCont_ascii (X : Ora) (c : Char) (h : c.toNat < 128) : idCont X c = idContA c := by
  simp [idCont, h]
theorem idStart_ascii (X : Ora) (c : Char) (h : c.toNat < 128) : idStart X c = idStartA c := by
  simp [idStart, h]

/-- the rest begins with an ASCII character that cannot continue an identifier and is no quote -/
def IdEnd (rest : List Char) : Prop :=
  ∃ d r, rest = d :: r ∧ d.toNat < 128 ∧ idContA d = false ∧ d ≠ cSQ ∧ d ≠ cDQ

theorem lex_ident_run (X : Ora) (ctx : LCtx) : ∀ (w acc rest : List Char),
    (∀ c ∈ w, idCont X c = true) →
    lex X ctx (.ident acc) (w ++ rest) = lex X ctx (.ident (w.reverse ++ acc)) rest
  | [], acc, rest, _ => by simp
  | c :: w, acc, rest, h => by
    have hc := h c (by simp)
    have : lstep X ctx (.ident acc) c (w ++ rest) = .go ctx (.ident (c :: acc)) [] := by
      simp [lstep, hc]
    rw [List.cons_append, lex_go this, prepend_nil,
      lex_ident_run X ctx w (c :: acc) rest (fun d hd => h d (by simp [hd]))]
    simp

theorem lex_ident_end (X : Ora) (ctx : LCtx) (acc rest : List Char) (h : IdEnd rest) :
    lex X ctx (.ident acc) rest = prepend [identTok acc.reverse] (lex X ctx .mid rest) := by
  obtain ⟨d, r, rfl, hd, hc, h1, h2⟩ := h
  apply lex_thenMid
  simp [lstep, idCont_ascii X d hd, hc, h1, h2]

/-- a word: ASCII letter or `_`, then ASCII letters, digits, `_` -/
def isWord (w : List Char) : Bool :=
  match w with
  | [] => false
  | c :: r => idStartA c && r.all idContA && (c :: r).all (fun x => x.toNat < 128)

theorem idStartA_facts {c : Char} (h : idStartA c = true) :
    c ≠ ' ' ∧ c ≠ cLF ∧ c ≠ '#' ∧ c ≠ cSQ ∧ c ≠ cDQ ∧ isDigit c = false := by
  refine ⟨?_, ?_, ?_, ?_, ?_, ?_⟩
  · rintro rfl; exact absurd h (by decide)
  · rintro rfl; exact absurd h (by decide)
  · rintro rfl; exact absurd h (by decide)
  · rintro rfl; exact absurd h (by decide)
  · rintro rfl; exact absurd h (by decide)
  · simp only [idStartA, isAsciiLetter, isDigit, Bool.or_eq_true, Bool.and_eq_true, decide_eq_true_eq,
      beq_iff_eq] at h ⊢
    rcases h with (h | h) | h
    · simp; omega
    · simp; omega
    · subst h; decide

/-- a word for the oracle `X`: an identifier-start character, then identifier characters -/
def isWordX (X : Ora) (w : List Char) : Bool :=
  match w with
  | [] => false
  | c :: r => idStart X c && r.all (idCont X)

theorem isWordX_of_ascii (X : Ora) {w : List Char} (h : isWord w = true) : isWordX X w = true := by
  match w, h with
  | c :: r, h =>
    simp only [isWord, Bool.and_eq_true, List.all_eq_true, decide_eq_true_eq] at h
    obtain ⟨⟨hs, ht⟩, hall⟩ := h
    simp only [isWordX, Bool.and_eq_true, List.all_eq_true]
    refine ⟨by rw [idStart_ascii X c (hall c (by simp))]; exact hs, fun d hd => ?_⟩
    rw [idCont_ascii X d (hall d (by simp [hd]))]; exact ht d hd

theorem idStart_facts (X : Ora) {c : Char} (h : idStart X c = true) :
    c ≠ ' ' ∧ c ≠ cLF ∧ c ≠ '#' ∧ c ≠ cSQ ∧ c ≠ cDQ ∧ isDigit c = false ∧ c ≠ '=' := by
  by_cases hc : c.toNat < 128
  · rw [idStart_ascii X c hc] at h
    obtain ⟨f1, f2, f3, f4, f5, f6⟩ := idStartA_facts h
    exact ⟨f1, f2, f3, f4, f5, f6, by rintro rfl; exact absurd h (by decide)⟩
  · refine ⟨?_, ?_, ?_, ?_, ?_, ?_, ?_⟩
    · rintro rfl; exact hc (by decide)
    · rintro rfl; exact hc (by decide)
    · rintro rfl; exact hc (by decide)
    · rintro rfl; exact hc (by decide)
    · rintro rfl; exact hc (by decide)
    · simp only [isDigit, Bool.and_eq_false_iff, decide_eq_false_iff_not]; omega
    · rintro rfl; exact hc (by decide)

theorem lex_wordX (X : Ora) (ctx : LCtx) (w rest : List Char) (hw : isWordX X w = true) (hr : IdEnd rest) :
    lex X ctx .mid (w ++ rest) = prepend [identTok w] (lex X ctx .mid rest) := by
  match w, hw with
  | c :: t, hw =>
    simp only [isWordX, Bool.and_eq_true, List.all_eq_true] at hw
    obtain ⟨hs, ht⟩ := hw
    obtain ⟨f1, f2, f3, f4, f5, f6, _⟩ := idStart_facts X hs
    have h0 : lstep X ctx .mid c (t ++ rest) = .go ctx (.ident [c]) [] := by
      simp [lstep, midStep, f1, f2, f3, f4, f5, f6, hs]
    rw [List.cons_append, lex_go h0, prepend_nil, lex_ident_run X ctx t [c] rest ht,
      lex_ident_end X ctx _ rest hr]
    simp

theorem lex_word (X : Ora) (ctx : LCtx) (w rest : List Char) (hw : isWord w = true) (hr : IdEnd rest) :
    lex X ctx .mid (w ++ rest) = prepend [identTok w] (lex X ctx .mid rest) :=
  lex_wordX X ctx w rest (isWordX_of_ascii X hw) hr

/-! ### numbers -/

/-- the character ends a number in every phase in which a number may end -/
def numEndC (d : Char) : Bool :=
  [NumPhase.int0, .int, .frac, .expD].all (fun p => numNext p d == .fin)

def NumEnd (rest : List Char) : Prop := ∃ d r, rest = d :: r ∧ numEndC d = true

theorem numFinal_cases {p : NumPhase} (h : numFinal p = true) :
    p = .int0 ∨ p = .int ∨ p = .frac ∨ p = .expD := by
  cases p <;> simp [numFinal] at h ⊢

theorem lex_num_run (X : Ora) (ctx : LCtx) : ∀ (t : List Char) (p : NumPhase) (rest : List Char),
    numScan p t = true → NumEnd rest →
    lex X ctx (.num p) (t ++ rest) = prepend [.num] (lex X ctx .mid rest)
  | [], p, rest, h, hr => by
    obtain ⟨d, r, rfl, hd⟩ := hr
    simp only [numScan] at h
    have hfin : numNext p d = .fin := by
      simp only [numEndC, List.all_cons, List.all_nil, Bool.and_true, Bool.and_eq_true, beq_iff_eq] at hd
      rcases numFinal_cases h with rfl | rfl | rfl | rfl
      · exact hd.1
      · exact hd.2.1
      · exact hd.2.2.1
      · exact hd.2.2.2
    simp only [List.nil_append]
    apply lex_thenMid
    simp [lstep, hfin]
  | c :: t, p, rest, h, hr => by
    simp only [numScan] at h
    cases hn : numNext p c with
    | cont p' =>
      simp only [hn] at h
      have : lstep X ctx (.num p) c (t ++ rest) = .go ctx (.num p') [] := by simp [lstep, hn]
      rw [List.cons_append, lex_go this, prepend_nil, lex_num_run X ctx t p' rest h hr]
    | fin => simp [hn] at h
    | bad => simp [hn] at h

theorem isDigit_facts {c : Char} (h : isDigit c = true) :
    c ≠ ' ' ∧ c ≠ cLF ∧ c ≠ '#' ∧ c ≠ cSQ ∧ c ≠ cDQ := by
  refine ⟨?_, ?_, ?_, ?_, ?_⟩ <;> (rintro rfl; exact absurd h (by decide))

theorem lex_num (X : Ora) (ctx : LCtx) (t rest : List Char) (ht : isNumText t = true) (hr : NumEnd rest) :
    lex X ctx .mid (t ++ rest) = prepend [.num] (lex X ctx .mid rest) := by
  match t, ht with
  | c :: t', ht =>
    simp only [isNumText, Bool.and_eq_true] at ht
    obtain ⟨f1, f2, f3, f4, f5⟩ := isDigit_facts ht.1
    have h0 : lstep X ctx .mid c (t' ++ rest) = .go ctx (.num (numStart c)) [] := by
      simp [lstep, midStep, f1, f2, f3, f4, f5, ht.1]
    rw [List.cons_append, lex_go h0, prepend_nil, lex_num_run X ctx t' _ rest ht.2 hr]

/-! ### string literals -/

/-- an ordinary character of a short literal opened with `q` -/
def plainIn (q d : Char) : Prop := d ≠ cBS ∧ d ≠ q ∧ d ≠ cLF

theorem str_plain_run (X : Ora) (ctx : LCtx) (q : Char) : ∀ (w acc rest : List Char),
    (∀ d ∈ w, plainIn q d) →
    lex X ctx (.str q false false acc) (w ++ rest) = lex X ctx (.str q false false (w.reverse ++ acc)) rest
  | [], acc, rest, _ => by simp
  | d :: w, acc, rest, h => by
    obtain ⟨h1, h2, h3⟩ := h d (by simp)
    have : lstep X ctx (.str q false false acc) d (w ++ rest) = .go ctx (.str q false false (d :: acc)) [] := by
      simp [lstep, h1, h2, h3]
    rw [List.cons_append, lex_go this, prepend_nil,
      str_plain_run X ctx q w (d :: acc) rest (fun e he => h e (by simp [he]))]
    simp

/-- backslash + any character -/
theorem str_esc2 (X : Ora) (ctx : LCtx) (q : Char) (hq : q ≠ cBS) (e : Char) (acc rest : List Char) :
    lex X ctx (.str q false false acc) (cBS :: e :: rest)
      = lex X ctx (.str q false false (e :: cBS :: acc)) rest := by
  have h1 : lstep X ctx (.str q false false acc) cBS (e :: rest) = .go ctx (.str q false true (cBS :: acc)) [] := by
    simp [lstep]
  have h2 : lstep X ctx (.str q false true (cBS :: acc)) e rest = .go ctx (.str q false false (e :: cBS :: acc)) [] := by
    simp [lstep]
  rw [lex_go h1, prepend_nil, lex_go h2, prepend_nil]

theorem hexDigit_plain : ∀ k, k < 16 → ∀ q, (q = cSQ ∨ q = cDQ) → plainIn q (hexDigit k) := by
  have h : ∀ k, k < 16 → hexDigit k ≠ cBS ∧ hexDigit k ≠ cSQ ∧ hexDigit k ≠ cDQ ∧ hexDigit k ≠ cLF := by decide
  intro k hk q hq
  obtain ⟨a, b, c, d⟩ := h k hk
  rcases hq with rfl | rfl
  · exact ⟨a, b, d⟩
  · exact ⟨a, c, d⟩

theorem hex2_plain (n : Nat) (q : Char) (hq : q = cSQ ∨ q = cDQ) : ∀ d ∈ hex2 n, plainIn q d := by
  intro d hd
  simp only [hex2, List.mem_cons, List.not_mem_nil, or_false] at hd
  rcases hd with rfl | rfl
  · exact hexDigit_plain _ (Nat.mod_lt _ (by decide)) q hq
  · exact hexDigit_plain _ (Nat.mod_lt _ (by decide)) q hq
theorem hex4_plain (n : Nat) (q : Char) (hq : q = cSQ ∨ q = cDQ) : ∀ d ∈ hex4 n, plainIn q d := by
  intro d hd
  simp only [hex4, List.mem_append] at hd
  rcases hd with hd | hd <;> exact hex2_plain _ q hq d hd
theorem hex8_plain (n : Nat) (q : Char) (hq : q = cSQ ∨ q = cDQ) : ∀ d ∈ hex8 n, plainIn q d := by
  intro d hd
  simp only [hex8, List.mem_append] at hd
  rcases hd with hd | hd <;> exact hex4_plain _ q hq d hd

theorem q_ne_bs' {q : Char} (hq : q = cSQ ∨ q = cDQ) : q ≠ cBS := by
  rcases hq with rfl | rfl <;> decide

theorem lex_reprChar (X : Ora) (ctx : LCtx) (pr : Char → Bool) (q : Char) (hq : q = cSQ ∨ q = cDQ) (c : Char)
    (acc rest : List Char) :
    lex X ctx (.str q false false acc) (reprChar pr q c ++ rest)
      = lex X ctx (.str q false false ((reprChar pr q c).reverse ++ acc)) rest := by
  have hqb := q_ne_bs' hq
  have esc : ∀ (e : Char) (w : List Char), (∀ d ∈ w, plainIn q d) →
      lex X ctx (.str q false false acc) ((cBS :: e :: w) ++ rest)
        = lex X ctx (.str q false false ((cBS :: e :: w).reverse ++ acc)) rest := by
    intro e w hw
    rw [List.cons_append, List.cons_append, str_esc2 X ctx q hqb, str_plain_run X ctx q w _ rest hw]
    simp
  unfold reprChar
  simp only []
  split
  · exact esc c [] (by simp)
  · rename_i h1
    have hcq : c ≠ q := fun h => h1 (Or.inl h)
    have hcb : c ≠ cBS := fun h => h1 (Or.inr h)
    split
    · exact esc 't' [] (by simp)
    · split
      · exact esc 'n' [] (by simp)
      · rename_i hn10
        have hlf : c ≠ cLF := by
          intro h; apply hn10; rw [h]; decide
        split
        · exact esc 'r' [] (by simp)
        · split
          · exact esc 'x' (hex2 c.toNat) (hex2_plain _ q hq)
          · split
            · exact str_plain_run X ctx q [c] acc rest (by simpa using ⟨hcb, hcq, hlf⟩)
            · split
              · exact str_plain_run X ctx q [c] acc rest (by simpa using ⟨hcb, hcq, hlf⟩)
              · split
                · exact esc 'x' (hex2 c.toNat) (hex2_plain _ q hq)
                · split
                  · exact esc 'u' (hex4 c.toNat) (hex4_plain _ q hq)
                  · exact esc 'U' (hex8 c.toNat) (hex8_plain _ q hq)

theorem lex_reprBody (X : Ora) (ctx : LCtx) (pr : Char → Bool) (q : Char) (hq : q = cSQ ∨ q = cDQ) :
    ∀ (cs acc rest : List Char),
    lex X ctx (.str q false false acc) (reprBody pr q cs ++ rest)
      = lex X ctx (.str q false false ((reprBody pr q cs).reverse ++ acc)) rest
  | [], acc, rest => by simp [reprBody]
  | c :: cs, acc, rest => by
    simp only [reprBody, List.append_assoc]
    rw [lex_reprChar X ctx pr q hq, lex_reprBody X ctx pr q hq cs]
    simp

/-- the rest does not begin with a quote -/
def NoQuote (rest : List Char) : Prop := ∀ r, rest ≠ cSQ :: r ∧ rest ≠ cDQ :: r

/-- `repr(s)` followed by anything that is not a quote is one string token -/
theorem lex_str (X : Ora) (ctx : LCtx) (pr : Char → Bool) (cs rest : List Char) (hr : NoQuote rest) :
    lex X ctx .mid (pyReprL pr cs ++ rest) = prepend [.str] (lex X ctx .mid rest) := by
  have hq : reprQuote cs = cSQ ∨ reprQuote cs = cDQ := by
    unfold reprQuote; split <;> simp
  have hlit := lexSrc_pyReprL pr cs
  simp only [pyReprL] at hlit ⊢
  generalize reprQuote cs = q at hq hlit ⊢
  -- the two characters after the opening quote are not both quotes
  have hopen : ((reprBody pr q cs ++ [q] ++ rest).take 2 == [q, q]) = false := by
    cases cs with
    | nil =>
      cases rest with
      | nil => simp [reprBody]
      | cons d r =>
        have hd : d ≠ q := by
          intro e; subst e
          rcases hq with rfl | rfl
          · exact (hr r).1 rfl
          · exact (hr r).2 rfl
        simp [reprBody, hd]
    | cons c cs' =>
      obtain ⟨h, t, e, hh⟩ := reprChar_head pr q c
      have hne : h ≠ q := by
        rcases hh with rfl | ⟨rfl, hcq⟩
        · exact (q_ne_bs' hq).symm
        · exact hcq
      simp [reprBody, e, hne]
  have hstart : lstep X ctx .mid q (reprBody pr q cs ++ [q] ++ rest)
      = .go ctx (.str q false false [q]) [] := by
    have ho : ¬ (List.take 2 (reprBody pr q cs ++ q :: rest) = [q, q]) := by
      simpa using hopen
    rcases hq with rfl | rfl
    · simp only [cSQ] at ho
      simp [lstep, midStep, cSQ, cDQ, cLF, ho]
    · simp only [cDQ] at ho
      simp [lstep, midStep, cSQ, cDQ, cLF, ho]
  have hend : lstep X ctx (.str q false false ((reprBody pr q cs).reverse ++ [q])) q rest
      = .go ctx .mid [.str] := by
    have hb := q_ne_bs' hq
    have : ((q :: ((reprBody pr q cs).reverse ++ [q])).reverse) = q :: (reprBody pr q cs ++ [q]) := by simp
    simp [lstep, hb, finishStr, this, hlit]
  have e1 : q :: (reprBody pr q cs ++ [q]) ++ rest = q :: (reprBody pr q cs ++ [q] ++ rest) := by simp
  rw [e1, lex_go hstart, prepend_nil]
  have e2 : reprBody pr q cs ++ [q] ++ rest = reprBody pr q cs ++ (q :: rest) := by simp
  rw [e2, lex_reprBody X ctx pr q hq cs [q] (q :: rest), lex_go hend]

theorem prepend_prepend (a b : List Tok) (x : TokRes) : prepend a (prepend b x) = prepend (a ++ b) x :=
  (prepend_append a b x).symm

/-! ### delimiters after an expression -/

def isDelim (c : Char) : Bool := c == ',' || c == ')' || c == ']' || c == '}' || c == cLF || c == ':'
def DelimHead (rest : List Char) : Prop := ∃ d r, rest = d :: r ∧ isDelim d = true

theorem delim_cases {d : Char} (h : isDelim d = true) :
    d = ',' ∨ d = ')' ∨ d = ']' ∨ d = '}' ∨ d = cLF ∨ d = ':' := by
  simp only [isDelim, Bool.or_eq_true, beq_iff_eq] at h
  rcases h with ((((h | h) | h) | h) | h) | h <;> simp [h]

theorem DelimHead.idEnd {rest : List Char} (h : DelimHead rest) : IdEnd rest := by
  obtain ⟨d, r, rfl, hd⟩ := h
  refine ⟨d, r, rfl, ?_⟩
  rcases delim_cases hd with rfl | rfl | rfl | rfl | rfl | rfl <;> decide

theorem DelimHead.numEnd {rest : List Char} (h : DelimHead rest) : NumEnd rest := by
  obtain ⟨d, r, rfl, hd⟩ := h
  refine ⟨d, r, rfl, ?_⟩
  rcases delim_cases hd with rfl | rfl | rfl | rfl | rfl | rfl <;> decide

theorem DelimHead.noQuote {rest : List Char} (h : DelimHead rest) : NoQuote rest := by
  obtain ⟨d, r, rfl, hd⟩ := h
  intro r'
  rcases delim_cases hd with rfl | rfl | rfl | rfl | rfl | rfl <;> simp [cSQ, cDQ, cLF]

theorem delimHead_cons (d : Char) (r : List Char) (h : isDelim d = true) : DelimHead (d :: r) := ⟨d, r, rfl, h⟩

/-! ### operators and brackets -/

theorem lex_open (X : Ora) (d : Nat) (ind : List Nat) (c : Char) (hc : c = '(' ∨ c = '[' ∨ c = '{')
    (r : List Char) :
    lex X ⟨d, ind⟩ .mid (c :: r) = prepend [.op c] (lex X ⟨d + 1, ind⟩ .mid r) := by
  apply lex_go
  rcases hc with rfl | rfl | rfl <;> simp [lstep, midStep, cLF, cSQ, cDQ, isDigit, idStart, idStartA, isAsciiLetter]

theorem lex_close (X : Ora) (d : Nat) (ind : List Nat) (c : Char) (hc : c = ')' ∨ c = ']' ∨ c = '}')
    (r : List Char) :
    lex X ⟨d + 1, ind⟩ .mid (c :: r) = prepend [.op c] (lex X ⟨d, ind⟩ .mid r) := by
  apply lex_go
  rcases hc with rfl | rfl | rfl <;> simp [lstep, midStep, cLF, cSQ, cDQ, isDigit, idStart, idStartA, isAsciiLetter]

theorem lex_space (X : Ora) (ctx : LCtx) (r : List Char) :
    lex X ctx .mid (' ' :: r) = lex X ctx .mid r := by
  have : lstep X ctx .mid ' ' r = .go ctx .mid [] := by simp [lstep, midStep]
  rw [lex_go this, prepend_nil]

/-- `,` / `:` followed by a space -/
theorem lex_sep (X : Ora) (ctx : LCtx) (c : Char) (hc : c = ',' ∨ c = ':') (r : List Char) :
    lex X ctx .mid (c :: ' ' :: r) = prepend [.op c] (lex X ctx .mid r) := by
  have : lstep X ctx .mid c (' ' :: r) = .go ctx .mid [.op c] := by
    rcases hc with rfl | rfl <;>
      simp [lstep, midStep, cLF, cSQ, cDQ, isDigit, idStart, idStartA, isAsciiLetter, opChars]
  rw [lex_go this, lex_space]

/-- `=` followed by something that is not `=` -/
theorem lex_eq (X : Ora) (ctx : LCtx) (c : Char) (r : List Char) (hc : c ≠ '=') :
    lex X ctx .mid ('=' :: c :: r) = prepend [.op '='] (lex X ctx .mid (c :: r)) := by
  apply lex_go
  simp [lstep, midStep, cLF, cSQ, cDQ, isDigit, idStart, idStartA, isAsciiLetter, opChars, hc]


/-! ### expressions -/

theorem identOk_word (X : Ora) {n : List Char} (h : identOk X n = true) :
    isWordX X n = true ∧ identTok n = .name n := by
  match n, h with
  | c :: r, h =>
    simp only [identOk, Bool.and_eq_true, Bool.not_eq_true'] at h
    refine ⟨by simp [isWordX, h.1.1, h.1.2], by simp only [identTok, h.2, Bool.false_eq_true, if_false]⟩

theorem constKw_word {w : List Char} (h : constKw w = true) (hk : keywords.contains w = true) :
    isWord w = true ∧ identTok w = .kw w := by
  refine ⟨?_, by simp only [identTok, hk, if_true]⟩
  simp only [constKw, Bool.or_eq_true, beq_iff_eq] at h
  rcases h with (h | h) | h <;> subst h <;> decide

/-- the printed expression starts with a character that is not `=` -/
theorem render_head (X : Ora) (pr : Char → Bool) (e : PyExpr) (h : wf X e = true) (x : List Char) :
    ∃ c t, render pr e ++ x = c :: t ∧ c ≠ '=' := by
  have word : ∀ w : List Char, isWordX X w = true → ∃ c t, w ++ x = c :: t ∧ c ≠ '=' := by
    intro w hw
    match w, hw with
    | c :: r, hw =>
      simp only [isWordX, Bool.and_eq_true] at hw
      exact ⟨c, r ++ x, rfl, (idStart_facts X hw.1).2.2.2.2.2.2⟩
  cases e with
  | name n => exact word n (identOk_word X (by simpa [wf] using h)).1
  | const w =>
    simp only [wf, Bool.and_eq_true] at h
    exact word w (isWordX_of_ascii X (constKw_word h.1 h.2).1)
  | num t =>
    simp only [wf] at h
    match t, h with
    | c :: r, h =>
      simp only [isNumText, Bool.and_eq_true] at h
      refine ⟨c, r ++ x, rfl, ?_⟩
      rintro rfl
      exact absurd h.1 (by decide)
  | negNum t => exact ⟨'-', t ++ x, rfl, by decide⟩
  | strLit cs =>
    refine ⟨reprQuote cs, _, rfl, ?_⟩
    unfold reprQuote; split <;> decide
  | call f kws =>
    simp only [wf, Bool.and_eq_true] at h
    obtain ⟨c, t, e, hc⟩ := word f (identOk_word X h.1.1).1
    match f, e with
    | c' :: f', e =>
      simp only [List.cons_append, List.cons.injEq] at e
      exact ⟨c', _, rfl, e.1 ▸ hc⟩
  | list xs => exact ⟨'[', _, rfl, by decide⟩
  | dict kvs => exact ⟨'{', _, rfl, by decide⟩
  | lam b => exact ⟨'l', _, rfl, by decide⟩
  | bad => simp [wf] at h

theorem delimHead_renderL (pr : Char → Bool) (xs : List PyExpr) (rest : List Char) :
    DelimHead (renderL pr false xs ++ ']' :: rest) := by
  cases xs with
  | nil => exact ⟨']', rest, rfl, by decide⟩
  | cons x xs =>
    refine ⟨',', ' ' :: (render pr x ++ renderL pr false xs ++ ']' :: rest), ?_, by decide⟩
    simp [renderL, sep]
theorem delimHead_renderKws (pr : Char → Bool) (kws : List (List Char × PyExpr)) (rest : List Char) :
    DelimHead (renderKws pr false kws ++ ')' :: rest) := by
  cases kws with
  | nil => exact ⟨')', rest, rfl, by decide⟩
  | cons x xs =>
    obtain ⟨k, v⟩ := x
    refine ⟨',', ' ' :: (k ++ '=' :: (render pr v ++ renderKws pr false xs) ++ ')' :: rest), ?_, by decide⟩
    simp [renderKws, sep]
theorem delimHead_renderKVs (pr : Char → Bool) (kvs : List (PyExpr × PyExpr)) (rest : List Char) :
    DelimHead (renderKVs pr false kvs ++ '}' :: rest) := by
  cases kvs with
  | nil => exact ⟨'}', rest, rfl, by decide⟩
  | cons x xs =>
    obtain ⟨k, v⟩ := x
    refine ⟨',', ' ' :: (render pr k ++ ':' :: ' ' :: (render pr v ++ renderKVs pr false xs) ++ '}' :: rest), ?_, by decide⟩
    simp [renderKVs, sep]

mutual
theorem lex_expr (X : Ora) (pr : Char → Bool) : ∀ (e : PyExpr), wf X e = true →
    ∀ (d : Nat) (ind : List Nat) (rest : List Char), DelimHead rest →
    lex X ⟨d, ind⟩ .mid (render pr e ++ rest) = prepend (toks e) (lex X ⟨d, ind⟩ .mid rest)
  | .name n, h, d, ind, rest, hr => by
    obtain ⟨hw, ht⟩ := identOk_word X (by simpa [wf] using h)
    simp only [render, toks]
    rw [lex_wordX X _ n rest hw hr.idEnd, ht]
  | .const w, h, d, ind, rest, hr => by
    simp only [wf, Bool.and_eq_true] at h
    obtain ⟨hw, ht⟩ := constKw_word h.1 h.2
    simp only [render, toks]
    rw [lex_word X _ w rest hw hr.idEnd, ht]
  | .num t, h, d, ind, rest, hr => by
    simp only [wf] at h
    simp only [render, toks]
    rw [lex_num X _ t rest h hr.numEnd]
  | .negNum t, h, d, ind, rest, hr => by
    simp only [wf] at h
    simp only [render, toks, List.cons_append]
    match t, h with
    | c :: t', h =>
      have hc : isDigit c = true := by
        simp only [isNumText, Bool.and_eq_true] at h; exact h.1
      have h0 : lstep X ⟨d, ind⟩ .mid '-' (c :: t' ++ rest) = .go ⟨d, ind⟩ .mid [.op '-'] := by
        have h1 : c ≠ '=' := by rintro rfl; exact absurd hc (by decide)
        have h2 : c ≠ '>' := by rintro rfl; exact absurd hc (by decide)
        simp [lstep, midStep, cLF, cSQ, cDQ, isDigit, idStart, idStartA, isAsciiLetter, opChars, h1, h2]
      rw [lex_go h0, lex_num X _ (c :: t') rest h hr.numEnd]
      simp [prepend_prepend]
  | .strLit cs, _, d, ind, rest, hr => by
    simp only [render, toks]
    rw [lex_str X _ pr cs rest hr.noQuote]
  | .call f kws, h, d, ind, rest, hr => by
    simp only [wf, Bool.and_eq_true] at h
    obtain ⟨hw, ht⟩ := identOk_word X h.1.1
    simp only [render, toks, List.append_assoc, List.cons_append, List.nil_append]
    rw [lex_wordX X _ f _ hw ⟨'(', _, rfl, by decide⟩, ht, lex_open X d ind '(' (Or.inl rfl),
      lex_kws X pr kws h.2 true d ind rest]
    simp [prepend_prepend]
  | .list xs, h, d, ind, rest, hr => by
    simp only [wf] at h
    simp only [render, toks, List.append_assoc, List.cons_append, List.nil_append]
    rw [lex_open X d ind '[' (Or.inr (Or.inl rfl)),
      lex_list X pr xs h true d ind rest]
    simp [prepend_prepend]
  | .dict kvs, h, d, ind, rest, hr => by
    simp only [wf] at h
    simp only [render, toks, List.append_assoc, List.cons_append, List.nil_append]
    rw [lex_open X d ind '{' (Or.inr (Or.inr rfl)),
      lex_kvs X pr kvs h true d ind rest]
    simp [prepend_prepend]
  | .lam b, h, d, ind, rest, hr => by
    simp only [wf] at h
    simp only [render, toks, List.append_assoc, List.cons_append, List.nil_append]
    rw [lex_word X _ kwLambda _ (by decide) ⟨':', _, rfl, by decide⟩, lex_sep X _ ':' (Or.inr rfl),
      lex_expr X pr b h d ind rest hr]
    have : identTok kwLambda = .kw kwLambda := by decide
    simp [this, prepend_prepend]
  | .bad, h, _, _, _, _ => by simp [wf] at h
theorem lex_list (X : Ora) (pr : Char → Bool) : ∀ (xs : List PyExpr), wfL X xs = true →
    ∀ (first : Bool) (d : Nat) (ind : List Nat) (rest : List Char),
    lex X ⟨d + 1, ind⟩ .mid (renderL pr first xs ++ ']' :: rest)
      = prepend (toksL first xs ++ [.op ']']) (lex X ⟨d, ind⟩ .mid rest)
  | [], _, first, d, ind, rest => by
    simp only [renderL, toksL, List.nil_append]
    rw [lex_close X d ind ']' (Or.inr (Or.inl rfl))]
  | x :: xs, h, first, d, ind, rest => by
    simp only [wfL, Bool.and_eq_true] at h
    have e1 := lex_expr X pr x h.1 (d + 1) ind _ (delimHead_renderL pr xs rest)
    have e2 := lex_list X pr xs h.2 false d ind rest
    cases first
    · simp only [renderL, toksL, sep, Bool.false_eq_true, if_false, List.append_assoc, List.cons_append,
        List.nil_append]
      rw [lex_sep X _ ',' (Or.inl rfl), e1, e2]
      simp [prepend_prepend]
    · simp only [renderL, toksL, if_true, List.append_assoc, List.nil_append]
      rw [e1, e2]
      simp [prepend_prepend]
theorem lex_kws (X : Ora) (pr : Char → Bool) : ∀ (kws : List (List Char × PyExpr)), wfKws X kws = true →
    ∀ (first : Bool) (d : Nat) (ind : List Nat) (rest : List Char),
    lex X ⟨d + 1, ind⟩ .mid (renderKws pr first kws ++ ')' :: rest)
      = prepend (toksKws first kws ++ [.op ')']) (lex X ⟨d, ind⟩ .mid rest)
  | [], _, first, d, ind, rest => by
    simp only [renderKws, toksKws, List.nil_append]
    rw [lex_close X d ind ')' (Or.inl rfl)]
  | (k, v) :: r, h, first, d, ind, rest => by
    simp only [wfKws, Bool.and_eq_true] at h
    have hk : identOk X k = true := by
      have := h.1.1; simp only [targetName, Bool.and_eq_true] at this; exact this.1
    obtain ⟨hw, ht⟩ := identOk_word X hk
    obtain ⟨c, t, ec, hc⟩ := render_head X pr v h.1.2 (renderKws pr false r ++ ')' :: rest)
    have e1 := lex_expr X pr v h.1.2 (d + 1) ind _ (delimHead_renderKws pr r rest)
    have e2 := lex_kws X pr r h.2 false d ind rest
    have key : lex X ⟨d + 1, ind⟩ .mid (k ++ '=' :: (render pr v ++ (renderKws pr false r ++ ')' :: rest)))
        = prepend (.name k :: .op '=' :: (toks v ++ (toksKws false r ++ [.op ')']))) (lex X ⟨d, ind⟩ .mid rest) := by
      rw [lex_wordX X _ k _ hw ⟨'=', _, rfl, by decide⟩, ht, ec, lex_eq X _ c t hc, ← ec, e1, e2]
      simp [prepend_prepend]
    cases first
    · simp only [renderKws, toksKws, sep, Bool.false_eq_true, if_false, List.append_assoc, List.cons_append,
        List.nil_append]
      rw [lex_sep X _ ',' (Or.inl rfl), key]
      simp [prepend_prepend]
    · simp only [renderKws, toksKws, if_true, List.append_assoc, List.nil_append, List.cons_append]
      rw [key]
theorem lex_kvs (X : Ora) (pr : Char → Bool) : ∀ (kvs : List (PyExpr × PyExpr)), wfKVs X kvs = true →
    ∀ (first : Bool) (d : Nat) (ind : List Nat) (rest : List Char),
    lex X ⟨d + 1, ind⟩ .mid (renderKVs pr first kvs ++ '}' :: rest)
      = prepend (toksKVs first kvs ++ [.op '}']) (lex X ⟨d, ind⟩ .mid rest)
  | [], _, first, d, ind, rest => by
    simp only [renderKVs, toksKVs, List.nil_append]
    rw [lex_close X d ind '}' (Or.inr (Or.inr rfl))]
  | (k, v) :: r, h, first, d, ind, rest => by
    simp only [wfKVs, Bool.and_eq_true] at h
    have e0 := lex_expr X pr k h.1.1 (d + 1) ind (':' :: ' ' :: (render pr v ++ (renderKVs pr false r ++ '}' :: rest)))
      ⟨':', _, rfl, by decide⟩
    have e1 := lex_expr X pr v h.1.2 (d + 1) ind _ (delimHead_renderKVs pr r rest)
    have e2 := lex_kvs X pr r h.2 false d ind rest
    have key : lex X ⟨d + 1, ind⟩ .mid (render pr k ++ ':' :: ' ' :: (render pr v ++ (renderKVs pr false r ++ '}' :: rest)))
        = prepend (toks k ++ .op ':' :: (toks v ++ (toksKVs false r ++ [.op '}']))) (lex X ⟨d, ind⟩ .mid rest) := by
      rw [e0, lex_sep X _ ':' (Or.inr rfl), e1, e2]
      simp [prepend_prepend]
    cases first
    · simp only [renderKVs, toksKVs, sep, Bool.false_eq_true, if_false, List.append_assoc, List.cons_append,
        List.nil_append]
      rw [lex_sep X _ ',' (Or.inl rfl), key]
      simp [prepend_prepend]
    · simp only [renderKVs, toksKVs, if_true, List.append_assoc, List.nil_append, List.cons_append]
      rw [key]
end

/-! ### the docstring literal -/

/-- long literal: an ordinary character (anything but backslash and the quote) -/
theorem long_plain (X : Ora) (ctx : LCtx) (c : Char) (h1 : c ≠ cBS) (h2 : c ≠ cDQ) (acc rest : List Char) :
    lex X ctx (.str cDQ true false acc) (c :: rest) = lex X ctx (.str cDQ true false (c :: acc)) rest := by
  have : lstep X ctx (.str cDQ true false acc) c rest = .go ctx (.str cDQ true false (c :: acc)) [] := by
    simp [lstep, h1, h2]
  rw [lex_go this, prepend_nil]

theorem long_esc2 (X : Ora) (ctx : LCtx) (e : Char) (acc rest : List Char) :
    lex X ctx (.str cDQ true false acc) (cBS :: e :: rest)
      = lex X ctx (.str cDQ true false (e :: cBS :: acc)) rest := by
  have h1 : lstep X ctx (.str cDQ true false acc) cBS (e :: rest) = .go ctx (.str cDQ true true (cBS :: acc)) [] := by
    simp [lstep]
  have h2 : lstep X ctx (.str cDQ true true (cBS :: acc)) e rest = .go ctx (.str cDQ true false (e :: cBS :: acc)) [] := by
    simp [lstep]
  rw [lex_go h1, prepend_nil, lex_go h2, prepend_nil]

/-- a quote that does not start the closing delimiter -/
theorem long_quote (X : Ora) (ctx : LCtx) (acc rest : List Char) (h : ¬ (rest.take 2 = [cDQ, cDQ])) :
    lex X ctx (.str cDQ true false acc) (cDQ :: rest) = lex X ctx (.str cDQ true false (cDQ :: acc)) rest := by
  have : lstep X ctx (.str cDQ true false acc) cDQ rest = .go ctx (.str cDQ true false (cDQ :: acc)) [] := by
    have hb : cDQ ≠ cBS := by decide
    simp [lstep, hb, h]
  rw [lex_go this, prepend_nil]

theorem lex_docEsc (X : Ora) (ctx : LCtx) (t : List Char) (ht : ∀ c r, t = c :: r → c ≠ cDQ) :
    ∀ (d : List Char) (k : Nat) (acc : List Char),
    lex X ctx (.str cDQ true false acc) (docEsc k d ++ t)
      = lex X ctx (.str cDQ true false ((docEsc k d).reverse ++ acc)) t := by
  intro d
  induction d with
  | nil => intro k acc; simp [docEsc]
  | cons c r ih =>
    intro k acc
    by_cases hc : c = cDQ
    · subst hc
      by_cases hk : 0 < k
      · simp only [docEsc, if_true, hk, List.cons_append]
        rw [long_esc2, ih]; simp
      · cases h3 : (r.take 2 == [cDQ, cDQ]) with
        | true =>
          simp only [docEsc, if_true, hk, if_false, h3, List.cons_append]
          rw [long_esc2, ih]; simp
        | false =>
          simp only [docEsc, if_true, hk, if_false, h3, Bool.false_eq_true, List.cons_append]
          have hno : ¬ ((docEsc 0 r ++ t).take 2 = [cDQ, cDQ]) := by
            intro hcon
            have := docEsc_take2 r t ht hcon
            simp [this] at h3
          rw [long_quote X ctx _ _ hno, ih]; simp
    · by_cases hb : c = cBS
      · subst hb
        simp only [docEsc, hc, if_false, if_true, List.cons_append]
        rw [long_esc2, ih]; simp
      · by_cases hr : c = cCR
        · subst hr
          simp only [docEsc, hc, hb, if_false, if_true, List.cons_append]
          rw [long_esc2, ih]; simp
        · by_cases hn : c = cNUL
          · subst hn
            simp only [docEsc, hc, hb, hr, if_false, if_true, List.cons_append]
            rw [long_esc2, long_plain X ctx '0' (by decide) (by decide),
              long_plain X ctx '0' (by decide) (by decide), ih]; simp
          · simp only [docEsc, hc, hb, hr, hn, if_false, List.cons_append]
            rw [long_plain X ctx c hb hc, ih]; simp

def docTail (d rest : List Char) : List Char :=
  cDQ :: cDQ :: cLF :: ' ' :: ' ' :: ' ' :: ' ' :: (docEsc 0 d ++ ([cLF] ++ indent4 ++ [cDQ, cDQ, cDQ] ++ rest))

theorem docWrapL_eq (d rest : List Char) : docWrapL d ++ rest = cDQ :: docTail d rest := by
  simp [docWrapL, indent4, docTail]

/-- after the first quote of the docstring literal -/
theorem lex_doc_body (X : Ora) (ctx : LCtx) (d rest : List Char) :
    lex X ctx (.strOpen 2 [cDQ]) (docTail d rest) = prepend [.str] (lex X ctx .mid rest) := by
  have hlit := lexSrc_docWrapL d
  have ht : ∀ c r, ([cLF] ++ indent4 ++ [cDQ, cDQ, cDQ] ++ rest) = c :: r → c ≠ cDQ := by
    intro c r h; simp at h; rw [← h.1]; decide
  have h1 : ∀ r, lstep X ctx (.strOpen 2 [cDQ]) cDQ r = .go ctx (.strOpen 1 [cDQ, cDQ]) [] := by
    intro r; simp [lstep]
  have h2 : ∀ r, lstep X ctx (.strOpen 1 [cDQ, cDQ]) cDQ r = .go ctx (.str cDQ true false [cDQ, cDQ, cDQ]) [] := by
    intro r; simp [lstep]
  rw [docTail, lex_go (h1 _), prepend_nil, lex_go (h2 _), prepend_nil]
  rw [long_plain X ctx cLF (by decide) (by decide), long_plain X ctx ' ' (by decide) (by decide),
    long_plain X ctx ' ' (by decide) (by decide), long_plain X ctx ' ' (by decide) (by decide),
    long_plain X ctx ' ' (by decide) (by decide), lex_docEsc X ctx _ ht d 0]
  -- the tail: newline, indentation, closing delimiter
  simp only [indent4, List.cons_append, List.nil_append, List.append_assoc]
  rw [long_plain X ctx cLF (by decide) (by decide), long_plain X ctx ' ' (by decide) (by decide),
    long_plain X ctx ' ' (by decide) (by decide), long_plain X ctx ' ' (by decide) (by decide),
    long_plain X ctx ' ' (by decide) (by decide)]
  have hb : cDQ ≠ cBS := by decide
  have c0 : ∀ acc, lstep X ctx (.str cDQ true false acc) cDQ (cDQ :: cDQ :: rest) = .go ctx (.strClose 2 (cDQ :: acc)) [] := by
    intro acc; simp [lstep, hb]
  have c1 : ∀ acc r, lstep X ctx (.strClose 2 acc) cDQ r = .go ctx (.strClose 1 (cDQ :: acc)) [] := by
    intro acc r; simp [lstep]
  rw [lex_go (c0 _), prepend_nil, lex_go (c1 _ _), prepend_nil]
  apply lex_go
  simp only [lstep, Nat.le_refl, if_true, finishStr]
  have : (cDQ :: cDQ :: cDQ :: ' ' :: ' ' :: ' ' :: ' ' :: cLF ::
      ((docEsc 0 d).reverse ++ [' ', ' ', ' ', ' ', cLF, cDQ, cDQ, cDQ])).reverse = docWrapL d := by
    simp [docWrapL, indent4]
  rw [this, hlit]

theorem docTail_take2 (d rest : List Char) : (docTail d rest).take 2 = [cDQ, cDQ] := by simp [docTail]

/-! ### lines: indentation, line ends, blank and comment lines -/

theorem bol_space (X : Ora) (ctx : LCtx) (n : Nat) (r : List Char) :
    lex X ctx (.bol n) (' ' :: r) = lex X ctx (.bol (n + 1)) r := by
  have : lstep X ctx (.bol n) ' ' r = .go ctx (.bol (n + 1)) [] := by simp [lstep]
  rw [lex_go this, prepend_nil]

theorem bol_indent4 (X : Ora) (ctx : LCtx) (r : List Char) :
    lex X ctx (.bol 0) (indent4 ++ r) = lex X ctx (.bol 4) r := by
  simp only [indent4, List.cons_append, List.nil_append]
  rw [bol_space, bol_space, bol_space, bol_space]

theorem bol_blank (X : Ora) (ctx : LCtx) (n : Nat) (r : List Char) :
    lex X ctx (.bol n) (cLF :: r) = lex X ctx (.bol 0) r := by
  have : lstep X ctx (.bol n) cLF r = .go ctx (.bol 0) [] := by simp [lstep, cLF]
  rw [lex_go this, prepend_nil]

theorem mid_newline (X : Ora) (ind : List Nat) (r : List Char) :
    lex X ⟨0, ind⟩ .mid (cLF :: r) = prepend [.newline] (lex X ⟨0, ind⟩ (.bol 0) r) := by
  apply lex_go
  simp [lstep, midStep, cLF]

theorem comment_run (X : Ora) (ctx : LCtx) : ∀ (w r : List Char), cLF ∉ w →
    lex X ctx .bolComment (w ++ cLF :: r) = lex X ctx (.bol 0) r
  | [], r, _ => by
    have : lstep X ctx .bolComment cLF r = .go ctx (.bol 0) [] := by simp [lstep]
    rw [List.nil_append, lex_go this, prepend_nil]
  | c :: w, r, h => by
    have hc : c ≠ cLF := fun e => h (by simp [e])
    have : lstep X ctx .bolComment c (w ++ cLF :: r) = .go ctx .bolComment [] := by simp [lstep, hc]
    rw [List.cons_append, lex_go this, prepend_nil, comment_run X ctx w r (fun hm => h (by simp [hm]))]

theorem bol_comment (X : Ora) (ctx : LCtx) (n : Nat) (w r : List Char) (h : cLF ∉ w) :
    lex X ctx (.bol n) ('#' :: w ++ cLF :: r) = lex X ctx (.bol 0) r := by
  have : lstep X ctx (.bol n) '#' (w ++ cLF :: r) = .go ctx .bolComment [] := by simp [lstep, cLF]
  rw [List.cons_append, lex_go this, prepend_nil, comment_run X ctx w r h]

/-- a word at the start of a line at column `n` -/
theorem bol_wordX (X : Ora) (ind ind' : List Nat) (n : Nat) (ts : List Tok) (hd : dent ind n = some (ind', ts))
    (w rest : List Char) (hw : isWordX X w = true) (hr : IdEnd rest) :
    lex X ⟨0, ind⟩ (.bol n) (w ++ rest) = prepend (ts ++ [identTok w]) (lex X ⟨0, ind'⟩ .mid rest) := by
  match w, hw with
  | c :: t, hw =>
    simp only [isWordX, Bool.and_eq_true, List.all_eq_true] at hw
    obtain ⟨hs, ht⟩ := hw
    obtain ⟨f1, f2, f3, f4, f5, f6, _⟩ := idStart_facts X hs
    have h0 : lstep X ⟨0, ind⟩ (.bol n) c (t ++ rest) = .go ⟨0, ind'⟩ (.ident [c]) ts := by
      simp [lstep, midStep, f1, f2, f3, f4, f5, f6, hs, hd]
    rw [List.cons_append, lex_go h0, lex_ident_run X _ t [c] rest ht,
      lex_ident_end X _ _ rest hr, prepend_prepend]
    simp

theorem bol_word (X : Ora) (ind ind' : List Nat) (n : Nat) (ts : List Tok) (hd : dent ind n = some (ind', ts))
    (w rest : List Char) (hw : isWord w = true) (hr : IdEnd rest) :
    lex X ⟨0, ind⟩ (.bol n) (w ++ rest) = prepend (ts ++ [identTok w]) (lex X ⟨0, ind'⟩ .mid rest) :=
  bol_wordX X ind ind' n ts hd w rest (isWordX_of_ascii X hw) hr

/-- the docstring literal at the start of a line at column `n` -/
theorem bol_doc (X : Ora) (ind ind' : List Nat) (n : Nat) (ts : List Tok) (hd : dent ind n = some (ind', ts))
    (d rest : List Char) :
    lex X ⟨0, ind⟩ (.bol n) (docWrapL d ++ rest) = prepend (ts ++ [.str]) (lex X ⟨0, ind'⟩ .mid rest) := by
  have h0 : lstep X ⟨0, ind⟩ (.bol n) cDQ (docTail d rest) = .go ⟨0, ind'⟩ (.strOpen 2 [cDQ]) ts := by
    have := docTail_take2 d rest
    simp [lstep, midStep, cDQ, cSQ, cLF, hd] at this ⊢
    simp [this]
  rw [docWrapL_eq, lex_go h0, lex_doc_body X _ d rest, prepend_prepend]

/-! ## class bodies and modules -/

def nonBlank : Item → Bool
  | .blank => false
  | _ => true

def wfItem (X : Ora) : Item → Bool
  | .doc _ => true
  | .ann n e => targetName X n && wf X e
  | .assign n e => targetName X n && wf X e
  | .blank => true
  | .pass => true

/-- tokens of the body lines; `opened`: the block's INDENT has been emitted -/
def itemsToks : Bool → List Item → List Tok
  | _, [] => []
  | opened, it :: r =>
    if nonBlank it then (if opened then [] else [.indent]) ++ (itemToks it ++ itemsToks true r)
    else itemsToks opened r

/-- the body as lines, each terminated by a line break -/
def renderLines (pr : Char → Bool) : List Item → List Char → List Char
  | [], rest => rest
  | it :: r, rest => renderItem pr it ++ cLF :: renderLines pr r rest

theorem renderItems_lines (pr : Char → Bool) : ∀ (items : List Item) (rest : List Char),
    renderItems pr items ++ cLF :: rest = cLF :: renderLines pr items rest
  | [], rest => by simp [renderItems, renderLines]
  | it :: r, rest => by
    simp only [renderItems, renderLines, List.cons_append, List.append_assoc]
    rw [renderItems_lines pr r rest]

def indOf (opened : Bool) : List Nat := if opened then [4] else []
def dentToks (opened : Bool) : List Tok := if opened then [] else [.indent]

theorem dent_item (opened : Bool) : dent (indOf opened) 4 = some ([4], dentToks opened) := by
  cases opened <;> decide

theorem idEnd_of (c : Char) (r : List Char) (h : c.toNat < 128 ∧ idContA c = false ∧ c ≠ cSQ ∧ c ≠ cDQ) :
    IdEnd (c :: r) := ⟨c, r, rfl, h.1, h.2.1, h.2.2.1, h.2.2.2⟩

theorem targetName_word (X : Ora) {n : List Char} (h : targetName X n = true) :
    isWordX X n = true ∧ identTok n = .name n := by
  simp only [targetName, Bool.and_eq_true] at h
  exact identOk_word X h.1

/-- one body line (with its line break) from the start of the line -/
theorem lex_item (X : Ora) (pr : Char → Bool) (it : Item) (h : wfItem X it = true) (opened : Bool)
    (r : List Char) :
    lex X ⟨0, indOf opened⟩ (.bol 0) (renderItem pr it ++ cLF :: r)
      = prepend (if nonBlank it then dentToks opened ++ itemToks it else [])
          (lex X ⟨0, indOf (opened || nonBlank it)⟩ (.bol 0) r) := by
  have hd := dent_item opened
  cases it with
  | blank =>
    simp only [renderItem, nonBlank, List.nil_append, Bool.or_false, Bool.false_eq_true, if_false]
    rw [bol_blank, prepend_nil]
  | pass =>
    simp only [renderItem, nonBlank, itemToks, List.append_assoc, Bool.or_true, if_true]
    rw [bol_indent4, bol_word X _ _ 4 _ hd kwPass _ (by decide) (idEnd_of _ _ (by decide)), mid_newline,
      prepend_prepend]
    have : identTok kwPass = .kw kwPass := by decide
    simp [this, indOf]
  | doc d =>
    simp only [renderItem, nonBlank, itemToks, List.append_assoc, Bool.or_true, if_true, List.cons_append,
      List.nil_append]
    rw [bol_indent4, bol_doc X _ _ 4 _ hd d _, mid_newline, bol_blank, prepend_prepend]
    simp [indOf]
  | ann n e =>
    simp only [wfItem, Bool.and_eq_true] at h
    obtain ⟨hw, ht⟩ := targetName_word X h.1
    simp only [renderItem, nonBlank, itemToks, List.append_assoc, Bool.or_true, if_true, List.cons_append]
    rw [bol_indent4, bol_wordX X _ _ 4 _ hd n _ hw (idEnd_of _ _ (by decide)), ht,
      lex_sep X _ ':' (Or.inr rfl), lex_expr X pr e h.2 0 _ _ ⟨cLF, r, rfl, by decide⟩, mid_newline]
    simp [prepend_prepend, indOf]
  | assign n e =>
    simp only [wfItem, Bool.and_eq_true] at h
    obtain ⟨hw, ht⟩ := targetName_word X h.1
    simp only [renderItem, nonBlank, itemToks, List.append_assoc, Bool.or_true, if_true, List.cons_append]
    rw [bol_indent4, bol_wordX X _ _ 4 _ hd n _ hw (idEnd_of _ _ (by decide)), ht, lex_space,
      lex_eq X _ ' ' _ (by decide), lex_space, lex_expr X pr e h.2 0 _ _ ⟨cLF, r, rfl, by decide⟩, mid_newline]
    simp [prepend_prepend, indOf]

theorem lex_lines (X : Ora) (pr : Char → Bool) : ∀ (items : List Item), (items.all (wfItem X) = true) →
    ∀ (opened : Bool) (rest : List Char),
    lex X ⟨0, indOf opened⟩ (.bol 0) (renderLines pr items rest)
      = prepend (itemsToks opened items) (lex X ⟨0, indOf (opened || items.any nonBlank)⟩ (.bol 0) rest)
  | [], _, opened, rest => by simp [renderLines, itemsToks, prepend_nil]
  | it :: r, h, opened, rest => by
    simp only [List.all_cons, Bool.and_eq_true] at h
    simp only [renderLines, itemsToks, List.any_cons]
    rw [lex_item X pr it h.1, lex_lines X pr r h.2]
    cases hb : nonBlank it <;> simp [prepend_prepend, dentToks, Bool.or_assoc]

/-! ### class header, classes, module: lexer -/

def headerToks (name : List Char) : List Tok :=
  [.kw kwClass, .name name, .op '(', .name nStructure, .op ')', .op ':', .newline]

def dedentToks (opened : Bool) : List Tok := if opened then [.dedent] else []

theorem dent_top (opened : Bool) : dent (indOf opened) 0 = some ([], dedentToks opened) := by
  cases opened <;> decide

theorem lex_colon_nl (X : Ora) (ctx : LCtx) (r : List Char) :
    lex X ctx .mid (':' :: cLF :: r) = prepend [.op ':'] (lex X ctx .mid (cLF :: r)) := by
  apply lex_go
  simp [lstep, midStep, cLF, cSQ, cDQ, isDigit, idStart, idStartA, isAsciiLetter, opChars]

theorem lex_header (X : Ora) (name : List Char) (hn : identOk X name = true) (opened : Bool) (r : List Char) :
    lex X ⟨0, indOf opened⟩ (.bol 0) (headerText name ++ cLF :: r)
      = prepend (dedentToks opened ++ headerToks name) (lex X ⟨0, []⟩ (.bol 0) r) := by
  obtain ⟨hw, ht⟩ := identOk_word X hn
  have k1 : identTok kwClass = .kw kwClass := by decide
  have k2 : identTok nStructure = .name nStructure := by decide
  simp only [headerText, List.append_assoc, List.cons_append, List.nil_append]
  rw [bol_word X _ _ 0 _ (dent_top opened) kwClass _ (by decide) (idEnd_of _ _ (by decide)), k1, lex_space,
    lex_wordX X _ name _ hw (idEnd_of _ _ (by decide)), ht, lex_open X 0 [] '(' (Or.inl rfl),
    lex_word X _ nStructure _ (by decide) (idEnd_of _ _ (by decide)), k2,
    lex_close X 0 [] ')' (Or.inl rfl), lex_colon_nl, mid_newline]
  simp [prepend_prepend, headerToks]

def classToks (opened : Bool) (name : List Char) (items : List Item) : List Tok :=
  dedentToks opened ++ (headerToks name ++ itemsToks false items)

/-- a class followed by a line break, from the start of a line -/
theorem lex_class (X : Ora) (pr : Char → Bool) (name : List Char) (items : List Item)
    (hn : identOk X name = true) (hi : items.all (wfItem X) = true) (hb : items.any nonBlank = true)
    (opened : Bool) (rest : List Char) :
    lex X ⟨0, indOf opened⟩ (.bol 0) (classRender pr name items ++ cLF :: rest)
      = prepend (classToks opened name items) (lex X ⟨0, indOf true⟩ (.bol 0) rest) := by
  simp only [classRender, List.append_assoc]
  rw [renderItems_lines, lex_header X name hn opened]
  have := lex_lines X pr items hi false rest
  simp only [indOf, Bool.false_eq_true, if_false, Bool.false_or, hb, if_true] at this
  rw [this]
  simp [prepend_prepend, classToks, indOf]

def importToks : List Tok := [.kw kwFrom, .name nTypedpy, .kw kwImport, .op '*', .newline]

theorem lex_import (X : Ora) (r : List Char) :
    lex X ⟨0, []⟩ (.bol 0) (importLine ++ cLF :: r) = prepend importToks (lex X ⟨0, []⟩ (.bol 0) r) := by
  have k1 : identTok kwFrom = .kw kwFrom := by decide
  have k2 : identTok nTypedpy = .name nTypedpy := by decide
  have k3 : identTok kwImport = .kw kwImport := by decide
  have hstar : lex X ⟨0, []⟩ .mid ('*' :: cLF :: r) = prepend [.op '*'] (lex X ⟨0, []⟩ .mid (cLF :: r)) := by
    apply lex_go
    simp [lstep, midStep, cLF, cSQ, cDQ, isDigit, idStart, idStartA, isAsciiLetter, opChars]
  simp only [importLine, List.append_assoc, List.cons_append, List.nil_append]
  rw [bol_word X [] [] 0 [] (by decide) kwFrom _ (by decide) (idEnd_of _ _ (by decide)), k1, lex_space,
    lex_word X _ nTypedpy _ (by decide) (idEnd_of _ _ (by decide)), k2, lex_space,
    lex_word X _ kwImport _ (by decide) (idEnd_of _ _ (by decide)), k3, lex_space, hstar, mid_newline]
  simp [prepend_prepend, importToks]

/-! ### statements, classes, module: parser -/

def st0 (needIndent : Bool) : PState := ⟨[], .stmtStart, .expr, needIndent⟩

theorem parse_item (X : Ora) (it : Item) (h : wfItem X it = true) (hb : nonBlank it = true) (rest : List Tok) :
    parse (st0 false) (itemToks it ++ rest) = parse (st0 false) rest := by
  cases it with
  | blank => simp [nonBlank] at hb
  | pass => simp [itemToks, parse, pstep, st0, kwPass, lineEndStep]
  | doc d => simp [itemToks, parse, pstep, st0, operandStep, afterStep, startsPositional]
  | ann n e =>
    simp only [wfItem, Bool.and_eq_true, targetName, Bool.not_eq_true'] at h
    have ih := parse_expr X e h.2 [] false .ann (.newline :: rest) (by decide)
    simp [itemToks, parse, pstep, st0, isOp, h.1.2, afterStep] at ih ⊢
    rw [ih]
  | assign n e =>
    simp only [wfItem, Bool.and_eq_true, targetName, Bool.not_eq_true'] at h
    have ih := parse_expr X e h.2 [] false .rhs (.newline :: rest) (by decide)
    simp [itemToks, parse, pstep, st0, isOp, h.1.2, afterStep] at ih ⊢
    rw [ih]

theorem parse_items (X : Ora) : ∀ (items : List Item), items.all (wfItem X) = true → ∀ (opened : Bool) (rest : List Tok),
    parse (st0 (!opened)) (itemsToks opened items ++ rest)
      = parse (st0 (!(opened || items.any nonBlank))) rest
  | [], _, opened, rest => by simp [itemsToks]
  | it :: r, h, opened, rest => by
    simp only [List.all_cons, Bool.and_eq_true] at h
    have ih := parse_items X r h.2
    cases hb : nonBlank it
    · simp [itemsToks, hb, ih]
    · have e1 := parse_item X it h.1 hb (itemsToks true r ++ rest)
      have e2 := ih true rest
      cases opened
      · simp [itemsToks, hb, parse, pstep, st0] at e1 e2 ⊢
        rw [e1, e2]
      · simp [itemsToks, hb] at e1 e2 ⊢
        rw [e1, e2]

theorem parse_header (name : List Char) (rest : List Tok) :
    parse (st0 false) (headerToks name ++ rest) = parse (st0 true) rest := by
  simp [headerToks, parse, pstep, st0, kwClass, isOp, operandStep, startsPositional, seenKw, afterStep,
    closeStep, closes]

theorem parse_dedent (rest : List Tok) : parse (st0 false) (.dedent :: rest) = parse (st0 false) rest := by
  simp [parse, pstep, st0]

theorem parse_class (X : Ora) (opened : Bool) (name : List Char) (items : List Item) (hi : items.all (wfItem X) = true)
    (hb : items.any nonBlank = true) (rest : List Tok) :
    parse (st0 false) (classToks opened name items ++ rest) = parse (st0 false) rest := by
  have e := parse_items X items hi false rest
  simp only [Bool.not_false, Bool.false_or, hb, Bool.not_true] at e
  cases opened
  · simp only [classToks, dedentToks, Bool.false_eq_true, if_false, List.nil_append, List.append_assoc]
    rw [parse_header, e]
  · simp only [classToks, dedentToks, if_true, List.cons_append, List.nil_append, List.append_assoc]
    rw [parse_dedent, parse_header, e]

theorem parse_import (rest : List Tok) : parse (st0 false) (importToks ++ rest) = parse (st0 false) rest := by
  simp [importToks, parse, pstep, st0, kwFrom, kwImport, isOp, from1Step, from2Step, from3Step, lineEndStep]

/-! ### modules -/

/-- what the acceptance theorem needs of one class: its name is an identifier, every body line is
    well-formed, the body is not empty -/
def classOk (X : Ora) (O : EOra) (c : ClassSrc) : Bool :=
  identOk X c.name.toList && (classItems O c.desc c.schema).all (wfItem X)
    && (classItems O c.desc c.schema).any nonBlank

def classesToks (O : EOra) : Bool → List ClassSrc → List Tok
  | _, [] => []
  | opened, c :: r => classToks opened c.name.toList (classItems O c.desc c.schema) ++ classesToks O true r

def modToks (O : EOra) (defs : List ClassSrc) (main : ClassSrc) : List Tok :=
  importToks ++ (classesToks O false (defs ++ [main]) ++ [.dedent])

theorem lex_classText (X : Ora) (O : EOra) (c : ClassSrc) (h : classOk X O c = true) (opened : Bool)
    (rest : List Char) :
    lex X ⟨0, indOf opened⟩ (.bol 0) (classText O c.name c.desc c.schema ++ cLF :: rest)
      = prepend (classToks opened c.name.toList (classItems O c.desc c.schema))
          (lex X ⟨0, indOf true⟩ (.bol 0) rest) := by
  simp only [classOk, Bool.and_eq_true] at h
  exact lex_class X O.pr _ _ h.1.1 h.1.2 h.2 opened rest

theorem lex_join (X : Ora) (O : EOra) : ∀ (defs : List ClassSrc), defs ≠ [] → (∀ c ∈ defs, classOk X O c = true) →
    ∀ (opened : Bool) (tail : List Char),
    lex X ⟨0, indOf opened⟩ (.bol 0) (joinClasses O defs ++ cLF :: tail)
      = prepend (classesToks O opened defs) (lex X ⟨0, indOf true⟩ (.bol 0) tail)
  | [], h, _, _, _ => absurd rfl h
  | [c], _, hc, opened, tail => by
    simp only [joinClasses, classesToks, List.append_nil]
    exact lex_classText X O c (hc c (by simp)) opened tail
  | c :: c' :: r, _, hc, opened, tail => by
    have ih := lex_join X O (c' :: r) (by simp) (fun x hx => hc x (by simp [hx])) true tail
    simp only [joinClasses, classesToks, nl3, List.append_assoc, List.cons_append, List.nil_append] at ih ⊢
    rw [lex_classText X O c (hc c (by simp)) opened, bol_blank, bol_blank, ih]
    simp [prepend_prepend]

theorem starLine_eq : starLine = '#' :: chars!" ********************" := by decide

theorem lex_module (X : Ora) (O : EOra) (write : Bool) (defs : List ClassSrc) (main : ClassSrc)
    (hd : ∀ c ∈ defs, classOk X O c = true) (hm : classOk X O main = true) :
    lex X lctx0 (.bol 0) (moduleText O write defs main) = .ok (modToks O defs main) := by
  have hmain : ∀ opened, lex X ⟨0, indOf opened⟩ (.bol 0) (classText O main.name main.desc main.schema ++ [cLF])
      = .ok (classToks opened main.name.toList (classItems O main.desc main.schema) ++ [.dedent]) := by
    intro opened
    rw [lex_classText X O main hm opened []]
    simp [lex, lfinish, indOf, prepend]
  have hcls : ∀ (a : List ClassSrc), classesToks O true (a ++ [main]) = classesToks O true a
      ++ classToks true main.name.toList (classItems O main.desc main.schema) := by
    intro a
    induction a with
    | nil => simp [classesToks]
    | cons x xs ih => simp [classesToks, ih]
  simp only [moduleText, nl3, lctx0, List.append_assoc, List.cons_append, List.nil_append]
  rw [lex_import, bol_blank, bol_blank]
  cases defs with
  | nil =>
    simp only [List.isEmpty_nil, if_true, List.nil_append]
    have := hmain false
    simp only [indOf, Bool.false_eq_true, if_false] at this
    rw [this]
    simp [prepend, modToks, classesToks]
  | cons c r =>
    simp only [List.isEmpty_cons, Bool.false_eq_true, if_false]
    have hj := lex_join X O (c :: r) (by simp) hd false
    simp only [indOf, Bool.false_eq_true, if_false, if_true] at hj
    have hm' := hmain true
    simp only [indOf, if_true] at hm'
    cases write
    · simp only [Bool.false_eq_true, if_false, nl3, List.append_assoc, List.cons_append, List.nil_append]
      rw [hj, bol_blank, bol_blank, hm']
      simp [prepend, modToks, hcls, classesToks]
    · simp only [if_true, nl3, List.append_assoc, List.cons_append, List.nil_append]
      rw [hj, bol_blank, starLine_eq]
      have hc := bol_comment X ⟨0, [4]⟩ 0 chars!" ********************"
        (cLF :: cLF :: (classText O main.name main.desc main.schema ++ [cLF])) (by decide)
      simp only [List.cons_append, List.append_assoc] at hc ⊢
      rw [hc, bol_blank, bol_blank, hm']
      simp [prepend, modToks, hcls, classesToks]

theorem parse_classes (X : Ora) (O : EOra) : ∀ (cs : List ClassSrc), (∀ c ∈ cs, classOk X O c = true) →
    ∀ (opened : Bool) (rest : List Tok),
    parse (st0 false) (classesToks O opened cs ++ rest) = parse (st0 false) rest
  | [], _, _, rest => by simp [classesToks]
  | c :: r, h, opened, rest => by
    have hc := h c (by simp)
    simp only [classOk, Bool.and_eq_true] at hc
    simp only [classesToks, List.append_assoc]
    rw [parse_class X opened _ _ hc.1.2 hc.2, parse_classes X O r (fun x hx => h x (by simp [hx]))]

theorem parse_module (X : Ora) (O : EOra) (defs : List ClassSrc) (main : ClassSrc)
    (hd : ∀ c ∈ defs, classOk X O c = true) (hm : classOk X O main = true) :
    parse pstate0 (modToks O defs main) = .accept := by
  have : pstate0 = st0 false := rfl
  rw [this, modToks, parse_import, parse_classes X O (defs ++ [main]) (by
    intro c hc
    rcases List.mem_append.1 hc with h | h
    · exact hd c h
    · simp at h; subst h; exact hm) false, parse_dedent]
  simp [parse, pfinish, st0]

/-- the emitted module is accepted by the recogniser -/
theorem recognise_module (X : Ora) (O : EOra) (write : Bool) (defs : List ClassSrc) (main : ClassSrc)
    (hd : ∀ c ∈ defs, classOk X O c = true) (hm : classOk X O main = true)
    (hclean : textClean (moduleText O write defs main) = true)
    (hnest : nestOk X (moduleText O write defs main) = true) :
    recognise X (moduleText O write defs main) = .accept := by
  simp only [textClean, Bool.and_eq_true, Bool.not_eq_true'] at hclean
  have hcr : ∀ c ∈ moduleText O write defs main, c ≠ cCR := by
    intro c hc e
    subst e
    have := hclean.2
    simp at this
    exact this hc
  have htok : tokens X (moduleText O write defs main) = .ok (modToks O defs main) := by
    rw [tokens, nnl_id _ hcr, lex_module X O write defs main hd hm]
  simp only [nestOk, htok, decide_eq_true_eq] at hnest
  simp only [recognise, hclean.1, Bool.false_eq_true, if_false, htok]
  rw [if_neg (by omega), parse_module X O defs main hd hm]

end Typedpy.Emit
