/-
  Lemmas/PyGram.lean — the recogniser (`Sem/PyGram.lean`) accepts what the printer
  (`Sem/SchemaEmit.lean`) prints: token-level (`parse_*`) and character-level (`lex_*`) lemmas,
  by symbolic execution of the two transition systems and structural induction over `PyExpr`.
-/
import TypedpyModel.Sem.SchemaEmit
import TypedpyModel.Lemmas.PyLex
namespace Typedpy.Emit
open Typedpy.PyGram Typedpy.PyLex

/-! ## parser -/

def endsStr : PyExpr → Bool
  | .strLit _ => true
  | .lam b => endsStr b
  | _ => false

theorem parse_go {s s' : PState} {t : Tok} (ts : List Tok) (h : pstep s t = .go s') :
    parse s (t :: ts) = parse s' ts := by
  simp [parse, h]

theorem nodupL_cons (k : List Char) (ks : List (List Char)) (h : nodupL (k :: ks) = true) :
    ks.contains k = false ∧ nodupL ks = true := by
  simpa [nodupL] using h

mutual
theorem parse_expr : ∀ (e : PyExpr), wf e = true → ∀ (σ : List Frame) (c : Bool) (φ : Phase) (rest : List Tok),
    parse ⟨σ, .operand c false, φ, false⟩ (toks e ++ rest)
      = parse ⟨σ, .afterOp (endsStr e), φ, false⟩ rest
  | .name n, _, σ, c, φ, rest => by
    simp [toks, parse, pstep, operandStep, startsPositional, endsStr]
  | .const w, h, σ, c, φ, rest => by
    simp only [wf, Bool.and_eq_true] at h
    simp [toks, parse, pstep, operandStep, startsPositional, endsStr, h.1]
  | .num t, _, σ, c, φ, rest => by
    simp [toks, parse, pstep, operandStep, startsPositional, endsStr]
  | .negNum t, _, σ, c, φ, rest => by
    simp [toks, parse, pstep, operandStep, startsPositional, endsStr]
  | .strLit cs, _, σ, c, φ, rest => by
    simp [toks, parse, pstep, operandStep, startsPositional, endsStr]
  | .call f kws, h, σ, c, φ, rest => by
    simp only [wf, Bool.and_eq_true] at h
    have ih := parse_kws kws h.2 true σ false [] false φ rest h.1.2 (by simp)
    simp [toks, parse, pstep, operandStep, afterStep, startsPositional, endsStr] at ih ⊢
    exact ih
  | .list xs, h, σ, c, φ, rest => by
    simp only [wf] at h
    have ih := parse_list xs h true σ false φ rest
    simp [toks, parse, pstep, operandStep, startsPositional, endsStr] at ih ⊢
    exact ih
  | .dict kvs, h, σ, c, φ, rest => by
    simp only [wf] at h
    have ih := parse_kvs kvs h true σ false φ rest
    simp [toks, parse, pstep, operandStep, startsPositional, endsStr] at ih ⊢
    exact ih
  | .lam b, h, σ, c, φ, rest => by
    simp only [wf] at h
    have ih := parse_expr b h σ false φ rest
    simp [toks, parse, pstep, operandStep, startsPositional, endsStr, isOp, kwLambda, constKw] at ih ⊢
    exact ih
  | .bad, h, _, _, _, _ => by simp [wf] at h
theorem parse_list : ∀ (xs : List PyExpr), wfL xs = true → ∀ (first : Bool) (σ : List Frame) (b : Bool)
    (φ : Phase) (rest : List Tok),
    parse ⟨.lst :: σ, (if first then .operand true false else .afterOp b), φ, false⟩
        (toksL first xs ++ .op ']' :: rest)
      = parse ⟨σ, .afterOp false, φ, false⟩ rest
  | [], _, first, σ, b, φ, rest => by
    cases first <;> simp [toksL, parse, pstep, operandStep, afterStep, closeStep, closes, startsPositional]
  | x :: xs, h, first, σ, b, φ, rest => by
    simp only [wfL, Bool.and_eq_true] at h
    have ih1 := parse_expr x h.1 (.lst :: σ) true φ (toksL false xs ++ .op ']' :: rest)
    have ih2 := parse_list xs h.2 false σ (endsStr x) φ rest
    cases first
    · simp [toksL, parse, pstep, afterStep] at ih1 ih2 ⊢
      rw [ih1, ih2]
    · simp [toksL] at ih1 ih2 ⊢
      rw [ih1, ih2]
theorem parse_kws : ∀ (kws : List (List Char × PyExpr)), wfKws kws = true →
    ∀ (first : Bool) (σ : List Frame) (k0 : Bool) (ns : List (List Char)) (b : Bool) (φ : Phase)
      (rest : List Tok),
    nodupL (kws.map (·.1)) = true → (∀ k ∈ kws.map (·.1), ns.contains k = false) →
    parse ⟨.call false k0 ns :: σ, (if first then .operand true true else .afterOp b), φ, false⟩
        (toksKws first kws ++ .op ')' :: rest)
      = parse ⟨σ, .afterOp false, φ, false⟩ rest
  | [], _, first, σ, k0, ns, b, φ, rest, _, _ => by
    cases first <;> simp [toksKws, parse, pstep, operandStep, afterStep, closeStep, closes, startsPositional]
  | (k, v) :: r, h, first, σ, k0, ns, b, φ, rest, hnd, hns => by
    simp only [wfKws, Bool.and_eq_true] at h
    have hk : targetName k = true := h.1.1
    simp only [targetName, Bool.and_eq_true, Bool.not_eq_true'] at hk
    have hnd' := nodupL_cons k (r.map (·.1)) (by simpa using hnd)
    have hkns : ns.contains k = false := hns k (by simp)
    have ih1 := parse_expr v h.1.2 (.call false true (k :: ns) :: σ) false φ (toksKws false r ++ .op ')' :: rest)
    have hkns' : k ∉ ns := by simpa using hkns
    have hkr : k ∉ r.map (·.1) := by simpa using hnd'.1
    have ih2 := parse_kws r h.2 false σ true (k :: ns) (endsStr v) φ rest hnd'.2 (by
      intro k' hk'
      have h1 : k' ∉ ns := by
        have := hns k' (List.mem_cons_of_mem _ hk')
        simpa using this
      have h2 : k' ≠ k := fun e => hkr (e ▸ hk')
      simp [h1, h2])
    cases first
    · simp [toksKws, parse, pstep, afterStep, operandStep, startsPositional, isOp, hk.2, hkns'] at ih1 ih2 ⊢
      rw [ih1, ih2]
    · simp [toksKws, parse, pstep, operandStep, startsPositional, isOp, hk.2, hkns'] at ih1 ih2 ⊢
      rw [ih1, ih2]
theorem parse_kvs : ∀ (kvs : List (PyExpr × PyExpr)), wfKVs kvs = true → ∀ (first : Bool) (σ : List Frame)
    (b : Bool) (φ : Phase) (rest : List Tok),
    parse ⟨.dict (if first then .start else .colon) :: σ,
          (if first then .operand true false else .afterOp b), φ, false⟩
        (toksKVs first kvs ++ .op '}' :: rest)
      = parse ⟨σ, .afterOp false, φ, false⟩ rest
  | [], _, first, σ, b, φ, rest => by
    cases first <;> simp [toksKVs, parse, pstep, operandStep, afterStep, closeStep, closes, startsPositional]
  | (k, v) :: r, h, first, σ, b, φ, rest => by
    simp only [wfKVs, Bool.and_eq_true] at h
    have ih2 := parse_expr v h.1.2 (.dict .colon :: σ) false φ (toksKVs false r ++ .op '}' :: rest)
    have ih3 := parse_kvs r h.2 false σ (endsStr v) φ rest
    cases first
    · have ih1 := parse_expr k h.1.1 (.dict .commaD :: σ) true φ (.op ':' :: (toks v ++ (toksKVs false r ++ .op '}' :: rest)))
      simp [toksKVs, parse, pstep, afterStep] at ih1 ih2 ih3 ⊢
      rw [ih1, ih2, ih3]
    · have ih1 := parse_expr k h.1.1 (.dict .start :: σ) true φ (.op ':' :: (toks v ++ (toksKVs false r ++ .op '}' :: rest)))
      simp [toksKVs, parse, pstep, afterStep] at ih1 ih2 ih3 ⊢
      rw [ih1, ih2, ih3]
end
/-! ## lexer -/

theorem prepend_nil (x : TokRes) : prepend [] x = x := by cases x <;> rfl
theorem prepend_append (a b : List Tok) (x : TokRes) : prepend (a ++ b) x = prepend a (prepend b x) := by
  cases x <;> simp [prepend]
theorem prepend_cons (a : Tok) (b : List Tok) (x : TokRes) : prepend (a :: b) x = prepend [a] (prepend b x) := by
  cases x <;> simp [prepend]

theorem lex_go {X : Ora} {ctx ctx' : LCtx} {mode mode' : LMode} {c : Char} {r : List Char} {out : List Tok}
    (h : lstep X ctx mode c r = .go ctx' mode' out) :
    lex X ctx mode (c :: r) = prepend out (lex X ctx' mode' r) := by
  simp [lex, h]

/-- after a token that ends at a non-token character: the character is lexed as between tokens -/
theorem lex_cons (X : Ora) (ctx : LCtx) (mode : LMode) (c : Char) (r : List Char) :
    lex X ctx mode (c :: r) = (match lstep X ctx mode c r with
      | .go ctx' mode' out => prepend out (lex X ctx' mode' r)
      | .stop v => .error v) := by
  rw [lex]; cases lstep X ctx mode c r <;> rfl

theorem lstep_mid (X : Ora) (ctx : LCtx) (c : Char) (r : List Char) :
    lstep X ctx .mid c r = midStep X ctx c r := rfl

theorem lex_thenMid (X : Ora) (ctx : LCtx) (mode : LMode) (ts : List Tok) (d : Char) (r : List Char)
    (h : lstep X ctx mode d r = thenMid X ts ctx d r) :
    lex X ctx mode (d :: r) = prepend ts (lex X ctx .mid (d :: r)) := by
  rw [lex_cons, lex_cons, h, lstep_mid, thenMid]
  cases midStep X ctx d r with
  | go ctx' m out => simp [prepend_append]
  | stop v => simp [prepend]

/-! ### identifiers and keywords -/

theorem idCont_ascii (X : Ora) (c : Char) (h : c.toNat < 128) : idCont X c = idContA c := by
  simp [idCont, h]
theorem idStart_ascii (X : Ora) (c : Char) (h : c.toNat < 128) : idStart X c = idStartA c := by
  simp [idStart, h]

/-- the rest begins with an ASCII character that cannot continue an identifier and is no quote -/
def IdEnd (rest : List Char) : Prop :=
  ∃ d r, rest = d :: r ∧ d.toNat < 128 ∧ idContA d = false ∧ d ≠ cSQ ∧ d ≠ cDQ

theorem lex_ident_run (X : Ora) (ctx : LCtx) : ∀ (w acc rest : List Char),
    (∀ c ∈ w, c.toNat < 128 ∧ idContA c = true) →
    lex X ctx (.ident acc) (w ++ rest) = lex X ctx (.ident (w.reverse ++ acc)) rest
  | [], acc, rest, _ => by simp
  | c :: w, acc, rest, h => by
    have hc := h c (by simp)
    have : lstep X ctx (.ident acc) c (w ++ rest) = .go ctx (.ident (c :: acc)) [] := by
      simp [lstep, idCont_ascii X c hc.1, hc.2]
    rw [List.cons_append, lex_go this, prepend_nil,
      lex_ident_run X ctx w (c :: acc) rest (fun d hd => h d (by simp [hd]))]
    simp

theorem lex_ident_end (X : Ora) (ctx : LCtx) (acc rest : List Char) (h : IdEnd rest) :
    lex X ctx (.ident acc) rest = prepend [identTok acc.reverse] (lex X ctx .mid rest) := by
  obtain ⟨d, r, rfl, hd, hc, h1, h2⟩ := h
  apply lex_thenMid
  simp [lstep, idCont_ascii X d hd, hc, h1, h2]

/-- a word: ASCII letter or `_`, then ASCII letters, digits, `_` -/
def isWord (w : List Char) : Bool :=
  match w with
  | [] => false
  | c :: r => idStartA c && r.all idContA && (c :: r).all (fun x => x.toNat < 128)

theorem idStartA_facts {c : Char} (h : idStartA c = true) :
    c ≠ ' ' ∧ c ≠ cLF ∧ c ≠ '#' ∧ c ≠ cSQ ∧ c ≠ cDQ ∧ isDigit c = false := by
  refine ⟨?_, ?_, ?_, ?_, ?_, ?_⟩
  · rintro rfl; exact absurd h (by decide)
  · rintro rfl; exact absurd h (by decide)
  · rintro rfl; exact absurd h (by decide)
  · rintro rfl; exact absurd h (by decide)
  · rintro rfl; exact absurd h (by decide)
  · simp only [idStartA, isAsciiLetter, isDigit, Bool.or_eq_true, Bool.and_eq_true, decide_eq_true_eq,
      beq_iff_eq] at h ⊢
    rcases h with (h | h) | h
    · simp; omega
    · simp; omega
    · subst h; decide

theorem lex_word (X : Ora) (ctx : LCtx) (w rest : List Char) (hw : isWord w = true) (hr : IdEnd rest) :
    lex X ctx .mid (w ++ rest) = prepend [identTok w] (lex X ctx .mid rest) := by
  match w, hw with
  | c :: t, hw =>
    simp only [isWord, Bool.and_eq_true, List.all_eq_true, decide_eq_true_eq] at hw
    obtain ⟨⟨hs, ht⟩, hall⟩ := hw
    have hc128 : c.toNat < 128 := hall c (by simp)
    obtain ⟨f1, f2, f3, f4, f5, f6⟩ := idStartA_facts hs
    have h0 : lstep X ctx .mid c (t ++ rest) = .go ctx (.ident [c]) [] := by
      simp [lstep, midStep, f1, f2, f3, f4, f5, f6, idStart_ascii X c hc128, hs]
    rw [List.cons_append, lex_go h0, prepend_nil,
      lex_ident_run X ctx t [c] rest (fun d hd => ⟨hall d (by simp [hd]), ht d hd⟩),
      lex_ident_end X ctx _ rest hr]
    simp

/-! ### numbers -/

/-- the character ends a number in every phase in which a number may end -/
def numEndC (d : Char) : Bool :=
  [NumPhase.int0, .int, .frac, .expD].all (fun p => numNext p d == .fin)

def NumEnd (rest : List Char) : Prop := ∃ d r, rest = d :: r ∧ numEndC d = true

theorem numFinal_cases {p : NumPhase} (h : numFinal p = true) :
    p = .int0 ∨ p = .int ∨ p = .frac ∨ p = .expD := by
  cases p <;> simp [numFinal] at h ⊢

theorem lex_num_run (X : Ora) (ctx : LCtx) : ∀ (t : List Char) (p : NumPhase) (rest : List Char),
    numScan p t = true → NumEnd rest →
    lex X ctx (.num p) (t ++ rest) = prepend [.num] (lex X ctx .mid rest)
  | [], p, rest, h, hr => by
    obtain ⟨d, r, rfl, hd⟩ := hr
    simp only [numScan] at h
    have hfin : numNext p d = .fin := by
      simp only [numEndC, List.all_cons, List.all_nil, Bool.and_true, Bool.and_eq_true, beq_iff_eq] at hd
      rcases numFinal_cases h with rfl | rfl | rfl | rfl
      · exact hd.1
      · exact hd.2.1
      · exact hd.2.2.1
      · exact hd.2.2.2
    simp only [List.nil_append]
    apply lex_thenMid
    simp [lstep, hfin]
  | c :: t, p, rest, h, hr => by
    simp only [numScan] at h
    cases hn : numNext p c with
    | cont p' =>
      simp only [hn] at h
      have : lstep X ctx (.num p) c (t ++ rest) = .go ctx (.num p') [] := by simp [lstep, hn]
      rw [List.cons_append, lex_go this, prepend_nil, lex_num_run X ctx t p' rest h hr]
    | fin => simp [hn] at h
    | bad => simp [hn] at h

theorem isDigit_facts {c : Char} (h : isDigit c = true) :
    c ≠ ' ' ∧ c ≠ cLF ∧ c ≠ '#' ∧ c ≠ cSQ ∧ c ≠ cDQ := by
  refine ⟨?_, ?_, ?_, ?_, ?_⟩ <;> (rintro rfl; exact absurd h (by decide))

theorem lex_num (X : Ora) (ctx : LCtx) (t rest : List Char) (ht : isNumText t = true) (hr : NumEnd rest) :
    lex X ctx .mid (t ++ rest) = prepend [.num] (lex X ctx .mid rest) := by
  match t, ht with
  | c :: t', ht =>
    simp only [isNumText, Bool.and_eq_true] at ht
    obtain ⟨f1, f2, f3, f4, f5⟩ := isDigit_facts ht.1
    have h0 : lstep X ctx .mid c (t' ++ rest) = .go ctx (.num (numStart c)) [] := by
      simp [lstep, midStep, f1, f2, f3, f4, f5, ht.1]
    rw [List.cons_append, lex_go h0, prepend_nil, lex_num_run X ctx t' _ rest ht.2 hr]

/-! ### string literals -/

/-- an ordinary character of a short literal opened with `q` -/
def plainIn (q d : Char) : Prop := d ≠ cBS ∧ d ≠ q ∧ d ≠ cLF

theorem str_plain_run (X : Ora) (ctx : LCtx) (q : Char) : ∀ (w acc rest : List Char),
    (∀ d ∈ w, plainIn q d) →
    lex X ctx (.str q false false acc) (w ++ rest) = lex X ctx (.str q false false (w.reverse ++ acc)) rest
  | [], acc, rest, _ => by simp
  | d :: w, acc, rest, h => by
    obtain ⟨h1, h2, h3⟩ := h d (by simp)
    have : lstep X ctx (.str q false false acc) d (w ++ rest) = .go ctx (.str q false false (d :: acc)) [] := by
      simp [lstep, h1, h2, h3]
    rw [List.cons_append, lex_go this, prepend_nil,
      str_plain_run X ctx q w (d :: acc) rest (fun e he => h e (by simp [he]))]
    simp

/-- backslash + any character -/
theorem str_esc2 (X : Ora) (ctx : LCtx) (q : Char) (hq : q ≠ cBS) (e : Char) (acc rest : List Char) :
    lex X ctx (.str q false false acc) (cBS :: e :: rest)
      = lex X ctx (.str q false false (e :: cBS :: acc)) rest := by
  have h1 : lstep X ctx (.str q false false acc) cBS (e :: rest) = .go ctx (.str q false true (cBS :: acc)) [] := by
    simp [lstep]
  have h2 : lstep X ctx (.str q false true (cBS :: acc)) e rest = .go ctx (.str q false false (e :: cBS :: acc)) [] := by
    simp [lstep]
  rw [lex_go h1, prepend_nil, lex_go h2, prepend_nil]

theorem hexDigit_plain : ∀ k, k < 16 → ∀ q, (q = cSQ ∨ q = cDQ) → plainIn q (hexDigit k) := by
  have h : ∀ k, k < 16 → hexDigit k ≠ cBS ∧ hexDigit k ≠ cSQ ∧ hexDigit k ≠ cDQ ∧ hexDigit k ≠ cLF := by decide
  intro k hk q hq
  obtain ⟨a, b, c, d⟩ := h k hk
  rcases hq with rfl | rfl
  · exact ⟨a, b, d⟩
  · exact ⟨a, c, d⟩

theorem hex2_plain (n : Nat) (q : Char) (hq : q = cSQ ∨ q = cDQ) : ∀ d ∈ hex2 n, plainIn q d := by
  intro d hd
  simp only [hex2, List.mem_cons, List.not_mem_nil, or_false] at hd
  rcases hd with rfl | rfl
  · exact hexDigit_plain _ (Nat.mod_lt _ (by decide)) q hq
  · exact hexDigit_plain _ (Nat.mod_lt _ (by decide)) q hq
theorem hex4_plain (n : Nat) (q : Char) (hq : q = cSQ ∨ q = cDQ) : ∀ d ∈ hex4 n, plainIn q d := by
  intro d hd
  simp only [hex4, List.mem_append] at hd
  rcases hd with hd | hd <;> exact hex2_plain _ q hq d hd
theorem hex8_plain (n : Nat) (q : Char) (hq : q = cSQ ∨ q = cDQ) : ∀ d ∈ hex8 n, plainIn q d := by
  intro d hd
  simp only [hex8, List.mem_append] at hd
  rcases hd with hd | hd <;> exact hex4_plain _ q hq d hd

theorem q_ne_bs' {q : Char} (hq : q = cSQ ∨ q = cDQ) : q ≠ cBS := by
  rcases hq with rfl | rfl <;> decide

theorem lex_reprChar (X : Ora) (ctx : LCtx) (pr : Char → Bool) (q : Char) (hq : q = cSQ ∨ q = cDQ) (c : Char)
    (acc rest : List Char) :
    lex X ctx (.str q false false acc) (reprChar pr q c ++ rest)
      = lex X ctx (.str q false false ((reprChar pr q c).reverse ++ acc)) rest := by
  have hqb := q_ne_bs' hq
  have esc : ∀ (e : Char) (w : List Char), (∀ d ∈ w, plainIn q d) →
      lex X ctx (.str q false false acc) ((cBS :: e :: w) ++ rest)
        = lex X ctx (.str q false false ((cBS :: e :: w).reverse ++ acc)) rest := by
    intro e w hw
    rw [List.cons_append, List.cons_append, str_esc2 X ctx q hqb, str_plain_run X ctx q w _ rest hw]
    simp
  unfold reprChar
  simp only []
  split
  · exact esc c [] (by simp)
  · rename_i h1
    have hcq : c ≠ q := fun h => h1 (Or.inl h)
    have hcb : c ≠ cBS := fun h => h1 (Or.inr h)
    split
    · exact esc 't' [] (by simp)
    · split
      · exact esc 'n' [] (by simp)
      · rename_i hn10
        have hlf : c ≠ cLF := by
          intro h; apply hn10; rw [h]; decide
        split
        · exact esc 'r' [] (by simp)
        · split
          · exact esc 'x' (hex2 c.toNat) (hex2_plain _ q hq)
          · split
            · exact str_plain_run X ctx q [c] acc rest (by simpa using ⟨hcb, hcq, hlf⟩)
            · split
              · exact str_plain_run X ctx q [c] acc rest (by simpa using ⟨hcb, hcq, hlf⟩)
              · split
                · exact esc 'x' (hex2 c.toNat) (hex2_plain _ q hq)
                · split
                  · exact esc 'u' (hex4 c.toNat) (hex4_plain _ q hq)
                  · exact esc 'U' (hex8 c.toNat) (hex8_plain _ q hq)

theorem lex_reprBody (X : Ora) (ctx : LCtx) (pr : Char → Bool) (q : Char) (hq : q = cSQ ∨ q = cDQ) :
    ∀ (cs acc rest : List Char),
    lex X ctx (.str q false false acc) (reprBody pr q cs ++ rest)
      = lex X ctx (.str q false false ((reprBody pr q cs).reverse ++ acc)) rest
  | [], acc, rest => by simp [reprBody]
  | c :: cs, acc, rest => by
    simp only [reprBody, List.append_assoc]
    rw [lex_reprChar X ctx pr q hq, lex_reprBody X ctx pr q hq cs]
    simp

/-- the rest does not begin with a quote -/
def NoQuote (rest : List Char) : Prop := ∀ r, rest ≠ cSQ :: r ∧ rest ≠ cDQ :: r

/-- `repr(s)` followed by anything that is not a quote is one string token -/
theorem lex_str (X : Ora) (ctx : LCtx) (pr : Char → Bool) (cs rest : List Char) (hr : NoQuote rest) :
    lex X ctx .mid (pyReprL pr cs ++ rest) = prepend [.str] (lex X ctx .mid rest) := by
  have hq : reprQuote cs = cSQ ∨ reprQuote cs = cDQ := by
    unfold reprQuote; split <;> simp
  have hlit := lexSrc_pyReprL pr cs
  simp only [pyReprL] at hlit ⊢
  generalize reprQuote cs = q at hq hlit ⊢
  -- the two characters after the opening quote are not both quotes
  have hopen : ((reprBody pr q cs ++ [q] ++ rest).take 2 == [q, q]) = false := by
    cases cs with
    | nil =>
      cases rest with
      | nil => simp [reprBody]
      | cons d r =>
        have hd : d ≠ q := by
          intro e; subst e
          rcases hq with rfl | rfl
          · exact (hr r).1 rfl
          · exact (hr r).2 rfl
        simp [reprBody, hd]
    | cons c cs' =>
      obtain ⟨h, t, e, hh⟩ := reprChar_head pr q c
      have hne : h ≠ q := by
        rcases hh with rfl | ⟨rfl, hcq⟩
        · exact (q_ne_bs' hq).symm
        · exact hcq
      simp [reprBody, e, hne]
  have hstart : lstep X ctx .mid q (reprBody pr q cs ++ [q] ++ rest)
      = .go ctx (.str q false false [q]) [] := by
    have ho : ¬ (List.take 2 (reprBody pr q cs ++ q :: rest) = [q, q]) := by
      simpa using hopen
    rcases hq with rfl | rfl
    · simp only [cSQ] at ho
      simp [lstep, midStep, cSQ, cDQ, cLF, ho]
    · simp only [cDQ] at ho
      simp [lstep, midStep, cSQ, cDQ, cLF, ho]
  have hend : lstep X ctx (.str q false false ((reprBody pr q cs).reverse ++ [q])) q rest
      = .go ctx .mid [.str] := by
    have hb := q_ne_bs' hq
    have : ((q :: ((reprBody pr q cs).reverse ++ [q])).reverse) = q :: (reprBody pr q cs ++ [q]) := by simp
    simp [lstep, hb, finishStr, this, hlit]
  have e1 : q :: (reprBody pr q cs ++ [q]) ++ rest = q :: (reprBody pr q cs ++ [q] ++ rest) := by simp
  rw [e1, lex_go hstart, prepend_nil]
  have e2 : reprBody pr q cs ++ [q] ++ rest = reprBody pr q cs ++ (q :: rest) := by simp
  rw [e2, lex_reprBody X ctx pr q hq cs [q] (q :: rest), lex_go hend]

end Typedpy.Emit
