/-
  Lemmas/SchemaRename.lean — a key-renaming `_serialization_mapper` on the top-level class
  (`Sch.classSchemaM`, `Sch.renameDoc`): the renamed class object accepts the renamed serialization
  whenever the mapper-free statement holds, the key map is injective on the names in play
  (`injOnB`) and the in-place renaming of `required` ended with the image of the required names
  (`requiredFaithful`); and the dialect rewrite commutes with the key map.
-/
import TypedpyModel.Lemmas.SchemaAdmits
import TypedpyModel.Lemmas.SchemaDialect
namespace Typedpy.Sch
open Typedpy

/-! ### renaming the keys of a document object -/

theorem c08_injOnB_spec (km : KeyMap) (L : List String) (h : injOnB km L = true) (a b : String)
    (ha : a ∈ L) (hb : b ∈ L) (hab : mapName km a = mapName km b) : a = b := by
  simp only [injOnB, List.all_eq_true] at h
  have := h a ha b hb
  simpa [hab] using this

theorem c08_docKeys_mem (a : String) (v : PyVal) (r : List (PyVal × PyVal)) (h : (PyVal.str a, v) ∈ r) :
    a ∈ docKeys r := by
  simp only [docKeys, List.mem_filterMap]
  exact ⟨(.str a, v), h, rfl⟩

theorem c08_docKeys_cons (kv : PyVal × PyVal) (rest : List (PyVal × PyVal)) (b : String)
    (h : b ∈ docKeys rest) : b ∈ docKeys (kv :: rest) := by
  simp only [docKeys, List.mem_filterMap] at h ⊢
  obtain ⟨kv', hkv', hd⟩ := h
  exact ⟨kv', by simp [hkv'], hd⟩

theorem c08_getKw_some_docKeys (n : String) (x : PyVal) : ∀ r : List (PyVal × PyVal),
    getKw n r = some x → n ∈ docKeys r
  | [], h => by simp [getKw] at h
  | (k, v) :: rest, h => by
    simp only [getKw] at h
    by_cases hk : keyIs n k = true
    · cases k <;> simp [keyIs] at hk
      subst hk
      exact c08_docKeys_mem _ v _ (by simp)
    · have hk' : keyIs n k = false := by simpa using hk
      simp only [hk', Bool.false_eq_true, if_false] at h
      exact c08_docKeys_cons _ _ _ (c08_getKw_some_docKeys n x rest h)

/-- all keys are strings -/
def strKeys (r : List (PyVal × PyVal)) : Prop := ∀ kv ∈ r, ∃ a, kv.1 = PyVal.str a

/-- looking a mapped name up in the renamed object is looking the name up in the original, when the
    key map is injective on the name and the keys -/
theorem c08_getKw_rename (km : KeyMap) (n : String) : ∀ r : List (PyVal × PyVal), strKeys r →
    (∀ a ∈ docKeys r, mapName km a = mapName km n → a = n) →
    getKw (mapName km n) (renameKeys km r) = getKw n r
  | [], _, _ => rfl
  | (k, v) :: rest, hs, hinj => by
    obtain ⟨a, ha⟩ := hs (k, v) (by simp)
    simp only at ha
    subst ha
    have hrest : strKeys rest := fun kv hkv => hs kv (by simp [hkv])
    have hinj' : ∀ b ∈ docKeys rest, mapName km b = mapName km n → b = n := by
      intro b hb
      exact hinj b (c08_docKeys_cons _ _ _ hb)
    have ih := c08_getKw_rename km n rest hrest hinj'
    simp only [renameKeys, getKw, keyIs]
    by_cases han : a = n
    · subst han; simp
    · have h1 : (a == n) = false := by simpa using han
      have h2 : (mapName km a == mapName km n) = false := by
        cases h : (mapName km a == mapName km n) with
        | false => rfl
        | true =>
          exfalso
          apply han
          apply hinj a
          · exact c08_docKeys_mem a v _ (by simp)
          · simpa using h
      simp only [h1, h2, Bool.false_eq_true, if_false]
      exact ih

theorem c08_renameKeys_mem (km : KeyMap) : ∀ (r : List (PyVal × PyVal)) (kv : PyVal × PyVal),
    kv ∈ renameKeys km r → strKeys r → ∃ a v, (PyVal.str a, v) ∈ r ∧ kv = (PyVal.str (mapName km a), v)
  | [], kv, h, _ => by simp [renameKeys] at h
  | (k, v) :: rest, kv, h, hs => by
    obtain ⟨a, ha⟩ := hs (k, v) (by simp)
    simp only at ha
    subst ha
    simp only [renameKeys] at h
    rcases List.mem_cons.mp h with rfl | h'
    · exact ⟨a, v, by simp, rfl⟩
    · obtain ⟨a', v', hm, he⟩ := c08_renameKeys_mem km rest kv h' (fun kv hkv => hs kv (by simp [hkv]))
      exact ⟨a', v', by simp [hm], he⟩

theorem c08_propsOfM_names (km : KeyMap) : ∀ fields : List (String × PyVal),
    (propsOfM km [] fields).filterMap (fun p => docKey p.1) = fields.map (fun p => mapName km p.1)
  | [] => rfl
  | (n, s) :: rest => by
    have : docKey (PyVal.str (mapName km n)) = some (mapName km n) := rfl
    simp only [propsOfM, kw, List.filterMap_cons, this, List.map_cons, c08_propsOfM_names km rest]

/-- `properties` of the renamed class object against the renamed document -/
theorem c08_jsProps_rename (R S) (km : KeyMap) (r : List (PyVal × PyVal)) (hs : strKeys r)
    (L : List String) (hL : injOnB km L = true) (hr : ∀ a ∈ docKeys r, a ∈ L) :
    ∀ fields : List (String × PyVal), (∀ p ∈ fields, p.1 ∈ L) →
      (∀ n s, (n, s) ∈ fields → ∀ x, getKw n r = some x → jsV R S s x = true) →
      jsProps R S (propsOfM km [] fields) (renameKeys km r) = true
  | [], _, _ => rfl
  | (n, s) :: rest, hin, h => by
    simp only [propsOfM, lookup, addDefault, jsProps, kw, docKey, and_true_iff']
    constructor
    · rw [c08_getKw_rename km n r hs (fun a ha hab =>
        c08_injOnB_spec km L hL a n (hr a ha) (hin (n, s) (by simp)) hab)]
      cases hx : getKw n r with
      | none => rfl
      | some x => exact h n s (by simp) x hx
    · exact c08_jsProps_rename R S km r hs L hL hr rest (fun p hp => hin p (by simp [hp]))
        (fun n' s' hm => h n' s' (by simp [hm]))

theorem c08_sameSet_mem {a b : List String} (h : sameSet a b = true) (x : String) (hx : x ∈ a) : x ∈ b := by
  simp only [sameSet, and_true_iff', List.all_eq_true] at h
  simpa using h.1 x hx

/-- the renamed class object accepts the renamed document -/
theorem c08_jsV_classObjM (R S) (km : KeyMap) (c : ClassOpts) (fields : List (String × PyVal))
    (r : List (PyVal × PyVal)) (hs : strKeys r)
    (hinj : injOnB km (fields.map (·.1) ++ docKeys r) = true)
    (hreqF : requiredFaithful km c [] (fields.map (·.1)) = true)
    (hprops : ∀ n s, (n, s) ∈ fields → ∀ x, getKw n r = some x → jsV R S s x = true)
    (hreq : ∀ n ∈ c.required, (getKw n r).isSome = true)
    (haddl : c.addl = true ∨ ∀ kv ∈ r, ∃ name, docKey kv.1 = some name ∧ (fields.map (·.1)).contains name = true) :
    jsV R S (classObjM km c [] fields) (.dict (renameKeys km r)) = true := by
  unfold classObjM
  rw [jsV_dict _ _ _ _ (by simp [getKw, kw, keyIs])]
  simp only [jsKws, and_true_iff', Bool.and_true]
  have hrL : ∀ a ∈ docKeys r, a ∈ fields.map (·.1) ++ docKeys r := fun a ha => by simp [ha]
  refine ⟨?_, ?_, ?_, ?_⟩
  · simp [kw, kwOf, kwOfStr, kwNode, kwLeaf, typeOk, typeIs]
  · have := c08_jsProps_rename R S km r hs _ hinj hrL fields
      (fun p hp => by simp only [List.mem_append, List.mem_map]; exact Or.inl ⟨p, hp, rfl⟩) hprops
    simp [kw, kwOf, kwOfStr, kwNode, jsPropsV, this]
  · simp [kw, kwOf, kwOfStr, kwNode, kwLeaf, List.all_map]
    intro e he
    have he' := c08_sameSet_mem hreqF e he
    simp only [schemaRequired, List.map_nil, List.filter_nil, List.append_nil, List.mem_map] at he'
    obtain ⟨n, hn, rfl⟩ := he'
    have hsome := hreq n hn
    have hnk : n ∈ docKeys r := by
      cases hg : getKw n r with
      | none => simp [hg] at hsome
      | some x => exact c08_getKw_some_docKeys n x r hg
    rw [c08_getKw_rename km n r hs (fun a ha hab =>
      c08_injOnB_spec km _ hinj a n (hrL a ha) (hrL n hnk) hab)]
    simpa using hsome
  · simp only [kw, kwOf, kwOfStr, kwNode]
    simp
    rcases haddl with h | h
    · left; exact h
    · right
      unfold extraMembers
      rw [List.filter_eq_nil_iff]
      intro kv hkv
      obtain ⟨a, v, hm, rfl⟩ := c08_renameKeys_mem km r kv hkv hs
      obtain ⟨name, hn1, hn2⟩ := h _ hm
      have hna : name = a := by simpa [docKey] using hn1.symm
      subst hna
      have hmn : memberNames "properties"
          [(PyVal.str "type", PyVal.str "object"), (PyVal.str "properties", PyVal.dict (propsOfM km [] fields)),
           (PyVal.str "required", PyVal.list (List.map PyVal.str (requiredM km [] (fields.map (·.1)) c.required))),
           (PyVal.str "additionalProperties", PyVal.bool c.addl)] = fields.map (fun p => mapName km p.1) := by
        simp [memberNames, getKw, keyIs, c08_propsOfM_names]
      simp [docKey, hmn]
      intro hcontra
      exfalso
      simp at hn2
      obtain ⟨b, hb⟩ := hn2
      exact hcontra name b hb rfl


/-! ### the class level under a key map -/

/-- what `adm_struct_core` establishes about the serialized object, before the class object is
    looked at: shared by the mapper-free and the renamed statement -/
theorem c08_adm_struct_parts (O : Oracles) (R S) (c : ClassOpts) (fields : List (String × FieldDecl))
    (v j : PyVal)
    (hnd : nodupS (fields.map (·.1)) = true)
    (hfields : ∀ name f, (name, f) ∈ fields → ∀ x, conforms O f x = true → regF O f x = true →
      Adm O R S f x)
    (hr : regF O (.struct c fields []) v = true)
    (hj : ser O (.struct c fields []) v = .ok j) :
    ∃ r, j = .dict r ∧ strKeys r
      ∧ (∀ n s, (n, s) ∈ emitP true fields → ∀ x, getKw n r = some x → jsV R S s x = true)
      ∧ (∀ n ∈ c.required, (getKw n r).isSome = true)
      ∧ (c.addl = true ∨ ∀ kv ∈ r, ∃ name, docKey kv.1 = some name
            ∧ ((emitP true fields).map (·.1)).contains name = true) := by
  cases v with
  | inst cn attrs =>
    simp only [regF, and_true_iff'] at hr
    obtain ⟨⟨⟨⟨hcn, hand⟩, hwf⟩, hreq⟩, hrf⟩ := hr
    simp only [wfAttrs, and_true_iff'] at hwf
    obtain ⟨⟨_, hfc⟩, haddl⟩ := hwf
    simp only [ser, sInst] at hj
    have hcn' : (cn == c.name || c.accepts.contains cn) = true := by simp [hcn]
    simp only [hcn', Bool.not_true, Bool.false_eq_true, if_false] at hj
    rcases bindE_eq_ok hj with ⟨r, hrr, h2⟩
    cases h2
    obtain ⟨s1, s2, s3⟩ := serAttrs_spec (serField O fields) _ r hrr
    refine ⟨r, rfl, ?_, ?_, ?_, ?_⟩
    · intro kv hkv
      obtain ⟨a, _, ha2⟩ := s3 kv hkv
      exact ⟨a.1, ha2⟩
    · intro n s hm x hx
      obtain ⟨f, hmf, rfl⟩ := emitP_mem true n s fields hm
      obtain ⟨w, hw1, hw2⟩ := s1 n x hx
      obtain ⟨hw3, hw4⟩ := lookup_filter_of_nodup _ n w attrs hand hw1
      have hnn : w.isNone = false := by simpa using hw4
      rw [serField_of_mem O n f w fields hnd hmf] at hw2
      exact hfields n f hmf w (fieldsConform_mem O attrs n f w fields hfc hmf hw3)
        (regFields_mem O attrs n f w fields hrf hmf hw3 hnn) x hw2
    · intro n hn
      apply s2
      have hp : attrPresent attrs n = true := by
        rw [List.all_eq_true] at hreq
        exact hreq n (by simp [schemaRequired, hn])
      unfold attrPresent at hp
      cases hl : lookup n attrs with
      | none => simp [hl] at hp
      | some w =>
        simp only [hl] at hp
        rw [lookup_filter_some _ n w attrs hl (by simpa using hp)]
        rfl
    · cases ha : c.addl with
      | true => left; rfl
      | false =>
        right
        intro kv hkv
        obtain ⟨a, ha1, ha2⟩ := s3 kv hkv
        refine ⟨a.1, by rw [ha2]; rfl, ?_⟩
        rw [emitP_names]
        simp only [ha, Bool.false_or] at haddl
        rw [List.all_eq_true] at haddl
        exact haddl a (List.mem_filter.mp ha1).1
  | _ => simp [regF] at hr

/-- **schema_admits under a key-renaming mapper** (top-level class): the schema exported for the class
    with key map `km` accepts the serialization written with that key map -/
theorem c08_admits_class_renamed (O : Oracles) (S : String → String → Bool)
    (hS : ∀ p s, O.reMatch p s = true → S p s = true) (D : Defs) (km : KeyMap) (cls : FieldDecl) (x j : PyVal)
    (n : Nat) (hfrag : inSchemaFragment cls = true) (hrefs : ClassRefsFaithful D cls) (hd : refDepth cls ≤ n)
    (hreg : inAdmitRegion O cls x = true) (hser : serialize O cls x = .ok j)
    (hsafe : renameSafe km cls j = true) :
    jsV (resolver D S n) S (classSchemaM true km cls) (renameDoc km j) = true := by
  cases cls with
  | struct c fields defaults =>
    simp only [inSchemaFragment, fragF, and_true_iff'] at hfrag
    obtain ⟨⟨hni, hncol⟩, ⟨hnd, hfp⟩⟩ := hfrag
    have hdef' : defaults = [] := by
      cases j with
      | dict r0 =>
        simp only [renameSafe, and_true_iff'] at hsafe
        simpa using hsafe.1.1
      | _ => simp [renameSafe] at hsafe
    subst hdef'
    have hin : c.inline = false := by simpa using hni
    simp only [ClassRefsFaithful] at hrefs
    simp only [refDepth, hin, Bool.false_eq_true, if_false] at hd
    have hncol' : collapses c (fields.map (·.1)) = false := by simpa using hncol
    simp only [classSchemaM, hncol', Bool.false_eq_true, if_false]
    obtain ⟨r, rfl, hstr, hprops, hreq, haddl⟩ := c08_adm_struct_parts O _ S c fields x j hnd
      (fun name f hm y hcy hry =>
        admits_fields O S hS D fields n hfp hrefs (by omega) name f hm y hcy hry) hreg hser
    simp only [renameSafe, and_true_iff'] at hsafe
    simp only [renameDoc]
    refine c08_jsV_classObjM _ S km c (emitP true fields) r hstr ?_ ?_ hprops hreq haddl
    · rw [emitP_names]; exact hsafe.1.2
    · rw [emitP_names]; exact hsafe.2
  | _ => simp [inSchemaFragment] at hfrag

/-! ### the dialect rewrite commutes with the key map -/

theorem c08_fix_propsOfM (km : KeyMap) (defaults : List (String × PyVal)) : ∀ fields : List (String × PyVal),
    fixProps (propsOfM km defaults fields) = propsOfM km defaults (fixFields fields)
  | [] => rfl
  | (n, s) :: rest => by
    simp only [propsOfM, fixProps, kw, fixFields, c08_fix_addDefault, c08_fix_propsOfM km defaults rest]

theorem c08_fix_classObjM (km : KeyMap) (c : ClassOpts) (defaults : List (String × PyVal))
    (fields : List (String × PyVal)) :
    dialectFix (classObjM km c defaults fields) = classObjM km c defaults (fixFields fields) := by
  unfold classObjM
  rw [c08_fixFields_names fields]
  generalize requiredM km defaults (fields.map (·.1)) c.required = req
  simp [dialectFix, fixKws, kw, keyIs, fixPropsV, c08_fix_propsOfM]

theorem c08_fix_classSchemaM (km : KeyMap) (cls : FieldDecl) :
    dialectFix (classSchemaM false km cls) = classSchemaM true km cls := by
  cases cls with
  | struct c fields defaults =>
    simp only [classSchemaM]
    split
    · cases fields with
      | nil => rfl
      | cons p ps =>
        obtain ⟨n, f⟩ := p
        simp only [emitP, c08_fix_emit f]
    · rw [c08_fix_classObjM, c08_fix_emitP]
  | _ => rfl

end Typedpy.Sch
