/-
  Lemmas/Complete.lean — `validate` refines the documented accept decision / normal form
  (`admits` / `norm`): the induction behind C02.
-/
import TypedpyModel.Lemmas.Basic
namespace Typedpy
open PyVal (pyEq pyMem pyNodup)

/-- `r` implements the decision `a` with normal form `n`, rejecting with a documented class -/
def Sp {α} (a : Bool) (n : α) (r : R α) : Prop :=
  (a = true → r = .ok n) ∧ (a = false → IsReject r)

/-- the executable validation agrees with the documented accept decision and normal form, and
    every rejection is a TypeError / ValueError -/
abbrev Spec (O : Oracles) (f : FieldDecl) (v : PyVal) : Prop :=
  Sp (admits O f v) (norm O f v) (validate O f v)

theorem Sp.pure {α} (n : α) : Sp true n (.ok n) := ⟨fun _ => rfl, fun h => (nomatch h)⟩
theorem Sp.typeErr {α} (n : α) : Sp false n (.error .typeErr) :=
  ⟨fun h => (nomatch h), fun _ => isReject_type⟩
theorem Sp.valueErr {α} (n : α) : Sp false n (.error .valueErr) :=
  ⟨fun h => (nomatch h), fun _ => isReject_value⟩

theorem Sp.guard {α} {a : Bool} {n : α} {r : R α} (c : Bool) (h : Sp a n r) :
    Sp (c && a) n (if !c then .error .valueErr else r) := by
  cases c <;> simp [Sp, isReject_value] ; exact h

theorem Sp.guardT {α} {a : Bool} {n : α} {r : R α} (c : Bool) (h : Sp a n r) :
    Sp (c && a) n (if !c then .error .typeErr else r) := by
  cases c <;> simp [Sp, isReject_type] ; exact h

theorem Sp.post {α} (c : Bool) (n : α) : Sp c n (if !c then .error .valueErr else .ok n) := by
  cases c <;> simp [Sp, isReject_value]

theorem Sp.ite {α} (c : Bool) (n : α) : Sp c n (if c then .ok n else .error .valueErr) := by
  cases c <;> simp [Sp, isReject_value]

theorem Sp.bind {α β} {a a' : Bool} {n : α} {n' : β} {r : R α} {k : α → R β}
    (h : Sp a n r) (hk : Sp a' n' (k n)) : Sp (a && a') n' (bindE r k) := by
  cases ha : a
  · rcases h.2 ha with ⟨e, he, hc⟩
    subst he
    exact ⟨fun h => by simp at h, fun _ => ⟨e, rfl, hc⟩⟩
  · have := h.1 ha
    subst this
    simpa using hk

theorem Sp.congr {α} {a a' : Bool} {n n' : α} {r : R α} (h : Sp a n r) (ha : a' = a)
    (hn : a = true → n' = n) : Sp a' n' r := by
  subst ha
  refine ⟨fun ht => ?_, h.2⟩
  rw [hn ht]; exact h.1 ht

theorem mapE_spec {α β} (g : α → R β) (a : α → Bool) (n : α → β) :
    ∀ xs : List α, (∀ x ∈ xs, Sp (a x) (n x) (g x)) → Sp (xs.all a) (xs.map n) (mapE g xs)
  | [], _ => by simp [mapE, Sp]
  | x :: xs, h => by
    have hx := h x (by simp)
    have ih := mapE_spec g a n xs (fun y hy => h y (by simp [hy]))
    simp only [mapE, List.all_cons, List.map_cons]
    have h2 := Sp.bind (k := fun ys => (Except.ok (n x :: ys) : R (List β))) ih (Sp.pure _)
    rw [Bool.and_true] at h2
    exact Sp.bind hx h2

theorem lookup_isSome_map {α} (k : String) :
    ∀ l : List (String × α), (lookup k l).isSome = (l.map (·.1)).contains k
  | [] => rfl
  | (k', v) :: rest => by
    simp only [lookup, List.map, List.contains_cons]
    by_cases h : k = k'
    · simp [h]
    · have : (k == k') = false := by simp [h]
      simp [this, lookup_isSome_map k rest]

theorem lookup_isNone_map {α} (k : String) (l : List (String × α)) :
    (lookup k l).isNone = !(l.map (·.1)).contains k := by
  rw [← lookup_isSome_map]; cases lookup k l <;> rfl

theorem Sp.iteT {α} (c : Bool) (n : α) : Sp c n (if c then .ok n else .error .typeErr) := by
  cases c <;> simp [Sp, isReject_type]

theorem vNumber_spec (o v) : Sp (aNumber o v) v (vNumber o v) := by
  unfold aNumber vNumber
  cases v.asNum with
  | none => exact Sp.typeErr _
  | some q => exact Sp.ite _ _

theorem vInteger_spec (o v) : Sp (aInteger o v) v (vInteger o v) := by
  unfold aInteger vInteger
  cases v <;> first | exact Sp.typeErr _ | exact Sp.ite _ _

theorem vFloat_spec (o v) : Sp (aFloat o v) (nFloat v) (vFloat o v) := by
  unfold aFloat vFloat nFloat
  cases v <;> first | exact Sp.typeErr _ | exact Sp.ite _ _

theorem vString_spec (O lo hi pat v) : Sp (aString O lo hi pat v) v (vString O lo hi pat v) := by
  unfold aString vString
  cases v <;> try exact Sp.typeErr _
  rename_i s
  have h : Sp (patOk O pat s) (PyVal.str s) (vPattern O pat s) := by
    unfold patOk vPattern
    cases pat with
    | none => exact Sp.pure _
    | some p => exact Sp.ite _ _
  have := Sp.guard (leLen hi s.length) (Sp.guard (geLen lo s.length) h)
  refine Sp.congr this ?_ (fun _ => rfl)
  show (geLen lo s.length && leLen hi s.length && patOk O pat s) = _
  cases geLen lo s.length <;> cases leLen hi s.length <;> rfl

theorem vBoolean_spec (v) : Sp (aBoolean v) (nBoolean v) (vBoolean v) := by
  unfold aBoolean vBoolean nBoolean
  cases v <;> first | exact Sp.typeErr _ | exact Sp.pure _ | skip
  rename_i s
  by_cases h1 : s = "True"
  · subst h1; exact Sp.pure _
  · by_cases h2 : s = "False"
    · subst h2; exact Sp.pure _
    · have e1 : (s == "True") = false := by simp [h1]
      have e2 : (s == "False") = false := by simp [h2]
      simp only [e1, e2, Bool.or_false, Bool.false_eq_true, if_false]; exact Sp.typeErr _

theorem vEnumLit_spec (vals v) : Sp (pyMem v vals) v (vEnumLit vals v) := Sp.ite _ _

theorem vEnumCls_spec (cls names v) : Sp (aEnumCls cls names v) (nEnumCls cls v) (vEnumCls cls names v) := by
  unfold aEnumCls vEnumCls nEnumCls
  cases v <;> first | exact Sp.ite _ _ | exact Sp.typeErr _ | exact Sp.valueErr _

theorem vSeq_spec (k sz pre) {g : List PyVal → R (List PyVal)} {a n}
    (hg : ∀ xs, Sp (a xs) (n xs) (g xs)) (v) :
    Sp (aSeq k sz pre a n v) (nSeq k n v) (vSeq k sz pre g v) := by
  unfold aSeq nSeq vSeq
  cases seqElems k v with
  | none => exact Sp.typeErr _
  | some xs =>
    simp only [Bool.and_assoc]
    exact Sp.guard _ (Sp.guard _ (Sp.guard _ (Sp.bind (hg xs) (Sp.post _ _))))

theorem vSet_spec (imm sz) {g : List PyVal → R (List PyVal)} {a n}
    (hg : ∀ xs, Sp (a xs) (n xs) (g xs)) (v) :
    Sp (aSet sz a n v) (nSet imm n v) (vSet imm sz g v) := by
  unfold aSet nSet vSet
  cases v <;> try exact Sp.typeErr _
  rename_i fr xs
  simp only [Bool.and_assoc]
  exact Sp.guard _ (Sp.bind (hg xs) (Sp.post _ _))

theorem vTuple_spec (uniq pre) {g : List PyVal → R (List PyVal)} {a n}
    (hg : ∀ xs, Sp (a xs) (n xs) (g xs)) (v) :
    Sp (aTuple uniq pre a n v) (nTuple n v) (vTuple uniq pre g v) := by
  unfold aTuple nTuple vTuple
  cases v <;> try exact Sp.typeErr _
  rename_i xs
  simp only [Bool.and_assoc]
  exact Sp.guard _ (Sp.guard _ (Sp.bind (hg xs) (Sp.post _ _)))

theorem vMap_spec (sz) {g : List (PyVal × PyVal) → R (List (PyVal × PyVal))} {a n}
    (hg : ∀ xs, Sp (a xs) (n xs) (g xs)) (v) :
    Sp (aMap sz a n v) (nMap n v) (vMap sz g v) := by
  unfold aMap nMap vMap
  cases v <;> try exact Sp.typeErr _
  rename_i xs
  simp only [Bool.and_assoc]
  exact Sp.guard _ (Sp.bind (hg xs) (Sp.post _ _))

theorem vClassRef_spec (c v) : Sp (aClassRef c v) v (vClassRef c v) := by
  unfold aClassRef vClassRef
  cases v <;> try exact Sp.typeErr _
  exact Sp.iteT _ _

theorem vInline_spec {k : List (String × PyVal) → R PyVal} {a n}
    (hk : ∀ kw, Sp (a kw) (n kw) (k kw)) (v) :
    Sp (aInline v a) (nInline v n) (vInline v k) := by
  unfold aInline nInline vInline
  cases v <;> try exact Sp.typeErr _
  · rename_i kvs
    dsimp only
    cases kwOfDict kvs with
    | none => exact Sp.typeErr _
    | some kw => exact hk kw
  · exact hk _

theorem vNone_spec (v : PyVal) : Sp v.isNone v (vNone v) := by
  exact Sp.iteT _ _

theorem bindOk_eq (c names kw) : bindOk c names kw = kwShapeOk c names kw := by
  unfold bindOk kwShapeOk
  congr 1
  · induction c.required with
    | nil => rfl
    | cons r rs ih =>
      simp only [List.any_cons, List.all_cons, Bool.not_or, ih]
      cases lookup r kw <;> simp
  · cases c.addl
    · simp only [Bool.not_false, Bool.true_and, Bool.false_or]
      induction kw with
      | nil => rfl
      | cons a rest ih =>
        simp only [List.any_cons, List.all_cons, Bool.not_or, ih]
        cases names.contains a.1 <;> simp
    · simp

theorem vConstruct_spec (c names kw) {g : R (List (String × PyVal))} {a n}
    (hg : Sp a n g) :
    Sp (kwShapeOk c names kw && a) (PyVal.inst c.name (extrasOf c names kw ++ n))
      (vConstruct c names kw g) := by
  unfold vConstruct
  rw [← bindOk_eq]
  have := Sp.bind (k := fun attrs => (Except.ok (PyVal.inst c.name (extrasOf c names kw ++ attrs)) : R PyVal)) hg (Sp.pure _)
  rw [Bool.and_true] at this
  exact Sp.guardT _ this

mutual
theorem validate_spec (O : Oracles) : ∀ (f : FieldDecl) (v : PyVal), Spec O f v
  | .number o, v => by simp only [Spec, admits, norm, validate]; exact vNumber_spec o v
  | .integer o, v => by simp only [Spec, admits, norm, validate]; exact vInteger_spec o v
  | .float o, v => by simp only [Spec, admits, norm, validate]; exact vFloat_spec o v
  | .string lo hi pat, v => by simp only [Spec, admits, norm, validate]; exact vString_spec O lo hi pat v
  | .boolean, v => by simp only [Spec, admits, norm, validate]; exact vBoolean_spec v
  | .enumLit vals, v => by simp only [Spec, admits, norm, validate]; exact vEnumLit_spec vals v
  | .enumCls cls names, v => by simp only [Spec, admits, norm, validate]; exact vEnumCls_spec cls names v
  | .seqAny k sz, v => by
    simp only [Spec, admits, norm, validate]
    exact vSeq_spec k sz _ (a := fun _ => true) (n := id) (fun xs => Sp.pure xs) v
  | .seqOf k f sz, v => by
    simp only [Spec, admits, norm, validate]
    exact vSeq_spec k sz _ (fun xs => mapE_spec _ _ _ xs (fun x _ => validate_spec O f x)) v
  | .seqPos k fs addl sz, v => by
    simp only [Spec, admits, norm, validate]
    exact vSeq_spec k sz _ (fun xs => validateZip_spec O fs xs) v
  | .setAny imm sz, v => by
    simp only [Spec, admits, norm, validate]
    exact vSet_spec imm sz (a := fun _ => true) (n := id) (fun xs => Sp.pure xs) v
  | .setOf imm f sz, v => by
    simp only [Spec, admits, norm, validate]
    exact vSet_spec imm sz (fun xs => mapE_spec _ _ _ xs (fun x _ => validate_spec O f x)) v
  | .tupleOf f uniq, v => by
    simp only [Spec, admits, norm, validate]
    exact vTuple_spec uniq _ (fun xs => mapE_spec _ _ _ xs (fun x _ => validate_spec O f x)) v
  | .tuplePos fs uniq, v => by
    simp only [Spec, admits, norm, validate]
    exact vTuple_spec uniq _ (fun xs => validateZip_spec O fs xs) v
  | .mapAny sz, v => by
    simp only [Spec, admits, norm, validate]
    exact vMap_spec sz (a := fun _ => true) (n := id) (fun xs => Sp.pure xs) v
  | .mapOf kf vf sz, v => by
    simp only [Spec, admits, norm, validate]
    refine vMap_spec sz (fun kvs => mapE_spec _ _ _ kvs (fun kv _ => ?_)) v
    have h2 := Sp.bind (k := fun v' => (Except.ok (norm O kf kv.1, v') : R (PyVal × PyVal)))
      (validate_spec O vf kv.2) (Sp.pure _)
    rw [Bool.and_true] at h2
    exact Sp.bind (validate_spec O kf kv.1) h2
  | .struct c fields defaults, v => by
    simp only [Spec, admits, norm, validate]
    cases c.inline
    · simp only [Bool.false_eq_true, if_false]; exact vClassRef_spec c v
    · simp only [if_true]
      exact vInline_spec (fun kw => vConstruct_spec c _ kw (validateFields_spec O c defaults kw fields)) v
  | .anyOf fs, v => by simp only [Spec, admits, norm, validate]; exact validateAny_spec O fs v
  | .oneOf fs, v => by
    simp only [Spec, admits, norm, validate, countOk_eq O fs v]; exact Sp.ite _ _
  | .allOf fs, v => by
    simp only [Spec, admits, norm, validate]
    have := Sp.bind (k := fun _ => (Except.ok v : R PyVal)) (validateEach_spec O fs v) (Sp.pure _)
    rw [Bool.and_true] at this
    exact this
  | .notF fs, v => by
    simp only [Spec, admits, norm, validate, countOk_eq O fs v]; exact Sp.ite _ _
  | .noneF, v => by simp only [Spec, admits, norm, validate]; exact vNone_spec v
  | .anything, v => by simp only [Spec, admits, norm, validate]; exact Sp.pure _

theorem validateZip_spec (O : Oracles) :
    ∀ (fs : List FieldDecl) (xs : List PyVal),
      Sp (admitsZip O fs xs) (normZip O fs xs) (validateZip O fs xs)
  | [], xs => by simp only [admitsZip, normZip, validateZip]; exact Sp.pure _
  | _ :: _, [] => by simp only [admitsZip, normZip, validateZip]; exact Sp.pure _
  | f :: fs, x :: xs => by
    simp only [admitsZip, normZip, validateZip]
    have h2 := Sp.bind (k := fun ys => (Except.ok (norm O f x :: ys) : R (List PyVal)))
      (validateZip_spec O fs xs) (Sp.pure _)
    rw [Bool.and_true] at h2
    exact Sp.bind (validate_spec O f x) h2

theorem validateAny_spec (O : Oracles) :
    ∀ (fs : List FieldDecl) (v : PyVal), Sp (admitsAny O fs v) (normAny O fs v) (validateAny O fs v)
  | [], v => by simp only [admitsAny, normAny, validateAny]; exact Sp.valueErr _
  | f :: fs, v => by
    simp only [admitsAny, normAny, validateAny]
    have h := validate_spec O f v
    cases ha : admits O f v
    · rcases h.2 ha with ⟨e, he, _⟩
      simp only [he, Bool.false_or, Bool.false_eq_true, if_false]
      exact validateAny_spec O fs v
    · simp only [h.1 ha, Bool.true_or, if_true]
      exact Sp.pure _

theorem countOk_eq (O : Oracles) :
    ∀ (fs : List FieldDecl) (v : PyVal), countOk O fs v = countAdmits O fs v
  | [], v => by simp only [countOk, countAdmits]
  | f :: fs, v => by
    simp only [countOk, countAdmits, countOk_eq O fs v]
    have h := validate_spec O f v
    cases ha : admits O f v
    · rcases h.2 ha with ⟨e, he, _⟩
      simp [he]
    · simp [h.1 ha]

theorem validateEach_spec (O : Oracles) :
    ∀ (fs : List FieldDecl) (v : PyVal), Sp (admitsAll O fs v) () (validateEach O fs v)
  | [], v => by simp only [admitsAll, validateEach]; exact Sp.pure _
  | f :: fs, v => by
    simp only [admitsAll, validateEach]
    exact Sp.bind (validate_spec O f v) (validateEach_spec O fs v)

theorem validateFields_spec (O : Oracles) (c : ClassOpts) (defaults kw : List (String × PyVal)) :
    ∀ (fields : List (String × FieldDecl)),
      Sp (admitsFields O c defaults kw fields) (normFields O c defaults kw fields)
        (validateFields O c defaults kw fields)
  | [] => by simp only [admitsFields, normFields, validateFields]; exact Sp.pure _
  | (name, f) :: rest => by
    simp only [admitsFields, normFields, validateFields]
    cases argFor c defaults kw name with
    | none => simp only [Bool.true_and]; exact validateFields_spec O c defaults kw rest
    | some v =>
      simp only []
      have h2 := Sp.bind (k := fun ys => (Except.ok ((name, norm O f v) :: ys) : R (List (String × PyVal))))
        (validateFields_spec O c defaults kw rest) (Sp.pure _)
      rw [Bool.and_true] at h2
      exact Sp.bind (validate_spec O f v) h2
end


theorem C02_construct_spec (O : Oracles) (c : ClassOpts) (fields : List (String × FieldDecl))
    (defaults kw : List (String × PyVal)) :
    Sp (admitsKw O (.struct c fields defaults) kw) (normKw O (.struct c fields defaults) kw)
      (construct O (.struct c fields defaults) kw) := by
  simp only [admitsKw, normKw, construct]
  exact vConstruct_spec c _ kw (validateFields_spec O c defaults kw fields)

end Typedpy
