/-
  Lemmas/JsValid.lean — generic lemmas about the draft-4 validator `jsV` and about raw JSON objects
  (`getKw` over `++` / `optKw`), and the per-keyword-group lemmas for the keyword lists the typedpy
  mappers emit (`numKws`, `strKws`, `arrKws`, `setKws`, `tupKws`, `mapKws`, `classObj`).
-/
import TypedpyModel.Spec.SchemaFrag
import TypedpyModel.Lemmas.Sound
namespace Typedpy.Sch
open Typedpy

/-! ### raw objects -/

theorem getKw_append (k : String) (a b : List (PyVal × PyVal)) :
    getKw k (a ++ b) = (match getKw k a with | some v => some v | none => getKw k b) := by
  induction a with
  | nil => simp [getKw]
  | cons x xs ih =>
    obtain ⟨k', v⟩ := x
    simp only [List.cons_append, getKw]
    split <;> simp [ih]

theorem getKw_optKw (k k' : String) (ov : Option PyVal) :
    getKw k (optKw k' ov) = if k' == k then ov else none := by
  cases ov <;> simp [optKw, getKw, kw, keyIs]

theorem getKw_kw_cons (k k' : String) (v : PyVal) (rest : List (PyVal × PyVal)) :
    getKw k (kw k' v :: rest) = if k' == k then some v else getKw k rest := by
  simp [getKw, kw, keyIs]

/-! ### keyword lists -/

theorem jsKws_append (R S) (ctx a b : List (PyVal × PyVal)) (d : PyVal) :
    jsKws R S ctx (a ++ b) d = (jsKws R S ctx a d && jsKws R S ctx b d) := by
  induction a with
  | nil => simp [jsKws]
  | cons x xs ih =>
    obtain ⟨k, v⟩ := x
    simp only [List.cons_append, jsKws, ih, Bool.and_assoc]

theorem jsKws_optKw (R S) (ctx : List (PyVal × PyVal)) (k : String) (ov : Option PyVal) (d : PyVal) :
    jsKws R S ctx (optKw k ov) d =
      (match ov with | none => true | some v => jsKws R S ctx [kw k v] d) := by
  cases ov <;> simp [optKw, jsKws]

/-- a schema object without `$ref` is judged keyword by keyword -/
theorem jsV_dict (R S) (kws : List (PyVal × PyVal)) (d : PyVal) (h : getKw "$ref" kws = none) :
    jsV R S (.dict kws) d = jsKws R S kws kws d := by
  simp [jsV, h]

theorem and_true_iff' {a b : Bool} : (a && b) = true ↔ a = true ∧ b = true := by
  cases a <;> cases b <;> simp

/-! ### numbers -/

theorem getKw_ref_numKws (ty : String) (isInt : Bool) (o : NumOpts) :
    getKw "$ref" (numKws true ty isInt o) = none := by
  simp [numKws, getKw_append, getKw_optKw, getKw_kw_cons, multKey, getKw]

theorem boolKw_exclMax_numKws (ty : String) (isInt : Bool) (o : NumOpts) :
    boolKw "exclusiveMaximum" (numKws true ty isInt o) = exclEff o := by
  cases h : exclEff o <;>
    simp [boolKw, numKws, getKw_append, getKw_optKw, getKw_kw_cons, multKey, getKw, h]

theorem boolKw_exclMin_numKws (ty : String) (isInt : Bool) (o : NumOpts) :
    boolKw "exclusiveMinimum" (numKws true ty isInt o) = false := by
  simp [boolKw, numKws, getKw_append, getKw_optKw, getKw_kw_cons, multKey, getKw]

theorem jsNum_numJ (q : Q) : ∃ q', jsNum (numJ q) = some q' ∧ q'.num = q.num ∧ q'.den = q.den := by
  unfold numJ
  split
  · rename_i h
    refine ⟨Q.ofInt q.num, rfl, rfl, ?_⟩
    simp at h
    simp [Q.ofInt, h]
  · exact ⟨q, rfl, rfl, rfl⟩

theorem Q_le_congr (a a' b : Q) (hn : a'.num = a.num) (hd : a'.den = a.den) : Q.le a' b = Q.le a b := by
  simp [Q.le, hn, hd]
theorem Q_lt_congr_right (a b b' : Q) (hn : b'.num = b.num) (hd : b'.den = b.den) :
    Q.lt a b' = Q.lt a b := by
  simp [Q.lt, hn, hd]
theorem Q_le_congr_right (a b b' : Q) (hn : b'.num = b.num) (hd : b'.den = b.den) :
    Q.le a b' = Q.le a b := by
  simp [Q.le, hn, hd]

theorem emod_natAbs_mul (a m : Int) (d : Nat) :
    a % ((Int.ofNat m.natAbs) * (d : Int)) = a % (m * (d : Int)) := by
  rcases Int.natAbs_eq m with h | h
  · simp only [Int.ofNat_eq_natCast]; rw [← h]
  · have : m * (d : Int) = -((Int.ofNat m.natAbs) * (d : Int)) := by
      simp only [Int.ofNat_eq_natCast]; rw [Int.neg_mul_eq_neg_mul]; rw [← h]
    rw [this, Int.emod_neg]

theorem jsKws_numKws (R S) (ctx : List (PyVal × PyVal)) (ty : String) (isInt : Bool) (o : NumOpts)
    (d : PyVal) (q : Q)
    (hex : boolKw "exclusiveMaximum" ctx = exclEff o) (hem : boolKw "exclusiveMinimum" ctx = false)
    (hty : typeIs ty d = true) (hq : jsNum d = some q)
    (hmult : multOk o.mult q = true)
    (hmin : geMin (effMin isInt o) q = true)
    (hmax : (match effMax isInt o with
             | none => true
             | some hi => if exclEff o then Q.lt q hi else Q.le q hi) = true) :
    jsKws R S ctx (numKws true ty isInt o) d = true := by
  simp only [numKws, jsKws_append, jsKws_optKw, and_true_iff']
  refine ⟨⟨⟨⟨?_, ?_⟩, ?_⟩, ?_⟩, ?_⟩
  · simp [jsKws, kw, kwOf, kwOfStr, kwNode, kwLeaf, typeOk, hty]
  · cases hm : o.mult with
    | none => rfl
    | some m =>
      simp only [Option.map, multKey, if_true]
      have hji : jsNum (absJ m) = some (Q.ofInt (Int.ofNat m.natAbs)) := rfl
      simp [jsKws, kw, kwOf, kwOfStr, kwNode, kwLeaf, hq, hji, isMult, Q.ofInt]
      simp [multOk, hm, Q.isMultipleOf] at hmult
      have := emod_natAbs_mul q.num m q.den
      simp only [Int.ofNat_eq_natCast] at this
      rw [this]; exact hmult
  · cases hm : effMin isInt o with
    | none => rfl
    | some m =>
      obtain ⟨m', hm1, hm2, hm3⟩ := jsNum_numJ m
      simp only [Option.map]
      simp [jsKws, kw, kwOf, kwOfStr, kwNode, kwLeaf, hq, hm1, hem]
      rw [Q_le_congr m m' q hm2 hm3]
      simpa [geMin, hm] using hmin
  · cases hm : effMax isInt o with
    | none => rfl
    | some m =>
      obtain ⟨m', hm1, hm2, hm3⟩ := jsNum_numJ m
      simp only [Option.map]
      simp [jsKws, kw, kwOf, kwOfStr, kwNode, kwLeaf, hq, hm1, hex]
      simp only [hm] at hmax
      cases he : exclEff o with
      | false => simp [he] at hmax ⊢; rw [Q_le_congr_right q m m' hm2 hm3]; exact hmax
      | true => simp [he] at hmax ⊢; rw [Q_lt_congr_right q m m' hm2 hm3]; exact hmax
  · cases he : exclEff o with
    | false => rfl
    | true => simp [jsKws, kw, kwOf, kwOfStr, kwNode, kwLeaf]

/-- the number keywords accept a JSON number that satisfies the effective bounds -/
theorem jsV_numKws (R S) (ty : String) (isInt : Bool) (o : NumOpts) (d : PyVal) (q : Q)
    (hty : typeIs ty d = true) (hq : jsNum d = some q)
    (hmult : multOk o.mult q = true)
    (hmin : geMin (effMin isInt o) q = true)
    (hmax : (match effMax isInt o with
             | none => true
             | some hi => if exclEff o then Q.lt q hi else Q.le q hi) = true) :
    jsV R S (.dict (numKws true ty isInt o)) d = true := by
  rw [jsV_dict _ _ _ _ (getKw_ref_numKws ty isInt o)]
  exact jsKws_numKws R S _ ty isInt o d q (boolKw_exclMax_numKws ty isInt o)
    (boolKw_exclMin_numKws ty isInt o) hty hq hmult hmin hmax

/-! ### strings, booleans, enums -/

theorem natOf_natJ (n : Nat) : natOf (natJ n) = some n := by
  simp [natOf, natJ]

theorem jsKws_strKws (R S) (ctx : List (PyVal × PyVal)) (lo hi : Option Nat) (pat : Option String)
    (s : String) (hlo : geLen lo s.length = true) (hhi : leLen hi s.length = true)
    (hp : (match pat with | none => true | some p => S p s) = true) :
    jsKws R S ctx (strKws lo hi pat) (.str s) = true := by
  simp only [strKws, jsKws_append, jsKws_optKw, and_true_iff']
  refine ⟨⟨⟨?_, ?_⟩, ?_⟩, ?_⟩
  · simp [jsKws, kw, kwOf, kwOfStr, kwNode, kwLeaf, typeOk, typeIs]
  · cases lo with
    | none => rfl
    | some n =>
      simp only [Option.map]
      simp [jsKws, kw, kwOf, kwOfStr, kwNode, kwLeaf, natOf_natJ]
      simpa [geLen] using hlo
  · cases hi with
    | none => rfl
    | some n =>
      simp only [Option.map]
      simp [jsKws, kw, kwOf, kwOfStr, kwNode, kwLeaf, natOf_natJ]
      simpa [leLen] using hhi
  · cases pat with
    | none => rfl
    | some p =>
      simp only [Option.map]
      simp [jsKws, kw, kwOf, kwOfStr, kwNode, kwLeaf]
      simpa using hp

theorem jsV_strKws (R S) (lo hi : Option Nat) (pat : Option String) (s : String)
    (hlo : geLen lo s.length = true) (hhi : leLen hi s.length = true)
    (hp : (match pat with | none => true | some p => S p s) = true) :
    jsV R S (.dict (strKws lo hi pat)) (.str s) = true := by
  have href : getKw "$ref" (strKws lo hi pat) = none := by
    simp [strKws, getKw_append, getKw_optKw, getKw, kw, keyIs]
  rw [jsV_dict _ _ _ _ href]
  exact jsKws_strKws R S _ lo hi pat s hlo hhi hp

theorem jsV_boolean (R S) (b : Bool) : jsV R S (.dict [kw "type" (.str "boolean")]) (.bool b) = true := by
  simp [jsV, getKw, kw, keyIs, jsKws, kwOf, kwOfStr, kwNode, kwLeaf, typeOk, typeIs]

theorem jsV_enum (R S) (vs : List PyVal) (d : PyVal) :
    jsV R S (.dict [kw "enum" (.list vs)]) d = jsonMem d vs := by
  simp [jsV, getKw, kw, keyIs, jsKws, kwOf, kwOfStr, kwNode, kwLeaf]

theorem jsV_refTo (R S) (name : String) (d : PyVal) :
    jsV R S (refTo name) d = R ("#/definitions/" ++ name) d := by
  simp [refTo, jsV, getKw, kw, keyIs]

theorem jsV_anyOf (R S) (ss : List PyVal) (d : PyVal) :
    jsV R S (.dict [kw "anyOf" (.list ss)]) d = jsAnyL R S ss d := by
  simp [jsV, getKw, kw, keyIs, jsKws, kwOf, kwOfStr, kwNode, jsAnyV]

theorem jsV_allOf (R S) (ss : List PyVal) (d : PyVal) :
    jsV R S (.dict [kw "allOf" (.list ss)]) d = jsAllL R S ss d := by
  simp [jsV, getKw, kw, keyIs, jsKws, kwOf, kwOfStr, kwNode, jsAllV]

/-! ### element position -/

theorem jsV_elemWrap (R S) (f : FieldDecl) (s d : PyVal) (h : jsV R S s d = true) :
    jsV R S (elemWrap f s) d = true := by
  unfold elemWrap
  split
  · cases s with
    | dict kvs => simp only []; rw [jsV_anyOf]; simp [jsAnyL, h]
    | _ => exact h
  · exact h

/-! ### arrays -/

/-- a schema as the mappers emit it: a JSON object (or nothing, when the mapping raises) -/
def dictOrNone : PyVal → Bool
  | .dict _ => true
  | .none => true
  | _ => false

theorem elemWrap_shape (f : FieldDecl) (s : PyVal) (h : dictOrNone s = true) : dictOrNone (elemWrap f s) = true := by
  unfold elemWrap
  split
  · cases s <;> simp_all [dictOrNone]
  · exact h

theorem uniqKw_ok (R S) (ctx : List (PyVal × PyVal)) (u : Bool) (ys : List PyVal)
    (hu : u = true → jsonNodup ys = true) :
    jsKws R S ctx (optKw "uniqueItems" (if u then some (.bool true) else none)) (.list ys) = true := by
  cases u with
  | false => rfl
  | true => simp [optKw, jsKws, kw, kwOf, kwOfStr, kwNode, kwLeaf, hu rfl]

theorem sizeKws_ok (R S) (ctx : List (PyVal × PyVal)) (sz : SizeOpts) (ys : List PyVal)
    (hsz : sizeOk sz ys.length = true) :
    jsKws R S ctx (optKw "maxItems" (sz.max.map natJ)) (.list ys) = true
      ∧ jsKws R S ctx (optKw "minItems" (sz.min.map natJ)) (.list ys) = true := by
  simp only [sizeOk, and_true_iff'] at hsz
  constructor
  · cases h : sz.max with
    | none => rfl
    | some n =>
      simp only [Option.map, optKw]
      simp [jsKws, kw, kwOf, kwOfStr, kwNode, kwLeaf, natOf_natJ]
      simpa [leLen, h] using hsz.2
  · cases h : sz.min with
    | none => rfl
    | some n =>
      simp only [Option.map, optKw]
      simp [jsKws, kw, kwOf, kwOfStr, kwNode, kwLeaf, natOf_natJ]
      simpa [geLen, h] using hsz.1

theorem itemsSingle_ok (R S) (ctx : List (PyVal × PyVal)) (s : PyVal) (ys : List PyVal)
    (hs : dictOrNone s = true) (hall : ys.all (jsV R S s) = true) :
    jsKws R S ctx [kw "items" s] (.list ys) = true := by
  cases s <;> simp [dictOrNone] at hs <;>
    simp [jsKws, kw, kwOf, kwOfStr, kwNode] <;> simpa using hall

theorem itemsPos_ok (R S) (ctx : List (PyVal × PyVal)) (ss ys : List PyVal)
    (hz : jsZip R S ss ys = true) :
    jsKws R S ctx [kw "items" (.list ss)] (.list ys) = true := by
  simp [jsKws, kw, kwOf, kwOfStr, kwNode, jsZipV, hz]

theorem getKw_ref_arrKws (sz : SizeOpts) (addl items : Option PyVal) :
    getKw "$ref" (arrKws sz addl items) = none := by
  simp [arrKws, getKw_append, getKw_optKw, getKw, kw, keyIs]

theorem typeArray_ok (R S) (ctx : List (PyVal × PyVal)) (ys : List PyVal) :
    jsKws R S ctx [kw "type" (.str "array")] (.list ys) = true := by
  simp [jsKws, kw, kwOf, kwOfStr, kwNode, kwLeaf, typeOk, typeIs]

theorem jsKws_arrKws (R S) (ctx : List (PyVal × PyVal)) (sz : SizeOpts) (addl items : Option PyVal)
    (ys : List PyVal)
    (hu : sz.uniq = true → jsonNodup ys = true) (hsz : sizeOk sz ys.length = true)
    (haddl : jsKws R S ctx (optKw "additionalItems" addl) (.list ys) = true)
    (hitems : jsKws R S ctx (optKw "items" items) (.list ys) = true) :
    jsKws R S ctx (arrKws sz addl items) (.list ys) = true := by
  simp only [arrKws, jsKws_append, and_true_iff']
  have h2 := sizeKws_ok R S ctx sz ys hsz
  exact ⟨⟨⟨⟨⟨typeArray_ok R S ctx ys, uniqKw_ok R S ctx sz.uniq ys hu⟩, haddl⟩, h2.1⟩, h2.2⟩, hitems⟩

/-- `Array` without `items` -/
theorem jsV_arrAny (R S) (sz : SizeOpts) (ys : List PyVal)
    (hu : sz.uniq = true → jsonNodup ys = true) (hsz : sizeOk sz ys.length = true) :
    jsV R S (.dict (arrKws sz none none)) (.list ys) = true := by
  rw [jsV_dict _ _ _ _ (getKw_ref_arrKws sz none none)]
  exact jsKws_arrKws R S _ sz none none ys hu hsz rfl rfl

/-- `Array[X]` -/
theorem jsV_arrOf (R S) (sz : SizeOpts) (s : PyVal) (ys : List PyVal)
    (hs : dictOrNone s = true)
    (hu : sz.uniq = true → jsonNodup ys = true) (hsz : sizeOk sz ys.length = true)
    (hall : ys.all (jsV R S s) = true) :
    jsV R S (.dict (arrKws sz none (some s))) (.list ys) = true := by
  rw [jsV_dict _ _ _ _ (getKw_ref_arrKws sz none (some s))]
  exact jsKws_arrKws R S _ sz none (some s) ys hu hsz rfl (itemsSingle_ok R S _ s ys hs hall)

theorem itemsLen_arrKws (sz : SizeOpts) (addl : Option PyVal) (ss : List PyVal) :
    itemsLen (arrKws sz addl (some (.list ss))) = some ss.length := by
  cases addl <;>
    simp [itemsLen, arrKws, getKw_append, getKw_optKw, getKw, kw, keyIs]

/-- positional `Array(items=[…])`, with or without `additionalItems=False` -/
theorem jsV_arrPos (R S) (sz : SizeOpts) (addl : Bool) (ss ys : List PyVal)
    (hu : sz.uniq = true → jsonNodup ys = true) (hsz : sizeOk sz ys.length = true)
    (hz : jsZip R S ss ys = true) (hlen : addl = false → ys.length ≤ ss.length) :
    jsV R S (.dict (arrKws sz (if addl then none else some (.bool false)) (some (.list ss)))) (.list ys)
      = true := by
  rw [jsV_dict _ _ _ _ (getKw_ref_arrKws _ _ _)]
  have hil := itemsLen_arrKws sz (if addl then none else some (.bool false)) ss
  refine jsKws_arrKws R S _ sz _ _ ys hu hsz ?_ (itemsPos_ok R S _ ss ys hz)
  cases addl with
  | true => rfl
  | false =>
    simp only [Bool.false_eq_true, if_false] at hil ⊢
    simp [optKw, jsKws, kw, kwOf, kwOfStr, kwNode, hil]
    exact hlen rfl

/-! ### sets and tuples -/

theorem getKw_ref_setKws (sz : SizeOpts) (items : Option PyVal) :
    getKw "$ref" (setKws sz items) = none := by
  simp [setKws, getKw_append, getKw_optKw, getKw, kw, keyIs]

theorem jsV_setOf (R S) (sz : SizeOpts) (s : PyVal) (ys : List PyVal)
    (hs : dictOrNone s = true) (hu : jsonNodup ys = true) (hsz : sizeOk sz ys.length = true)
    (hall : ys.all (jsV R S s) = true) :
    jsV R S (.dict (setKws sz (some s))) (.list ys) = true := by
  rw [jsV_dict _ _ _ _ (getKw_ref_setKws sz (some s))]
  suffices h : ∀ ctx, jsKws R S ctx (setKws sz (some s)) (.list ys) = true from h _
  intro ctx
  simp only [setKws, jsKws_append, and_true_iff']
  have h2 := sizeKws_ok R S ctx sz ys hsz
  refine ⟨⟨⟨?_, h2.1⟩, h2.2⟩, itemsSingle_ok R S ctx s ys hs hall⟩
  simp [jsKws, kw, kwOf, kwOfStr, kwNode, kwLeaf, typeOk, typeIs, hu]

/-- untyped `Set` -/
theorem jsV_setAny (R S) (sz : SizeOpts) (ys : List PyVal)
    (hu : jsonNodup ys = true) (hsz : sizeOk sz ys.length = true) :
    jsV R S (.dict (setKws sz none)) (.list ys) = true := by
  rw [jsV_dict _ _ _ _ (getKw_ref_setKws sz none)]
  suffices h : ∀ ctx, jsKws R S ctx (setKws sz none) (.list ys) = true from h _
  intro ctx
  simp only [setKws, jsKws_append, and_true_iff']
  have h2 := sizeKws_ok R S ctx sz ys hsz
  refine ⟨⟨⟨?_, h2.1⟩, h2.2⟩, rfl⟩
  simp [jsKws, kw, kwOf, kwOfStr, kwNode, kwLeaf, typeOk, typeIs, hu]

theorem getKw_ref_tupKws (u : Bool) (ss : List PyVal) : getKw "$ref" (tupKws u ss) = none := by
  cases u <;> simp [tupKws, getKw_append, getKw_optKw, getKw, kw, keyIs]

theorem itemsLen_tupKws (u : Bool) (ss : List PyVal) : itemsLen (tupKws u ss) = some ss.length := by
  cases u <;> simp [itemsLen, tupKws, getKw_append, getKw_optKw, getKw, kw, keyIs]

/-- `Tuple`: `items` positional and `additionalItems: false` -/
theorem jsV_tupKws (R S) (u : Bool) (ss ys : List PyVal)
    (hu : u = true → jsonNodup ys = true)
    (hz : jsZip R S ss ys = true) (hlen : ys.length ≤ ss.length) :
    jsV R S (.dict (tupKws u ss)) (.list ys) = true := by
  rw [jsV_dict _ _ _ _ (getKw_ref_tupKws u ss)]
  have hil := itemsLen_tupKws u ss
  suffices h : ∀ ctx, itemsLen ctx = some ss.length → jsKws R S ctx (tupKws u ss) (.list ys) = true from h _ hil
  clear hil
  intro ctx hil
  simp only [tupKws, jsKws_append, and_true_iff']
  refine ⟨⟨typeArray_ok R S ctx ys, uniqKw_ok R S ctx u ys hu⟩, ?_⟩
  simp [jsKws, kw, kwOf, kwOfStr, kwNode, hil, jsZipV, hz]
  exact hlen

/-! ### maps and classes -/

theorem typeObject_ok (R S) (ctx : List (PyVal × PyVal)) (kvs : List (PyVal × PyVal)) :
    jsKws R S ctx [kw "type" (.str "object")] (.dict kvs) = true := by
  simp [jsKws, kw, kwOf, kwOfStr, kwNode, kwLeaf, typeOk, typeIs]

theorem sizeKws_obj (R S) (ctx : List (PyVal × PyVal)) (sz : SizeOpts) (kvs : List (PyVal × PyVal))
    (hsz : sizeOk sz kvs.length = true) :
    jsKws R S ctx (optKw "maxProperties" (sz.max.map natJ)) (.dict kvs) = true
      ∧ jsKws R S ctx (optKw "minProperties" (sz.min.map natJ)) (.dict kvs) = true := by
  simp only [sizeOk, and_true_iff'] at hsz
  constructor
  · cases h : sz.max with
    | none => rfl
    | some n =>
      simp only [Option.map, optKw]
      simp [jsKws, kw, kwOf, kwOfStr, kwNode, kwLeaf, natOf_natJ]
      simpa [leLen, h] using hsz.2
  · cases h : sz.min with
    | none => rfl
    | some n =>
      simp only [Option.map, optKw]
      simp [jsKws, kw, kwOf, kwOfStr, kwNode, kwLeaf, natOf_natJ]
      simpa [geLen, h] using hsz.1

theorem jsV_mapAny (R S) (sz : SizeOpts) (kvs : List (PyVal × PyVal)) (hsz : sizeOk sz kvs.length = true) :
    jsV R S (.dict (mapKws none none sz)) (.dict kvs) = true := by
  have href : getKw "$ref" (mapKws none none sz) = none := by
    simp [mapKws, getKw_append, getKw_optKw, getKw, kw, keyIs]
  rw [jsV_dict _ _ _ _ href]
  suffices h : ∀ ctx, jsKws R S ctx (mapKws none none sz) (.dict kvs) = true from h _
  intro ctx
  simp only [mapKws, jsKws_append, and_true_iff']
  have h2 := sizeKws_obj R S ctx sz kvs hsz
  exact ⟨⟨⟨typeObject_ok R S ctx kvs, rfl⟩, h2.1⟩, h2.2⟩

theorem all_filter_of_all {α} (p q : α → Bool) (xs : List α) (h : xs.all q = true) :
    (xs.filter p).all q = true := by
  rw [List.all_eq_true] at h ⊢
  intro x hx
  exact h x (List.mem_filter.mp hx).1

/-- `Map[String(constraints), V]`: `patternProperties: {<pattern>: <schema of V>}` -/
theorem jsV_mapPat (R S) (k : FieldDecl) (s : PyVal) (sz : SizeOpts) (kvs : List (PyVal × PyVal))
    (hk : (mapKeyPattern k != "") = true) (hsz : sizeOk sz kvs.length = true)
    (hall : kvs.all (fun kv => jsV R S s kv.2) = true) :
    jsV R S (.dict (mapKws (some k) (some s) sz)) (.dict kvs) = true := by
  have href : getKw "$ref" (mapKws (some k) (some s) sz) = none := by
    simp [mapKws, hk, getKw_append, getKw_optKw, getKw, kw, keyIs]
  rw [jsV_dict _ _ _ _ href]
  suffices h : ∀ ctx, jsKws R S ctx (mapKws (some k) (some s) sz) (.dict kvs) = true from h _
  intro ctx
  simp only [mapKws, hk, if_true, jsKws_append, and_true_iff']
  have h2 := sizeKws_obj R S ctx sz kvs hsz
  refine ⟨⟨⟨typeObject_ok R S ctx kvs, ?_⟩, h2.1⟩, h2.2⟩
  simp only [jsKws, kw, kwOf, kwOfStr, kwNode, jsPatsV, jsPats, docKey, Bool.and_true]
  simp
  rw [List.all_eq_true] at hall
  intro a b hab
  have := hall (a, b) hab
  cases a <;> simp_all

/-- `Map[String, V]` with an unconstrained key: `additionalProperties: <schema of V>` -/
theorem jsV_mapOf (R S) (k : FieldDecl) (s : PyVal) (sz : SizeOpts) (kvs : List (PyVal × PyVal))
    (hk : mapKeyPattern k = "") (hs : dictOrNone s = true) (hsz : sizeOk sz kvs.length = true)
    (hall : kvs.all (fun kv => jsV R S s kv.2) = true) :
    jsV R S (.dict (mapKws (some k) (some s) sz)) (.dict kvs) = true := by
  have href : getKw "$ref" (mapKws (some k) (some s) sz) = none := by
    simp [mapKws, hk, getKw_append, getKw_optKw, getKw, kw, keyIs]
  rw [jsV_dict _ _ _ _ href]
  suffices h : ∀ ctx, jsKws R S ctx (mapKws (some k) (some s) sz) (.dict kvs) = true from h _
  intro ctx
  simp only [mapKws, hk, jsKws_append, and_true_iff']
  have h2 := sizeKws_obj R S ctx sz kvs hsz
  refine ⟨⟨⟨typeObject_ok R S ctx kvs, ?_⟩, h2.1⟩, h2.2⟩
  have hx : (extraMembers S ctx kvs).all (fun kv => jsV R S s kv.2) = true := by
    unfold extraMembers
    exact all_filter_of_all _ _ _ hall
  cases s <;> simp [dictOrNone] at hs <;>
    simp [jsKws, kw, kwOf, kwOfStr, kwNode] <;> simpa using hx

theorem c08_getKw_setKw_ne (k k' : String) (v : PyVal) (hne : (k' == k) = false) :
    ∀ kvs : List (PyVal × PyVal), getKw k (setKw k' v kvs) = getKw k kvs
  | [] => by simp [setKw, getKw, kw, keyIs, hne]
  | (a, w) :: rest => by
    simp only [setKw]
    split
    · rename_i h
      -- the replaced entry's key is `k'`, not `k`
      have ha : keyIs k a = false := by
        cases a <;> simp [keyIs] at h ⊢
        subst h
        simpa using hne
      simp [getKw, ha]
    · simp only [getKw, c08_getKw_setKw_ne k k' v hne rest]


/-! ### the validator ignores `default` -/

/-- the two enclosing objects answer every lookup the validator makes in the same way -/
def CtxEq (ctx ctx' : List (PyVal × PyVal)) : Prop :=
  ∀ k : String, (k == "default") = false → getKw k ctx' = getKw k ctx

theorem c08_kwNode_ctx (S) (ctx ctx' : List (PyVal × PyVal)) (h : CtxEq ctx ctx') (k : Kw) (v d : PyVal)
    (one : PyVal → Bool) (zip : List PyVal → Bool) (allL anyL : Unit → Bool) (cnt : Unit → Nat)
    (props pats : List (PyVal × PyVal) → Bool) :
    kwNode S ctx' k v d one zip allL anyL cnt props pats = kwNode S ctx k v d one zip allL anyL cnt props pats := by
  have h1 : boolKw "exclusiveMinimum" ctx' = boolKw "exclusiveMinimum" ctx := by
    simp only [boolKw, h "exclusiveMinimum" (by decide)]
  have h2 : boolKw "exclusiveMaximum" ctx' = boolKw "exclusiveMaximum" ctx := by
    simp only [boolKw, h "exclusiveMaximum" (by decide)]
  have h3 : itemsLen ctx' = itemsLen ctx := by simp only [itemsLen, h "items" (by decide)]
  have h4 : memberNames "properties" ctx' = memberNames "properties" ctx := by
    simp only [memberNames, h "properties" (by decide)]
  have h5 : memberNames "patternProperties" ctx' = memberNames "patternProperties" ctx := by
    simp only [memberNames, h "patternProperties" (by decide)]
  have h6 : ∀ kvs, extraMembers S ctx' kvs = extraMembers S ctx kvs := by
    intro kvs; simp only [extraMembers, h4, h5]
  cases k <;> simp only [kwNode, kwLeaf, h1, h2, h3, h6]

theorem c08_jsKws_ctx (R S) (ctx ctx' : List (PyVal × PyVal)) (h : CtxEq ctx ctx') :
    ∀ (kws : List (PyVal × PyVal)) (d : PyVal), jsKws R S ctx' kws d = jsKws R S ctx kws d
  | [], _ => by simp [jsKws]
  | (k, v) :: rest, d => by
    simp only [jsKws, c08_kwNode_ctx S ctx ctx' h, c08_jsKws_ctx R S ctx ctx' h rest d]

theorem c08_kwNode_default (S) (ctx : List (PyVal × PyVal)) (k v d : PyVal) (hk : keyIs "default" k = true)
    (one : PyVal → Bool) (zip : List PyVal → Bool) (allL anyL : Unit → Bool) (cnt : Unit → Nat)
    (props pats : List (PyVal × PyVal) → Bool) :
    kwNode S ctx (kwOf k) v d one zip allL anyL cnt props pats = true := by
  cases k <;> simp [keyIs] at hk
  subst hk
  simp [kwOf, kwOfStr, kwNode, kwLeaf]

theorem c08_jsKws_setKw_default (R S) (ctx : List (PyVal × PyVal)) (v d : PyVal) :
    ∀ kws : List (PyVal × PyVal), jsKws R S ctx (setKw "default" v kws) d = jsKws R S ctx kws d
  | [] => by
    simp only [setKw, jsKws, Bool.and_true]
    exact c08_kwNode_default S ctx _ v d (by simp [kw, keyIs]) _ _ _ _ _ _ _
  | (k, w) :: rest => by
    simp only [setKw]
    split
    · rename_i hk
      simp only [jsKws, c08_kwNode_default S ctx k _ d hk]
    · simp only [jsKws, c08_jsKws_setKw_default R S ctx v d rest]

/-- a schema with a `default` written into it judges documents as the schema without it -/
theorem c08_jsV_addDefault (R S) (s : PyVal) (dv : Option PyVal) (x : PyVal) :
    jsV R S (addDefault s dv) x = jsV R S s x := by
  cases dv with
  | none => rfl
  | some v =>
    cases s with
    | dict kvs =>
      simp only [addDefault, jsV, c08_getKw_setKw_ne "$ref" "default" _ (by decide) kvs]
      cases getKw "$ref" kvs with
      | some r => rfl
      | none =>
        simp only []
        rw [c08_jsKws_ctx R S kvs (setKw "default" (defaultJ v) kvs)
          (fun k hk => c08_getKw_setKw_ne k "default" _ (by
            cases h : ("default" == k) with
            | false => rfl
            | true =>
              have : "default" = k := by simpa using h
              subst this
              simp at hk) kvs)]
        exact c08_jsKws_setKw_default R S kvs _ x kvs
    | _ => rfl

end Typedpy.Sch
