/-
  Lemmas/RoundTrip.lean — serialize / deserialize / re-validate on the serializable fragment.
-/
import TypedpyModel.Spec.SerFrag
import TypedpyModel.Lemmas.Sound
namespace Typedpy
open PyVal (pyEq pyMem pyNodup)

/-- the round-trip facts for one stored value: it serializes to a pure-JSON document which
    deserializes back to exactly the value, which the field accepts unchanged -/
def RT (O : Oracles) (opts : DeserOpts) (f : FieldDecl) (v : PyVal) : Prop :=
  ∃ j, ser O f v = .ok j ∧ isJson j = true ∧ j.isNone = v.isNone
    ∧ deser O opts false f j = .ok v ∧ validate O f v = .ok v

theorem geMin_noSign (o : NumOpts) (q : Q) (h : numOk o q = true) : numOk (noSign o) q = true := by
  unfold numOk at h ⊢
  simp only [and_true_iff] at h
  simp only [noSign, signOk, Bool.and_true, and_true_iff]
  exact ⟨⟨h.1.1.1, h.1.1.2⟩, h.1.2⟩

theorem RT_list (O : Oracles) (opts : DeserOpts) (f : FieldDecl) :
    ∀ xs : List PyVal, (∀ x ∈ xs, RT O opts f x) →
      ∃ js, mapE (ser O f) xs = .ok js ∧ isJsonList js = true
        ∧ mapE (deser O opts false f) js = .ok xs ∧ mapE (validate O f) xs = .ok xs
  | [], _ => ⟨[], rfl, rfl, rfl, rfl⟩
  | x :: xs, h => by
    rcases h x (by simp) with ⟨j, h1, h2, _, h4, h5⟩
    rcases RT_list O opts f xs (fun y hy => h y (by simp [hy])) with ⟨js, g1, g2, g3, g4⟩
    refine ⟨j :: js, ?_, ?_, ?_, ?_⟩
    · simp [mapE, h1, g1]
    · simp [isJsonList, h2, g2]
    · simp [mapE, h4, g3]
    · simp [mapE, h5, g4]

theorem toValueErr_ok {α} (x : α) : toValueErr (.ok x : R α) = .ok x := rfl

theorem rt_number (O opts) (o : NumOpts) (v : PyVal) (hc : aNumber o v = true) (hf : numJson v = true) :
    RT O opts (.number o) v := by
  unfold RT
  unfold aNumber at hc
  cases v <;> simp [numJson] at hf <;> simp [PyVal.asNum] at hc
  all_goals
    refine ⟨_, by simp [ser, sScalar], by simp [isJson], rfl, ?_, ?_⟩
    · simp [deser, PyVal.isNone, dValidated, vNumber, PyVal.asNum, geMin_noSign _ _ hc]
    · simp [validate, vNumber, PyVal.asNum, hc]

theorem rt_integer (O opts) (o : NumOpts) (v : PyVal) (hc : aInteger o v = true) :
    RT O opts (.integer o) v := by
  unfold RT
  unfold aInteger at hc
  cases v <;> simp at hc
  all_goals
    refine ⟨_, by simp [ser, sScalar], by simp [isJson], rfl, ?_, ?_⟩
    · simp [deser, PyVal.isNone, dValidated, vInteger, geMin_noSign _ _ hc]
    · simp [validate, vInteger, hc]

theorem rt_float (O opts) (o : NumOpts) (v : PyVal) (hc : cFloat o v = true) :
    RT O opts (.float o) v := by
  unfold RT
  unfold cFloat at hc
  cases v <;> simp at hc
  refine ⟨_, by simp [ser, sScalar], by simp [isJson], rfl, ?_, ?_⟩
  · simp [deser, PyVal.isNone, dValidated, vFloat, geMin_noSign _ _ hc]
  · simp [validate, vFloat, hc]

theorem rt_string (O opts) (lo hi pat) (v : PyVal) (hc : aString O lo hi pat v = true) :
    RT O opts (.string lo hi pat) v := by
  unfold RT
  unfold aString at hc
  cases v <;> simp at hc
  rename_i s
  have hv : vString O lo hi pat (.str s) = .ok (.str s) := by
    unfold vString
    simp only [hc.1.1, hc.1.2, Bool.not_true, Bool.false_eq_true, if_false]
    unfold vPattern
    have := hc.2
    unfold patOk at this
    cases pat <;> simp_all
  refine ⟨_, by simp [ser, sScalar], by simp [isJson], rfl, ?_, ?_⟩
  · simp [deser, PyVal.isNone, dValidated, hv]
  · simp [validate, hv]

theorem rt_boolean (O opts) (v : PyVal) (hc : cBoolean v = true) : RT O opts .boolean v := by
  unfold RT
  unfold cBoolean at hc
  cases v <;> simp at hc
  refine ⟨_, by simp [ser, sScalar], by simp [isJson], rfl, ?_, ?_⟩
  · simp [deser, PyVal.isNone, dValidated, vBoolean]
  · simp [validate, vBoolean]

theorem rt_enumCls (O opts) (cls names) (v : PyVal) (hc : cEnumCls cls names v = true) :
    RT O opts (.enumCls cls names) v := by
  unfold RT
  unfold cEnumCls at hc
  cases v <;> simp at hc
  rename_i c n
  obtain ⟨h1, h2⟩ := hc
  subst h1
  refine ⟨.str n, by simp [ser, sEnumCls], by simp [isJson], rfl, ?_, ?_⟩
  · simp [deser, PyVal.isNone, dEnumCls, h2]
  · simp [validate, vEnumCls, h2]

theorem rt_enumLit (O opts) (vals) (v : PyVal) (hc : pyMem v vals = true) (hf : jsonScalar v = true) :
    RT O opts (.enumLit vals) v := by
  unfold RT
  refine ⟨v, by simp [ser], ?_, rfl, ?_, by simp [validate, vEnumLit, hc]⟩
  · cases v <;> simp [jsonScalar] at hf <;> simp [isJson]
  · cases v <;> simp [jsonScalar] at hf <;> simp [deser, PyVal.isNone, dValidated, vEnumLit, hc]

theorem seqLike_of_seqElems (k : SeqKind) (v : PyVal) (xs : List PyVal) (h : seqElems k v = some xs) :
    v = mkSeq k xs ∧ seqLike v = some xs := by
  cases k <;> cases v <;> simp [seqElems] at h <;> subst h <;> exact ⟨rfl, rfl⟩

theorem sSeq_mkSeq (k : SeqKind) (xs js : List PyVal) (g : List PyVal → R (List PyVal))
    (h : g xs = .ok js) : sSeq g (mkSeq k xs) = .ok (.list js) := by
  cases k <;> simp [sSeq, mkSeq, seqLike, h]

theorem rt_seq (k : SeqKind) (sz : SizeOpts) (pre : List PyVal → Bool)
    (sg dg vg : List PyVal → R (List PyVal)) (xs js : List PyVal)
    (hu : uniqOk sz.uniq xs = true) (hs : sizeOk sz xs.length = true) (hp : pre xs = true)
    (h1 : sg xs = .ok js) (h2 : isJsonList js = true) (h3 : dg js = .ok xs) (h4 : vg xs = .ok xs) :
    sSeq sg (mkSeq k xs) = .ok (.list js) ∧ isJson (.list js) = true
      ∧ dSeq (fun ys => .ok (mkSeq k ys)) (fun ys => toValueErr (dg ys)) (.list js) = .ok (mkSeq k xs)
      ∧ vSeq k sz pre vg (mkSeq k xs) = .ok (mkSeq k xs) := by
  refine ⟨sSeq_mkSeq k xs js sg h1, by simp [isJson, h2], ?_, ?_⟩
  · simp [dSeq, docSeq, h3, toValueErr]
  · unfold vSeq
    rw [seqElems_mkSeq]
    simp [hu, hs, hp, h4]

theorem rt_tuple (uniq : Bool) (pre : List PyVal → Bool)
    (sg dg vg : List PyVal → R (List PyVal)) (xs js : List PyVal)
    (hu : uniqOk uniq xs = true) (hp : pre xs = true)
    (h1 : sg xs = .ok js) (h2 : isJsonList js = true) (h3 : dg js = .ok xs) (h4 : vg xs = .ok xs) :
    sSeq sg (.tuple xs) = .ok (.list js) ∧ isJson (.list js) = true
      ∧ dSeq (fun ys => .ok (.tuple ys)) (fun ys => toValueErr (dg ys)) (.list js) = .ok (.tuple xs)
      ∧ vTuple uniq pre vg (.tuple xs) = .ok (.tuple xs) := by
  refine ⟨by simp [sSeq, seqLike, h1], by simp [isJson, h2], ?_, ?_⟩
  · simp [dSeq, docSeq, h3, toValueErr]
  · simp [vTuple, hu, hp, h4]

mutual
theorem round_trip (O : Oracles) (opts : DeserOpts) : ∀ (f : FieldDecl) (v : PyVal),
    conforms O f v = true → inFrag O f v = true → RT O opts f v
  | .number o, v, hc, hf => by
    simp only [conforms, inFrag] at hc hf; exact rt_number O opts o v hc hf
  | .integer o, v, hc, _ => by simp only [conforms] at hc; exact rt_integer O opts o v hc
  | .float o, v, hc, _ => by simp only [conforms] at hc; exact rt_float O opts o v hc
  | .string lo hi pat, v, hc, _ => by simp only [conforms] at hc; exact rt_string O opts lo hi pat v hc
  | .boolean, v, hc, _ => by simp only [conforms] at hc; exact rt_boolean O opts v hc
  | .enumLit vals, v, hc, hf => by
    simp only [conforms, inFrag] at hc hf; exact rt_enumLit O opts vals v hc hf
  | .enumCls cls names, v, hc, _ => by
    simp only [conforms] at hc; exact rt_enumCls O opts cls names v hc
  | .seqOf k f sz, v, hc, hf => by
    simp only [conforms, cSeq, inFrag] at hc hf
    cases hs : seqElems k v with
    | none => simp [hs] at hc
    | some xs =>
      obtain ⟨rfl, hl⟩ := seqLike_of_seqElems k v xs hs
      simp only [hs, and_true_iff] at hc
      simp only [hl] at hf
      have hall : ∀ x ∈ xs, RT O opts f x := fun x hx =>
        round_trip O opts f x ((List.all_eq_true.mp hc.2) x hx) ((List.all_eq_true.mp hf) x hx)
      rcases RT_list O opts f xs hall with ⟨js, g1, g2, g3, g4⟩
      have := rt_seq k sz (fun _ => true) (mapE (ser O f)) (mapE (deser O opts false f))
        (mapE (validate O f)) xs js hc.1.1.1 hc.1.1.2 rfl g1 g2 g3 g4
      refine ⟨.list js, ?_, this.2.1, ?_, ?_, ?_⟩
      · simp only [ser]; exact this.1
      · cases k <;> rfl
      · simp only [deser, PyVal.isNone, Bool.false_and, Bool.false_eq_true, if_false]; exact this.2.2.1
      · simp only [validate]; exact this.2.2.2
  | .seqPos k fs addl sz, v, hc, hf => by
    simp only [conforms, cSeq, inFrag] at hc hf
    cases hs : seqElems k v with
    | none => simp [hs] at hc
    | some xs =>
      obtain ⟨rfl, hl⟩ := seqLike_of_seqElems k v xs hs
      simp only [hs, and_true_iff] at hc
      simp only [hl, and_true_iff] at hf
      have hlen : xs.length = fs.length := by simpa using hf.1
      rcases round_trip_zip O opts fs xs hlen hc.2 hf.2 with ⟨js, g1, g2, g3, g4⟩
      have hpre : (fun xs : List PyVal => decide (fs.length ≤ xs.length)
          && (addl || decide (xs.length ≤ fs.length))) xs = true := by
        simp only [and_true_iff]; exact hc.1.2
      have := rt_seq k sz (fun xs : List PyVal => decide (fs.length ≤ xs.length)
          && (addl || decide (xs.length ≤ fs.length))) (serZip O fs) (deserZip O opts fs)
        (validateZip O fs) xs js hc.1.1.1 hc.1.1.2 hpre g1 g2 g3 g4
      refine ⟨.list js, ?_, this.2.1, ?_, ?_, ?_⟩
      · simp only [ser]; exact this.1
      · cases k <;> rfl
      · simp only [deser, PyVal.isNone, Bool.false_and, Bool.false_eq_true, if_false]; exact this.2.2.1
      · simp only [validate]; exact this.2.2.2
  | .tupleOf f uniq, v, hc, hf => by
    simp only [conforms, cTuple, inFrag] at hc hf
    cases v <;> simp at hc
    rename_i xs
    simp only [seqLike] at hf
    have hall : ∀ x ∈ xs, RT O opts f x := fun x hx =>
      round_trip O opts f x (hc.2 x hx) ((List.all_eq_true.mp hf) x hx)
    rcases RT_list O opts f xs hall with ⟨js, g1, g2, g3, g4⟩
    have := rt_tuple uniq (fun _ => true) (mapE (ser O f)) (mapE (deser O opts false f))
      (mapE (validate O f)) xs js hc.1 rfl g1 g2 g3 g4
    refine ⟨.list js, ?_, this.2.1, rfl, ?_, ?_⟩
    · simp only [ser]; exact this.1
    · simp only [deser, PyVal.isNone, Bool.false_and, Bool.false_eq_true, if_false]; exact this.2.2.1
    · simp only [validate]; exact this.2.2.2
  | .tuplePos fs uniq, v, hc, hf => by
    simp only [conforms, cTuple, inFrag] at hc hf
    cases v <;> simp at hc
    rename_i xs
    simp only [seqLike, and_true_iff] at hf
    have hlen : xs.length = fs.length := by simpa using hf.1
    have hcz : conformsZip O fs xs = true := hc.2
    rcases round_trip_zip O opts fs xs hlen hcz hf.2 with ⟨js, g1, g2, g3, g4⟩
    have hpre : (fun xs : List PyVal => fs.length == xs.length) xs = true := by simp [hlen]
    have := rt_tuple uniq (fun xs : List PyVal => fs.length == xs.length) (serZip O fs)
      (deserZip O opts fs) (validateZip O fs) xs js hc.1.1 hpre g1 g2 g3 g4
    refine ⟨.list js, ?_, this.2.1, rfl, ?_, ?_⟩
    · simp only [ser]; exact this.1
    · simp only [deser, PyVal.isNone, Bool.false_and, Bool.false_eq_true, if_false]; exact this.2.2.1
    · simp only [validate]; exact this.2.2.2
  | .seqAny _ _, _, _, hf => by simp [inFrag] at hf
  | .setAny _ _, _, _, hf => by simp [inFrag] at hf
  | .setOf _ _ _, _, _, hf => by simp [inFrag] at hf
  | .mapAny _, _, _, hf => by simp [inFrag] at hf
  | .mapOf _ _ _, _, _, hf => by simp [inFrag] at hf
  | .struct _ _ _, _, _, hf => by simp [inFrag] at hf
  | .anyOf _, _, _, hf => by simp [inFrag] at hf
  | .oneOf _, _, _, hf => by simp [inFrag] at hf
  | .allOf _, _, _, hf => by simp [inFrag] at hf
  | .notF _, _, _, hf => by simp [inFrag] at hf
  | .noneF, _, _, hf => by simp [inFrag] at hf
  | .anything, _, _, hf => by simp [inFrag] at hf

theorem round_trip_zip (O : Oracles) (opts : DeserOpts) : ∀ (fs : List FieldDecl) (xs : List PyVal),
    xs.length = fs.length → conformsZip O fs xs = true → inFragZip O fs xs = true →
    ∃ js, serZip O fs xs = .ok js ∧ isJsonList js = true
      ∧ deserZip O opts fs js = .ok xs ∧ validateZip O fs xs = .ok xs
  | [], [], _, _, _ => ⟨[], by simp [serZip, serAnyList], rfl, by simp [deserZip], by simp [validateZip]⟩
  | [], _ :: _, hl, _, _ => by simp at hl
  | _ :: _, [], hl, _, _ => by simp at hl
  | f :: fs, x :: xs, hl, hc, hf => by
    simp only [conformsZip, inFragZip, and_true_iff] at hc hf
    rcases round_trip O opts f x hc.1 hf.1 with ⟨j, h1, h2, _, h4, h5⟩
    rcases round_trip_zip O opts fs xs (by simpa using hl) hc.2 hf.2 with ⟨js, g1, g2, g3, g4⟩
    refine ⟨j :: js, ?_, ?_, ?_, ?_⟩
    · simp [serZip, h1, g1]
    · simp [isJsonList, h2, g2]
    · simp [deserZip, h4, g3]
    · simp [validateZip, h5, g4]
end

end Typedpy
