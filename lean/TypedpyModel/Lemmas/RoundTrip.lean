/-
  Lemmas/RoundTrip.lean — serialize / deserialize / re-validate on the serializable fragment.
-/
import TypedpyModel.Spec.SerFrag
import TypedpyModel.Lemmas.Sound
namespace Typedpy
open PyVal (pyEq pyMem pyNodup)

/-- the round-trip facts for one stored value: it serializes to a pure-JSON document which
    deserializes back to exactly the value, which the field accepts unchanged -/
def RT (O : Oracles) (opts : DeserOpts) (f : FieldDecl) (v : PyVal) : Prop :=
  ∃ j, ser O f v = .ok j ∧ isJson j = true ∧ j.isNone = v.isNone
    ∧ deser O opts false f j = .ok v ∧ validate O f v = .ok v

/-- the same through the constructor: the document deserializes to SOME value `w` (what the deserializer
    hands to the constructor) which the field's validation turns into exactly the stored value -/
def RT2 (O : Oracles) (opts : DeserOpts) (f : FieldDecl) (v : PyVal) : Prop :=
  ∃ j w, ser O f v = .ok j ∧ isJson j = true ∧ j.isNone = v.isNone
    ∧ deser O opts false f j = .ok w ∧ w.isNone = v.isNone ∧ validate O f w = .ok v

theorem rt2_of_rt (O : Oracles) (opts : DeserOpts) (f : FieldDecl) (v : PyVal) (h : RT O opts f v) :
    RT2 O opts f v := by
  rcases h with ⟨j, h1, h2, h3, h4, h5⟩
  exact ⟨j, v, h1, h2, h3, h4, rfl, h5⟩

theorem geMin_noSign (o : NumOpts) (q : Q) (h : numOk o q = true) : numOk (noSign o) q = true := by
  unfold numOk at h ⊢
  simp only [and_true_iff] at h
  simp only [noSign, signOk, Bool.and_true, and_true_iff]
  exact ⟨⟨h.1.1.1, h.1.1.2⟩, h.1.2⟩

theorem RT_list (O : Oracles) (opts : DeserOpts) (f : FieldDecl) :
    ∀ xs : List PyVal, (∀ x ∈ xs, RT O opts f x) →
      ∃ js, mapE (ser O f) xs = .ok js ∧ isJsonList js = true
        ∧ mapE (deser O opts false f) js = .ok xs ∧ mapE (validate O f) xs = .ok xs
  | [], _ => ⟨[], rfl, rfl, rfl, rfl⟩
  | x :: xs, h => by
    rcases h x (by simp) with ⟨j, h1, h2, _, h4, h5⟩
    rcases RT_list O opts f xs (fun y hy => h y (by simp [hy])) with ⟨js, g1, g2, g3, g4⟩
    refine ⟨j :: js, ?_, ?_, ?_, ?_⟩
    · simp [mapE, h1, g1]
    · simp [isJsonList, h2, g2]
    · simp [mapE, h4, g3]
    · simp [mapE, h5, g4]

theorem toValueErr_ok {α} (x : α) : toValueErr (.ok x : R α) = .ok x := rfl

theorem rt_number (O opts) (o : NumOpts) (v : PyVal) (hc : aNumber o v = true) (hf : numJson v = true) :
    RT O opts (.number o) v := by
  unfold RT
  unfold aNumber at hc
  cases v <;> simp [numJson] at hf <;> simp [PyVal.asNum] at hc
  all_goals
    refine ⟨_, by simp [ser, sScalar], by simp [isJson], rfl, ?_, ?_⟩
    · simp [deser, PyVal.isNone, dValidated, vNumber, PyVal.asNum, geMin_noSign _ _ hc]
    · simp [validate, vNumber, PyVal.asNum, hc]

theorem rt_integer (O opts) (o : NumOpts) (v : PyVal) (hc : aInteger o v = true) :
    RT O opts (.integer o) v := by
  unfold RT
  unfold aInteger at hc
  cases v <;> simp at hc
  all_goals
    refine ⟨_, by simp [ser, sScalar], by simp [isJson], rfl, ?_, ?_⟩
    · simp [deser, PyVal.isNone, dValidated, vInteger, geMin_noSign _ _ hc]
    · simp [validate, vInteger, hc]

theorem rt_float (O opts) (o : NumOpts) (v : PyVal) (hc : cFloat o v = true) :
    RT O opts (.float o) v := by
  unfold RT
  unfold cFloat at hc
  cases v <;> simp at hc
  refine ⟨_, by simp [ser, sScalar], by simp [isJson], rfl, ?_, ?_⟩
  · simp [deser, PyVal.isNone, dValidated, vFloat, geMin_noSign _ _ hc]
  · simp [validate, vFloat, hc]

theorem rt_string (O opts) (lo hi pat) (v : PyVal) (hc : aString O lo hi pat v = true) :
    RT O opts (.string lo hi pat) v := by
  unfold RT
  unfold aString at hc
  cases v <;> simp at hc
  rename_i s
  have hv : vString O lo hi pat (.str s) = .ok (.str s) := by
    unfold vString
    simp only [hc.1.1, hc.1.2, Bool.not_true, Bool.false_eq_true, if_false]
    unfold vPattern
    have := hc.2
    unfold patOk at this
    cases pat <;> simp_all
  refine ⟨_, by simp [ser, sScalar], by simp [isJson], rfl, ?_, ?_⟩
  · simp [deser, PyVal.isNone, dValidated, hv]
  · simp [validate, hv]

theorem rt_boolean (O opts) (v : PyVal) (hc : cBoolean v = true) : RT O opts .boolean v := by
  unfold RT
  unfold cBoolean at hc
  cases v <;> simp at hc
  refine ⟨_, by simp [ser, sScalar], by simp [isJson], rfl, ?_, ?_⟩
  · simp [deser, PyVal.isNone, dValidated, vBoolean]
  · simp [validate, vBoolean]

theorem rt_enumCls (O opts) (cls names) (v : PyVal) (hc : cEnumCls cls names v = true) :
    RT O opts (.enumCls cls names) v := by
  unfold RT
  unfold cEnumCls at hc
  cases v <;> simp at hc
  rename_i c n
  obtain ⟨h1, h2⟩ := hc
  subst h1
  refine ⟨.str n, by simp [ser, sEnumCls], by simp [isJson], rfl, ?_, ?_⟩
  · simp [deser, PyVal.isNone, dEnumCls, h2]
  · simp [validate, vEnumCls, h2]

theorem rt_enumLit (O opts) (vals) (v : PyVal) (hc : pyMem v vals = true) (hf : jsonScalar v = true) :
    RT O opts (.enumLit vals) v := by
  unfold RT
  refine ⟨v, by simp [ser], ?_, rfl, ?_, by simp [validate, vEnumLit, hc]⟩
  · cases v <;> simp [jsonScalar] at hf <;> simp [isJson]
  · cases v <;> simp [jsonScalar] at hf <;> simp [deser, PyVal.isNone, dValidated, vEnumLit, hc]

theorem seqLike_of_seqElems (k : SeqKind) (v : PyVal) (xs : List PyVal) (h : seqElems k v = some xs) :
    v = mkSeq k xs ∧ seqLike v = some xs := by
  cases k <;> cases v <;> simp [seqElems] at h <;> subst h <;> exact ⟨rfl, rfl⟩

theorem sSeq_mkSeq (k : SeqKind) (xs js : List PyVal) (g : List PyVal → R (List PyVal))
    (h : g xs = .ok js) : sSeq g (mkSeq k xs) = .ok (.list js) := by
  cases k <;> simp [sSeq, mkSeq, seqLike, h]

theorem rt_seq (k : SeqKind) (sz : SizeOpts) (pre : List PyVal → Bool)
    (sg dg vg : List PyVal → R (List PyVal)) (xs js : List PyVal)
    (hu : uniqOk sz.uniq xs = true) (hs : sizeOk sz xs.length = true) (hp : pre xs = true)
    (h1 : sg xs = .ok js) (h2 : isJsonList js = true) (h3 : dg js = .ok xs) (h4 : vg xs = .ok xs) :
    sSeq sg (mkSeq k xs) = .ok (.list js) ∧ isJson (.list js) = true
      ∧ dSeq (fun ys => .ok (mkSeq k ys)) (fun ys => toValueErr (dg ys)) (.list js) = .ok (mkSeq k xs)
      ∧ vSeq k sz pre vg (mkSeq k xs) = .ok (mkSeq k xs) := by
  refine ⟨sSeq_mkSeq k xs js sg h1, by simp [isJson, h2], ?_, ?_⟩
  · simp [dSeq, docSeq, h3, toValueErr]
  · unfold vSeq
    rw [seqElems_mkSeq]
    simp [hu, hs, hp, h4]

theorem rt_tuple (uniq : Bool) (pre : List PyVal → Bool)
    (sg dg vg : List PyVal → R (List PyVal)) (xs js : List PyVal)
    (hu : uniqOk uniq xs = true) (hp : pre xs = true)
    (h1 : sg xs = .ok js) (h2 : isJsonList js = true) (h3 : dg js = .ok xs) (h4 : vg xs = .ok xs) :
    sSeq sg (.tuple xs) = .ok (.list js) ∧ isJson (.list js) = true
      ∧ dSeq (fun ys => .ok (.tuple ys)) (fun ys => toValueErr (dg ys)) (.list js) = .ok (.tuple xs)
      ∧ vTuple uniq pre vg (.tuple xs) = .ok (.tuple xs) := by
  refine ⟨by simp [sSeq, seqLike, h1], by simp [isJson, h2], ?_, ?_⟩
  · simp [dSeq, docSeq, h3, toValueErr]
  · simp [vTuple, hu, hp, h4]

/-! ### nested Structure classes and Optional -/
def rt_toPair (a : String × PyVal) : PyVal × PyVal := (PyVal.str a.1, a.2)

theorem rt_kwOfDict_map : ∀ kw : List (String × PyVal), kwOfDict (kw.map rt_toPair) = some kw
  | [] => rfl
  | (k, v) :: rest => by
    have := rt_kwOfDict_map rest
    simp [rt_toPair, kwOfDict] at this ⊢
    simp [this]

theorem rt_filter_names_nil (P : String × PyVal → Bool) (names : List String) (kw : List (String × PyVal))
    (h : ∀ a ∈ kw, a.1 ∈ names) : kw.filter (fun a => !names.contains a.1 && P a) = [] := by
  apply List.filter_eq_nil_iff.mpr
  intro a ha
  have := h a ha
  simp [this]

theorem rt_kwOfDict_pairs : ∀ (args : List (String × PyVal)),
    kwOfDict (args.map fun a => (PyVal.str a.1, a.2)) = some args
  | [] => rfl
  | (k, v) :: rest => by
    have := rt_kwOfDict_pairs rest
    simp only [List.map_cons, kwOfDict, this, Option.map_some]

theorem rt_lookup_isSome_names {α β} (r : String) : ∀ (kw : List (String × α)) (kw' : List (String × β)),
    kw.map (·.1) = kw'.map (·.1) → (lookup r kw).isSome = (lookup r kw').isSome
  | [], [], _ => rfl
  | [], _ :: _, h => by simp at h
  | _ :: _, [], h => by simp at h
  | (k, v) :: rest, (k', v') :: rest', h => by
    simp only [List.map_cons, List.cons.injEq] at h
    obtain ⟨hk, hr⟩ := h
    subst hk
    simp only [lookup]
    by_cases hrk : (r == k) = true
    · simp [hrk]
    · simp only [hrk, Bool.false_eq_true, if_false]
      exact rt_lookup_isSome_names r rest rest' hr

/-- what the constructor does with the deserialized keyword arguments `args` of a class whose
    attributes round-trip field by field -/
theorem rt_construct (O : Oracles) (c : ClassOpts) (fields : List (String × FieldDecl))
    (defaults attrs args : List (String × PyVal))
    (hreq : c.required.all (fun r => (lookup r attrs).isSome) = true)
    (hnames : ∀ a ∈ attrs, a.1 ∈ fields.map (·.1))
    (ga : args.map (·.1) = attrs.map (·.1))
    (g5 : validateFields O c defaults args fields = .ok attrs) :
    vConstruct c (fields.map (·.1)) args (validateFields O c defaults args fields) = .ok (.inst c.name attrs) := by
  have hargnames : ∀ a ∈ args, a.1 ∈ fields.map (·.1) := by
    intro a ha
    have : a.1 ∈ args.map (·.1) := List.mem_map_of_mem ha
    rw [ga] at this
    rcases List.mem_map.mp this with ⟨b, hb, hab⟩
    rw [← hab]; exact hnames b hb
  have hex2 : extrasOf c (fields.map (·.1)) args = [] := by
    unfold extrasOf
    exact rt_filter_names_nil (fun a => !(a.2.isNone && c.ignoreNone)) (fields.map (·.1)) args hargnames
  have hbind : bindOk c (fields.map (·.1)) args = true := by
    unfold bindOk
    simp only [and_true_iff, Bool.not_eq_true', List.any_eq_false, Bool.and_eq_false_iff]
    constructor
    · intro r hr
      have := (List.all_eq_true.mp hreq) r hr
      rw [← rt_lookup_isSome_names r args attrs ga] at this
      cases h : lookup r args <;> simp [h] at this ⊢
    · by_cases ha : c.addl = true
      · left; simp [ha]
      · right
        intro a ha'
        simp [hargnames a ha']
  simp [vConstruct, hbind, g5, hex2]

theorem rt_struct (O : Oracles) (opts : DeserOpts) (c : ClassOpts) (fields : List (String × FieldDecl))
    (defaults attrs kw args : List (String × PyVal))
    (hinl : c.inline = false) (hacc : c.accepts.contains c.name = true)
    (hreq : c.required.all (fun r => (lookup r attrs).isSome) = true)
    (hnames : ∀ a ∈ attrs, a.1 ∈ fields.map (·.1))
    (hnn : ∀ a ∈ attrs, a.2.isNone = false)
    (g1 : mapE (fun (a : String × PyVal) =>
            bindE (serField O fields a.1 a.2) fun j => .ok (PyVal.str a.1, j)) attrs = .ok (kw.map rt_toPair))
    (g2 : isJsonPairs (kw.map rt_toPair) = true)
    (g3 : kw.map (·.1) = attrs.map (·.1))
    (ga : args.map (·.1) = attrs.map (·.1))
    (g4 : deserFields O opts c kw fields false = .ok args)
    (g5 : validateFields O c defaults args fields = .ok attrs) :
    RT O opts (.struct c fields defaults) (.inst c.name attrs) := by
  have hfil : attrs.filter (fun a => !a.2.isNone) = attrs :=
    List.filter_eq_self.mpr (fun a ha => by simp [hnn a ha])
  have hkwnames : ∀ a ∈ kw, a.1 ∈ fields.map (·.1) := by
    intro a ha
    have : a.1 ∈ kw.map (·.1) := List.mem_map_of_mem ha
    rw [g3] at this
    rcases List.mem_map.mp this with ⟨b, hb, hab⟩
    rw [← hab]; exact hnames b hb
  have hex : deserExtras opts c (fields.map (·.1)) kw = [] := by
    unfold deserExtras
    have := rt_filter_names_nil (fun _ => opts.keepUndefined && (c.addl || !opts.ignoreInvalidAddl))
      (fields.map (·.1)) kw hkwnames
    simpa [Bool.and_assoc] using this
  have hcon := rt_construct O c fields defaults attrs args hreq hnames ga g5
  refine ⟨.dict (kw.map rt_toPair), ?_, ?_, rfl, ?_, ?_⟩
  · simp [ser, sInst, hfil, g1]
  · simp [isJson, g2]
  · simp [deser, PyVal.isNone, hinl, dClassRef, rt_kwOfDict_map, g4, hex, hcon]
  · have hacc' : c.name ∈ c.accepts := by simpa using hacc
    simp [validate, hinl, vClassRef, hacc']

/-- a StructureReference attribute: the document is the object of the inline class's populated fields;
    the deserializer validates the keyword arguments it builds and hands them on as a dict; the
    constructor turns that dict into the instance of the inline class -/
theorem rt2_inline (O : Oracles) (opts : DeserOpts) (c : ClassOpts) (fields : List (String × FieldDecl))
    (defaults attrs kw args : List (String × PyVal))
    (hinl : c.inline = true)
    (hreq : c.required.all (fun r => (lookup r attrs).isSome) = true)
    (hnames : ∀ a ∈ attrs, a.1 ∈ fields.map (·.1))
    (hnn : ∀ a ∈ attrs, a.2.isNone = false)
    (g1 : mapE (fun (a : String × PyVal) =>
            bindE (serField O fields a.1 a.2) fun j => .ok (PyVal.str a.1, j)) attrs = .ok (kw.map rt_toPair))
    (g2 : isJsonPairs (kw.map rt_toPair) = true)
    (g3 : kw.map (·.1) = attrs.map (·.1))
    (ga : args.map (·.1) = attrs.map (·.1))
    (g4 : deserFields O opts c kw fields false = .ok args)
    (g5 : validateFields O c defaults args fields = .ok attrs) :
    RT2 O opts (.struct c fields defaults) (.inst c.name attrs) := by
  have hfil : attrs.filter (fun a => !a.2.isNone) = attrs :=
    List.filter_eq_self.mpr (fun a ha => by simp [hnn a ha])
  have hkwnames : ∀ a ∈ kw, a.1 ∈ fields.map (·.1) := by
    intro a ha
    have : a.1 ∈ kw.map (·.1) := List.mem_map_of_mem ha
    rw [g3] at this
    rcases List.mem_map.mp this with ⟨b, hb, hab⟩
    rw [← hab]; exact hnames b hb
  have hex : deserExtras opts c (fields.map (·.1)) kw = [] := by
    unfold deserExtras
    have := rt_filter_names_nil (fun _ => opts.keepUndefined && (c.addl || !opts.ignoreInvalidAddl))
      (fields.map (·.1)) kw hkwnames
    simpa [Bool.and_assoc] using this
  have hcon := rt_construct O c fields defaults attrs args hreq hnames ga g5
  refine ⟨.dict (kw.map rt_toPair), .dict (args.map fun a => (PyVal.str a.1, a.2)), ?_, ?_, rfl, ?_, rfl, ?_⟩
  · simp [ser, sInst, hfil, g1]
  · simp [isJson, g2]
  · simp [deser, PyVal.isNone, hinl, dInline, rt_kwOfDict_map, g4, hex, hcon]
  · simp [validate, hinl, vInline, rt_kwOfDict_pairs, hcon]

theorem deser_nonNone (O : Oracles) (opts : DeserOpts) (ign : Bool) (f : FieldDecl) (v : PyVal)
    (h : v.isNone = false) : deser O opts ign f v = deser O opts false f v := by
  cases f <;> simp [deser, h]

theorem rt_lookup_none_of_not_mem {α} (n : String) : ∀ kw : List (String × α),
    n ∉ kw.map (·.1) → lookup n kw = none
  | [], _ => rfl
  | (k, v) :: rest, h => by
    simp only [List.map_cons, List.mem_cons, not_or] at h
    have : (n == k) = false := by simpa using h.1
    simp [lookup, this, rt_lookup_none_of_not_mem n rest h.2]

theorem rt_lookup_cons_ne {α} (n k : String) (v : α) (kw : List (String × α)) (h : n ≠ k) :
    lookup n ((k, v) :: kw) = lookup n kw := by
  have : (n == k) = false := by simpa using h
  simp [lookup, this]

theorem deserFields_congr (O : Oracles) (opts : DeserOpts) (c : ClassOpts)
    (kw kw' : List (String × PyVal)) :
    ∀ (fs : List (String × FieldDecl)) (e : Bool),
      (∀ m ∈ fs.map (·.1), lookup m kw = lookup m kw') →
      deserFields O opts c kw fs e = deserFields O opts c kw' fs e
  | [], e, _ => by simp [deserFields]
  | (n, f) :: rest, e, h => by
    have hn := h n (by simp)
    have ih := fun e' => deserFields_congr O opts c kw kw' rest e' (fun m hm => h m (by simp [hm]))
    simp only [deserFields, hn, ih]

theorem validateFields_congr (O : Oracles) (c : ClassOpts) (defaults kw kw' : List (String × PyVal)) :
    ∀ (fs : List (String × FieldDecl)),
      (∀ m ∈ fs.map (·.1), lookup m kw = lookup m kw') →
      validateFields O c defaults kw fs = validateFields O c defaults kw' fs
  | [], _ => by simp [validateFields]
  | (n, f) :: rest, h => by
    have hn := h n (by simp)
    have ih := validateFields_congr O c defaults kw kw' rest (fun m hm => h m (by simp [hm]))
    simp only [validateFields, argFor, hn, ih]

theorem rt_mapE_congr {α β} (g g' : α → R β) : ∀ xs : List α, (∀ x ∈ xs, g x = g' x) → mapE g xs = mapE g' xs
  | [], _ => rfl
  | x :: xs, h => by
    simp only [mapE, h x (by simp), rt_mapE_congr g g' xs (fun y hy => h y (by simp [hy]))]

theorem canonAttrs_names (O : Oracles) (c : ClassOpts) (defaults : List (String × PyVal)) :
    ∀ (fs : List (String × FieldDecl)) (attrs : List (String × PyVal)),
      canonAttrs O c defaults fs attrs = true → ∀ a ∈ attrs, a.1 ∈ fs.map (·.1)
  | [], attrs, h, a, ha => by
    simp only [canonAttrs, List.isEmpty_iff] at h
    subst h; simp at ha
  | (n, f) :: rest, [], _, a, ha => by simp at ha
  | (n, f) :: rest, (m, v) :: as, h, a, ha => by
    simp only [canonAttrs] at h
    by_cases hm : (m == n) = true
    · simp only [hm, if_true, and_true_iff] at h
      have hmn : m = n := by simpa using hm
      rcases List.mem_cons.mp ha with rfl | ha'
      · simp [hmn]
      · have := canonAttrs_names O c defaults rest as h.2 a ha'
        simp [this]
    · simp only [hm, Bool.false_eq_true, if_false, and_true_iff] at h
      have := canonAttrs_names O c defaults rest ((m, v) :: as) h.2 a ha
      simp [this]

theorem canonAttrs_nonNone (O : Oracles) (c : ClassOpts) (defaults : List (String × PyVal)) :
    ∀ (fs : List (String × FieldDecl)) (attrs : List (String × PyVal)),
      canonAttrs O c defaults fs attrs = true → ∀ a ∈ attrs, a.2.isNone = false
  | [], attrs, h, a, ha => by
    simp only [canonAttrs, List.isEmpty_iff] at h
    subst h; simp at ha
  | (n, f) :: rest, [], _, a, ha => by simp at ha
  | (n, f) :: rest, (m, v) :: as, h, a, ha => by
    simp only [canonAttrs] at h
    by_cases hm : (m == n) = true
    · simp only [hm, if_true, and_true_iff] at h
      rcases List.mem_cons.mp ha with rfl | ha'
      · simpa using h.1.1
      · exact canonAttrs_nonNone O c defaults rest as h.2 a ha'
    · simp only [hm, Bool.false_eq_true, if_false, and_true_iff] at h
      exact canonAttrs_nonNone O c defaults rest ((m, v) :: as) h.2 a ha

theorem absent_argFor (c : ClassOpts) (defaults kw : List (String × PyVal)) (n : String)
    (h : absentOk c defaults n = true) (hk : lookup n kw = none) : argFor c defaults kw n = none := by
  unfold absentOk at h
  simp only [and_true_iff] at h
  unfold argFor
  simp only [hk]
  cases hd : lookup n defaults with
  | none => rfl
  | some d => simp [hd] at h; simp [h.2]

/-- what `serialize_multifield_wrapper` checks before it tries an option: holds for every
    conforming value of the fragment -/
theorem shallowOk_of_frag (O : Oracles) (f : FieldDecl) (v : PyVal)
    (hc : conforms O f v = true) (hf : inFrag O f v = true) : shallowOk O f v = true := by
  cases f with
  | number o =>
    simp only [conforms, aNumber] at hc
    cases hq : v.asNum with
    | none => simp [hq] at hc
    | some q =>
      simp only [hq] at hc
      have := geMin_noSign o q hc
      simp only [noSign] at this
      simp [shallowOk, vNumber, hq, this, Except.toBool]
  | integer o =>
    simp only [conforms, aInteger] at hc
    cases v <;> simp at hc
    all_goals
      have := geMin_noSign o _ hc
      simp only [noSign] at this
      simp [shallowOk, vInteger, this, Except.toBool]
  | float o =>
    simp only [conforms, cFloat] at hc
    cases v <;> simp at hc
    have := geMin_noSign o _ hc
    simp only [noSign] at this
    simp [shallowOk, vFloat, this, Except.toBool]
  | string lo hi pat =>
    simp only [conforms] at hc
    rcases rt_string O {} lo hi pat v hc with ⟨_, _, _, _, _, h5⟩
    simp only [validate] at h5
    simp [shallowOk, h5, Except.toBool]
  | boolean =>
    simp only [conforms] at hc
    rcases rt_boolean O {} v hc with ⟨_, _, _, _, _, h5⟩
    simp only [validate] at h5
    simp [shallowOk, h5, Except.toBool]
  | enumLit vals =>
    simp only [conforms] at hc
    simp [shallowOk, vEnumLit, hc, Except.toBool]
  | enumCls cls names =>
    simp only [conforms] at hc
    rcases rt_enumCls O {} cls names v hc with ⟨_, _, _, _, _, h5⟩
    simp only [validate] at h5
    simp [shallowOk, h5, Except.toBool]
  | seqOf k g sz =>
    simp only [conforms, cSeq] at hc
    cases hs : seqElems k v with
    | none => simp [hs] at hc
    | some xs => simp [shallowOk, hs]
  | seqPos k gs addl sz =>
    simp only [conforms, cSeq] at hc
    cases hs : seqElems k v with
    | none => simp [hs] at hc
    | some xs => simp [shallowOk, hs]
  | tupleOf g u =>
    simp only [conforms, cTuple] at hc
    cases v <;> simp at hc
    simp [shallowOk]
  | tuplePos gs u =>
    simp only [conforms, cTuple] at hc
    cases v <;> simp at hc
    simp [shallowOk]
  | struct c fields defaults =>
    simp only [inFrag, and_true_iff] at hf
    obtain ⟨⟨⟨hinl, hacc⟩, _⟩, hv⟩ := hf
    cases v with
    | inst n attrs =>
      simp only [and_true_iff] at hv
      have hn' : n = c.name := by simpa using hv.1.1
      subst hn'
      have hinl' : c.inline = false := by simpa using hinl
      have hacc' : c.name ∈ c.accepts := by simpa using hacc
      simp [shallowOk, hinl', vClassRef, hacc', Except.toBool]
    | _ => simp at hv
  | anyOf fs => simp [shallowOk]
  | seqAny _ _ => simp [inFrag] at hf
  | setAny _ _ => simp [inFrag] at hf
  | setOf imm g sz =>
    simp only [inFrag, and_true_iff] at hf
    have himm : imm = false := by simpa using hf.1
    subst himm
    cases v <;> simp at hf
    simp [shallowOk]
  | mapAny _ => simp [inFrag] at hf
  | mapOf kf vf sz =>
    simp only [inFrag, and_true_iff] at hf
    cases v <;> simp at hf
    simp [shallowOk]
  | oneOf _ => simp [inFrag] at hf
  | allOf _ => simp [inFrag] at hf
  | notF _ => simp [inFrag] at hf
  | noneF => simpa [inFrag, shallowOk] using hf
  | anything => simp [inFrag] at hf

theorem rt_optional (O : Oracles) (opts : DeserOpts) (g : FieldDecl) (v j : PyVal)
    (hnn : v.isNone = false) (hsh : shallowOk O g v = true)
    (h1 : ser O g v = .ok j) (h2 : isJson j = true) (h3 : j.isNone = v.isNone)
    (h4 : deser O opts false g j = .ok v) (h5 : validate O g v = .ok v) :
    RT O opts (.anyOf [.noneF, g]) v := by
  have hjn : j.isNone = false := by rw [h3]; exact hnn
  have hs0 : shallowOk O .noneF v = false := by simp [shallowOk, hnn]
  refine ⟨j, ?_, h2, h3, ?_, ?_⟩
  · simp [ser, serFirst, hs0, hsh, h1]
  · simp [deser, hjn, deserAny, h4]
  · simp [validate, validateAny, vNone, hnn, h5]

/-! ### distinguishable AnyOf options -/

/-- a document accepted by `deserialize_single_field` has one of the JSON types the declaration admits -/
theorem c05_deser_ok_kind (O : Oracles) (opts : DeserOpts) (f : FieldDecl) (j y : PyVal)
    (h : deser O opts false f j = .ok y) : acceptsDoc f (docKind j) = true := by
  cases f with
  | number o => cases j <;> simp [deser, PyVal.isNone, dValidated, vNumber, PyVal.asNum, docKind, acceptsDoc] at h ⊢
  | integer o => cases j <;> simp [deser, PyVal.isNone, dValidated, vInteger, docKind, acceptsDoc] at h ⊢
  | float o => cases j <;> simp [deser, PyVal.isNone, dValidated, vFloat, docKind, acceptsDoc] at h ⊢
  | string lo hi pat => cases j <;> simp [deser, PyVal.isNone, dValidated, vString, docKind, acceptsDoc] at h ⊢
  | boolean => cases j <;> simp [deser, PyVal.isNone, dValidated, vBoolean, docKind, acceptsDoc] at h ⊢
  | enumCls cls names => cases j <;> simp [deser, PyVal.isNone, dEnumCls, dValidated, vEnumCls, docKind, acceptsDoc] at h ⊢
  | seqAny k sz => cases j <;> simp [deser, PyVal.isNone, dSeq, docSeq, docKind, acceptsDoc] at h ⊢
  | seqOf k g sz => cases j <;> simp [deser, PyVal.isNone, dSeq, docSeq, docKind, acceptsDoc] at h ⊢
  | seqPos k gs a sz => cases j <;> simp [deser, PyVal.isNone, dSeq, docSeq, docKind, acceptsDoc] at h ⊢
  | setAny i sz => cases j <;> simp [deser, PyVal.isNone, dSeq, docSeq, docKind, acceptsDoc] at h ⊢
  | setOf i g sz => cases j <;> simp [deser, PyVal.isNone, dSeq, docSeq, docKind, acceptsDoc] at h ⊢
  | tupleOf g u => cases j <;> simp [deser, PyVal.isNone, dSeq, docSeq, docKind, acceptsDoc] at h ⊢
  | tuplePos gs u => cases j <;> simp [deser, PyVal.isNone, dSeq, docSeq, docKind, acceptsDoc] at h ⊢
  | mapAny sz => cases j <;> simp [deser, PyVal.isNone, dMap, docKind, acceptsDoc] at h ⊢
  | mapOf kf vf sz => cases j <;> simp [deser, PyVal.isNone, dMap, docKind, acceptsDoc] at h ⊢
  | struct c fields defaults =>
    cases j <;> simp [docKind, acceptsDoc]
    all_goals
      simp only [deser, PyVal.isNone, Bool.false_and, Bool.true_and, Bool.false_eq_true, if_false] at h
      split at h <;> simp [dInline, dClassRef] at h
  | noneF => cases j <;> simp [deser, PyVal.isNone, docKind, acceptsDoc] at h ⊢
  | enumLit vals => cases j <;> simp [docKind, acceptsDoc]
  | anyOf fs => cases j <;> simp [docKind, acceptsDoc]
  | oneOf fs => cases j <;> simp [docKind, acceptsDoc]
  | allOf fs => cases j <;> simp [docKind, acceptsDoc]
  | notF fs => cases j <;> simp [docKind, acceptsDoc]
  | anything => cases j <;> simp [docKind, acceptsDoc]

/-! ### Set and Map -/
theorem rt_dedup_of_nodup : ∀ l : List PyVal, pyNodup l = true → dedup l = l
  | [], _ => rfl
  | x :: l, h => by
    simp only [pyNodup, and_true_iff, Bool.not_eq_true', pyMem] at h
    simp only [dedup, rt_dedup_of_nodup l h.2]
    congr 1
    apply List.filter_eq_self.mpr
    intro y hy
    have := h.1
    simp only [List.any_eq_false] at this
    simp [this y hy]

/-- "no key of `acc` is the string `k`" -/
def keyFresh (k : String) (acc : List (PyVal × PyVal)) : Bool :=
  !(acc.any fun kv => match kv.1 with | .str k' => k == k' | _ => false)

theorem dictSet_fresh (k : String) (v : PyVal) : ∀ acc : List (PyVal × PyVal),
    keyFresh k acc = true → dictSet (.str k) v acc = acc ++ [(.str k, v)]
  | [], _ => rfl
  | (k', v') :: rest, h => by
    simp only [keyFresh, List.any_cons, Bool.not_or, and_true_iff] at h
    have hne : pyEq (.str k) k' = false := by
      cases k' <;> simp [pyEq] at h ⊢
      exact h.1
    simp only [dictSet, hne, Bool.false_eq_true, if_false, List.cons_append]
    congr 1
    exact dictSet_fresh k v rest (by simp only [keyFresh]; exact h.2)

theorem keyFresh_append (k : String) (acc : List (PyVal × PyVal)) (k' : String) (v : PyVal)
    (h1 : keyFresh k acc = true) (h2 : (k == k') = false) : keyFresh k (acc ++ [(.str k', v)]) = true := by
  simp only [keyFresh, List.any_append, Bool.not_or, and_true_iff] at h1 ⊢
  exact ⟨h1, by simp [h2]⟩

theorem foldl_dictSet_distinct : ∀ (kvs acc : List (PyVal × PyVal)),
    strKeysDistinct kvs = true →
    (∀ kv ∈ kvs, ∀ k, kv.1 = .str k → keyFresh k acc = true) →
    kvs.foldl (fun a kv => dictSet kv.1 kv.2 a) acc = acc ++ kvs
  | [], acc, _, _ => by simp
  | (key, v) :: rest, acc, hd, hf => by
    cases key with
    | str k =>
      simp only [strKeysDistinct, and_true_iff] at hd
      have hk := hf (.str k, v) (by simp) k rfl
      simp only [List.foldl_cons, dictSet_fresh k v acc hk]
      have hrest : ∀ kv ∈ rest, ∀ k2, kv.1 = .str k2 → keyFresh k2 (acc ++ [(.str k, v)]) = true := by
        intro kv hkv k2 hk2
        apply keyFresh_append k2 acc k v (hf kv (by simp [hkv]) k2 hk2)
        -- k2 is a key of `rest`, and k is different from all of them
        have h1 := hd.1
        simp only [Bool.not_eq_true', List.any_eq_false] at h1
        have := h1 kv hkv
        rw [hk2] at this
        simp only [Bool.not_eq_true] at this
        cases hkk : (k2 == k)
        · rfl
        · have e : k2 = k := by simpa using hkk
          subst e; simp at this
      have ih := foldl_dictSet_distinct rest (acc ++ [(.str k, v)]) hd.2 hrest
      rw [ih]; simp
    | _ => simp [strKeysDistinct] at hd

theorem dictOfPairs_distinct (kvs : List (PyVal × PyVal)) (h : strKeysDistinct kvs = true) :
    dictOfPairs kvs = kvs := by
  unfold dictOfPairs
  have := foldl_dictSet_distinct kvs [] h (fun _ _ _ _ => rfl)
  simpa using this

theorem strKeys_hashable : ∀ (kvs : List (PyVal × PyVal)), strKeysDistinct kvs = true →
    kvs.any (fun kv => unhashable kv.1) = false
  | [], _ => rfl
  | (key, v) :: rest, h => by
    cases key with
    | str k =>
      simp only [strKeysDistinct, and_true_iff] at h
      simp [unhashable, strKeys_hashable rest h.2]
    | _ => simp [strKeysDistinct] at h

theorem any_fst_map (P : PyVal → Bool) : ∀ (l : List (PyVal × PyVal)),
    l.any (fun kv => P kv.1) = (l.map (·.1)).any P
  | [] => rfl
  | a :: rest => by simp [any_fst_map P rest]

theorem strKeysDistinct_keys : ∀ (r kvs : List (PyVal × PyVal)), r.map (·.1) = kvs.map (·.1) →
    strKeysDistinct r = strKeysDistinct kvs
  | [], [], _ => rfl
  | [], _ :: _, h => by simp at h
  | _ :: _, [], h => by simp at h
  | (k, v) :: r, (k', v') :: kvs, h => by
    simp only [List.map_cons, List.cons.injEq] at h
    obtain ⟨hk, hr⟩ := h
    subst hk
    have ih := strKeysDistinct_keys r kvs hr
    cases k <;> simp only [strKeysDistinct, ih]
    rename_i s
    have h := any_fst_map (fun key => match key with | .str k' => s == k' | _ => false) r
    have h' := any_fst_map (fun key => match key with | .str k' => s == k' | _ => false) kvs
    rw [hr] at h
    exact congrArg (fun b => (!b && strKeysDistinct kvs)) (h.trans h'.symm)

/-! #### Map with Integer keys -/

theorem c05_pyEq_int_int (a b : Int) : pyEq (.int a) (.int b) = (a == b) := by
  by_cases h : a = b <;> simp [pyEq, PyVal.asNum, Q.eq, Q.ofInt, h]

def keyFreshI (i : Int) (acc : List (PyVal × PyVal)) : Bool :=
  !(acc.any fun kv => match kv.1 with | .int j => i == j | _ => true)

theorem dictSet_freshI (i : Int) (v : PyVal) : ∀ acc : List (PyVal × PyVal),
    keyFreshI i acc = true → dictSet (.int i) v acc = acc ++ [(.int i, v)]
  | [], _ => rfl
  | (k', v') :: rest, h => by
    simp only [keyFreshI, List.any_cons, Bool.not_or, and_true_iff] at h
    have hne : pyEq (.int i) k' = false := by
      cases k' <;> simp at h
      rename_i j
      rw [c05_pyEq_int_int]; simpa using h.1
    simp only [dictSet, hne, Bool.false_eq_true, if_false, List.cons_append]
    congr 1
    exact dictSet_freshI i v rest (by simp only [keyFreshI]; exact h.2)

theorem keyFreshI_append (i : Int) (acc : List (PyVal × PyVal)) (j : Int) (v : PyVal)
    (h1 : keyFreshI i acc = true) (h2 : (i == j) = false) : keyFreshI i (acc ++ [(.int j, v)]) = true := by
  simp only [keyFreshI, List.any_append, Bool.not_or, and_true_iff] at h1 ⊢
  exact ⟨h1, by simp [h2]⟩

theorem foldl_dictSet_distinctI : ∀ (kvs acc : List (PyVal × PyVal)),
    intKeysDistinct kvs = true →
    (∀ kv ∈ kvs, ∀ i, kv.1 = .int i → keyFreshI i acc = true) →
    kvs.foldl (fun a kv => dictSet kv.1 kv.2 a) acc = acc ++ kvs
  | [], acc, _, _ => by simp
  | (key, v) :: rest, acc, hd, hf => by
    cases key with
    | int i =>
      simp only [intKeysDistinct, and_true_iff] at hd
      have hk := hf (.int i, v) (by simp) i rfl
      simp only [List.foldl_cons, dictSet_freshI i v acc hk]
      have hrest : ∀ kv ∈ rest, ∀ i2, kv.1 = .int i2 → keyFreshI i2 (acc ++ [(.int i, v)]) = true := by
        intro kv hkv i2 hk2
        apply keyFreshI_append i2 acc i v (hf kv (by simp [hkv]) i2 hk2)
        have h1 := hd.1
        simp only [Bool.not_eq_true', List.any_eq_false] at h1
        have := h1 kv hkv
        rw [hk2] at this
        simp only [Bool.not_eq_true] at this
        cases hkk : (i2 == i)
        · rfl
        · have e : i2 = i := by simpa using hkk
          subst e; simp at this
      have ih := foldl_dictSet_distinctI rest (acc ++ [(.int i, v)]) hd.2 hrest
      rw [ih]; simp
    | _ => simp [intKeysDistinct] at hd

theorem dictOfPairs_distinctI (kvs : List (PyVal × PyVal)) (h : intKeysDistinct kvs = true) :
    dictOfPairs kvs = kvs := by
  unfold dictOfPairs
  have := foldl_dictSet_distinctI kvs [] h (fun _ _ _ _ => rfl)
  simpa using this

theorem intKeys_hashable : ∀ (kvs : List (PyVal × PyVal)), intKeysDistinct kvs = true →
    kvs.any (fun kv => unhashable kv.1) = false
  | [], _ => rfl
  | (key, v) :: rest, h => by
    cases key with
    | int i =>
      simp only [intKeysDistinct, and_true_iff] at h
      simp [unhashable, intKeys_hashable rest h.2]
    | _ => simp [intKeysDistinct] at h

theorem intKeysDistinct_keys : ∀ (r kvs : List (PyVal × PyVal)), r.map (·.1) = kvs.map (·.1) →
    intKeysDistinct r = intKeysDistinct kvs
  | [], [], _ => rfl
  | [], _ :: _, h => by simp at h
  | _ :: _, [], h => by simp at h
  | (k, v) :: r, (k', v') :: kvs, h => by
    simp only [List.map_cons, List.cons.injEq] at h
    obtain ⟨hk, hr⟩ := h
    subst hk
    have ih := intKeysDistinct_keys r kvs hr
    cases k <;> simp only [intKeysDistinct, ih]
    rename_i s
    have h := any_fst_map (fun key => match key with | .int k' => s == k' | _ => true) r
    have h' := any_fst_map (fun key => match key with | .int k' => s == k' | _ => true) kvs
    rw [hr] at h
    exact congrArg (fun b => (!b && intKeysDistinct kvs)) (h.trans h'.symm)

theorem c05_intKeys_int : ∀ (kvs : List (PyVal × PyVal)), intKeysDistinct kvs = true →
    ∀ kv ∈ kvs, ∃ i, kv.1 = .int i
  | [], _, kv, hkv => by simp at hkv
  | (key, v) :: rest, h, kv, hkv => by
    cases key <;> simp [intKeysDistinct] at h
    rename_i i
    rcases List.mem_cons.mp hkv with rfl | hr
    · exact ⟨i, rfl⟩
    · exact c05_intKeys_int rest h.2 kv hr

/-- entry-wise round trip of a Map with Integer keys -/
theorem RT_pairsI (O : Oracles) (opts : DeserOpts) (o : NumOpts) (vf : FieldDecl) :
    ∀ kvs : List (PyVal × PyVal),
      (∀ kv ∈ kvs, (∃ i, kv.1 = .int i) ∧ aInteger o kv.1 = true ∧ RT O opts vf kv.2) →
      ∃ r, mapE (fun (kv : PyVal × PyVal) =>
              bindE (ser O (.integer o) kv.1) fun k' => bindE (ser O vf kv.2) fun v' => .ok (k', v')) kvs = .ok r
        ∧ isJsonPairs r = true ∧ r.map (·.1) = kvs.map (·.1)
        ∧ mapE (fun (kv : PyVal × PyVal) =>
              bindE (deser O opts false vf kv.2) fun v' =>
              bindE (deser O opts false (.integer o) kv.1) fun k' => .ok (k', v')) r = .ok kvs
        ∧ mapE (fun (kv : PyVal × PyVal) =>
              bindE (validate O (.integer o) kv.1) fun k' =>
              bindE (validate O vf kv.2) fun v' => .ok (k', v')) kvs = .ok kvs
  | [], _ => ⟨[], rfl, rfl, rfl, rfl, rfl⟩
  | (key, v) :: rest, h => by
    rcases h (key, v) (by simp) with ⟨⟨i, hk⟩, hs, j, h1, h2, _, h4, h5⟩
    simp only at hk; subst hk
    rcases rt_integer O opts o (.int i) hs with ⟨jk, k1, _, _, k4, k5⟩
    have hjk : jk = .int i := by simp [ser, sScalar] at k1; exact k1.symm
    subst hjk
    rcases RT_pairsI O opts o vf rest (fun kv hkv => h kv (by simp [hkv])) with ⟨r, g1, g2, g3, g4, g5⟩
    refine ⟨(.int i, j) :: r, ?_, ?_, ?_, ?_, ?_⟩
    · simp [mapE, k1, h1, g1]
    · simp [isJsonPairs, isJsonKey, h2, g2]
    · simp [g3]
    · simp [mapE, h4, k4, g4]
    · simp [mapE, k5, h5, g5]

/-- entry-wise round trip of a Map with String keys -/
theorem RT_pairs (O : Oracles) (opts : DeserOpts) (lo hi : Option Nat) (pat : Option String) (vf : FieldDecl) :
    ∀ kvs : List (PyVal × PyVal),
      (∀ kv ∈ kvs, (∃ k, kv.1 = .str k) ∧ aString O lo hi pat kv.1 = true ∧ RT O opts vf kv.2) →
      ∃ r, mapE (fun (kv : PyVal × PyVal) =>
              bindE (ser O (.string lo hi pat) kv.1) fun k' => bindE (ser O vf kv.2) fun v' => .ok (k', v')) kvs = .ok r
        ∧ isJsonPairs r = true ∧ r.map (·.1) = kvs.map (·.1)
        ∧ mapE (fun (kv : PyVal × PyVal) =>
              bindE (deser O opts false vf kv.2) fun v' =>
              bindE (deser O opts false (.string lo hi pat) kv.1) fun k' => .ok (k', v')) r = .ok kvs
        ∧ mapE (fun (kv : PyVal × PyVal) =>
              bindE (validate O (.string lo hi pat) kv.1) fun k' =>
              bindE (validate O vf kv.2) fun v' => .ok (k', v')) kvs = .ok kvs
  | [], _ => ⟨[], rfl, rfl, rfl, rfl, rfl⟩
  | (key, v) :: rest, h => by
    rcases h (key, v) (by simp) with ⟨⟨k, hk⟩, hs, j, h1, h2, _, h4, h5⟩
    simp only at hk; subst hk
    rcases rt_string O opts lo hi pat (.str k) hs with ⟨jk, k1, _, _, k4, k5⟩
    have hjk : jk = .str k := by simp [ser, sScalar] at k1; exact k1.symm
    subst hjk
    rcases RT_pairs O opts lo hi pat vf rest (fun kv hkv => h kv (by simp [hkv])) with ⟨r, g1, g2, g3, g4, g5⟩
    refine ⟨(.str k, j) :: r, ?_, ?_, ?_, ?_, ?_⟩
    · simp [mapE, k1, h1, g1]
    · simp [isJsonPairs, isJsonKey, h2, g2]
    · simp [g3]
    · simp [mapE, h4, k4, g4]
    · simp [mapE, k5, h5, g5]

mutual
theorem round_trip (O : Oracles) (opts : DeserOpts) : ∀ (f : FieldDecl) (v : PyVal),
    conforms O f v = true → inFrag O f v = true → RT O opts f v
  | .number o, v, hc, hf => by
    simp only [conforms, inFrag] at hc hf; exact rt_number O opts o v hc hf
  | .integer o, v, hc, _ => by simp only [conforms] at hc; exact rt_integer O opts o v hc
  | .float o, v, hc, _ => by simp only [conforms] at hc; exact rt_float O opts o v hc
  | .string lo hi pat, v, hc, _ => by simp only [conforms] at hc; exact rt_string O opts lo hi pat v hc
  | .boolean, v, hc, _ => by simp only [conforms] at hc; exact rt_boolean O opts v hc
  | .enumLit vals, v, hc, hf => by
    simp only [conforms, inFrag] at hc hf; exact rt_enumLit O opts vals v hc hf
  | .enumCls cls names, v, hc, _ => by
    simp only [conforms] at hc; exact rt_enumCls O opts cls names v hc
  | .seqOf k f sz, v, hc, hf => by
    simp only [conforms, cSeq, inFrag] at hc hf
    cases hs : seqElems k v with
    | none => simp [hs] at hc
    | some xs =>
      obtain ⟨rfl, hl⟩ := seqLike_of_seqElems k v xs hs
      simp only [hs, and_true_iff] at hc
      simp only [hl] at hf
      have hall : ∀ x ∈ xs, RT O opts f x := fun x hx =>
        round_trip O opts f x ((List.all_eq_true.mp hc.2) x hx) ((List.all_eq_true.mp hf) x hx)
      rcases RT_list O opts f xs hall with ⟨js, g1, g2, g3, g4⟩
      have := rt_seq k sz (fun _ => true) (mapE (ser O f)) (mapE (deser O opts false f))
        (mapE (validate O f)) xs js hc.1.1.1 hc.1.1.2 rfl g1 g2 g3 g4
      refine ⟨.list js, ?_, this.2.1, ?_, ?_, ?_⟩
      · simp only [ser]; exact this.1
      · cases k <;> rfl
      · simp only [deser, PyVal.isNone, Bool.false_and, Bool.false_eq_true, if_false]; exact this.2.2.1
      · simp only [validate]; exact this.2.2.2
  | .seqPos k fs addl sz, v, hc, hf => by
    simp only [conforms, cSeq, inFrag] at hc hf
    cases hs : seqElems k v with
    | none => simp [hs] at hc
    | some xs =>
      obtain ⟨rfl, hl⟩ := seqLike_of_seqElems k v xs hs
      simp only [hs, and_true_iff] at hc
      simp only [hl, and_true_iff] at hf
      have hlen : xs.length = fs.length := by simpa using hf.1
      rcases round_trip_zip O opts fs xs hlen hc.2 hf.2 with ⟨js, g1, g2, g3, g4⟩
      have hpre : (fun xs : List PyVal => decide (fs.length ≤ xs.length)
          && (addl || decide (xs.length ≤ fs.length))) xs = true := by
        simp only [and_true_iff]; exact hc.1.2
      have := rt_seq k sz (fun xs : List PyVal => decide (fs.length ≤ xs.length)
          && (addl || decide (xs.length ≤ fs.length))) (serZip O fs) (deserZip O opts fs)
        (validateZip O fs) xs js hc.1.1.1 hc.1.1.2 hpre g1 g2 g3 g4
      refine ⟨.list js, ?_, this.2.1, ?_, ?_, ?_⟩
      · simp only [ser]; exact this.1
      · cases k <;> rfl
      · simp only [deser, PyVal.isNone, Bool.false_and, Bool.false_eq_true, if_false]; exact this.2.2.1
      · simp only [validate]; exact this.2.2.2
  | .tupleOf f uniq, v, hc, hf => by
    simp only [conforms, cTuple, inFrag] at hc hf
    cases v <;> simp at hc
    rename_i xs
    simp only [seqLike] at hf
    have hall : ∀ x ∈ xs, RT O opts f x := fun x hx =>
      round_trip O opts f x (hc.2 x hx) ((List.all_eq_true.mp hf) x hx)
    rcases RT_list O opts f xs hall with ⟨js, g1, g2, g3, g4⟩
    have := rt_tuple uniq (fun _ => true) (mapE (ser O f)) (mapE (deser O opts false f))
      (mapE (validate O f)) xs js hc.1 rfl g1 g2 g3 g4
    refine ⟨.list js, ?_, this.2.1, rfl, ?_, ?_⟩
    · simp only [ser]; exact this.1
    · simp only [deser, PyVal.isNone, Bool.false_and, Bool.false_eq_true, if_false]; exact this.2.2.1
    · simp only [validate]; exact this.2.2.2
  | .tuplePos fs uniq, v, hc, hf => by
    simp only [conforms, cTuple, inFrag] at hc hf
    cases v <;> simp at hc
    rename_i xs
    simp only [seqLike, and_true_iff] at hf
    have hlen : xs.length = fs.length := by simpa using hf.1
    have hcz : conformsZip O fs xs = true := hc.2
    rcases round_trip_zip O opts fs xs hlen hcz hf.2 with ⟨js, g1, g2, g3, g4⟩
    have hpre : (fun xs : List PyVal => fs.length == xs.length) xs = true := by simp [hlen]
    have := rt_tuple uniq (fun xs : List PyVal => fs.length == xs.length) (serZip O fs)
      (deserZip O opts fs) (validateZip O fs) xs js hc.1.1 hpre g1 g2 g3 g4
    refine ⟨.list js, ?_, this.2.1, rfl, ?_, ?_⟩
    · simp only [ser]; exact this.1
    · simp only [deser, PyVal.isNone, Bool.false_and, Bool.false_eq_true, if_false]; exact this.2.2.1
    · simp only [validate]; exact this.2.2.2
  | .seqAny _ _, _, _, hf => by simp [inFrag] at hf
  | .setAny _ _, _, _, hf => by simp [inFrag] at hf
  | .setOf imm f sz, v, hc, hf => by
    simp only [inFrag, and_true_iff] at hf
    obtain ⟨himm, hv⟩ := hf
    have himm' : imm = false := by simpa using himm
    subst himm'
    cases v with
    | set fr xs =>
      simp only [and_true_iff] at hv
      obtain ⟨⟨⟨hfr, hnd⟩, hh⟩, hall⟩ := hv
      have hfr' : fr = false := by simpa using hfr
      subst hfr'
      have hh' : xs.any unhashable = false := by simpa using hh
      simp only [conforms, cSet, and_true_iff] at hc
      have hpt : ∀ x ∈ xs, RT O opts f x := fun x hx =>
        round_trip O opts f x ((List.all_eq_true.mp hc.2) x hx) ((List.all_eq_true.mp hall) x hx)
      rcases RT_list O opts f xs hpt with ⟨js, g1, g2, g3, g4⟩
      have hdd := rt_dedup_of_nodup xs hnd
      refine ⟨.list js, ?_, by simp [isJson, g2], rfl, ?_, ?_⟩
      · simp [ser, sSeq, seqLike, g1]
      · simp [deser, PyVal.isNone, dSeq, docSeq, g3, toValueErr, mkSet, hh', hdd]
      · simp [validate, vSet, hc.1.2, g4, hdd]
    | _ => simp at hv
  | .mapAny _, _, _, hf => by simp [inFrag] at hf
  | .mapOf kf vf sz, v, hc, hf => by
    simp only [inFrag] at hf
    cases v with
    | dict kvs =>
      simp only [and_true_iff] at hf
      obtain ⟨hkeys, hall⟩ := hf
      simp only [conforms, cMap, and_true_iff] at hc
      rcases (Bool.or_eq_true _ _).mp hkeys with hS | hI
      · -- String keys
        simp only [and_true_iff] at hS
        obtain ⟨hkf, hdist⟩ := hS
        cases kf <;> simp [isStringDecl] at hkf
        rename_i lo hi pat
        have hkeysS : ∀ kv ∈ kvs, ∃ k, kv.1 = .str k := by
          intro kv hkv
          have := (List.all_eq_true.mp hc.2) kv hkv
          simp only [and_true_iff, conforms, aString] at this
          cases hk : kv.1 <;> simp [hk] at this
          exact ⟨_, rfl⟩
        have hpt : ∀ kv ∈ kvs, (∃ k, kv.1 = .str k) ∧ aString O lo hi pat kv.1 = true
            ∧ RT O opts vf kv.2 := by
          intro kv hkv
          have hck := (List.all_eq_true.mp hc.2) kv hkv
          simp only [and_true_iff, conforms] at hck
          exact ⟨hkeysS kv hkv, hck.1,
            round_trip O opts vf kv.2 hck.2 ((List.all_eq_true.mp hall) kv hkv)⟩
        rcases RT_pairs O opts lo hi pat vf kvs hpt with ⟨r, g1, g2, g3, g4, g5⟩
        have hrd : strKeysDistinct r = true := by rw [strKeysDistinct_keys r kvs g3]; exact hdist
        refine ⟨.dict r, ?_, by simp [isJson, g2], rfl, ?_, ?_⟩
        · simp only [ser] at g1
          simp only [ser, sMap, g1]
          simp [bindE, strKeys_hashable r hrd, dictOfPairs_distinct r hrd]
        · simp only [deser] at g4
          simp only [deser, dMap, g4]
          simp [bindE, PyVal.isNone, strKeys_hashable kvs hdist, dictOfPairs_distinct kvs hdist]
        · simp only [validate] at g5
          simp only [validate, vMap, g5]
          simp [bindE, dictOfPairs_distinct kvs hdist, hc.1]
      · -- Integer keys
        simp only [and_true_iff] at hI
        obtain ⟨hkf, hdist⟩ := hI
        cases kf <;> simp [isIntDecl] at hkf
        rename_i o
        have hpt : ∀ kv ∈ kvs, (∃ i, kv.1 = .int i) ∧ aInteger o kv.1 = true ∧ RT O opts vf kv.2 := by
          intro kv hkv
          have hck := (List.all_eq_true.mp hc.2) kv hkv
          simp only [and_true_iff, conforms] at hck
          exact ⟨c05_intKeys_int kvs hdist kv hkv, hck.1,
            round_trip O opts vf kv.2 hck.2 ((List.all_eq_true.mp hall) kv hkv)⟩
        rcases RT_pairsI O opts o vf kvs hpt with ⟨r, g1, g2, g3, g4, g5⟩
        have hrd : intKeysDistinct r = true := by rw [intKeysDistinct_keys r kvs g3]; exact hdist
        refine ⟨.dict r, ?_, by simp [isJson, g2], rfl, ?_, ?_⟩
        · simp only [ser] at g1
          simp only [ser, sMap, g1]
          simp [bindE, intKeys_hashable r hrd, dictOfPairs_distinctI r hrd]
        · simp only [deser] at g4
          simp only [deser, dMap, g4]
          simp [bindE, PyVal.isNone, intKeys_hashable kvs hdist, dictOfPairs_distinctI kvs hdist]
        · simp only [validate] at g5
          simp only [validate, vMap, g5]
          simp [bindE, dictOfPairs_distinctI kvs hdist, hc.1]
    | _ => simp at hf
  | .struct c fields defaults, v, _, hf => by
    simp only [inFrag, and_true_iff] at hf
    obtain ⟨⟨⟨hinl, hacc⟩, hnd⟩, hv⟩ := hf
    cases v with
    | inst n attrs =>
      simp only [and_true_iff] at hv
      obtain ⟨⟨hn, hreq⟩, hcan⟩ := hv
      have hn' : n = c.name := by simpa using hn
      subst hn'
      have hnd' : (fields.map (·.1)).Nodup := by simpa using hnd
      rcases rt_fields O opts c defaults fields attrs hnd' hcan with ⟨kw, args, g1, g2, g3, ga, g4, g5⟩
      exact rt_struct O opts c fields defaults attrs kw args (by simpa using hinl) hacc hreq
        (canonAttrs_names O c defaults fields attrs hcan)
        (canonAttrs_nonNone O c defaults fields attrs hcan) g1 g2 g3 ga g4 g5
    | _ => simp at hv
  | .anyOf fs, v, _, hf => by
    simp only [inFrag] at hf
    rcases round_trip_any O opts fs v hf with ⟨j, h1, h2, h3, h4, h5⟩
    have hjn : (j.isNone && false) = false := by simp
    exact ⟨j, by simpa [ser] using h1, h2, h3, by simp [deser, h4], by simpa [validate] using h5⟩
  | .oneOf _, _, _, hf => by simp [inFrag] at hf
  | .allOf _, _, _, hf => by simp [inFrag] at hf
  | .notF _, _, _, hf => by simp [inFrag] at hf
  | .noneF, v, _, hf => by
    simp only [inFrag] at hf
    have hv : v = .none := by cases v <;> simp [PyVal.isNone] at hf; rfl
    subst hv
    exact ⟨.none, by simp [ser, PyVal.isNone], rfl, rfl, by simp [deser, PyVal.isNone], by simp [validate, vNone, PyVal.isNone]⟩
  | .anything, _, _, hf => by simp [inFrag] at hf

/-- AnyOf: the first option whose shallow check passes carries the value through all three passes; every
    option before it is skipped by the serializer (shallow check), by the constructor (validation fails)
    and by the deserializer (it cannot accept a document of that JSON type) -/
theorem round_trip_any (O : Oracles) (opts : DeserOpts) : ∀ (fs : List FieldDecl) (v : PyVal),
    inFragAny O fs v = true →
    ∃ j, serFirst O fs v = .ok j ∧ isJson j = true ∧ j.isNone = v.isNone
      ∧ deserAny O opts fs j = .ok v ∧ validateAny O fs v = .ok v
  | [], _, hf => by simp [inFragAny] at hf
  | f :: fs, v, hf => by
    simp only [inFragAny] at hf
    by_cases hs : shallowOk O f v = true
    · simp only [hs, if_true, and_true_iff] at hf
      rcases round_trip O opts f v hf.1 hf.2 with ⟨j, h1, h2, h3, h4, h5⟩
      exact ⟨j, by simp [serFirst, hs, h1], h2, h3, by simp [deserAny, h4], by simp [validateAny, h5]⟩
    · have hs' : shallowOk O f v = false := by simpa using hs
      simp only [hs', Bool.false_eq_true, if_false, and_true_iff] at hf
      obtain ⟨⟨hval, hdoc⟩, hrest⟩ := hf
      rcases round_trip_any O opts fs v hrest with ⟨j, g1, g2, g3, g4, g5⟩
      simp only [g1, Bool.not_eq_true'] at hdoc
      have hd : ∃ e, deser O opts false f j = .error e := by
        cases hdj : deser O opts false f j with
        | error e => exact ⟨e, rfl⟩
        | ok y => rw [c05_deser_ok_kind O opts f j y hdj] at hdoc; cases hdoc
      have hv : ∃ e, validate O f v = .error e := by
        cases hvv : validate O f v with
        | error e => exact ⟨e, rfl⟩
        | ok y => simp [hvv, Except.toBool] at hval
      rcases hd with ⟨e1, hd⟩
      rcases hv with ⟨e2, hv⟩
      exact ⟨j, by simp [serFirst, hs', g1], g2, g3, by simp [deserAny, hd, g4], by simp [validateAny, hv, g5]⟩

theorem round_trip_zip (O : Oracles) (opts : DeserOpts) : ∀ (fs : List FieldDecl) (xs : List PyVal),
    xs.length = fs.length → conformsZip O fs xs = true → inFragZip O fs xs = true →
    ∃ js, serZip O fs xs = .ok js ∧ isJsonList js = true
      ∧ deserZip O opts fs js = .ok xs ∧ validateZip O fs xs = .ok xs
  | [], [], _, _, _ => ⟨[], by simp [serZip, serAnyList], rfl, by simp [deserZip], by simp [validateZip]⟩
  | [], _ :: _, hl, _, _ => by simp at hl
  | _ :: _, [], hl, _, _ => by simp at hl
  | f :: fs, x :: xs, hl, hc, hf => by
    simp only [conformsZip, inFragZip, and_true_iff] at hc hf
    rcases round_trip O opts f x hc.1 hf.1 with ⟨j, h1, h2, _, h4, h5⟩
    rcases round_trip_zip O opts fs xs (by simpa using hl) hc.2 hf.2 with ⟨js, g1, g2, g3, g4⟩
    refine ⟨j :: js, ?_, ?_, ?_, ?_⟩
    · simp [serZip, h1, g1]
    · simp [isJsonList, h2, g2]
    · simp [deserZip, h4, g3]
    · simp [validateZip, h5, g4]

/-- an ImmutableSet / StructureReference attribute round-trips THROUGH the constructor -/
theorem attr_special_rt2 (O : Oracles) (opts : DeserOpts) : ∀ (f : FieldDecl) (v : PyVal),
    attrSpecial O f v = true → RT2 O opts f v
  | .setOf imm f sz, v, h => by
    simp only [attrSpecial, and_true_iff] at h
    obtain ⟨himm, hv⟩ := h
    subst himm
    cases v with
    | set fr xs =>
      simp only [and_true_iff] at hv
      obtain ⟨⟨⟨⟨hfr, hsz⟩, hnd⟩, hh⟩, hall⟩ := hv
      subst hfr
      have hh' : xs.any unhashable = false := by simpa using hh
      have hpt : ∀ x ∈ xs, RT O opts f x := fun x hx => by
        have := (List.all_eq_true.mp hall) x hx
        simp only [and_true_iff] at this
        exact round_trip O opts f x this.1 this.2
      rcases RT_list O opts f xs hpt with ⟨js, g1, g2, g3, g4⟩
      have hdd := rt_dedup_of_nodup xs hnd
      refine ⟨.list js, .set false xs, ?_, by simp [isJson, g2], rfl, ?_, rfl, ?_⟩
      · simp [ser, sSeq, seqLike, g1]
      · simp [deser, PyVal.isNone, dSeq, docSeq, g3, toValueErr, mkSet, hh', hdd]
      · simp [validate, vSet, hsz, g4, hdd]
    | _ => simp at hv
  | .struct c fields defaults, v, h => by
    simp only [attrSpecial, and_true_iff] at h
    obtain ⟨⟨hinl, hnd⟩, hv⟩ := h
    cases v with
    | inst n attrs =>
      simp only [and_true_iff] at hv
      obtain ⟨⟨hn, hreq⟩, hcan⟩ := hv
      have hn' : n = c.name := by simpa using hn
      subst hn'
      have hnd' : (fields.map (·.1)).Nodup := by simpa using hnd
      rcases rt_fields O opts c defaults fields attrs hnd' hcan with ⟨kw, args, g1, g2, g3, ga, g4, g5⟩
      exact rt2_inline O opts c fields defaults attrs kw args hinl hreq
        (canonAttrs_names O c defaults fields attrs hcan)
        (canonAttrs_nonNone O c defaults fields attrs hcan) g1 g2 g3 ga g4 g5
    | _ => simp at hv
  | .number _, _, h => by simp [attrSpecial] at h
  | .integer _, _, h => by simp [attrSpecial] at h
  | .float _, _, h => by simp [attrSpecial] at h
  | .string _ _ _, _, h => by simp [attrSpecial] at h
  | .boolean, _, h => by simp [attrSpecial] at h
  | .enumLit _, _, h => by simp [attrSpecial] at h
  | .enumCls _ _, _, h => by simp [attrSpecial] at h
  | .seqAny _ _, _, h => by simp [attrSpecial] at h
  | .seqOf _ _ _, _, h => by simp [attrSpecial] at h
  | .seqPos _ _ _ _, _, h => by simp [attrSpecial] at h
  | .setAny _ _, _, h => by simp [attrSpecial] at h
  | .tupleOf _ _, _, h => by simp [attrSpecial] at h
  | .tuplePos _ _, _, h => by simp [attrSpecial] at h
  | .mapAny _, _, h => by simp [attrSpecial] at h
  | .mapOf _ _ _, _, h => by simp [attrSpecial] at h
  | .anyOf _, _, h => by simp [attrSpecial] at h
  | .oneOf _, _, h => by simp [attrSpecial] at h
  | .allOf _, _, h => by simp [attrSpecial] at h
  | .notF _, _, h => by simp [attrSpecial] at h
  | .noneF, _, h => by simp [attrSpecial] at h
  | .anything, _, h => by simp [attrSpecial] at h

theorem rt_fields (O : Oracles) (opts : DeserOpts) (c : ClassOpts) (defaults : List (String × PyVal)) :
    ∀ (fs : List (String × FieldDecl)) (attrs : List (String × PyVal)),
    (fs.map (·.1)).Nodup → canonAttrs O c defaults fs attrs = true →
    ∃ kw args : List (String × PyVal),
      mapE (fun (a : String × PyVal) =>
          bindE (serField O fs a.1 a.2) fun j => .ok (PyVal.str a.1, j)) attrs = .ok (kw.map rt_toPair)
      ∧ isJsonPairs (kw.map rt_toPair) = true
      ∧ kw.map (·.1) = attrs.map (·.1)
      ∧ args.map (·.1) = attrs.map (·.1)
      ∧ deserFields O opts c kw fs false = .ok args
      ∧ validateFields O c defaults args fs = .ok attrs
  | [], attrs, _, hc => by
    simp only [canonAttrs, List.isEmpty_iff] at hc
    subst hc
    exact ⟨[], [], rfl, rfl, rfl, rfl, by simp [deserFields], by simp [validateFields]⟩
  | (n, f) :: rest, [], hnd, hc => by
    simp only [canonAttrs, and_true_iff] at hc
    have hnd' : (rest.map (·.1)).Nodup := (List.nodup_cons.mp (by simpa using hnd)).2
    rcases rt_fields O opts c defaults rest [] hnd' hc.2 with ⟨kw, args, _, _, g3, ga, g4, g5⟩
    have hkw : kw = [] := by simpa using g3
    have harg : args = [] := by simpa using ga
    subst hkw; subst harg
    refine ⟨[], [], rfl, rfl, rfl, rfl, ?_, ?_⟩
    · simp only [deserFields, lookup]; exact g4
    · have := absent_argFor c defaults [] n hc.1 rfl
      simp only [validateFields, this]; exact g5
  | (n, f) :: rest, (m, v) :: as, hnd, hc => by
    have hnd0 := List.nodup_cons.mp (show (n :: rest.map (·.1)).Nodup by simpa using hnd)
    simp only [canonAttrs] at hc
    by_cases hm : (m == n) = true
    · have hmn : m = n := by simpa using hm
      subst hmn
      simp only [hm, if_true, and_true_iff] at hc
      obtain ⟨⟨hvn, hfa⟩, hrest⟩ := hc
      have hvn' : v.isNone = false := by simpa using hvn
      have hrt2 : RT2 O opts f v := by
        rcases (Bool.or_eq_true _ _).mp hfa with h1 | h2
        · simp only [and_true_iff] at h1
          exact rt2_of_rt O opts f v (round_trip O opts f v h1.1 h1.2)
        · exact attr_special_rt2 O opts f v h2
      rcases hrt2 with ⟨j, w, h1, h2, h3, h4, hw, h5⟩
      rcases rt_fields O opts c defaults rest as hnd0.2 hrest with ⟨kw, args, g1, g2, g3, ga, g4, g5⟩
      have hjn : j.isNone = false := by rw [h3]; exact hvn'
      have hwn : w.isNone = false := by rw [hw]; exact hvn'
      have hasn : ∀ a ∈ as, a.1 ≠ m := fun a ha hEq =>
        hnd0.1 (hEq ▸ canonAttrs_names O c defaults rest as hrest a ha)
      have hrn : ∀ k ∈ rest.map (·.1), k ≠ m := fun k hk hEq => hnd0.1 (hEq ▸ hk)
      refine ⟨(m, j) :: kw, (m, w) :: args, ?_, ?_, ?_, ?_, ?_, ?_⟩
      · have htail : mapE (fun (a : String × PyVal) =>
            bindE (serField O ((m, f) :: rest) a.1 a.2) fun j => .ok (PyVal.str a.1, j)) as
            = mapE (fun (a : String × PyVal) =>
            bindE (serField O rest a.1 a.2) fun j => .ok (PyVal.str a.1, j)) as :=
          rt_mapE_congr _ _ as (fun a ha => by
            have : (a.1 == m) = false := by simpa using hasn a ha
            simp only [serField, this, Bool.false_eq_true, if_false])
        simp only [mapE]
        rw [htail, g1]
        simp [serField, h1, rt_toPair]
      · simp [isJsonPairs, isJsonKey, rt_toPair, h2]; simpa [rt_toPair] using g2
      · simp [g3]
      · simp [ga]
      · have hcong := deserFields_congr O opts c ((m, j) :: kw) kw rest false
          (fun k hk => rt_lookup_cons_ne k m j kw (hrn k hk))
        simp [deserFields, lookup, hjn, deser_nonNone O opts c.ignoreNone f j hjn, h4, hcong, g4]
      · have hcong := validateFields_congr O c defaults ((m, w) :: args) args rest
          (fun k hk => rt_lookup_cons_ne k m w args (hrn k hk))
        simp [validateFields, argFor, lookup, hwn, h5, hcong, g5]
    · simp only [hm, Bool.false_eq_true, if_false, and_true_iff] at hc
      rcases rt_fields O opts c defaults rest ((m, v) :: as) hnd0.2 hc.2 with ⟨kw, args, g1, g2, g3, ga, g4, g5⟩
      have hnames := canonAttrs_names O c defaults rest ((m, v) :: as) hc.2
      have hattn : ∀ a ∈ ((m, v) :: as), a.1 ≠ n := fun a ha hEq => hnd0.1 (hEq ▸ hnames a ha)
      have hn_attrs : n ∉ ((m, v) :: as).map (·.1) := by
        intro hmem
        rcases List.mem_map.mp hmem with ⟨a, ha, hEq⟩
        exact hattn a ha hEq
      have hn_kw : n ∉ kw.map (·.1) := by rw [g3]; exact hn_attrs
      have hn_args : n ∉ args.map (·.1) := by rw [ga]; exact hn_attrs
      refine ⟨kw, args, ?_, g2, g3, ga, ?_, ?_⟩
      · rw [← g1]
        exact rt_mapE_congr _ _ _ (fun a ha => by
          have : (a.1 == n) = false := by simpa using hattn a ha
          simp only [serField, this, Bool.false_eq_true, if_false])
      · simp only [deserFields, rt_lookup_none_of_not_mem n kw hn_kw]; exact g4
      · have := absent_argFor c defaults args n hc.1 (rt_lookup_none_of_not_mem n _ hn_args)
        simp only [validateFields, this]; exact g5
end

end Typedpy
