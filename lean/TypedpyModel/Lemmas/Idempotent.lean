/-
  Lemmas/Idempotent.lean — what a field stores is accepted by the same field again, unchanged (on the fragment
  `idemFrag`: everything except Set / Map / AnyOf / inline StructureReference, whose normal forms involve
  de-duplication, key normalisation, option choice and re-construction).  This is the fact every re-validating
  entry point (deepcopy, clones, from_other_class, serialize-then-deserialize) relies on; the regression of
  /repo 95931f6 (OneOf / AllOf stored an option's normal form) was a violation of it.
-/
import TypedpyModel.Lemmas.Sound
namespace Typedpy
open PyVal (pyEq pyMem pyNodup)

mutual
/-- declarations on which "the stored value validates again, unchanged" is proved -/
def idemFrag : FieldDecl → Bool
  | .seqOf _ f _ => idemFrag f
  | .seqPos _ fs _ _ => idemFrags fs
  | .tupleOf f _ => idemFrag f
  | .tuplePos fs _ => idemFrags fs
  | .struct c _ _ => !c.inline
  | .setAny _ _ => true
  | .setOf _ f _ => idemFrag f
  | .mapAny _ => true
  | .mapOf kf vf _ => idemFrag kf && idemFrag vf
  | .anyOf _ => false
  | .number _ => true
  | .integer _ => true
  | .float _ => true
  | .string _ _ _ => true
  | .boolean => true
  | .enumLit _ => true
  | .enumCls _ _ => true
  | .seqAny _ _ => true
  | .oneOf _ => true
  | .allOf _ => true
  | .notF _ => true
  | .noneF => true
  | .anything => true
termination_by structural f => f
def idemFrags : List FieldDecl → Bool
  | [] => true
  | f :: fs => idemFrag f && idemFrags fs
termination_by structural fs => fs
end

/-- "admitted again, with the same normal form" -/
def Stable (a : PyVal → Bool) (n : PyVal → PyVal) (v : PyVal) : Prop := a (n v) = true ∧ n (n v) = n v

theorem c01_all_map_stable (a : PyVal → Bool) (n : PyVal → PyVal) :
    ∀ xs : List PyVal, (∀ x ∈ xs, a x = true → Stable a n x) → xs.all a = true →
      (xs.map n).all a = true ∧ (xs.map n).map n = xs.map n
  | [], _, _ => ⟨rfl, rfl⟩
  | x :: xs, h, hx => by
    simp only [List.all_cons, and_true_iff] at hx
    have h1 := h x (by simp) hx.1
    have h2 := c01_all_map_stable a n xs (fun y hy => h y (by simp [hy])) hx.2
    simp only [List.map_cons, List.all_cons, and_true_iff]
    exact ⟨⟨h1.1, h2.1⟩, by rw [h1.2, h2.2]⟩

/-- later elements are never `==` to an earlier one (what `dedup` establishes) -/
def DistinctL : List PyVal → Prop
  | [] => True
  | x :: xs => (∀ y ∈ xs, pyEq x y = false) ∧ DistinctL xs

theorem c01_distinct_filter (p : PyVal → Bool) : ∀ xs, DistinctL xs → DistinctL (xs.filter p)
  | [], _ => trivial
  | x :: xs, h => by
    simp only [List.filter_cons]
    split
    · exact ⟨fun y hy => h.1 y (List.mem_filter.1 hy).1, c01_distinct_filter p xs h.2⟩
    · exact c01_distinct_filter p xs h.2

theorem c01_dedup_distinct : ∀ xs, DistinctL (dedup xs)
  | [] => trivial
  | x :: xs => by
    simp only [dedup]
    refine ⟨fun y hy => ?_, c01_distinct_filter _ _ (c01_dedup_distinct xs)⟩
    have := (List.mem_filter.1 hy).2
    simpa using this

theorem c01_dedup_of_distinct : ∀ xs, DistinctL xs → dedup xs = xs
  | [], _ => rfl
  | x :: xs, h => by
    simp only [dedup, c01_dedup_of_distinct xs h.2]
    congr 1
    apply List.filter_eq_self.2
    intro y hy
    simp [h.1 y hy]

theorem c01_dedup_dedup (xs : List PyVal) : dedup (dedup xs) = dedup xs :=
  c01_dedup_of_distinct _ (c01_dedup_distinct xs)


theorem c01_mem_dedup : ∀ (xs : List PyVal) (y : PyVal), y ∈ dedup xs → y ∈ xs
  | [], _, h => by simp [dedup] at h
  | x :: xs, y, h => by
    simp only [dedup, List.mem_cons, List.mem_filter] at h ⊢
    rcases h with h | h
    · exact Or.inl h
    · exact Or.inr (c01_mem_dedup xs y h.1)

theorem c01_map_fix (nm : PyVal → PyVal) : ∀ l : List PyVal, (∀ y ∈ l, nm y = y) → l.map nm = l
  | [], _ => rfl
  | y :: l, h => by
    simp only [List.map_cons, h y (by simp), c01_map_fix nm l (fun z hz => h z (by simp [hz]))]

theorem c01_aSet_stable (imm : Bool) (sz : SizeOpts) (ad : PyVal → Bool) (nm : PyVal → PyVal) (v : PyVal)
    (hst : ∀ x, ad x = true → Stable ad nm x)
    (h : aSet sz (fun xs => xs.all ad) (List.map nm) v = true) :
    aSet sz (fun xs => xs.all ad) (List.map nm) (nSet imm (List.map nm) v) = true
      ∧ nSet imm (List.map nm) (nSet imm (List.map nm) v) = nSet imm (List.map nm) v := by
  unfold aSet at h
  cases v <;> simp at h
  rename_i fr xs
  obtain ⟨⟨h1, h2⟩, h3⟩ := h
  have h2' : xs.all ad = true := by simpa using h2
  have hall := c01_all_map_stable ad nm xs (fun x _ hx => hst x hx) h2'
  have hfix : ∀ y ∈ dedup (xs.map nm), nm y = y := by
    intro y hy
    have hy' := c01_mem_dedup _ y hy
    rcases List.mem_map.1 hy' with ⟨x, hx, rfl⟩
    exact (hst x ((List.all_eq_true.1 h2') x hx)).2
  have hmap : (dedup (xs.map nm)).map nm = dedup (xs.map nm) := c01_map_fix nm _ hfix
  simp only [nSet, aSet, hmap, c01_dedup_dedup, and_true_iff, Bool.or_assoc, Bool.or_self]
  exact ⟨⟨⟨h3, dedup_all ad _ hall.1⟩, h3⟩, trivial⟩

/-- a later key is never `==` to an earlier one (what building a dict establishes) -/
def KeysDistinct : List (PyVal × PyVal) → Prop
  | [] => True
  | e :: rest => (∀ e' ∈ rest, pyEq e'.1 e.1 = false) ∧ KeysDistinct rest

theorem c01_dictSet_keys (k v : PyVal) : ∀ (acc : List (PyVal × PyVal)) (e' : PyVal × PyVal),
    e' ∈ dictSet k v acc → e'.1 = k ∨ ∃ e'' ∈ acc, e'.1 = e''.1
  | [], e', h => by simp [dictSet] at h; exact Or.inl (by rw [h])
  | (k0, v0) :: rest, e', h => by
    simp only [dictSet] at h
    split at h
    · simp only [List.mem_cons] at h
      rcases h with h | h
      · exact Or.inr ⟨(k0, v0), by simp, by rw [h]⟩
      · exact Or.inr ⟨e', by simp [h], rfl⟩
    · simp only [List.mem_cons] at h
      rcases h with h | h
      · exact Or.inr ⟨(k0, v0), by simp, by rw [h]⟩
      · rcases c01_dictSet_keys k v rest e' h with h1 | ⟨e'', he, h2⟩
        · exact Or.inl h1
        · exact Or.inr ⟨e'', by simp [he], h2⟩

theorem c01_dictSet_distinct (k v : PyVal) : ∀ (acc : List (PyVal × PyVal)),
    KeysDistinct acc → KeysDistinct (dictSet k v acc)
  | [], _ => by simp [dictSet, KeysDistinct]
  | (k0, v0) :: rest, h => by
    simp only [dictSet]
    split
    · exact ⟨h.1, h.2⟩
    · rename_i hne
      refine ⟨fun e' he' => ?_, c01_dictSet_distinct k v rest h.2⟩
      rcases c01_dictSet_keys k v rest e' he' with h1 | ⟨e'', he, h2⟩
      · rw [h1]; simpa using hne
      · rw [h2]; exact h.1 e'' he

theorem c01_foldl_distinct : ∀ (l acc : List (PyVal × PyVal)), KeysDistinct acc →
    KeysDistinct (l.foldl (fun acc kv => dictSet kv.1 kv.2 acc) acc)
  | [], _, h => h
  | kv :: l, acc, h => c01_foldl_distinct l _ (c01_dictSet_distinct kv.1 kv.2 acc h)

theorem c01_dictOfPairs_distinct (l : List (PyVal × PyVal)) : KeysDistinct (dictOfPairs l) :=
  c01_foldl_distinct l [] trivial

theorem c01_dictSet_append (k v : PyVal) : ∀ (acc : List (PyVal × PyVal)),
    (∀ e ∈ acc, pyEq k e.1 = false) → dictSet k v acc = acc ++ [(k, v)]
  | [], _ => rfl
  | (k0, v0) :: rest, h => by
    have h0 : pyEq k k0 = false := h (k0, v0) (by simp)
    simp only [dictSet, h0, Bool.false_eq_true, if_false, List.cons_append]
    rw [c01_dictSet_append k v rest (fun e he => h e (by simp [he]))]

theorem c01_distinct_append_cons : ∀ (acc : List (PyVal × PyVal)) (e : PyVal × PyVal) (rest : List (PyVal × PyVal)),
    KeysDistinct (acc ++ e :: rest) → ∀ a ∈ acc, pyEq e.1 a.1 = false
  | [], _, _, _, a, ha => by simp at ha
  | a0 :: acc, e, rest, h, a, ha => by
    simp only [List.cons_append] at h
    simp only [List.mem_cons] at ha
    rcases ha with rfl | ha
    · exact h.1 e (by simp)
    · exact c01_distinct_append_cons acc e rest h.2 a ha

theorem c01_foldl_of_distinct : ∀ (l acc : List (PyVal × PyVal)), KeysDistinct (acc ++ l) →
    l.foldl (fun acc kv => dictSet kv.1 kv.2 acc) acc = acc ++ l
  | [], acc, _ => by simp
  | kv :: l, acc, h => by
    simp only [List.foldl_cons]
    rw [c01_dictSet_append kv.1 kv.2 acc (c01_distinct_append_cons acc kv l h)]
    have : acc ++ [(kv.1, kv.2)] ++ l = acc ++ kv :: l := by simp
    rw [c01_foldl_of_distinct l (acc ++ [(kv.1, kv.2)]) (by rw [this]; exact h), this]

theorem c01_dictOfPairs_of_distinct (d : List (PyVal × PyVal)) (h : KeysDistinct d) : dictOfPairs d = d := by
  unfold dictOfPairs
  simpa using c01_foldl_of_distinct d [] (by simpa using h)

theorem c01_dictOfPairs_idem (l : List (PyVal × PyVal)) : dictOfPairs (dictOfPairs l) = dictOfPairs l :=
  c01_dictOfPairs_of_distinct _ (c01_dictOfPairs_distinct l)

/-- entries of the built dict satisfy what all keys and all values of the pairs satisfy -/
theorem c01_dictSet_forall (QK QV : PyVal → Prop) (k v : PyVal) (hk : QK k) (hv : QV v) :
    ∀ acc : List (PyVal × PyVal), (∀ e ∈ acc, QK e.1 ∧ QV e.2) → ∀ e ∈ dictSet k v acc, QK e.1 ∧ QV e.2
  | [], _, e, he => by simp [dictSet] at he; rw [he]; exact ⟨hk, hv⟩
  | (k0, v0) :: rest, h, e, he => by
    simp only [dictSet] at he
    split at he
    · simp only [List.mem_cons] at he
      rcases he with rfl | he
      · exact ⟨(h (k0, v0) (by simp)).1, hv⟩
      · exact h e (by simp [he])
    · simp only [List.mem_cons] at he
      rcases he with rfl | he
      · exact h (k0, v0) (by simp)
      · exact c01_dictSet_forall QK QV k v hk hv rest (fun e' he' => h e' (by simp [he'])) e he

theorem c01_dictOfPairs_forall (QK QV : PyVal → Prop) (l : List (PyVal × PyVal))
    (h : ∀ e ∈ l, QK e.1 ∧ QV e.2) : ∀ e ∈ dictOfPairs l, QK e.1 ∧ QV e.2 := by
  unfold dictOfPairs
  suffices ∀ (l acc : List (PyVal × PyVal)), (∀ e ∈ l, QK e.1 ∧ QV e.2) → (∀ e ∈ acc, QK e.1 ∧ QV e.2) →
      ∀ e ∈ l.foldl (fun acc kv => dictSet kv.1 kv.2 acc) acc, QK e.1 ∧ QV e.2 from
    this l [] h (fun e he => by simp at he)
  intro l
  induction l with
  | nil => intro acc _ ha; exact ha
  | cons kv rest ih =>
    intro acc hl ha
    simp only [List.foldl_cons]
    exact ih _ (fun e he => hl e (by simp [he]))
      (c01_dictSet_forall QK QV kv.1 kv.2 (hl kv (by simp)).1 (hl kv (by simp)).2 acc ha)


theorem c01_map_fix_pairs (g : PyVal × PyVal → PyVal × PyVal) : ∀ l : List (PyVal × PyVal), (∀ e ∈ l, g e = e) → l.map g = l
  | [], _ => rfl
  | e :: l, h => by
    simp only [List.map_cons, h e (by simp), c01_map_fix_pairs g l (fun z hz => h z (by simp [hz]))]

theorem c01_aMap_stable (sz : SizeOpts) (ak av : PyVal → Bool) (nk nv : PyVal → PyVal) (v : PyVal)
    (hk : ∀ x, ak x = true → Stable ak nk x) (hv : ∀ x, av x = true → Stable av nv x)
    (h : aMap sz (fun kvs => kvs.all (fun kv => ak kv.1 && av kv.2)) (List.map (fun kv => (nk kv.1, nv kv.2))) v = true) :
    aMap sz (fun kvs => kvs.all (fun kv => ak kv.1 && av kv.2)) (List.map (fun kv => (nk kv.1, nv kv.2)))
        (nMap (List.map (fun kv => (nk kv.1, nv kv.2))) v) = true
      ∧ nMap (List.map (fun kv => (nk kv.1, nv kv.2))) (nMap (List.map (fun kv => (nk kv.1, nv kv.2))) v)
          = nMap (List.map (fun kv => (nk kv.1, nv kv.2))) v := by
  unfold aMap at h
  cases v <;> simp at h
  rename_i kvs
  obtain ⟨⟨h1, h2⟩, h3⟩ := h
  have hmem : ∀ e ∈ kvs.map (fun kv => (nk kv.1, nv kv.2)),
      (ak e.1 = true ∧ nk e.1 = e.1) ∧ (av e.2 = true ∧ nv e.2 = e.2) := by
    intro e he
    rcases List.mem_map.1 he with ⟨kv, hkv, rfl⟩
    have := h2 kv.1 kv.2 hkv
    exact ⟨hk kv.1 this.1, hv kv.2 this.2⟩
  have hd := c01_dictOfPairs_forall (fun k => ak k = true ∧ nk k = k) (fun x => av x = true ∧ nv x = x) _ hmem
  have hfix : (dictOfPairs (kvs.map (fun kv => (nk kv.1, nv kv.2)))).map (fun kv => (nk kv.1, nv kv.2))
      = dictOfPairs (kvs.map (fun kv => (nk kv.1, nv kv.2))) :=
    c01_map_fix_pairs _ _ (fun e he => by
      have := hd e he
      show (nk e.1, nv e.2) = e
      rw [this.1.2, this.2.2])
  simp only [nMap, aMap, hfix, c01_dictOfPairs_idem, and_true_iff]
  refine ⟨⟨⟨h3, ?_⟩, h3⟩, trivial⟩
  rw [List.all_eq_true]
  intro e he
  have := hd e he
  simp [this.1.1, this.2.1]

theorem c01_aSeq_stable (k : SeqKind) (sz : SizeOpts) (pre a : List PyVal → Bool)
    (n : List PyVal → List PyVal) (v : PyVal)
    (hpre : ∀ xs ys : List PyVal, xs.length = ys.length → pre xs = pre ys)
    (hlen : ∀ xs, a xs = true → (n xs).length = xs.length)
    (ha : ∀ xs, a xs = true → a (n xs) = true ∧ n (n xs) = n xs)
    (h : aSeq k sz pre a n v = true) :
    aSeq k sz pre a n (nSeq k n v) = true ∧ nSeq k n (nSeq k n v) = nSeq k n v := by
  unfold aSeq at h
  unfold aSeq nSeq
  cases hs : seqElems k v with
  | none => simp [hs] at h
  | some xs =>
    simp only [hs, and_true_iff] at h
    obtain ⟨⟨⟨⟨_, h2⟩, h3⟩, h4⟩, h5⟩ := h
    have hs2 := ha xs h4
    simp only [seqElems_mkSeq, and_true_iff, hs2.2]
    refine ⟨⟨⟨⟨⟨h5, ?_⟩, ?_⟩, hs2.1⟩, h5⟩, trivial⟩
    · rw [hlen xs h4]; exact h2
    · rw [hpre (n xs) xs (hlen xs h4)]; exact h3

theorem c01_aTuple_stable (uniq : Bool) (pre a : List PyVal → Bool) (n : List PyVal → List PyVal) (v : PyVal)
    (hpre : ∀ xs ys : List PyVal, xs.length = ys.length → pre xs = pre ys)
    (hlen : ∀ xs, a xs = true → (n xs).length = xs.length)
    (ha : ∀ xs, a xs = true → a (n xs) = true ∧ n (n xs) = n xs)
    (h : aTuple uniq pre a n v = true) :
    aTuple uniq pre a n (nTuple n v) = true ∧ nTuple n (nTuple n v) = nTuple n v := by
  unfold aTuple at h
  unfold aTuple nTuple
  cases v <;> simp at h
  rename_i xs
  obtain ⟨⟨⟨_, h3⟩, h4⟩, h5⟩ := h
  have hs2 := ha xs h4
  simp only [and_true_iff, hs2.2]
  refine ⟨⟨⟨⟨h5, ?_⟩, hs2.1⟩, h5⟩, trivial⟩
  rw [hpre (n xs) xs (hlen xs h4)]; exact h3

mutual
theorem norm_stable (O : Oracles) : ∀ (f : FieldDecl) (v : PyVal), idemFrag f = true →
    admits O f v = true → admits O f (norm O f v) = true ∧ norm O f (norm O f v) = norm O f v
  | .number o, v, _, h => by simp only [admits, norm] at *; exact ⟨h, trivial⟩
  | .integer o, v, _, h => by simp only [admits, norm] at *; exact ⟨h, trivial⟩
  | .float o, v, _, h => by
    simp only [admits, norm] at *
    cases v <;> simp [aFloat, nFloat] at h ⊢ <;> exact h
  | .string lo hi pat, v, _, h => by simp only [admits, norm] at *; exact ⟨h, trivial⟩
  | .boolean, v, _, h => by
    simp only [admits, norm] at *
    cases v <;> simp [aBoolean, nBoolean] at h ⊢
    rename_i s
    rcases h with h | h <;> simp [h, aBoolean, nBoolean]
  | .enumLit vals, v, _, h => by simp only [admits, norm] at *; exact ⟨h, trivial⟩
  | .enumCls cls names, v, _, h => by
    simp only [admits, norm] at *
    cases v <;> simp [aEnumCls, nEnumCls] at h ⊢ <;> exact h
  | .seqAny k sz, v, _, h => by
    simp only [admits, norm] at *
    exact c01_aSeq_stable k sz _ _ _ v (fun _ _ _ => rfl) (fun _ _ => rfl) (fun _ _ => ⟨rfl, rfl⟩) h
  | .seqOf k f sz, v, hf, h => by
    simp only [admits, norm, idemFrag] at *
    exact c01_aSeq_stable k sz _ _ _ v (fun _ _ _ => rfl) (fun xs _ => List.length_map _)
      (fun xs hx => c01_all_map_stable _ _ xs (fun x _ hx' => norm_stable O f x hf hx') hx) h
  | .seqPos k fs addl sz, v, hf, h => by
    simp only [admits, norm, idemFrag] at *
    exact c01_aSeq_stable k sz _ _ _ v (fun xs ys he => by simp only [he])
      (fun xs _ => normZip_length O fs xs) (fun xs hx => normZip_stable O fs xs hf hx) h
  | .tupleOf f uniq, v, hf, h => by
    simp only [admits, norm, idemFrag] at *
    exact c01_aTuple_stable uniq _ _ _ v (fun _ _ _ => rfl) (fun xs _ => List.length_map _)
      (fun xs hx => c01_all_map_stable _ _ xs (fun x _ hx' => norm_stable O f x hf hx') hx) h
  | .tuplePos fs uniq, v, hf, h => by
    simp only [admits, norm, idemFrag] at *
    exact c01_aTuple_stable uniq _ _ _ v (fun xs ys he => by simp only [he])
      (fun xs _ => normZip_length O fs xs) (fun xs hx => normZip_stable O fs xs hf hx) h
  | .struct c fields defaults, v, hf, h => by
    simp only [idemFrag, Bool.not_eq_true'] at hf
    simp only [admits, norm, hf, Bool.false_eq_true, if_false] at *
    exact ⟨h, trivial⟩
  | .oneOf fs, v, _, h => by simp only [admits, norm] at *; exact ⟨h, trivial⟩
  | .allOf fs, v, _, h => by simp only [admits, norm] at *; exact ⟨h, trivial⟩
  | .notF fs, v, _, h => by simp only [admits, norm] at *; exact ⟨h, trivial⟩
  | .noneF, v, _, h => by simp only [admits, norm] at *; exact ⟨h, trivial⟩
  | .anything, v, _, _ => by simp only [admits, norm]; exact ⟨trivial, trivial⟩
  | .setAny imm sz, v, _, h => by
    simp only [admits, norm] at *
    unfold aSet at h
    cases v <;> simp at h
    rename_i fr xs
    simp only [nSet, aSet, id, c01_dedup_dedup, and_true_iff, Bool.or_assoc, Bool.or_self]
    exact ⟨⟨⟨h.2, trivial⟩, h.2⟩, trivial⟩
  | .setOf imm f sz, v, hf, h => by
    simp only [admits, norm, idemFrag] at *
    exact c01_aSet_stable imm sz _ _ v (fun x hx => norm_stable O f x hf hx) h
  | .mapAny sz, v, _, h => by
    simp only [admits, norm] at *
    unfold aMap at h
    cases v <;> simp at h
    rename_i kvs
    simp only [nMap, aMap, id, c01_dictOfPairs_idem, and_true_iff]
    exact ⟨⟨⟨h.2, trivial⟩, h.2⟩, trivial⟩
  | .mapOf kf vf sz, v, hf, h => by
    simp only [admits, norm, idemFrag, and_true_iff] at *
    exact c01_aMap_stable sz _ _ _ _ v (fun x hx => norm_stable O kf x hf.1 hx) (fun x hx => norm_stable O vf x hf.2 hx) h
  | .anyOf _, _, hf, _ => by simp [idemFrag] at hf

theorem normZip_stable (O : Oracles) : ∀ (fs : List FieldDecl) (xs : List PyVal), idemFrags fs = true →
    admitsZip O fs xs = true →
      admitsZip O fs (normZip O fs xs) = true ∧ normZip O fs (normZip O fs xs) = normZip O fs xs
  | [], xs, _, _ => by simp only [admitsZip, normZip]; exact ⟨trivial, trivial⟩
  | _ :: _, [], _, _ => by simp only [admitsZip, normZip]; exact ⟨trivial, trivial⟩
  | f :: fs, x :: xs, hf, h => by
    simp only [idemFrags, admitsZip, and_true_iff] at hf h
    have h1 := norm_stable O f x hf.1 h.1
    have h2 := normZip_stable O fs xs hf.2 h.2
    simp only [normZip, admitsZip, and_true_iff]
    exact ⟨⟨h1.1, h2.1⟩, by rw [h1.2, h2.2]⟩
end

end Typedpy
