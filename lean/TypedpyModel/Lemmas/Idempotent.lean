/-
  Lemmas/Idempotent.lean — what a field stores is accepted by the same field again, unchanged (on the fragment
  `idemFrag`: everything except Set / Map / AnyOf / inline StructureReference, whose normal forms involve
  de-duplication, key normalisation, option choice and re-construction).  This is the fact every re-validating
  entry point (deepcopy, clones, from_other_class, serialize-then-deserialize) relies on; the regression of
  /repo 95931f6 (OneOf / AllOf stored an option's normal form) was a violation of it.
-/
import TypedpyModel.Lemmas.Sound
namespace Typedpy
open PyVal (pyEq pyMem pyNodup)

mutual
/-- declarations on which "the stored value validates again, unchanged" is proved -/
def idemFrag : FieldDecl → Bool
  | .seqOf _ f _ => idemFrag f
  | .seqPos _ fs _ _ => idemFrags fs
  | .tupleOf f _ => idemFrag f
  | .tuplePos fs _ => idemFrags fs
  | .struct c _ _ => !c.inline
  | .setAny _ _ => true
  | .setOf _ f _ => idemFrag f
  | .mapAny _ => false
  | .mapOf _ _ _ => false
  | .anyOf _ => false
  | .number _ => true
  | .integer _ => true
  | .float _ => true
  | .string _ _ _ => true
  | .boolean => true
  | .enumLit _ => true
  | .enumCls _ _ => true
  | .seqAny _ _ => true
  | .oneOf _ => true
  | .allOf _ => true
  | .notF _ => true
  | .noneF => true
  | .anything => true
termination_by structural f => f
def idemFrags : List FieldDecl → Bool
  | [] => true
  | f :: fs => idemFrag f && idemFrags fs
termination_by structural fs => fs
end

/-- "admitted again, with the same normal form" -/
def Stable (a : PyVal → Bool) (n : PyVal → PyVal) (v : PyVal) : Prop := a (n v) = true ∧ n (n v) = n v

theorem c01_all_map_stable (a : PyVal → Bool) (n : PyVal → PyVal) :
    ∀ xs : List PyVal, (∀ x ∈ xs, a x = true → Stable a n x) → xs.all a = true →
      (xs.map n).all a = true ∧ (xs.map n).map n = xs.map n
  | [], _, _ => ⟨rfl, rfl⟩
  | x :: xs, h, hx => by
    simp only [List.all_cons, and_true_iff] at hx
    have h1 := h x (by simp) hx.1
    have h2 := c01_all_map_stable a n xs (fun y hy => h y (by simp [hy])) hx.2
    simp only [List.map_cons, List.all_cons, and_true_iff]
    exact ⟨⟨h1.1, h2.1⟩, by rw [h1.2, h2.2]⟩

/-- later elements are never `==` to an earlier one (what `dedup` establishes) -/
def DistinctL : List PyVal → Prop
  | [] => True
  | x :: xs => (∀ y ∈ xs, pyEq x y = false) ∧ DistinctL xs

theorem c01_distinct_filter (p : PyVal → Bool) : ∀ xs, DistinctL xs → DistinctL (xs.filter p)
  | [], _ => trivial
  | x :: xs, h => by
    simp only [List.filter_cons]
    split
    · exact ⟨fun y hy => h.1 y (List.mem_filter.1 hy).1, c01_distinct_filter p xs h.2⟩
    · exact c01_distinct_filter p xs h.2

theorem c01_dedup_distinct : ∀ xs, DistinctL (dedup xs)
  | [] => trivial
  | x :: xs => by
    simp only [dedup]
    refine ⟨fun y hy => ?_, c01_distinct_filter _ _ (c01_dedup_distinct xs)⟩
    have := (List.mem_filter.1 hy).2
    simpa using this

theorem c01_dedup_of_distinct : ∀ xs, DistinctL xs → dedup xs = xs
  | [], _ => rfl
  | x :: xs, h => by
    simp only [dedup, c01_dedup_of_distinct xs h.2]
    congr 1
    apply List.filter_eq_self.2
    intro y hy
    simp [h.1 y hy]

theorem c01_dedup_dedup (xs : List PyVal) : dedup (dedup xs) = dedup xs :=
  c01_dedup_of_distinct _ (c01_dedup_distinct xs)


theorem c01_mem_dedup : ∀ (xs : List PyVal) (y : PyVal), y ∈ dedup xs → y ∈ xs
  | [], _, h => by simp [dedup] at h
  | x :: xs, y, h => by
    simp only [dedup, List.mem_cons, List.mem_filter] at h ⊢
    rcases h with h | h
    · exact Or.inl h
    · exact Or.inr (c01_mem_dedup xs y h.1)

theorem c01_map_fix (nm : PyVal → PyVal) : ∀ l : List PyVal, (∀ y ∈ l, nm y = y) → l.map nm = l
  | [], _ => rfl
  | y :: l, h => by
    simp only [List.map_cons, h y (by simp), c01_map_fix nm l (fun z hz => h z (by simp [hz]))]

theorem c01_aSet_stable (imm : Bool) (sz : SizeOpts) (ad : PyVal → Bool) (nm : PyVal → PyVal) (v : PyVal)
    (hst : ∀ x, ad x = true → Stable ad nm x)
    (h : aSet sz (fun xs => xs.all ad) (List.map nm) v = true) :
    aSet sz (fun xs => xs.all ad) (List.map nm) (nSet imm (List.map nm) v) = true
      ∧ nSet imm (List.map nm) (nSet imm (List.map nm) v) = nSet imm (List.map nm) v := by
  unfold aSet at h
  cases v <;> simp at h
  rename_i fr xs
  obtain ⟨⟨h1, h2⟩, h3⟩ := h
  have h2' : xs.all ad = true := by simpa using h2
  have hall := c01_all_map_stable ad nm xs (fun x _ hx => hst x hx) h2'
  have hfix : ∀ y ∈ dedup (xs.map nm), nm y = y := by
    intro y hy
    have hy' := c01_mem_dedup _ y hy
    rcases List.mem_map.1 hy' with ⟨x, hx, rfl⟩
    exact (hst x ((List.all_eq_true.1 h2') x hx)).2
  have hmap : (dedup (xs.map nm)).map nm = dedup (xs.map nm) := c01_map_fix nm _ hfix
  simp only [nSet, aSet, hmap, c01_dedup_dedup, and_true_iff, Bool.or_assoc, Bool.or_self]
  exact ⟨⟨⟨h3, dedup_all ad _ hall.1⟩, h3⟩, trivial⟩

theorem c01_aSeq_stable (k : SeqKind) (sz : SizeOpts) (pre a : List PyVal → Bool)
    (n : List PyVal → List PyVal) (v : PyVal)
    (hpre : ∀ xs ys : List PyVal, xs.length = ys.length → pre xs = pre ys)
    (hlen : ∀ xs, a xs = true → (n xs).length = xs.length)
    (ha : ∀ xs, a xs = true → a (n xs) = true ∧ n (n xs) = n xs)
    (h : aSeq k sz pre a n v = true) :
    aSeq k sz pre a n (nSeq k n v) = true ∧ nSeq k n (nSeq k n v) = nSeq k n v := by
  unfold aSeq at h
  unfold aSeq nSeq
  cases hs : seqElems k v with
  | none => simp [hs] at h
  | some xs =>
    simp only [hs, and_true_iff] at h
    obtain ⟨⟨⟨⟨_, h2⟩, h3⟩, h4⟩, h5⟩ := h
    have hs2 := ha xs h4
    simp only [seqElems_mkSeq, and_true_iff, hs2.2]
    refine ⟨⟨⟨⟨⟨h5, ?_⟩, ?_⟩, hs2.1⟩, h5⟩, trivial⟩
    · rw [hlen xs h4]; exact h2
    · rw [hpre (n xs) xs (hlen xs h4)]; exact h3

theorem c01_aTuple_stable (uniq : Bool) (pre a : List PyVal → Bool) (n : List PyVal → List PyVal) (v : PyVal)
    (hpre : ∀ xs ys : List PyVal, xs.length = ys.length → pre xs = pre ys)
    (hlen : ∀ xs, a xs = true → (n xs).length = xs.length)
    (ha : ∀ xs, a xs = true → a (n xs) = true ∧ n (n xs) = n xs)
    (h : aTuple uniq pre a n v = true) :
    aTuple uniq pre a n (nTuple n v) = true ∧ nTuple n (nTuple n v) = nTuple n v := by
  unfold aTuple at h
  unfold aTuple nTuple
  cases v <;> simp at h
  rename_i xs
  obtain ⟨⟨⟨_, h3⟩, h4⟩, h5⟩ := h
  have hs2 := ha xs h4
  simp only [and_true_iff, hs2.2]
  refine ⟨⟨⟨⟨h5, ?_⟩, hs2.1⟩, h5⟩, trivial⟩
  rw [hpre (n xs) xs (hlen xs h4)]; exact h3

mutual
theorem norm_stable (O : Oracles) : ∀ (f : FieldDecl) (v : PyVal), idemFrag f = true →
    admits O f v = true → admits O f (norm O f v) = true ∧ norm O f (norm O f v) = norm O f v
  | .number o, v, _, h => by simp only [admits, norm] at *; exact ⟨h, trivial⟩
  | .integer o, v, _, h => by simp only [admits, norm] at *; exact ⟨h, trivial⟩
  | .float o, v, _, h => by
    simp only [admits, norm] at *
    cases v <;> simp [aFloat, nFloat] at h ⊢ <;> exact h
  | .string lo hi pat, v, _, h => by simp only [admits, norm] at *; exact ⟨h, trivial⟩
  | .boolean, v, _, h => by
    simp only [admits, norm] at *
    cases v <;> simp [aBoolean, nBoolean] at h ⊢
    rename_i s
    rcases h with h | h <;> simp [h, aBoolean, nBoolean]
  | .enumLit vals, v, _, h => by simp only [admits, norm] at *; exact ⟨h, trivial⟩
  | .enumCls cls names, v, _, h => by
    simp only [admits, norm] at *
    cases v <;> simp [aEnumCls, nEnumCls] at h ⊢ <;> exact h
  | .seqAny k sz, v, _, h => by
    simp only [admits, norm] at *
    exact c01_aSeq_stable k sz _ _ _ v (fun _ _ _ => rfl) (fun _ _ => rfl) (fun _ _ => ⟨rfl, rfl⟩) h
  | .seqOf k f sz, v, hf, h => by
    simp only [admits, norm, idemFrag] at *
    exact c01_aSeq_stable k sz _ _ _ v (fun _ _ _ => rfl) (fun xs _ => List.length_map _)
      (fun xs hx => c01_all_map_stable _ _ xs (fun x _ hx' => norm_stable O f x hf hx') hx) h
  | .seqPos k fs addl sz, v, hf, h => by
    simp only [admits, norm, idemFrag] at *
    exact c01_aSeq_stable k sz _ _ _ v (fun xs ys he => by simp only [he])
      (fun xs _ => normZip_length O fs xs) (fun xs hx => normZip_stable O fs xs hf hx) h
  | .tupleOf f uniq, v, hf, h => by
    simp only [admits, norm, idemFrag] at *
    exact c01_aTuple_stable uniq _ _ _ v (fun _ _ _ => rfl) (fun xs _ => List.length_map _)
      (fun xs hx => c01_all_map_stable _ _ xs (fun x _ hx' => norm_stable O f x hf hx') hx) h
  | .tuplePos fs uniq, v, hf, h => by
    simp only [admits, norm, idemFrag] at *
    exact c01_aTuple_stable uniq _ _ _ v (fun xs ys he => by simp only [he])
      (fun xs _ => normZip_length O fs xs) (fun xs hx => normZip_stable O fs xs hf hx) h
  | .struct c fields defaults, v, hf, h => by
    simp only [idemFrag, Bool.not_eq_true'] at hf
    simp only [admits, norm, hf, Bool.false_eq_true, if_false] at *
    exact ⟨h, trivial⟩
  | .oneOf fs, v, _, h => by simp only [admits, norm] at *; exact ⟨h, trivial⟩
  | .allOf fs, v, _, h => by simp only [admits, norm] at *; exact ⟨h, trivial⟩
  | .notF fs, v, _, h => by simp only [admits, norm] at *; exact ⟨h, trivial⟩
  | .noneF, v, _, h => by simp only [admits, norm] at *; exact ⟨h, trivial⟩
  | .anything, v, _, _ => by simp only [admits, norm]; exact ⟨trivial, trivial⟩
  | .setAny imm sz, v, _, h => by
    simp only [admits, norm] at *
    unfold aSet at h
    cases v <;> simp at h
    rename_i fr xs
    simp only [nSet, aSet, id, c01_dedup_dedup, and_true_iff, Bool.or_assoc, Bool.or_self]
    exact ⟨⟨⟨h.2, trivial⟩, h.2⟩, trivial⟩
  | .setOf imm f sz, v, hf, h => by
    simp only [admits, norm, idemFrag] at *
    exact c01_aSet_stable imm sz _ _ v (fun x hx => norm_stable O f x hf hx) h
  | .mapAny _, _, hf, _ => by simp [idemFrag] at hf
  | .mapOf _ _ _, _, hf, _ => by simp [idemFrag] at hf
  | .anyOf _, _, hf, _ => by simp [idemFrag] at hf

theorem normZip_stable (O : Oracles) : ∀ (fs : List FieldDecl) (xs : List PyVal), idemFrags fs = true →
    admitsZip O fs xs = true →
      admitsZip O fs (normZip O fs xs) = true ∧ normZip O fs (normZip O fs xs) = normZip O fs xs
  | [], xs, _, _ => by simp only [admitsZip, normZip]; exact ⟨trivial, trivial⟩
  | _ :: _, [], _, _ => by simp only [admitsZip, normZip]; exact ⟨trivial, trivial⟩
  | f :: fs, x :: xs, hf, h => by
    simp only [idemFrags, admitsZip, and_true_iff] at hf h
    have h1 := norm_stable O f x hf.1 h.1
    have h2 := normZip_stable O fs xs hf.2 h.2
    simp only [normZip, admitsZip, and_true_iff]
    exact ⟨⟨h1.1, h2.1⟩, by rw [h1.2, h2.2]⟩
end

end Typedpy
