/-
  Lemmas/WorldFootprint.lean — the STATE footprint of a use (C15): an operation on class `c` writes only state
  owned by `c` or by classes `c` refers to (transitively).

  The footprint is given as a set `S` of classes that contains `c` and is closed under "is referred to by a field
  of" in the current world (`SClosed`).  `Untouched S w w2`: outside `S` no class entry, no mapper-cache entry and
  no simplicity-cache entry differs between `w` and `w2`, and the wrapper registry, the inline-class counter and
  the global flags are the same.  `CoreSame`: no class is added or removed and no definition-time core changes
  (so `S` stays closed along the way).
-/
import TypedpyModel.Lemmas.World
namespace Typedpy.World

structure Untouched (S : ClassId → Bool) (w w2 : World) : Prop where
  classes : ∀ d, S d = false → alookup d w2.classes = alookup d w.classes
  mapper : ∀ d b, S d = false → alookup (CKey.id d b) w2.mapperCache = alookup (CKey.id d b) w.mapperCache
  simpl : ∀ d b, S d = false → alookup (CKey.id d b) w2.simplicityCache = alookup (CKey.id d b) w.simplicityCache
  wrappers : w2.wrappers = w.wrappers
  counter : w2.srCounter = w.srCounter
  flags : w2.flags = w.flags
  /-- no class appears or disappears and no core changes -/
  cores : ∀ d, (alookup d w2.classes).map (·.core) = (alookup d w.classes).map (·.core)

theorem untouched_refl (S : ClassId → Bool) (w : World) : Untouched S w w :=
  ⟨fun _ _ => rfl, fun _ _ _ => rfl, fun _ _ _ => rfl, rfl, rfl, rfl, fun _ => rfl⟩

theorem untouched_trans {S : ClassId → Bool} {w w2 w3 : World} (h1 : Untouched S w w2) (h2 : Untouched S w2 w3) :
    Untouched S w w3 :=
  ⟨fun d hd => (h2.classes d hd).trans (h1.classes d hd), fun d b hd => (h2.mapper d b hd).trans (h1.mapper d b hd),
   fun d b hd => (h2.simpl d b hd).trans (h1.simpl d b hd), h2.wrappers.trans h1.wrappers,
   h2.counter.trans h1.counter, h2.flags.trans h1.flags, fun d => (h2.cores d).trans (h1.cores d)⟩

/-- `S` is closed under "is referred to by a field of" -/
def SClosed (S : ClassId → Bool) (w : World) : Prop :=
  ∀ d e, S d = true → alookup d w.classes = some e → ∀ b ∈ fieldRefs e.core.fields, S b = true

theorem sclosed_of_untouched {S : ClassId → Bool} {w w2 : World} (h : SClosed S w) (u : Untouched S w w2) :
    SClosed S w2 := by
  intro d e2 hS hl b hb
  have := u.cores d
  rw [hl] at this
  cases hl0 : alookup d w.classes with
  | none => rw [hl0] at this; simp at this
  | some e =>
    rw [hl0] at this
    simp only [Option.map_some, Option.some.injEq] at this
    exact h d e hS hl0 b (by rw [← this]; exact hb)

theorem eachClass_untouched {S : ClassId → Bool} (rec : World → ClassId → World)
    (hrec : ∀ w b, SClosed S w → S b = true → Untouched S w (rec w b)) :
    ∀ (bs : List ClassId) (w : World), SClosed S w → (∀ b ∈ bs, S b = true) → Untouched S w (eachClass rec w bs)
  | [], w, _, _ => untouched_refl S w
  | b :: bs, w, hc, hb => by
    simp only [eachClass]
    have u1 := hrec w b hc (hb b (by simp))
    exact untouched_trans u1 (eachClass_untouched rec hrec bs _ (sclosed_of_untouched hc u1)
      (fun x hx => hb x (by simp [hx])))

theorem ckey_ne {c d : ClassId} {b b' : Bool} (h : c ≠ d) : CKey.id c b ≠ CKey.id d b' := by
  intro hk; cases hk; exact h rfl

theorem fillMapperDeep_untouched {cfg : Config} (hc : cfg.cachesById = true) {S : ClassId → Bool} :
    ∀ (n : Nat) (w : World) (c : ClassId) (b : Bool), SClosed S w → S c = true →
      Untouched S w (fillMapperDeep cfg n w c b)
  | 0, w, _, _, _, _ => untouched_refl S w
  | n + 1, w, c, b, hcl, hS => by
    unfold fillMapperDeep
    cases hl : alookup c w.classes with
    | none => exact untouched_refl S w
    | some e =>
      simp only
      cases hk : alookup (mkey cfg c e b) w.mapperCache with
      | some _ => exact untouched_refl S w
      | none =>
        simp only
        have u1 := eachClass_untouched (S := S) (fun w b => fillMapperDeep cfg n w b false)
          (fun w b hcl hb => fillMapperDeep_untouched hc n w b false hcl hb) (fieldRefs e.core.fields) w hcl
          (fun x hx => hcl c e hS hl x hx)
        refine untouched_trans u1 ⟨fun _ _ => rfl, ?_, fun _ _ _ => rfl, rfl, rfl, rfl, fun _ => rfl⟩
        intro d b' hd
        rw [mkey_id hc]
        have hne : c ≠ d := by intro h; subst h; rw [hS] at hd; cases hd
        exact alookup_cons_ne _ _ (ckey_ne hne)

theorem fillMapper_untouched {cfg : Config} (hc : cfg.cachesById = true) {S : ClassId → Bool} {w : World}
    {c : ClassId} {e : Entry} (hl : alookup c w.classes = some e) (hcl : SClosed S w) (hS : S c = true) (b : Bool) :
    Untouched S w (fillMapper cfg w c e b) := by
  unfold fillMapper
  cases hk : alookup (mkey cfg c e b) w.mapperCache with
  | some _ => exact untouched_refl S w
  | none =>
    simp only
    have u1 := eachClass_untouched (S := S) (fun w' b => fillMapperDeep cfg w'.classes.length w' b false)
      (fun w' b hcl hb => fillMapperDeep_untouched hc _ w' b false hcl hb) (fieldRefs e.core.fields) w hcl
      (fun x hx => hcl c e hS hl x hx)
    refine untouched_trans u1 ⟨fun _ _ => rfl, ?_, fun _ _ _ => rfl, rfl, rfl, rfl, fun _ => rfl⟩
    intro d b' hd
    rw [mkey_id hc]
    have hne : c ≠ d := by intro h; subst h; rw [hS] at hd; cases hd
    exact alookup_cons_ne _ _ (ckey_ne hne)

theorem refFields_sub_fieldRefs {fs : List FieldSpec} {p : String × ClassId} (h : p ∈ refFields fs) :
    p.2 ∈ fieldRefs fs := by
  unfold refFields at h
  obtain ⟨f, hf, hfk⟩ := List.mem_filterMap.mp h
  unfold fieldRefs
  refine List.mem_flatMap.mpr ⟨f, hf, ?_⟩
  cases hk : f.kind with
  | ref b => rw [hk] at hfk; simp only [Option.some.injEq] at hfk; subst hfk; simp [kindRefs]
  | prim t => rw [hk] at hfk; simp at hfk
  | wrap n t => rw [hk] at hfk; simp at hfk
  | refs cs => rw [hk] at hfk; simp at hfk

theorem simplePrefix_sub : ∀ (fs : List FieldSpec) (f : FieldSpec), f ∈ simplePrefix fs → f ∈ fs
  | [], _, h => by simp [simplePrefix] at h
  | g :: fs, f, h => by
    unfold simplePrefix at h
    split at h
    · simp only [List.mem_cons] at h
      rcases h with rfl | h
      · simp
      · exact List.mem_cons_of_mem _ (simplePrefix_sub fs f h)
    · simp only [List.mem_singleton] at h
      subst h; simp

theorem refFields_mono {fs gs : List FieldSpec} (h : ∀ f, f ∈ fs → f ∈ gs) {p : String × ClassId}
    (hp : p ∈ refFields fs) : p ∈ refFields gs := by
  unfold refFields at *
  obtain ⟨f, hf, hfk⟩ := List.mem_filterMap.mp hp
  exact List.mem_filterMap.mpr ⟨f, h f hf, hfk⟩

theorem fillSimplicityDeep_untouched {cfg : Config} (hc : cfg.cachesById = true) {S : ClassId → Bool} :
    ∀ (n : Nat) (w : World) (c : ClassId), SClosed S w → S c = true →
      Untouched S w (fillSimplicityDeep cfg n w c)
  | 0, w, _, _, _ => untouched_refl S w
  | n + 1, w, c, hcl, hS => by
    unfold fillSimplicityDeep
    cases hl : alookup c w.classes with
    | none => exact untouched_refl S w
    | some e =>
      simp only
      cases hk : alookup (skey cfg c e) w.simplicityCache with
      | some _ => exact untouched_refl S w
      | none =>
        simp only
        have u1 := eachClass_untouched (S := S) (fun w b => fillSimplicityDeep cfg n w b)
          (fun w b hcl hb => fillSimplicityDeep_untouched hc n w b hcl hb)
          ((refFields (simplePrefix e.core.fields)).map (·.2)) w hcl
          (fun x hx => by
            obtain ⟨p, hp, rfl⟩ := List.mem_map.mp hx
            exact hcl c e hS hl p.2 (refFields_sub_fieldRefs (refFields_mono (simplePrefix_sub _) hp)))
        refine untouched_trans u1 ⟨fun _ _ => rfl, fun _ _ _ => rfl, ?_, rfl, rfl, rfl, fun _ => rfl⟩
        intro d b' hd
        rw [skey_id hc]
        have hne : c ≠ d := by intro h; subst h; rw [hS] at hd; cases hd
        exact alookup_cons_ne _ _ (ckey_ne hne)

theorem setEntry_untouched {S : ClassId → Bool} {w : World} {c : ClassId} {e e' : Entry}
    (hl : alookup c w.classes = some e) (hcore : e'.core = e.core) (hS : S c = true) :
    Untouched S w (setEntry w c e') := by
  refine ⟨?_, fun _ _ _ => rfl, fun _ _ _ => rfl, rfl, rfl, rfl, ?_⟩
  · intro d hd
    have hne : c ≠ d := by intro h; subst h; rw [hS] at hd; cases hd
    exact alookup_cons_ne _ _ hne
  · intro d
    by_cases h : c = d
    · subst h
      have : alookup c (setEntry w c e').classes = some e' := alookup_cons_eq _ _ _
      rw [this, hl]; simp [hcore]
    · have : alookup d (setEntry w c e').classes = alookup d w.classes := alookup_cons_ne _ _ h
      rw [this]

theorem setSer_untouched {S : ClassId → Bool} {w : World} {c : ClassId} (s : Ser) (hS : S c = true) :
    Untouched S w (setSer w c s) := by
  unfold setSer
  cases hl : alookup c w.classes with
  | none => exact untouched_refl S w
  | some et => exact setEntry_untouched hl rfl hS

theorem verify_untouched {S : ClassId → Bool} (cfg : Config) (rec : World → ClassId → World)
    (hrec : ∀ w b, SClosed S w → S b = true → Untouched S w (rec w b)) :
    ∀ (fs : List FieldSpec) (w : World), SClosed S w → (∀ b ∈ fieldRefs fs, S b = true) →
      Untouched S w (verifyFields cfg rec w fs).1
  | [], w, _, _ => untouched_refl S w
  | f :: fs, w, hcl, hb => by
    have hb' : ∀ b ∈ fieldRefs fs, S b = true := by
      intro b hx
      apply hb b
      unfold fieldRefs at *
      simp only [List.flatMap_cons, List.mem_append]
      exact Or.inr hx
    unfold verifyFields
    cases hk : f.kind with
    | ref b =>
      simp only
      have hSb : S b = true := hb b (by simp [fieldRefs, hk, kindRefs])
      split
      · cases hn : needsSer cfg w b with
        | true =>
          simp only [if_true]
          have u1 := hrec w b hcl hSb
          exact untouched_trans u1 (verify_untouched cfg rec hrec fs _ (sclosed_of_untouched hcl u1) hb')
        | false =>
          simp only [Bool.false_eq_true, if_false]
          exact verify_untouched cfg rec hrec fs w hcl hb'
      · exact untouched_refl S w
    | prim t =>
      simp only
      split
      · exact verify_untouched cfg rec hrec fs w hcl hb'
      · exact untouched_refl S w
    | wrap n t =>
      simp only
      split
      · exact verify_untouched cfg rec hrec fs w hcl hb'
      · exact untouched_refl S w
    | refs cs =>
      simp only
      split
      · exact verify_untouched cfg rec hrec fs w hcl hb'
      · exact untouched_refl S w

theorem createW_untouched {cfg : Config} (hc : cfg.cachesById = true) {S : ClassId → Bool} :
    ∀ (n : Nat) (w : World) (c : ClassId) (fl : SerFlags), SClosed S w → S c = true →
      Untouched S w (createW cfg n w c fl).1
  | 0, w, _, _, _, _ => untouched_refl S w
  | n + 1, w, c, fl, hcl, hS => by
    unfold createW
    cases hl : alookup c w.classes with
    | none => exact untouched_refl S w
    | some e =>
      simp only
      have u1 := fillMapper_untouched hc hl hcl hS false
      have u2 := verify_untouched (S := S) cfg (fun w b => (createW cfg n w b .plain).1)
        (fun w b hcl hb => createW_untouched hc n w b .plain hcl hb) e.core.fields _
        (sclosed_of_untouched hcl u1) (fun b hb => hcl c e hS hl b hb)
      split
      · simp only [installTarget_self hc]
        exact untouched_trans u1 (untouched_trans u2 (setSer_untouched _ hS))
      · exact untouched_trans u1 u2

/-- THE STATE FRAME of a use: a construct / serialize / deserialize / trusted deserialization /
    structure_to_schema / create_serializer of class `c` leaves, outside any set `S ∋ c` closed under "is referred
    to by a field of", every class entry and every cache entry exactly as it was; it never touches the wrapper
    registry, the inline-class counter or the global flags; and it adds, removes or re-defines no class -/
theorem use_untouched {cfg : Config} (hc : cfg.cachesById = true) {S : ClassId → Bool} (w : World) (op : WorldOp)
    (hcl : SClosed S w)
    (hop : match op with
      | .construct c _ | .serialize c _ _ | .deserialize c _ | .trustedDeserialize c _ | .toSchema c
      | .createSerializer c _ => S c = true
      | _ => False)
    (hns : cfg.schemaWritesRequired = false) :
    Untouched S w (stepW cfg w op).1 := by
  have hcons : ∀ c e kw w', alookup c w'.classes = some e → SClosed S w' → S c = true →
      Untouched S w' (constructW cfg w' c e kw) := by
    intro c e kw w' hl hcl' hS
    unfold constructW autoInstallW installW
    split
    · split
      · exact createW_untouched hc _ w' c .plain hcl' hS
      · exact untouched_refl S w'
    · exact untouched_refl S w'
  cases op with
  | define c src => exact hop.elim
  | setDefault f b => exact hop.elim
  | construct c kw =>
    simp only [stepW, withClass]
    cases hl : alookup c w.classes with
    | none => exact untouched_refl S w
    | some e => exact hcons c e kw w hl hcl hop
  | deserialize c kw =>
    simp only [stepW, withClass]
    cases hl : alookup c w.classes with
    | none => exact untouched_refl S w
    | some e => exact hcons c e kw w hl hcl hop
  | trustedDeserialize c kw =>
    simp only [stepW, withClass]
    cases hl : alookup c w.classes with
    | none => exact untouched_refl S w
    | some e =>
      simp only
      have u1 : Untouched S w (fillSimplicity cfg w c e) := fillSimplicityDeep_untouched hc _ w c hcl hop
      have hl1 : alookup c (fillSimplicity cfg w c e).classes = some e := by
        unfold fillSimplicity; rw [fillSimplicityDeep_classes]; exact hl
      exact untouched_trans u1 (hcons c e kw _ hl1 (sclosed_of_untouched hcl u1) hop)
  | serialize c kw camel =>
    simp only [stepW, withClass]
    cases hl : alookup c w.classes with
    | none => exact untouched_refl S w
    | some e =>
      simp only
      have u1 := hcons c e kw w hl hcl hop
      split
      · have hc1 := u1.cores c
        rw [hl] at hc1
        cases hl1 : alookup c (constructW cfg w c e kw).classes with
        | none => rw [hl1] at hc1; simp at hc1
        | some e1 =>
          -- `fillMapper` is called with the entry read BEFORE the construction; only its core is used
          have hcl1 := sclosed_of_untouched hcl u1
          refine untouched_trans u1 ?_
          unfold fillMapper
          cases hk : alookup (mkey cfg c e camel) (constructW cfg w c e kw).mapperCache with
          | some _ => exact untouched_refl S _
          | none =>
            simp only
            have u2 := eachClass_untouched (S := S) (fun w' b => fillMapperDeep cfg w'.classes.length w' b false)
              (fun w' b hcl hb => fillMapperDeep_untouched hc _ w' b false hcl hb) (fieldRefs e.core.fields)
              (constructW cfg w c e kw) hcl1 (fun x hx => hcl c e hop hl x hx)
            refine untouched_trans u2 ⟨fun _ _ => rfl, ?_, fun _ _ _ => rfl, rfl, rfl, rfl, fun _ => rfl⟩
            intro d b' hd
            rw [mkey_id hc]
            have hne : c ≠ d := by intro h; subst h; rw [hop] at hd; cases hd
            exact alookup_cons_ne _ _ (ckey_ne hne)
      · exact u1
  | createSerializer c fl =>
    simp only [stepW, withClass]
    cases hl : alookup c w.classes with
    | none => exact untouched_refl S w
    | some e => exact createW_untouched hc _ w c fl hcl hop
  | toSchema c =>
    simp only [stepW, withClass]
    cases hl : alookup c w.classes with
    | none => exact untouched_refl S w
    | some e =>
      simp only [schemaW, hns, Bool.false_and, Bool.false_eq_true, if_false]
      exact fillMapper_untouched hc hl hcl hop false

end Typedpy.World
