/-
  Lemmas/DefineWorld.lean — invariants of every class object in every world reachable by class
  statements: `_field_by_name` is the MRO merge of the own fields, the MRO is duplicate-free and
  closed, and every ancestor's MRO is a subsequence (C3).  Proved by induction over histories.
-/
import TypedpyModel.Lemmas.Faults
namespace Typedpy

/-! ### worlds -/

theorem findCls_name {n : String} {c : ClassDef} : ∀ {l : List ClassDef}, findCls n l = some c → c.name = n
  | [], h => by simp [findCls] at h
  | d :: ds, h => by
    simp only [findCls] at h
    split at h
    · rename_i hd; cases h; simpa using hd
    · exact findCls_name h

theorem findCls_append (n : String) (d : ClassDef) : ∀ l : List ClassDef,
    findCls n (l ++ [d]) = match findCls n l with
      | some c => some c
      | none => if d.name == n then some d else none
  | [] => by simp [findCls]
  | x :: xs => by
    simp only [List.cons_append, findCls]
    split
    · rfl
    · exact findCls_append n d xs

theorem find_add_of_some {w : World} {d c : ClassDef} {n : String} (h : w.find n = some c) :
    (w.add d).find n = some c := by
  simp only [World.find, World.add] at h ⊢
  rw [findCls_append, h]

theorem find_add_fresh {w : World} {d : ClassDef} (h : w.find d.name = none) :
    (w.add d).find d.name = some d := by
  simp only [World.find, World.add] at h ⊢
  rw [findCls_append, h]; simp

theorem find_add_inv {w : World} {d c : ClassDef} {n : String} (h : (w.add d).find n = some c) :
    w.find n = some c ∨ (w.find n = none ∧ c = d ∧ d.name = n) := by
  simp only [World.find, World.add] at h ⊢
  rw [findCls_append] at h
  cases hf : findCls n w.classes with
  | some c' => simp [hf] at h; exact Or.inl (by rw [h])
  | none =>
    simp only [hf] at h
    split at h
    · rename_i hd; cases h; exact Or.inr ⟨rfl, rfl, by simpa using hd⟩
    · cases h

theorem ownOf_add {w : World} {d : ClassDef} {k : String} (h : (w.find k).isSome = true) :
    ownOf (w.add d) k = ownOf w k := by
  cases hf : w.find k with
  | none => simp [hf] at h
  | some c => simp [ownOf, hf, find_add_of_some hf]

/-- what the model guarantees about every class object of a world -/
structure ClassOk (w : World) (c : ClassDef) : Prop where
  self : w.find c.name = some c
  head : ∃ t, c.mro = c.name :: t
  /-- `_field_by_name` is the MRO merge of the own `_fields` -/
  fields : c.allFields = updateAll [] ((c.mro.reverse.map (ownOf w)).flatten)
  nodup : c.mro.Nodup
  /-- every class of the MRO exists and its own MRO is a subsequence -/
  closed : ∀ a ∈ c.mro, ∃ ad, w.find a = some ad ∧ ad.mro.Sublist c.mro

def WorldOk (w : World) : Prop := ∀ n c, w.find n = some c → ClassOk w c

theorem classOk_add {w : World} {c d : ClassDef} (h : ClassOk w c) : ClassOk (w.add d) c where
  self := find_add_of_some h.self
  head := h.head
  fields := by
    rw [h.fields]
    congr 2
    apply List.map_congr_left
    intro k hk
    rcases h.closed k (List.mem_reverse.mp hk) with ⟨ad, had, _⟩
    exact (ownOf_add (by simp [had])).symm
  nodup := h.nodup
  closed := fun a ha => by
    rcases h.closed a ha with ⟨ad, had, hs⟩
    exact ⟨ad, find_add_of_some had, hs⟩

theorem distinctStr_nodup : ∀ {l : List String}, distinctStr l = true → l.Nodup
  | [], _ => List.nodup_nil
  | x :: xs, h => by
    simp only [distinctStr, Bool.and_eq_true, Bool.not_eq_true'] at h
    exact List.nodup_cons.mpr ⟨by simpa using h.1, distinctStr_nodup h.2⟩

theorem mem_baseDefs {w : World} {src : ClassSrc} {bd : ClassDef} :
    bd ∈ baseDefs w src ↔ ∃ b ∈ src.bases, w.find b = some bd := by
  simp [baseDefs, List.mem_filterMap]

/-- facts extracted from a successful class statement -/
structure DefFacts (w : World) (src : ClassSrc) : Prop where
  basesFound : ∀ b ∈ src.bases, (w.find b).isSome = true
  basesDistinct : src.bases.Nodup
  c3ok : c3 (mroSeqs w src) = some (mroTail w src)

theorem defFacts {O : Oracles} {w : World} {src : ClassSrc}
    (h : runChecks (checks O w src) = .ok ()) : DefFacts w src := by
  have hb := runChecks_ok_mem h _ (mem_checks_base (O := O) (w := w) (src := src))
  have hm := runChecks_ok_mem h _ (mem_checks_mro (O := O) (w := w) (src := src))
  simp only [unknownBaseCheck] at hb
  simp only [mroCheck] at hm
  split at hb
  · rename_i hc
    split at hm
    · rename_i hc2
      rcases Bool.and_eq_true _ _ |>.mp hc2 with ⟨hd, hs⟩
      refine ⟨?_, distinctStr_nodup hd, ?_⟩
      · have := (Bool.and_eq_true _ _ |>.mp hc).1
        exact fun b hb => (List.all_eq_true.mp this) b hb
      · simp only [mroOf, Option.isSome_map] at hs
        cases hc3 : c3 (mroSeqs w src) with
        | none => simp [hc3] at hs
        | some t => simp [mroTail, hc3]
    · cases hm
  · cases hb

theorem tail_closed {w : World} {src : ClassSrc} (hw : WorldOk w) (hf : DefFacts w src) :
    ∀ k ∈ mroTail w src, ∃ kd, w.find k = some kd ∧ kd.mro.Sublist (mroTail w src) := by
  intro k hk
  have hsub := c3merge_sublist _ _ _ hf.c3ok
  rcases c3merge_origin _ _ _ hf.c3ok k hk with ⟨s, hs, hks⟩
  simp only [mroSeqs, List.mem_append, List.mem_map, List.mem_singleton] at hs
  rcases hs with ⟨bd, hbd, rfl⟩ | rfl
  · rcases mem_baseDefs.mp hbd with ⟨b, _, hfb⟩
    rcases (hw b bd hfb).closed k hks with ⟨kd, hkd, hs2⟩
    exact ⟨kd, hkd, hs2.trans (hsub _ (by simp [mroSeqs]; exact Or.inl ⟨bd, hbd, rfl⟩))⟩
  · have := hf.basesFound k hks
    cases hfk : w.find k with
    | none => simp [hfk] at this
    | some kd =>
      refine ⟨kd, rfl, hsub _ ?_⟩
      simp only [mroSeqs, List.mem_append, List.mem_map, List.mem_singleton]
      exact Or.inl ⟨kd, mem_baseDefs.mpr ⟨k, hks, hfk⟩, rfl⟩

theorem tail_nodup {w : World} {src : ClassSrc} (hw : WorldOk w) (hf : DefFacts w src) :
    (mroTail w src).Nodup := by
  apply c3merge_nodup _ _ _ hf.c3ok
  intro s hs
  simp only [mroSeqs, List.mem_append, List.mem_map, List.mem_singleton] at hs
  rcases hs with ⟨bd, hbd, rfl⟩ | rfl
  · rcases mem_baseDefs.mp hbd with ⟨b, _, hfb⟩
    exact (hw b bd hfb).nodup
  · exact hf.basesDistinct

/-- a successful class statement yields a class satisfying the invariants, in the extended world -/
theorem build_ok {w : World} {src : ClassSrc} (hw : WorldOk w) (hf : DefFacts w src)
    (hfresh : w.find src.name = none) : ClassOk (w.add (build w src)) (build w src) where
  self := find_add_fresh (d := build w src) hfresh
  head := ⟨mroTail w src, rfl⟩
  fields := by
    show allFieldsOf w src = _
    have hname : (build w src).name = src.name := rfl
    have hmro : (build w src).mro = src.name :: mroTail w src := rfl
    rw [hmro, List.reverse_cons, List.map_append, allFieldsOf, mergeAll_eq]
    congr 2
    congr 1
    · apply List.map_congr_left
      intro k hk
      rcases tail_closed hw hf k (List.mem_reverse.mp hk) with ⟨kd, hkd, _⟩
      exact (ownOf_add (by simp [hkd])).symm
    · have := find_add_fresh (d := build w src) hfresh
      simp only [List.map_cons, List.map_nil, ownOf]
      rw [hname] at this
      rw [this]
      rfl
  nodup := by
    show (src.name :: mroTail w src).Nodup
    refine List.nodup_cons.mpr ⟨?_, tail_nodup hw hf⟩
    intro hm
    rcases tail_closed hw hf _ hm with ⟨kd, hkd, _⟩
    rw [hfresh] at hkd; cases hkd
  closed := by
    intro a ha
    have hmro : (build w src).mro = src.name :: mroTail w src := rfl
    rw [hmro] at ha ⊢
    rcases List.mem_cons.mp ha with rfl | ha
    · exact ⟨build w src, find_add_fresh (d := build w src) hfresh, List.Sublist.refl _⟩
    · rcases tail_closed hw hf a ha with ⟨ad, had, hs⟩
      exact ⟨ad, find_add_of_some had, List.Sublist.cons _ hs⟩

theorem worldOk_add_define {O : Oracles} {w : World} {src : ClassSrc} {cd : ClassDef}
    (hw : WorldOk w) (h : defineClass O w src = .ok cd) (hfresh : w.find src.name = none) :
    WorldOk (w.add cd) := by
  rcases defineClass_ok h with ⟨hc, rfl⟩
  intro n c hn
  rcases find_add_inv hn with h1 | ⟨_, rfl, _⟩
  · exact classOk_add (hw n c h1)
  · exact build_ok hw (defFacts hc) hfresh

theorem flatten_all_nil {α} : ∀ (ls : List (List α)), (∀ l ∈ ls, l = []) → ls.flatten = []
  | [], _ => rfl
  | l :: ls, h => by
    rw [List.flatten_cons, h l List.mem_cons_self, List.nil_append]
    exact flatten_all_nil ls fun x hx => h x (List.mem_cons_of_mem _ hx)

/-- adding a class without fields of its own whose ancestors have none either -/
theorem classOk_add_simple {w : World} {c : ClassDef} {t : List String}
    (hfresh : w.find c.name = none) (hown : c.own = []) (hall : c.allFields = [])
    (hm : c.mro = c.name :: t) (hnd : t.Nodup)
    (ht : ∀ k ∈ t, ∃ kd, w.find k = some kd ∧ kd.own = [] ∧ kd.mro.Sublist t) :
    ClassOk (w.add c) c where
  self := find_add_fresh hfresh
  head := ⟨t, hm⟩
  fields := by
    rw [hall, flatten_all_nil]
    · rfl
    · intro l hl
      rcases List.mem_map.mp hl with ⟨k, hk, rfl⟩
      rw [hm] at hk
      rcases List.mem_cons.mp (List.mem_reverse.mp hk) with rfl | hk
      · simp [ownOf, find_add_fresh hfresh, hown]
      · rcases ht k hk with ⟨kd, hkd, ho, _⟩
        simp [ownOf, find_add_of_some (d := c) hkd, ho]
  nodup := by
    rw [hm]
    refine List.nodup_cons.mpr ⟨?_, hnd⟩
    intro hmem
    rcases ht _ hmem with ⟨kd, hkd, _⟩
    rw [hfresh] at hkd; cases hkd
  closed := by
    intro a ha
    rw [hm] at ha ⊢
    rcases List.mem_cons.mp ha with rfl | ha
    · exact ⟨c, find_add_fresh hfresh, by rw [hm]; exact List.Sublist.refl _⟩
    · rcases ht a ha with ⟨ad, had, _, hs⟩
      exact ⟨ad, find_add_of_some had, List.Sublist.cons _ hs⟩

theorem worldOk_add_simple {w : World} {c : ClassDef} {t : List String} (hw : WorldOk w)
    (hfresh : w.find c.name = none) (hown : c.own = []) (hall : c.allFields = [])
    (hm : c.mro = c.name :: t) (hnd : t.Nodup)
    (ht : ∀ k ∈ t, ∃ kd, w.find k = some kd ∧ kd.own = [] ∧ kd.mro.Sublist t) :
    WorldOk (w.add c) := by
  intro k d hk
  rcases find_add_inv hk with h1 | ⟨_, rfl, _⟩
  · exact classOk_add (hw k d h1)
  · exact classOk_add_simple hfresh hown hall hm hnd ht

theorem worldOk_add_mixin {w : World} {n : String} (hw : WorldOk w) (hfresh : w.find n = none) :
    WorldOk (w.add (mixinDef n)) :=
  worldOk_add_simple (t := []) hw hfresh rfl rfl rfl List.nodup_nil (fun _ h => by cases h)

/-- the initial world (typedpy's own base classes), with any guard setting -/
def initWorld (bc bn : Bool) : World := { World.init with blockConsts := bc, blockNonTypedpy := bn }

theorem worldOk_init (bc bn : Bool) : WorldOk (initWorld bc bn) := by
  let w0 : World := { classes := [], blockConsts := bc, blockNonTypedpy := bn }
  have h0 : WorldOk w0 := by intro n c h; simp [w0, World.find, findCls] at h
  let S := World.builtin "Structure" [] false
  have h1 : WorldOk (w0.add S) :=
    worldOk_add_simple (t := []) h0 (by simp [w0, World.find, findCls]) rfl rfl rfl List.nodup_nil
      (fun _ h => by cases h)
  have sub : ∀ (w : World) (nm : String) (imm : Bool), WorldOk w → w.find "Structure" = some S →
      w.find nm = none → WorldOk (w.add (World.builtin nm ["Structure"] imm)) := by
    intro w nm imm hw hS hf
    refine worldOk_add_simple (t := ["Structure"]) hw hf rfl rfl rfl (by simp) ?_
    intro k hk
    have : k = "Structure" := by simpa using hk
    subst this
    exact ⟨S, hS, rfl, List.Sublist.refl _⟩
  have hS1 : (w0.add S).find "Structure" = some S := find_add_fresh (d := S) (by simp [w0, World.find, findCls])
  have h2 := sub _ "ImmutableStructure" true h1 hS1 (by simp [w0, S, World.find, World.add, findCls, World.builtin])
  have hS2 := find_add_of_some (d := World.builtin "ImmutableStructure" ["Structure"] true) hS1
  have h3 := sub _ "FinalStructure" false h2 hS2 (by simp [w0, S, World.find, World.add, findCls, World.builtin])
  have hS3 := find_add_of_some (d := World.builtin "FinalStructure" ["Structure"] false) hS2
  have h4 := sub _ "AbstractStructure" false h3 hS3 (by simp [w0, S, World.find, World.add, findCls, World.builtin])
  exact h4

/-- worlds reachable from the initial one by successful class-creating statements with fresh
    names (all histories of definitions, mixins and derivations) -/
inductive Reachable (O : Oracles) : World → Prop where
  | init (bc bn : Bool) : Reachable O (initWorld bc bn)
  | step {w : World} {s : Step} {c : ClassDef} : Reachable O w → stepClass O w s = .ok c →
      w.find c.name = none → Reachable O (w.add c)

theorem defineClass_name {O : Oracles} {w : World} {src : ClassSrc} {cd : ClassDef}
    (h : defineClass O w src = .ok cd) : cd.name = src.name := by
  rcases defineClass_ok h with ⟨_, rfl⟩; rfl

theorem worldOk_step {O : Oracles} {w : World} {s : Step} {c : ClassDef} (hw : WorldOk w)
    (h : stepClass O w s = .ok c) (hfresh : w.find c.name = none) : WorldOk (w.add c) := by
  cases s with
  | define src =>
    simp only [stepClass] at h
    exact worldOk_add_define hw h (by rw [← defineClass_name h]; exact hfresh)
  | mixin n =>
    simp only [stepClass] at h
    cases h
    exact worldOk_add_mixin hw hfresh
  | derive op source newName =>
    simp only [stepClass] at h
    split at h
    · rename_i c0 _
      simp only [deriveClass] at h
      rcases bindE_eq_ok h with ⟨src, _, hd⟩
      exact worldOk_add_define hw hd (by rw [← defineClass_name hd]; exact hfresh)
    · cases h

theorem reachable_ok {O : Oracles} {w : World} (h : Reachable O w) : WorldOk w := by
  induction h with
  | init bc bn => exact worldOk_init bc bn
  | step _ hs hf ih => exact worldOk_step ih hs hf

/-- own fields of class `k`, last assignment first -/
def ownRev (w : World) (k : String) : List (String × Member) := (ownOf w k).reverse

/-- `_field_by_name[n]` is the own field `n` of the first class along the MRO that has one -/
theorem lookup_allFields {w : World} {c : ClassDef} (hc : ClassOk w c) (n : String) :
    lookup n c.allFields =
      match firstOwner (ownRev w) n c.mro with
      | some k => lookup n (ownRev w k)
      | none => none := by
  rw [hc.fields, lookup_updateAll]
  have : ((c.mro.reverse.map (ownOf w)).flatten).reverse = (c.mro.map (ownRev w)).flatten := by
    rw [List.reverse_flatten, List.map_reverse, ← List.map_reverse, List.reverse_reverse,
      List.map_map]
    rfl
  rw [this, lookup_flatten_map]
  cases firstOwner (ownRev w) n c.mro <;> simp [lookup]

theorem firstOwner_isSome_of_mem {α} {g : String → List (String × α)} {n k : String} :
    ∀ {l : List String}, k ∈ l → (lookup n (g k)).isSome = true → (firstOwner g n l).isSome = true
  | [], h, _ => by cases h
  | x :: xs, h, ho => by
    simp only [firstOwner]
    split
    · rfl
    · rename_i hx
      rcases List.mem_cons.mp h with rfl | h
      · exact absurd ho hx
      · exact firstOwner_isSome_of_mem h ho

theorem fieldName_iff_owner {w : World} {c : ClassDef} (hc : ClassOk w c) (n : String) :
    n ∈ c.fieldNames ↔ (firstOwner (ownRev w) n c.mro).isSome = true := by
  rw [ClassDef.fieldNames, ← lookup_isSome_iff, lookup_allFields hc]
  cases h : firstOwner (ownRev w) n c.mro with
  | none => simp
  | some k => simpa using (firstOwner_some h).2


/-! ### signatures of the bases -/

theorem lookup_filter_ne {α} {n k : String} (hne : n ≠ k) :
    ∀ l : List (String × α), lookup n (l.filter (fun q => q.1 != k)) = lookup n l
  | [] => rfl
  | (a, v) :: rest => by
    simp only [List.filter]
    by_cases hak : a = k
    · subst hak
      have : (n == a) = false := by simpa using hne
      simp [lookup, this, lookup_filter_ne hne rest]
    · have : ((a, v).1 != k) = true := by simpa using hak
      simp only [this, lookup]
      rw [lookup_filter_ne hne rest]

theorem lookup_dedupKeys {α} (n : String) : ∀ l : List (String × α), lookup n (dedupKeys l) = lookup n l
  | [] => rfl
  | (a, v) :: rest => by
    simp only [dedupKeys, lookup]
    split
    · rfl
    · rename_i hna
      rw [lookup_filter_ne (by simpa using hna), lookup_dedupKeys n rest]

theorem mem_dedupStr {x : String} : ∀ {l : List String}, x ∈ dedupStr l ↔ x ∈ l
  | [] => by simp [dedupStr]
  | y :: ys => by
    simp only [dedupStr, List.mem_cons, List.mem_filter, mem_dedupStr (l := ys)]
    by_cases h : x = y <;> simp [h]

theorem lookup_mapConst (n : String) (b : Bool) :
    ∀ l : List String, lookup n (l.map fun k => (k, b)) = if l.contains n then some b else none
  | [] => by simp [lookup]
  | k :: ks => by
    simp only [List.map_cons, lookup, List.contains_cons, lookup_mapConst n b ks]
    by_cases h : n = k
    · simp [h]
    · have : (n == k) = false := by simpa using h
      simp [this]

theorem allSigParams_append : ∀ (l1 l2 : List ClassDef),
    allSigParams (l1 ++ l2) = allSigParams l1 ++ allSigParams l2
  | [], _ => rfl
  | b :: bs, l2 => by simp [allSigParams, allSigParams_append bs l2]

theorem lookup_sigParams_req {s : Sig} {n : String} (h : n ∈ s.req) (rest : List (String × Bool)) :
    lookup n (sigParams s ++ rest) = some true := by
  simp only [sigParams, List.append_assoc, lookup_append_orElse, lookup_mapConst]
  simp [h]

theorem lookup_pre {n : String} {rest : List (String × Bool)} (hr : lookup n rest = some true) :
    ∀ (pre : List ClassDef), (∀ p ∈ pre, n ∈ p.sig.opt → n ∈ p.sig.req) →
      lookup n (allSigParams pre ++ rest) = some true
  | [], _ => by simpa [allSigParams] using hr
  | p :: ps, h => by
    simp only [allSigParams, List.append_assoc]
    by_cases hq : n ∈ p.sig.req
    · exact lookup_sigParams_req hq _
    · have ho : n ∉ p.sig.opt := fun ho => hq (h p List.mem_cons_self ho)
      simp only [sigParams, List.append_assoc, lookup_append_orElse, lookup_mapConst]
      simp only [List.contains_eq_mem, hq, ho, decide_false, Bool.false_eq_true, if_false,
        Option.orElse_none]
      have := lookup_pre hr ps (fun q hq' => h q (List.mem_cons_of_mem _ hq'))
      simpa [lookup_append_orElse] using this


end Typedpy
