/-
  Lemmas/TrustedExh.lean — C10: the declaration-level partition of the trusted-deserialization claim is
  exhaustive: a field shape is inside the proved region `tsafeD` or carries a named defect /
  "unproved" / "ineligible-shape" tag of `defectsD` (so no class can be outside the region without a name).
-/
import TypedpyModel.Lemmas.Trusted
namespace Typedpy

theorem c10_ne_nil_append_left {α} {a b : List α} (h : a ≠ []) : a ++ b ≠ [] := by
  cases a <;> simp_all

theorem c10_ne_nil_append_right {α} {a b : List α} (h : b ≠ []) : a ++ b ≠ [] := by
  cases a <;> simp_all

/-- the defect names one class field contributes (`defectsFields`, per field) -/
def topDefects : FieldDecl → List String
  | .anyOf fs => optDefect fs ++ (if isOptAnyOf fs then defectsHead fs else [])
  | g => defectsD g

theorem c10_defectsFields_cons (n : String) (f : FieldDecl) (rest : List (String × FieldDecl)) :
    defectsFields ((n, f) :: rest) = topDefects f ++ defectsFields rest := by
  cases f <;> rfl

mutual
/-- a field shape is inside the proved region or carries a named defect / "unproved" tag -/
theorem c10_exh_D : ∀ f : FieldDecl, (∀ fs, f ≠ .anyOf fs) → tsafeD f = true ∨ defectsD f ≠ []
  | .integer _, _ => Or.inl rfl
  | .number _, _ => Or.inl rfl
  | .float _, _ => Or.inl rfl
  | .string _ _ _, _ => Or.inl rfl
  | .boolean, _ => Or.inl rfl
  | .noneF, _ => Or.inl rfl
  | .enumLit _, _ => Or.inl rfl
  | .enumCls _ names, _ => by
    cases h : names.contains "" with
    | false => left; simp only [tsafeD, h, Bool.not_false]
    | true => right; simp only [defectsD, h, if_true]; exact List.cons_ne_nil _ _
  | .seqOf .list item _, _ => by
    simp only [tsafeD, defectsD]
    by_cases h1 : isArrScalar item = true
    · simp [h1]
    · by_cases h2 : isEnumDecl item = true
      · have hna : ∀ fs, item ≠ .anyOf fs := fun fs h => by subst h; simp [isEnumDecl] at h2
        rcases c10_exh_D item hna with h | h
        · simp [h1, h2, h]
        · right; simp only [h1, h2, if_true, Bool.false_eq_true, if_false]; exact h
      · by_cases h3 : isClassRef item = true
        · have hna : ∀ fs, item ≠ .anyOf fs := fun fs h => by subst h; simp [isClassRef] at h3
          rcases c10_exh_D item hna with h | h
          · simp [h1, h2, h3, h]
          · right; simp only [h1, h2, h3, if_true, Bool.false_eq_true, if_false]; exact h
        · right; simp [h1, h2, h3]
  | .seqOf .deque _ _, _ => Or.inr (by simp [defectsD])
  | .setOf _ item _, _ => by
    simp only [tsafeD, defectsD]
    by_cases h1 : isSetScalarOk item = true
    · simp [h1]
    · by_cases h2 : isEnumDecl item = true
      · have hna : ∀ fs, item ≠ .anyOf fs := fun fs h => by subst h; simp [isEnumDecl] at h2
        rcases c10_exh_D item hna with h | h
        · simp [h1, h2, h]
        · right; simp only [h1, h2, if_true, Bool.false_eq_true, if_false]; exact h
      · right
        simp only [h1, h2, Bool.false_eq_true, if_false]
        split
        · simp
        · split <;> simp
  | .struct c fields _, _ => by
    simp only [tsafeD, defectsD]
    by_cases hi : c.inline = true
    · right; simp [hi]
    · have hi' : c.inline = false := by simpa using hi
      simp only [hi', Bool.not_false, Bool.true_and, Bool.false_eq_true, if_false]
      by_cases hn : strNodup (fields.map (·.1)) = true
      · rcases c10_exh_fields fields with h | h
        · simp [hn, h]
        · right; simp only [hn, if_true, List.nil_append]; exact h
      · right
        have hn' : strNodup (fields.map (·.1)) = false := by simpa using hn
        simp [hn']
  | .anyOf fs, h => absurd rfl (h fs)
  | .seqAny _ _, _ => Or.inr (by simp [defectsD])
  | .seqPos _ _ _ _, _ => Or.inr (by simp [defectsD])
  | .setAny _ _, _ => Or.inr (by simp [defectsD])
  | .tupleOf _ _, _ => Or.inr (by simp [defectsD])
  | .tuplePos _ _, _ => Or.inr (by simp [defectsD])
  | .mapAny _, _ => Or.inr (by simp [defectsD])
  | .mapOf _ _ _, _ => Or.inr (by simp [defectsD])
  | .oneOf _, _ => Or.inr (by simp [defectsD])
  | .allOf _, _ => Or.inr (by simp [defectsD])
  | .notF _, _ => Or.inr (by simp [defectsD])
  | .anything, _ => Or.inr (by simp [defectsD])

theorem c10_exh_fields : ∀ fields : List (String × FieldDecl), tsafeFields fields = true ∨ defectsFields fields ≠ []
  | [] => Or.inl rfl
  | (n, f) :: rest => by
    rw [tsafeFields_cons, c10_defectsFields_cons]
    rcases c10_exh_top f with hf | hf
    · rcases c10_exh_fields rest with hr | hr
      · left; simp [hf, hr]
      · right; exact c10_ne_nil_append_right hr
    · right; exact c10_ne_nil_append_left hf

theorem c10_exh_top : ∀ f : FieldDecl, tsafeTop f = true ∨ topDefects f ≠ []
  | .anyOf fs => c10_exh_any fs
  | .integer o => c10_exh_D (.integer o) (fun _ h => nomatch h)
  | .number o => c10_exh_D (.number o) (fun _ h => nomatch h)
  | .float o => c10_exh_D (.float o) (fun _ h => nomatch h)
  | .string a b c => c10_exh_D (.string a b c) (fun _ h => nomatch h)
  | .boolean => c10_exh_D .boolean (fun _ h => nomatch h)
  | .noneF => c10_exh_D .noneF (fun _ h => nomatch h)
  | .enumLit v => c10_exh_D (.enumLit v) (fun _ h => nomatch h)
  | .enumCls a b => c10_exh_D (.enumCls a b) (fun _ h => nomatch h)
  | .seqOf k i s => c10_exh_D (.seqOf k i s) (fun _ h => nomatch h)
  | .setOf a i s => c10_exh_D (.setOf a i s) (fun _ h => nomatch h)
  | .struct c fs ds => c10_exh_D (.struct c fs ds) (fun _ h => nomatch h)
  | .seqAny a b => c10_exh_D (.seqAny a b) (fun _ h => nomatch h)
  | .seqPos a b c d => c10_exh_D (.seqPos a b c d) (fun _ h => nomatch h)
  | .setAny a b => c10_exh_D (.setAny a b) (fun _ h => nomatch h)
  | .tupleOf a b => c10_exh_D (.tupleOf a b) (fun _ h => nomatch h)
  | .tuplePos a b => c10_exh_D (.tuplePos a b) (fun _ h => nomatch h)
  | .mapAny a => c10_exh_D (.mapAny a) (fun _ h => nomatch h)
  | .mapOf a b c => c10_exh_D (.mapOf a b c) (fun _ h => nomatch h)
  | .oneOf a => c10_exh_D (.oneOf a) (fun _ h => nomatch h)
  | .allOf a => c10_exh_D (.allOf a) (fun _ h => nomatch h)
  | .notF a => c10_exh_D (.notF a) (fun _ h => nomatch h)
  | .anything => c10_exh_D .anything (fun _ h => nomatch h)

/-- an `AnyOf` field: optional through its non-None option, else all options raw scalars -/
theorem c10_exh_any : ∀ fs : List FieldDecl, tsafeTop (.anyOf fs) = true ∨ topDefects (.anyOf fs) ≠ []
  | [] => by
    simp [tsafeTop, isOptAnyOf]
  | [x] => by
    simp only [tsafeTop, topDefects, optDefect]
    have ho : isOptAnyOf [x] = false := by simp [isOptAnyOf]
    simp only [ho, Bool.false_eq_true, if_false, List.append_nil]
    by_cases h1 : [x].all rawOrNone = true
    · left; exact h1
    · right
      have h1' : ([x].all fun g => isRawScalar g || isNoneF g) = false := by simpa [rawOrNone] using h1
      simp only [h1', Bool.false_eq_true, if_false]
      split <;> simp
  | [x, y] => by
    simp only [tsafeTop, topDefects, optDefect]
    by_cases ho : isOptAnyOf [x, y] = true
    · simp only [ho, if_true]
      by_cases hy : isNoneF y = true
      · have hyN := isNoneF_eq y hy
        subst hyN
        simp only [tsafeOpt, isNoneF_noneF', Bool.true_and, defectsHead, if_true, optPick]
        by_cases hxa : ∃ gs, x = .anyOf gs
        · rcases hxa with ⟨gs, rfl⟩
          right
          simp [tsafeD, defectsD]
        · have hna : ∀ gs, x ≠ .anyOf gs := fun gs h => hxa ⟨gs, h⟩
          rcases c10_exh_D x hna with hx | hx
          · by_cases hs : isSetDecl x = true
            · right
              cases x <;> simp [isSetDecl] at hs <;> subst hs <;> first | (simp [tsafeD] at hx; done) | simp
            · left; simp [hx, hs]
          · right; exact c10_ne_nil_append_right hx
      · have hy' : isNoneF y = false := by simpa using hy
        have hx : isNoneF x = true := by
          simp only [isOptAnyOf, List.any_cons, List.any_nil, hy', Bool.or_false, Bool.and_eq_true] at ho
          exact ho.2
        have hxN := isNoneF_eq x hx
        subst hxN
        simp only [tsafeOpt, tsafeOptTail, hy', isNoneF_noneF', Bool.false_and, Bool.false_or, Bool.true_and,
          Bool.not_false, defectsHead, Bool.false_eq_true, if_false, optPick]
        by_cases hya : ∃ gs, y = .anyOf gs
        · rcases hya with ⟨gs, rfl⟩
          right
          simp [tsafeD, defectsD]
        · have hna : ∀ gs, y ≠ .anyOf gs := fun gs h => hya ⟨gs, h⟩
          rcases c10_exh_D y hna with hyy | hyy
          · by_cases hs : isSetDecl y = true
            · right
              cases y <;> simp [isSetDecl] at hs <;> subst hs <;> first | (simp [tsafeD] at hyy; done) | simp
            · left; simp [hyy, hs]
          · right; exact c10_ne_nil_append_right hyy
    · have ho' : isOptAnyOf [x, y] = false := by simpa using ho
      simp only [ho', Bool.false_eq_true, if_false, List.append_nil]
      by_cases h1 : [x, y].all rawOrNone = true
      · left; exact h1
      · right
        have h1' : ([x, y].all fun g => isRawScalar g || isNoneF g) = false := by simpa [rawOrNone] using h1
        simp only [h1', Bool.false_eq_true, if_false]
        split <;> simp
  | x :: y :: z :: rest => by
    simp only [tsafeTop, topDefects, optDefect]
    have ho : isOptAnyOf (x :: y :: z :: rest) = false := by simp [isOptAnyOf]
    simp only [ho, Bool.false_eq_true, if_false, List.append_nil]
    by_cases h1 : (x :: y :: z :: rest).all rawOrNone = true
    · left; exact h1
    · right
      have h1' : ((x :: y :: z :: rest).all fun g => isRawScalar g || isNoneF g) = false := by simpa [rawOrNone] using h1
      simp only [h1', Bool.false_eq_true, if_false]
      split <;> simp
end



theorem c10_eraseDups_ne_nil {α} [BEq α] : ∀ l : List α, l ≠ [] → l.eraseDups ≠ []
  | [], h => absurd rfl h
  | a :: as, _ => by
    rw [List.eraseDups_cons]
    exact List.cons_ne_nil _ _

/-- every class declaration is inside the proved region or has a named defect -/
theorem c10_region_exhaustive (c : ClassOpts) (fields : List (String × FieldDecl)) (ds : List (String × PyVal)) :
    tsafeCls (.struct c fields ds) = true ∨ declDefects (.struct c fields ds) ≠ [] := by
  rcases c10_exh_D (.struct c fields ds) (fun _ h => nomatch h) with h | h
  · exact Or.inl h
  · exact Or.inr (c10_eraseDups_ne_nil _ h)

end Typedpy
