/-
  Lemmas/SchemaToCode.lean — schema → declaration → schema is the identity (up to the order of
  `required`) on the code fragment, by mutual structural induction over the `Schema` AST.
-/
import TypedpyModel.Sem.SchemaToCode
namespace Typedpy

/-- every `$ref` name resolves to the (non-inline) class generated under that name -/
def RefsAreClasses (ρ : String → FieldDecl) : Prop :=
  ∀ n, ∃ c fs ds, ρ n = .struct c fs ds ∧ c.inline = false ∧ c.name = n

theorem append_nil_of_isEmpty {α} {a b : List α} (h : a ++ b = []) : a = [] ∧ b = [] := by
  cases a with
  | nil => exact ⟨rfl, by simpa using h⟩
  | cons x xs => simp at h

theorem ite_nil {α} {c : Prop} [Decidable c] {x : List α} (hx : x ≠ [])
    (h : (if c then [] else x) = []) : c := by
  by_cases hc : c
  · exact hc
  · simp [hc] at h; exact absurd h hx

theorem ite_nil' {α} {c : Prop} [Decidable c] {x : List α} (hx : x ≠ [])
    (h : (if c then x else []) = []) : ¬ c := by
  by_cases hc : c
  · simp [hc] at h; exact absurd h hx
  · exact hc

theorem num_roundtrip (i : Bool) (mult : Option Int) (mn mx : Option Q) (ex : Bool) :
    toSchemaF (numDecl i mult mn mx ex) = .num i mult mn mx ex := by
  cases i <;> cases mn <;> cases mx <;> simp [numDecl, toSchemaF, numSchema, signMin, signMax]

theorem names_schemaToDeclP (ρ : String → FieldDecl) :
    ∀ ps : List (String × Schema), (schemaToDeclP ρ ps).map (·.1) = ps.map (·.1)
  | [] => by simp [schemaToDeclP]
  | (n, s) :: ps => by simp [schemaToDeclP, names_schemaToDeclP ρ ps]

theorem names_toSchemaP : ∀ ps : List (String × FieldDecl), (toSchemaP ps).map (·.1) = ps.map (·.1)
  | [] => by simp [toSchemaP]
  | (n, s) :: ps => by simp [toSchemaP, names_toSchemaP ps]

theorem names_normReqP : ∀ ps : List (String × Schema), (normReqP ps).map (·.1) = ps.map (·.1)
  | [] => by simp [normReqP]
  | (n, s) :: ps => by simp [normReqP, names_normReqP ps]

/-- the `required` list that comes back has the same members as the original one, provided every
    property with a default was listed as required -/
theorem canonReq_roundtrip (names dn req : List String) (h : dn.all req.contains = true) :
    canonReq names (schemaRequired (declRequired names dn (some req)) dn) = canonReq names req := by
  unfold canonReq
  apply List.filter_congr
  intro n _
  simp only [schemaRequired, declRequired, Option.getD_some]
  rw [Bool.eq_iff_iff]
  simp only [List.contains_iff_mem, List.mem_append, List.mem_filter, Bool.not_eq_true',
    Bool.eq_false_iff, ne_eq]
  rw [List.all_eq_true] at h
  constructor
  · rintro (⟨h1, _⟩ | ⟨h1, _⟩)
    · exact h1
    · exact List.contains_iff_mem.1 (h n h1)
  · intro hn
    by_cases hd : n ∈ dn
    · right
      refine ⟨hd, ?_⟩
      rintro ⟨_, h2⟩
      exact h2 hd
    · left
      exact ⟨hn, fun hc => hd hc⟩

theorem schemaToDecl_ne_noneF (ρ : String → FieldDecl) (hρ : RefsAreClasses ρ) (s : Schema) :
    schemaToDecl ρ s ≠ .noneF := by
  cases s with
  | num i m a b e => cases i <;> simp [schemaToDecl, numDecl]
  | ref n =>
    obtain ⟨c, fs, ds, h, _, _⟩ := hρ n
    simp [schemaToDecl, h]
  | _ => simp [schemaToDecl]

theorem anyOfShape_image (ρ : String → FieldDecl) (hρ : RefsAreClasses ρ) (ss : List Schema)
    (ts : List Schema) : anyOfShape (schemaToDeclL ρ ss) ts = .anyOf ts := by
  match ss with
  | [] => simp [schemaToDeclL, anyOfShape]
  | [a] => simp [schemaToDeclL, anyOfShape]
  | [a, b] =>
    have hb := schemaToDecl_ne_noneF ρ hρ b
    simp only [schemaToDeclL]
    cases hdb : schemaToDecl ρ b <;> first | exact absurd hdb hb | simp [anyOfShape]
  | a :: b :: c :: r => simp [schemaToDeclL, anyOfShape]

/-- the object case, given the result for the properties (nested: never the field-wrapper form) -/
theorem obj_roundtrip (ρ : String → FieldDecl) (props : List (String × Schema))
    (defaults : List (String × PyVal)) (required : Option (List String)) (addl : Bool)
    (hi : objIssues (props.map (·.1)) (defaults.map (·.1)) required addl = [])
    (ih : normReqP (toSchemaP (schemaToDeclP ρ props)) = normReqP props) :
    normReq (toSchemaF (schemaToDecl ρ (.obj props defaults required addl)))
      = normReq (.obj props defaults required addl) := by
  cases required with
  | none => simp [objIssues] at hi
  | some req =>
    simp only [objIssues] at hi
    obtain ⟨_, h2⟩ := append_nil_of_isEmpty hi
    have hdn := ite_nil (by simp) h2
    simp only [schemaToDecl, toSchemaF, inlineOpts, structShape, names_toSchemaP,
      names_schemaToDeclP, if_true, Bool.false_and, Bool.false_eq_true, if_false, normReq, ih]
    rw [canonReq_roundtrip _ _ _ hdn]

mutual
theorem inverse_core (ρ : String → FieldDecl) (hρ : RefsAreClasses ρ) :
    ∀ s : Schema, issues s = [] → normReq (toSchemaF (schemaToDecl ρ s)) = normReq s
  | .num i m a b e, _ => by simp only [schemaToDecl, num_roundtrip]
  | .str lo hi p, _ => by simp [schemaToDecl, toSchemaF]
  | .bool, _ => by simp [schemaToDecl, toSchemaF]
  | .enum vs, h => by
    have hv : vs.all enumValOk = true := by
      simp only [issues] at h
      exact ite_nil (by simp) h
    simp [schemaToDecl, toSchemaF, hv]
  | .arrAny sz, _ => by simp [schemaToDecl, toSchemaF]
  | .arrOf s sz, h => by
    simp only [issues] at h
    simp [schemaToDecl, toSchemaF, normReq, inverse_core ρ hρ s h]
  | .arrPos ss addl sz, h => by
    simp only [issues] at h
    simp [schemaToDecl, toSchemaF, normReq, inverse_coreL ρ hρ ss h]
  | .mapAny addlKw mn mx, h => by
    simp only [issues] at h
    have h1' := ite_nil' (by simp) h
    cases addlKw with
    | some b => simp at h1'
    | none => simp [schemaToDecl, toSchemaF, mapSize, normReq]
  | .mapOf v mn mx, h => by
    simp only [issues] at h
    simp [schemaToDecl, toSchemaF, plainStringKey, mapSize, normReq, inverse_core ρ hρ v h]
  | .obj props defaults required addl, h => by
    simp only [issues] at h
    obtain ⟨h1, h2⟩ := append_nil_of_isEmpty h
    exact obj_roundtrip ρ props defaults required addl h1 (inverse_coreP ρ hρ props h2)
  | .ref n, _ => by
    obtain ⟨c, fs, ds, h, hin, hn⟩ := hρ n
    simp [schemaToDecl, h, toSchemaF, hin, hn]
  | .allOf ss, h => by
    simp only [issues] at h
    simp [schemaToDecl, toSchemaF, normReq, inverse_coreL ρ hρ ss h]
  | .anyOf ss, h => by
    simp only [issues] at h
    simp [schemaToDecl, toSchemaF, anyOfShape_image ρ hρ, normReq, inverse_coreL ρ hρ ss h]
  | .oneOf ss, h => by
    simp only [issues] at h
    simp [schemaToDecl, toSchemaF, normReq, inverse_coreL ρ hρ ss h]
  | .notS ss, h => by
    simp only [issues] at h
    simp [schemaToDecl, toSchemaF, normReq, inverse_coreL ρ hρ ss h]
  | .unsupported w, h => by simp [issues] at h
theorem inverse_coreL (ρ : String → FieldDecl) (hρ : RefsAreClasses ρ) :
    ∀ ss : List Schema, issuesL ss = [] →
      normReqL (toSchemaL (schemaToDeclL ρ ss)) = normReqL ss
  | [], _ => by simp [schemaToDeclL, toSchemaL]
  | s :: ss, h => by
    simp only [issuesL] at h
    obtain ⟨h1, h2⟩ := append_nil_of_isEmpty h
    simp [schemaToDeclL, toSchemaL, normReqL, inverse_core ρ hρ s h1, inverse_coreL ρ hρ ss h2]
theorem inverse_coreP (ρ : String → FieldDecl) (hρ : RefsAreClasses ρ) :
    ∀ ps : List (String × Schema), issuesP ps = [] →
      normReqP (toSchemaP (schemaToDeclP ρ ps)) = normReqP ps
  | [], _ => by simp [schemaToDeclP, toSchemaP]
  | (n, s) :: ps, h => by
    simp only [issuesP] at h
    obtain ⟨h1, h2⟩ := append_nil_of_isEmpty h
    simp [schemaToDeclP, toSchemaP, normReqP, inverse_core ρ hρ s h1, inverse_coreP ρ hρ ps h2]
end

/-- a definition: `definitions[name]` as `_map_class_reference` stores it -/
theorem def_roundtrip (ρ : String → FieldDecl) (hρ : RefsAreClasses ρ) (name : String)
    (props : List (String × Schema)) (defaults : List (String × PyVal))
    (required : Option (List String)) (addl : Bool)
    (h : issues (.obj props defaults required addl) = []) :
    normReq (toSchemaDef (schemaToClass ρ name (.obj props defaults required addl)))
      = normReq (.obj props defaults required addl) := by
  simp only [issues] at h
  obtain ⟨hi, hp⟩ := append_nil_of_isEmpty h
  have ih := inverse_coreP ρ hρ props hp
  cases required with
  | none => simp [objIssues] at hi
  | some req =>
    simp only [objIssues] at hi
    obtain ⟨_, h2⟩ := append_nil_of_isEmpty hi
    have hdn := ite_nil (by simp) h2
    simp only [schemaToClass, toSchemaDef, structShape, names_toSchemaP, names_schemaToDeclP,
      Bool.false_and, Bool.false_eq_true, if_false, normReq, ih]
    rw [canonReq_roundtrip _ _ _ hdn]

/-- the generated top-level *class*: `structure_to_schema (exec (schema_to_struct_code s))`, where
    the field-wrapper form applies -/
theorem class_roundtrip (ρ : String → FieldDecl) (hρ : RefsAreClasses ρ) (name : String)
    (props : List (String × Schema)) (defaults : List (String × PyVal))
    (required : Option (List String)) (addl : Bool)
    (h : topIssues (.obj props defaults required addl) = []) :
    normReq (toSchemaClass (schemaToClass ρ name (.obj props defaults required addl)))
      = normReq (.obj props defaults required addl) := by
  simp only [topIssues] at h
  obtain ⟨h3, h⟩ := append_nil_of_isEmpty h
  have hcol := ite_nil' (by simp) h3
  simp only [issues] at h
  obtain ⟨hi, hp⟩ := append_nil_of_isEmpty h
  have ih := inverse_coreP ρ hρ props hp
  cases required with
  | none => simp [objIssues] at hi
  | some req =>
    simp only [objIssues] at hi
    obtain ⟨_, h2⟩ := append_nil_of_isEmpty hi
    have hdn := ite_nil (by simp) h2
    have hcol' : collapses (declRequired (props.map (·.1)) (defaults.map (·.1)) (some req))
        (props.map (·.1)) addl = false := by
      simpa using hcol
    simp only [schemaToClass, toSchemaClass, structShape, names_toSchemaP, names_schemaToDeclP]
    simp only [hcol', Bool.true_and, Bool.false_eq_true, if_false, normReq, ih, names_toSchemaP,
      names_schemaToDeclP]
    rw [canonReq_roundtrip _ _ _ hdn]

end Typedpy
