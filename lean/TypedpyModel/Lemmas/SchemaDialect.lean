/-
  Lemmas/SchemaDialect.lean — `dialectFix (emit false f) = emit true f` for EVERY declaration (no
  fragment hypothesis), and the same for the class schema and the definitions table: the schema the
  theorems of C08 speak about (`classSchema true`, `classDefs true`) is exactly what
  `structure_to_schema` returns (`toSchema`) after the documented two-rule dialect rewrite.
-/
import TypedpyModel.Lemmas.SchemaAdmits
namespace Typedpy.Sch
open Typedpy

theorem c08_fixKws_append (a b : List (PyVal × PyVal)) : fixKws (a ++ b) = fixKws a ++ fixKws b := by
  induction a with
  | nil => simp [fixKws]
  | cons x xs ih =>
    obtain ⟨k, v⟩ := x
    simp only [List.cons_append, fixKws, ih]

theorem c08_fix_numKws (ty : String) (isInt : Bool) (o : NumOpts) :
    fixKws (numKws false ty isInt o) = numKws true ty isInt o := by
  simp only [numKws, c08_fixKws_append]
  cases o.mult <;> cases effMin isInt o <;> cases effMax isInt o <;> cases exclEff o <;>
    simp [optKw, fixKws, kw, keyIs, multKey]

theorem c08_fix_strKws (lo hi : Option Nat) (pat : Option String) :
    fixKws (strKws lo hi pat) = strKws lo hi pat := by
  simp only [strKws, c08_fixKws_append]
  cases lo <;> cases hi <;> cases pat <;> simp [optKw, fixKws, kw, keyIs]

/-- a single schema under `items` / `additionalProperties`: an object or nothing -/
theorem c08_fixItemsV_shape (s : PyVal) (h : dictOrNone s = true) : fixItemsV s = dialectFix s := by
  cases s <;> simp [dictOrNone] at h <;> simp [fixItemsV, dialectFix]

theorem c08_fix_sizeKws (sz : SizeOpts) :
    fixKws (optKw "maxItems" (sz.max.map natJ)) = optKw "maxItems" (sz.max.map natJ)
    ∧ fixKws (optKw "minItems" (sz.min.map natJ)) = optKw "minItems" (sz.min.map natJ) := by
  constructor
  · cases sz.max <;> simp [optKw, fixKws, kw, keyIs]
  · cases sz.min <;> simp [optKw, fixKws, kw, keyIs]

theorem c08_fix_sizeKws_obj (sz : SizeOpts) :
    fixKws (optKw "maxProperties" (sz.max.map natJ)) = optKw "maxProperties" (sz.max.map natJ)
    ∧ fixKws (optKw "minProperties" (sz.min.map natJ)) = optKw "minProperties" (sz.min.map natJ) := by
  constructor
  · cases sz.max <;> simp [optKw, fixKws, kw, keyIs]
  · cases sz.min <;> simp [optKw, fixKws, kw, keyIs]

theorem c08_fix_uniqKw (u : Bool) :
    fixKws (optKw "uniqueItems" (if u then some (.bool true) else none))
      = optKw "uniqueItems" (if u then some (.bool true) else none) := by
  cases u <;> simp [optKw, fixKws, kw, keyIs]

/-- `additionalItems` is absent or `false` in what the mappers emit -/
theorem c08_fix_addlKw (addl : Bool) :
    fixKws (optKw "additionalItems" (if addl then none else some (.bool false)))
      = optKw "additionalItems" (if addl then none else some (.bool false)) := by
  cases addl <;> simp [optKw, fixKws, kw, keyIs, dialectFix]

theorem c08_fix_arrKws (sz : SizeOpts) (addl : Bool) (items : Option PyVal) :
    fixKws (arrKws sz (if addl then none else some (.bool false)) items)
      = arrKws sz (if addl then none else some (.bool false)) (items.map fixItemsV) := by
  simp only [arrKws, c08_fixKws_append, c08_fix_uniqKw, c08_fix_addlKw, (c08_fix_sizeKws sz).1,
    (c08_fix_sizeKws sz).2]
  cases items <;> simp [optKw, fixKws, kw, keyIs]

theorem c08_fix_arrKws_none (sz : SizeOpts) (items : Option PyVal) :
    fixKws (arrKws sz none items) = arrKws sz none (items.map fixItemsV) :=
  c08_fix_arrKws sz true items

theorem c08_fix_setKws (sz : SizeOpts) (items : Option PyVal) :
    fixKws (setKws sz items) = setKws sz (items.map fixItemsV) := by
  simp only [setKws, c08_fixKws_append, (c08_fix_sizeKws sz).1, (c08_fix_sizeKws sz).2]
  cases items <;> simp [optKw, fixKws, kw, keyIs]

theorem c08_fix_tupKws (u : Bool) (ss : List PyVal) :
    fixKws (tupKws u ss) = tupKws u (fixList ss) := by
  simp only [tupKws, c08_fixKws_append, c08_fix_uniqKw]
  simp [fixKws, kw, keyIs, dialectFix, fixItemsV]

theorem c08_fix_mapKws (key : Option FieldDecl) (vs : Option PyVal) (sz : SizeOpts) :
    fixKws (mapKws key vs sz) = mapKws key (vs.map dialectFix) sz := by
  simp only [mapKws, c08_fixKws_append, (c08_fix_sizeKws_obj sz).1, (c08_fix_sizeKws_obj sz).2]
  cases key with
  | none => simp [fixKws, kw, keyIs]
  | some k =>
    cases vs with
    | none => simp [fixKws, kw, keyIs]
    | some s =>
      cases hk : (mapKeyPattern k != "") <;>
        simp [hk, fixKws, kw, keyIs, fixPropsV, fixProps]


/-! ### defaults, properties, class objects -/

theorem c08_keyIs_default_fix (k v : PyVal) (hk : keyIs "default" k = false) :
    ∃ k' v', fixKws [(k, v)] = [(k', v')] ∧ keyIs "default" k' = false := by
  simp only [fixKws]
  split
  · exact ⟨_, _, rfl, by simp [keyIs]⟩
  · split
    · exact ⟨_, _, rfl, hk⟩
    · split
      · exact ⟨_, _, rfl, hk⟩
      · split
        · exact ⟨_, _, rfl, hk⟩
        · split
          · exact ⟨_, _, rfl, hk⟩
          · split
            · exact ⟨_, _, rfl, hk⟩
            · exact ⟨_, _, rfl, hk⟩

theorem c08_fixKws_cons (x : PyVal × PyVal) (rest : List (PyVal × PyVal)) :
    fixKws (x :: rest) = fixKws [x] ++ fixKws rest := by
  rw [← c08_fixKws_append]; rfl

theorem c08_fixKws_default_entry (k v : PyVal) (hk : keyIs "default" k = true) :
    fixKws [(k, v)] = [(k, v)] := by
  cases k <;> simp [keyIs] at hk
  subst hk
  simp [fixKws, keyIs]

/-- the `default` entry is not at a schema position: the rewrite commutes with writing it -/
theorem c08_fixKws_setKw_default (v : PyVal) : ∀ kvs : List (PyVal × PyVal),
    fixKws (setKw "default" v kvs) = setKw "default" v (fixKws kvs)
  | [] => by simp [setKw, fixKws, kw, keyIs]
  | (k, w) :: rest => by
    cases hk : keyIs "default" k with
    | true =>
      simp only [setKw, hk, if_true]
      rw [c08_fixKws_cons, c08_fixKws_cons (k, w), c08_fixKws_default_entry k v hk,
        c08_fixKws_default_entry k w hk]
      simp [setKw, hk]
    | false =>
      simp only [setKw, hk, Bool.false_eq_true, if_false]
      obtain ⟨k', w', h1, h2⟩ := c08_keyIs_default_fix k w hk
      have hL : ∀ r, fixKws ((k, w) :: r) = (k', w') :: fixKws r := by
        intro r; rw [c08_fixKws_cons, h1]; rfl
      rw [hL, hL, c08_fixKws_setKw_default v rest]
      simp [setKw, h2]

theorem c08_fix_addDefault (s : PyVal) (d : Option PyVal) :
    dialectFix (addDefault s d) = addDefault (dialectFix s) d := by
  cases d with
  | none => rfl
  | some v =>
    cases s <;> simp [addDefault, dialectFix, c08_fixKws_setKw_default]

/-- the rewrite applied to every field schema of a class -/
def fixFields : List (String × PyVal) → List (String × PyVal)
  | [] => []
  | (n, s) :: rest => (n, dialectFix s) :: fixFields rest

theorem c08_fix_propsOf (defaults : List (String × PyVal)) : ∀ fields : List (String × PyVal),
    fixProps (propsOf defaults fields) = propsOf defaults (fixFields fields)
  | [] => rfl
  | (n, s) :: rest => by
    simp only [propsOf, fixProps, kw, fixFields, c08_fix_addDefault, c08_fix_propsOf defaults rest]

theorem c08_fix_classObj (c : ClassOpts) (defaults : List (String × PyVal)) (fields : List (String × PyVal)) :
    dialectFix (classObj c defaults fields) = classObj c defaults (fixFields fields) := by
  simp [classObj, dialectFix, fixKws, kw, keyIs, fixPropsV, c08_fix_propsOf]

theorem c08_fixFields_names : ∀ fields : List (String × PyVal),
    (fixFields fields).map (·.1) = fields.map (·.1)
  | [] => rfl
  | (n, s) :: rest => by simp [fixFields, c08_fixFields_names rest]

/-! ### `AnyOf` -/

theorem c08_fix_anyOfShape (fs : List FieldDecl) (ss : List PyVal) :
    dialectFix (anyOfShape fs ss) = anyOfShape fs (fixList ss) := by
  unfold anyOfShape
  split
  · simp [fixList]
  · rename_i hneg
    split
    · rename_i f s' t' heq
      exfalso
      match ss, heq with
      | [a, b], _ => exact hneg _ _ _ rfl rfl
      | [], h => simp [fixList] at h
      | [_], h => simp [fixList] at h
      | _ :: _ :: _ :: _, h => simp [fixList] at h
    · simp [dialectFix, fixKws, kw, keyIs, fixListV]


theorem c08_fix_elemWrap (f : FieldDecl) (s : PyVal) :
    dialectFix (elemWrap f s) = elemWrap f (dialectFix s) := by
  unfold elemWrap
  split
  · cases s <;> simp [dialectFix, fixKws, kw, keyIs, fixListV, fixList, nullSchema]
  · rfl

theorem c08_fixItemsV_wrap (f : FieldDecl) (s : PyVal) (h : dictOrNone s = true) :
    fixItemsV (elemWrap f s) = elemWrap f (dialectFix s) := by
  rw [c08_fixItemsV_shape _ (elemWrap_shape f s h), c08_fix_elemWrap]

/-! ### the main induction: `dialectFix (emit false f) = emit true f` for every declaration -/

mutual
theorem c08_fix_emit : ∀ f : FieldDecl, dialectFix (emit false f) = emit true f
  | .number o => by simp only [emit, dialectFix, c08_fix_numKws]
  | .integer o => by simp only [emit, dialectFix, c08_fix_numKws]
  | .float o => by simp only [emit, dialectFix, c08_fix_numKws]
  | .string lo hi p => by simp only [emit, dialectFix, c08_fix_strKws]
  | .boolean => by simp [emit, dialectFix, fixKws, kw, keyIs]
  | .enumLit vs => by simp [emit, dialectFix, fixKws, kw, keyIs]
  | .enumCls _ names => by simp [emit, dialectFix, fixKws, kw, keyIs]
  | .seqAny _ sz => by simp only [emit, dialectFix, c08_fix_arrKws_none, Option.map]
  | .seqOf _ f sz => by
    simp only [emit, dialectFix, c08_fix_arrKws_none, Option.map,
      c08_fixItemsV_wrap f _ (emit_shape false f), c08_fix_emit f]
  | .seqPos _ fs addl sz => by
    simp only [emit, dialectFix, c08_fix_arrKws, Option.map, fixItemsV, c08_fix_emitLW fs]
  | .setAny _ sz => by simp only [emit, dialectFix, c08_fix_setKws, Option.map]
  | .setOf _ f sz => by
    simp only [emit, dialectFix, c08_fix_setKws, Option.map,
      c08_fixItemsV_wrap f _ (emit_shape false f), c08_fix_emit f]
  | .tupleOf f u => by
    simp only [emit, dialectFix, c08_fix_arrKws_none, Option.map,
      c08_fixItemsV_wrap f _ (emit_shape false f), c08_fix_emit f]
  | .tuplePos fs u => by simp only [emit, dialectFix, c08_fix_tupKws, c08_fix_emitLW fs]
  | .mapAny sz => by simp only [emit, dialectFix, c08_fix_mapKws, Option.map]
  | .mapOf k v sz => by simp only [emit, dialectFix, c08_fix_mapKws, Option.map, c08_fix_elemWrap, c08_fix_emit v]
  | .struct c fields defaults => by
    simp only [emit]
    split
    · rw [retype_classObj, retype_classObj, c08_fix_classObj, c08_fix_emitP fields]
    · simp [refTo, dialectFix, fixKws, kw, keyIs]
  | .anyOf fs => by simp only [emit, c08_fix_anyOfShape, c08_fix_emitL fs]
  | .oneOf fs => by simp [emit, dialectFix, fixKws, kw, keyIs, fixListV, c08_fix_emitL fs]
  | .allOf fs => by simp [emit, dialectFix, fixKws, kw, keyIs, fixListV, c08_fix_emitL fs]
  | .notF fs => by simp [emit, dialectFix, fixKws, kw, keyIs, notVal, fixNotV, c08_fix_emitL fs]
  | .noneF => rfl
  | .anything => rfl
theorem c08_fix_emitL : ∀ fs : List FieldDecl, fixList (emitL false fs) = emitL true fs
  | [] => rfl
  | f :: fs => by simp only [emitL, fixList, c08_fix_emit f, c08_fix_emitL fs]
theorem c08_fix_emitLW : ∀ fs : List FieldDecl, fixList (emitLW false fs) = emitLW true fs
  | [] => rfl
  | f :: fs => by simp only [emitLW, fixList, c08_fix_elemWrap, c08_fix_emit f, c08_fix_emitLW fs]
theorem c08_fix_emitP : ∀ ps : List (String × FieldDecl), fixFields (emitP false ps) = emitP true ps
  | [] => rfl
  | (n, f) :: ps => by simp only [emitP, fixFields, c08_fix_emit f, c08_fix_emitP ps]
end

/-- **the dialect rewrite of what `structure_to_schema` returns is the emission with the two draft-4
    spellings**, for every class declaration (collapsed or not, with or without defaults) -/
theorem c08_fix_classSchema (cls : FieldDecl) : dialectFix (classSchema false cls) = classSchema true cls := by
  cases cls with
  | struct c fields defaults =>
    simp only [classSchema, structShape, emitP_names]
    split
    · cases fields with
      | nil => rfl
      | cons p ps =>
        obtain ⟨n, f⟩ := p
        simp only [emitP, c08_fix_emit f]
    · rw [c08_fix_classObj, c08_fix_emitP]
  | _ => rfl

/-! ### the definitions table -/

theorem c08_fixDefs_assocSet (n : String) (s : PyVal) : ∀ D : Defs,
    fixDefs (assocSet n s D) = assocSet n (dialectFix s) (fixDefs D)
  | [] => rfl
  | (k, w) :: rest => by
    simp only [assocSet]
    split
    · simp [fixDefs, assocSet, *]
    · simp [fixDefs, assocSet, *, c08_fixDefs_assocSet n s rest]

mutual
theorem c08_fix_defsAcc : ∀ (f : FieldDecl) (D : Defs),
    fixDefs (defsAcc false f D) = defsAcc true f (fixDefs D)
  | .seqOf _ f _, D => by simp only [defsAcc, c08_fix_defsAcc f D]
  | .seqPos _ fs _ _, D => by simp only [defsAcc, c08_fix_defsAccL fs D]
  | .setOf _ f _, D => by simp only [defsAcc, c08_fix_defsAcc f D]
  | .tupleOf f _, D => by simp only [defsAcc, c08_fix_defsAcc f D]
  | .tuplePos fs _, D => by simp only [defsAcc, c08_fix_defsAccL fs D]
  | .mapOf _ v _, D => by simp only [defsAcc, c08_fix_defsAcc v D]
  | .struct c fields defaults, D => by
    simp only [defsAcc]
    split
    · exact c08_fix_defsAccP fields D
    · rw [c08_fixDefs_assocSet, c08_fix_classObj, c08_fix_emitP, c08_fix_defsAccP fields D]
  | .anyOf fs, D => by simp only [defsAcc, c08_fix_defsAccL fs D]
  | .oneOf fs, D => by simp only [defsAcc, c08_fix_defsAccL fs D]
  | .allOf fs, D => by simp only [defsAcc, c08_fix_defsAccL fs D]
  | .notF fs, D => by simp only [defsAcc, c08_fix_defsAccL fs D]
  | .number _, D => by simp only [defsAcc]
  | .integer _, D => by simp only [defsAcc]
  | .float _, D => by simp only [defsAcc]
  | .string _ _ _, D => by simp only [defsAcc]
  | .boolean, D => by simp only [defsAcc]
  | .enumLit _, D => by simp only [defsAcc]
  | .enumCls _ _, D => by simp only [defsAcc]
  | .seqAny _ _, D => by simp only [defsAcc]
  | .setAny _ _, D => by simp only [defsAcc]
  | .mapAny _, D => by simp only [defsAcc]
  | .noneF, D => by simp only [defsAcc]
  | .anything, D => by simp only [defsAcc]
theorem c08_fix_defsAccL : ∀ (fs : List FieldDecl) (D : Defs),
    fixDefs (defsAccL false fs D) = defsAccL true fs (fixDefs D)
  | [], D => by simp only [defsAccL]
  | f :: fs, D => by simp only [defsAccL, c08_fix_defsAccL fs, c08_fix_defsAcc f D]
theorem c08_fix_defsAccP : ∀ (ps : List (String × FieldDecl)) (D : Defs),
    fixDefs (defsAccP false ps D) = defsAccP true ps (fixDefs D)
  | [], D => by simp only [defsAccP]
  | (_, f) :: ps, D => by simp only [defsAccP, c08_fix_defsAccP ps, c08_fix_defsAcc f D]
end

/-- the dialect rewrite of the returned definitions is the definitions table of the emission with the
    draft-4 spellings -/
theorem c08_fix_classDefs (cls : FieldDecl) : fixDefs (classDefs false cls) = classDefs true cls := by
  cases cls with
  | struct c fields defaults => simp only [classDefs, c08_fix_defsAccP]; rfl
  | _ => rfl

theorem c08_fixedPtrDefs_eq (cls : FieldDecl) : fixedPtrDefs cls = ptrDefs (classDefs true cls) := by
  simp only [fixedPtrDefs, toSchema, c08_fix_classDefs]

end Typedpy.Sch
