/-
  Lemmas/Stub.lean — helper lemmas for the stub / runtime-signature model (Sem/Stub.lean), used by Props/C16.lean.
-/
import TypedpyModel.Sem.Stub
namespace Typedpy.Stub

theorem mem_dedupS (xs : List String) (s : String) : s ∈ dedupS xs ↔ s ∈ xs := by
  induction xs with
  | nil => simp [dedupS]
  | cons x xs ih =>
    simp only [dedupS]
    by_cases h : xs.contains x = true
    · simp only [h, if_true, ih, List.mem_cons]
      constructor
      · exact Or.inr
      · rintro (rfl | h')
        · exact List.contains_iff_mem.mp h
        · exact h'
    · have h' : ¬ x ∈ xs := fun e => h (List.contains_iff_mem.mpr e)
      simp [h', ih]

/-- last field named `n` (proof helper: what `overlay` ends up storing) -/
def lookupLast : List FieldInfo → String → Option FieldInfo
  | [], _ => none
  | f :: fs, n => (lookupLast fs n).or (if f.name = n then some f else none)

theorem map_name_upsert (acc : List FieldInfo) (f : FieldInfo) :
    (upsert acc f).map (·.name) =
      if f.name ∈ acc.map (·.name) then acc.map (·.name) else acc.map (·.name) ++ [f.name] := by
  induction acc with
  | nil => simp [upsert]
  | cons g rest ih =>
    simp only [upsert]
    by_cases h : g.name = f.name
    · simp [h]
    · have h' : ¬ f.name = g.name := fun e => h e.symm
      simp only [h, if_false, List.map_cons, ih, List.mem_cons, h', false_or]
      split <;> simp

theorem lookupF_upsert (acc : List FieldInfo) (f : FieldInfo) (n : String) :
    lookupF (upsert acc f) n = if f.name = n then some f else lookupF acc n := by
  induction acc with
  | nil => simp [upsert, lookupF, List.find?]
  | cons g rest ih =>
    simp only [upsert]
    by_cases h : g.name = f.name
    · simp only [h, if_true, lookupF, List.find?_cons]
      by_cases hn : f.name = n
      · simp [hn]
      · simp [hn]
    · simp only [h, if_false]
      unfold lookupF at ih ⊢
      simp only [List.find?_cons]
      by_cases hg : g.name = n
      · have : ¬ f.name = n := fun e => h (hg.trans e.symm)
        simp [hg, this]
      · simp [hg, ih]

theorem lookupF_overlay (fs acc : List FieldInfo) (n : String) :
    lookupF (overlay acc fs) n = (lookupLast fs n).or (lookupF acc n) := by
  induction fs generalizing acc with
  | nil => simp [overlay, lookupLast]
  | cons f fs ih =>
    have := ih (upsert acc f)
    simp only [overlay, List.foldl_cons] at this ⊢
    rw [this, lookupF_upsert, lookupLast]
    cases lookupLast fs n <;> by_cases h : f.name = n <;> simp [h]


theorem lookupLast_isSome (fs : List FieldInfo) (n : String) :
    (lookupLast fs n).isSome = true ↔ n ∈ fs.map (·.name) := by
  induction fs with
  | nil => simp [lookupLast]
  | cons f fs ih =>
    simp only [lookupLast, List.map_cons, List.mem_cons]
    cases hl : lookupLast fs n with
    | some g =>
      have : n ∈ fs.map (·.name) := ih.mp (by simp [hl])
      simp [this]
    | none =>
      have : ¬ n ∈ fs.map (·.name) := fun h => by simpa [hl] using ih.mpr h
      by_cases hf : f.name = n
      · simp [hf]
      · have : ¬ n = f.name := fun e => hf e.symm
        simp [*]

theorem lookupF_some {fs : List FieldInfo} {n : String} {f : FieldInfo} (h : lookupF fs n = some f) :
    f ∈ fs ∧ f.name = n := by
  unfold lookupF at h
  exact ⟨List.mem_of_find?_eq_some h, by simpa using List.find?_some h⟩

theorem lookupF_isSome (fs : List FieldInfo) (n : String) :
    (lookupF fs n).isSome = true ↔ n ∈ fs.map (·.name) := by
  unfold lookupF
  simp only [List.find?_isSome, List.mem_map, decide_eq_true_eq]

/-- distinct keys -/
def NodupN (fs : List FieldInfo) : Prop := (fs.map (·.name)).Nodup

theorem lookupF_of_mem {fs : List FieldInfo} (hn : NodupN fs) {f : FieldInfo} (h : f ∈ fs) :
    lookupF fs f.name = some f := by
  induction fs with
  | nil => cases h
  | cons g rest ih =>
    unfold NodupN at hn
    simp only [List.map_cons, List.nodup_cons] at hn
    unfold lookupF
    simp only [List.find?_cons]
    rcases List.mem_cons.mp h with rfl | h'
    · simp
    · have : ¬ g.name = f.name := fun e => hn.1 (e ▸ List.mem_map_of_mem (f := (·.name)) h')
      simp only [this, decide_false]
      exact ih hn.2 h'

theorem nodupN_upsert {acc : List FieldInfo} (h : NodupN acc) (f : FieldInfo) : NodupN (upsert acc f) := by
  unfold NodupN at *
  rw [map_name_upsert]
  split
  · exact h
  · rename_i hne
    exact List.nodup_append.mpr ⟨h, by simp, by
      intro a ha b hb
      simp only [List.mem_singleton] at hb
      subst hb
      exact fun e => hne (e ▸ ha)⟩

theorem nodupN_overlay (fs : List FieldInfo) {acc : List FieldInfo} (h : NodupN acc) : NodupN (overlay acc fs) := by
  induction fs generalizing acc with
  | nil => exact h
  | cons f fs ih => exact ih (nodupN_upsert h f)

theorem nodupN_fieldsByName (ds : List Decl) : NodupN (fieldsByName ds) := by
  induction ds with
  | nil => simp [fieldsByName, NodupN]
  | cons d rest ih => exact nodupN_overlay _ ih

theorem lookupF_fieldsByName_cons (d : Decl) (rest : List Decl) (n : String) :
    lookupF (fieldsByName (d :: rest)) n = (lookupLast d.fields n).or (lookupF (fieldsByName rest) n) := by
  simp only [fieldsByName, lookupF_overlay]

theorem lookupF_fieldsByName_append (xs ys : List Decl) (n : String) :
    lookupF (fieldsByName (xs ++ ys)) n = (lookupF (fieldsByName xs) n).or (lookupF (fieldsByName ys) n) := by
  induction xs with
  | nil => simp [fieldsByName, lookupF]
  | cons x xs ih =>
    simp only [List.cons_append, lookupF_fieldsByName_cons, ih, Option.or_assoc]


/-- invariant of the `get_base_info` loop: exactly the inherited parameters without default are in
    `bases_required`, and `bases_required` only names inherited parameters -/
def BaseInv (acc : List Param × List String) : Prop :=
  (∀ p ∈ acc.1, (p.name ∈ acc.2 ↔ p.hasDefault = false)) ∧ (∀ n ∈ acc.2, n ∈ acc.1.map (·.name))

theorem any_name_iff (ps : List Param) (n : String) :
    ps.any (fun q => q.name = n) = true ↔ n ∈ ps.map (·.name) := by
  simp only [List.any_eq_true, decide_eq_true_eq, List.mem_map]

theorem names_replaceP (ps : List Param) (p : Param) (n : String) (hp : p.name ∈ ps.map (·.name)) :
    n ∈ (replaceP ps p).map (·.name) ↔ n ∈ ps.map (·.name) := by
  unfold replaceP
  simp only [List.map_map, List.mem_map, Function.comp]
  constructor
  · rintro ⟨q, hq, rfl⟩
    by_cases h : q.name = p.name
    · simp only [h, if_true]
      obtain ⟨r, hr, hrn⟩ := List.mem_map.mp hp
      exact ⟨r, hr, hrn⟩
    · simp only [h, if_false]
      exact ⟨q, hq, rfl⟩
  · rintro ⟨q, hq, rfl⟩
    refine ⟨q, hq, ?_⟩
    by_cases h : q.name = p.name
    · simp [h]
    · simp [h]

theorem names_bpStep (acc : List Param × List String) (p : Param) (n : String) :
    n ∈ (bpStep acc p).1.map (·.name) ↔ n ∈ acc.1.map (·.name) ∨ n = p.name := by
  unfold bpStep
  by_cases h : acc.1.any (fun q => q.name = p.name) = true
  · have hp : p.name ∈ acc.1.map (·.name) := (any_name_iff _ _).mp h
    simp only [h, if_true]
    have hor : (n ∈ acc.1.map (·.name) ∨ n = p.name) ↔ n ∈ acc.1.map (·.name) := by
      constructor
      · rintro (h' | rfl)
        · exact h'
        · exact hp
      · exact Or.inl
    rw [hor]
    split
    · exact names_replaceP acc.1 p n hp
    · exact Iff.rfl
  · simp only [h]
    simp [List.mem_append]

theorem baseInv_bpStep {acc : List Param × List String} (h : BaseInv acc) (p : Param) : BaseInv (bpStep acc p) := by
  unfold bpStep
  by_cases hc : acc.1.any (fun q => q.name = p.name) = true
  · rw [if_pos hc]
    have hp : p.name ∈ acc.1.map (·.name) := (any_name_iff _ _).mp hc
    split
    · rename_i hcond
      simp only [Bool.and_eq_true, Bool.not_eq_true', List.contains_eq_mem, decide_eq_false_iff_not] at hcond
      refine ⟨?_, ?_⟩
      · intro q hq
        dsimp only at hq ⊢
        unfold replaceP at hq
        obtain ⟨r, hr, rfl⟩ := List.mem_map.mp hq
        by_cases hrn : r.name = p.name
        · simp only [hrn, if_true, List.mem_append, List.mem_singleton, or_true, true_iff]
          exact hcond.2
        · simp only [hrn, if_false, List.mem_append, List.mem_singleton, or_false]
          exact h.1 r hr
      · intro n hn
        dsimp only at hn ⊢
        rw [names_replaceP acc.1 p n hp]
        simp only [List.mem_append, List.mem_singleton] at hn
        rcases hn with hn | rfl
        · exact h.2 n hn
        · exact hp
    · exact h
  · have hnot : ¬ p.name ∈ acc.1.map (·.name) := fun e => hc ((any_name_iff _ _).mpr e)
    have hnot2 : ¬ p.name ∈ acc.2 := fun e => hnot (h.2 _ e)
    rw [if_neg hc]
    refine ⟨?_, ?_⟩
    · intro q hq
      dsimp only at hq ⊢
      simp only [List.mem_append, List.mem_singleton] at hq
      rcases hq with hq | rfl
      · have hne : ¬ q.name = p.name := fun e => hnot (e ▸ List.mem_map_of_mem (f := (·.name)) hq)
        cases hd : p.hasDefault
        · simp [hne, h.1 q hq]
        · simp [h.1 q hq]
      · cases hd : q.hasDefault
        · simp
        · simp [hnot2]
    · intro n hn
      dsimp only at hn ⊢
      cases hd : p.hasDefault
      · simp only [hd, Bool.false_eq_true, if_false, List.mem_append, List.mem_singleton] at hn
        rcases hn with hn | rfl
        · simp [List.mem_append]; exact Or.inl (by simpa using h.2 n hn)
        · simp
      · simp only [hd, if_true] at hn
        simp [List.mem_append]; exact Or.inl (by simpa using h.2 n hn)

theorem fold_bpStep (ps : List Param) (acc : List Param × List String) (h : BaseInv acc) :
    BaseInv (ps.foldl bpStep acc) ∧
    ∀ n, n ∈ (ps.foldl bpStep acc).1.map (·.name) ↔ n ∈ acc.1.map (·.name) ∨ n ∈ ps.map (·.name) := by
  induction ps generalizing acc with
  | nil => exact ⟨h, by simp⟩
  | cons p ps ih =>
    obtain ⟨h1, h2⟩ := ih (bpStep acc p) (baseInv_bpStep h p)
    refine ⟨h1, fun n => ?_⟩
    simp only [List.foldl_cons, h2, names_bpStep, List.map_cons, List.mem_cons]
    constructor
    · rintro ((a | b) | c)
      · exact Or.inl a
      · exact Or.inr (Or.inl b)
      · exact Or.inr (Or.inr c)
    · rintro (a | b | c)
      · exact Or.inl (Or.inl a)
      · exact Or.inl (Or.inr b)
      · exact Or.inr c

theorem fold_sigs (sigs : List Sig) (acc : List Param × List String) (h : BaseInv acc) :
    BaseInv (sigs.foldl (fun acc s => s.params.foldl bpStep acc) acc) ∧
    ∀ n, n ∈ (sigs.foldl (fun acc s => s.params.foldl bpStep acc) acc).1.map (·.name) ↔
      n ∈ acc.1.map (·.name) ∨ ∃ s ∈ sigs, n ∈ s.params.map (·.name) := by
  induction sigs generalizing acc with
  | nil => exact ⟨h, by simp⟩
  | cons s sigs ih =>
    obtain ⟨hb, hn⟩ := fold_bpStep s.params acc h
    obtain ⟨h1, h2⟩ := ih _ hb
    refine ⟨h1, fun n => ?_⟩
    simp only [List.foldl_cons, h2, hn, List.mem_cons]
    constructor
    · rintro ((a | b) | ⟨s', hs', c⟩)
      · exact Or.inl a
      · exact Or.inr ⟨s, Or.inl rfl, b⟩
      · exact Or.inr ⟨s', Or.inr hs', c⟩
    · rintro (a | ⟨s', rfl | hs', c⟩)
      · exact Or.inl (Or.inl a)
      · exact Or.inl (Or.inr c)
      · exact Or.inr ⟨s', hs', c⟩

theorem baseInfoOf_inv (sigs : List Sig) : BaseInv (baseInfoOf sigs) :=
  (fold_sigs sigs ([], []) ⟨by simp, by simp⟩).1

theorem baseInfoOf_names (sigs : List Sig) (n : String) :
    n ∈ (baseInfoOf sigs).1.map (·.name) ↔ ∃ s ∈ sigs, n ∈ s.params.map (·.name) := by
  have := (fold_sigs sigs ([], []) ⟨by simp, by simp⟩).2 n
  unfold baseInfoOf
  simpa using this



theorem param_eq {p q : Param} (h1 : p.name = q.name) (h2 : p.hasDefault = q.hasDefault) : p = q := by
  cases p; cases q; simp_all

/-- `{**xs, **ys}` when every surviving value carries the same default flag `b` -/
theorem mem_dictMerge_flag (b : Bool) (xs ys : List Param)
    (hx : ∀ x ∈ xs, x.hasDefault = b ∨ x.name ∈ ys.map (·.name))
    (hy : ∀ y ∈ ys, y.hasDefault = b) (p : Param) :
    p ∈ dictMerge xs ys ↔ (p.hasDefault = b ∧ (p.name ∈ xs.map (·.name) ∨ p.name ∈ ys.map (·.name))) := by
  unfold dictMerge
  simp only [List.mem_append, List.mem_map, List.mem_filter]
  constructor
  · rintro (⟨x, hxm, rfl⟩ | ⟨hpy, _⟩)
    · cases hf : ys.find? (fun q => q.name = x.name) with
      | some y =>
        have hym := List.mem_of_find?_eq_some hf
        have hyn : y.name = x.name := by simpa using List.find?_some hf
        simp only [Option.getD_some]
        exact ⟨hy y hym, Or.inr ⟨y, hym, rfl⟩⟩
      | none =>
        simp only [Option.getD_none]
        have hnot : ¬ x.name ∈ ys.map (·.name) := by
          intro hmem
          obtain ⟨y, hym, hyn⟩ := List.mem_map.mp hmem
          have := List.find?_eq_none.mp hf y hym
          simp [hyn] at this
        rcases hx x hxm with h | h
        · exact ⟨h, Or.inl ⟨x, hxm, rfl⟩⟩
        · exact absurd h hnot
    · exact ⟨hy p hpy, Or.inr ⟨p, hpy, rfl⟩⟩
  · rintro ⟨hb, hn⟩
    by_cases hys : p.name ∈ ys.map (·.name)
    · obtain ⟨y, hym, hyn⟩ := List.mem_map.mp hys
      have hpy : p = y := param_eq hyn.symm (hb.trans (hy y hym).symm)
      subst hpy
      by_cases hex : ∃ x ∈ xs, x.name = p.name
      · obtain ⟨x, hxm, hxn⟩ := hex
        left
        refine ⟨x, hxm, ?_⟩
        cases hf : ys.find? (fun q => q.name = x.name) with
        | some y' =>
          have hym' := List.mem_of_find?_eq_some hf
          have hyn' : y'.name = x.name := by simpa using List.find?_some hf
          simp only [Option.getD_some]
          exact param_eq (hyn'.trans hxn) ((hy y' hym').trans hb.symm)
        | none =>
          have := List.find?_eq_none.mp hf p hym
          simp [hxn] at this
      · right
        refine ⟨hym, ?_⟩
        simp only [Bool.not_eq_true', List.any_eq_false, decide_eq_true_eq]
        intro x hxm hxn
        exact hex ⟨x, hxm, hxn⟩
    · rcases hn with hn | hn
      · obtain ⟨x, hxm, hxn⟩ := hn
        left
        refine ⟨x, hxm, ?_⟩
        have hnone : ys.find? (fun q => q.name = x.name) = none := by
          apply List.find?_eq_none.mpr
          intro y hym
          simp only [decide_eq_true_eq]
          intro hyn
          exact hys (List.mem_map.mpr ⟨y, hym, hyn.trans hxn⟩)
        rw [hnone]
        simp only [Option.getD_none]
        rcases hx x hxm with h | h
        · exact param_eq hxn (h.trans hb.symm)
        · exact absurd (hxn ▸ h) hys
      · exact absurd (List.mem_map.mpr hn) hys

theorem mem_filter_name (ps : List Param) (Q : String → Bool) (n : String) :
    n ∈ (ps.filter (fun p => Q p.name)).map (·.name) ↔ n ∈ ps.map (·.name) ∧ Q n = true := by
  simp only [List.mem_map, List.mem_filter]
  constructor
  · rintro ⟨p, ⟨hp, hq⟩, rfl⟩; exact ⟨⟨p, hp, rfl⟩, hq⟩
  · rintro ⟨⟨p, hp, rfl⟩, hq⟩; exact ⟨p, ⟨hp, hq⟩, rfl⟩



theorem mem_makeSignature (own req : List String) (addl : Bool) (bp : List Param) (breq consts : List String)
    (hinv : BaseInv (bp, breq)) (p : Param) :
    p ∈ (makeSignature own req addl bp breq consts).params ↔
      (p.hasDefault = false ∧ (p.name ∈ own ∨ p.name ∈ bp.map (·.name)) ∧ p.name ∉ consts ∧
          (p.name ∈ req ∨ p.name ∈ breq)) ∨
      (p.hasDefault = true ∧ p.name ∉ consts ∧ p.name ∉ req ∧
          (p.name ∈ own ∨ (p.name ∈ bp.map (·.name) ∧ p.name ∉ breq))) := by
  have hq : p.name ∈ breq → p.name ∈ bp.map (·.name) := hinv.2 _
  unfold makeSignature
  simp only [List.mem_append]
  rw [mem_dictMerge_flag false, mem_dictMerge_flag true]
  · rw [mem_filter_name bp (fun n => (req.contains n || breq.contains n) && !consts.contains n),
        mem_filter_name bp (fun n => !req.contains n && !breq.contains n && !consts.contains n)]
    simp only [List.map_map, List.mem_map, List.mem_filter, mem_dedupS, List.mem_append, Function.comp,
      Bool.and_eq_true, Bool.or_eq_true, Bool.not_eq_true', exists_eq_right,
      List.contains_eq_mem, decide_eq_true_eq, decide_eq_false_iff_not] at hq ⊢
    generalize (∃ a, a ∈ bp ∧ a.name = p.name) = B at hq ⊢
    generalize (p.name ∈ own) = A
    generalize (p.name ∈ req) = R
    generalize (p.name ∈ breq) = Q at hq ⊢
    generalize (p.name ∈ consts) = C
    generalize (p.hasDefault = false) = D0
    generalize (p.hasDefault = true) = D1
    by_cases hA : A <;> by_cases hB : B <;> by_cases hR : R <;> by_cases hQ : Q <;> by_cases hC : C <;>
      simp_all
  · intro x hx
    simp only [List.mem_filter, Bool.and_eq_true, Bool.not_eq_true', List.contains_eq_mem,
      decide_eq_false_iff_not] at hx
    left
    cases hd : x.hasDefault
    · exact absurd ((hinv.1 x hx.1).mpr hd) hx.2.1.2
    · rfl
  · intro y hy
    simp only [List.mem_map] at hy
    obtain ⟨n, _, rfl⟩ := hy
    rfl
  · intro x hx
    simp only [List.mem_filter, Bool.and_eq_true, Bool.or_eq_true, Bool.not_eq_true', List.contains_eq_mem,
      decide_eq_true_eq, decide_eq_false_iff_not] at hx
    by_cases hr : x.name ∈ req
    · right
      simp only [List.map_map, List.mem_map, List.mem_filter, mem_dedupS, List.mem_append, Function.comp,
        Bool.not_eq_true', List.contains_eq_mem, decide_eq_true_eq, decide_eq_false_iff_not, exists_eq_right]
      exact ⟨⟨Or.inr ⟨x, hx.1, rfl⟩, hx.2.2⟩, hr⟩
    · left
      rcases hx.2.1 with h | h
      · exact absurd h hr
      · exact (hinv.1 x hx.1).mp h
  · intro y hy
    simp only [List.mem_map] at hy
    obtain ⟨n, _, rfl⟩ := hy
    rfl


theorem names_makeSignature (own req : List String) (addl : Bool) (bp : List Param) (breq consts : List String)
    (hinv : BaseInv (bp, breq)) (n : String) :
    n ∈ (makeSignature own req addl bp breq consts).params.map (·.name) ↔
      (n ∈ own ∨ n ∈ bp.map (·.name)) ∧ n ∉ consts := by
  constructor
  · intro h
    obtain ⟨p, hp, rfl⟩ := List.mem_map.mp h
    rcases (mem_makeSignature own req addl bp breq consts hinv p).mp hp with ⟨_, h1, h2, _⟩ | ⟨_, h2, _, h1⟩
    · exact ⟨h1, h2⟩
    · exact ⟨h1.elim Or.inl (fun h => Or.inr h.1), h2⟩
  · rintro ⟨h1, h2⟩
    by_cases hr : n ∈ req ∨ n ∈ breq
    · exact List.mem_map.mpr ⟨⟨n, false⟩,
        (mem_makeSignature own req addl bp breq consts hinv ⟨n, false⟩).mpr (Or.inl ⟨rfl, h1, h2, hr⟩), rfl⟩
    · have hr1 : n ∉ req := fun e => hr (Or.inl e)
      have hr2 : n ∉ breq := fun e => hr (Or.inr e)
      exact List.mem_map.mpr ⟨⟨n, true⟩,
        (mem_makeSignature own req addl bp breq consts hinv ⟨n, true⟩).mpr
          (Or.inr ⟨rfl, h2, hr1, h1.elim Or.inl (fun h => Or.inr ⟨h, hr2⟩)⟩), rfl⟩

/-- the field a name finally denotes in a class (most derived definition wins) -/
def finalField (c : ClassInfo) (n : String) : Option FieldInfo := lookupF (allFields c) n

theorem nodupN_allFields (c : ClassInfo) : NodupN (allFields c) := nodupN_fieldsByName _

theorem mem_constNames {fs : List FieldInfo} (hn : NodupN fs) (n : String) :
    n ∈ constNames fs ↔ ∃ f, lookupF fs n = some f ∧ f.isConst = true := by
  unfold constNames
  simp only [List.mem_map, List.mem_filter]
  constructor
  · rintro ⟨f, ⟨hf, hc⟩, rfl⟩; exact ⟨f, lookupF_of_mem hn hf, hc⟩
  · rintro ⟨f, hl, hc⟩; exact ⟨f, ⟨(lookupF_some hl).1, hc⟩, (lookupF_some hl).2⟩

theorem lookupLast_some {fs : List FieldInfo} {n : String} {f : FieldInfo} (h : lookupLast fs n = some f) :
    f ∈ fs ∧ f.name = n := by
  induction fs with
  | nil => simp [lookupLast] at h
  | cons g fs ih =>
    simp only [lookupLast] at h
    cases hl : lookupLast fs n with
    | some g' =>
      simp only [hl, Option.some_or, Option.some.injEq] at h
      subst h
      exact ⟨List.mem_cons_of_mem _ (ih hl).1, (ih hl).2⟩
    | none =>
      simp only [hl, Option.none_or] at h
      by_cases hg : g.name = n
      · simp only [hg, if_true, Option.some.injEq] at h
        subst h
        exact ⟨List.mem_cons_self, hg⟩
      · simp [hg] at h

/-- lookup in the merged field table of a list of bases: the first base that knows the name decides -/
theorem lookup_bases_cons (b : ClassInfo) (bs : List ClassInfo) (n : String) :
    lookupF (fieldsByName (mroL (b :: bs))) n = (finalField b n).or (lookupF (fieldsByName (mroL bs)) n) := by
  simp only [mroL, lookupF_fieldsByName_append, finalField, allFields]

theorem lookup_bases_some {bs : List ClassInfo} {n : String} {f : FieldInfo}
    (h : lookupF (fieldsByName (mroL bs)) n = some f) : ∃ b ∈ bs, finalField b n = some f := by
  induction bs with
  | nil => simp [mroL, fieldsByName, lookupF] at h
  | cons b bs ih =>
    rw [lookup_bases_cons] at h
    cases hb : finalField b n with
    | some g =>
      simp only [hb, Option.some_or, Option.some.injEq] at h
      subst h
      exact ⟨b, List.mem_cons_self, hb⟩
    | none =>
      simp only [hb, Option.none_or] at h
      obtain ⟨b', hb', hf⟩ := ih h
      exact ⟨b', List.mem_cons_of_mem _ hb', hf⟩

theorem lookup_bases_isSome {bs : List ClassInfo} {n : String} {b : ClassInfo} (hb : b ∈ bs)
    (h : (finalField b n).isSome = true) : (lookupF (fieldsByName (mroL bs)) n).isSome = true := by
  induction bs with
  | nil => cases hb
  | cons b' bs ih =>
    rw [lookup_bases_cons]
    rcases List.mem_cons.mp hb with rfl | hb'
    · cases hf : finalField b n with
      | some g => simp
      | none => simp [hf] at h
    · cases hf : finalField b' n with
      | some g => simp
      | none => simpa using ih hb'

theorem mem_runtimeSigs (dflt : Bool) (bs : List ClassInfo) (s : Sig) :
    s ∈ runtimeSigs dflt bs ↔ ∃ b ∈ bs, s = runtimeSig dflt b := by
  induction bs with
  | nil => simp [runtimeSigs]
  | cons b bs ih =>
    simp only [runtimeSigs, List.mem_cons, ih]
    constructor
    · rintro (rfl | ⟨b', hb', rfl⟩)
      · exact ⟨b, Or.inl rfl, rfl⟩
      · exact ⟨b', Or.inr hb', rfl⟩
    · rintro ⟨b', rfl | hb', rfl⟩
      · exact Or.inl rfl
      · exact Or.inr ⟨b', hb', rfl⟩

/-- names accepted by the runtime signature = names of the non-constant fields — the step of the induction -/
theorem names_step (dflt : Bool) (d : Decl) (bases : List ClassInfo)
    (ih : ∀ b ∈ bases, ∀ n, n ∈ (runtimeSig dflt b).params.map (·.name) ↔
            ∃ f, finalField b n = some f ∧ f.isConst = false) (n : String) :
    n ∈ (runtimeSig dflt (.mk d bases)).params.map (·.name) ↔
      ∃ f, finalField (.mk d bases) n = some f ∧ f.isConst = false := by
  have hF : finalField (.mk d bases) n = (lookupLast d.fields n).or (lookupF (fieldsByName (mroL bases)) n) := by
    simp only [finalField, allFields, mro, lookupF_fieldsByName_cons]
  have hN : NodupN (fieldsByName (d :: mroL bases)) := nodupN_fieldsByName _
  have hF' : lookupF (fieldsByName (d :: mroL bases)) n =
      (lookupLast d.fields n).or (lookupF (fieldsByName (mroL bases)) n) := lookupF_fieldsByName_cons _ _ _
  have hinv : BaseInv ((baseInfoOf (runtimeSigs dflt bases)).1, (baseInfoOf (runtimeSigs dflt bases)).2) :=
    baseInfoOf_inv _
  simp only [runtimeSig, sigOf]
  rw [names_makeSignature _ _ _ _ _ _ hinv, baseInfoOf_names, mem_constNames hN, hF, hF']
  constructor
  · rintro ⟨h1, h2⟩
    have hsome : ((lookupLast d.fields n).or (lookupF (fieldsByName (mroL bases)) n)).isSome = true := by
      rcases h1 with h | ⟨s, hs, hn⟩
      · have := (lookupLast_isSome d.fields n).mpr h
        cases hl : lookupLast d.fields n with
        | some g => simp
        | none => simp [hl] at this
      · obtain ⟨b, hb, rfl⟩ := (mem_runtimeSigs dflt bases s).mp hs
        obtain ⟨f, hf, _⟩ := (ih b hb n).mp hn
        have := lookup_bases_isSome (n := n) hb (by simp [hf])
        cases hl : lookupLast d.fields n with
        | some g => simp
        | none => simpa using this
    cases hv : (lookupLast d.fields n).or (lookupF (fieldsByName (mroL bases)) n) with
    | none => simp [hv] at hsome
    | some g =>
      refine ⟨g, rfl, ?_⟩
      cases hc : g.isConst with
      | false => rfl
      | true => exact absurd ⟨g, hv, hc⟩ h2
  · rintro ⟨f, hf, hc⟩
    refine ⟨?_, ?_⟩
    · cases hl : lookupLast d.fields n with
      | some g => exact Or.inl ((lookupLast_isSome d.fields n).mp (by simp [hl]))
      | none =>
        simp only [hl, Option.none_or] at hf
        obtain ⟨b, hb, hfb⟩ := lookup_bases_some hf
        exact Or.inr ⟨runtimeSig dflt b, (mem_runtimeSigs dflt bases _).mpr ⟨b, hb, rfl⟩,
          (ih b hb n).mpr ⟨f, hfb, hc⟩⟩
    · rintro ⟨g, hg, hgc⟩
      rw [hf] at hg
      cases hg
      simp [hc] at hgc

mutual
theorem names_inv (dflt : Bool) : (c : ClassInfo) → ∀ n, n ∈ (runtimeSig dflt c).params.map (·.name) ↔
    ∃ f, finalField c n = some f ∧ f.isConst = false
  | .mk d bases => names_step dflt d bases (names_invL dflt bases)
theorem names_invL (dflt : Bool) : (bs : List ClassInfo) → ∀ b ∈ bs, ∀ n,
    n ∈ (runtimeSig dflt b).params.map (·.name) ↔ ∃ f, finalField b n = some f ∧ f.isConst = false
  | [] => fun _ h => nomatch h
  | b :: bs => fun b' hb' =>
    (List.mem_cons.mp hb').elim (fun e => e ▸ names_inv dflt b) (fun h => names_invL dflt bs b' h)
end



theorem mem_orderedArgs (ps : List Param) (p : Param) : p ∈ orderedArgs ps ↔ p ∈ ps := by
  unfold orderedArgs
  simp only [List.mem_append, List.mem_filter]
  cases hd : p.hasDefault <;> simp

theorem mem_stubArgs (dflt : Bool) (c : ClassInfo) (p : Param) :
    p ∈ stubArgs dflt c ↔ ∃ f, finalField c p.name = some f ∧ f.isConst = false ∧
      p.hasDefault = annEndsNone (clsRequired dflt c) f := by
  unfold stubArgs allTypeInfo
  rw [mem_orderedArgs]
  simp only [List.mem_map, List.mem_filter, Bool.not_eq_true']
  constructor
  · rintro ⟨f, ⟨hf, hc⟩, rfl⟩
    exact ⟨f, lookupF_of_mem (nodupN_allFields c) hf, hc, rfl⟩
  · rintro ⟨f, hl, hc, hd⟩
    refine ⟨f, ⟨(lookupF_some hl).1, hc⟩, ?_⟩
    exact param_eq (lookupF_some hl).2 hd.symm

theorem names_stubArgs (dflt : Bool) (c : ClassInfo) (n : String) :
    n ∈ (stubArgs dflt c).map (·.name) ↔ ∃ f, finalField c n = some f ∧ f.isConst = false := by
  simp only [List.mem_map]
  constructor
  · rintro ⟨p, hp, rfl⟩
    obtain ⟨f, h1, h2, _⟩ := (mem_stubArgs dflt c p).mp hp
    exact ⟨f, h1, h2⟩
  · rintro ⟨f, h1, h2⟩
    exact ⟨⟨n, annEndsNone (clsRequired dflt c) f⟩, (mem_stubArgs dflt c _).mpr ⟨f, h1, h2, rfl⟩, rfl⟩

/-- run-time required ⇔ accepted name that is in `cls._required` -/
theorem runtimeRequired_iff (dflt : Bool) (c : ClassInfo) (n : String) :
    runtimeRequired dflt c n = true ↔
      (∃ f, finalField c n = some f ∧ f.isConst = false) ∧ n ∈ clsRequired dflt c := by
  rw [← names_inv dflt c n]
  unfold runtimeRequired
  rw [List.contains_iff_mem]
  cases c with
  | mk d bases =>
    have hinv : BaseInv ((baseInfoOf (runtimeSigs dflt bases)).1, (baseInfoOf (runtimeSigs dflt bases)).2) :=
      baseInfoOf_inv _
    simp only [runtimeSig, sigOf, clsRequired]
    rw [mem_makeSignature _ _ _ _ _ _ hinv, names_makeSignature _ _ _ _ _ _ hinv]
    simp only [List.mem_append, List.mem_filter]
    constructor
    · rintro (⟨_, h1, h2, h3⟩ | ⟨h, _⟩)
      · exact ⟨⟨h1, h2⟩, Or.inl h3.symm⟩
      · cases h
    · rintro ⟨⟨h1, h2⟩, h3⟩
      rcases h3 with h3 | ⟨hc, _⟩
      · exact Or.inl ⟨trivial, h1, h2, h3.symm⟩
      · exact absurd hc h2


end Typedpy.Stub
