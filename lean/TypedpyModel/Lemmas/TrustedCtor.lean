/-
  Lemmas/TrustedCtor.lean — trusted construction (`from_trusted_data`, `trust_supplied_values`):
  on arguments that pass `rawOkV` the constructor stores the argument itself, so the unvalidated
  instance is the validated one.
-/
import TypedpyModel.Lemmas.Trusted
import TypedpyModel.Lemmas.RoundTrip
namespace Typedpy
open PyVal (pyEq pyMem pyNodup)

section
variable (O : Oracles)

theorem ite_not_ok_id {c : Prop} [Decidable c] {e : ErrCls} {x u : PyVal}
    (h : (if c then (Except.error e : R PyVal) else .ok x) = .ok u) : u = x := by
  split at h <;> first | (cases h; rfl) | cases h

theorem c10_pairs_id (gk gv : PyVal → R PyVal) : ∀ (kvs kvs' : List (PyVal × PyVal)),
    (∀ kv ∈ kvs, (∀ y, gk kv.1 = .ok y → y = kv.1) ∧ (∀ y, gv kv.2 = .ok y → y = kv.2)) →
    mapE (fun (kv : PyVal × PyVal) =>
      bindE (gk kv.1) fun k' => bindE (gv kv.2) fun v' => .ok (k', v')) kvs = .ok kvs' →
    kvs' = kvs
  | [], kvs', _, hv => by simp only [mapE] at hv; cases hv; rfl
  | (k, v) :: rest, kvs', hr, hv => by
    simp only [mapE] at hv
    rcases bindE_eq_ok hv with ⟨p, h1, h2⟩
    rcases bindE_eq_ok h2 with ⟨ps, h3, h4⟩
    cases h4
    rcases bindE_eq_ok h1 with ⟨k', h5, h6⟩
    rcases bindE_eq_ok h6 with ⟨v', h7, h8⟩
    cases h8
    have hkv := hr (k, v) (by simp)
    rw [hkv.1 k' h5, hkv.2 v' h7, c10_pairs_id gk gv rest ps (fun kv hkv' => hr kv (by simp [hkv'])) h3]

mutual
/-- the constructor stores an argument that passes `rawOkV` unchanged -/
theorem validate_raw_id : ∀ (f : FieldDecl) (v w : PyVal),
    rawOkV f v = true → validate O f v = .ok w → w = v
  | .number o, v, w, _, hv => vNumber_ok_id o v w (by simpa [validate] using hv)
  | .integer o, v, w, _, hv => vInteger_ok_id o v w (by simpa [validate] using hv)
  | .float o, v, w, hr, hv =>
    validate_scalar_id O {} (.float o) v w (Or.inl rfl) (by simpa [plainV, rawOkV] using hr) hv
  | .string a b c, v, w, _, hv => validate_scalar_id O {} (.string a b c) v w (Or.inl rfl) rfl hv
  | .boolean, v, w, hr, hv =>
    validate_scalar_id O {} .boolean v w (Or.inl rfl) (by simpa [plainV, rawOkV] using hr) hv
  | .enumLit vals, v, w, _, hv => validate_scalar_id O {} (.enumLit vals) v w (Or.inr rfl) rfl hv
  | .noneF, v, w, _, hv => validate_scalar_id O {} .noneF v w (Or.inl rfl) rfl hv
  | .enumCls cls names, v, w, hr, hv => by
    simp only [rawOkV] at hr
    simp only [validate] at hv
    unfold vEnumCls at hv
    split at hv
    · simp [isStrV] at hr
    · exact ite_ok_id hv
    · cases hv
  | .seqAny k sz, v, w, _, hv => by
    simp only [validate, vSeq] at hv
    cases hs : seqElems k v with
    | none => simp [hs] at hv
    | some xs =>
      obtain ⟨rfl, _⟩ := seqLike_of_seqElems k v xs hs
      simp only [hs, bindE_ok] at hv
      split at hv
      · cases hv
      · split at hv
        · cases hv
        · simp only [Bool.not_true, Bool.false_eq_true, if_false] at hv
          first | exact ite_not_ok_id hv | (cases hv; rfl)
  | .seqOf k item sz, v, w, hr, hv => by
    simp only [rawOkV] at hr
    simp only [validate, vSeq] at hv
    cases hs : seqElems k v with
    | none => simp [hs] at hv
    | some xs =>
      obtain ⟨rfl, _⟩ := seqLike_of_seqElems k v xs hs
      simp only [hs] at hv hr
      split at hv
      · cases hv
      · split at hv
        · cases hv
        · simp only [Bool.not_true, Bool.false_eq_true, if_false] at hv
          rcases bindE_eq_ok hv with ⟨ys, h1, h2⟩
          have : ys = xs := mapE_id_of xs ys
            (fun x hx y hy => validate_raw_id item x y ((List.all_eq_true.mp hr) x hx) hy) h1
          subst this
          exact ite_not_ok_id h2
  | .tupleOf item uniq, v, w, hr, hv => by
    simp only [rawOkV] at hr
    simp only [validate, vTuple] at hv
    cases v with
    | tuple xs =>
      simp only at hr hv
      by_cases h1 : (!uniqOk uniq xs) = true
      · simp [h1] at hv
      · simp only [h1, if_false, Bool.not_true, Bool.false_eq_true] at hv
        rcases bindE_eq_ok hv with ⟨ys, h2, h3⟩
        have : ys = xs := mapE_id_of xs ys
          (fun x hx y hy => validate_raw_id item x y ((List.all_eq_true.mp hr) x hx) hy) h2
        subst this
        exact ite_not_ok_id h3
    | _ => cases hv
  | .struct c fields defaults, v, w, hr, hv => by
    simp only [rawOkV, Bool.not_eq_true'] at hr
    simp only [validate, hr, Bool.false_eq_true, if_false] at hv
    exact vClassRef_ok_id c v w hv
  | .anyOf fs, v, w, hr, hv => by
    simp only [rawOkV] at hr
    simp only [validate] at hv
    exact validate_raw_any fs v w hr hv
  | .oneOf fs, v, w, _, hv => by simp only [validate] at hv; exact ite_ok_id hv
  | .notF fs, v, w, _, hv => by simp only [validate] at hv; exact ite_ok_id hv
  | .allOf fs, v, w, _, hv => by
    simp only [validate] at hv
    rcases bindE_eq_ok hv with ⟨_, _, h2⟩
    cases h2; rfl
  | .anything, v, w, _, hv => by simp only [validate] at hv; cases hv; rfl
  | .seqPos k items addl sz, v, w, hr, hv => by
    simp only [rawOkV] at hr
    simp only [validate, vSeq] at hv
    cases hs : seqElems k v with
    | none => simp [hs] at hv
    | some xs =>
      obtain ⟨rfl, _⟩ := seqLike_of_seqElems k v xs hs
      simp only [hs] at hv hr
      split at hv
      · cases hv
      · split at hv
        · cases hv
        · split at hv
          · cases hv
          · rcases bindE_eq_ok hv with ⟨ys, h1, h2⟩
            have : ys = xs := validate_raw_zip items xs ys hr h1
            subst this
            exact ite_not_ok_id h2
  | .setAny imm sz, v, w, hr, hv => by
    simp only [rawOkV] at hr
    simp only [validate, vSet] at hv
    cases v
    case set fr xs =>
      simp only [and_true_iff] at hr
      simp only at hv
      by_cases h1 : (!sizeOk sz xs.length) = true
      · simp only [h1, if_true] at hv; cases hv
      · simp only [h1, Bool.false_eq_true, if_false, bindE_ok, dedup_of_nodup xs hr.2] at hv
        cases hv
        have : (fr || imm) = fr := by
          have := hr.1
          cases fr <;> cases imm <;> simp at this ⊢
        rw [this]
    all_goals cases hv
  | .setOf imm item sz, v, w, hr, hv => by
    simp only [rawOkV] at hr
    simp only [validate, vSet] at hv
    cases v
    case set fr xs =>
      simp only [and_true_iff] at hr
      simp only at hv
      by_cases h1 : (!sizeOk sz xs.length) = true
      · simp only [h1, if_true] at hv; cases hv
      · simp only [h1, Bool.false_eq_true, if_false] at hv
        rcases bindE_eq_ok hv with ⟨ys, h2, h3⟩
        have : ys = xs := mapE_id_of xs ys
          (fun x hx y hy => validate_raw_id item x y ((List.all_eq_true.mp hr.2) x hx) hy) h2
        subst this
        rw [dedup_of_nodup ys hr.1.2] at h3
        have hw := ite_not_ok_id h3
        subst hw
        have : (fr || imm) = fr := by
          have := hr.1.1
          cases fr <;> cases imm <;> simp at this ⊢
        rw [this]
    all_goals cases hv
  | .tuplePos items uniq, v, w, hr, hv => by
    simp only [rawOkV] at hr
    simp only [validate, vTuple] at hv
    cases v with
    | tuple xs =>
      simp only at hr hv
      split at hv
      · cases hv
      · split at hv
        · cases hv
        · rcases bindE_eq_ok hv with ⟨ys, h2, h3⟩
          have : ys = xs := validate_raw_zip items xs ys hr h2
          subst this
          exact ite_not_ok_id h3
    | _ => cases hv
  | .mapAny sz, v, w, hr, hv => by
    simp only [rawOkV] at hr
    simp only [validate, vMap] at hv
    cases v
    case dict kvs =>
      simp only at hr hv
      by_cases h1 : (!sizeOk sz kvs.length) = true
      · simp only [h1, if_true] at hv; cases hv
      · simp only [h1, Bool.false_eq_true, if_false, bindE_ok, dictOfPairs_distinct kvs hr] at hv
        cases hv; rfl
    all_goals cases hv
  | .mapOf kf vf sz, v, w, hr, hv => by
    simp only [rawOkV] at hr
    simp only [validate, vMap] at hv
    cases v
    case dict kvs =>
      simp only [and_true_iff] at hr
      simp only at hv
      by_cases h1 : (!sizeOk sz kvs.length) = true
      · simp only [h1, if_true] at hv; cases hv
      · simp only [h1, Bool.false_eq_true, if_false] at hv
        rcases bindE_eq_ok hv with ⟨kvs', h2, h3⟩
        have : kvs' = kvs := c10_pairs_id (validate O kf) (validate O vf) kvs kvs'
          (fun kv hkv =>
            have hh := and_true_iff.mp ((List.all_eq_true.mp hr.2) kv hkv)
            ⟨fun y hy => validate_raw_id kf kv.1 y hh.1 hy, fun y hy => validate_raw_id vf kv.2 y hh.2 hy⟩) h2
        subst this
        rw [dictOfPairs_distinct kvs' hr.1] at h3
        exact ite_not_ok_id h3
    all_goals cases hv

theorem validate_raw_zip : ∀ (fs : List FieldDecl) (xs ys : List PyVal),
    rawOkZip fs xs = true → validateZip O fs xs = .ok ys → ys = xs
  | [], xs, ys, _, hv => by simp only [validateZip] at hv; cases hv; rfl
  | _ :: _, [], ys, _, hv => by simp only [validateZip] at hv; cases hv; rfl
  | f :: fs, x :: xs, ys, hr, hv => by
    simp only [rawOkZip, and_true_iff] at hr
    simp only [validateZip] at hv
    rcases bindE_eq_ok hv with ⟨y, h1, h2⟩
    rcases bindE_eq_ok h2 with ⟨ys', h3, h4⟩
    cases h4
    rw [validate_raw_id f x y hr.1 h1, validate_raw_zip fs xs ys' hr.2 h3]

theorem validate_raw_any : ∀ (fs : List FieldDecl) (v w : PyVal),
    rawOkAll fs v = true → validateAny O fs v = .ok w → w = v
  | [], _, _, _, hv => by simp [validateAny] at hv
  | f :: fs, v, w, hr, hv => by
    simp only [rawOkAll, and_true_iff] at hr
    simp only [validateAny] at hv
    cases hf : validate O f v with
    | ok y => simp only [hf] at hv; cases hv; exact validate_raw_id f v w hr.1 hf
    | error e => simp only [hf] at hv; exact validate_raw_any fs v w hr.2 hv
end

/-- the declared fields present in the keyword arguments, in field order -/
def kwInFieldOrder (fields : List (String × FieldDecl)) (kw : List (String × PyVal)) :
    List (String × PyVal) :=
  fields.filterMap fun p => (lookup p.1 kw).map fun v => (p.1, v)

theorem stored_fields_equiv (c : ClassOpts) (defaults kw : List (String × PyVal)) :
    ∀ (rest : List (String × FieldDecl)) (attrs : List (String × PyVal)),
      storedFields defaults kw rest = true → validateFields O c defaults kw rest = .ok attrs →
      tnormAttrs (kwInFieldOrder rest kw) = tnormAttrs attrs
  | [], attrs, _, hv => by
    simp only [validateFields] at hv; cases hv; rfl
  | (n, f) :: rest, attrs, hs, hv => by
    simp only [storedFields, and_true_iff] at hs
    simp only [validateFields] at hv
    simp only [kwInFieldOrder, List.filterMap_cons]
    cases hl : lookup n kw with
    | none =>
      simp only [hl] at hs
      rw [argFor_none_of c defaults kw n hl hs.1] at hv
      simp only [Option.map_none]
      exact stored_fields_equiv c defaults kw rest attrs hs.2 hv
    | some v =>
      simp only [hl] at hs
      simp only [Option.map_some]
      cases ha : argFor c defaults kw n with
      | none =>
        simp only [ha] at hv
        have hvn : v.isNone = true := by
          unfold argFor at ha
          simp only [hl] at ha
          split at ha
          · rename_i h; simp only [and_true_iff] at h; exact h.1.1
          · cases ha
        simp only [tnormAttrs, hvn, if_true]
        exact stored_fields_equiv c defaults kw rest attrs hs.2 hv
      | some v' =>
        have hv' : v' = v := by
          unfold argFor at ha
          simp only [hl] at ha
          split at ha
          · cases ha
          · cases ha; rfl
        subst hv'
        simp only [ha] at hv
        rcases bindE_eq_ok hv with ⟨w, hw, h2⟩
        rcases bindE_eq_ok h2 with ⟨ar, har, hc⟩
        cases hc
        have := validate_raw_id O f v' w (and_true_iff.mp hs.1).1 hw
        subst this
        have ih := stored_fields_equiv c defaults kw rest ar hs.2 har
        simp only [kwInFieldOrder] at ih
        simp only [tnormAttrs, ih]

/-- **C10, trusted construction** (`from_trusted_data(mapping)`) -/
theorem from_trusted_map_core (cls : FieldDecl) (kw : List (String × PyVal)) (x : PyVal)
    (hs : storedKw cls kw = true) (hc : construct O cls kw = .ok x) :
    ∃ y, fromTrustedMap cls kw = .ok y ∧ tnorm y = tnorm x := by
  cases cls with
  | struct c fields defaults =>
    simp only [storedKw, and_true_iff] at hs
    simp only [construct] at hc
    unfold vConstruct at hc
    split at hc
    · cases hc
    · rcases bindE_eq_ok hc with ⟨attrs, hvf, hx⟩
      have hnames : ∀ a ∈ kw, (fields.map (·.1)).contains a.1 = true := List.all_eq_true.mp hs.1
      rw [extrasOf_nil c _ kw hnames] at hx
      simp only [List.nil_append] at hx
      cases hx
      refine ⟨_, rfl, ?_⟩
      have := stored_fields_equiv O c defaults kw fields attrs hs.2 hvf
      simp only [kwInFieldOrder] at this
      simp [tnorm, this]
  | _ => simp [storedKw] at hs

end
end Typedpy
