/-
  Lemmas/StubSort.lean — `sorted(set(xs))` on strings: the output is a function of the
  SET of inputs only (independent of enumeration order and multiplicity).
-/
import TypedpyModel.Sem.Stub
namespace Typedpy.Stub

theorem mem_insertU (x s : String) (l : List String) : s ∈ insertU x l ↔ s = x ∨ s ∈ l := by
  induction l with
  | nil => simp [insertU]
  | cons y ys ih =>
    unfold insertU
    by_cases h1 : x < y
    · simp [h1]
    · by_cases h2 : x = y
      · subst h2
        simp [h1]
      · simp only [h1, h2, if_false, List.mem_cons, ih]
        constructor
        · rintro (h | h | h)
          · exact Or.inr (Or.inl h)
          · exact Or.inl h
          · exact Or.inr (Or.inr h)
        · rintro (h | h | h)
          · exact Or.inr (Or.inl h)
          · exact Or.inl h
          · exact Or.inr (Or.inr h)

theorem mem_sortU (xs : List String) (s : String) : s ∈ sortU xs ↔ s ∈ xs := by
  induction xs with
  | nil => simp [sortU]
  | cons x xs ih =>
    have : sortU (x :: xs) = insertU x (sortU xs) := rfl
    rw [this, mem_insertU, ih, List.mem_cons]

theorem insertU_sorted (x : String) (l : List String) (hl : l.Pairwise (· < ·)) :
    (insertU x l).Pairwise (· < ·) := by
  induction l with
  | nil => simp [insertU]
  | cons y ys ih =>
    have hy : ∀ z ∈ ys, y < z := (List.pairwise_cons.mp hl).1
    have hys : ys.Pairwise (· < ·) := (List.pairwise_cons.mp hl).2
    unfold insertU
    by_cases h1 : x < y
    · simp only [h1, if_true]
      refine List.pairwise_cons.mpr ⟨?_, hl⟩
      intro z hz
      rcases List.mem_cons.mp hz with h | h
      · exact h ▸ h1
      · exact String.lt_trans h1 (hy z h)
    · by_cases h2 : x = y
      · subst h2
        simp only [h1, if_false, if_true]
        exact hl
      · simp only [h1, h2, if_false]
        refine List.pairwise_cons.mpr ⟨?_, ih hys⟩
        intro z hz
        rcases (mem_insertU x z ys).mp hz with h | h
        · subst h
          -- ¬ z < y and z ≠ y, so y < z
          have hle : y ≤ z := h1
          apply Decidable.byContradiction
          intro hn
          exact h2 (String.le_antisymm hn hle)
        · exact hy z h

theorem sortU_sorted (xs : List String) : (sortU xs).Pairwise (· < ·) := by
  induction xs with
  | nil => simp [sortU]
  | cons x xs ih => exact insertU_sorted x (sortU xs) ih

/-- two strictly sorted lists with the same members are equal -/
theorem sorted_ext : ∀ (l₁ l₂ : List String), l₁.Pairwise (· < ·) → l₂.Pairwise (· < ·) →
    (∀ s, s ∈ l₁ ↔ s ∈ l₂) → l₁ = l₂
  | [], [], _, _, _ => rfl
  | [], b :: _, _, _, h => absurd ((h b).mpr (List.mem_cons_self ..)) (List.not_mem_nil)
  | a :: _, [], _, _, h => absurd ((h a).mp (List.mem_cons_self ..)) (List.not_mem_nil)
  | a :: as, b :: bs, h₁, h₂, h => by
    have ha : ∀ z ∈ as, a < z := (List.pairwise_cons.mp h₁).1
    have has : as.Pairwise (· < ·) := (List.pairwise_cons.mp h₁).2
    have hb : ∀ z ∈ bs, b < z := (List.pairwise_cons.mp h₂).1
    have hbs : bs.Pairwise (· < ·) := (List.pairwise_cons.mp h₂).2
    have hab : a = b := by
      apply Decidable.byContradiction
      intro hne
      have h1 : b < a := by
        rcases List.mem_cons.mp ((h a).mp (List.mem_cons_self ..)) with e | m
        · exact absurd e hne
        · exact hb a m
      have h2 : a < b := by
        rcases List.mem_cons.mp ((h b).mpr (List.mem_cons_self ..)) with e | m
        · exact absurd e.symm hne
        · exact ha b m
      exact String.lt_asymm h1 h2
    subst hab
    have htl : ∀ s, s ∈ as ↔ s ∈ bs := by
      intro s
      constructor
      · intro m
        rcases List.mem_cons.mp ((h s).mp (List.mem_cons_of_mem _ m)) with e | m'
        · exact absurd (e ▸ ha s m) (String.lt_irrefl _)
        · exact m'
      · intro m
        rcases List.mem_cons.mp ((h s).mpr (List.mem_cons_of_mem _ m)) with e | m'
        · exact absurd (e ▸ hb s m) (String.lt_irrefl _)
        · exact m'
    rw [sorted_ext as bs has hbs htl]

/-- the output depends only on the SET of input strings: any two enumerations (any order, any
    multiplicity) of the same set give the identical list -/
theorem sortU_ext (xs ys : List String) (h : ∀ s, s ∈ xs ↔ s ∈ ys) : sortU xs = sortU ys :=
  sorted_ext _ _ (sortU_sorted xs) (sortU_sorted ys) (fun s => by
    rw [mem_sortU, mem_sortU]; exact h s)

theorem sortU_perm (xs ys : List String) (h : xs.Perm ys) : sortU xs = sortU ys :=
  sortU_ext xs ys (fun _ => h.mem_iff)

theorem sortU_example : sortU ["b", "a", "c", "a"] = ["a", "b", "c"] := by decide

end Typedpy.Stub
