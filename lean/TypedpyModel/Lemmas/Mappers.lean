/-
  Lemmas/Mappers.lean — helper lemmas for C07: last-wins lookup, field entries of the aggregate evolve
  pointwise, key lists of serialized objects, lookups in serialized objects, the per-field
  deserialization step.
-/
import TypedpyModel.Spec.Mappers
namespace Typedpy.Mappers

/-! ### last-wins lookup -/

theorem lookupR_cons {α β} [DecidableEq α] (k k' : α) (v : β) (r : List (α × β)) :
    lookupR k ((k', v) :: r) =
      match lookupR k r with
      | some x => some x
      | none => if k' = k then some v else none := rfl

theorem lookupR_append {α β} [DecidableEq α] (k : α) (a b : List (α × β)) :
    lookupR k (a ++ b) = match lookupR k b with | some x => some x | none => lookupR k a := by
  induction a with
  | nil => simp only [List.nil_append, lookupR]; cases lookupR k b <;> rfl
  | cons p a ih =>
    obtain ⟨k', v⟩ := p
    simp only [List.cons_append, lookupR_cons, ih]
    cases lookupR k b <;> rfl

/-- a key that does not occur is not found -/
theorem lookupR_none_of_not_mem {α β} [DecidableEq α] (k : α) :
    ∀ (l : List (α × β)), k ∉ l.map (·.1) → lookupR k l = none
  | [], _ => rfl
  | (k', v) :: r, h => by
    simp only [List.map_cons, List.mem_cons, not_or] at h
    rw [lookupR_cons, lookupR_none_of_not_mem k r h.2]
    simp only
    rw [if_neg (fun e => h.1 e.symm)]

theorem nodupB_cons (a : String) (r : List String) :
    nodupB (a :: r) = true ↔ a ∉ r ∧ nodupB r = true := by
  simp [nodupB]

/-- with pairwise distinct keys every binding is found -/
theorem lookupR_of_mem (k : String) {β} (v : β) :
    ∀ (l : List (String × β)), nodupB (l.map (·.1)) = true → (k, v) ∈ l → lookupR k l = some v
  | [], _, h => by cases h
  | (k', v') :: r, hn, h => by
    simp only [List.map_cons] at hn
    rw [nodupB_cons] at hn
    rw [lookupR_cons]
    rcases List.mem_cons.mp h with h | h
    · cases h
      rw [lookupR_none_of_not_mem k r hn.1]
      simp
    · rw [lookupR_of_mem k v r hn.2 h]

/-! ### field entries of the aggregate evolve pointwise, identically for both directions -/

theorem mvEq_key (s : String) (w : MV) :
    mvEq (.key s) w = (match w with | .key t => s == t | _ => false) := by
  cases w <;> simp only [mvEq]

theorem hit_fld_key (m : Mapper) (f s : String) : hit m (.fld f) (.key s) = mapsTo m f s := by
  unfold hit mapsTo
  cases m with
  | lower => rfl
  | camel => rfl
  | dict d =>
    simp only
    cases lookupR (MKey.fld f) d with
    | none => rfl
    | some w => simp only [mvEq_key]; cases w <;> rfl

theorem addVal_fld (S : StrFns) (b : Bool) (m : Mapper) (f : String) (v : MV) :
    addVal S b m (.fld f) v = stepKey S m f v := by
  cases v with
  | key s => simp only [addVal, stepKey, hit_fld_key]
  | dns => simp only [addVal, stepKey]
  | sub p => simp only [addVal, stepKey]; split <;> rfl

theorem addKey_eq_fld (S : StrFns) (b : Bool) (m : Mapper) (k : MKey) (v : MV) (f : String) :
    addKey S b m k v = .fld f ↔ k = .fld f := by
  unfold addKey
  cases k with
  | fld n => simp
  | nest n =>
    cases v with
    | key s => simp
    | dns => simp
    | sub p =>
      simp only
      split <;> simp

theorem lookupR_add_fld (S : StrFns) (b : Bool) (m : Mapper) (f : String) :
    ∀ d : MDict, lookupR (.fld f) (add S b m d) = (lookupR (.fld f) d).map (stepKey S m f)
  | [] => by simp [add, lookupR]
  | (k, v) :: r => by
    simp only [add, lookupR_cons, lookupR_add_fld S b m f r]
    cases lookupR (MKey.fld f) r with
    | some x => rfl
    | none =>
      simp only [Option.map_none]
      by_cases hk : k = .fld f
      · subst hk
        rw [if_pos ((addKey_eq_fld S b m _ v f).mpr rfl), if_pos rfl, addVal_fld]
        rfl
      · rw [if_neg (fun e => hk ((addKey_eq_fld S b m k v f).mp e)), if_neg hk]
        rfl

theorem lookupR_map_set (k k' : MKey) (v : MV) :
    ∀ acc : MDict, lookupR k (acc.map (fun p => if p.1 = k' then (k', v) else p)) =
      if k' = k then (if acc.any (fun p => decide (p.1 = k')) then some v else none) else lookupR k acc
  | [] => by simp [lookupR]
  | (a, w) :: r => by
    have ih := lookupR_map_set k k' v r
    simp only [List.map_cons, List.any_cons]
    by_cases h1 : a = k'
    · subst h1
      simp only [if_true, lookupR_cons, ih, decide_true, Bool.true_or]
      by_cases h2 : a = k
      · subst h2
        cases hany : r.any (fun p => decide (p.1 = a)) <;> simp
      · simp only [if_neg h2]
    · simp only [if_neg h1, lookupR_cons, ih, decide_eq_false h1, Bool.false_or]
      by_cases h2 : k' = k
      · subst h2
        cases hany : r.any (fun p => decide (p.1 = k')) <;> simp [h1]
      · simp only [if_neg h2]

theorem lookupR_dset (k k' : MKey) (v : MV) (acc : MDict) :
    lookupR k (dset acc k' v) = if k' = k then some v else lookupR k acc := by
  unfold dset
  by_cases h : acc.any (fun p => decide (p.1 = k')) = true
  · rw [if_pos h, lookupR_map_set, h]
    simp
  · rw [if_neg h, lookupR_append]
    simp only [lookupR]
    by_cases h2 : k' = k
    · simp [h2]
    · simp [h2]

theorem lookupR_foldl_dset (k : MKey) :
    ∀ (l acc : MDict), lookupR k (l.foldl (fun a p => dset a p.1 p.2) acc) =
      match lookupR k l with | some x => some x | none => lookupR k acc
  | [], acc => by simp [lookupR]
  | (k', v) :: r, acc => by
    simp only [List.foldl_cons, lookupR_foldl_dset k r, lookupR_dset, lookupR_cons]
    cases lookupR k r with
    | some x => rfl
    | none =>
      by_cases h2 : k' = k
      · simp [h2]
      · simp [h2]

/-- rebuilding the dict does not change what a lookup finds -/
theorem lookupR_norm (k : MKey) (l : MDict) : lookupR k (norm l) = lookupR k l := by
  unfold norm
  rw [lookupR_foldl_dset]
  cases lookupR k l <;> simp [lookupR]

theorem lookupR_foldAdd_fld (S : StrFns) (b : Bool) (f : String) :
    ∀ (L : List Mapper) (d : MDict), lookupR (.fld f) (foldAdd S b L d) =
      (lookupR (.fld f) d).map (fun v => L.foldl (fun cur m => stepKey S m f cur) v)
  | [], d => by simp [foldAdd]
  | m :: L, d => by
    have h := lookupR_foldAdd_fld S b f L (norm (add S b m d))
    simp only [foldAdd, List.foldl_cons] at h ⊢
    rw [h, lookupR_norm, lookupR_add_fld]
    cases lookupR (MKey.fld f) d <;> rfl

theorem lookupR_baseFld (S : StrFns) (b : Bool) (f : String) (fl : Fld) :
    lookupR (.fld f) (baseFld S b fl) = if fl.name = f then some (.key f) else none := by
  cases fl with
  | scalar n o =>
    simp only [baseFld, lookupR_cons, lookupR, Fld.name]
    by_cases h : n = f
    · subst h; simp
    · simp [h]
  | nested n o sh own fs =>
    simp only [baseFld, lookupR_cons, lookupR, Fld.name]
    by_cases h : n = f
    · subst h; simp
    · simp [h]
  | mapped n o ci fs =>
    simp only [baseFld, lookupR_cons, lookupR, Fld.name]
    by_cases h : n = f
    · subst h; simp
    · simp [h]

theorem lookupR_baseFields (S : StrFns) (b : Bool) (f : String) :
    ∀ fs : List Fld, lookupR (.fld f) (baseFields S b fs) =
      if fs.any (fun fl => fl.name == f) then some (.key f) else none
  | [] => by simp [baseFields, lookupR]
  | fl :: rest => by
    simp only [baseFields, lookupR_append, lookupR_baseFields S b f rest, lookupR_baseFld, List.any_cons]
    by_cases h1 : rest.any (fun fl => fl.name == f) = true
    · simp [h1]
    · by_cases h2 : fl.name = f
      · simp [h1, h2]
      · simp [h1, h2]

/-! ### serialized objects -/

theorem ser_isNull (S : StrFns) (camel : Bool) (m : MDict) (x : J) :
    (ser S camel m x).isNull = x.isNull := by
  cases x <;> simp [ser, J.isNull]

theorem serFields_keys (S : StrFns) (camel : Bool) (m : MDict) :
    ∀ kvs, (serFields S camel m kvs).map (·.1) = imageKeys S camel m kvs
  | [] => by simp [serFields, imageKeys]
  | (f, v) :: rest => by
    have ih := serFields_keys S camel m rest
    simp only [serFields, imageKeys]
    cases hv : v.isNull
    · cases hk : serKey S camel m f
      · simpa using ih
      · simpa using ih
    · simpa using ih

theorem mem_serFields (S : StrFns) (camel : Bool) (m : MDict) (f k : String) (v : J)
    (hv : v.isNull = false) (hk : serKey S camel m f = some k) :
    ∀ kvs, (f, v) ∈ kvs → (k, ser S camel (subSer m f) v) ∈ serFields S camel m kvs
  | [], h => by cases h
  | (f', v') :: rest, h => by
    simp only [serFields]
    rcases List.mem_cons.mp h with h | h
    · cases h
      simp [hv, hk]
    · have ih := mem_serFields S camel m f k v hv hk rest h
      split
      · exact ih
      · split
        · exact ih
        · exact List.mem_cons_of_mem _ ih

theorem serKey_of_isKeyAt (S : StrFns) (camel : Bool) (m : MDict) (f : String) (h : isKeyAt m f = true) :
    serKey S camel m f = some (kOf m f) := by
  unfold isKeyAt at h
  unfold serKey kOf
  split at h <;> simp_all

theorem imageKeys_eq_popKeys (S : StrFns) (camel : Bool) (m : MDict) :
    ∀ kvs : List (String × J), (∀ p ∈ kvs, p.2.isNull = false → isKeyAt m p.1 = true) →
      imageKeys S camel m kvs = popKeys m kvs
  | [], _ => by simp [imageKeys, popKeys]
  | (f, v) :: rest, h => by
    have ih := imageKeys_eq_popKeys S camel m rest (fun p hp => h p (List.mem_cons_of_mem _ hp))
    simp only [imageKeys, popKeys, List.filter_cons] at ih ⊢
    cases hv : v.isNull
    · have hf := serKey_of_isKeyAt S camel m f (h (f, v) (List.mem_cons_self ..) hv)
      simp [hf, ih]
    · simp [ih]

/-- `deep_get` with an undotted key is a plain lookup -/
theorem deepGet_single (kvs : List (String × J)) (s : String) :
    deepGet (.obj kvs) [s] = (lookupR s kvs).getD .null := by
  simp only [deepGet, List.foldl_cons, List.foldl_nil, J.truthy]
  cases kvs with
  | nil => simp [lookupR]
  | cons p r => simp [nextLevel]

/-! ### the deserializer's view of one field of a serialized level -/

theorem all_mem {α} {P : α → Bool} {l : List α} (h : l.all P = true) {a : α} (ha : a ∈ l) : P a = true :=
  List.all_eq_true.mp h a ha

theorem and_true_iff' {a b : Bool} : (a && b) = true ↔ a = true ∧ b = true := by simp

theorem mem_of_lookupR {α β} [DecidableEq α] (k : α) (v : β) :
    ∀ l : List (α × β), lookupR k l = some v → (k, v) ∈ l
  | [], h => by cases h
  | (k', v') :: r, h => by
    rw [lookupR_cons] at h
    cases hr : lookupR k r with
    | some x =>
      rw [hr] at h
      cases h
      exact List.mem_cons_of_mem _ (mem_of_lookupR k v r hr)
    | none =>
      rw [hr] at h
      simp only at h
      by_cases hk : k' = k
      · rw [if_pos hk] at h; cases h; subst hk; exact List.mem_cons_self ..
      · rw [if_neg hk] at h; cases h

/-- another field resolved to the string key `f` makes the name `f` taken -/
theorem taken_of_other (M : MDict) (f g : String) (hg : g ≠ f)
    (h : lookupR (.fld g) M = some (.key f)) : taken M f = true := by
  unfold taken
  rw [List.any_eq_true]
  refine ⟨(.fld g, .key f), mem_of_lookupR _ _ M h, ?_⟩
  have : MKey.fld g ≠ MKey.fld f := fun e => hg (by cases e; rfl)
  simp [this]

theorem mem_popKeys {m : MDict} {kvs : List (String × J)} {k : String} (h : k ∈ popKeys m kvs) :
    ∃ g w, (g, w) ∈ kvs ∧ w.isNull = false ∧ kOf m g = k := by
  unfold popKeys at h
  rcases List.mem_map.mp h with ⟨⟨g, w⟩, hm, hk⟩
  rcases List.mem_filter.mp hm with ⟨hm1, hm2⟩
  exact ⟨g, w, hm1, by simpa using hm2, hk⟩

theorem lookup_of_isKeyAt {m : MDict} {f : String} (h : isKeyAt m f = true) :
    lookupR (.fld f) m = some (.key (kOf m f)) := by
  unfold isKeyAt at h
  unfold kOf
  split at h
  · rename_i s hs; rw [hs]
  · cases h

/-- the sync hypothesis for one field, unpacked -/
theorem sync_cases {ms M : MDict} {kvs : List (String × J)} (hsync : syncOK ms M kvs = true)
    {f : String} {v : J} (hm : (f, v) ∈ kvs) :
    (isKeyAt ms f = true ∧ lookupR (.fld f) M = some (.key (kOf ms f)))
    ∨ (isDnsAt ms f = true ∧ lookupR (.fld f) M = some .dns ∧ v.isNull = true) := by
  have hs := all_mem hsync hm
  simp only [Bool.or_eq_true, and_true_iff'] at hs
  rcases hs with ⟨⟨h1, h2⟩, h3⟩ | ⟨⟨h1, h2⟩, h3⟩
  · left
    refine ⟨h1, ?_⟩
    have e : kOf M f = kOf ms f := by simpa using h3
    rw [lookup_of_isKeyAt h2, e]
  · right
    refine ⟨h1, ?_, h3⟩
    unfold isDnsAt at h2
    split at h2
    · assumption
    · cases h2

/-- under the level hypotheses, a name that occurs as a key of the serialized level but belongs to a
    field other than the one that wrote it is *taken* for the deserializer (this is what makes the
    `NoFallbackCapture` hypothesis unnecessary after /repo f476845) -/
theorem taken_of_mem_popKeys {ms M : MDict} {kvs : List (String × J)}
    (hsync : syncOK ms M kvs = true) {f : String}
    (hne : ∀ g w, (g, w) ∈ kvs → w.isNull = false → kOf ms g = f → g ≠ f)
    (h : f ∈ popKeys ms kvs) : taken M f = true := by
  obtain ⟨g, w, hm, hw, hk⟩ := mem_popKeys h
  rcases sync_cases hsync hm with ⟨_, hM⟩ | ⟨_, _, hnull⟩
  · rw [hk] at hM
    exact taken_of_other M f g (hne g w hm hw hk) hM
  · rw [hw] at hnull; cases hnull

/-- what `get_processed_input` finds for field `f` in the serialization of the level: the field's
    serialized value when populated, nothing when absent — whatever `use_strict_mapping` is -/
theorem procInput_ser (S : StrFns) (camel : Bool) (ms M : MDict) (strict : Bool)
    (kvs : List (String × J)) (hl : levelOK S ms M strict kvs = true) (f : String) (v : J)
    (hm : (f, v) ∈ kvs) :
    procInput S M strict (serFields S camel ms kvs) f =
      .ok (if v.isNull then .null else ser S camel (subSer ms f) v) := by
  simp only [levelOK, and_true_iff'] at hl
  obtain ⟨⟨⟨hsync, hdot⟩, hinj⟩, habs⟩ := hl
  have hpop : ∀ p ∈ kvs, p.2.isNull = false → isKeyAt ms p.1 = true := fun p hp hn => by
    rcases sync_cases hsync (f := p.1) (v := p.2) hp with ⟨h, _⟩ | ⟨_, _, h⟩
    · exact h
    · rw [hn] at h; cases h
  have hkeys : (serFields S camel ms kvs).map (·.1) = popKeys ms kvs := by
    rw [serFields_keys, imageKeys_eq_popKeys S camel ms kvs hpop]
  rcases sync_cases hsync hm with ⟨hks, hM⟩ | ⟨hdns, hM, hnull⟩
  · -- string key on both sides
    have hd := all_mem hdot hm
    simp only [hks, Bool.not_true, Bool.false_or] at hd
    have hsplit : S.split (kOf ms f) = [kOf ms f] := by simpa using hd
    unfold procInput
    rw [hM]
    simp only [hsplit, deepGet_single]
    cases hv : v.isNull
    · have hmem := mem_serFields S camel ms f (kOf ms f) v hv (serKey_of_isKeyAt S camel ms f hks) kvs hm
      have hnd : nodupB ((serFields S camel ms kvs).map (·.1)) = true := by
        rw [hkeys]; exact hinj
      rw [lookupR_of_mem _ _ _ hnd hmem]
      simp [ser_isNull, hv]
    · have ha := all_mem habs hm
      simp only [hv, hks, Bool.not_true, Bool.false_or, Bool.not_eq_true'] at ha
      have hnotc : (popKeys ms kvs).contains (kOf ms f) = false := ha
      have hnot : kOf ms f ∉ (serFields S camel ms kvs).map (·.1) := by
        rw [hkeys]; intro hc
        have : (popKeys ms kvs).contains (kOf ms f) = true := by simpa using hc
        rw [this] at hnotc; cases hnotc
      rw [lookupR_none_of_not_mem _ _ hnot]
      by_cases hf : f ∈ popKeys ms kvs
      · have ht : taken M f = true := by
          refine taken_of_mem_popKeys hsync ?_ hf
          intro g w hgm hw hk hgf
          subst hgf
          have : (popKeys ms kvs).contains (kOf ms g) = true := by rw [hk]; simpa using hf
          rw [this] at hnotc; cases hnotc
        simp [ht, J.isNull]
      · have hnot2 : f ∉ (serFields S camel ms kvs).map (·.1) := by rw [hkeys]; exact hf
        rw [lookupR_none_of_not_mem _ _ hnot2]
        simp [J.isNull]
  · -- `DoNotSerialize` on both sides, field absent
    unfold procInput
    rw [hM]
    simp only [hnull, if_true]
    by_cases hf : f ∈ popKeys ms kvs
    · have ht : taken M f = true := by
        refine taken_of_mem_popKeys hsync ?_ hf
        intro g w hgm hw hk hgf
        subst hgf
        rcases sync_cases hsync hgm with ⟨_, hM'⟩ | ⟨_, _, hn⟩
        · rw [hM] at hM'; cases hM'
        · rw [hw] at hn; cases hn
      simp [ht]
    · have hnot2 : f ∉ (serFields S camel ms kvs).map (·.1) := by rw [hkeys]; exact hf
      rw [lookupR_none_of_not_mem _ _ hnot2]
      simp

end Typedpy.Mappers
