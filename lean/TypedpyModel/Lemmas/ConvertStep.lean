/-
  Lemmas/ConvertStep.lean — the documented single-step contract (`Spec/ConvertSpec.lean`, `stepViolations`) holds of
  the model of `_convert` for ALL mappings (any nesting, any user functions) and ALL documents: every clause —
  deleted, constant, move, function, nested `._mapper` (sub-document and list of sub-documents), frame — including
  the precedence rules when several entries touch one key.  Used by Props/C17.lean.
-/
import TypedpyModel.Lemmas.Convert
namespace Typedpy.Convert

/-! ### reflexivity of the comparisons the contract uses -/

mutual
theorem Json.beq_refl : ∀ a : Json, a.beq a = true
  | .null => rfl
  | .bool b => by simp [Json.beq]
  | .int i => by simp [Json.beq]
  | .str s => by simp [Json.beq]
  | .float n d => by simp [Json.beq]
  | .list xs => by simp only [Json.beq]; exact Json.beqList_refl xs
  | .obj kvs => by simp only [Json.beq]; exact Json.beqObj_refl kvs
theorem Json.beqList_refl : ∀ xs : List Json, Json.beqList xs xs = true
  | [] => rfl
  | x :: xs => by simp [Json.beqList, Json.beq_refl x, Json.beqList_refl xs]
theorem Json.beqObj_refl : ∀ xs : List (String × Json), Json.beqObj xs xs = true
  | [] => rfl
  | (k, x) :: xs => by simp [Json.beqObj, Json.beq_refl x, Json.beqObj_refl xs]
end

theorem pyEq_refl (a : Json) : pyEq a a = true := Json.beq_refl _

theorem optBeq_refl (x : Option Json) : optBeq x x = true := by
  cases x <;> simp [optBeq, pyEq_refl]

/-! ### kinds of entries -/

def Entry.isW1 : Entry → Bool | .const _ => true | .sub _ => true | .fn _ _ => true | _ => false
def Entry.isMove : Entry → Bool | .move _ => true | _ => false
def Entry.isDel : Entry → Bool | .deleted => true | _ => false

theorem c17_isSub_toPost (e : Entry) : e.toPost.isSub = e.isSub := by cases e <;> simp [Entry.toPost, PEntry.isSub, Entry.isSub]
theorem c17_isDeleted_toPost (e : Entry) : e.toPost.isDeleted = e.isDel := by
  cases e <;> simp [Entry.toPost, PEntry.isDeleted, Entry.isDel]
theorem c17_isMove_toPost (e : Entry) : e.toPost.isMove = e.isMove := by
  cases e <;> simp [Entry.toPost, PEntry.isMove, Entry.isMove]
theorem c17_isWriter1_toPost (e : Entry) : e.toPost.isWriter1 = e.isW1 := by
  cases e <;> simp [Entry.toPost, PEntry.isWriter1, Entry.isW1]

/-! ### append / cons facts for the compiled and the contract view of a mapping -/

theorem compileMap_append : ∀ a b : Mapping, compileMap (a ++ b) = compileMap a ++ compileMap b
  | [], b => by simp [compileMap]
  | (k, e) :: a, b => by simp [compileMap, compileMap_append a b]

theorem postMap_append : ∀ a b : Mapping, postMap (a ++ b) = postMap a ++ postMap b
  | [], b => by simp [postMap]
  | (k, e) :: a, b => by simp [postMap, postMap_append a b]

theorem keyed_cons (q k : String) (e : PEntry) (r : List (String × PEntry)) :
    keyed q ((k, e) :: r) = if k == q then e :: keyed q r else keyed q r := by
  simp only [keyed, List.filter_cons]
  split <;> simp

theorem keyed_append (q : String) (a b : List (String × PEntry)) : keyed q (a ++ b) = keyed q a ++ keyed q b := by
  simp [keyed, List.filter_append]

theorem mem_keyed_postMap {q : String} {e : Entry} : ∀ m : Mapping, (q, e) ∈ m → e.toPost ∈ keyed q (postMap m)
  | [], h => by cases h
  | (k, e') :: r, h => by
    simp only [postMap, keyed_cons]
    rcases List.mem_cons.mp h with h | h
    · cases h; simp
    · have := mem_keyed_postMap r h
      split
      · exact List.mem_cons_of_mem _ this
      · exact this

theorem keyed_nil_no_key {q : String} {m : Mapping} (h : keyed q (postMap m) = []) (e : Entry) : (q, e) ∉ m := by
  intro hm
  have := mem_keyed_postMap m hm
  rw [h] at this
  cases this

/-- a key with exactly one entry: nothing keyed alike before or after that entry -/
theorem c17_keyed_len1_split {k : String} {e : Entry} {mp mr : Mapping}
    (h : (keyed k (postMap (mp ++ (k, e) :: mr))).length = 1) :
    (∀ e', (k, e') ∉ mp) ∧ (∀ e', (k, e') ∉ mr) := by
  rw [postMap_append, keyed_append] at h
  simp only [postMap, keyed_cons, beq_self_eq_true, if_true, List.length_append, List.length_cons] at h
  have h1 : (keyed k (postMap mp)).length = 0 := by omega
  have h2 : (keyed k (postMap mr)).length = 0 := by omega
  exact ⟨keyed_nil_no_key (List.length_eq_zero_iff.mp h1), keyed_nil_no_key (List.length_eq_zero_iff.mp h2)⟩

/-- `keysOk`: at the position of a non-`sub` entry, every other entry with the same key is a `sub` entry (and vice
    versa) -/
theorem c17_keysOk_split {k : String} {e : Entry} {mp mr : Mapping} (h : keysOk (mp ++ (k, e) :: mr) = true) :
    (∀ e', (k, e') ∈ mp → e'.isSub ≠ e.isSub) ∧ (∀ e', (k, e') ∈ mr → e'.isSub ≠ e.isSub) := by
  simp only [keysOk, List.all_eq_true] at h
  have h1 := h (k, e) (by simp)
  simp only [List.filter_append, List.filter_cons, beq_self_eq_true, Bool.and_self, if_true, List.length_append,
    List.length_cons, beq_iff_eq] at h1
  have ha : (mp.filter fun p' => p'.1 == k && p'.2.isSub == e.isSub).length = 0 := by omega
  have hb : (mr.filter fun p' => p'.1 == k && p'.2.isSub == e.isSub).length = 0 := by omega
  have ha' := List.filter_eq_nil_iff.mp (List.length_eq_zero_iff.mp ha)
  have hb' := List.filter_eq_nil_iff.mp (List.length_eq_zero_iff.mp hb)
  constructor
  · intro e' he' heq
    have := ha' (k, e') he'
    simp [heq] at this
  · intro e' he' heq
    have := hb' (k, e') he'
    simp [heq] at this

/-! ### which loop writes which key -/

theorem c17_loop1_frameW {q : String} : ∀ (m : Mapping) (inp out out' : Obj),
    (∀ e, (q, e) ∈ m → e.isW1 = false) → loop1 (compileMap m) inp out = .ok out' → get q out' = get q out
  | [], _, out, out', _, h => by simp only [compileMap, loop1] at h; cases h; rfl
  | (k, e) :: r, inp, out, out', hw, h => by
    simp only [compileMap, loop1] at h
    rcases bindE_eq_ok h with ⟨o1, h1, h2⟩
    rw [c17_loop1_frameW r inp o1 out' (fun e he => hw e (List.mem_cons_of_mem _ he)) h2]
    by_cases hk : k = q
    · subst hk
      have := hw e List.mem_cons_self
      cases e <;> simp [Entry.isW1] at this <;> (simp only [Entry.compile, step1] at h1; cases h1; rfl)
    · exact step1_frame _ inp out o1 hk h1

theorem c17_loop2_frameM {q : String} : ∀ (m : Mapping) (out : Obj),
    (∀ e, (q, e) ∈ m → e.isMove = false) → get q (loop2 (compileMap m) out) = get q out
  | [], out, _ => by simp [compileMap, loop2]
  | (k, e) :: r, out, hw => by
    have hr := fun o => c17_loop2_frameM r o (fun e he => hw e (List.mem_cons_of_mem _ he))
    cases e with
    | move p =>
      have hk : k ≠ q := by
        intro hk; subst hk
        have := hw _ List.mem_cons_self
        simp [Entry.isMove] at this
      simp only [compileMap, Entry.compile, loop2]; rw [hr, get_set_other _ hk]
    | const v => simp only [compileMap, Entry.compile, loop2]; exact hr out
    | deleted => simp only [compileMap, Entry.compile, loop2]; exact hr out
    | sub f => simp only [compileMap, Entry.compile, loop2]; exact hr out
    | fn g a => simp only [compileMap, Entry.compile, loop2]; exact hr out

theorem c17_loop3_frameD {q : String} : ∀ (m : Mapping) (out : Obj),
    (∀ e, (q, e) ∈ m → e.isDel = false) → get q (loop3 (compileMap m) out) = get q out
  | [], out, _ => by simp [compileMap, loop3]
  | (k, e) :: r, out, hw => by
    have hr := fun o => c17_loop3_frameD r o (fun e he => hw e (List.mem_cons_of_mem _ he))
    cases e with
    | deleted =>
      have hk : k ≠ q := by
        intro hk; subst hk
        have := hw _ List.mem_cons_self
        simp [Entry.isDel] at this
      simp only [compileMap, Entry.compile, loop3]; rw [hr, get_erase_other hk]
    | const v => simp only [compileMap, Entry.compile, loop3]; exact hr out
    | move p => simp only [compileMap, Entry.compile, loop3]; exact hr out
    | sub f => simp only [compileMap, Entry.compile, loop3]; exact hr out
    | fn g a => simp only [compileMap, Entry.compile, loop3]; exact hr out

theorem loop1_append : ∀ (a b : CMapping) (inp out : Obj),
    loop1 (a ++ b) inp out = bindE (loop1 a inp out) fun o => loop1 b inp o
  | [], b, inp, out => by simp [loop1]
  | (k, e) :: a, b, inp, out => by
    simp only [List.cons_append, loop1]
    cases step1 k e inp out with
    | error x => simp
    | ok o => simp only [bindE_ok]; exact loop1_append a b inp o

theorem loop2_append : ∀ (a b : CMapping) (out : Obj), loop2 (a ++ b) out = loop2 b (loop2 a out)
  | [], b, out => by simp [loop2]
  | (k, e) :: a, b, out => by
    cases e <;> simp only [List.cons_append, loop2] <;> exact loop2_append a b _

/-- loop 1 around the entry at a given position whose key no later entry writes in loop 1 -/
theorem c17_loop1_at {k : String} {e : Entry} (mp mr : Mapping) (b out o1 : Obj)
    (hu2 : ∀ e', (k, e') ∈ mr → e'.isW1 = false)
    (h1 : loop1 (compileMap (mp ++ (k, e) :: mr)) b out = .ok o1) :
    ∃ op o2, loop1 (compileMap mp) b out = .ok op ∧ step1 k e.compile b op = .ok o2 ∧ get k o1 = get k o2 := by
  rw [compileMap_append, loop1_append] at h1
  rcases bindE_eq_ok h1 with ⟨op, hp, h2⟩
  simp only [compileMap, loop1] at h2
  rcases bindE_eq_ok h2 with ⟨o2, hs, h3⟩
  exact ⟨op, o2, hp, hs, c17_loop1_frameW mr b o2 o1 hu2 h3⟩

/-! ### `deep_get` looks at the document only through the first key of the path -/

theorem deepGet_cons_obj (o : Obj) (h : String) (t : List String) :
    deepGet (.obj o) (h :: t) = t.foldl (fun acc k => if truthy acc then getNext k acc else .null) (getD h o) := by
  simp only [deepGet, List.foldl_cons, getNext]
  cases o with
  | nil => simp [truthy, getD, get]
  | cons p r => simp [truthy]

theorem deepGet_congr {o o' : Obj} {h : String} (t : List String) (hg : get h o = get h o') :
    deepGet (.obj o) (h :: t) = deepGet (.obj o') (h :: t) := by
  rw [deepGet_cons_obj, deepGet_cons_obj]
  simp only [getD, hg]

/-! ### the clauses -/

theorem c17_convert_unfold {m : Mapping} {b : Obj} {r : Json} (h : convert m (.obj b) = .ok r) :
    ∃ o1, loop1 (compileMap m) b b = .ok o1 ∧ r = .obj (loop3 (compileMap m) (loop2 (compileMap m) o1)) := by
  simp only [convert, convShape] at h
  rcases bindE_eq_ok h with ⟨o1, h1, h2⟩
  cases h2
  exact ⟨o1, h1, rfl⟩

theorem c17_after_eq {m : Mapping} {k : String} (o1 : Obj) (hm : ∀ e, (k, e) ∈ m → e.isMove = false)
    (hd : ∀ e, (k, e) ∈ m → e.isDel = false) :
    get k (loop3 (compileMap m) (loop2 (compileMap m) o1)) = get k o1 := by
  rw [c17_loop3_frameD m _ hd, c17_loop2_frameM m _ hm]

theorem c17_mem_split {k : String} {e e' : Entry} {mp mr : Mapping} (h : (k, e') ∈ mp ++ (k, e) :: mr) :
    (k, e') ∈ mp ∨ e' = e ∨ (k, e') ∈ mr := by
  rcases List.mem_append.mp h with h | h
  · exact Or.inl h
  · rcases List.mem_cons.mp h with h | h
    · cases h; exact Or.inr (Or.inl rfl)
    · exact Or.inr (Or.inr h)

/-- loop 1 over a prefix whose only loop-1 writer of `x` is one `Constant(v)`: `x` holds `v` afterwards -/
theorem c17_loop1_const1 {x : String} {v : Json} : ∀ (mp : Mapping) (b out op : Obj),
    loop1 (compileMap mp) b out = .ok op →
    (keyed x (postMap mp)).filter PEntry.isWriter1 = [PEntry.const v] → get x op = some v
  | [], _, _, _, _, hf => by simp [postMap, keyed] at hf
  | (k', e') :: r, b, out, op, h, hf => by
    simp only [compileMap, loop1] at h
    rcases bindE_eq_ok h with ⟨o1, h1, h2⟩
    simp only [postMap, keyed_cons] at hf
    by_cases hk : k' = x
    · subst hk
      simp only [beq_self_eq_true, if_true, List.filter_cons, c17_isWriter1_toPost] at hf
      cases hw : e'.isW1 with
      | true =>
        simp only [hw, if_true, List.cons.injEq] at hf
        have hnil := hf.2
        have hr : ∀ e, (k', e) ∈ r → e.isW1 = false := by
          intro e he
          have hmem := mem_keyed_postMap r he
          have := (List.filter_eq_nil_iff.mp hnil) _ hmem
          rw [c17_isWriter1_toPost] at this
          simpa using this
        rw [c17_loop1_frameW r b o1 op hr h2]
        cases e' with
        | const v' =>
          simp only [Entry.toPost, PEntry.const.injEq] at hf
          simp only [Entry.compile, step1] at h1
          cases h1
          rw [get_set_same, hf.1]
        | sub m' => simp [Entry.toPost] at hf
        | fn g a => simp [Entry.toPost] at hf
        | move p => simp [Entry.isW1] at hw
        | deleted => simp [Entry.isW1] at hw
      | false =>
        simp only [hw, Bool.false_eq_true, if_false] at hf
        have : o1 = out := by
          cases e' <;> simp [Entry.isW1] at hw <;> (simp only [Entry.compile, step1] at h1; cases h1; rfl)
        subst this
        exact c17_loop1_const1 r b o1 op h2 hf
    · have hb : (k' == x) = false := by simpa using hk
      simp only [hb, Bool.false_eq_true, if_false] at hf
      exact c17_loop1_const1 r b o1 op h2 hf

/-- the value the contract assumes for an argument key is the value loop 1 has there when the entry runs -/
theorem c17_argVal {k x : String} {e : Entry} {mp mr : Mapping} {b op o1 a' : Obj} {v : Json}
    (hu : ∀ e', (k, e') ∉ mp) (hp : loop1 (compileMap mp) b b = .ok op)
    (h1 : loop1 (compileMap (mp ++ (k, e) :: mr)) b b = .ok o1)
    (hax : ∀ q, q ≠ "version" → get q a' = get q (loop3 (compileMap (mp ++ (k, e) :: mr))
      (loop2 (compileMap (mp ++ (k, e) :: mr)) o1)))
    (h : argValOf k (postMap (mp ++ (k, e) :: mr)) (postMap mp) b a' x = some v) : getD x op = v := by
  unfold argValOf at h
  split at h
  · rename_i hxk
    have hxk : x = k := by simpa using hxk
    subst hxk
    cases h
    simp only [getD]
    rw [c17_loop1_frameW mp b b op (fun e he => absurd he (hu e)) hp]
  · rename_i hxk
    have hxk : x ≠ k := by simpa using hxk
    split at h
    · rename_i hnil
      cases h
      have hr : ∀ e, (x, e) ∈ mp → e.isW1 = false := by
        intro e he
        have hmem := mem_keyed_postMap mp he
        have := (List.filter_eq_nil_iff.mp hnil) _ hmem
        rw [c17_isWriter1_toPost] at this
        simpa using this
      simp only [getD]
      rw [c17_loop1_frameW mp b b op hr hp]
    · rename_i v' hone
      cases h
      simp only [getD]
      rw [c17_loop1_const1 mp b b op hp hone]
      rfl
    · split at h
      · rename_i hcond
        cases h
        simp only [Bool.and_eq_true, bne_iff_ne, ne_eq, beq_iff_eq] at hcond
        obtain ⟨⟨hxv, hlen⟩, hallw⟩ := hcond
        -- nothing keyed `x` is a move / Deleted
        have w1Not : ∀ e' : Entry, e'.isW1 = true → e'.isMove = false ∧ e'.isDel = false := by
          intro e' he'; cases e' <;> simp [Entry.isW1] at he' <;> simp [Entry.isMove, Entry.isDel]
        have hnm : ∀ e', (x, e') ∈ mp ++ (k, e) :: mr → e'.isMove = false ∧ e'.isDel = false := by
          intro e' he'
          have := (List.all_eq_true.mp hallw) _ (mem_keyed_postMap _ he')
          rw [c17_isWriter1_toPost] at this
          exact w1Not e' this
        -- no loop-1 writer of `x` after this entry
        have hnk : (k == x) = false := by simpa using (Ne.symm hxk)
        rw [postMap_append, keyed_append, List.filter_append, List.length_append] at hlen
        simp only [postMap, keyed_cons, hnk, Bool.false_eq_true, if_false] at hlen
        have hz : ((keyed x (postMap mr)).filter PEntry.isWriter1).length = 0 := by omega
        have hr : ∀ e', (x, e') ∈ mr → e'.isW1 = false := by
          intro e' he'
          have hmem := mem_keyed_postMap mr he'
          have := (List.filter_eq_nil_iff.mp (List.length_eq_zero_iff.mp hz)) _ hmem
          rw [c17_isWriter1_toPost] at this
          simpa using this
        rw [compileMap_append, loop1_append, hp, bindE_ok] at h1
        simp only [compileMap, loop1] at h1
        rcases bindE_eq_ok h1 with ⟨o2, hs, h3⟩
        simp only [getD]
        rw [hax x hxv, c17_after_eq o1 (fun e' he' => (hnm e' he').1) (fun e' he' => (hnm e' he').2),
          c17_loop1_frameW mr b o2 o1 hr h3, step1_frame _ b op o2 (Ne.symm hxk) hs]
      · cases h

theorem c17_optMapM {α β} {f : α → Option β} {g : α → β} (hfg : ∀ x v, f x = some v → g x = v) :
    ∀ (l : List α) (vs : List β), optMapM f l = some vs → vs = l.map g
  | [], vs, h => by simp only [optMapM] at h; cases h; rfl
  | a :: as, vs, h => by
    simp only [optMapM] at h
    cases hfa : f a with
    | none => simp [hfa] at h
    | some b =>
      simp only [hfa] at h
      cases hr : optMapM f as with
      | none => simp [hr] at h
      | some bs =>
        simp only [hr] at h
        cases h
        simp only [List.map_cons, hfg a b hfa, c17_optMapM hfg as bs hr]

theorem c17_zipPosts_nil {f : Json → R Json} {post : Json → Json → List String}
    (hf : ∀ x y, f x = .ok y → post x y = []) : ∀ xs ys, mapE f xs = .ok ys → zipPosts post xs ys = []
  | [], ys, h => by simp only [mapE] at h; cases h; rfl
  | x :: xs, ys, h => by
    simp only [mapE] at h
    rcases bindE_eq_ok h with ⟨y, hy, h2⟩
    rcases bindE_eq_ok h2 with ⟨ys', hys, h3⟩
    cases h3
    simp only [zipPosts, c17_zipPosts_nil hf xs ys' hys, List.append_nil]
    cases x <;> simp [hf _ _ hy]

/-- nested contracts hold for every `sub` entry of the mapping -/
def SubOk (m : Mapping) : Prop :=
  ∀ k m', (k, Entry.sub m') ∈ m → ∀ x y, convert m' x = .ok y → postShape false (postMap m') x y = []

theorem mem_keyed_postMap_inv {q : String} {pe : PEntry} : ∀ m : Mapping, pe ∈ keyed q (postMap m) →
    ∃ e, (q, e) ∈ m ∧ pe = e.toPost
  | [], h => by simp [postMap, keyed] at h
  | (k, e') :: r, h => by
    simp only [postMap, keyed_cons] at h
    by_cases hk : k = q
    · subst hk
      simp only [beq_self_eq_true, if_true] at h
      rcases List.mem_cons.mp h with h | h
      · exact ⟨e', List.mem_cons_self, h⟩
      · rcases mem_keyed_postMap_inv r h with ⟨e, he, hpe⟩
        exact ⟨e, List.mem_cons_of_mem _ he, hpe⟩
    · have hb : (k == q) = false := by simpa using hk
      simp only [hb, Bool.false_eq_true, if_false] at h
      rcases mem_keyed_postMap_inv r h with ⟨e, he, hpe⟩
      exact ⟨e, List.mem_cons_of_mem _ he, hpe⟩

/-- the entry is the last one for its key -/
theorem c17_keyed_last_split {k : String} {e : Entry} {mp mr : Mapping}
    (h : (keyed k (postMap (mp ++ (k, e) :: mr))).length = (keyed k (postMap mp)).length + 1) :
    ∀ e', (k, e') ∉ mr := by
  rw [postMap_append, keyed_append] at h
  simp only [postMap, keyed_cons, beq_self_eq_true, if_true, List.length_append, List.length_cons] at h
  have h2 : (keyed k (postMap mr)).length = 0 := by omega
  exact keyed_nil_no_key (List.length_eq_zero_iff.mp h2)

/-- loop 1 over entries whose only entries for `k` are `._mapper` entries, on an input where `k` is absent / None:
    `k` is left alone -/
theorem c17_loop1_frame_sub {k : String} : ∀ (mr : Mapping) (b out out' : Obj),
    (∀ e', (k, e') ∈ mr → e'.isSub = true) → (get k b = none ∨ get k b = some .null) →
    loop1 (compileMap mr) b out = .ok out' → get k out' = get k out
  | [], _, out, out', _, _, h => by simp only [compileMap, loop1] at h; cases h; rfl
  | (k', e') :: r, b, out, out', hs, hc, h => by
    simp only [compileMap, loop1] at h
    rcases bindE_eq_ok h with ⟨o1, h1, h2⟩
    rw [c17_loop1_frame_sub r b o1 out' (fun e he => hs e (List.mem_cons_of_mem _ he)) hc h2]
    by_cases hk : k' = k
    · subst hk
      have hsub := hs e' List.mem_cons_self
      cases e' with
      | sub m' =>
        simp only [Entry.compile, step1] at h1
        rcases hc with hc | hc
        · simp only [hc] at h1; cases h1; rfl
        · simp only [hc] at h1; cases h1; rfl
      | const v => simp [Entry.isSub] at hsub
      | deleted => simp [Entry.isSub] at hsub
      | move p => simp [Entry.isSub] at hsub
      | fn g a => simp [Entry.isSub] at hsub
    · exact step1_frame _ b out o1 hk h1

/-- loop 1 around the entry at a given position, given that the later entries leave its key alone in loop 1 -/
theorem c17_loop1_at_gen {k : String} {e : Entry} (mp mr : Mapping) (b out o1 : Obj)
    (hfr : ∀ o2 o1', loop1 (compileMap mr) b o2 = .ok o1' → get k o1' = get k o2)
    (h1 : loop1 (compileMap (mp ++ (k, e) :: mr)) b out = .ok o1) :
    ∃ op o2, loop1 (compileMap mp) b out = .ok op ∧ step1 k e.compile b op = .ok o2 ∧ get k o1 = get k o2 := by
  rw [compileMap_append, loop1_append] at h1
  rcases bindE_eq_ok h1 with ⟨op, hp, h2⟩
  simp only [compileMap, loop1] at h2
  rcases bindE_eq_ok h2 with ⟨o2, hs, h3⟩
  exact ⟨op, o2, hp, hs, hfr o2 o1 h3⟩

/-- the nested clause for the `._mapper` entry at a position after which nothing else is keyed alike, on a key that
    nothing moves onto or deletes -/
theorem c17_sub_clause (mp mr : Mapping) (k : String) (msub : Mapping) (b o1 a' : Obj) (alone : Bool)
    (hsub : SubOk (mp ++ (k, Entry.sub msub) :: mr))
    (h1 : loop1 (compileMap (mp ++ (k, Entry.sub msub) :: mr)) b b = .ok o1)
    (ha : get k a' = get k (loop3 (compileMap (mp ++ (k, Entry.sub msub) :: mr))
      (loop2 (compileMap (mp ++ (k, Entry.sub msub) :: mr)) o1)))
    (hu2 : ∀ e', (k, e') ∉ mr)
    (hnm : ∀ e', (k, e') ∈ mp ++ (k, Entry.sub msub) :: mr → e'.isMove = false ∧ e'.isDel = false)
    (hal : alone = true → ∀ e', (k, e') ∉ mp) :
    subViolations (postShape false (postMap msub)) k b a' alone = [] := by
  have hnest := hsub k msub (by simp)
  rcases c17_loop1_at mp mr b b o1 (fun e' he' => absurd he' (hu2 e')) h1 with ⟨op, o2, hp, hs2, hg⟩
  have hka : get k a' = get k o2 := by
    rw [ha, c17_after_eq o1 (fun e' he' => (hnm e' he').1) (fun e' he' => (hnm e' he').2), hg]
  simp only [Entry.compile, step1] at hs2
  simp only [subViolations]
  cases hgb : get k b with
  | none =>
    simp only [hgb] at hs2
    cases hs2
    cases alone with
    | false => simp
    | true =>
      have hop : get k op = get k b := c17_loop1_frameW mp b b op (fun e' he' => absurd he' (hal rfl e')) hp
      simp [hka, hop, hgb]
  | some c =>
    cases c with
    | null =>
      simp only [hgb] at hs2
      cases hs2
      cases alone with
      | false => simp
      | true =>
        have hop : get k op = get k b := c17_loop1_frameW mp b b op (fun e' he' => absurd he' (hal rfl e')) hp
        simp [hka, hop, hgb, optBeq_refl]
    | list xs =>
      simp only [hgb] at hs2
      rcases bindE_eq_ok hs2 with ⟨ys, hys, hs3⟩
      cases hs3
      have hz := c17_zipPosts_nil (f := convShape (compileMap msub)) (post := postShape false (postMap msub))
        (fun x y hxy => hnest x y hxy) xs ys hys
      simp [hka, get_set_same, hz]
    | obj kvs =>
      simp only [hgb] at hs2
      rcases bindE_eq_ok hs2 with ⟨y, hy, hs3⟩
      cases hs3
      have hz := hnest (.obj kvs) y hy
      simp [hka, get_set_same, hz]
    | bool x => simp
    | int x => simp
    | str x => simp
    | float x y => simp

/-- every clause, for the entry at any position of any mapping (with unique Python keys and nested contracts) -/
theorem c17_entry_ok (mp mr : Mapping) (k : String) (e : Entry) (hwf : keysOk (mp ++ (k, e) :: mr) = true)
    (hsub : SubOk (mp ++ (k, e) :: mr)) (b o1 a' : Obj)
    (h1 : loop1 (compileMap (mp ++ (k, e) :: mr)) b b = .ok o1)
    (ha : get k a' = get k (loop3 (compileMap (mp ++ (k, e) :: mr)) (loop2 (compileMap (mp ++ (k, e) :: mr)) o1)))
    (hax : ∀ q, q ≠ "version" → get q a' = get q (loop3 (compileMap (mp ++ (k, e) :: mr))
      (loop2 (compileMap (mp ++ (k, e) :: mr)) o1))) :
    entryViolations (postMap (mp ++ (k, e) :: mr)) (postMap mp) b a' k e.toPost = [] := by
  have hsplit := c17_keysOk_split hwf
  cases e with
  | deleted =>
    have : get k a' = none := by
      rw [ha]
      apply loop3_deleted
      left
      have := mem_compileMap (mp ++ (k, Entry.deleted) :: mr) (k := k) (e := .deleted) (by simp)
      simpa [Entry.compile] using this
    simp [Entry.toPost, entryViolations, this]
  | const v =>
    simp only [Entry.toPost, entryViolations]
    by_cases hgd : (!(keyed k (postMap (mp ++ (k, Entry.const v) :: mr))).any PEntry.isSub
        || (keyed k (postMap mp)).any PEntry.isSub || absentOrNull (get k b)) = true
    · simp only [hgd, if_true]
      -- the other entries keyed `k` are `._mapper` entries
      have hkp : ∀ e', (k, e') ∈ mp → e'.isSub = true := by
        intro e' he'
        have := hsplit.1 e' he'
        cases hsb : e'.isSub with
        | true => rfl
        | false => exact absurd (by rw [hsb]; rfl) this
      have hkr : ∀ e', (k, e') ∈ mr → e'.isSub = true := by
        intro e' he'
        have := hsplit.2 e' he'
        cases hsb : e'.isSub with
        | true => rfl
        | false => exact absurd (by rw [hsb]; rfl) this
      have subNot : ∀ e' : Entry, e'.isSub = true → e'.isMove = false ∧ e'.isDel = false := by
        intro e' he'; cases e' <;> simp [Entry.isSub] at he' <;> simp [Entry.isMove, Entry.isDel]
      have hnm : ∀ e', (k, e') ∈ mp ++ (k, Entry.const v) :: mr → e'.isMove = false ∧ e'.isDel = false := by
        intro e' he'
        rcases c17_mem_split he' with h | h | h
        · exact subNot e' (hkp e' h)
        · rw [h]; exact ⟨rfl, rfl⟩
        · exact subNot e' (hkr e' h)
      -- the later entries leave `k` alone in loop 1
      have hfr : ∀ o2 o1', loop1 (compileMap mr) b o2 = .ok o1' → get k o1' = get k o2 := by
        intro o2 o1' hl
        rcases Bool.or_eq_true_iff.mp hgd with hg' | hC
        · have hnone : ∀ e', (k, e') ∉ mr := by
            rcases Bool.or_eq_true_iff.mp hg' with hA | hB
            · -- no `._mapper` entry for `k` at all
              intro e' he'
              have hmem := mem_keyed_postMap (mp ++ (k, Entry.const v) :: mr)
                (List.mem_append_right _ (List.mem_cons_of_mem _ he'))
              have hA' : (keyed k (postMap (mp ++ (k, Entry.const v) :: mr))).any PEntry.isSub = false := by
                simpa using hA
              have := List.any_eq_false.mp hA' _ hmem
              rw [c17_isSub_toPost, hkr e' he'] at this
              exact this rfl
            · -- the `._mapper` entry is written before the Constant: there is no second one
              rcases List.any_eq_true.mp hB with ⟨pe, hpe, hps⟩
              rcases mem_keyed_postMap_inv mp hpe with ⟨es, hes, rfl⟩
              rw [c17_isSub_toPost] at hps
              rcases List.append_of_mem hes with ⟨a1, b1, hab⟩
              have hwf' : keysOk (a1 ++ (k, es) :: (b1 ++ (k, Entry.const v) :: mr)) = true := by
                rw [hab] at hwf
                simpa [List.append_assoc] using hwf
              have hsp := (c17_keysOk_split hwf').2
              intro e' he'
              have h1' := hsp e' (List.mem_append_right _ (List.mem_cons_of_mem _ he'))
              rw [hps, hkr e' he'] at h1'
              exact h1' rfl
          exact c17_loop1_frameW mr b o2 o1' (fun e' he' => absurd he' (hnone e')) hl
        · have hC' : get k b = none ∨ get k b = some .null := by
            cases hgb : get k b with
            | none => exact Or.inl rfl
            | some c =>
              cases c <;> simp [hgb, absentOrNull] at hC
              exact Or.inr rfl
          exact c17_loop1_frame_sub mr b o2 o1' hkr hC' hl
      rcases c17_loop1_at_gen mp mr b b o1 hfr h1 with ⟨op, o2, _, hs2, hg⟩
      simp only [Entry.compile, step1] at hs2
      cases hs2
      have : get k a' = some v := by
        rw [ha, c17_after_eq o1 (fun e' he' => (hnm e' he').1) (fun e' he' => (hnm e' he').2), hg, get_set_same]
      simp [this, optBeq_refl]
    · have : (!(keyed k (postMap (mp ++ (k, Entry.const v) :: mr))).any PEntry.isSub
        || (keyed k (postMap mp)).any PEntry.isSub || absentOrNull (get k b)) = false := by simpa using hgd
      simp only [this, Bool.false_eq_true, if_false]
  | fn g args =>
    simp only [Entry.toPost, entryViolations]
    by_cases hl : (keyed k (postMap (mp ++ (k, Entry.fn g args) :: mr))).length = 1
    · simp only [hl, beq_self_eq_true, if_true]
      have hu := c17_keyed_len1_split hl
      have hall : ∀ e', (k, e') ∈ mp ++ (k, Entry.fn g args) :: mr → e' = Entry.fn g args := by
        intro e' he'
        rcases c17_mem_split he' with h | h | h
        · exact absurd h (hu.1 e')
        · exact h
        · exact absurd h (hu.2 e')
      rcases c17_loop1_at mp mr b b o1 (fun e' he' => absurd he' (hu.2 e')) h1 with ⟨op, o2, hp, hs2, hg⟩
      simp only [Entry.compile, step1] at hs2
      rcases bindE_eq_ok hs2 with ⟨r, hr, hs3⟩
      cases hs3
      have hka : get k a' = some r := by
        rw [ha, c17_after_eq o1 (fun e' he' => by rw [hall e' he']; rfl) (fun e' he' => by rw [hall e' he']; rfl),
          hg, get_set_same]
      cases hm : optMapM (argValOf k (postMap (mp ++ (k, Entry.fn g args) :: mr)) (postMap mp) b a')
          (if args.isEmpty then [k] else args) with
      | none => rfl
      | some vals =>
        have hv := c17_optMapM (g := fun a => getD a op) (fun x v hx => c17_argVal hu.1 hp h1 hax hx) _ _ hm
        subst hv
        simp only [hr, hka, optBeq_refl, if_true]
    · have : ((keyed k (postMap (mp ++ (k, Entry.fn g args) :: mr))).length == 1) = false := by simpa using hl
      simp [this]
  | sub msub =>
    simp only [Entry.toPost, entryViolations]
    by_cases hl : (keyed k (postMap (mp ++ (k, Entry.sub msub) :: mr))).length = 1
    · simp only [hl, beq_self_eq_true, if_true]
      have hu := c17_keyed_len1_split hl
      have hall : ∀ e', (k, e') ∈ mp ++ (k, Entry.sub msub) :: mr → e' = Entry.sub msub := by
        intro e' he'
        rcases c17_mem_split he' with h | h | h
        · exact absurd h (hu.1 e')
        · exact h
        · exact absurd h (hu.2 e')
      exact c17_sub_clause mp mr k msub b o1 a' true hsub h1 ha hu.2
        (fun e' he' => by rw [hall e' he']; exact ⟨rfl, rfl⟩) (fun _ => hu.1)
    · have hl' : ((keyed k (postMap (mp ++ (k, Entry.sub msub) :: mr))).length == 1) = false := by simpa using hl
      simp only [hl', Bool.false_eq_true, if_false]
      by_cases hg2 : ((keyed k (postMap (mp ++ (k, Entry.sub msub) :: mr))).length == (keyed k (postMap mp)).length + 1
          && (keyed k (postMap (mp ++ (k, Entry.sub msub) :: mr))).all PEntry.isWriter1) = true
      · simp only [hg2, if_true]
        simp only [Bool.and_eq_true, beq_iff_eq] at hg2
        have hu2 := c17_keyed_last_split hg2.1
        have w1Not : ∀ e' : Entry, e'.isW1 = true → e'.isMove = false ∧ e'.isDel = false := by
          intro e' he'; cases e' <;> simp [Entry.isW1] at he' <;> simp [Entry.isMove, Entry.isDel]
        have hnm : ∀ e', (k, e') ∈ mp ++ (k, Entry.sub msub) :: mr → e'.isMove = false ∧ e'.isDel = false := by
          intro e' he'
          have := (List.all_eq_true.mp hg2.2) _ (mem_keyed_postMap _ he')
          rw [c17_isWriter1_toPost] at this
          exact w1Not e' this
        exact c17_sub_clause mp mr k msub b o1 a' false hsub h1 ha hu2 hnm (fun h => by cases h)
      · have : ((keyed k (postMap (mp ++ (k, Entry.sub msub) :: mr))).length == (keyed k (postMap mp)).length + 1
          && (keyed k (postMap (mp ++ (k, Entry.sub msub) :: mr))).all PEntry.isWriter1) = false := by simpa using hg2
        simp only [this, Bool.false_eq_true, if_false]
  | move p =>
    cases p with
    | nil => simp [Entry.toPost, entryViolations]
    | cons h t =>
      simp only [Entry.toPost, entryViolations]
      -- other entries keyed `k` are `sub` entries
      have hkp : ∀ e', (k, e') ∈ mp → e'.isSub = true := by
        intro e' he'
        have := hsplit.1 e' he'
        cases hsb : e'.isSub with
        | true => rfl
        | false => exact absurd (by rw [hsb]; rfl) this
      have hkr : ∀ e', (k, e') ∈ mr → e'.isSub = true := by
        intro e' he'
        have := hsplit.2 e' he'
        cases hsb : e'.isSub with
        | true => rfl
        | false => exact absurd (by rw [hsb]; rfl) this
      have subNotMove : ∀ e' : Entry, e'.isSub = true → e'.isMove = false ∧ e'.isDel = false := by
        intro e' he'; cases e' <;> simp [Entry.isSub] at he' <;> simp [Entry.isMove, Entry.isDel]
      have hl2 : loop2 (compileMap (mp ++ (k, Entry.move (h :: t)) :: mr)) o1
          = loop2 (compileMap mr) (set k (deepGet (.obj (loop2 (compileMap mp) o1)) (h :: t)) (loop2 (compileMap mp) o1)) := by
        rw [compileMap_append, loop2_append]
        simp only [compileMap, Entry.compile, loop2]
      have hkfin : get k a' = some (deepGet (.obj (loop2 (compileMap mp) o1)) (h :: t)) := by
        rw [ha, c17_loop3_frameD _ _ (by
          intro e' he'
          rcases c17_mem_split he' with h' | h' | h'
          · exact (subNotMove e' (hkp e' h')).2
          · rw [h']; rfl
          · exact (subNotMove e' (hkr e' h')).2), hl2,
          c17_loop2_frameM mr _ (fun e' he' => (subNotMove e' (hkr e' he')).1), get_set_same]
      by_cases hg1 : (((keyed h (postMap (mp ++ (k, Entry.move (h :: t)) :: mr))).filter PEntry.isWriter1).isEmpty
          && ((keyed h (postMap mp)).filter PEntry.isMove).isEmpty) = true
      · simp only [hg1, if_true]
        simp only [Bool.and_eq_true, List.isEmpty_iff] at hg1
        -- the first key of the path is written by nobody in loop 1, and by no move before this entry
        have hA1 : ∀ e', (h, e') ∈ mp ++ (k, Entry.move (h :: t)) :: mr → e'.isW1 = false := by
          intro e' he'
          have := (List.filter_eq_nil_iff.mp hg1.1) _ (mem_keyed_postMap _ he')
          rw [c17_isWriter1_toPost] at this
          simpa using this
        have hA2 : ∀ e', (h, e') ∈ mp → e'.isMove = false := by
          intro e' he'
          have := (List.filter_eq_nil_iff.mp hg1.2) _ (mem_keyed_postMap _ he')
          rw [c17_isMove_toPost] at this
          simpa using this
        have hb1 : get h o1 = get h b := c17_loop1_frameW _ b b o1 hA1 h1
        have hb2 : get h (loop2 (compileMap mp) o1) = get h b := by
          rw [c17_loop2_frameM mp o1 hA2, hb1]
        rw [deepGet_congr t hb2] at hkfin
        simp [hkfin, optBeq_refl]
      · have hg1' : (((keyed h (postMap (mp ++ (k, Entry.move (h :: t)) :: mr))).filter PEntry.isWriter1).isEmpty
          && ((keyed h (postMap mp)).filter PEntry.isMove).isEmpty) = false := by simpa using hg1
        simp only [hg1', Bool.false_eq_true, if_false]
        by_cases hg2 : (h != k && h != "version"
            && ((keyed h (postMap (mp ++ (k, Entry.move (h :: t)) :: mr))).filter PEntry.isMove).length
                == ((keyed h (postMap mp)).filter PEntry.isMove).length
            && !(keyed h (postMap (mp ++ (k, Entry.move (h :: t)) :: mr))).any PEntry.isDeleted) = true
        · simp only [hg2, if_true]
          simp only [Bool.and_eq_true, bne_iff_ne, ne_eq, beq_iff_eq, Bool.not_eq_true'] at hg2
          obtain ⟨⟨⟨hhk, hhv⟩, hlen⟩, hnd⟩ := hg2
          have hnk : (k == h) = false := by simpa using (Ne.symm hhk)
          -- no move onto `h` after this entry, `h` is not deleted
          rw [postMap_append, keyed_append, List.filter_append, List.length_append] at hlen
          simp only [postMap, keyed_cons, hnk, Bool.false_eq_true, if_false] at hlen
          have hz : ((keyed h (postMap mr)).filter PEntry.isMove).length = 0 := by omega
          have hmr : ∀ e', (h, e') ∈ mr → e'.isMove = false := by
            intro e' he'
            have := (List.filter_eq_nil_iff.mp (List.length_eq_zero_iff.mp hz)) _ (mem_keyed_postMap mr he')
            rw [c17_isMove_toPost] at this
            simpa using this
          have hdel : ∀ e', (h, e') ∈ mp ++ (k, Entry.move (h :: t)) :: mr → e'.isDel = false := by
            intro e' he'
            have := List.any_eq_false.mp hnd _ (mem_keyed_postMap _ he')
            rw [c17_isDeleted_toPost] at this
            simpa using this
          have hfin : get h a' = get h (loop2 (compileMap mp) o1) := by
            rw [hax h hhv, c17_loop3_frameD _ _ hdel, hl2, c17_loop2_frameM mr _ hmr, get_set_other _ (Ne.symm hhk)]
          rw [← deepGet_congr t hfin] at hkfin
          simp [hkfin, optBeq_refl]
        · have hg2' : (h != k && h != "version"
            && ((keyed h (postMap (mp ++ (k, Entry.move (h :: t)) :: mr))).filter PEntry.isMove).length
                == ((keyed h (postMap mp)).filter PEntry.isMove).length
            && !(keyed h (postMap (mp ++ (k, Entry.move (h :: t)) :: mr))).any PEntry.isDeleted) = false := by
            simpa using hg2
          simp only [hg2', Bool.false_eq_true, if_false]

/-- all entries: each judged knowing the entries written before it -/
theorem c17_entries_ok (top : Bool) (m : Mapping) (hwf : keysOk m = true) (hsub : SubOk m) (b o1 a' : Obj)
    (h1 : loop1 (compileMap m) b b = .ok o1)
    (ha : ∀ k, (top && k == "version") = false →
      get k a' = get k (loop3 (compileMap m) (loop2 (compileMap m) o1)))
    (hax : ∀ q, q ≠ "version" → get q a' = get q (loop3 (compileMap m) (loop2 (compileMap m) o1))) :
    ∀ (mr mp : Mapping), m = mp ++ mr → entriesViolations top (postMap m) b a' (postMap mp) (postMap mr) = [] := by
  intro mr
  induction mr with
  | nil => intro mp _; simp [postMap, entriesViolations]
  | cons p mr ih =>
    intro mp hm
    obtain ⟨k, e⟩ := p
    simp only [postMap, entriesViolations]
    have ih' := ih (mp ++ [(k, e)]) (by simp [hm])
    rw [postMap_append] at ih'
    simp only [postMap] at ih'
    rw [ih', List.append_nil]
    by_cases ht : (top && k == "version") = true
    · simp [ht]
    · have ht' : (top && k == "version") = false := by simpa using ht
      simp only [ht', Bool.false_eq_true, if_false]
      subst hm
      exact c17_entry_ok mp mr k e hwf hsub b o1 a' h1 (ha k ht') hax

theorem c17_frame_ok (m : Mapping) (b a' : Obj)
    (hf : ∀ q, q ≠ "version" → (keyed q (postMap m)).length = 0 → get q a' = get q b) :
    frameViolations (postMap m) b a' = [] := by
  simp only [frameViolations]
  apply List.filterMap_eq_nil_iff.mpr
  intro q _
  by_cases hq : q = "version"
  · simp [hq]
  · by_cases hl : (keyed q (postMap m)).length = 0
    · simp [hq, hl, hf q hq hl, optBeq_refl]
    · simp [hq, hl]

/-- the contract of one mapping application on dicts, given the nested contracts; `a'` = the result, possibly with
    the `version` key rewritten by the caller (`top`) -/
theorem c17_shape_ok (top : Bool) (m : Mapping) (hwf : keysOk m = true) (hsub : SubOk m) (b a a' : Obj)
    (hc : convert m (.obj b) = .ok (.obj a)) (ha : ∀ k, k ≠ "version" → get k a' = get k a)
    (ht : top = true ∨ a' = a) : postShape top (postMap m) (.obj b) (.obj a') = [] := by
  rcases c17_convert_unfold hc with ⟨o1, h1, hr⟩
  cases hr
  simp only [postShape]
  have he := c17_entries_ok top m hwf hsub b o1 a' h1 (by
    intro k hk
    rcases ht with ht | ht
    · subst ht
      have : k ≠ "version" := by simpa using hk
      exact ha k this
    · rw [ht]) (by
    intro q hq
    exact ha q hq) m [] (by simp)
  simp only [postMap] at he
  rw [he, List.nil_append]
  apply c17_frame_ok
  intro q hq hl
  have hno := keyed_nil_no_key (List.length_eq_zero_iff.mp hl)
  rw [ha q hq, c17_after_eq o1 (fun e he => absurd he (hno e)) (fun e he => absurd he (hno e)),
    c17_loop1_frameW m b b o1 (fun e he => absurd he (hno e)) h1]

theorem c17_contract_of_subOk (m : Mapping) (hwf : keysOk m = true) (hsub : SubOk m) (x y : Json)
    (hxy : convert m x = .ok y) : postShape false (postMap m) x y = [] := by
  cases x with
  | obj b =>
    rcases convert_obj m b y hxy with ⟨a, rfl⟩
    exact c17_shape_ok false m hwf hsub b a a hxy (fun _ _ => rfl) (Or.inr rfl)
  | _ => simp [postShape]

mutual
theorem c17_contract_entry : ∀ (e : Entry), e.wfDeep = true → ∀ m', e = .sub m' →
    ∀ x y, convert m' x = .ok y → postShape false (postMap m') x y = []
  | .sub m, hw, m', he, x, y, hxy => by
    cases he
    simp only [Entry.wfDeep, Bool.and_eq_true] at hw
    exact c17_contract_of_subOk m hw.1 (c17_contract_list m hw.2) x y hxy
  | .const _, _, _, he, _, _, _ => by cases he
  | .deleted, _, _, he, _, _, _ => by cases he
  | .move _, _, _, he, _, _, _ => by cases he
  | .fn _ _, _, _, he, _, _, _ => by cases he
theorem c17_contract_list : ∀ (m : List (String × Entry)), wfDeepList m = true → SubOk m
  | [], _ => by intro k m' h; cases h
  | (k, e) :: r, hw => by
    simp only [wfDeepList, Bool.and_eq_true] at hw
    have ihe := c17_contract_entry e hw.1
    have ihr := c17_contract_list r hw.2
    intro k' m' hmem x y hxy
    rcases List.mem_cons.mp hmem with h | h
    · have h2 : e = Entry.sub m' := by cases h; rfl
      exact ihe m' h2 x y hxy
    · exact ihr k' m' h x y hxy
end

/-- **the single-step contract holds of `_convert`**, every clause, for every well-formed mapping (a mapping is a
    Python dict) of any nesting with any user functions, and every JSON value -/
theorem c17_step_contract (m : Mapping) (hwf : wfMapping m = true) (before after : Json)
    (h : convert m before = .ok after) : stepViolations m before after = [] := by
  simp only [wfMapping, Bool.and_eq_true] at hwf
  exact c17_contract_of_subOk m hwf.1 (c17_contract_list m hwf.2) before after h

/-- the same for one iteration of `convert_dict` (the caller rewrites `version` afterwards) -/
theorem c17_step_contract_top (m : Mapping) (hwf : wfMapping m = true) (b : Obj) (d' d'' : Json) (v : Int)
    (h : convert m (.obj b) = .ok d') (hs : setVersion v d' = .ok d'') : stepViolationsTop m (.obj b) d'' = [] := by
  simp only [wfMapping, Bool.and_eq_true] at hwf
  rcases convert_obj m b d' h with ⟨a, rfl⟩
  simp only [setVersion] at hs
  cases hs
  exact c17_shape_ok true m hwf.1 (c17_contract_list m hwf.2) b a _ h
    (fun k hk => get_set_other _ (Ne.symm hk) a) (Or.inl rfl)

end Typedpy.Convert
