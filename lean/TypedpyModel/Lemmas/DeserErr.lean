import TypedpyModel.Spec.Lift
import TypedpyModel.Props.C01
namespace Typedpy
open PyVal (pyEq pyMem pyNodup)

def OkErr (e : ErrCls) : Prop := e = .typeErr ∨ e = .valueErr ∨ e = .both

theorem validate_err (O : Oracles) (f : FieldDecl) (v : PyVal) (e : ErrCls)
    (h : validate O f v = .error e) : OkErr e := by
  have hs := validate_spec O f v
  cases ha : admits O f v
  · rcases hs.2 ha with ⟨e', he, hc⟩
    rw [h] at he; cases he; exact hc
  · rw [hs.1 ha] at h; cases h

theorem dValidated_err (r : R PyVal) (v : PyVal) (e : ErrCls) (hr : ∀ e', r = .error e' → OkErr e')
    (h : dValidated r v = .error e) : OkErr e := by
  unfold dValidated at h
  cases r with
  | ok _ => simp at h
  | error e' => simp at h; subst h; exact hr e' rfl

theorem toValueErr_err {α} (r : R α) (e : ErrCls) (hr : ∀ e', r = .error e' → OkErr e')
    (h : toValueErr r = .error e) : OkErr e := by
  cases r with
  | ok _ => simp [toValueErr] at h
  | error e' =>
    have := hr e' rfl
    rcases this with rfl | rfl | rfl <;> simp [toValueErr] at h <;> subst h
    · exact Or.inr (Or.inl rfl)
    · exact Or.inr (Or.inl rfl)
    · exact Or.inr (Or.inl rfl)

theorem mapE_err {α β} (g : α → R β) (xs : List α) (e : ErrCls)
    (hg : ∀ x ∈ xs, ∀ e', g x = .error e' → OkErr e') (h : mapE g xs = .error e) : OkErr e := by
  induction xs with
  | nil => simp [mapE] at h
  | cons x rest ih =>
    simp only [mapE] at h
    cases hx : g x with
    | error e' => rw [hx] at h; simp at h; subst h; exact hg x (by simp) e' hx
    | ok y =>
      rw [hx] at h
      simp only [bindE_ok] at h
      cases hr : mapE g rest with
      | error e' => rw [hr] at h; simp at h; subst h; exact ih (fun z hz => hg z (by simp [hz])) hr
      | ok ys => rw [hr] at h; simp at h

theorem dSeq_err (mk : List PyVal → R PyVal) (g : List PyVal → R (List PyVal)) (v : PyVal) (e : ErrCls)
    (hmk : ∀ ys e', mk ys = .error e' → OkErr e') (hg : ∀ xs e', g xs = .error e' → OkErr e')
    (h : dSeq mk g v = .error e) : OkErr e := by
  unfold dSeq at h
  cases hd : docSeq v with
  | none => rw [hd] at h; simp at h; subst h; exact Or.inr (Or.inl rfl)
  | some xs =>
    rw [hd] at h
    simp only at h
    cases hx : g xs with
    | error e' => rw [hx] at h; simp at h; subst h; exact hg xs e' hx
    | ok ys => rw [hx] at h; simp at h; exact hmk ys e h

theorem mkSet_err (ys : List PyVal) (e : ErrCls) (h : mkSet ys = .error e) : OkErr e := by
  unfold mkSet at h
  split at h
  · cases h; exact Or.inl rfl
  · cases h

theorem ite_none_err (c : Bool) (v : PyVal) (r : R PyVal) (e : ErrCls)
    (h : (if c = true then (.ok v : R PyVal) else r) = .error e) : r = .error e := by
  cases c <;> simp at h; exact h

theorem dEnumCls_err (O : Oracles) (cls names v e) (h : dEnumCls cls names v = .error e) : OkErr e := by
  unfold dEnumCls at h
  split at h
  · split at h
    · cases h
    · cases h; exact Or.inr (Or.inl rfl)
  · exact dValidated_err _ _ e
      (fun e' he => validate_err O (.enumCls cls names) _ e' (by simpa [validate] using he)) h

theorem dMap_err (g : List (PyVal × PyVal) → R (List (PyVal × PyVal))) (v : PyVal) (e : ErrCls)
    (hg : ∀ xs e', g xs = .error e' → OkErr e') (h : dMap g v = .error e) : OkErr e := by
  unfold dMap at h
  cases v <;> try (cases h; exact Or.inl rfl)
  rename_i kvs
  simp only at h
  cases hx : g kvs with
  | error e' => rw [hx] at h; simp at h; subst h; exact hg kvs e' hx
  | ok r =>
    rw [hx] at h; simp only [bindE_ok] at h
    split at h
    · cases h; exact Or.inl rfl
    · cases h

theorem vConstruct_err (c names kw) (g : R (List (String × PyVal))) (e : ErrCls)
    (hg : ∀ e', g = .error e' → OkErr e') (h : vConstruct c names kw g = .error e) : OkErr e := by
  unfold vConstruct at h
  split at h
  · cases h; exact Or.inl rfl
  · cases g with
    | error e' => simp at h; subst h; exact hg e' rfl
    | ok a => simp at h

theorem validateFields_err (O : Oracles) (c : ClassOpts) (defaults kw : List (String × PyVal)) :
    ∀ (fields : List (String × FieldDecl)) (e : ErrCls),
      validateFields O c defaults kw fields = .error e → OkErr e
  | [], e, h => by simp [validateFields] at h
  | (name, f) :: rest, e, h => by
    simp only [validateFields] at h
    split at h
    · exact validateFields_err O c defaults kw rest e h
    · rename_i v _
      cases hv : validate O f v with
      | error e' => rw [hv] at h; simp at h; subst h; exact validate_err O f v e' hv
      | ok y =>
        rw [hv] at h; simp only [bindE_ok] at h
        cases hr : validateFields O c defaults kw rest with
        | error e' => rw [hr] at h; simp at h; subst h; exact validateFields_err O c defaults kw rest e' hr
        | ok ys => rw [hr] at h; simp at h

theorem dInline_err (v : PyVal) (drop : Bool) (k : List (String × PyVal) → R PyVal) (e : ErrCls)
    (h : dInline v drop k = .error e) : OkErr e := by
  unfold dInline at h
  (repeat' split at h) <;> first | (cases h; exact Or.inr (Or.inl rfl)) | cases h

theorem dClassRef_err (v : PyVal) (drop : Bool) (pre : List (String × PyVal) → R Unit)
    (k : List (String × PyVal) → R PyVal) (e : ErrCls)
    (hp : ∀ kw e', pre kw = .error e' → OkErr e')
    (hk : ∀ kw e', k kw = .error e' → OkErr e') (h : dClassRef v drop pre k = .error e) : OkErr e := by
  unfold dClassRef at h
  split at h
  · cases h
  · split at h
    · split at h
      · exact hk _ e h
      · rcases hb : pre _ with e' | u <;> rw [hb] at h
        · simp at h; subst h; exact hp _ e' hb
        · simp at h; subst h; exact Or.inl rfl
    · exact hk _ e h
  · cases h; exact Or.inl rfl

theorem dClassRef_dict_ok (kvs : List (PyVal × PyVal)) (drop : Bool) (pre : List (String × PyVal) → R Unit)
    (k : List (String × PyVal) → R PyVal) (x : PyVal)
    (h : dClassRef (.dict kvs) drop pre k = .ok x) : ∃ kw, k kw = .ok x := by
  unfold dClassRef at h
  simp only at h
  split at h
  · split at h
    · exact ⟨_, h⟩
    · rcases hb : pre (strKw kvs) with e' | u <;> rw [hb] at h <;> simp at h
  · exact ⟨_, h⟩

mutual
theorem deser_err (O : Oracles) (opts : DeserOpts) : ∀ (f : FieldDecl) (ign : Bool) (v : PyVal) (e : ErrCls),
    deser O opts ign f v = .error e → OkErr e
  | .number o, ign, v, e, h => by
    simp only [deser] at h
    exact dValidated_err _ _ e (fun e' he => validate_err O (.number (noSign o)) v e' (by simpa [validate] using he))
      (ite_none_err _ _ _ _ h)
  | .integer o, ign, v, e, h => by
    simp only [deser] at h
    exact dValidated_err _ _ e (fun e' he => validate_err O (.integer (noSign o)) v e' (by simpa [validate] using he))
      (ite_none_err _ _ _ _ h)
  | .float o, ign, v, e, h => by
    simp only [deser] at h
    exact dValidated_err _ _ e (fun e' he => validate_err O (.float (noSign o)) v e' (by simpa [validate] using he))
      (ite_none_err _ _ _ _ h)
  | .string lo hi pat, ign, v, e, h => by
    simp only [deser] at h
    exact dValidated_err _ _ e (fun e' he => validate_err O (.string lo hi pat) v e' (by simpa [validate] using he))
      (ite_none_err _ _ _ _ h)
  | .boolean, ign, v, e, h => by
    simp only [deser] at h
    exact dValidated_err _ _ e (fun e' he => validate_err O .boolean v e' (by simpa [validate] using he))
      (ite_none_err _ _ _ _ h)
  | .enumLit vals, ign, v, e, h => by
    simp only [deser] at h
    exact dValidated_err _ _ e (fun e' he => validate_err O (.enumLit vals) v e' (by simpa [validate] using he))
      (ite_none_err _ _ _ _ h)
  | .enumCls cls names, ign, v, e, h => by
    simp only [deser] at h
    exact dEnumCls_err O cls names v e (ite_none_err _ _ _ _ h)
  | .seqAny k sz, ign, v, e, h => by
    simp only [deser] at h
    exact dSeq_err _ _ v e (fun _ _ hh => by cases hh) (fun _ _ hh => by cases hh) (ite_none_err _ _ _ _ h)
  | .seqOf k f sz, ign, v, e, h => by
    simp only [deser] at h
    exact dSeq_err _ _ v e (fun _ _ hh => by cases hh)
      (fun xs e' hh => toValueErr_err _ e' (fun e'' he => mapE_err _ xs e''
        (fun x _ e3 h3 => deser_err O opts f false x e3 h3) he) hh) (ite_none_err _ _ _ _ h)
  | .seqPos k fs addl sz, ign, v, e, h => by
    simp only [deser] at h
    exact dSeq_err _ _ v e (fun _ _ hh => by cases hh)
      (fun xs e' hh => toValueErr_err _ e' (fun e'' he => deserZip_err O opts fs xs e'' he) hh)
      (ite_none_err _ _ _ _ h)
  | .setAny imm sz, ign, v, e, h => by
    simp only [deser] at h
    exact dSeq_err _ _ v e (fun ys e' hh => mkSet_err ys e' hh) (fun _ _ hh => by cases hh) (ite_none_err _ _ _ _ h)
  | .setOf imm f sz, ign, v, e, h => by
    simp only [deser] at h
    exact dSeq_err _ _ v e (fun ys e' hh => mkSet_err ys e' hh)
      (fun xs e' hh => toValueErr_err _ e' (fun e'' he => mapE_err _ xs e''
        (fun x _ e3 h3 => deser_err O opts f false x e3 h3) he) hh) (ite_none_err _ _ _ _ h)
  | .tupleOf f uniq, ign, v, e, h => by
    simp only [deser] at h
    exact dSeq_err _ _ v e (fun _ _ hh => by cases hh)
      (fun xs e' hh => toValueErr_err _ e' (fun e'' he => mapE_err _ xs e''
        (fun x _ e3 h3 => deser_err O opts f false x e3 h3) he) hh) (ite_none_err _ _ _ _ h)
  | .tuplePos fs uniq, ign, v, e, h => by
    simp only [deser] at h
    exact dSeq_err _ _ v e (fun _ _ hh => by cases hh)
      (fun xs e' hh => toValueErr_err _ e' (fun e'' he => deserZip_err O opts fs xs e'' he) hh)
      (ite_none_err _ _ _ _ h)
  | .mapAny sz, ign, v, e, h => by
    simp only [deser] at h
    exact dMap_err _ v e (fun _ _ hh => by cases hh) (ite_none_err _ _ _ _ h)
  | .mapOf kf vf sz, ign, v, e, h => by
    simp only [deser] at h
    refine dMap_err _ v e (fun kvs e' hh => mapE_err _ kvs e' (fun kv _ e3 h3 => ?_) hh) (ite_none_err _ _ _ _ h)
    cases hv : deser O opts false vf kv.2 with
    | error e4 => rw [hv] at h3; simp at h3; subst h3; exact deser_err O _ vf false kv.2 e4 hv
    | ok v' =>
      rw [hv] at h3; simp only [bindE_ok] at h3
      cases hk : deser O opts false kf kv.1 with
      | error e4 => rw [hk] at h3; simp at h3; subst h3; exact deser_err O _ kf false kv.1 e4 hk
      | ok k' => rw [hk] at h3; simp at h3
  | .struct c fields defaults, ign, v, e, h => by
    simp only [deser] at h
    have h2 := ite_none_err _ _ _ _ h
    split at h2
    · exact dInline_err v _ _ e h2
    · refine dClassRef_err v _ _ _ e (fun kw e' hk => ?_) (fun kw e' hk => ?_) h2
      · cases hd : deserFields O opts c kw fields false with
        | error e2 =>
          rw [hd] at hk; simp at hk; subst hk
          exact deserFields_err O opts c kw fields false e2 hd
        | ok args => rw [hd] at hk; simp at hk
      cases hd : deserFields O opts c kw fields false with
      | error e2 =>
        rw [hd] at hk; simp at hk; subst hk
        exact deserFields_err O opts c kw fields false e2 hd
      | ok args =>
        rw [hd] at hk; simp only [bindE_ok] at hk
        exact vConstruct_err c _ _ _ e' (fun e2 he => validateFields_err O c defaults _ fields e2 he) hk
  | .anyOf fs, ign, v, e, h => by
    simp only [deser] at h
    exact deserAny_err O opts fs v e (ite_none_err _ _ _ _ h)
  | .oneOf fs, ign, v, e, h => by
    simp only [deser] at h
    exact deserLast_err O opts fs v v 0 fs.length e (ite_none_err _ _ _ _ h)
  | .allOf fs, ign, v, e, h => by
    simp only [deser] at h
    exact deserAll_err O opts fs v v e (ite_none_err _ _ _ _ h)
  | .notF fs, ign, v, e, h => by
    simp only [deser] at h
    exact absurd (ite_none_err _ _ _ _ h) (deserNot_ok O opts fs v v e)
  | .noneF, ign, v, e, h => by
    simp only [deser] at h
    split at h
    · cases h
    · cases h; exact Or.inr (Or.inl rfl)
  | .anything, ign, v, e, h => by simp [deser] at h

theorem deserZip_err (O : Oracles) (opts : DeserOpts) : ∀ (fs : List FieldDecl) (xs : List PyVal) (e : ErrCls),
    deserZip O opts fs xs = .error e → OkErr e
  | [], xs, e, h => by simp [deserZip] at h
  | _ :: _, [], e, h => by simp [deserZip] at h; subst h; exact Or.inr (Or.inl rfl)
  | f :: fs, x :: xs, e, h => by
    simp only [deserZip] at h
    cases hx : deser O opts false f x with
    | error e' => rw [hx] at h; simp at h; subst h; exact deser_err O opts f false x e' hx
    | ok y =>
      rw [hx] at h; simp only [bindE_ok] at h
      cases hr : deserZip O opts fs xs with
      | error e' => rw [hr] at h; simp at h; subst h; exact deserZip_err O opts fs xs e' hr
      | ok ys => rw [hr] at h; simp at h

theorem deserAny_err (O : Oracles) (opts : DeserOpts) : ∀ (fs : List FieldDecl) (v : PyVal) (e : ErrCls),
    deserAny O opts fs v = .error e → OkErr e
  | [], v, e, h => by simp [deserAny] at h; subst h; exact Or.inr (Or.inl rfl)
  | f :: fs, v, e, h => by
    simp only [deserAny] at h
    split at h
    · cases h
    · exact deserAny_err O opts fs v e h

theorem deserLast_err (O : Oracles) (opts : DeserOpts) :
    ∀ (fs : List FieldDecl) (v acc : PyVal) (k n : Nat) (e : ErrCls),
      deserLast O opts fs v acc k n = .error e → OkErr e
  | [], v, acc, k, n, e, h => by
    simp only [deserLast] at h
    split at h
    · cases h; exact Or.inr (Or.inl rfl)
    · cases h
  | f :: fs, v, acc, k, n, e, h => by
    simp only [deserLast] at h
    split at h
    · exact deserLast_err O opts fs v _ k n e h
    · exact deserLast_err O opts fs v acc (k + 1) n e h

theorem deserAll_err (O : Oracles) (opts : DeserOpts) : ∀ (fs : List FieldDecl) (v acc : PyVal) (e : ErrCls),
    deserAll O opts fs v acc = .error e → OkErr e
  | [], v, acc, e, h => by simp [deserAll] at h
  | f :: fs, v, acc, e, h => by
    simp only [deserAll] at h
    split at h
    · exact deserAll_err O opts fs v _ e h
    · cases h; exact Or.inr (Or.inl rfl)

theorem deserNot_ok (O : Oracles) (opts : DeserOpts) : ∀ (fs : List FieldDecl) (v acc : PyVal) (e : ErrCls),
    deserNot O opts fs v acc ≠ .error e
  | [], v, acc, e => by simp [deserNot]
  | f :: fs, v, acc, e => by
    simp only [deserNot]
    split
    · exact deserNot_ok O opts fs v _ e
    · exact deserNot_ok O opts fs v acc e

theorem deserFields_err (O : Oracles) (opts : DeserOpts) (c : ClassOpts) (doc : List (String × PyVal)) :
    ∀ (fields : List (String × FieldDecl)) (errs : Bool) (e : ErrCls),
      deserFields O opts c doc fields errs = .error e → OkErr e
  | [], errs, e, h => by
    simp only [deserFields] at h
    split at h
    · cases h; exact Or.inr (Or.inr rfl)
    · cases h
  | (name, f) :: rest, errs, e, h => by
    simp only [deserFields] at h
    split at h
    · exact deserFields_err O opts c doc rest errs e h
    · rename_i v _
      split at h
      · exact deserFields_err O opts c doc rest errs e h
      split at h
      · rename_i y _
        cases hr : deserFields O opts c doc rest errs with
        | error e' => rw [hr] at h; simp at h; subst h; exact deserFields_err O opts c doc rest errs e' hr
        | ok ys => rw [hr] at h; simp at h
      · rename_i e' he
        cases h
        exact deser_err O opts f c.ignoreNone v e he
end

end Typedpy
