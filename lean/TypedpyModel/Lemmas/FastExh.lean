/-
  Lemmas/FastExh.lean — C10: the declaration-level partition of the fast-serialization claim is
  exhaustive: a field shape is inside the proved region `fsafeD` or carries a named tag of `fdefD`.
-/
import TypedpyModel.Lemmas.TrustedExh
import TypedpyModel.Spec.FastSafe
namespace Typedpy

mutual
theorem c10_fexh_D (NF : List String) : ∀ f : FieldDecl, fsafeD NF f = true ∨ fdefD NF f ≠ []
  | .number _ => Or.inl rfl
  | .integer _ => Or.inl rfl
  | .float _ => Or.inl rfl
  | .string _ _ _ => Or.inl rfl
  | .boolean => Or.inl rfl
  | .noneF => Or.inl rfl
  | .enumLit _ => Or.inl rfl
  | .enumCls _ _ => Or.inl rfl
  | .seqOf _ item _ => by simp only [fsafeD, fdefD]; exact c10_fexh_D NF item
  | .setOf _ item _ => by simp only [fsafeD, fdefD]; exact c10_fexh_D NF item
  | .tupleOf item _ => by simp only [fsafeD, fdefD]; exact c10_fexh_D NF item
  | .tuplePos items _ => by simp only [fsafeD, fdefD]; exact c10_fexh_L NF items
  | .seqPos .list items _ _ => Or.inr (by simp [fdefD])
  | .seqPos .deque items _ _ => Or.inr (by simp [fdefD])
  | .mapOf kf vf _ => by
    simp only [fsafeD, fdefD]
    rcases c10_fexh_D NF kf with h1 | h1
    · rcases c10_fexh_D NF vf with h2 | h2
      · left; simp [h1, h2]
      · right; exact c10_ne_nil_append_right h2
    · right; exact c10_ne_nil_append_left h1
  | .struct c fields _ => by
    simp only [fsafeD, fdefD]
    cases hi : c.inline with
    | true => right; simp only [if_true]; exact c10_ne_nil_append_left (c10_ne_nil_append_left (c10_ne_nil_append_left (List.cons_ne_nil _ _)))
    | false =>
      cases hn : NF.contains c.name with
      | true => right; simp only [if_true]; exact c10_ne_nil_append_left (c10_ne_nil_append_left (c10_ne_nil_append_right (List.cons_ne_nil _ _)))
      | false =>
        cases hd : strNodup (fields.map (·.1)) with
        | false =>
          right
          simp only [Bool.false_eq_true, if_false]
          exact c10_ne_nil_append_left (c10_ne_nil_append_right (List.cons_ne_nil _ _))
        | true =>
          rcases c10_fexh_fields NF fields with h | h
          · left; simp only [Bool.not_false, Bool.true_and, h]
          · right; exact c10_ne_nil_append_right h
  | .anyOf fs => c10_fexh_any NF fs
  | .seqAny _ _ => Or.inr (by simp [fdefD])
  | .setAny _ _ => Or.inr (by simp [fdefD])
  | .mapAny _ => Or.inr (by simp [fdefD])
  | .oneOf _ => Or.inr (by simp [fdefD])
  | .allOf _ => Or.inr (by simp [fdefD])
  | .notF _ => Or.inr (by simp [fdefD])
  | .anything => Or.inr (by simp [fdefD])

theorem c10_fexh_L (NF : List String) : ∀ fs : List FieldDecl, fsafeL NF fs = true ∨ fdefL NF fs ≠ []
  | [] => Or.inl rfl
  | f :: fs => by
    simp only [fsafeL, fdefL]
    rcases c10_fexh_D NF f with h1 | h1
    · rcases c10_fexh_L NF fs with h2 | h2
      · left; simp [h1, h2]
      · right; exact c10_ne_nil_append_right h2
    · right; exact c10_ne_nil_append_left h1

theorem c10_fexh_fields (NF : List String) : ∀ fields : List (String × FieldDecl),
    fsafeFields NF fields = true ∨ fdefFields NF fields ≠ []
  | [] => Or.inl rfl
  | (_, f) :: rest => by
    simp only [fsafeFields, fdefFields]
    rcases c10_fexh_D NF f with h1 | h1
    · rcases c10_fexh_fields NF rest with h2 | h2
      · left; simp [h1, h2]
      · right; exact c10_ne_nil_append_right h2
    · right; exact c10_ne_nil_append_left h1

theorem c10_fexh_any (NF : List String) : ∀ fs : List FieldDecl,
    fsafeD NF (.anyOf fs) = true ∨ fdefD NF (.anyOf fs) ≠ []
  | [] => Or.inr (by simp [fdefD])
  | [_] => Or.inr (by simp [fdefD])
  | _ :: _ :: _ :: _ => Or.inr (by simp [fdefD])
  | [x, y] => by
    simp only [fsafeD, fdefD, fsafeOpt, fsafeOptTail]
    by_cases hany : [x, y].any isNoneF = true
    · have hlen : ([x, y].length == 2) = true := rfl
      simp only [hlen, hany, Bool.and_self, if_true]
      by_cases hall : [x, y].all (fun g => isNoneF g || isAnyOfD g) = true
      · right; simp only [hall, if_true]; exact c10_ne_nil_append_left (List.cons_ne_nil _ _)
      · simp only [hall, Bool.false_eq_true, if_false, List.nil_append]
        -- exactly one option is NoneField or the other is not an AnyOf: the non-None option decides
        by_cases hy : isNoneF y = true
        · have hx : (isNoneF x || isAnyOfD x) = false := by
            simp only [List.all_cons, List.all_nil, hy, Bool.true_or, Bool.and_true] at hall
            simpa using hall
          simp only [Bool.or_eq_false_iff] at hx
          rcases c10_fexh_D NF x with h | h
          · left; simp [hy, hx.1, hx.2, h]
          · right; simp only [fdefL]; exact c10_ne_nil_append_left h
        · have hy' : isNoneF y = false := by simpa using hy
          have hx : isNoneF x = true := by
            simp only [List.any_cons, List.any_nil, hy', Bool.or_false] at hany
            exact hany
          have hya : isAnyOfD y = false := by
            simp only [List.all_cons, List.all_nil, hx, Bool.true_or, Bool.true_and, hy', Bool.false_or, Bool.and_true] at hall
            simpa using hall
          rcases c10_fexh_D NF y with h | h
          · left; simp [hx, hy', hya, h]
          · right; simp only [fdefL]; exact c10_ne_nil_append_right (c10_ne_nil_append_left h)
    · right
      have hany' : [x, y].any isNoneF = false := by simpa using hany
      simp only [hany', Bool.and_false, Bool.false_eq_true, if_false]
      exact c10_ne_nil_append_left (List.cons_ne_nil _ _)
end

/-- every class declaration is inside the proved region of fast serialization or has a named tag -/
theorem c10_fast_region_exhaustive (NF : List String) (c : ClassOpts) (fields : List (String × FieldDecl))
    (ds : List (String × PyVal)) :
    fsafeCls NF (.struct c fields ds) = true ∨ fdefD NF (.struct c fields ds) ≠ [] :=
  c10_fexh_D NF (.struct c fields ds)

end Typedpy
