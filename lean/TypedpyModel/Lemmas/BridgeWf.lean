/-
  Lemmas/BridgeWf.lean — helper lemmas for `bridge_wfDecl` (Props/C01.lean): the declaration that a class record of
  the class-definition model denotes (Sem/DefineBridge.lean `ClassDef.toStruct`) is well-formed.
-/
import TypedpyModel.Lemmas.DefineBridge
import TypedpyModel.Spec.WfDecl
namespace Typedpy

theorem c01_strNodup_iff : ∀ (l : List String), strNodup l = true ↔ l.Nodup
  | [] => by simp [strNodup]
  | x :: xs => by
    simp only [strNodup, Bool.and_eq_true, Bool.not_eq_true', List.nodup_cons, c01_strNodup_iff xs]
    constructor
    · rintro ⟨h1, h2⟩; exact ⟨by simpa using h1, h2⟩
    · rintro ⟨h1, h2⟩; exact ⟨by simpa using h1, h2⟩

theorem c01_dedupStr_nodup : ∀ (l : List String), (dedupStr l).Nodup
  | [] => by simp [dedupStr]
  | x :: xs => by
    simp only [dedupStr, List.nodup_cons, List.mem_filter, bne_iff_ne, ne_eq, not_true_eq_false, and_false,
      not_false_eq_true, true_and]
    exact (c01_dedupStr_nodup xs).filter _

theorem c01_sigOrder_nodup (c : ClassDef) (ord : List String) (hd : (Bridge.defOrder c).Nodup) :
    (Bridge.sigOrder c ord).Nodup := by
  simp only [Bridge.sigOrder]
  rw [List.nodup_append]
  refine ⟨(c01_dedupStr_nodup _).filter _, hd.filter _, ?_⟩
  intro a ha b hb hab
  subst hab
  simp only [List.mem_filter, List.contains_eq_mem, decide_eq_true_eq, Bool.not_eq_true', decide_eq_false_iff_not] at ha hb
  exact hb.2 ha

theorem c01_orderBy_names (names : List String) (fs : List (String × FieldDecl)) :
    (Bridge.orderBy names fs).map (·.1) = names.filter (fun n => (lookup n fs).isSome) := by
  induction names with
  | nil => rfl
  | cons n rest ih =>
    simp only [Bridge.orderBy, List.filterMap_cons, List.filter_cons] at ih ⊢
    cases hl : lookup n fs with
    | none => simpa [hl] using ih
    | some d => simpa [hl] using ih

theorem c01_memberDecls_keys_sublist : ∀ (l : List (String × Member)),
    List.Sublist ((memberDecls l).map (·.1)) (l.map (·.1))
  | [] => by simp [memberDecls]
  | (n, .field d _) :: rest => by
    simp only [memberDecls, List.map_cons]
    exact (c01_memberDecls_keys_sublist rest).cons_cons n
  | (n, .const _) :: rest => by
    simp only [memberDecls, List.map_cons]
    exact (c01_memberDecls_keys_sublist rest).cons n

theorem c01_memberDecls_wf : ∀ (l : List (String × Member)),
    (∀ n d dflt, (n, Member.field d dflt) ∈ l → wfDecl d = true) →
    ∀ p ∈ memberDecls l, wfDecl p.2 = true
  | [], _, p, hp => by simp [memberDecls] at hp
  | (n, .field d dflt) :: rest, h, p, hp => by
    simp only [memberDecls, List.mem_cons] at hp
    rcases hp with rfl | hp
    · exact h n d dflt (by simp)
    · exact c01_memberDecls_wf rest (fun n' d' df' hm => h n' d' df' (by simp [hm])) p hp
  | (n, .const _) :: rest, h, p, hp => by
    simp only [memberDecls] at hp
    exact c01_memberDecls_wf rest (fun n' d' df' hm => h n' d' df' (by simp [hm])) p hp

theorem c01_wfFields_of_all : ∀ (fs : List (String × FieldDecl)), (∀ p ∈ fs, wfDecl p.2 = true) → wfFields fs = true
  | [], _ => by simp [wfFields]
  | (n, f) :: rest, h => by
    simp only [wfFields, Bool.and_eq_true]
    exact ⟨h (n, f) (by simp), c01_wfFields_of_all rest (fun p hp => h p (by simp [hp]))⟩

end Typedpy
