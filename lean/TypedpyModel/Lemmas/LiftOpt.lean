import TypedpyModel.Lemmas.LiftNonNone
import TypedpyModel.Lemmas.LiftScalars
namespace Typedpy
open PyVal (pyEq pyMem pyNodup)

/-! ### `Optional[X]` inside the exact fragment of C06 -/

theorem plain_not_noneDecl (f : FieldDecl) (h : plainDecl f = true) : isNoneDecl f = false := by
  cases f <;> simp [plainDecl] at h <;> rfl

theorem deserAny_none_first (O : Oracles) (opts : DeserOpts) (b : FieldDecl) (v : PyVal) (hn : v.isNone = false) :
    deserAny O opts [.noneF, b] v
      = (match deser O opts false b v with | .ok y => .ok y | .error _ => .error .valueErr) := by
  simp only [deserAny, deser, hn, Bool.false_eq_true, if_false]
  cases deser O opts false b v <;> rfl

theorem deserAny_none_second (O : Oracles) (opts : DeserOpts) (a : FieldDecl) (v : PyVal) (hn : v.isNone = false) :
    deserAny O opts [a, .noneF] v
      = (match deser O opts false a v with | .ok y => .ok y | .error _ => .error .valueErr) := by
  simp only [deserAny, deser, hn, Bool.false_eq_true, if_false]
  cases deser O opts false a v <;> rfl

theorem validateAny_none_first (O : Oracles) (b : FieldDecl) (w : PyVal) (hn : w.isNone = false) :
    validateAny O [.noneF, b] w
      = (match validate O b w with | .ok z => .ok z | .error _ => .error .valueErr) := by
  simp only [validateAny, validate, vNone, hn, Bool.false_eq_true, if_false]
  cases validate O b w <;> rfl

theorem validateAny_none_second (O : Oracles) (a : FieldDecl) (w : PyVal) (hn : w.isNone = false) :
    validateAny O [a, .noneF] w
      = (match validate O a w with | .ok z => .ok z | .error _ => .error .valueErr) := by
  simp only [validateAny, validate, vNone, hn, Bool.false_eq_true, if_false]
  cases validate O a w <;> rfl

/-- a successfully deserialized non-null document is not None (whole exact fragment) -/
theorem deser_ok_nonNone (O : Oracles) (opts : DeserOpts) (f : FieldDecl) (v y : PyVal)
    (hex : exactDecl f = true) (hn : v.isNone = false) (h : deser O opts false f v = .ok y) :
    y.isNone = false := by
  by_cases hany : ∃ fs, f = .anyOf fs
  · rcases hany with ⟨fs, rfl⟩
    simp only [exactDecl] at hex
    rcases exactOpt_cases fs hex with ⟨a, b, rfl, hc | hc⟩
    · have := isNoneDecl_eq a hc.1; subst this
      simp only [deser, Bool.and_false, Bool.false_eq_true, if_false, deserAny_none_first O opts b v hn] at h
      cases hb : deser O opts false b v with
      | error e => simp [hb] at h
      | ok y' =>
        simp [hb] at h; subst h
        exact deser_ok_nonNone_plain O opts b v y' hc.2.2 (plain_not_anyOf b hc.2.1) hn hb
    · have := isNoneDecl_eq b hc.1; subst this
      simp only [deser, Bool.and_false, Bool.false_eq_true, if_false, deserAny_none_second O opts a v hn] at h
      cases ha : deser O opts false a v with
      | error e => simp [ha] at h
      | ok y' =>
        simp [ha] at h; subst h
        exact deser_ok_nonNone_plain O opts a v y' hc.2.2 (plain_not_anyOf a hc.2.1) hn ha
  · exact deser_ok_nonNone_plain O opts f v y hex (fun fs hf => hany ⟨fs, hf⟩) hn h

/-- the lifting of a non-null document is not None (whole exact fragment) -/
theorem lift_some_nonNone (O : Oracles) (opts : DeserOpts) (f : FieldDecl) (v w : PyVal)
    (hex : exactDecl f = true) (hn : v.isNone = false) (h : lift O opts f v = some w) :
    w.isNone = false := by
  by_cases hany : ∃ fs, f = .anyOf fs
  · rcases hany with ⟨fs, rfl⟩
    simp only [exactDecl] at hex
    rcases exactOpt_cases fs hex with ⟨a, b, rfl, hc | hc⟩
    · simp only [lift, liftOpt, hc.1, hc.2.1, Bool.and_self, if_true, hn, Bool.false_eq_true, if_false] at h
      exact lift_some_nonNone_plain O opts b v w hc.2.2 (plain_not_anyOf b hc.2.1) hn h
    · have hna : isNoneDecl a = false := plain_not_noneDecl a hc.2.1
      simp only [lift, liftOpt, hna, Bool.false_and, Bool.false_eq_true, if_false, hc.1, hc.2.1, Bool.and_self,
        if_true, hn] at h
      exact lift_some_nonNone_plain O opts a v w hc.2.2 (plain_not_anyOf a hc.2.1) hn h
  · exact lift_some_nonNone_plain O opts f v w hex (fun fs hf => hany ⟨fs, hf⟩) hn h

/-- through `Optional[X]` a non-null value behaves as through `X` -/
theorem opt_okEq_nonNone (O : Oracles) (opts : DeserOpts) (fs : List FieldDecl) (g : FieldDecl) (d : PyVal)
    (hshape : fs = [.noneF, g] ∨ fs = [g, .noneF]) (hp : plainDecl g = true) (hex : exactDecl g = true)
    (hn : d.isNone = false)
    (hg : OkEq (deserThen O opts g d) (liftThen O opts g d)) :
    OkEq (deserThen O opts (.anyOf fs) d) (liftThen O opts (.anyOf fs) d) := by
  have hna : isNoneDecl g = false := plain_not_noneDecl g hp
  have hD : ∀ z, deserThen O opts (.anyOf fs) d = .ok z ↔ deserThen O opts g d = .ok z := by
    intro z
    have hdes : deser O opts false (.anyOf fs) d
        = (match deser O opts false g d with | .ok y => .ok y | .error _ => .error .valueErr) := by
      rcases hshape with rfl | rfl
      · simp only [deser, Bool.and_false, Bool.false_eq_true, if_false, deserAny_none_first O opts g d hn]
      · simp only [deser, Bool.and_false, Bool.false_eq_true, if_false, deserAny_none_second O opts g d hn]
    unfold deserThen
    rw [hdes]
    cases hy : deser O opts false g d with
    | error e => simp [bindE]
    | ok y =>
      have hyn := deser_ok_nonNone_plain O opts g d y hex (plain_not_anyOf g hp) hn hy
      have hval : validate O (.anyOf fs) y
          = (match validate O g y with | .ok z => .ok z | .error _ => .error .valueErr) := by
        rcases hshape with rfl | rfl
        · simp only [validate, validateAny_none_first O g y hyn]
        · simp only [validate, validateAny_none_second O g y hyn]
      simp only [bindE, hval]
      cases validate O g y <;> simp
  have hL : ∀ z, liftThen O opts (.anyOf fs) d = .ok z ↔ liftThen O opts g d = .ok z := by
    intro z
    have hlift : lift O opts (.anyOf fs) d = lift O opts g d := by
      have h1 : isNoneDecl FieldDecl.noneF = true := rfl
      rcases hshape with rfl | rfl
      · simp only [lift, liftOpt, h1, hp, Bool.and_self, if_true, hn, Bool.false_eq_true, if_false]
      · simp only [lift, liftOpt, hna, Bool.false_and, Bool.false_eq_true, if_false, h1, hp, Bool.and_self,
          if_true, hn]
    unfold liftThen
    rw [hlift]
    cases hw : lift O opts g d with
    | none => simp
    | some w =>
      have hwn := lift_some_nonNone_plain O opts g d w hex (plain_not_anyOf g hp) hn hw
      have hval : validate O (.anyOf fs) w
          = (match validate O g w with | .ok z => .ok z | .error _ => .error .valueErr) := by
        rcases hshape with rfl | rfl
        · simp only [validate, validateAny_none_first O g w hwn]
        · simp only [validate, validateAny_none_second O g w hwn]
      simp only [hval]
      cases validate O g w <;> simp
  intro z
  rw [hD z, hL z]
  exact hg z

/-- a null through `Optional[X]` is None on both sides -/
theorem opt_okEq_none (O : Oracles) (opts : DeserOpts) (fs : List FieldDecl) (g : FieldDecl)
    (hshape : fs = [.noneF, g] ∨ fs = [g, .noneF]) (hp : plainDecl g = true) (hex : exactDecl g = true) :
    OkEq (deserThen O opts (.anyOf fs) .none) (liftThen O opts (.anyOf fs) .none) := by
  have hna : isNoneDecl g = false := plain_not_noneDecl g hp
  rcases plain_validate_none O g hex hp with ⟨e1, he1⟩
  rcases plain_deser_none O opts g hex hp with ⟨e2, he2⟩
  have h1 : isNoneDecl FieldDecl.noneF = true := rfl
  apply OkEq.of_eq
  rcases hshape with rfl | rfl
  · simp [deserThen, liftThen, deser, lift, liftOpt, deserAny, validate, validateAny, vNone, h1, hp,
      PyVal.isNone, bindE]
  · simp [deserThen, liftThen, deser, lift, liftOpt, deserAny, validate, validateAny, vNone, h1, hp, hna,
      PyVal.isNone, bindE, he1, he2]

end Typedpy
