/-
  Lemmas/DefineBridge.lean — facts about the bridge class record → `FieldDecl.struct`
  (Sem/DefineBridge.lean) and about keyword construction (`construct`, Sem/Validate.lean) through it:
  acceptance is a conjunction of independent per-field steps (hence independent of the order of the
  fields, i.e. of the PYTHONHASHSEED-dependent order of the required parameters), and the step of a
  field depends only on the Field object, its default, the class-level None handling and the
  keyword supplied.
-/
import TypedpyModel.Lemmas.Derive
import TypedpyModel.Sem.DefineBridge
namespace Typedpy

def isOkR {α} : R α → Bool
  | .ok _ => true
  | .error _ => false

theorem isOkR_iff {α} {r : R α} : isOkR r = true ↔ ∃ y, r = .ok y := by
  cases r <;> simp [isOkR]

/-- one field's step of `Structure.__init__`: the value it receives (if any) validates -/
def stepOk (O : Oracles) (c : ClassOpts) (defaults kw : List (String × PyVal))
    (p : String × FieldDecl) : Bool :=
  match argFor c defaults kw p.1 with
  | none => true
  | some v => isOkR (validate O p.2 v)

/-- the declared-field part of the constructor succeeds iff every field's step does -/
theorem c14_validateFields_ok_iff (O : Oracles) (c : ClassOpts) (defaults kw : List (String × PyVal)) :
    ∀ fs : List (String × FieldDecl),
      (∃ ys, validateFields O c defaults kw fs = .ok ys) ↔ ∀ p ∈ fs, stepOk O c defaults kw p = true
  | [] => by simp [validateFields]
  | (name, f) :: rest => by
    have ih := c14_validateFields_ok_iff O c defaults kw rest
    have hcons : (∀ p ∈ (name, f) :: rest, stepOk O c defaults kw p = true) ↔
        (stepOk O c defaults kw (name, f) = true ∧ ∀ p ∈ rest, stepOk O c defaults kw p = true) :=
      List.forall_mem_cons
    rw [hcons, ← ih]
    simp only [validateFields]
    have hs : stepOk O c defaults kw (name, f) = match argFor c defaults kw name with
        | none => true
        | some v => isOkR (validate O f v) := rfl
    rw [hs]
    cases ha : argFor c defaults kw name with
    | none => simp
    | some v =>
      cases hv : validate O f v with
      | error e => simp [hv, isOkR]
      | ok y =>
        simp only [hv, bindE_ok, isOkR, true_and]
        constructor
        · rintro ⟨ys, h⟩
          rcases bindE_eq_ok h with ⟨zs, hz, _⟩
          exact ⟨zs, hz⟩
        · rintro ⟨zs, hz⟩
          exact ⟨_, by rw [hz]; rfl⟩

/-- `cls(**kw)` of a class declaration succeeds iff the arguments bind and every field's step
    succeeds -/
theorem c14_construct_ok_iff (O : Oracles) (c : ClassOpts) (fs : List (String × FieldDecl))
    (defaults kw : List (String × PyVal)) :
    (∃ x, construct O (.struct c fs defaults) kw = .ok x) ↔
      (bindOk c (fs.map (·.1)) kw = true ∧ ∀ p ∈ fs, stepOk O c defaults kw p = true) := by
  rw [← c14_validateFields_ok_iff]
  simp only [construct, vConstruct]
  cases hb : bindOk c (fs.map (·.1)) kw with
  | false => simp
  | true =>
    simp only [Bool.not_true, Bool.false_eq_true, if_false, true_and]
    constructor
    · rintro ⟨x, h⟩
      rcases bindE_eq_ok h with ⟨ys, hy, _⟩
      exact ⟨ys, hy⟩
    · rintro ⟨ys, hy⟩
      exact ⟨_, by rw [hy]; rfl⟩

/-! ### order independence: any order of the fields (PYTHONHASHSEED) decides alike -/

theorem c14_bindOk_names_congr (c : ClassOpts) {n1 n2 : List String} (kw : List (String × PyVal))
    (h : ∀ n, n ∈ n1 ↔ n ∈ n2) : bindOk c n1 kw = bindOk c n2 kw := by
  simp only [bindOk]
  congr 2
  congr 1
  apply List.any_congr
  intro a _
  have : n1.contains a.1 = n2.contains a.1 := by
    cases h1 : n1.contains a.1 <;> cases h2 : n2.contains a.1 <;> simp_all
  rw [this]
where
  List.any_congr {α} {l : List α} {f g : α → Bool} (h : ∀ a ∈ l, f a = g a) : l.any f = l.any g := by
    induction l with
    | nil => rfl
    | cons x xs ih =>
      rw [List.any_cons, List.any_cons, h x List.mem_cons_self,
        ih fun a ha => h a (List.mem_cons_of_mem _ ha)]

/-- two field lists with the same members decide every keyword list alike -/
theorem c14_construct_accepts_congr (O : Oracles) (c : ClassOpts) {fs1 fs2 : List (String × FieldDecl)}
    (defaults kw : List (String × PyVal)) (h : ∀ p, p ∈ fs1 ↔ p ∈ fs2) :
    (∃ x, construct O (.struct c fs1 defaults) kw = .ok x) ↔
      (∃ x, construct O (.struct c fs2 defaults) kw = .ok x) := by
  rw [c14_construct_ok_iff, c14_construct_ok_iff]
  have hn : ∀ n, n ∈ fs1.map (·.1) ↔ n ∈ fs2.map (·.1) := by
    intro n
    simp only [List.mem_map]
    constructor
    · rintro ⟨p, hp, rfl⟩; exact ⟨p, (h p).mp hp, rfl⟩
    · rintro ⟨p, hp, rfl⟩; exact ⟨p, (h p).mpr hp, rfl⟩
  rw [c14_bindOk_names_congr c kw hn]
  constructor
  · rintro ⟨hb, hs⟩; exact ⟨hb, fun p hp => hs p ((h p).mpr hp)⟩
  · rintro ⟨hb, hs⟩; exact ⟨hb, fun p hp => hs p ((h p).mp hp)⟩

/-! ### the bridge's field list -/

theorem c14_mem_orderBy {names : List String} {fs : List (String × FieldDecl)} {p : String × FieldDecl} :
    p ∈ Bridge.orderBy names fs ↔ p.1 ∈ names ∧ lookup p.1 fs = some p.2 := by
  obtain ⟨n, d⟩ := p
  simp only [Bridge.orderBy, List.mem_filterMap]
  constructor
  · rintro ⟨a, ha, h⟩
    cases hl : lookup a fs with
    | none => simp [hl] at h
    | some d' =>
      simp only [hl, Option.map_some, Option.some.injEq, Prod.mk.injEq] at h
      rcases h with ⟨rfl, rfl⟩
      exact ⟨ha, hl⟩
  · rintro ⟨hn, hl⟩
    exact ⟨n, hn, by simp [hl]⟩

theorem c14_mem_sigOrder (c : ClassDef) (ord : List String) (n : String) :
    n ∈ Bridge.sigOrder c ord ↔ n ∈ Bridge.defOrder c := by
  simp only [Bridge.sigOrder, List.mem_append, List.mem_filter, List.contains_eq_mem,
    decide_eq_true_eq, Bool.not_eq_true', decide_eq_false_iff_not]
  constructor
  · rintro (⟨_, h⟩ | ⟨h, _⟩) <;> exact h
  · intro h
    by_cases hs : n ∈ dedupStr (ord ++ c.sig.opt)
    · exact Or.inl ⟨hs, h⟩
    · exact Or.inr ⟨h, fun hx => hs hx.1⟩

/-- the field list of `toStruct` has exactly the Field members of the class, whatever the order
    oracle says -/
theorem c14_mem_toStruct_fields (c : ClassDef) (ord : List String) (p : String × FieldDecl) :
    p ∈ Bridge.orderBy (Bridge.sigOrder c ord) (Bridge.fieldDecls c) ↔
      lookup p.1 (Bridge.fieldDecls c) = some p.2 := by
  rw [c14_mem_orderBy, c14_mem_sigOrder]
  constructor
  · exact fun h => h.2
  · intro h
    refine ⟨?_, h⟩
    rw [Bridge.defOrder, ← lookup_isSome_iff, h]; rfl

/-- C14 / bridge (direction d): the constructor's accept / reject decision does not depend on the
    order in which the interpreter iterates the set of required parameters -/
theorem c14_toStruct_order_irrelevant (O : Oracles) (c : ClassDef) (ord1 ord2 acc1 acc2 : List String)
    (kw : List (String × PyVal)) :
    (∃ x, construct O (c.toStruct ord1 acc1) kw = .ok x) ↔
      (∃ x, construct O (c.toStruct ord2 acc2) kw = .ok x) := by
  simp only [ClassDef.toStruct]
  rw [c14_construct_ok_iff, c14_construct_ok_iff]
  have hm : ∀ p, p ∈ Bridge.orderBy (Bridge.sigOrder c ord1) (Bridge.fieldDecls c) ↔
      p ∈ Bridge.orderBy (Bridge.sigOrder c ord2) (Bridge.fieldDecls c) := by
    intro p; rw [c14_mem_toStruct_fields, c14_mem_toStruct_fields]
  have hn : ∀ n, n ∈ (Bridge.orderBy (Bridge.sigOrder c ord1) (Bridge.fieldDecls c)).map (·.1) ↔
      n ∈ (Bridge.orderBy (Bridge.sigOrder c ord2) (Bridge.fieldDecls c)).map (·.1) := by
    intro n
    simp only [List.mem_map]
    constructor
    · rintro ⟨p, hp, rfl⟩; exact ⟨p, (hm p).mp hp, rfl⟩
    · rintro ⟨p, hp, rfl⟩; exact ⟨p, (hm p).mpr hp, rfl⟩
  have hb : bindOk { name := c.name, required := c.sig.req, addl := c.sig.kwargs, ignoreNone := c.ignoreNone,
                     immutable := c.immutable, accepts := acc1, immFields := Bridge.immFields c,
                     defOrder := Bridge.defOrder c }
              ((Bridge.orderBy (Bridge.sigOrder c ord1) (Bridge.fieldDecls c)).map (·.1)) kw
          = bindOk { name := c.name, required := c.sig.req, addl := c.sig.kwargs, ignoreNone := c.ignoreNone,
                     immutable := c.immutable, accepts := acc2, immFields := Bridge.immFields c,
                     defOrder := Bridge.defOrder c }
              ((Bridge.orderBy (Bridge.sigOrder c ord2) (Bridge.fieldDecls c)).map (·.1)) kw := by
    rw [c14_bindOk_names_congr _ kw hn]; rfl
  rw [hb]
  constructor
  · rintro ⟨h1, h2⟩; exact ⟨h1, fun p hp => h2 p ((hm p).mpr hp)⟩
  · rintro ⟨h1, h2⟩; exact ⟨h1, fun p hp => h2 p ((hm p).mp hp)⟩

/-! ### Field members behind the bridge's lists -/

theorem c14_lookup_memberDecls : ∀ {l : List (String × Member)}, KeysNodup l → ∀ n,
    lookup n (memberDecls l) = match lookup n l with
      | some (.field d _) => some d
      | _ => none
  | [], _, n => by simp [memberDecls, lookup]
  | (k, m) :: rest, h, n => by
    have hnd : k ∉ rest.map (·.1) ∧ (rest.map (·.1)).Nodup := List.nodup_cons.mp h
    have ih := c14_lookup_memberDecls (l := rest) hnd.2 n
    by_cases hk : n = k
    · subst hk
      cases m with
      | field d dflt => simp [memberDecls, lookup]
      | const v =>
        simp only [memberDecls, lookup, beq_self_eq_true, if_true]
        rw [ih, lookup_none_of_not_mem hnd.1]
    · have hb : (n == k) = false := by simpa using hk
      cases m with
      | field d dflt => simp only [memberDecls, lookup, hb, Bool.false_eq_true, if_false]; exact ih
      | const v => simp only [memberDecls, lookup, hb, Bool.false_eq_true, if_false]; exact ih

theorem c14_lookup_memberDefaults : ∀ {l : List (String × Member)}, KeysNodup l → ∀ n,
    lookup n (memberDefaults l) = match lookup n l with
      | some (.field _ (some d)) => some d.value
      | _ => none
  | [], _, n => by simp [memberDefaults, lookup]
  | (k, m) :: rest, h, n => by
    have hnd : k ∉ rest.map (·.1) ∧ (rest.map (·.1)).Nodup := List.nodup_cons.mp h
    have ih := c14_lookup_memberDefaults (l := rest) hnd.2 n
    by_cases hk : n = k
    · subst hk
      cases m with
      | field d dflt =>
        cases dflt with
        | some v => simp [memberDefaults, lookup]
        | none =>
          simp only [memberDefaults, lookup, beq_self_eq_true, if_true]
          rw [ih, lookup_none_of_not_mem hnd.1]
      | const v =>
        simp only [memberDefaults, lookup, beq_self_eq_true, if_true]
        rw [ih, lookup_none_of_not_mem hnd.1]
    · have hb : (n == k) = false := by simpa using hk
      cases m with
      | field d dflt =>
        cases dflt with
        | some v => simp only [memberDefaults, lookup, hb, Bool.false_eq_true, if_false]; exact ih
        | none => simp only [memberDefaults, lookup, hb, Bool.false_eq_true, if_false]; exact ih
      | const v => simp only [memberDefaults, lookup, hb, Bool.false_eq_true, if_false]; exact ih

/-- a name is a declared (Field) member -/
theorem c14_mem_defOrder {c : ClassDef} (hk : KeysNodup c.allFields) (n : String) :
    n ∈ Bridge.defOrder c ↔ ∃ d dflt, lookup n c.allFields = some (.field d dflt) := by
  rw [Bridge.defOrder, ← lookup_isSome_iff, Bridge.fieldDecls, c14_lookup_memberDecls hk]
  cases hl : lookup n c.allFields with
  | none => simp
  | some m => cases m <;> simp

theorem c14_defOrder_sub_fieldNames {c : ClassDef} (hk : KeysNodup c.allFields) {n : String}
    (h : n ∈ Bridge.defOrder c) : n ∈ c.fieldNames := by
  rcases (c14_mem_defOrder hk n).mp h with ⟨d, dflt, hl⟩
  rw [ClassDef.fieldNames, ← lookup_isSome_iff, hl]; rfl

/-! ### inheritance only adds strictness, at the level of constructors -/

theorem c14_mem_toStruct_names (c : ClassDef) (ord : List String) (n : String) :
    n ∈ (Bridge.orderBy (Bridge.sigOrder c ord) (Bridge.fieldDecls c)).map (·.1) ↔ n ∈ Bridge.defOrder c := by
  simp only [List.mem_map]
  constructor
  · rintro ⟨p, hp, rfl⟩
    have := (c14_mem_toStruct_fields c ord p).mp hp
    rw [Bridge.defOrder, ← lookup_isSome_iff, this]; rfl
  · intro h
    have h' := h
    rw [Bridge.defOrder, ← lookup_isSome_iff] at h'
    cases hl : lookup n (Bridge.fieldDecls c) with
    | none => simp [hl] at h'
    | some d => exact ⟨(n, d), (c14_mem_toStruct_fields c ord (n, d)).mpr hl, rfl⟩

theorem c14_lookup_restrictKw (b : ClassDef) (kw : List (String × PyVal)) {n : String}
    (h : n ∈ Bridge.defOrder b) : lookup n (restrictKw b kw) = lookup n kw := by
  have := lookup_filter_key (fun k => (Bridge.defOrder b).contains k) n kw
  rw [restrictKw, this]
  simp [h]

/-- C14 core: whatever the subclass constructor accepts, the base constructor accepts when it is
    given the arguments that are fields of the base — provided every declared field of the base is
    the same Field object in the subclass, the base demands no parameter the subclass does not, and
    the subclass does not switch class-level None-dropping on. -/
theorem c14_construct_restrict (O : Oracles) {S B : ClassDef}
    (hkS : KeysNodup S.allFields) (hkB : KeysNodup B.allFields)
    (hsame : ∀ n ∈ Bridge.defOrder B, lookup n S.allFields = lookup n B.allFields)
    (hreq : ∀ n ∈ B.sig.req, n ∈ S.sig.req)
    (hreqF : ∀ n ∈ B.sig.req, n ∈ Bridge.defOrder B)
    (hign : S.ignoreNone = true → B.ignoreNone = true)
    (ordS accS ordB accB : List String) (kw : List (String × PyVal)) {x : PyVal}
    (h : construct O (S.toStruct ordS accS) kw = .ok x) :
    ∃ y, construct O (B.toStruct ordB accB) (restrictKw B kw) = .ok y := by
  simp only [ClassDef.toStruct] at h ⊢
  rcases (c14_construct_ok_iff O _ _ _ kw).mp ⟨x, h⟩ with ⟨hbS, hsS⟩
  apply (c14_construct_ok_iff O _ _ _ _).mpr
  simp only [bindOk, Bool.and_eq_true, Bool.not_eq_true', Bool.not_eq_true, List.any_eq_false] at hbS ⊢
  refine ⟨⟨?_, ?_⟩, ?_⟩
  · -- required parameters of the base are supplied
    intro r hr
    rw [c14_lookup_restrictKw B kw (hreqF r hr)]
    exact hbS.1 r (hreq r hr)
  · -- nothing undeclared is left
    have : (restrictKw B kw).any (fun a =>
        !((Bridge.orderBy (Bridge.sigOrder B ordB) (Bridge.fieldDecls B)).map (·.1)).contains a.1) = false := by
      apply List.any_eq_false.mpr
      intro a ha
      have ha' : a.1 ∈ Bridge.defOrder B := by
        have := (List.mem_filter.mp ha).2
        simpa using this
      have := (c14_mem_toStruct_names B ordB a.1).mpr ha'
      simp [this]
    rw [this]; simp
  · intro p hp
    have hlB := (c14_mem_toStruct_fields B ordB p).mp hp
    have hpB : p.1 ∈ Bridge.defOrder B := by
      rw [Bridge.defOrder, ← lookup_isSome_iff, hlB]; rfl
    have hmem := hsame p.1 hpB
    -- the same member on both sides
    have hdB := hlB
    rw [Bridge.fieldDecls, c14_lookup_memberDecls hkB] at hdB
    have hdS : lookup p.1 (Bridge.fieldDecls S) = some p.2 := by
      rw [Bridge.fieldDecls, c14_lookup_memberDecls hkS, hmem]; exact hdB
    have hstepS := hsS p ((c14_mem_toStruct_fields S ordS p).mpr hdS)
    have hdef : lookup p.1 (Bridge.defaults B) = lookup p.1 (Bridge.defaults S) := by
      rw [Bridge.defaults, Bridge.defaults, c14_lookup_memberDefaults hkB, c14_lookup_memberDefaults hkS, hmem]
    simp only [stepOk, argFor] at hstepS ⊢
    rw [c14_lookup_restrictKw B kw hpB, hdef]
    cases hkw : lookup p.1 kw with
    | none => simpa [hkw] using hstepS
    | some v =>
      simp only [hkw] at hstepS ⊢
      by_cases hcB : (v.isNone && B.ignoreNone && !B.sig.req.contains p.1) = true
      · rw [if_pos hcB]
      · have hcS : ¬ ((v.isNone && S.ignoreNone && !S.sig.req.contains p.1) = true) := by
          intro hc
          apply hcB
          simp only [Bool.and_eq_true, Bool.not_eq_true', List.contains_eq_mem, decide_eq_false_iff_not] at hc ⊢
          exact ⟨⟨hc.1.1, hign hc.1.2⟩, fun hb => hc.2 (hreq _ hb)⟩
        rw [if_neg hcS] at hstepS
        rw [if_neg hcB]
        exact hstepS

end Typedpy
