/-
  Lemmas/DefineSig.lean — the constructor signature of every class of a reachable world names only
  declared, non-Constant fields, and `_constants` is exactly the Constant members of `_field_by_name`
  (`SigOk`, an invariant of every history).  Consequence: the two views of a class agree
  (`Bridge.wf`), so the constructor theorems of C14 need no such hypothesis.
-/
import TypedpyModel.Lemmas.DefineBridge
import TypedpyModel.Lemmas.DeriveTotal
namespace Typedpy

/-- every signature parameter is a field name and not a Constant; the Constants are those of
    `_field_by_name` -/
structure SigOk (c : ClassDef) : Prop where
  names : ∀ n, n ∈ c.sig.req ∨ n ∈ c.sig.opt → n ∈ c.fieldNames ∧ (lookup n c.constants).isNone = true
  consts : c.constants = constantsOf c.allFields

def WorldSigOk (w : World) : Prop := ∀ n c, w.find n = some c → SigOk c

theorem c14_lookup_constantsOf : ∀ {l : List (String × Member)}, KeysNodup l → ∀ n,
    lookup n (constantsOf l) = match lookup n l with
      | some (.const v) => some v
      | _ => none
  | [], _, n => by simp [constantsOf, lookup]
  | (k, m) :: rest, h, n => by
    have hnd : k ∉ rest.map (·.1) ∧ (rest.map (·.1)).Nodup := List.nodup_cons.mp h
    have ih := c14_lookup_constantsOf (l := rest) hnd.2 n
    simp only [constantsOf] at ih ⊢
    by_cases hk : n = k
    · subst hk
      cases m with
      | const v => simp [List.filterMap_cons, lookup]
      | field d dflt =>
        simp only [List.filterMap_cons, lookup, beq_self_eq_true, if_true]
        rw [ih, lookup_none_of_not_mem hnd.1]
    · have hb : (n == k) = false := by simpa using hk
      cases m with
      | const v => simp only [List.filterMap_cons, lookup, hb, Bool.false_eq_true, if_false]; exact ih
      | field d dflt => simp only [List.filterMap_cons, lookup, hb, Bool.false_eq_true, if_false]; exact ih

/-- the two views of a class agree whenever its signature is as the metaclass builds it -/
theorem c14_wf_of_sigOk {c : ClassDef} (hk : KeysNodup c.allFields) (hs : SigOk c) : Bridge.wf c = true := by
  simp only [Bridge.wf, Bool.and_eq_true, List.all_eq_true, List.contains_eq_mem, decide_eq_true_eq]
  have hconst : ∀ n ∈ Bridge.defOrder c, (lookup n c.constants).isNone = true := by
    intro n hn
    rcases (c14_mem_defOrder hk n).mp hn with ⟨d, dflt, hl⟩
    rw [hs.consts, c14_lookup_constantsOf hk, hl]
    rfl
  refine ⟨?_, hconst⟩
  intro n hn
  rcases hs.names n (Or.inl hn) with ⟨hf, hc⟩
  rw [c14_mem_defOrder hk]
  rw [ClassDef.fieldNames, ← lookup_isSome_iff] at hf
  cases hl : lookup n c.allFields with
  | none => simp [hl] at hf
  | some m =>
    cases m with
    | field d dflt => exact ⟨d, dflt, rfl⟩
    | const v =>
      rw [hs.consts, c14_lookup_constantsOf hk, hl] at hc
      cases hc

theorem c14_mem_ownMembers_names {n : String} : ∀ {es : List (String × SrcEntry)},
    n ∈ (ownMembers es).map (·.1) → ∃ m, (n, m) ∈ ownMembers es := by
  intro es h
  rcases List.mem_map.mp h with ⟨p, hp, rfl⟩
  exact ⟨p.2, hp⟩

theorem c14_mem_allSigParams_inv {p : String × Bool} : ∀ {l : List ClassDef}, p ∈ allSigParams l →
    ∃ bd ∈ l, p.1 ∈ bd.sig.req ∨ p.1 ∈ bd.sig.opt
  | [], h => by simp [allSigParams] at h
  | x :: xs, h => by
    simp only [allSigParams, List.mem_append] at h
    rcases h with h | h
    · refine ⟨x, List.mem_cons_self, ?_⟩
      simp only [sigParams, List.mem_append, List.mem_map] at h
      rcases h with ⟨a, ha, rfl⟩ | ⟨a, ha, rfl⟩
      · exact Or.inl ha
      · exact Or.inr ha
    · rcases c14_mem_allSigParams_inv h with ⟨bd, hbd, hp⟩
      exact ⟨bd, List.mem_cons_of_mem _ hbd, hp⟩

theorem c14_mem_dedupKeys {α} {p : String × α} : ∀ {l : List (String × α)}, p ∈ dedupKeys l → p ∈ l
  | [], h => by simp [dedupKeys] at h
  | q :: qs, h => by
    simp only [dedupKeys] at h
    rcases List.mem_cons.mp h with h | h
    · rw [h]; exact List.mem_cons_self
    · exact List.mem_cons_of_mem _ (c14_mem_dedupKeys (List.mem_filter.mp h).1)

/-- a name among the bases' parameters is a field of the new class -/
theorem c14_basesParams_fields {O : Oracles} {w : World} {src : ClassSrc} (hw : WorldOk w) (hs : WorldSigOk w)
    (hc : runChecks (checks O w src) = .ok ()) (hfresh : w.find src.name = none) {n : String}
    (hn : n ∈ (basesParams w src).map (·.1)) : n ∈ (build w src).fieldNames := by
  simp only [basesParams, List.map_map, List.mem_map, Function.comp] at hn
  rcases hn with ⟨p, hp, rfl⟩
  rcases c14_mem_allSigParams_inv (c14_mem_dedupKeys hp) with ⟨bd, hbd, hsig⟩
  have hbd' := (List.mem_filter.mp hbd).1
  rcases mem_baseDefs.mp hbd' with ⟨b, hb, hfb⟩
  have hnb := (hs b bd hfb).names p.1 hsig
  have hd : defineClass O w src = .ok (build w src) := by simp [defineClass, hc]
  -- the subclass has every field of its base
  have hw' := worldOk_add_define hw hd hfresh
  have hself : (w.add (build w src)).find (build w src).name = some (build w src) :=
    find_add_fresh (d := build w src) hfresh
  have hbn : bd.name = b := findCls_name hfb
  have hbd2 : (w.add (build w src)).find bd.name = some bd := by rw [hbn]; exact find_add_of_some hfb
  have hf := defFacts hc
  have hsub : src.bases.Sublist (mroTail w src) := c3merge_sublist _ _ _ hf.c3ok _ (by simp [mroSeqs])
  have hmem : bd.name ∈ (build w src).mro := by
    rw [hbn]; exact List.mem_cons_of_mem _ (hsub.subset hb)
  -- ancestor_fields_subset, inlined (it lives in Props/C14)
  have hcok := hw' _ _ hself
  have haok := hw' bd.name bd hbd2
  have h1 := hnb.1
  rw [fieldName_iff_owner haok] at h1
  rw [fieldName_iff_owner hcok]
  cases hk : firstOwner (ownRev (w.add (build w src))) p.1 bd.mro with
  | none => simp [hk] at h1
  | some k =>
    rcases firstOwner_some hk with ⟨hka, hko⟩
    rcases hcok.closed bd.name hmem with ⟨ad, had, hsl⟩
    rw [hbd2] at had; cases had
    exact firstOwner_isSome_of_mem (hsl.subset hka) hko

theorem c14_own_fields {O : Oracles} {w : World} {src : ClassSrc} (hw : WorldOk w)
    (hc : runChecks (checks O w src) = .ok ()) (hfresh : w.find src.name = none) {n : String}
    (hn : n ∈ (ownMembers src.entries).map (·.1)) : n ∈ (build w src).fieldNames := by
  have hd : defineClass O w src = .ok (build w src) := by simp [defineClass, hc]
  have hw' := worldOk_add_define hw hd hfresh
  have hself : (w.add (build w src)).find src.name = some (build w src) :=
    find_add_fresh (d := build w src) hfresh
  have hcok := hw' _ _ hself
  rw [fieldName_iff_owner hcok]
  have hmro : (build w src).mro = src.name :: mroTail w src := rfl
  rw [hmro]
  simp only [firstOwner]
  have : (lookup n (ownRev (w.add (build w src)) src.name)).isSome = true := by
    rw [lookup_isSome_iff]
    simp only [ownRev, ownOf, hself, List.map_reverse, List.mem_reverse]
    exact hn
  rw [if_pos this]; rfl

theorem c14_build_sigOk {O : Oracles} {w : World} {src : ClassSrc} (hw : WorldOk w) (hs : WorldSigOk w)
    (hc : runChecks (checks O w src) = .ok ()) (hfresh : w.find src.name = none) : SigOk (build w src) where
  consts := rfl
  names := by
    intro n hn
    have hcover : (n ∈ (basesParams w src).map (·.1) ∨ n ∈ (ownMembers src.entries).map (·.1))
        ∧ ((constantsOf (resolvedFields w src)).map (·.1)).contains n = false := by
      rcases hn with hn | hn
      · have hn' : n ∈ (sigOf w src).req := hn
        simp only [sigOf, mem_dedupStr, List.mem_append, List.mem_filter, Bool.and_eq_true,
          Bool.not_eq_true'] at hn'
        rcases hn' with ⟨h1, h2⟩ | ⟨h1, h2⟩
        · exact ⟨Or.inl h1, h2.2⟩
        · exact ⟨h1.symm, h2.1⟩
      · have hn' : n ∈ (sigOf w src).opt := hn
        simp only [sigOf, mem_dedupStr, List.mem_append, List.mem_filter, Bool.and_eq_true,
          Bool.not_eq_true'] at hn'
        rcases hn' with ⟨h1, h2⟩ | ⟨h1, h2⟩
        · exact ⟨Or.inl h1, h2.2⟩
        · exact ⟨Or.inr h1, h2.2⟩
    refine ⟨?_, ?_⟩
    · rcases hcover.1 with h | h
      · exact c14_basesParams_fields hw hs hc hfresh h
      · exact c14_own_fields hw hc hfresh h
    · show (lookup n (constantsOf (resolvedFields w src))).isNone = true
      cases hl : lookup n (constantsOf (resolvedFields w src)) with
      | none => rfl
      | some v =>
        exfalso
        have : n ∈ (constantsOf (resolvedFields w src)).map (·.1) := by
          rw [← lookup_isSome_iff, hl]; rfl
        have h2 := hcover.2
        simp only [List.contains_eq_mem, decide_eq_false_iff_not] at h2
        exact h2 this

theorem c14_sigOk_simple {c : ClassDef} (hs : c.sig = {}) (hc : c.constants = []) (ha : c.allFields = []) :
    SigOk c where
  consts := by rw [hc, ha]; rfl
  names := by
    intro n hn
    rw [hs] at hn
    rcases hn with h | h <;> cases h

theorem c14_worldSigOk_init (bc bn : Bool) : WorldSigOk (initWorld bc bn) := by
  intro n c hc
  have hm : c ∈ (initWorld bc bn).classes := c12_findCls_mem hc
  simp only [initWorld, World.init, List.mem_cons, List.not_mem_nil, or_false] at hm
  rcases hm with rfl | rfl | rfl | rfl <;> exact c14_sigOk_simple rfl rfl rfl

theorem c14_worldSigOk_step {O : Oracles} {w : World} {s : Step} {c : ClassDef} (hw : WorldOk w)
    (hs : WorldSigOk w) (h : stepClass O w s = .ok c) (hfresh : w.find c.name = none) :
    WorldSigOk (w.add c) := by
  intro n d hd
  rcases find_add_inv hd with h1 | ⟨_, rfl, _⟩
  · exact hs n d h1
  · cases s with
    | define src =>
      simp only [stepClass] at h
      rcases defineClass_ok h with ⟨hc, rfl⟩
      exact c14_build_sigOk hw hs hc hfresh
    | mixin m =>
      simp only [stepClass] at h
      cases h
      exact c14_sigOk_simple rfl rfl rfl
    | derive op source newName =>
      simp only [stepClass] at h
      split at h
      · simp only [deriveClass] at h
        rcases bindE_eq_ok h with ⟨src, _, hdd⟩
        rcases defineClass_ok hdd with ⟨hc, rfl⟩
        exact c14_build_sigOk hw hs hc hfresh
      · cases h

/-- every class of every reachable world has a well-built signature -/
theorem reachable_sigOk {O : Oracles} {w : World} (h : Reachable O w) : WorldSigOk w := by
  induction h with
  | init bc bn => exact c14_worldSigOk_init bc bn
  | step hr hs hf ih => exact c14_worldSigOk_step (reachable_ok hr) ih hs hf

/-- … hence the two views of every class of every reachable world agree -/
theorem reachable_bridge_wf {O : Oracles} {w : World} (h : Reachable O w) {n : String} {c : ClassDef}
    (hc : w.find n = some c) : Bridge.wf c = true :=
  c14_wf_of_sigOk (classOk_keysNodup (reachable_ok h n c hc)) (reachable_sigOk h n c hc)

end Typedpy
