/-
  Lemmas/NestedHooks.lean — `__validate__` hooks of NESTED classes: `allInst H v` says that every Structure instance
  inside the value `v` (at any depth: attributes, elements, keys, values) is accepted by the hook of its class
  (`H : class name → attribute state → Bool`, universally quantified).  Validation never builds a nested instance of a
  hooked class (a ClassReference field stores the instance it is given; only an inline StructureReference - which has no
  hook - is constructed), so it preserves `allInst`: `norm_allInst`, on declarations without inline StructureReference.
-/
import TypedpyModel.Lemmas.Idempotent
import TypedpyModel.Spec.NestedHooks
namespace Typedpy
open PyVal (pyEq)

theorem c01_allInstList_iff (H : Hooks) : ∀ xs, allInstList H xs = true ↔ ∀ x ∈ xs, allInst H x = true
  | [] => by simp [allInstList]
  | x :: xs => by simp [allInstList, c01_allInstList_iff H xs]

theorem c01_allInstAttrs_iff (H : Hooks) : ∀ xs : List (String × PyVal),
    allInstAttrs H xs = true ↔ ∀ e ∈ xs, allInst H e.2 = true
  | [] => by simp [allInstAttrs]
  | (n, v) :: xs => by simp [allInstAttrs, c01_allInstAttrs_iff H xs]

theorem c01_allInstPairs_iff (H : Hooks) : ∀ xs : List (PyVal × PyVal),
    allInstPairs H xs = true ↔ ∀ e ∈ xs, allInst H e.1 = true ∧ allInst H e.2 = true
  | [] => by simp [allInstPairs]
  | (k, v) :: xs => by simp [allInstPairs, c01_allInstPairs_iff H xs, and_assoc]

mutual
/-- declarations without an inline StructureReference anywhere -/
def noInline : FieldDecl → Bool
  | .seqOf _ f _ => noInline f
  | .seqPos _ fs _ _ => noInlines fs
  | .setOf _ f _ => noInline f
  | .tupleOf f _ => noInline f
  | .tuplePos fs _ => noInlines fs
  | .mapOf kf vf _ => noInline kf && noInline vf
  | .struct c _ _ => !c.inline
  | .anyOf fs => noInlines fs
  | .oneOf _ => true
  | .allOf _ => true
  | .notF _ => true
  | .number _ => true
  | .integer _ => true
  | .float _ => true
  | .string _ _ _ => true
  | .boolean => true
  | .enumLit _ => true
  | .enumCls _ _ => true
  | .seqAny _ _ => true
  | .setAny _ _ => true
  | .mapAny _ => true
  | .noneF => true
  | .anything => true
termination_by structural f => f
def noInlines : List FieldDecl → Bool
  | [] => true
  | f :: fs => noInline f && noInlines fs
termination_by structural fs => fs
end

theorem c01_seqElems_allInst (H : Hooks) (k : SeqKind) (v : PyVal) (xs : List PyVal) (hs : seqElems k v = some xs) :
    allInst H v = allInstList H xs := by
  cases k <;> cases v <;> simp [seqElems] at hs <;> subst hs <;> simp [allInst]

theorem c01_mkSeq_allInst (H : Hooks) (k : SeqKind) (xs : List PyVal) : allInst H (mkSeq k xs) = allInstList H xs := by
  cases k <;> simp [mkSeq, allInst]

theorem c01_map_allInst (H : Hooks) (a : PyVal → Bool) (n : PyVal → PyVal) (xs : List PyVal)
    (hn : ∀ x ∈ xs, a x = true → allInst H x = true → allInst H (n x) = true)
    (ha : xs.all a = true) (hx : allInstList H xs = true) : allInstList H (xs.map n) = true := by
  rw [c01_allInstList_iff] at hx ⊢
  intro y hy
  rcases List.mem_map.1 hy with ⟨x, hxm, rfl⟩
  exact hn x hxm ((List.all_eq_true.1 ha) x hxm) (hx x hxm)

theorem c01_dedup_allInst (H : Hooks) (xs : List PyVal) (h : allInstList H xs = true) : allInstList H (dedup xs) = true := by
  rw [c01_allInstList_iff] at h ⊢
  exact fun y hy => h y (c01_mem_dedup xs y hy)

theorem c01_dictOfPairs_allInst (H : Hooks) (l : List (PyVal × PyVal)) (h : allInstPairs H l = true) :
    allInstPairs H (dictOfPairs l) = true := by
  rw [c01_allInstPairs_iff] at h ⊢
  exact c01_dictOfPairs_forall (fun k => allInst H k = true) (fun v => allInst H v = true) l h

mutual
theorem norm_allInst (O : Oracles) (H : Hooks) : ∀ (f : FieldDecl) (v : PyVal), noInline f = true →
    admits O f v = true → allInst H v = true → allInst H (norm O f v) = true
  | .number _, v, _, _, h => by simp only [norm]; exact h
  | .integer _, v, _, _, h => by simp only [norm]; exact h
  | .float _, v, _, _, h => by
    simp only [norm]
    cases v <;> first | exact h | simp [nFloat, allInst]
  | .string _ _ _, v, _, _, h => by simp only [norm]; exact h
  | .boolean, v, _, _, h => by
    simp only [norm]
    cases v with
    | str s =>
      simp only [nBoolean]
      split
      · simp [allInst]
      · split <;> simp [allInst]
    | _ => exact h
  | .enumLit _, v, _, _, h => by simp only [norm]; exact h
  | .enumCls cls _, v, _, _, h => by
    simp only [norm]
    cases v <;> first | exact h | simp [nEnumCls, allInst]
  | .seqAny k _, v, _, ha, h => by
    simp only [norm, nSeq, admits, aSeq] at *
    cases hs : seqElems k v with
    | none => simp [hs] at ha
    | some xs => simp only [id, c01_mkSeq_allInst]; rw [← c01_seqElems_allInst H k v xs hs]; exact h
  | .seqOf k f _, v, hf, ha, h => by
    simp only [norm, nSeq, admits, aSeq, noInline] at *
    cases hs : seqElems k v with
    | none => simp [hs] at ha
    | some xs =>
      simp only [hs, and_true_iff] at ha
      rw [c01_seqElems_allInst H k v xs hs] at h
      simp only [c01_mkSeq_allInst]
      exact c01_map_allInst H _ _ xs (fun x _ hax hx => norm_allInst O H f x hf hax hx) ha.1.2 h
  | .seqPos k fs _ _, v, hf, ha, h => by
    simp only [norm, nSeq, admits, aSeq, noInline] at *
    cases hs : seqElems k v with
    | none => simp [hs] at ha
    | some xs =>
      simp only [hs, and_true_iff] at ha
      rw [c01_seqElems_allInst H k v xs hs] at h
      simp only [c01_mkSeq_allInst]
      exact normZip_allInst O H fs xs hf ha.1.2 h
  | .setAny _ _, v, _, ha, h => by
    simp only [norm, nSet, admits, aSet] at *
    cases v <;> simp at ha
    simp only [allInst, id] at h ⊢
    exact c01_dedup_allInst H _ h
  | .setOf _ f _, v, hf, ha, h => by
    simp only [norm, nSet, admits, aSet, noInline] at *
    cases v <;> simp at ha
    rename_i fr xs
    simp only [allInst] at h ⊢
    exact c01_dedup_allInst H _ (c01_map_allInst H _ _ xs (fun x _ hax hx => norm_allInst O H f x hf hax hx)
      (by simpa using ha.1.2) h)
  | .tupleOf f _, v, hf, ha, h => by
    simp only [norm, nTuple, admits, aTuple, noInline] at *
    cases v <;> simp at ha
    rename_i xs
    simp only [allInst] at h ⊢
    exact c01_map_allInst H _ _ xs (fun x _ hax hx => norm_allInst O H f x hf hax hx) (by simpa using ha.1.2) h
  | .tuplePos fs _, v, hf, ha, h => by
    simp only [norm, nTuple, admits, aTuple, noInline] at *
    cases v <;> simp at ha
    rename_i xs
    simp only [allInst] at h ⊢
    exact normZip_allInst O H fs xs hf ha.1.2 h
  | .mapAny _, v, _, ha, h => by
    simp only [norm, nMap, admits, aMap] at *
    cases v <;> simp at ha
    simp only [allInst, id] at h ⊢
    exact c01_dictOfPairs_allInst H _ h
  | .mapOf kf vf _, v, hf, ha, h => by
    simp only [norm, nMap, admits, aMap, noInline, and_true_iff] at *
    cases v <;> simp at ha
    rename_i kvs
    simp only [allInst] at h ⊢
    apply c01_dictOfPairs_allInst
    rw [c01_allInstPairs_iff] at h ⊢
    intro e he
    rcases List.mem_map.1 he with ⟨kv, hkv, rfl⟩
    have hadm := ha.1.2 kv.1 kv.2 hkv
    exact ⟨norm_allInst O H kf kv.1 hf.1 hadm.1 (h kv hkv).1, norm_allInst O H vf kv.2 hf.2 hadm.2 (h kv hkv).2⟩
  | .struct c _ _, v, hf, _, h => by
    simp only [noInline, Bool.not_eq_true'] at hf
    simp only [norm, hf, Bool.false_eq_true, if_false]; exact h
  | .anyOf fs, v, hf, ha, h => by
    simp only [norm, admits, noInline] at *
    exact normAny_allInst O H fs v hf h
  | .oneOf _, v, _, _, h => by simp only [norm]; exact h
  | .allOf _, v, _, _, h => by simp only [norm]; exact h
  | .notF _, v, _, _, h => by simp only [norm]; exact h
  | .noneF, v, _, _, h => by simp only [norm]; exact h
  | .anything, v, _, _, h => by simp only [norm]; exact h

theorem normZip_allInst (O : Oracles) (H : Hooks) : ∀ (fs : List FieldDecl) (xs : List PyVal), noInlines fs = true →
    admitsZip O fs xs = true → allInstList H xs = true → allInstList H (normZip O fs xs) = true
  | [], xs, _, _, h => by simp only [normZip]; exact h
  | _ :: _, [], _, _, _ => by simp only [normZip, allInstList]
  | f :: fs, x :: xs, hf, ha, h => by
    simp only [noInlines, admitsZip, allInstList, and_true_iff] at hf ha h
    simp only [normZip, allInstList, and_true_iff]
    exact ⟨norm_allInst O H f x hf.1 ha.1 h.1, normZip_allInst O H fs xs hf.2 ha.2 h.2⟩

theorem normAny_allInst (O : Oracles) (H : Hooks) : ∀ (fs : List FieldDecl) (v : PyVal), noInlines fs = true →
    allInst H v = true → allInst H (normAny O fs v) = true
  | [], v, _, h => by simp only [normAny]; exact h
  | f :: fs, v, hf, h => by
    simp only [noInlines, and_true_iff] at hf
    simp only [normAny]
    cases ha : admits O f v
    · simp only [Bool.false_eq_true, if_false]; exact normAny_allInst O H fs v hf.2 h
    · simp only [if_true]; exact norm_allInst O H f v hf.1 ha h
end

end Typedpy
